import AkVerif.Lemmas.TableFmt
import AkVerif.Lemmas.TableRender
/-!
Invariants of the tables reachable by constructing, printing, `table.fmt = s` and re-constructing
(`Reach`, `Inv`), and what reading the printed format back does to a table that satisfies them.
Used by `Props/C13.lean`.
-/
namespace Table
open Ak

/-! ## invariants of reachable tables -/

/-- limits are natural numbers (or absent) -/
def NatLim (f : Fmt) : Prop := (∀ a, f.limF = some a → 0 ≤ a) ∧ (∀ b, f.limL = some b → 0 ≤ b)

/-- `any_lines_skipped = False` is the truth about the table as it is now -/
def SkipFaithful (t : Tbl) : Prop :=
  NatLim t.fmt → t.fmt.anySkipped = some false →
    ∀ tls, mkTableLines (breakFields t.fmt.cols) Option.none t.records = .ok tls →
      applyLimits t.fmt.limF t.fmt.limL tls t.records.length = (tls, 0)

/-- a `False` skipped-lines flag was set by a print: the body lines of the table can be made -/
def SkipWitness (t : Tbl) : Prop :=
  t.fmt.anySkipped = some false →
    ∃ tls, mkTableLines (breakFields t.fmt.cols) Option.none t.records = .ok tls

/-- every column shows a field of the table (found under its name) with a modifier its type accepts -/
def ColsOk (t : Tbl) : Prop :=
  ∀ c ∈ t.fmt.cols, findField t.fmt.fields c.field.name = some c.field ∧
    verifyModifier c.field.ftype c.modifier = .ok ()

def footerOf (a : CtorArgs) : List Char :=
  match a.footer with
  | some f => f
  | Option.none => Gen.C12.footerPrefix ++ natToDec a.records.length ++ Gen.C12.footerSuffix

structure Inv (a : CtorArgs) (specs : List FieldSpec) (t : Tbl) : Prop where
  nodup : hasDup (specs.map (·.name)) = false
  records_eq : t.records = a.records
  header_eq : t.header = a.header
  footer_eq : t.footer = footerOf a
  fields_eq : t.fmt.fields = mkFields 0 specs
  colsOk : ColsOk t
  widths : WidthsFaithful t
  skip : SkipFaithful t
  skipWit : SkipWitness t

theorem mkFields_names (pos : Nat) (specs : List FieldSpec) :
    (mkFields pos specs).map (·.name) = specs.map (·.name) := by
  induction specs generalizing pos with
  | nil => rfl
  | cons s ss ih => simp [mkFields, ih]

theorem findField_self (fields : List Field) (h : hasDup (fields.map (·.name)) = false) :
    ∀ f ∈ fields, findField fields f.name = some f := by
  induction fields with
  | nil => simp
  | cons g gs ih =>
    simp only [List.map_cons, hasDup, Bool.or_eq_false_iff] at h
    intro f hf
    rcases List.mem_cons.mp hf with rfl | hf
    · simp [findField]
    · have hne : g.name ≠ f.name := by
        intro e
        have : (gs.map (·.name)).contains g.name = true := by
          rw [e]; simp only [List.contains_eq_mem, List.mem_map, decide_eq_true_eq]; exact ⟨f, hf, rfl⟩
        rw [this] at h; exact absurd h.1 (by simp)
      have := ih h.2 f hf
      simp only [findField] at this ⊢
      rw [List.find?_cons_of_neg (by simpa using hne)]
      exact this

theorem findField_name (fields : List Field) (n : List Char) (f : Field) (h : findField fields n = some f) :
    f.name = n ∧ f ∈ fields ∧ findField fields f.name = some f := by
  unfold findField at h
  have h1 := List.find?_some h
  have h2 := List.mem_of_find?_eq_some h
  simp only [decide_eq_true_eq] at h1
  refine ⟨h1, h2, ?_⟩
  unfold findField
  rw [h1]; exact h

theorem verify_none (ft : FType) : verifyModifier ft Option.none = .ok () := by
  cases ft <;> simp [verifyModifier, enumMod?]

theorem mkCol_ok (f : Field) (p : PCol) (a b : Option Nat) (c : Col) (h : mkCol f p a b = .ok c) :
    c.field = f ∧ c.modifier = p.modifier ∧ c.breakBy = p.breakBy ∧ c.width = Option.none ∧
      verifyModifier f.ftype p.modifier = .ok () := by
  simp only [mkCol, bind_ok] at h
  obtain ⟨u, hu, h⟩ := h
  cases h
  cases u
  exact ⟨rfl, rfl, rfl, rfl, hu⟩

theorem setterCols_ok (fields : List Field) (ps : List PCol) (cols : List Col)
    (h : setterCols fields ps = .ok cols) :
    ∀ c ∈ cols, findField fields c.field.name = some c.field ∧
      verifyModifier c.field.ftype c.modifier = .ok () ∧ c.width = Option.none := by
  induction ps generalizing cols with
  | nil => simp [setterCols] at h; subst h; simp
  | cons p ps ih =>
    unfold setterCols at h
    cases hf : findField fields p.fieldName with
    | none => simp [hf] at h
    | some f =>
      simp only [hf] at h
      obtain ⟨_, _, hself⟩ := findField_name fields _ f hf
      cases hw : p.width with
      | hidden => simp only [hw] at h; exact ih cols h
      | unspec =>
        simp only [hw, bind_ok] at h
        obtain ⟨c, hc, rest, hr, h⟩ := h
        cases h
        obtain ⟨h1, h2, _, h4, h5⟩ := mkCol_ok f p _ _ c hc
        intro x hx
        rcases List.mem_cons.mp hx with rfl | hx
        · rw [h1, h2]; exact ⟨hself, h5, h4⟩
        · exact ih rest hr x hx
      | range a b =>
        simp only [hw, bind_ok] at h
        obtain ⟨c, hc, rest, hr, h⟩ := h
        cases h
        obtain ⟨h1, h2, _, h4, h5⟩ := mkCol_ok f p _ _ c hc
        intro x hx
        rcases List.mem_cons.mp hx with rfl | hx
        · rw [h1, h2]; exact ⟨hself, h5, h4⟩
        · exact ih rest hr x hx

theorem ctorCols_ok (fields : List Field) (ps : List PCol) (cols : List Col)
    (h : ctorCols fields ps = .ok cols) :
    ∀ c ∈ cols, findField fields c.field.name = some c.field ∧
      verifyModifier c.field.ftype c.modifier = .ok () ∧ c.width = Option.none := by
  induction ps generalizing cols with
  | nil => simp [ctorCols] at h; subst h; simp
  | cons p ps ih =>
    unfold ctorCols at h
    cases hw : p.width with
    | hidden => simp only [hw] at h; exact ih cols h
    | unspec =>
      simp only [hw] at h
      cases hf : findField fields p.fieldName with
      | none => simp [hf] at h
      | some f =>
        simp only [hf, bind_ok] at h
        obtain ⟨_, _, hself⟩ := findField_name fields _ f hf
        obtain ⟨c, hc, rest, hr, h⟩ := h
        cases h
        obtain ⟨h1, h2, _, h4, h5⟩ := mkCol_ok f p _ _ c hc
        intro x hx
        rcases List.mem_cons.mp hx with rfl | hx
        · rw [h1, h2]; exact ⟨hself, h5, h4⟩
        · exact ih rest hr x hx
    | range a b =>
      simp only [hw] at h
      cases hf : findField fields p.fieldName with
      | none => simp [hf] at h
      | some f =>
        simp only [hf, bind_ok] at h
        obtain ⟨_, _, hself⟩ := findField_name fields _ f hf
        obtain ⟨c, hc, rest, hr, h⟩ := h
        cases h
        obtain ⟨h1, h2, _, h4, h5⟩ := mkCol_ok f p _ _ c hc
        intro x hx
        rcases List.mem_cons.mp hx with rfl | hx
        · rw [h1, h2]; exact ⟨hself, h5, h4⟩
        · exact ih rest hr x hx

theorem dfltCols_ok (fields : List Field) (h : hasDup (fields.map (·.name)) = false) :
    ∀ c ∈ fields.map dfltCol, findField fields c.field.name = some c.field ∧
      verifyModifier c.field.ftype c.modifier = .ok () ∧ c.width = Option.none := by
  intro c hc
  simp only [List.mem_map] at hc
  obtain ⟨f, hf, rfl⟩ := hc
  exact ⟨findField_self fields h f hf, verify_none _, rfl⟩

theorem skipFaithful_of_none (t : Tbl) (h : t.fmt.anySkipped = Option.none) : SkipFaithful t := by
  intro _ hs; rw [h] at hs; cases hs

theorem skipWitness_of_none (t : Tbl) (h : t.fmt.anySkipped = Option.none) : SkipWitness t := by
  intro hs; rw [h] at hs; cases hs

/-- `PPTable(records, fields=[…], …)` establishes the invariants -/
theorem mkTable_inv (a : CtorArgs) (specs : List FieldSpec) (ha : a.fields = some specs) (t : Tbl)
    (h : mkTable a = .ok t) : Inv a specs t := by
  unfold mkTable at h
  simp only [bind_ok, ha] at h
  obtain ⟨p, _, fc, hfc, h⟩ := h
  cases h
  -- the fields and columns
  have hnd : hasDup (specs.map (·.name)) = false := by
    cases hd : hasDup (specs.map (·.name)) with
    | false => rfl
    | true => simp [hd] at hfc
  simp only [hnd, Bool.false_eq_true, if_false] at hfc
  have hnd' : hasDup ((mkFields 0 specs).map (·.name)) = false := by rw [mkFields_names]; exact hnd
  have hfc' : fc.1 = mkFields 0 specs ∧ ∀ c ∈ fc.2, findField (mkFields 0 specs) c.field.name = some c.field ∧
      verifyModifier c.field.ftype c.modifier = .ok () ∧ c.width = Option.none := by
    cases hp : p.cols with
    | explicit cs =>
      simp only [hp] at hfc
      split at hfc
      · cases hfc
      · simp only [bind_ok] at hfc
        obtain ⟨cols, hcols, hfc⟩ := hfc
        cases hfc
        exact ⟨rfl, ctorCols_ok _ _ _ hcols⟩
    | keep => simp only [hp] at hfc; cases hfc; exact ⟨rfl, dfltCols_ok _ hnd'⟩
    | all => simp only [hp] at hfc; cases hfc; exact ⟨rfl, dfltCols_ok _ hnd'⟩
  obtain ⟨hf1, hf2⟩ := hfc'
  have hcols : ∀ c ∈ (match a.skip with
      | some names => fc.2.filter fun (c : Col) => !names.contains c.field.name
      | Option.none => fc.2), findField (mkFields 0 specs) c.field.name = some c.field ∧
      verifyModifier c.field.ftype c.modifier = .ok () ∧ c.width = Option.none := by
    intro c hc
    cases hs : a.skip with
    | none => rw [hs] at hc; exact hf2 c hc
    | some names => rw [hs] at hc; exact hf2 c (List.mem_filter.mp hc).1
  refine ⟨hnd, rfl, rfl, rfl, hf1, ?_, ?_, ?_, ?_⟩
  · intro c hc
    simp only [hf1]
    exact ⟨(hcols c hc).1, (hcols c hc).2.1⟩
  · exact widthsFaithful_of_fresh _ (fun c hc => (hcols c hc).2.2)
  · exact skipFaithful_of_none _ rfl
  · exact skipWitness_of_none _ rfl

theorem inv_congr_args (a a' : CtorArgs) (specs : List FieldSpec) (t : Tbl) (h : Inv a' specs t)
    (h1 : a'.records = a.records) (h2 : a'.header = a.header) (h3 : a'.footer = a.footer) : Inv a specs t :=
  ⟨h.nodup, h.records_eq.trans h1, h.header_eq.trans h2,
   by rw [h.footer_eq]; simp [footerOf, h1, h3], h.fields_eq, h.colsOk, h.widths, h.skip, h.skipWit⟩

/-- `table.fmt = s` preserves the invariants, whatever `s` is -/
theorem applySetter_inv (a : CtorArgs) (specs : List FieldSpec) (t t' : Tbl) (s : List Char)
    (hi : Inv a specs t) (h : applySetter t s = .ok t') : Inv a specs t' := by
  unfold applySetter at h
  simp only [bind_ok] at h
  obtain ⟨p, _, cols, hcols, h⟩ := h
  cases h
  have hnd' : hasDup (t.fmt.fields.map (·.name)) = false := by
    rw [hi.fields_eq, mkFields_names]; exact hi.nodup
  have hc : ∀ c ∈ cols, findField t.fmt.fields c.field.name = some c.field ∧
      verifyModifier c.field.ftype c.modifier = .ok () ∧ c.width = Option.none := by
    cases hp : p.cols with
    | keep =>
      simp only [hp, Except.ok.injEq] at hcols
      subst hcols
      intro c hc
      simp only [List.mem_map] at hc
      obtain ⟨c0, hc0, rfl⟩ := hc
      exact ⟨(hi.colsOk c0 hc0).1, (hi.colsOk c0 hc0).2, rfl⟩
    | all =>
      simp only [hp, Except.ok.injEq] at hcols
      subst hcols
      exact dfltCols_ok _ hnd'
    | explicit cs =>
      simp only [hp] at hcols
      exact setterCols_ok _ _ _ hcols
  refine ⟨hi.nodup, hi.records_eq, hi.header_eq, hi.footer_eq, hi.fields_eq, ?_, ?_, ?_, ?_⟩
  · intro c hcm; exact ⟨(hc c hcm).1, (hc c hcm).2.1⟩
  · exact widthsFaithful_of_fresh _ (fun c hcm => (hc c hcm).2.2)
  · exact skipFaithful_of_none _ rfl
  · exact skipWitness_of_none _ rfl

theorem applyLimits_natLim (f : Fmt) (h : NatLim f) (tls : List TLine) (n : Nat) (hb : brkOk tls)
    (hn : tls.countP TLine.isRec = n) :
    applyLimits f.limF f.limL tls n = (tls, 0) ∨ (applyLimits f.limF f.limL tls n).2 > 0 := by
  cases hF : f.limF with
  | none => left; simp [applyLimits]
  | some a =>
    cases hL : f.limL with
    | none => left; simp [applyLimits]
    | some b =>
      obtain ⟨first, rfl⟩ := Int.eq_ofNat_of_zero_le (h.1 a hF)
      obtain ⟨last, rfl⟩ := Int.eq_ofNat_of_zero_le (h.2 b hL)
      rw [applyLimits_nat]
      by_cases hgt : tls.length > first + last + 1
      · right
        obtain ⟨hk, hpos⟩ := skipped_count tls first last hb hgt
        simp only [hgt, if_true]
        rw [← hn, hk]
        omega
      · left; simp [hgt]

/-- printing preserves the invariants -/
theorem render_inv (a : CtorArgs) (specs : List FieldSpec) (t t' : Tbl) (ls : List Line)
    (hi : Inv a specs t) (h : render t = .ok (t', ls)) : Inv a specs t' := by
  obtain ⟨tls, ws, nTitle, body, R⟩ := render_elim h
  have hcols := finalWidths_cols _ _ _ R.ws_eq
  have hst := R.state_eq
  have hbf : breakFields t'.fmt.cols = breakFields t.fmt.cols := by
    rw [hst]; simp only [printed]; rw [breakFields_setWidths, hcols]
  refine ⟨hi.nodup, ?_, ?_, ?_, ?_, ?_, widthsFaithful_render h hi.widths, ?_, ?_⟩
  · rw [hst]; exact hi.records_eq
  · rw [hst]; exact hi.header_eq
  · rw [hst]; exact hi.footer_eq
  · rw [hst]; exact hi.fields_eq
  · intro c hc
    rw [hst] at hc ⊢
    simp only [printed, setWidths, List.mem_map] at hc ⊢
    obtain ⟨cw, hcw, rfl⟩ := hc
    have : cw.1 ∈ t.fmt.cols := by rw [← hcols]; exact List.mem_map_of_mem hcw
    exact hi.colsOk cw.1 this
  · intro hnat hs tls' htls'
    rw [hbf] at htls'
    have hrec : t'.records = t.records := by rw [hst]; rfl
    have hF : t'.fmt.limF = t.fmt.limF := by rw [hst]; rfl
    have hL : t'.fmt.limL = t.fmt.limL := by rw [hst]; rfl
    rw [hrec] at htls' ⊢
    rw [R.tls_eq] at htls'
    cases htls'
    rw [hF, hL]
    have hnat' : NatLim t.fmt := by
      constructor
      · intro x hx; exact hnat.1 x (by rw [hF]; exact hx)
      · intro x hx; exact hnat.2 x (by rw [hL]; exact hx)
    have hb := mkTableLines_brkOk _ _ _ _ R.tls_eq
    have hn : tls.countP TLine.isRec = t.records.length := by
      rw [countP_isRec_eq, mkTableLines_rows _ _ _ _ R.tls_eq]
    rcases applyLimits_natLim t.fmt hnat' tls _ hb hn with h0 | hpos
    · exact h0
    · rw [hst] at hs
      simp only [printed, Option.some.injEq, decide_eq_false_iff_not] at hs
      exact absurd hpos hs
  · intro _
    have hrec : t'.records = t.records := by rw [hst]; rfl
    exact ⟨tls, by rw [hbf, hrec]; exact R.tls_eq⟩

/-- a table built from a format object (`fmt_obj=`) satisfies the invariants, whatever records, limits
and skipped columns it is given -/
theorem fromFmt_inv (a : CtorArgs) (specs : List FieldSpec) (f : Fmt)
    (hnd : hasDup (specs.map (·.name)) = false) (hf : f.fields = mkFields 0 specs)
    (hc : ∀ c ∈ f.cols, findField f.fields c.field.name = some c.field ∧
      verifyModifier c.field.ftype c.modifier = .ok ())
    (lims : Option (Option Int × Option Int)) (skip : Option (List (List Char))) :
    Inv a specs (mkTableFromFmt f a.records lims skip a.header a.footer) := by
  have hcols : ∀ c ∈ (mkTableFromFmt f a.records lims skip a.header a.footer).fmt.cols,
      (findField f.fields c.field.name = some c.field ∧ verifyModifier c.field.ftype c.modifier = .ok ()) ∧
      c.width = Option.none := by
    intro c hcm
    simp only [mkTableFromFmt, cloneFmt] at hcm
    have hmem : c ∈ f.cols.map (fun c => { c with width := Option.none }) := by
      cases skip with
      | none => exact hcm
      | some names => exact (List.mem_filter.mp hcm).1
    simp only [List.mem_map] at hmem
    obtain ⟨c0, hc0, rfl⟩ := hmem
    exact ⟨hc c0 hc0, rfl⟩
  refine ⟨hnd, rfl, rfl, ?_, hf, ?_, ?_, ?_, ?_⟩
  · simp only [mkTableFromFmt, footerOf]; cases a.footer <;> rfl
  · intro c hcm; exact (hcols c hcm).1
  · exact widthsFaithful_of_fresh _ (fun c hcm => (hcols c hcm).2)
  · exact skipFaithful_of_none _ rfl
  · exact skipWitness_of_none _ rfl

theorem directCols_ok (fields : List Field) (cs : List ColSpec) (cols : List Col)
    (h : directCols fields cs = .ok cols) :
    ∀ c ∈ cols, findField fields c.field.name = some c.field ∧
      verifyModifier c.field.ftype c.modifier = .ok () := by
  induction cs generalizing cols with
  | nil => simp [directCols] at h; subst h; simp
  | cons p ps ih =>
    unfold directCols at h
    cases hf : findField fields p.fieldName with
    | none => simp [hf] at h
    | some f =>
      simp only [hf, bind_ok] at h
      obtain ⟨_, _, hself⟩ := findField_name fields _ f hf
      obtain ⟨u, hu, rest, hr, h⟩ := h
      cases h
      cases u
      intro x hx
      rcases List.mem_cons.mp hx with rfl | hx
      · exact ⟨hself, hu⟩
      · exact ih rest hr x hx

theorem mkTableDirect_inv (a : CtorArgs) (specs : List FieldSpec) (ha : a.fields = some specs)
    (cs : List ColSpec) (lims : Option Int × Option Int) (t : Tbl) (h : mkTableDirect a cs lims = .ok t) :
    Inv a specs t := by
  simp only [mkTableDirect, bind_ok] at h
  obtain ⟨t0, h0, cols, hcols, h⟩ := h
  cases h
  have hi0 := mkTable_inv { a with fmt := Option.none, limits := Option.none, skip := Option.none } specs ha t0 h0
  exact fromFmt_inv a specs ⟨t0.fmt.fields, cols, lims.1, lims.2, Option.none⟩ hi0.nodup hi0.fields_eq
    (directCols_ok _ _ _ hcols) Option.none Option.none

/-! ### removing columns keeps a `False` skipped-lines flag true -/

/-- the values of the fields that pass `q`, out of the values of all fields -/
def sel (q : Field → Bool) : List Field → List Val → List Val
  | f :: fs, v :: vs => if q f then v :: sel q fs vs else sel q fs vs
  | _, _ => []

theorem fetchAll_length (fs : List Field) (r : Record) (vs : List Val) (h : fetchAll fs r = .ok vs) :
    vs.length = fs.length := by
  induction fs generalizing vs with
  | nil => simp [fetchAll] at h; subst h; rfl
  | cons f fs ih =>
    simp only [fetchAll, bind_ok] at h
    obtain ⟨v, _, rest, hr, h⟩ := h
    cases h
    simp [ih rest hr]

theorem fetchAll_filter (q : Field → Bool) (fs : List Field) (r : Record) (vs : List Val)
    (h : fetchAll fs r = .ok vs) : fetchAll (fs.filter q) r = .ok (sel q fs vs) := by
  induction fs generalizing vs with
  | nil => simp [fetchAll] at h; subst h; rfl
  | cons f fs ih =>
    simp only [fetchAll, bind_ok] at h
    obtain ⟨v, hv, rest, hr, h⟩ := h
    cases h
    by_cases hq : q f = true
    · simp [hq, fetchAll, hv, ih rest hr, sel, bind, Except.bind]
    · simp [hq, ih rest hr, sel]

theorem listPyEq_length (p c : List Val) (h : listPyEq p c = true) : p.length = c.length := by
  induction p generalizing c with
  | nil => cases c <;> simp_all [listPyEq]
  | cons x xs ih =>
    cases c with
    | nil => simp [listPyEq] at h
    | cons y ys => simp only [listPyEq, Bool.and_eq_true] at h; simp [ih ys h.2]

theorem listPyEq_sel (q : Field → Bool) (fs : List Field) (p c : List Val) (h : listPyEq p c = true) :
    listPyEq (sel q fs p) (sel q fs c) = true := by
  induction fs generalizing p c with
  | nil => cases p <;> cases c <;> simp [sel, listPyEq]
  | cons f fs ih =>
    cases p with
    | nil => cases c <;> simp_all [sel, listPyEq]
    | cons x xs =>
      cases c with
      | nil => simp [listPyEq] at h
      | cons y ys =>
        simp only [listPyEq, Bool.and_eq_true] at h
        by_cases hq : q f = true
        · simp [sel, hq, listPyEq, h.1, ih xs ys h.2]
        · simp [sel, hq, ih xs ys h.2]

/-- with fewer break-by fields the body can still be made and has no more lines -/
theorem mkTableLines_filter (q : Field → Bool) (bfs : List Field) (prev : Option (List Val))
    (rs : List Record) (tls : List TLine) (h : mkTableLines bfs prev rs = .ok tls) :
    ∃ tls', mkTableLines (bfs.filter q) (prev.map (sel q bfs)) rs = .ok tls' ∧ tls'.length ≤ tls.length := by
  induction rs generalizing prev tls with
  | nil => simp [mkTableLines] at h; subst h; exact ⟨[], rfl, Nat.le_refl _⟩
  | cons r rs ih =>
    simp only [mkTableLines, bind_ok] at h
    obtain ⟨cur, hcur, rest, hr, h⟩ := h
    obtain ⟨rest', hr', hle⟩ := ih (some cur) rest hr
    have hcur' := fetchAll_filter q bfs r cur hcur
    simp only [Option.map_some] at hr'
    cases prev with
    | none =>
      simp only [Except.ok.injEq] at h
      subst h
      refine ⟨TLine.row r :: rest', ?_, by simp; omega⟩
      simp [mkTableLines, hcur', hr', bind, Except.bind]
    | some p =>
      by_cases hp : listPyEq p cur = true
      · simp only [hp, if_true, Except.ok.injEq] at h
        subst h
        refine ⟨TLine.row r :: rest', ?_, by simp; omega⟩
        simp [mkTableLines, hcur', hr', listPyEq_sel q bfs p cur hp, bind, Except.bind]
      · have hpf : listPyEq p cur = false := by simpa using hp
        simp only [hpf, Bool.false_eq_true, if_false, Except.ok.injEq] at h
        subst h
        by_cases hp' : listPyEq (sel q bfs p) (sel q bfs cur) = true
        · refine ⟨TLine.row r :: rest', ?_, by simp; omega⟩
          simp [mkTableLines, hcur', hr', hp', bind, Except.bind]
        · refine ⟨TLine.brk :: TLine.row r :: rest', ?_, by simp; omega⟩
          simp [mkTableLines, hcur', hr', hp', bind, Except.bind]

theorem breakFields_filter (cols : List Col) (names : List (List Char)) :
    breakFields (cols.filter fun c => !names.contains c.field.name)
      = (breakFields cols).filter fun f => !names.contains f.name := by
  simp only [breakFields, List.filter_map, List.filter_filter]
  congr 1
  apply List.filter_congr
  intro x _
  simp [Function.comp, Bool.and_comm]

theorem applyLimits_shorter (f : Fmt) (hnat : NatLim f) (tls tls' : List TLine) (n : Nat)
    (h : applyLimits f.limF f.limL tls n = (tls, 0)) (hle : tls'.length ≤ tls.length) :
    applyLimits f.limF f.limL tls' n = (tls', 0) := by
  cases hF : f.limF with
  | none => simp [applyLimits]
  | some a =>
    cases hL : f.limL with
    | none => simp [applyLimits]
    | some b =>
      obtain ⟨first, rfl⟩ := Int.eq_ofNat_of_zero_le (hnat.1 a hF)
      obtain ⟨last, rfl⟩ := Int.eq_ofNat_of_zero_le (hnat.2 b hL)
      rw [hF, hL, applyLimits_nat] at h
      rw [applyLimits_nat]
      by_cases hgt : tls.length > first + last + 1
      · simp only [hgt, if_true, Prod.mk.injEq] at h
        have := congrArg List.length h.1
        simp only [List.length_append, List.length_take, List.length_cons, List.length_nil, List.length_drop] at this
        omega
      · have : ¬ tls'.length > first + last + 1 := by omega
        simp [this]

/-- `table.remove_columns(names)` preserves the invariants, in any state -/
theorem removeCols_inv (a : CtorArgs) (specs : List FieldSpec) (t : Tbl) (names : List (List Char))
    (hi : Inv a specs t) : Inv a specs (removeCols t names) := by
  have hmem : ∀ c ∈ (removeCols t names).fmt.cols, ∃ c0 ∈ t.fmt.cols, c = { c0 with width := Option.none } := by
    intro c hc
    simp only [removeCols] at hc
    have := (List.mem_filter.mp hc).1
    simp only [List.mem_map] at this
    obtain ⟨c0, hc0, rfl⟩ := this
    exact ⟨c0, hc0, rfl⟩
  have hbf : breakFields (removeCols t names).fmt.cols
      = (breakFields t.fmt.cols).filter fun f => !names.contains f.name := by
    simp only [removeCols]
    rw [breakFields_filter, breakFields_map_width t.fmt.cols (fun _ => Option.none)]
  have hwit : t.fmt.anySkipped = some false → ∀ tls', mkTableLines (breakFields (removeCols t names).fmt.cols)
      Option.none t.records = .ok tls' →
      ∃ tls, mkTableLines (breakFields t.fmt.cols) Option.none t.records = .ok tls ∧ tls'.length ≤ tls.length := by
    intro hs tls' htls'
    obtain ⟨tls, htls⟩ := hi.skipWit hs
    obtain ⟨x, hx, hle⟩ := mkTableLines_filter (fun f => !names.contains f.name) _ Option.none _ tls htls
    simp only [Option.map_none] at hx
    rw [hbf, hx] at htls'
    cases htls'
    exact ⟨tls, htls, hle⟩
  refine ⟨hi.nodup, hi.records_eq, hi.header_eq, hi.footer_eq, hi.fields_eq, ?_, ?_, ?_, ?_⟩
  · intro c hc; obtain ⟨c0, hc0, rfl⟩ := hmem c hc; exact hi.colsOk c0 hc0
  · exact widthsFaithful_of_fresh _ (fun c hc => by obtain ⟨c0, _, rfl⟩ := hmem c hc; rfl)
  · intro hnat hs tls' htls'
    obtain ⟨tls, htls, hle⟩ := hwit hs tls' htls'
    exact applyLimits_shorter t.fmt hnat tls tls' _ (hi.skip hnat hs tls htls) hle
  · intro hs
    obtain ⟨tls, htls⟩ := hi.skipWit hs
    obtain ⟨x, hx, _⟩ := mkTableLines_filter (fun f => !names.contains f.name) _ Option.none _ tls htls
    simp only [Option.map_none] at hx
    exact ⟨x, by rw [hbf]; exact hx⟩

/-- The states a table goes through: constructed from a format string (`new`) or from column objects
(`direct`), printed, re-formatted with any string, re-constructed from any string, or built with
`fmt_obj=` from the format of any other reachable table with the same fields (`fromObj`: siblings
made from one format object, with their own records, header, footer, limits and skipped columns);
`setLimits`: `table.fmt.set_limits(…)` in any state (it forgets the flag and the widths);
`removeCols`: `table.remove_columns(names)` in any state (it forgets the widths, keeps the flag). -/
inductive Reach : CtorArgs → Tbl → Prop where
  | new (a : CtorArgs) (t : Tbl) : mkTable a = .ok t → Reach a t
  | direct (a : CtorArgs) (cs : List ColSpec) (lims : Option Int × Option Int) (t : Tbl) :
      mkTableDirect a cs lims = .ok t → Reach a t
  | print (a : CtorArgs) (t t' : Tbl) (ls : List Line) : Reach a t → render t = .ok (t', ls) → Reach a t'
  | set (a : CtorArgs) (t t' : Tbl) (s : List Char) : Reach a t → applySetter t s = .ok t' → Reach a t'
  | ctor (a : CtorArgs) (t t' : Tbl) (s : List Char) : Reach a t →
      mkTable { a with fmt := some s, limits := Option.none, skip := Option.none } = .ok t' → Reach a t'
  | setLimits (a : CtorArgs) (t : Tbl) (x y : Option Int) : Reach a t → Reach a (setLimits t x y)
  | removeCols (a : CtorArgs) (t : Tbl) (names : List (List Char)) : Reach a t → Reach a (removeCols t names)
  | fromObj (b a : CtorArgs) (u : Tbl) (lims : Option (Option Int × Option Int))
      (skip : Option (List (List Char))) : Reach b u → a.fields = b.fields →
      Reach a (mkTableFromFmt u.fmt a.records lims skip a.header a.footer)

theorem reach_inv (a : CtorArgs) (specs : List FieldSpec) (ha : a.fields = some specs) (t : Tbl)
    (h : Reach a t) : Inv a specs t := by
  induction h with
  | new a t hm => exact mkTable_inv a specs ha t hm
  | direct a cs lims t hm => exact mkTableDirect_inv a specs ha cs lims t hm
  | print a t t' ls _ hr ih => exact render_inv a specs t t' ls (ih ha) hr
  | set a t t' s _ hs ih => exact applySetter_inv a specs t t' s (ih ha) hs
  | ctor a t t' s _ hm _ =>
    exact inv_congr_args a { a with fmt := some s, limits := Option.none, skip := Option.none } specs t'
      (mkTable_inv { a with fmt := some s, limits := Option.none, skip := Option.none } specs ha t' hm)
      rfl rfl rfl
  | setLimits a t x y _ ih =>
    have hi := ih ha
    have hmem : ∀ c ∈ (setLimits t x y).fmt.cols, ∃ c0 ∈ t.fmt.cols, c = { c0 with width := Option.none } := by
      intro c hc
      simp only [setLimits, List.mem_map] at hc
      obtain ⟨c0, hc0, rfl⟩ := hc
      exact ⟨c0, hc0, rfl⟩
    exact ⟨hi.nodup, hi.records_eq, hi.header_eq, hi.footer_eq, hi.fields_eq,
      fun c hc => by obtain ⟨c0, hc0, rfl⟩ := hmem c hc; exact hi.colsOk c0 hc0,
      widthsFaithful_of_fresh _ (fun c hc => by obtain ⟨c0, _, rfl⟩ := hmem c hc; rfl),
      skipFaithful_of_none _ rfl, skipWitness_of_none _ rfl⟩
  | removeCols a t names _ ih => exact removeCols_inv a specs t names (ih ha)
  | fromObj b a u lims skip _ hab ih =>
    have hu := ih (by rw [← hab]; exact ha)
    exact fromFmt_inv a specs u.fmt hu.nodup hu.fields_eq hu.colsOk lims skip

/-! ## reading the printed format back -/

theorem nameOk_of_all (s : List Char) (h : ∀ c ∈ s, c ∉ forbidden ∧ isSpace c = false ∧ c ≠ '!') : NameOk s :=
  ⟨fun c hc => (h c hc).1, edgeOk_of_all s fun c hc => (h c hc).2.1,
   fun e => (h '!' (List.mem_of_getLast? e)).2.2 rfl⟩

theorem enumMods_modOk : ModOk Gen.C12.enumModFull ∧ ModOk Gen.C12.enumModVal ∧ ModOk Gen.C12.enumModName :=
  ⟨modOk_of_all _ (by decide), modOk_of_all _ (by decide), modOk_of_all _ (by decide)⟩

theorem verified_modifier_modOk (ft : FType) (m : List Char) (h : verifyModifier ft (some m) = .ok ())
    (hcustom : ∀ cu, ft = .custom cu → ModOk m) : ModOk m := by
  cases ft with
  | dflt => simp [verifyModifier] at h
  | custom cu => exact hcustom cu rfl
  | enum e =>
    simp only [verifyModifier, enumMod?] at h
    by_cases h1 : m = Gen.C12.enumModFull
    · rw [h1]; exact enumMods_modOk.1
    · by_cases h2 : m = Gen.C12.enumModVal
      · rw [h2]; exact enumMods_modOk.2.1
      · by_cases h3 : m = Gen.C12.enumModName
        · rw [h3]; exact enumMods_modOk.2.2
        · simp [h1, h2, h3] at h

/-- the modifiers of the columns of user-written field types (free text) are expressible; the built-in
types only accept expressible ones -/
def CustomModsOk (cols : List Col) : Prop :=
  ∀ c ∈ cols, ∀ cu m, c.field.ftype = .custom cu → c.modifier = some m → ModOk m

theorem inv_colNameOk {a : CtorArgs} {specs : List FieldSpec} {t : Tbl} (hi : Inv a specs t)
    (hn : ∀ sp ∈ specs, NameOk sp.name) (hm : CustomModsOk t.fmt.cols) : ∀ c ∈ t.fmt.cols, ColNameOk c := by
  intro c hc
  obtain ⟨hf, hv⟩ := hi.colsOk c hc
  obtain ⟨_, hmem, _⟩ := findField_name _ _ _ hf
  constructor
  · have : c.field.name ∈ (t.fmt.fields.map (·.name)) := List.mem_map_of_mem hmem
    rw [hi.fields_eq, mkFields_names] at this
    simp only [List.mem_map] at this
    obtain ⟨sp, hsp, hname⟩ := this
    rw [← hname]; exact hn sp hsp
  · intro m hmod
    rw [hmod] at hv
    exact verified_modifier_modOk _ m hv (fun cu hcu => hm c hc cu m hcu hmod)

theorem mkCol_pcolOf (c : Col) (hv : verifyModifier c.field.ftype c.modifier = .ok ()) :
    mkCol c.field (pcolOf c) (some c.minW) (some c.maxW) = .ok c.reset := by
  simp only [mkCol, pcolOf, hv, bind, Except.bind, Col.reset]

theorem setterCols_pcolOf (fields : List Field) (cols : List Col)
    (h : ∀ c ∈ cols, findField fields c.field.name = some c.field ∧
      verifyModifier c.field.ftype c.modifier = .ok ()) :
    setterCols fields (cols.map pcolOf) = .ok (cols.map Col.reset) := by
  induction cols with
  | nil => rfl
  | cons c cs ih =>
    obtain ⟨hf, hv⟩ := h c (by simp)
    have hf' : findField fields (pcolOf c).fieldName = some c.field := hf
    have hw : (pcolOf c).width = .range c.minW c.maxW := rfl
    simp only [List.map_cons, setterCols, hf', hw, mkCol_pcolOf c hv,
      ih (fun x hx => h x (List.mem_cons_of_mem _ hx)), bind, Except.bind]

theorem ctorCols_pcolOf (fields : List Field) (cols : List Col)
    (h : ∀ c ∈ cols, findField fields c.field.name = some c.field ∧
      verifyModifier c.field.ftype c.modifier = .ok ()) :
    ctorCols fields (cols.map pcolOf) = .ok (cols.map Col.reset) := by
  induction cols with
  | nil => rfl
  | cons c cs ih =>
    obtain ⟨hf, hv⟩ := h c (by simp)
    have hf' : findField fields (pcolOf c).fieldName = some c.field := hf
    have hw : (pcolOf c).width = .range c.minW c.maxW := rfl
    simp only [List.map_cons, ctorCols, hf', hw, mkCol_pcolOf c hv,
      ih (fun x hx => h x (List.mem_cons_of_mem _ hx)), bind, Except.bind]

theorem applyLimits_none_left (b : Option Int) (tls : List TLine) (n : Nat) :
    applyLimits Option.none b tls n = (tls, 0) := by simp [applyLimits]

theorem applyLimits_none_right (a : Option Int) (tls : List TLine) (n : Nat) :
    applyLimits a Option.none tls n = (tls, 0) := by cases a <;> simp [applyLimits]

/-- the limits a format string re-establishes act like the table's own -/
theorem limits_of_visOf (t : Tbl) (hs : SkipFaithful t) (ctor : Bool) (hnat : ctor = true → NatLim t.fmt) :
    let l : Option Int × Option Int := match visOf t.fmt with
      | some l => l
      | Option.none => if ctor then (Option.none, Option.none) else (t.fmt.limF, t.fmt.limL)
    ∀ tls, mkTableLines (breakFields t.fmt.cols) Option.none t.records = .ok tls →
      applyLimits l.1 l.2 tls t.records.length = applyLimits t.fmt.limF t.fmt.limL tls t.records.length := by
  intro l tls htls
  simp only [l, visOf]
  by_cases hsk : t.fmt.anySkipped = some false
  · simp only [hsk, if_true]
    cases ctor with
    | false => rfl
    | true =>
      simp only [if_true]
      rw [hs (hnat rfl) hsk tls htls, applyLimits_none_left]
  · simp only [hsk, if_false]
    cases hF : t.fmt.limF with
    | none => simp [applyLimits_none_left]
    | some a =>
      cases hL : t.fmt.limL with
      | none => simp [applyLimits_none_right]
      | some b => rfl

/-! ## the format read after the next printing -/

theorem render_of_lines {u : Tbl} {ls : List Line} (h : lines u = .ok ls) : ∃ u', render u = .ok (u', ls) := by
  unfold lines at h
  cases hr : render u with
  | error e => simp [hr] at h
  | ok p => obtain ⟨u', l⟩ := p; simp [hr] at h; subst h; exact ⟨u', rfl⟩

/-- A table `u` with `t`'s records, header, footer and columns (widths apart), whose limits act like
`t`'s and are either the same or irrelevant (nothing is skipped), prints `t`'s lines and afterwards
reports the very same format string as `t` after printing. -/
theorem fmt_after_print {t u t' : Tbl} {ls : List Line} (hw : WidthsFaithful t)
    (hr : u.records = t.records) (hh : u.header = t.header) (hf : u.footer = t.footer)
    (hc : u.fmt.cols = t.fmt.cols.map Col.reset)
    (hl : ∀ tls, mkTableLines (breakFields t.fmt.cols) Option.none t.records = .ok tls →
      applyLimits u.fmt.limF u.fmt.limL tls t.records.length
        = applyLimits t.fmt.limF t.fmt.limL tls t.records.length)
    (hlim : (u.fmt.limF = t.fmt.limF ∧ u.fmt.limL = t.fmt.limL) ∨
      ∀ tls, mkTableLines (breakFields t.fmt.cols) Option.none t.records = .ok tls →
        (applyLimits t.fmt.limF t.fmt.limL tls t.records.length).2 ≤ 0)
    (ht : render t = .ok (t', ls)) :
    ∃ u', render u = .ok (u', ls) ∧ fmtToStr u'.fmt = fmtToStr t'.fmt := by
  have hlines : lines u = .ok ls := by
    rw [lines_of_same t u hw hr hh hf hc hl]; exact lines_of_render ht
  obtain ⟨u', hu⟩ := render_of_lines hlines
  refine ⟨u', hu, ?_⟩
  have hcols := printed_cols_eq ht hu hc
  obtain ⟨tls, ws, nT, body, R⟩ := render_elim ht
  obtain ⟨tls2, ws2, nT2, body2, R2⟩ := render_elim hu
  have hb : breakFields u.fmt.cols = breakFields t.fmt.cols := by
    rw [hc]; exact breakFields_map_width t.fmt.cols (fun _ => Option.none)
  have htls : tls2 = tls := by
    have := R2.tls_eq
    rw [hb, hr, R.tls_eq] at this
    cases this; rfl
  subst htls
  have hsk : u'.fmt.anySkipped = t'.fmt.anySkipped := by
    rw [R.state_eq, R2.state_eq]
    simp only [printed]
    rw [hr, hl tls2 R.tls_eq]
  have hF : u'.fmt.limF = u.fmt.limF ∧ u'.fmt.limL = u.fmt.limL := by rw [R2.state_eq]; exact ⟨rfl, rfl⟩
  have hF' : t'.fmt.limF = t.fmt.limF ∧ t'.fmt.limL = t.fmt.limL := by rw [R.state_eq]; exact ⟨rfl, rfl⟩
  have hlimstr : limitsToStr u'.fmt = limitsToStr t'.fmt := by
    unfold limitsToStr
    rw [hsk]
    by_cases hs : t'.fmt.anySkipped = some false
    · simp [hs]
    · simp only [hs, if_false]
      rcases hlim with ⟨e1, e2⟩ | hle
      · rw [hF.1, hF.2, hF'.1, hF'.2, e1, e2]
      · exfalso
        apply hs
        rw [R.state_eq]
        simp only [printed]
        have := hle tls2 R.tls_eq
        exact congrArg some (decide_eq_false (by omega))
  unfold fmtToStr colsToStr
  rw [hcols, hlimstr]

/-! ## field-less tables are tables with the fields `col_1`, `col_2`, … (or the dummy field) -/

theorem natToDec_inj (a b : Nat) (h : natToDec a = natToDec b) : a = b := by
  have := congrArg (fun l => Nat.ofDigitChars 10 l 0) h
  simpa [natToDec] using this

/-- the field specifications that give the fields of a field-less table back -/
def specsOf (fields : List Field) : List FieldSpec :=
  fields.map fun f => ⟨f.name, f.ftype, TitleArg.none, Option.none⟩

/-- a name without line break and edge blanks is its own (single) title line -/
theorem genTitleLines_none (name : List Char) (h1 : '\n' ∉ name) (h2 : EdgeOk name) :
    genTitleLines TitleArg.none name = [Val.str name] := by
  simp [genTitleLines, splitOn_no_sep _ _ h1, strip_id _ h2]

theorem colName_ok (k : Nat) : '\n' ∉ Gen.C12.colPrefix ++ natToDec k ∧ NameOk (Gen.C12.colPrefix ++ natToDec k) := by
  have hp : ∀ c ∈ Gen.C12.colPrefix, c ≠ '\n' ∧ c ∉ forbidden ∧ isSpace c = false ∧ c ≠ '!' := by decide
  have hd : ∀ c ∈ natToDec k, c ≠ '\n' ∧ c ∉ forbidden ∧ isSpace c = false ∧ c ≠ '!' := by
    intro c hc
    have hdig := natToDec_digits k c hc
    have f := digit_facts c hdig
    refine ⟨?_, ?_, f.1, f.2.2.2.2.1⟩
    · intro e; subst e; cases hdig
    · intro hf
      simp only [forbidden, List.mem_cons, List.not_mem_nil, or_false] at hf
      rcases hf with e | e | e | e | e
      · exact f.2.1 e
      · exact f.2.2.1 e
      · exact f.2.2.2.1 e
      · exact f.2.2.2.2.2.1 e
      · exact f.2.2.2.2.2.2.1 e
  have hall : ∀ c ∈ Gen.C12.colPrefix ++ natToDec k, c ≠ '\n' ∧ c ∉ forbidden ∧ isSpace c = false ∧ c ≠ '!' := by
    intro c hc
    rcases List.mem_append.mp hc with h | h
    · exact hp c h
    · exact hd c h
  exact ⟨fun h => (hall _ h).1 rfl, nameOk_of_all _ fun c hc => (hall c hc).2⟩

theorem dummy_ok : '\n' ∉ Gen.C12.dummyField ∧ NameOk Gen.C12.dummyField := by
  have h0 : '\n' ∉ Gen.C12.dummyField := by decide +kernel
  have h1 : ∀ c ∈ Gen.C12.dummyField, c ∉ forbidden := by decide +kernel
  have h2 : Gen.C12.dummyField.head? = some '-' := by decide +kernel
  have h3 : Gen.C12.dummyField.getLast? = some '-' := by decide +kernel
  have hs : isSpace '-' = false := by unfold isSpace; decide
  refine ⟨h0, h1, ⟨?_, ?_⟩, ?_⟩
  · intro c hc; rw [h2] at hc; cases hc; exact hs
  · intro c hc; rw [h3] at hc; cases hc; exact hs
  · rw [h3]; decide

theorem colNFields_names (pos n : Nat) :
    ∀ f ∈ colNFields pos n, ∃ k, pos ≤ k ∧ f.name = Gen.C12.colPrefix ++ natToDec (k + 1) := by
  induction n generalizing pos with
  | zero => intro f hf; simp [colNFields] at hf
  | succ m ih =>
    intro f hf
    simp only [colNFields, List.mem_cons] at hf
    rcases hf with rfl | hf
    · exact ⟨pos, Nat.le_refl _, rfl⟩
    · obtain ⟨k, hk, hn⟩ := ih (pos + 1) f hf
      exact ⟨k, by omega, hn⟩

theorem colNFields_nodup (pos n : Nat) : hasDup ((colNFields pos n).map (·.name)) = false := by
  induction n generalizing pos with
  | zero => rfl
  | succ m ih =>
    simp only [colNFields, List.map_cons, hasDup, Bool.or_eq_false_iff]
    refine ⟨?_, ih (pos + 1)⟩
    cases hc : ((colNFields (pos + 1) m).map (·.name)).contains (Gen.C12.colPrefix ++ natToDec (pos + 1)) with
    | false => rfl
    | true =>
      simp only [List.contains_eq_mem, List.mem_map, decide_eq_true_eq] at hc
      obtain ⟨f, hf, hname⟩ := hc
      obtain ⟨k, hk, hn⟩ := colNFields_names (pos + 1) m f hf
      rw [hn] at hname
      have := natToDec_inj _ _ (List.append_cancel_left hname)
      omega

theorem mkFields_specsOf_colN (pos n : Nat) : mkFields pos (specsOf (colNFields pos n)) = colNFields pos n := by
  induction n generalizing pos with
  | zero => rfl
  | succ m ih =>
    simp only [colNFields, specsOf, List.map_cons, mkFields] at ih ⊢
    rw [genTitleLines_none _ (colName_ok _).1 (colName_ok _).2.2.1]
    congr 1
    exact ih (pos + 1)

/-- A table built without `fields` (and without explicit columns) is the table built with
`fields=["col_1", …]` (or the dummy field's name): the same state, and the names are expressible. -/
theorem mkTable_fieldless (a : CtorArgs) (ha : a.fields = Option.none)
    (hcols : ∀ p cs, parseFmt (match a.fmt with | some s => s | Option.none => []) = .ok p → p.cols ≠ .explicit cs)
    (t : Tbl) (h : mkTable a = .ok t) :
    mkTable { a with fields := some (specsOf t.fmt.fields) } = .ok t ∧
      ∀ sp ∈ specsOf t.fmt.fields, NameOk sp.name := by
  unfold mkTable at h
  simp only [bind_ok, ha] at h
  obtain ⟨p, hp, fc, hfc, h⟩ := h
  cases h
  cases hpc : p.cols with
  | explicit cs => exact absurd hpc (hcols p cs hp)
  | keep =>
    simp only [hpc, Except.ok.injEq] at hfc
    subst hfc
    simp only
    cases hrec : a.records with
    | nil =>
      simp only
      have hspec : mkFields 0 (specsOf [⟨Gen.C12.dummyField, FType.dflt, 0, [Val.str Gen.C12.dummyField], false⟩])
          = [⟨Gen.C12.dummyField, FType.dflt, 0, [Val.str Gen.C12.dummyField], false⟩] := by
        simp only [specsOf, List.map_cons, List.map_nil, mkFields]
        rw [genTitleLines_none _ dummy_ok.1 dummy_ok.2.2.1]
        rfl
      refine ⟨?_, ?_⟩
      · unfold mkTable
        simp only [hp, hpc, bind, Except.bind, specsOf, List.map_cons, List.map_nil, hasDup,
          List.contains_nil, Bool.or_self, Bool.false_eq_true, if_false]
        simp only [specsOf, List.map_cons, List.map_nil] at hspec
        rw [hspec]
        rfl
      · intro sp hsp
        simp only [specsOf, List.map_cons, List.map_nil, List.mem_singleton] at hsp
        subst hsp; exact dummy_ok.2
    | cons r rs =>
      simp only
      refine ⟨?_, ?_⟩
      · unfold mkTable
        have hnd : hasDup ((specsOf (colNFields 0 r.length)).map (·.name)) = false := by
          have := colNFields_nodup 0 r.length
          simpa [specsOf, List.map_map, Function.comp_def] using this
        simp only [hp, hpc, bind, Except.bind, hnd, Bool.false_eq_true, if_false,
          mkFields_specsOf_colN]
      · intro sp hsp
        simp only [specsOf, List.mem_map] at hsp
        obtain ⟨f, hf, rfl⟩ := hsp
        obtain ⟨k, _, hn⟩ := colNFields_names 0 r.length f hf
        simp only [hn]
        exact (colName_ok _).2
  | all =>
    simp only [hpc, Except.ok.injEq] at hfc
    subst hfc
    simp only
    cases hrec : a.records with
    | nil =>
      simp only
      have hspec : mkFields 0 (specsOf [⟨Gen.C12.dummyField, FType.dflt, 0, [Val.str Gen.C12.dummyField], false⟩])
          = [⟨Gen.C12.dummyField, FType.dflt, 0, [Val.str Gen.C12.dummyField], false⟩] := by
        simp only [specsOf, List.map_cons, List.map_nil, mkFields]
        rw [genTitleLines_none _ dummy_ok.1 dummy_ok.2.2.1]
        rfl
      refine ⟨?_, ?_⟩
      · unfold mkTable
        simp only [hp, hpc, bind, Except.bind, specsOf, List.map_cons, List.map_nil, hasDup,
          List.contains_nil, Bool.or_self, Bool.false_eq_true, if_false]
        simp only [specsOf, List.map_cons, List.map_nil] at hspec
        rw [hspec]
        rfl
      · intro sp hsp
        simp only [specsOf, List.map_cons, List.map_nil, List.mem_singleton] at hsp
        subst hsp; exact dummy_ok.2
    | cons r rs =>
      simp only
      refine ⟨?_, ?_⟩
      · unfold mkTable
        have hnd : hasDup ((specsOf (colNFields 0 r.length)).map (·.name)) = false := by
          have := colNFields_nodup 0 r.length
          simpa [specsOf, List.map_map, Function.comp_def] using this
        simp only [hp, hpc, bind, Except.bind, hnd, Bool.false_eq_true, if_false,
          mkFields_specsOf_colN]
      · intro sp hsp
        simp only [specsOf, List.mem_map] at hsp
        obtain ⟨f, hf, rfl⟩ := hsp
        obtain ⟨k, _, hn⟩ := colNFields_names 0 r.length f hf
        simp only [hn]
        exact (colName_ok _).2

/-! ## re-formatting a table with some of its own reported column descriptions -/

theorem mem_pickCols {cols : List Col} {idxs : List Nat} {c : Col} (h : c ∈ pickCols cols idxs) : c ∈ cols := by
  simp only [pickCols, List.mem_filterMap] at h
  obtain ⟨i, _, hi⟩ := h
  exact List.mem_of_getElem? hi

/-- `table.fmt = <its own column descriptions at the places idxs>`: accepted; the new columns are the picked ones
with NO negotiated width, whatever the old columns had; fields and limits stay, the skipped-lines flag is forgotten -/
theorem applySetter_subFmtStr (t : Tbl) (idxs : List Nat) (plain : Bool)
    (hok : ∀ c ∈ t.fmt.cols, ColNameOk c ∧ findField t.fmt.fields c.field.name = some c.field ∧
      verifyModifier c.field.ftype c.modifier = .ok ())
    (hne : pickCols t.fmt.cols idxs ≠ []) :
    applySetter t (subFmtStr t.fmt idxs plain) = .ok { t with fmt :=
      ⟨t.fmt.fields, (pickCols t.fmt.cols idxs).map Col.reset, t.fmt.limF, t.fmt.limL, Option.none⟩ } := by
  let sel := (pickCols t.fmt.cols idxs).map fun c => if plain then { c with width := Option.none } else c
  have hsel : ∀ c ∈ sel, ∃ c0 ∈ t.fmt.cols, c.field = c0.field ∧ c.modifier = c0.modifier := by
    intro c hc
    simp only [sel, List.mem_map] at hc
    obtain ⟨c0, hc0, rfl⟩ := hc
    refine ⟨c0, mem_pickCols hc0, ?_⟩
    cases plain <;> exact ⟨rfl, rfl⟩
  have hname : ∀ c ∈ sel, ColNameOk c := by
    intro c hc
    obtain ⟨c0, hc0, hf, hm⟩ := hsel c hc
    have := (hok c0 hc0).1
    unfold ColNameOk at this ⊢
    rw [hf, hm]; exact this
  have hfind : ∀ c ∈ sel, findField t.fmt.fields c.field.name = some c.field ∧
      verifyModifier c.field.ftype c.modifier = .ok () := by
    intro c hc
    obtain ⟨c0, hc0, hf, hm⟩ := hsel c hc
    rw [hf, hm]; exact (hok c0 hc0).2
  have hselne : sel ≠ [] := by
    simpa [sel] using hne
  have hreset : sel.map Col.reset = (pickCols t.fmt.cols idxs).map Col.reset := by
    simp only [sel, List.map_map]
    apply List.map_congr_left
    intro c _
    cases plain <;> rfl
  have hp : parseFmt (colsToStr sel) = .ok ⟨.explicit (sel.map pcolOf), Option.none⟩ := by
    unfold parseFmt
    rw [splitOn_no_sep _ _ (colsToStr_not_mem sel hname)]
    simp only [parseCols_colsToStr sel hselne hname, bind, Except.bind]
  show applySetter t (colsToStr sel) = _
  unfold applySetter
  simp only [hp, setterCols_pcolOf t.fmt.fields sel hfind, hreset, bind, Except.bind]

end Table
