import AkVerif.Lemmas.ColorsConfGlobal
import AkVerif.Lemmas.ColorsConfTotal
/-!
Lemmas for C14, fifth part: when registrations through palette classes — on a configuration that may be the
global one, with synced palettes re-syncing in a nested way — do not raise.

Static, decidable domain (`Ctx`): the class table is well-founded (`ClassesWF`), every description that can
ever be offered (`offers`: configuration, built-ins, operation items, class defaults) is accepted by the parser
and the union of all offered references is acyclic (`UnionAcyclic`), and the classes that get synced palettes
are `SyncSafe`: a class with `SYNTAX_DEFAULTS` among a synced class and its ancestors has no ancestor with
`SYNTAX_DEFAULTS` (otherwise the nested re-sync registers it in the middle of its own registration: the
`AssertionError` of the finding, `reentrant_site`).
-/
namespace ColorsConf
open Ak

def hasDefaults (classes : List ClassDef) (k : Nat) : Bool :=
  match classes[k]? with
  | some cd => cd.defaults.isSome
  | none => false

/-- `Anc classes k a`: `a` is `k` or one of its `PARENT_PALETTES` ancestors -/
inductive Anc (classes : List ClassDef) : Nat → Nat → Prop
  | refl (k : Nat) : Anc classes k k
  | step {k p a : Nat} {cd : ClassDef} : classes[k]? = some cd → p ∈ cd.parents → Anc classes p a → Anc classes k a

def ClassesWF (classes : List ClassDef) : Prop :=
  ∀ (k : Nat) (cd : ClassDef), classes[k]? = some cd → ∀ p ∈ cd.parents, p < k

theorem Anc.le {classes : List ClassDef} (hwf : ClassesWF classes) {k a : Nat} (h : Anc classes k a) : a ≤ k := by
  induction h with
  | refl k => exact Nat.le_refl _
  | step hcd hp _ ih => exact Nat.le_trans ih (Nat.le_of_lt (hwf _ _ hcd _ hp))

theorem Anc.trans {classes : List ClassDef} {a b c : Nat} (h1 : Anc classes a b) (h2 : Anc classes b c) :
    Anc classes a c := by
  induction h1 with
  | refl k => exact h2
  | step hcd hp _ ih => exact .step hcd hp (ih h2)

/-- a class with defaults reachable from a synced class has no proper ancestor with defaults -/
def SyncSafe (classes : List ClassDef) (safe : List Nat) : Prop :=
  ∀ s ∈ safe, ∀ C, Anc classes s C → hasDefaults classes C = true →
    ∀ cd p A, classes[C]? = some cd → p ∈ cd.parents → Anc classes p A → hasDefaults classes A = false

/-- the union of all offered references is acyclic -/
def UnionAcyclic (offers : List (Id × Str)) : Prop :=
  ∃ rank : Id → Nat, ∀ kv ∈ offers, ∀ d p, parsed kv.2 = some d → d.parent = some p →
    (∃ s, (p, s) ∈ offers) → rank p < rank kv.1

theorem acyclic_of_offers {offers : List (Id × Str)} {dm : Id → Option Desc}
    (hsub : ∀ id d, dm id = some d → ∃ s, (id, s) ∈ offers ∧ parsed s = some d) (h : UnionAcyclic offers) :
    Acyclic dm := by
  obtain ⟨rank, hr⟩ := h
  refine ⟨rank, fun id d p hd hp hps => ?_⟩
  obtain ⟨s, hs, hpd⟩ := hsub id d hd
  cases hdp : dm p with
  | none => simp [hdp] at hps
  | some d' =>
    obtain ⟨s', hs', _⟩ := hsub p d' hdp
    exact hr (id, s) hs d p hpd hp ⟨s', hs'⟩

/-! ### the fuel measure: classes with defaults that are not registered yet -/

def pendFilter (classes : List ClassDef) (sources : List Src) (l : List Nat) : List Nat :=
  l.filter fun c => hasDefaults classes c && !(decide (Src.cls c ∈ sources))

def pending (classes : List ClassDef) (sources : List Src) : Nat :=
  (pendFilter classes sources (List.range classes.length)).length

theorem pending_le_length (classes : List ClassDef) (sources : List Src) : pending classes sources ≤ classes.length := by
  unfold pending pendFilter
  exact Nat.le_trans (List.length_filter_le _ _) (by simp)

theorem pendFilter_mono {classes : List ClassDef} {s s' : List Src} (h : ∀ x ∈ s, x ∈ s') (l : List Nat) :
    (pendFilter classes s' l).length ≤ (pendFilter classes s l).length := by
  unfold pendFilter
  induction l with
  | nil => simp
  | cons c l ih =>
    simp only [List.filter]
    by_cases hd : hasDefaults classes c = true
    · by_cases h1 : Src.cls c ∈ s
      · have h2 := h _ h1
        simp [hd, h1, h2, ih]
      · by_cases h2 : Src.cls c ∈ s'
        · simp [hd, h1, h2]; omega
        · simp [hd, h1, h2]; omega
    · simp [hd, ih]

theorem pending_mono {classes : List ClassDef} {s s' : List Src} (h : ∀ x ∈ s, x ∈ s') :
    pending classes s' ≤ pending classes s := pendFilter_mono h _

theorem pendFilter_lt {classes : List ClassDef} {s s' : List Src} {c : Nat} (h : ∀ x ∈ s, x ∈ s')
    (hd : hasDefaults classes c = true) (h1 : Src.cls c ∉ s) (h2 : Src.cls c ∈ s') :
    ∀ (l : List Nat), c ∈ l → (pendFilter classes s' l).length < (pendFilter classes s l).length := by
  intro l
  induction l with
  | nil => intro hmem; cases hmem
  | cons x l ih =>
    intro hmem
    have hm := pendFilter_mono (classes := classes) h l
    unfold pendFilter at hm ih ⊢
    simp only [List.filter]
    rcases List.mem_cons.mp hmem with rfl | hin
    · simp [hd, h1, h2]
      omega
    · have := ih hin
      by_cases hdx : hasDefaults classes x = true
      · by_cases a1 : Src.cls x ∈ s
        · have a2 := h _ a1
          simp [hdx, a1, a2]; exact this
        · by_cases a2 : Src.cls x ∈ s'
          · simp [hdx, a1, a2]; omega
          · simp [hdx, a1, a2]; omega
      · simp [hdx]; exact this

theorem pending_lt {classes : List ClassDef} {s s' : List Src} {c : Nat} (h : ∀ x ∈ s, x ∈ s')
    (hc : c < classes.length) (hd : hasDefaults classes c = true) (h1 : Src.cls c ∉ s) (h2 : Src.cls c ∈ s') :
    pending classes s' < pending classes s :=
  pendFilter_lt h hd h1 h2 _ (List.mem_range.mpr hc)

/-! ### the static context, the invariant, what a registration step guarantees -/

structure Ctx (classes : List ClassDef) (offers : List (Id × Str)) (safe : List Nat) : Prop where
  wf : ClassesWF classes
  valid : ∀ kv ∈ offers, (parsed kv.2).isSome = true
  acyc : UnionAcyclic offers
  clsOff : ∀ (k : Nat) (cd : ClassDef) (cfg : Cfg), classes[k]? = some cd → cd.defaults = some cfg →
    ∀ kv ∈ flatten cfg, kv ∈ offers
  safe : SyncSafe classes safe

structure SInv (classes : List ClassDef) (offers : List (Id × Str)) (safe : List Nat) (g : GWorld) : Prop where
  good : WGood classes g.w
  mapOff : ∀ id s, strOf g.w.conf.map id = some s → (id, s) ∈ offers
  keys : ∀ k ∈ g.synced.map (·.1), k < classes.length ∧ k ∈ safe

structure Adv (classes : List ClassDef) (offers : List (Id × Str)) (safe : List Nat) (g g' : GWorld) : Prop where
  inv : SInv classes offers safe g'
  srcs : ∀ x ∈ g.w.conf.sources, x ∈ g'.w.conf.sources
  names : ∀ n, Src.name n ∈ g'.w.conf.sources → Src.name n ∈ g.w.conf.sources

theorem Adv.refl {classes : List ClassDef} {offers : List (Id × Str)} {safe : List Nat} {g : GWorld}
    (h : SInv classes offers safe g) : Adv classes offers safe g g := ⟨h, fun _ hx => hx, fun _ hn => hn⟩

theorem Adv.trans {classes : List ClassDef} {offers : List (Id × Str)} {safe : List Nat} {a b c : GWorld}
    (h1 : Adv classes offers safe a b) (h2 : Adv classes offers safe b c) : Adv classes offers safe a c :=
  ⟨h2.inv, fun x hx => h2.srcs x (h1.srcs x hx), fun n hn => h1.names n (h2.names n hn)⟩

/-- `c` is a synced class or an ancestor of one -/
def KeyAnc (classes : List ClassDef) (g : GWorld) (c : Nat) : Prop :=
  ∃ s ∈ g.synced.map (·.1), Anc classes s c

theorem KeyAnc.of_keys {classes : List ClassDef} {g g' : GWorld} {c : Nat}
    (hk : g'.synced.map (·.1) = g.synced.map (·.1)) (h : KeyAnc classes g' c) : KeyAnc classes g c := by
  obtain ⟨s, hs, ha⟩ := h
  exact ⟨s, hk ▸ hs, ha⟩

def GrowSync (classes : List ClassDef) (g g' : GWorld) : Prop :=
  ∀ c, Src.cls c ∈ g'.w.conf.sources → Src.cls c ∈ g.w.conf.sources ∨ KeyAnc classes g c

def GrowK (classes : List ClassDef) (k : Nat) (g g' : GWorld) : Prop :=
  ∀ c, Src.cls c ∈ g'.w.conf.sources → Src.cls c ∈ g.w.conf.sources ∨ Anc classes k c ∨
    (KeyAnc classes g c ∧ ∃ A, Anc classes k A ∧ hasDefaults classes A = true)

theorem dictGet_mem {β : Type} {l : List (Str × β)} {k : Str} {v : β} (h : dictGet l k = some v) : (k, v) ∈ l := by
  induction l with
  | nil => simp [dictGet] at h
  | cons x l ih =>
    obtain ⟨k0, v0⟩ := x
    by_cases hk : k0 = k
    · simp [dictGet, hk] at h
      subst hk; subst h
      exact List.mem_cons_self
    · simp [dictGet, hk] at h
      exact List.mem_cons_of_mem _ (ih h)

/-- `add_new_items` does not raise on a state of the domain when the items are offered ones -/
theorem addNewItems_ctx {classes : List ClassDef} {offers : List (Id × Str)} {safe : List Nat}
    (cx : Ctx classes offers safe) {c : Conf} (hg : CGood classes c)
    (hoff : ∀ id s, strOf c.map id = some s → (id, s) ∈ offers) {items : List (Id × Str)}
    (hit : ∀ kv ∈ items, kv ∈ offers) :
    ∃ c', addNewItems c items = .ok c' ∧ CGood classes c' ∧ Later c c' ∧ c'.sources = c.sources ∧
      (∀ id s, strOf c'.map id = some s → (id, s) ∈ offers) := by
  have hfs : ∀ id s, firstStr (strOf c.map) items id = some s → (id, s) ∈ offers := by
    intro id s h
    unfold firstStr at h
    cases hs : strOf c.map id with
    | some x => simp [hs] at h; subst h; exact hoff id x hs
    | none => simp [hs] at h; exact hit _ (dictGet_mem h)
  have hac : Acyclic (fun id => (firstStr (strOf c.map) items id).bind parsed) := by
    apply acyclic_of_offers _ cx.acyc
    intro id d hd
    cases hf : firstStr (strOf c.map) items id with
    | none => simp [hf] at hd
    | some s => exact ⟨s, hfs id s hf, by simpa [hf] using hd⟩
  obtain ⟨c', h⟩ := addNewItems_total hg.good
    (fun kv hkv => parsed_isSome (cx.valid kv (hit kv hkv))) hac
  obtain ⟨hg', hl, hsrc, hstr⟩ := addNewItems_cgood hg h
  exact ⟨c', h, hg', hl, hsrc, fun id s hs => hfs id s (by rw [← hstr]; exact hs)⟩

/-! ### totality of the registration functions on the domain -/

/-- the re-sync passed to `addWith` is total on the domain while at most `u` classes are pending -/
def SyncTot (classes : List ClassDef) (offers : List (Id × Str)) (safe : List Nat) (u : Nat)
    (sync : GWorld → Except Err GWorld) : Prop :=
  ∀ g, SInv classes offers safe g → pending classes g.w.conf.sources ≤ u →
    ∃ g', sync g = .ok g' ∧ Adv classes offers safe g g' ∧ GrowSync classes g g'

theorem addWith_total {classes : List ClassDef} {offers : List (Id × Str)} {safe : List Nat}
    (cx : Ctx classes offers safe) {u : Nat} {sync : GWorld → Except Err GWorld}
    (hsync : SyncTot classes offers safe u sync) {g : GWorld} (hi : SInv classes offers safe g)
    {items : List (Id × Str)} (hit : ∀ kv ∈ items, kv ∈ offers)
    (hu : pending classes g.w.conf.sources ≤ u) :
    ∃ g', addWith sync g items = .ok g' ∧ Adv classes offers safe g g' ∧ GrowSync classes g g' := by
  obtain ⟨c', h, hg', _, hsrc, hoff'⟩ := addNewItems_ctx cx hi.good.conf hi.mapOff hit
  have hi1 : SInv classes offers safe ({ g with w := { g.w with conf := c' } } : GWorld) :=
    ⟨⟨hg', hi.good.nc⟩, hoff', hi.keys⟩
  have adv1 : Adv classes offers safe g ({ g with w := { g.w with conf := c' } } : GWorld) :=
    ⟨hi1, fun x hx => by simpa [hsrc] using hx, fun n hn => by simpa [hsrc] using hn⟩
  unfold addWith
  simp only [h]
  split
  · obtain ⟨g', hs, adv2, gr2⟩ := hsync _ hi1 (by simpa [hsrc] using hu)
    refine ⟨g', hs, adv1.trans adv2, ?_⟩
    intro c hc
    rcases gr2 c hc with h1 | h2
    · exact .inl (by simpa [hsrc] using h1)
    · exact .inr h2
  · exact ⟨_, rfl, adv1, fun c hc => .inl (by simpa [hsrc] using hc)⟩

theorem regCompWith_total {classes : List ClassDef} {offers : List (Id × Str)} {safe : List Nat}
    (cx : Ctx classes offers safe) {u : Nat} {sync : GWorld → Except Err GWorld}
    (hsync : SyncTot classes offers safe u sync) {g : GWorld} (hi : SInv classes offers safe g)
    {cfg : Cfg} {src : Src} (hit : ∀ kv ∈ flatten cfg, kv ∈ offers) (hsrc : src ∉ g.w.conf.sources)
    (hu : pending classes (src :: g.w.conf.sources) ≤ u) :
    ∃ g', regCompWith sync g cfg src = .ok g' ∧ SInv classes offers safe g' ∧
      (∀ x ∈ g.w.conf.sources, x ∈ g'.w.conf.sources) ∧ src ∈ g'.w.conf.sources ∧
      (∀ x ∈ g'.w.conf.sources, x = src ∨ x ∈ g.w.conf.sources ∨ ∃ c, x = Src.cls c ∧ KeyAnc classes g c) := by
  let g0 : GWorld := { g with w := { g.w with conf := { g.w.conf with sources := src :: g.w.conf.sources } } }
  have hi0 : SInv classes offers safe g0 := ⟨⟨⟨hi.good.conf.good, hi.good.conf.cache⟩, hi.good.nc⟩, hi.mapOff, hi.keys⟩
  obtain ⟨g', h, adv, gr⟩ := addWith_total cx hsync hi0 hit hu
  unfold regCompWith
  simp only [hsrc, if_false]
  refine ⟨g', h, adv.inv, fun x hx => adv.srcs x (List.mem_cons_of_mem _ hx), adv.srcs src List.mem_cons_self, ?_⟩
  intro x hx
  cases x with
  | cls c =>
    rcases gr c hx with h1 | h2
    · rcases List.mem_cons.mp h1 with h3 | h3
      · exact .inl h3
      · exact .inr (.inl h3)
    · exact .inr (.inr ⟨c, rfl, h2⟩)
  | name n =>
    have := adv.names n hx
    rcases List.mem_cons.mp this with h3 | h3
    · exact .inl h3
    · exact .inr (.inl h3)

/-- registration of one class is total with fuel `f` (the induction hypothesis of `registerClassG_total`) -/
def RegTot (classes : List ClassDef) (offers : List (Id × Str)) (safe : List Nat) (f : Nat)
    (reg : GWorld → Nat → Except Err GWorld) : Prop :=
  ∀ g k, SInv classes offers safe g → k < classes.length →
    k + 1 + pending classes g.w.conf.sources * (classes.length + 1) ≤ f →
    ∃ g', reg g k = .ok g' ∧ Adv classes offers safe g g' ∧ GrowK classes k g g' ∧
      g'.synced.map (·.1) = g.synced.map (·.1)

theorem pending_mul_mono {classes : List ClassDef} {s s' : List Src} (h : ∀ x ∈ s, x ∈ s') (n : Nat) :
    pending classes s' * n ≤ pending classes s * n :=
  Nat.mul_le_mul_right n (pending_mono h)

theorem regParents_total {classes : List ClassDef} {offers : List (Id × Str)} {safe : List Nat} {f D : Nat}
    {reg : GWorld → Nat → Except Err GWorld} (hreg : RegTot classes offers safe f reg) (hD : D ≤ classes.length) :
    ∀ (ps : List Nat) (g : GWorld), SInv classes offers safe g → (∀ p ∈ ps, p < D) →
      D + pending classes g.w.conf.sources * (classes.length + 1) ≤ f →
      ∃ g', regParents reg g ps = .ok g' ∧ Adv classes offers safe g g' ∧
        g'.synced.map (·.1) = g.synced.map (·.1) ∧
        ∀ c, Src.cls c ∈ g'.w.conf.sources → Src.cls c ∈ g.w.conf.sources ∨ (∃ p ∈ ps, Anc classes p c) ∨
          (KeyAnc classes g c ∧ ∃ p ∈ ps, ∃ A, Anc classes p A ∧ hasDefaults classes A = true) := by
  intro ps
  induction ps with
  | nil => intro g hi _ _; exact ⟨g, rfl, Adv.refl hi, rfl, fun c hc => .inl hc⟩
  | cons p ps ih =>
    intro g hi hlt hf
    have hp : p < D := hlt p List.mem_cons_self
    obtain ⟨g1, h1, adv1, gr1, hk1⟩ := hreg g p hi (by omega) (by omega)
    have hf1 : D + pending classes g1.w.conf.sources * (classes.length + 1) ≤ f :=
      Nat.le_trans (Nat.add_le_add_left (pending_mul_mono adv1.srcs _) D) hf
    obtain ⟨g', h2, adv2, hk2, gr2⟩ := ih g1 adv1.inv (fun q hq => hlt q (List.mem_cons_of_mem _ hq)) hf1
    unfold regParents
    simp only [h1]
    refine ⟨g', h2, adv1.trans adv2, hk2.trans hk1, ?_⟩
    intro c hc
    rcases gr2 c hc with a | ⟨q, hq, ha⟩ | ⟨hka, q, hq, A, ha, hd⟩
    · rcases gr1 c a with b | b | ⟨hka, A, ha, hd⟩
      · exact .inl b
      · exact .inr (.inl ⟨p, List.mem_cons_self, b⟩)
      · exact .inr (.inr ⟨hka, p, List.mem_cons_self, A, ha, hd⟩)
    · exact .inr (.inl ⟨q, List.mem_cons_of_mem _ hq, ha⟩)
    · exact .inr (.inr ⟨hka.of_keys hk1, q, List.mem_cons_of_mem _ hq, A, ha, hd⟩)

theorem syncList_total {classes : List ClassDef} {offers : List (Id × Str)} {safe : List Nat} {f : Nat}
    {reg : GWorld → Nat → Except Err GWorld} (hreg : RegTot classes offers safe f reg) :
    ∀ (ks : List Nat) (g : GWorld), SInv classes offers safe g → (∀ k ∈ ks, k ∈ g.synced.map (·.1)) →
      classes.length + pending classes g.w.conf.sources * (classes.length + 1) ≤ f →
      ∃ g', syncList classes reg g ks = .ok g' ∧ Adv classes offers safe g g' ∧ GrowSync classes g g' ∧
        g'.synced.map (·.1) = g.synced.map (·.1) := by
  intro ks
  induction ks with
  | nil => intro g hi _ _; exact ⟨g, rfl, Adv.refl hi, fun c hc => .inl hc, rfl⟩
  | cons k ks ih =>
    intro g hi hks hf
    have hkk : k ∈ g.synced.map (·.1) := hks k List.mem_cons_self
    have hkl : k < classes.length := (hi.keys k hkk).1
    obtain ⟨g1, h1, adv1, gr1, hk1⟩ := hreg g k hi hkl (by omega)
    obtain ⟨cd, hcd⟩ : ∃ cd, classes[k]? = some cd := ⟨classes[k], by simp [hkl]⟩
    let g2 : GWorld := { g1 with synced := cacheSet g1.synced k (snapOf g1.w.conf cd.accessors) }
    have hk2 : g2.synced.map (·.1) = g1.synced.map (·.1) :=
      cacheSet_keys _ (cacheGet_isSome_of_mem (by rw [hk1]; exact hkk))
    have hi2 : SInv classes offers safe g2 :=
      ⟨adv1.inv.good, adv1.inv.mapOff, fun x hx => adv1.inv.keys x (by rw [← hk2]; exact hx)⟩
    have hf2 : classes.length + pending classes g2.w.conf.sources * (classes.length + 1) ≤ f :=
      Nat.le_trans (Nat.add_le_add_left (pending_mul_mono adv1.srcs _) _) hf
    obtain ⟨g', h3, adv3, gr3, hk3⟩ := ih g2 hi2
      (fun x hx => by rw [hk2, hk1]; exact hks x (List.mem_cons_of_mem _ hx)) hf2
    unfold syncList
    simp only [h1, hcd]
    refine ⟨g', h3, ⟨adv3.inv, fun x hx => adv3.srcs x (adv1.srcs x hx), fun n hn => adv1.names n (adv3.names n hn)⟩,
      ?_, hk3.trans (hk2.trans hk1)⟩
    intro c hc
    rcases gr3 c hc with a | a
    · rcases gr1 c a with b | b | ⟨hka, _⟩
      · exact .inl b
      · exact .inr ⟨k, hkk, b⟩
      · exact .inr hka
    · exact .inr (a.of_keys (hk2.trans hk1))

theorem hasDefaults_of {classes : List ClassDef} {k : Nat} {cd : ClassDef} {cfg : Cfg}
    (hcd : classes[k]? = some cd) (hd : cd.defaults = some cfg) : hasDefaults classes k = true := by
  simp [hasDefaults, hcd, hd]

theorem registerClassG_total {classes : List ClassDef} {offers : List (Id × Str)} {safe : List Nat}
    (cx : Ctx classes offers safe) :
    ∀ (fuel : Nat), RegTot classes offers safe fuel (registerClassG classes fuel) := by
  intro fuel
  induction fuel with
  | zero => intro g k _ _ hf; omega
  | succ f ih =>
    intro g k hi hk hf
    have hL : 0 < classes.length + 1 := by omega
    unfold registerClassG
    split
    · exact ⟨g, rfl, Adv.refl hi, fun c hc => .inl hc, rfl⟩
    · rename_i hnotin
      obtain ⟨cd, hcd⟩ : ∃ cd, classes[k]? = some cd := ⟨classes[k], by simp [hk]⟩
      simp only [hcd]
      obtain ⟨g1, h1, adv1, hk1, gr1⟩ := regParents_total ih (Nat.le_of_lt hk) cd.parents g hi
        (fun p hp => cx.wf k cd hcd p hp) (by omega)
      simp only [h1]
      have grow1 : GrowK classes k g g1 := by
        intro c hc
        rcases gr1 c hc with a | ⟨p, hp, ha⟩ | ⟨hka, p, hp, A, ha, hd⟩
        · exact .inl a
        · exact .inr (.inl (.step hcd hp ha))
        · exact .inr (.inr ⟨hka, A, .step hcd hp ha, hd⟩)
      cases hdf : cd.defaults with
      | none => exact ⟨g1, rfl, adv1, grow1, hk1⟩
      | some cfg =>
        simp only
        have hdk : hasDefaults classes k = true := hasDefaults_of hcd hdf
        -- the class did not get registered while its parents were
        have hnot1 : Src.cls k ∉ g1.w.conf.sources := by
          intro hin
          rcases gr1 k hin with a | ⟨p, hp, ha⟩ | ⟨⟨s, hs, has⟩, p, hp, A, ha, hd⟩
          · exact hnotin a
          · have := ha.le cx.wf
            have := cx.wf k cd hcd p hp
            omega
          · have := cx.safe s (hi.keys s hs).2 k has hdk cd p A hcd hp ha
            rw [this] at hd; cases hd
        have hpl : pending classes (Src.cls k :: g1.w.conf.sources) < pending classes g1.w.conf.sources :=
          pending_lt (fun x hx => List.mem_cons_of_mem _ hx) hk hdk hnot1 List.mem_cons_self
        have hp1 : pending classes g1.w.conf.sources ≤ pending classes g.w.conf.sources := pending_mono adv1.srcs
        -- the nested re-sync has enough fuel
        have hsync : SyncTot classes offers safe (pending classes (Src.cls k :: g1.w.conf.sources))
            (fun g' => syncList classes (registerClassG classes f) g' (g'.synced.map (·.1))) := by
          intro g' hi' hu
          have hfuel : classes.length + pending classes g'.w.conf.sources * (classes.length + 1) ≤ f := by
            have e1 : pending classes g'.w.conf.sources + 1 ≤ pending classes g.w.conf.sources := by omega
            have e2 := Nat.mul_le_mul_right (classes.length + 1) e1
            rw [Nat.add_mul, Nat.one_mul] at e2
            omega
          obtain ⟨g'', h2, adv2, gr2, _⟩ := syncList_total ih _ g' hi' (fun x hx => hx) hfuel
          exact ⟨g'', h2, adv2, gr2⟩
        obtain ⟨g', h2, hi2, hs2, hin2, hgr2⟩ := regCompWith_total cx hsync adv1.inv
          (cx.clsOff k cd cfg hcd hdf) hnot1 (Nat.le_refl _)
        refine ⟨g', h2, ⟨hi2, fun x hx => hs2 x (adv1.srcs x hx), ?_⟩, ?_, ?_⟩
        · intro n hn
          rcases hgr2 _ hn with a | a | ⟨c, hc, _⟩
          · cases a
          · exact adv1.names n a
          · cases hc
        · intro c hc
          rcases hgr2 _ hc with a | a | ⟨c', hc', hka⟩
          · cases a; exact .inr (.inl (.refl _))
          · exact grow1 c a
          · cases hc'
            exact .inr (.inr ⟨hka.of_keys hk1, k, .refl _, hdk⟩)
        · have st := registerClassG_step (f + 1) g k g' hi.good (by
            unfold registerClassG
            simp only [hnotin, if_false, hcd, h1, hdf]
            exact h2)
          exact st.keys

/-! ### whole cases -/

theorem gFuel_ok (classes : List ClassDef) {k p : Nat} (hk : k ≤ classes.length) (hp : p ≤ classes.length) :
    k + p * (classes.length + 1) ≤ gFuel classes := by
  unfold gFuel
  have e := Nat.mul_le_mul_right (classes.length + 1) hp
  have e2 : (classes.length + 1) * (classes.length + 1) =
      classes.length * (classes.length + 1) + (classes.length + 1) := by
    rw [Nat.add_mul, Nat.one_mul]
  omega

theorem syncTop_total {classes : List ClassDef} {offers : List (Id × Str)} {safe : List Nat}
    (cx : Ctx classes offers safe) : SyncTot classes offers safe classes.length (syncTop classes) := by
  intro g hi _
  obtain ⟨g', h, adv, gr, _⟩ := syncList_total (registerClassG_total cx (gFuel classes)) _ g hi (fun x hx => hx)
    (gFuel_ok classes (Nat.le_refl _) (pending_le_length _ _))
  exact ⟨g', h, adv, gr⟩

theorem registerTop_total {classes : List ClassDef} {offers : List (Id × Str)} {safe : List Nat}
    (cx : Ctx classes offers safe) {g : GWorld} (hi : SInv classes offers safe g) {k : Nat}
    (hk : k < classes.length) :
    ∃ g', registerClassG classes (gFuel classes) g k = .ok g' ∧ Adv classes offers safe g g' ∧
      g'.synced.map (·.1) = g.synced.map (·.1) := by
  obtain ⟨g', h, adv, _, hk'⟩ := registerClassG_total cx (gFuel classes) g k hi hk
    (by have := gFuel_ok classes (k := k + 1) (Nat.succ_le_of_lt hk) (pending_le_length classes g.w.conf.sources); omega)
  exact ⟨g', h, adv, hk'⟩

/-- the operations of a case stay inside the domain: offered items, fresh component names, class indices in
range, synced palettes only of `safe` classes, `sget` only after `syn` -/
def OpsOK (classes : List ClassDef) (offers : List (Id × Str)) (safe : List Nat) :
    List Str → List Nat → List GOp → Prop
  | _, _, [] => True
  | regd, syn, .op (.add items) :: r => (∀ kv ∈ items, kv ∈ offers) ∧ OpsOK classes offers safe regd syn r
  | regd, syn, .op (.reg n cfg) :: r =>
    n ∉ regd ∧ (∀ kv ∈ flatten cfg, kv ∈ offers) ∧ OpsOK classes offers safe (n :: regd) syn r
  | regd, syn, .op (.pal k _) :: r => k < classes.length ∧ OpsOK classes offers safe regd syn r
  | regd, syn, .op (.get _) :: r => OpsOK classes offers safe regd syn r
  | regd, syn, .setGlobal :: r => OpsOK classes offers safe regd syn r
  | regd, syn, .syn k :: r => k < classes.length ∧ k ∈ safe ∧ OpsOK classes offers safe regd (k :: syn) r
  | regd, syn, .sget k :: r => k ∈ syn ∧ OpsOK classes offers safe regd syn r

/-- invariant of a case: the state is in the domain, the component names used so far are `regd`, the classes
with a synced palette are `syn` -/
structure CaseInv (classes : List ClassDef) (offers : List (Id × Str)) (safe : List Nat)
    (regd : List Str) (syn : List Nat) (g : GWorld) : Prop where
  inv : SInv classes offers safe g
  names : ∀ n, Src.name n ∈ g.w.conf.sources → n ∈ regd
  syn : ∀ k ∈ syn, (cacheGet g.synced k).isSome = true

theorem runG_total {classes : List ClassDef} {offers : List (Id × Str)} {safe : List Nat}
    (cx : Ctx classes offers safe) :
    ∀ (ops : List GOp) (regd : List Str) (syn : List Nat) (g : GWorld),
      CaseInv classes offers safe regd syn g → OpsOK classes offers safe regd syn ops →
      ∃ g', runG classes g ops = .ok g' := by
  intro ops
  induction ops with
  | nil => intro _ _ g _ _; exact ⟨g, rfl⟩
  | cons op ops ih =>
    intro regd syn g ci hok
    have keysSome : ∀ {g' : GWorld}, g'.synced.map (·.1) = g.synced.map (·.1) →
        ∀ k ∈ syn, (cacheGet g'.synced k).isSome = true := by
      intro g' hk k hks
      have := ci.syn k hks
      cases hc : cacheGet g.synced k with
      | none => simp [hc] at this
      | some s0 => exact cacheGet_isSome_of_mem (by rw [hk]; exact cacheGet_some_mem hc)
    unfold runG
    cases op with
    | op o =>
      cases o with
      | add items =>
        obtain ⟨hit, hrest⟩ := hok
        obtain ⟨g', h, adv, _⟩ := addWith_total cx (syncTop_total cx) ci.inv hit (pending_le_length _ _)
        have st := addWith_step (fun g g' hg hs => syncTop_spec hg hs) ci.inv.good h
        simp only [stepG, h]
        exact ih regd syn g' ⟨adv.inv, fun n hn => ci.names n (adv.names n hn), keysSome st.keys⟩ hrest
      | reg n cfg =>
        obtain ⟨hn, hit, hrest⟩ := hok
        have hnotin : Src.name n ∉ g.w.conf.sources := fun hin => hn (ci.names n hin)
        obtain ⟨g', h, hi', _, _, hgr⟩ := regCompWith_total cx (syncTop_total cx) ci.inv hit hnotin
          (pending_le_length _ _)
        have st := regCompWith_step (fun g g' hg hs => syncTop_spec hg hs) ci.inv.good h
        simp only [stepG, h]
        refine ih (n :: regd) syn g' ⟨hi', ?_, keysSome st.keys⟩ hrest
        intro m hm
        rcases hgr _ hm with a | a | ⟨c, hc, _⟩
        · cases a; exact List.mem_cons_self
        · exact List.mem_cons_of_mem _ (ci.names m a)
        · cases hc
      | pal k nc =>
        obtain ⟨hk, hrest⟩ := hok
        obtain ⟨cd, hcd⟩ : ∃ cd, classes[k]? = some cd := ⟨classes[k], by simp [hk]⟩
        obtain ⟨g1, h1, adv1, hk1⟩ := registerTop_total cx ci.inv hk
        have ci1 : CaseInv classes offers safe regd syn g1 :=
          ⟨adv1.inv, fun n hn => ci.names n (adv1.names n hn), keysSome hk1⟩
        simp only [stepG, getPaletteG, hcd]
        cases nc with
        | true =>
          simp only [if_true, h1]
          cases hc : cacheGet g1.w.ncCache k with
          | some s0 => exact ih regd syn g1 ci1 hrest
          | none =>
            simp only
            refine ih regd syn _ ⟨⟨⟨adv1.inv.good.conf, ?_⟩, adv1.inv.mapOff, adv1.inv.keys⟩, ci1.names, ci1.syn⟩ hrest
            intro k' s' hk'
            simp only at hk'
            rw [cacheGet_cacheSet] at hk'
            split at hk'
            · rename_i hkk; subst hkk; cases hk'; exact ⟨cd, hcd, rfl⟩
            · exact adv1.inv.good.nc k' s' hk'
        | false =>
          simp only [Bool.false_eq_true, if_false]
          cases hc : cacheGet g.w.conf.cache k with
          | some s0 => exact ih regd syn g ci hrest
          | none =>
            simp only [h1]
            refine ih regd syn _ ⟨⟨⟨⟨adv1.inv.good.conf.good, ?_⟩, adv1.inv.good.nc⟩, adv1.inv.mapOff, adv1.inv.keys⟩,
              ci1.names, ci1.syn⟩ hrest
            intro k' s' hk'
            simp only at hk'
            rw [cacheGet_cacheSet] at hk'
            split at hk'
            · rename_i hkk; subst hkk; cases hk'; exact ⟨cd, hcd, rfl⟩
            · exact adv1.inv.good.conf.cache k' s' hk'
      | get id => exact ih regd syn g ci hok
    | setGlobal =>
      have hi0 : SInv classes offers safe ({ g with isGlobal := true } : GWorld) :=
        ⟨ci.inv.good, ci.inv.mapOff, ci.inv.keys⟩
      obtain ⟨g', h, adv, _⟩ := syncTop_total cx _ hi0 (pending_le_length _ _)
      obtain ⟨_, _, _, hk', _⟩ := syncTop_spec (g := { g with isGlobal := true }) ci.inv.good h
      simp only [stepG, h]
      exact ih regd syn g' ⟨adv.inv, fun n hn => ci.names n (adv.names n hn), keysSome hk'⟩ hok
    | syn k =>
      obtain ⟨hk, hsafe, hrest⟩ := hok
      obtain ⟨cd, hcd⟩ : ∃ cd, classes[k]? = some cd := ⟨classes[k], by simp [hk]⟩
      simp only [stepG]
      cases hc : cacheGet g.synced k with
      | some s0 =>
        simp only
        refine ih regd (k :: syn) g ⟨ci.inv, ci.names, ?_⟩ hrest
        intro x hx
        rcases List.mem_cons.mp hx with rfl | hx
        · simp [hc]
        · exact ci.syn x hx
      | none =>
        simp only [hcd]
        have appendInv : ∀ (g1 : GWorld) (s : Snap), CaseInv classes offers safe regd syn g1 →
            CaseInv classes offers safe regd (k :: syn) ({ g1 with synced := g1.synced ++ [(k, s)] } : GWorld) := by
          intro g1 s c1
          refine ⟨⟨c1.inv.good, c1.inv.mapOff, ?_⟩, c1.names, ?_⟩
          · intro x hx
            simp only [List.map_append, List.map_cons, List.map_nil, List.mem_append, List.mem_singleton] at hx
            rcases hx with hx | rfl
            · exact c1.inv.keys x hx
            · exact ⟨hk, hsafe⟩
          · intro x hx
            simp only
            rw [cacheGet_append]
            rcases List.mem_cons.mp hx with rfl | hx
            · cases cacheGet g1.synced x <;> simp
            · have := c1.syn x hx
              cases hcx : cacheGet g1.synced x with
              | none => simp [hcx] at this
              | some _ => simp
        cases hgl : g.isGlobal with
        | false =>
          simp only [Bool.not_false, if_true]
          have hci := appendInv g (plainSnap cd.accessors) ci
          simp only [hgl] at hci
          exact ih regd (k :: syn) _ hci hrest
        | true =>
          simp only [Bool.not_true, Bool.false_eq_true, if_false]
          obtain ⟨g1, h1, adv1, hk1⟩ := registerTop_total cx ci.inv hk
          simp only [h1]
          exact ih regd (k :: syn) _
            (appendInv g1 _ ⟨adv1.inv, fun n hn => ci.names n (adv1.names n hn), keysSome hk1⟩) hrest
    | sget k =>
      obtain ⟨hk, hrest⟩ := hok
      have := ci.syn k hk
      simp only [stepG]
      cases hc : cacheGet g.synced k with
      | none => simp [hc] at this
      | some s0 => exact ih regd syn g ci hrest

theorem runAll_total {classes : List ClassDef} {offers : List (Id × Str)} {safe : List Nat}
    (cx : Ctx classes offers safe) (nc : Bool) (cfg : Cfg) (ops : List GOp)
    (hcfg : ∀ kv ∈ flatten cfg, kv ∈ offers) (hbi : ∀ kv ∈ flatten Gen.C14.builtin, kv ∈ offers)
    (hok : OpsOK classes offers safe [] [] ops) : ∃ g, runAll classes nc cfg ops = .ok g := by
  obtain ⟨c1, h1, hg1, _, hsrc1, hoff1⟩ := addNewItems_ctx cx (cgood_empty classes nc)
    (fun id s hs => by simp [strOf, lookup] at hs) hcfg
  obtain ⟨c2, h2, hg2, _, hsrc2, hoff2⟩ := addNewItems_ctx cx hg1 hoff1 hbi
  have hnew : newConf nc cfg = .ok c2 := by
    unfold newConf
    simp only [h1, h2]
  unfold runAll
  simp only [hnew]
  apply runG_total cx ops [] [] _ _ hok
  refine ⟨⟨⟨hg2, fun k s hk => by simp [cacheGet] at hk⟩, hoff2, fun k hk => by simp at hk⟩, ?_, fun k hk => by cases hk⟩
  intro n hn
  simp only at hn
  rw [hsrc2, hsrc1] at hn
  cases hn

end ColorsConf
