import AkVerif.Lemmas.LLCtorRec
import AkVerif.Lemmas.LLTmpl
import AkVerif.Lemmas.LLFuel
/-!
C03 at the level of the whole constructor for dictionaries written with production templates
(`constructG T`: the productions the templates generate are the data `T`): the verdict of the recursion
check is exact w.r.t. the **expanded** dictionary (`createProdsT T` = the user's productions with every
template key replaced by its generated productions).
-/
set_option linter.unusedSectionVars false
namespace LL
open Ak

theorem constructG_stages {T : Tmpl} {inp : CtorIn} {skip : List Sym} {U G : Prods Sym} {S NG : List Sym}
    {first follow : SetMap Sym} {table : Table Sym}
    (hD : (tokenNames inp).any (fun t => hasDunder t.name) = false)
    (hskip : skipSet inp (tokenNames inp) = .ok skip)
    (hU : createProdsT T 0 inp.prods [] = .ok U)
    (hF : factorize (tokenNames inp) U inp.smart = .ok (G, S))
    (hV : verifyPart1 (sadd (tokenNames inp) endSym) (parseSym inp.start) G = .ok ())
    (hN : nullables G = .ok NG)
    (hFi : firstSets (sadd (tokenNames inp) endSym) NG G = .ok first)
    (hFo : followSets (sadd (tokenNames inp) endSym) NG first G (parseSym inp.start) endSym = .ok follow)
    (hT : mkTable (sadd (tokenNames inp) endSym) NG first follow G = .ok table) :
    constructG T inp =
      (match recCheck G (sadd (tokenNames inp) endSym) NG (sortedKeys G) with
       | .ok () => .ok { terminals := sadd (tokenNames inp) endSym, skip := skip, start := parseSym inp.start,
                         syn := inp.syn, kw := inp.kw, userProds := U, prods := G, suffix := S,
                         nullables := NG, first := first, follow := follow, table := table }
       | .error e => .error e) := by
  unfold constructG
  simp only [hD, Bool.false_eq_true, if_false, hskip, hU, hF, hV, hN, hFi, hFo, hT, bind, Except.bind]
  cases recCheck G (sadd (tokenNames inp) endSym) NG (sortedKeys G) <;> rfl

/-- `construct_rec_iff` through the template expansion -/
theorem constructG_rec_iff {T : Tmpl} {inp : CtorIn} {skip : List Sym} {U G : Prods Sym} {S NG NU : List Sym}
    {first follow : SetMap Sym} {table : Table Sym} (hpl : PlainNames inp.prods)
    (hD : (tokenNames inp).any (fun t => hasDunder t.name) = false)
    (hskip : skipSet inp (tokenNames inp) = .ok skip)
    (hU : createProdsT T 0 inp.prods [] = .ok U)
    (hF : factorize (tokenNames inp) U inp.smart = .ok (G, S))
    (hV : verifyPart1 (sadd (tokenNames inp) endSym) (parseSym inp.start) G = .ok ())
    (hN : nullables G = .ok NG)
    (hFi : firstSets (sadd (tokenNames inp) endSym) NG G = .ok first)
    (hFo : followSets (sadd (tokenNames inp) endSym) NG first G (parseSym inp.start) endSym = .ok follow)
    (hT : mkTable (sadd (tokenNames inp) endSym) NG first follow G = .ok table)
    (hNU : nullables U = .ok NU) :
    (constructG T inp = .error .grammarIsRecursive ↔ ∃ X, Plus (Reach1 U NU) X X) ∧
    ((∃ P, constructG T inp = .ok P) ↔ ¬ ∃ X, Plus (Reach1 U NU) X X) := by
  have hc := constructG_stages (T := T) hD hskip hU hF hV hN hFi hFo hT
  have h1 := verifyPart1_ok hV
  obtain ⟨hUwf, _⟩ := createProdsT_wf hU hpl userWF_nil
  have hcyc := factorize_cycle_iff hUwf (terms_path_nil hD) hF hNU hN
  obtain ⟨hnd, _⟩ := factorize_struct hF
  have hknown : ∀ X rules, (X, rules) ∈ G → ∀ r ∈ rules, ∀ s ∈ r.rhs,
      s ∈ sadd (tokenNames inp) endSym ∨ s ∈ G.map (·.1) :=
    fun X rules hm r hr s hs => h1.known s (mem_psyms.2 ⟨X, rules, hm, r, hr, hs⟩)
  obtain ⟨i1, i2⟩ := recCheck_rec_iff (nulls := NG) hnd (fun k hk => h1.disjoint k hk) hknown
    (fun k hk => mem_sortedKeys.2 hk) (fun s hs => Or.inr (mem_sortedKeys.1 hs))
  rw [hc]
  constructor
  · rw [← hcyc, ← i1]
    cases hr : recCheck G (sadd (tokenNames inp) endSym) NG (sortedKeys G) with
    | ok u => cases u; simp
    | error e => simp
  · rw [← hcyc, ← i2]
    cases hr : recCheck G (sadd (tokenNames inp) endSym) NG (sortedKeys G) with
    | ok u => cases u; simp
    | error e => simp

/-- an accepted dictionary with templates is not left recursive — stated on the expanded productions -/
theorem acceptedG_user_acyclic {T : Tmpl} {inp : CtorIn} {P : Parser} (hP : constructG T inp = .ok P)
    (hpl : PlainNames inp.prods) {NU : List Sym} (hNU : nullables P.userProds = .ok NU) :
    ¬ ∃ X, Plus (Reach1 P.userProds NU) X X := by
  have hB := constructG_built hP
  obtain ⟨hUwf, _⟩ := createProdsT_wf hB.hU hpl userWF_nil
  have hcyc := factorize_cycle_iff hUwf (terms_path_nil hB.hD) hB.hF hNU hB.hN
  rw [← hcyc]
  exact accepted_no_cycle_G hP

/-! ### `_get_nullables` is total; the hypotheses of `construct_rec_iff` are met by every accepted input -/

theorem nullLoop_error {σ : Type} [DecidableEq σ] (G : Prods σ) :
    ∀ (fuel : Nat) (cur : List σ) (e : Err), nullLoop G fuel cur = .error e → e = .outOfFuel
  | 0, _, e, h => by simp [nullLoop] at h; exact h.symm
  | fuel + 1, cur, e, h => by
    unfold nullLoop at h
    dsimp only at h
    split at h
    · simp at h
    · exact nullLoop_error G fuel _ e h

/-- `_get_nullables` always returns a set (its only error exit is the fuel, which suffices) -/
theorem nullables_total {σ : Type} [DecidableEq σ] (G : Prods σ) : ∃ N, nullables G = .ok N := by
  cases h : nullables G with
  | ok N => exact ⟨N, rfl⟩
  | error e =>
    have := nullLoop_error G _ _ e h
    subst this
    exact absurd h (nullables_fuel G)

/-- every stage named as a hypothesis of `construct_rec_iff` succeeded when `construct` returned a parser -/
theorem construct_stages_of_ok {inp : CtorIn} {P : Parser} (hP : construct inp = .ok P) :
    (tokenNames inp).any (fun t => hasDunder t.name) = false ∧
    skipSet inp (tokenNames inp) = .ok P.skip ∧
    createProds 0 inp.prods [] = .ok P.userProds ∧
    factorize (tokenNames inp) P.userProds inp.smart = .ok (P.prods, P.suffix) ∧
    verifyPart1 (sadd (tokenNames inp) endSym) (parseSym inp.start) P.prods = .ok () ∧
    nullables P.prods = .ok P.nullables ∧
    firstSets (sadd (tokenNames inp) endSym) P.nullables P.prods = .ok P.first ∧
    followSets (sadd (tokenNames inp) endSym) P.nullables P.first P.prods (parseSym inp.start) endSym = .ok P.follow ∧
    mkTable (sadd (tokenNames inp) endSym) P.nullables P.first P.follow P.prods = .ok P.table ∧
    ∃ NU, nullables P.userProds = .ok NU := by
  have hB := construct_built hP
  have e1 := hB.hterms
  have e2 := hB.hstart
  refine ⟨hB.hD, hB.hskip, hB.hU, hB.hF, ?_, hB.hN, ?_, ?_, ?_, nullables_total _⟩
  · rw [← e1, ← e2]; exact hB.hV
  · rw [← e1]; exact hB.hFi
  · rw [← e1, ← e2]; exact hB.hFo
  · rw [← e1]; exact hB.hT

end LL
