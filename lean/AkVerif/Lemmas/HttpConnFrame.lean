import AkVerif.Lemmas.HttpConnHeap
import AkVerif.Lemmas.HttpConn
/-!
C17, second part of the heap lemmas: monotonicity, the frame over whole histories, requests as a
function of the view, what a derivation creates, and the caller's lists.
-/
namespace HttpConn
open Ak

/-! ## monotonicity: connections and the caller's dictionaries are only ever added -/

theorem getConn_dicts (H : Heap) (k : Nat) (comps : Option (List Str)) : (getConn H k comps).1.dicts = H.dicts := by
  rcases getConn_heap H k comps with h | ⟨cl, pfx, hcl, h⟩ | ⟨cl, pfx, H1, n, hcl, hmk, h⟩
  · rw [h]
  · rw [h]
  · rw [h]
    obtain ⟨_, _, _, _, _, _, _, _, hd, _⟩ := mkConn_spec hmk
    exact hd.1

theorem getConn_userDicts (H : Heap) (k : Nat) (comps : Option (List Str)) :
    (getConn H k comps).1.userDicts = H.userDicts := by
  rcases getConn_heap H k comps with h | ⟨cl, pfx, hcl, h⟩ | ⟨cl, pfx, H1, n, hcl, hmk, h⟩
  · rw [h]
  · rw [h]
  · rw [h]
    obtain ⟨_, _, _, _, _, _, _, _, hd, _⟩ := mkConn_spec hmk
    exact hd.2

theorem request_dicts (H : Heap) (c : Nat) (args : Args) : ∃ y, (request H c args).1.dicts = H.dicts ++ y :=
  (request_effect H c args).dicts

theorem mkConn_conns_le {H H' : Heap} {t own plain n} (h : mkConn H t own plain = some (H', n)) :
    H.conns.length ≤ H'.conns.length ∧ H'.dicts = H.dicts := by
  obtain ⟨_, _, _, _, hcs, _, _, _, hd, _⟩ := mkConn_spec h
  exact ⟨by simp [hcs], hd.1⟩

theorem step_mono (H : Heap) (op : Op) :
    H.conns.length ≤ (step H op).1.conns.length ∧ ∃ y, (step H op).1.dicts = H.dicts ++ y := by
  cases op with
  | newList as => exact ⟨Nat.le_refl _, [], by simp [step]⟩
  | listAppend l a =>
    simp only [step]
    split
    · split <;> exact ⟨Nat.le_refl _, [], by simp⟩
    · exact ⟨Nat.le_refl _, [], by simp⟩
  | newDict d => exact ⟨Nat.le_refl _, [ofUDict d], by simp [step]⟩
  | mk t own plain =>
    simp only [step]
    split
    · rename_i H' n h
      have := mkConn_conns_le h
      exact ⟨this.1, [], by simp [this.2]⟩
    · exact ⟨Nat.le_refl _, [], by simp⟩
  | add c a =>
    simp only [step]
    split
    · exact ⟨Nat.le_refl _, [], by simp⟩
    · split <;> exact ⟨Nat.le_refl _, [], by simp⟩
  | newData v => exact ⟨Nat.le_refl _, [], by simp [step]⟩
  | newParams d =>
    simp only [step]
    split
    · exact ⟨Nat.le_refl _, [d], rfl⟩
    · exact ⟨Nat.le_refl _, [], by simp⟩
  | newClass bases mro pmap own dlg =>
    simp only [step]
    split <;> exact ⟨Nat.le_refl _, [], by simp⟩
  | newCaller t cls =>
    rcases step_newCaller_cases H t cls with ⟨e, h⟩ | ⟨cl, _, _, h⟩ | ⟨H', n, t', cl, hmk, _, _, h⟩
    · rw [h]; exact ⟨Nat.le_refl _, [], by simp⟩
    · rw [h]; exact ⟨Nat.le_refl _, [], by simp⟩
    · rw [h]
      have := mkConn_conns_le hmk
      exact ⟨this.1, [], by simp [this.2]⟩
  | clone k own =>
    simp only [step]
    split
    · exact ⟨Nat.le_refl _, [], by simp⟩
    · split
      · rename_i H' n h
        have := mkConn_conns_le h
        exact ⟨this.1, [], by simp [this.2]⟩
      · exact ⟨Nat.le_refl _, [], by simp⟩
  | connOf k => simp only [step]; split <;> exact ⟨Nat.le_refl _, [], by simp⟩
  | cached k pfx =>
    simp only [step]
    split
    · split <;> exact ⟨Nat.le_refl _, [], by simp⟩
    · exact ⟨Nat.le_refl _, [], by simp⟩
  | call k m args =>
    rcases step_call_cases H k m args with ⟨e, h⟩ | ⟨comps, a', h⟩
    · rw [h]; exact ⟨Nat.le_refl _, [], by simp⟩
    · rw [h]
      have h1 := getConn_conns_le (H := H) k comps
      have d1 := getConn_dicts H k comps
      rcases doCall_heap H k comps a' with h2 | ⟨c', h2⟩
      · rw [h2]; exact ⟨h1, [], by simp [d1]⟩
      · rw [h2]
        obtain ⟨y2, d2⟩ := request_dicts (getConn H k comps).1 c' a'
        exact ⟨by rw [request_conns]; exact h1, y2, by rw [d2, d1]⟩
  | request c' args =>
    simp only [step]
    have h2 := request_conns H c' args
    obtain ⟨y2, d2⟩ := request_dicts H c' args
    split
    · rename_i H' s heq
      have : H' = (request H c' args).1 := by rw [heq]
      subst this; exact ⟨by rw [h2]; exact Nat.le_refl _, y2, d2⟩
    · rename_i H' e heq
      have : H' = (request H c' args).1 := by rw [heq]
      subst this; exact ⟨by rw [h2]; exact Nat.le_refl _, y2, d2⟩

theorem run_mono (H : Heap) (ops : List Op) :
    H.conns.length ≤ (run H ops).conns.length ∧ ∃ y, (run H ops).dicts = H.dicts ++ y := by
  induction ops generalizing H with
  | nil => exact ⟨Nat.le_refl _, [], by simp [run]⟩
  | cons op ops ih =>
    obtain ⟨h1, y1, hy1⟩ := step_mono H op
    obtain ⟨h2, y2, hy2⟩ := ih (step H op).1
    refine ⟨Nat.le_trans h1 h2, y1 ++ y2, ?_⟩
    simp only [run]
    rw [hy2, hy1, List.append_assoc]

/-- **frame over histories** -/
theorem run_view {H : Heap} (hi : Inv H) {c : Nat} (hc : c < H.conns.length) (ops : List Op)
    (hno : ∀ op ∈ ops, ¬ op.addsTo c) : viewCore (run H ops) c = viewCore H c := by
  induction ops generalizing H with
  | nil => rfl
  | cons op ops ih =>
    simp only [run]
    rw [ih (step_inv hi op) (Nat.lt_of_lt_of_le hc (step_mono H op).1)
      (fun o ho => hno o (List.mem_cons_of_mem _ ho))]
    exact step_view hi hc op (hno op List.mem_cons_self)

/-- a dictionary reference that is valid keeps its content -/
theorem optDict_ext {H H' : Heap} (y : List Dict) (h : H'.dicts = H.dicts ++ y) (r : Option Nat)
    (hr : ∀ n, r = some n → n < H.dicts.length) : optDict H' r = optDict H r := by
  cases r with
  | none => rfl
  | some n =>
    simp only [optDict]
    rw [h, List.getElem?_append_left (hr n rfl)]

theorem optParams_ext {H H' : Heap} (y : List Dict) (h : H'.dicts = H.dicts ++ y) (r : Option Nat)
    (hr : ∀ n, r = some n → n < H.dicts.length) : optParams H' r = optParams H r := by
  cases r with
  | none => rfl
  | some n =>
    simp only [optParams]
    rw [h, List.getElem?_append_left (hr n rfl)]

/-! ## requests as a function of the view -/

def eraseId (s : Sent) : Sent := { s with genId := none }

/-- the request sent through `c` (the outer request itself, `requestFlat`: nesting adapters of the chain send
their own, separate requests), the number taken from the id counter left out -/
def sentCore (H : Heap) (c : Nat) (args : Args) : Except Err Sent :=
  match (requestFlat H c args).2 with
  | .ok s => .ok (eraseId s)
  | .error e => .error e

/-- the same, computed from the view alone -/
def pureSend (v : Conn × Str × Bool × List Adapter) (hd : Option Dict) (pd : Option UDict) (body : Body)
    (args : Args) : Except Err Sent :=
  match applyAll v.2.2.2 { path := args.path, headers := copyHeaders hd } with
  | .error e => .error e
  | .ok ra => .ok (eraseId (assemble ⟨v.2.1, v.2.2.1, 0⟩ ra args.method (finalParams v.2.2.2 pd)
      (finalBody v.2.2.2 body) (respFold v.2.2.2 (decodeResp args.raw args.resp))))

theorem eraseId_assemble (impl : Impl) (ra : RA) (m : Option Str) (pd : Option UDict) (d : Body) (r : Except Err J) :
    eraseId (assemble impl ra m pd d r) = eraseId (assemble ⟨impl.address, impl.sendIds, 0⟩ ra m pd d r) := by
  simp [assemble, eraseId]

theorem sentCore_eq (H : Heap) (c : Nat) (args : Args) :
    sentCore H c args =
      match viewCore H c, optDict H args.headers, optParams H args.params, optData H args.data with
      | some v, some hd, some pd, some body => pureSend v hd pd body args
      | _, _, _, _ => .error .keyError := by
  unfold sentCore
  rw [(request_spec H c args).1]
  unfold requestPure viewCore
  cases hv : connView H c with
  | none => simp
  | some v =>
    obtain ⟨cn, impl, as⟩ := v
    cases hh : optDict H args.headers with
    | none => simp
    | some hd =>
      cases hp : optParams H args.params with
      | none => simp
      | some pd =>
        cases hb : optData H args.data with
        | none => simp
        | some body =>
          simp only [Option.map_some, pureSend]
          cases ha : applyAll as { path := args.path, headers := copyHeaders hd } with
          | error e => simp
          | ok ra =>
            simp only []
            rw [← eraseId_assemble impl]

/-! ## what a derivation creates -/

theorem viewCore_some_iff {H : Heap} {c : Nat} {cn : Conn} {addr : Str} {sid : Bool} {as : List Adapter} :
    viewCore H c = some (cn, addr, sid, as) ↔
      ∃ impl, H.conns[c]? = some cn ∧ H.impls[cn.impl]? = some impl ∧ H.lists[cn.alist]? = some as ∧
        impl.address = addr ∧ impl.sendIds = sid := by
  unfold viewCore connView
  constructor
  · intro h
    cases hc : H.conns[c]? with
    | none => simp [hc] at h
    | some cn' =>
      simp only [hc] at h
      cases hi : H.impls[cn'.impl]? with
      | none => simp [hi] at h
      | some impl =>
        cases hl : H.lists[cn'.alist]? with
        | none => simp [hi, hl] at h
        | some as' =>
          simp [hi, hl] at h
          obtain ⟨rfl, rfl, rfl, rfl⟩ := h
          exact ⟨impl, rfl, hi, hl, rfl, rfl⟩
  · rintro ⟨impl, hc, hi, hl, rfl, rfl⟩
    simp [hc, hi, hl]

/-- `cls(parent, adapters=own)`: the new connection's list is a fresh one holding
`own ++ parent.adapters`; it shares the parent's `conn_impl`. -/
theorem viewCore_mkConn_new {H H' : Heap} {p : Nat} {own : Own} {plain : Bool} {n : Nat}
    (h : mkConn H (.conn p) own plain = some (H', n))
    {pc : Conn} {addr : Str} {sid : Bool} {pl as : List Adapter}
    (hv : viewCore H p = some (pc, addr, sid, pl)) (ho : ownAdapters H own = some as) :
    n = H.conns.length ∧
    viewCore H' n = some (⟨pc.impl, H.lists.length, plain⟩, addr, sid, as ++ pl) := by
  obtain ⟨as', cn, ho', hn, hcs, ha, hp, _, _, _, hcase⟩ := mkConn_spec h
  rw [ho] at ho'; cases ho'
  obtain ⟨impl, hpc, himpl, hpl, rfl, rfl⟩ := viewCore_some_iff.mp hv
  refine ⟨hn, ?_⟩
  rcases hcase with ⟨p', pc', pl', ht, hpc', hpl', hl, himp, himpls⟩ | ⟨_, _, _, ht, _⟩
  · cases ht
    rw [hpc] at hpc'; cases hpc'
    rw [hpl] at hpl'; cases hpl'
    have hcn : cn = ⟨pc.impl, H.lists.length, plain⟩ := by
      cases cn; simp at ha hp himp; simp [ha, hp, himp]
    subst hcn
    apply viewCore_some_iff.mpr
    refine ⟨impl, ?_, ?_, ?_, rfl, rfl⟩
    · rw [hcs, hn]; simp
    · rw [himpls]; exact himpl
    · rw [hl]; simp
  · cases ht

/-- `cls("http://…", adapters=own)` -/
theorem viewCore_mkConn_addr {H H' : Heap} {a : Str} {isStr sendIds : Bool} {own : Own} {plain : Bool} {n : Nat}
    (h : mkConn H (.addr a isStr sendIds) own plain = some (H', n))
    {as : List Adapter} (ho : ownAdapters H own = some as) :
    n = H.conns.length ∧
    viewCore H' n = some (⟨H.impls.length, H.lists.length, plain⟩,
      if isStr then stripSlash a else a, if isStr then true else sendIds, as) := by
  obtain ⟨as', cn, ho', hn, hcs, ha, hp, _, _, _, hcase⟩ := mkConn_spec h
  rw [ho] at ho'; cases ho'
  refine ⟨hn, ?_⟩
  rcases hcase with ⟨_, _, _, ht, _⟩ | ⟨a', isStr', sid', ht, hl, himp, himpls⟩
  · cases ht
  · cases ht
    have hcn : cn = ⟨H.impls.length, H.lists.length, plain⟩ := by
      cases cn; simp at ha hp himp; simp [ha, hp, himp]
    subst hcn
    apply viewCore_some_iff.mpr
    refine ⟨⟨if isStr then stripSlash a else a, if isStr then true else sendIds, 0⟩, ?_, ?_, ?_, rfl, rfl⟩
    · rw [hcs, hn]; simp
    · rw [himpls]; simp
    · rw [hl]; simp

/-- `c.add_adapter(a)` appends to `c`'s list -/
theorem viewCore_add {H : Heap} {c : Nat} (a : Adapter) {cn : Conn} {addr : Str} {sid : Bool} {as : List Adapter}
    (hv : viewCore H c = some (cn, addr, sid, as)) :
    (step H (.add c a)).2 = .ok .unit ∧
    viewCore (step H (.add c a)).1 c = some (cn, addr, sid, as ++ [a]) := by
  obtain ⟨impl, hc, himpl, hl, rfl, rfl⟩ := viewCore_some_iff.mp hv
  simp only [step, hc, hl]
  refine ⟨trivial, viewCore_some_iff.mpr ⟨impl, hc, himpl, ?_, rfl, rfl⟩⟩
  have := (List.getElem?_eq_some_iff.mp hl).1
  simp [this]

theorem lookup_append_new {β} (l : List (Str × β)) (k : Str) (v : β) (h : lookup l k = none) :
    lookup (l ++ [(k, v)]) k = some v := by
  induction l with
  | nil => simp [lookup]
  | cons kv r ih =>
    obtain ⟨k0, v0⟩ := kv
    by_cases h0 : k0 = k
    · simp [lookup, h0] at h
    · simp only [lookup, h0, if_false] at h
      simp [lookup, h0, ih h]

theorem mkConn_ok {H : Heap} {p : Nat} {own : Own} (plain : Bool)
    {pc : Conn} {addr : Str} {sid : Bool} {pl as : List Adapter}
    (hv : viewCore H p = some (pc, addr, sid, pl)) (ho : ownAdapters H own = some as) :
    ∃ H' n, mkConn H (.conn p) own plain = some (H', n) := by
  obtain ⟨impl, hpc, _, hpl, _, _⟩ := viewCore_some_iff.mp hv
  simp [mkConn, ho, hpc, hpl]

/-! ## the caller's lists -/

theorem mkConn_lists {H H' : Heap} {t own plain n} (h : mkConn H t own plain = some (H', n)) :
    (∃ x, H'.lists = H.lists ++ x) ∧ H'.userLists = H.userLists := by
  obtain ⟨_, _, _, _, _, _, _, hu, _, _, hcase⟩ := mkConn_spec h
  refine ⟨?_, hu⟩
  rcases hcase with ⟨_, _, _, _, _, _, hl, _, _⟩ | ⟨_, _, _, _, hl, _, _⟩ <;> exact ⟨_, hl⟩

theorem getConn_lists (H : Heap) (k : Nat) (comps : Option (List Str)) :
    (∃ x, (getConn H k comps).1.lists = H.lists ++ x) ∧ (getConn H k comps).1.userLists = H.userLists := by
  rcases getConn_heap H k comps with h | ⟨cl, pfx, hcl, h⟩ | ⟨cl, pfx, H1, n, hcl, hmk, h⟩
  · rw [h]; exact ⟨⟨[], by simp⟩, rfl⟩
  · rw [h]; exact ⟨⟨[], by simp⟩, rfl⟩
  · rw [h]; have hm := mkConn_lists hmk; exact hm

theorem request_lists (H : Heap) (c : Nat) (args : Args) :
    (request H c args).1.lists = H.lists ∧ (request H c args).1.userLists = H.userLists :=
  ⟨(request_effect H c args).lists, (request_effect H c args).userLists⟩

/-- a list object of the caller changes only when the caller appends to it -/
theorem step_userList {H : Heap} (hi : Inv H) {l : Nat} (hl : l ∈ H.userLists) (op : Op)
    (hno : ∀ a, op ≠ .listAppend l a) :
    (step H op).1.lists[l]? = H.lists[l]? ∧ l ∈ (step H op).1.userLists := by
  have hlt := (hi.user_ok l hl).1
  have ext : ∀ {H' : Heap}, (∃ x, H'.lists = H.lists ++ x) ∧ H'.userLists = H.userLists →
      H'.lists[l]? = H.lists[l]? ∧ l ∈ H'.userLists := by
    rintro H' ⟨⟨x, hx⟩, hu⟩
    exact ⟨by rw [hx, List.getElem?_append_left hlt], by rw [hu]; exact hl⟩
  have same : H.lists[l]? = H.lists[l]? ∧ l ∈ H.userLists := ⟨rfl, hl⟩
  cases op with
  | newList as =>
    simp only [step]
    exact ⟨by rw [List.getElem?_append_left hlt], by simp [hl]⟩
  | listAppend l' a =>
    have hne : l' ≠ l := fun h => hno a (by rw [h])
    simp only [step]
    split
    · split
      · exact ⟨by simp only []; rw [List.getElem?_set_ne hne], hl⟩
      · exact same
    · exact same
  | newDict d => exact same
  | mk t own plain =>
    simp only [step]
    split
    · rename_i H' n h; have hm := mkConn_lists h; exact ext hm
    · exact same
  | add c a =>
    simp only [step]
    split
    · exact same
    · rename_i cn hcn
      split
      · have := (hi.user_ok l hl).2 c cn hcn
        exact ⟨by simp only []; rw [List.getElem?_set_ne this], hl⟩
      · exact same
  | newData v => exact same
  | newParams d => simp only [step]; split <;> exact same
  | newClass bases mro pmap own dlg => simp only [step]; split <;> exact same
  | newCaller t cls =>
    rcases step_newCaller_cases H t cls with ⟨e, h⟩ | ⟨cl, _, _, h⟩ | ⟨H', n, t', cl, hmk, _, _, h⟩
    · rw [h]; exact same
    · rw [h]; exact same
    · rw [h]; have hm := mkConn_lists hmk; exact ext hm
  | clone k own =>
    simp only [step]
    split
    · exact same
    · split
      · rename_i H' n h; have hm := mkConn_lists h; exact ext hm
      · exact same
  | connOf k => simp only [step]; split <;> exact same
  | cached k pfx =>
    simp only [step]
    split
    · split <;> exact same
    · exact same
  | call k m args =>
    rcases step_call_cases H k m args with ⟨e, h⟩ | ⟨comps, a', h⟩
    · rw [h]; exact same
    · rw [h]
      have h1 := getConn_lists H k comps
      rcases doCall_heap H k comps a' with h2 | ⟨c', h2⟩
      · rw [h2]; exact ext h1
      · rw [h2]
        have h3 := request_lists (getConn H k comps).1 c' a'
        exact ext ⟨by rw [h3.1]; exact h1.1, by rw [h3.2]; exact h1.2⟩
  | request c' args =>
    simp only [step]
    have h2 := request_lists H c' args
    split
    · rename_i H' s heq
      have : H' = (request H c' args).1 := by rw [heq]
      subst this; exact ext ⟨⟨[], by simp [h2.1]⟩, h2.2⟩
    · rename_i H' e heq
      have : H' = (request H c' args).1 := by rw [heq]
      subst this; exact ext ⟨⟨[], by simp [h2.1]⟩, h2.2⟩

theorem run_userList {H : Heap} (hi : Inv H) {l : Nat} (hl : l ∈ H.userLists) (ops : List Op)
    (hno : ∀ op ∈ ops, ∀ a, op ≠ .listAppend l a) :
    (run H ops).lists[l]? = H.lists[l]? := by
  induction ops generalizing H with
  | nil => rfl
  | cons op ops ih =>
    simp only [run]
    have h1 := step_userList hi hl op (hno op List.mem_cons_self)
    rw [ih (step_inv hi op) h1.2 (fun o ho => hno o (List.mem_cons_of_mem _ ho)), h1.1]

/-! ## the caller's dictionaries -/

/-- a dict / pair-sequence object as a caller makes it: every value has a `str()` -/
def CallerCell (d : Dict) : Prop := ∀ kv, kv ∈ d → (HVal.text kv.2).isSome = true

theorem CallerCell_ofUDict (u : UDict) : CallerCell (ofUDict u) := by
  intro kv hkv
  simp only [ofUDict, List.mem_map] at hkv
  obtain ⟨x, _, rfl⟩ := hkv
  rfl

theorem toUDict_of_CallerCell {d : Dict} (h : CallerCell d) : ∃ u, toUDict d = some u := by
  induction d with
  | nil => exact ⟨[], rfl⟩
  | cons kv r ih =>
    obtain ⟨k, v⟩ := kv
    obtain ⟨u, hu⟩ := ih (fun x hx => h x (List.mem_cons_of_mem _ hx))
    have hv := h (k, v) List.mem_cons_self
    cases ht : HVal.text v with
    | none => simp [ht] at hv
    | some t => exact ⟨(k, t) :: u, by simp [toUDict, ht, hu]⟩

/-- the caller's dict / params objects exist and hold values a caller can put there -/
def DInv (H : Heap) : Prop := ∀ r, r ∈ H.userDicts → ∃ d, H.dicts[r]? = some d ∧ CallerCell d

theorem DInv.empty : DInv Heap.empty := by
  intro r hr; simp [Heap.empty] at hr

theorem step_userDicts (H : Heap) (op : Op) :
    (step H op).1.userDicts = H.userDicts ∨
    ∃ d, CallerCell d ∧ (step H op).1.userDicts = H.userDicts ++ [H.dicts.length] ∧
      (step H op).1.dicts = H.dicts ++ [d] := by
  cases op with
  | newList as => exact Or.inl rfl
  | listAppend l a =>
    simp only [step]
    split
    · split <;> exact Or.inl rfl
    · exact Or.inl rfl
  | newDict d => exact Or.inr ⟨ofUDict d, CallerCell_ofUDict d, rfl, rfl⟩
  | mk t own plain =>
    simp only [step]
    split
    · rename_i H' n h
      obtain ⟨_, _, _, _, _, _, _, _, hd, _⟩ := mkConn_spec h
      exact Or.inl hd.2
    · exact Or.inl rfl
  | add c a =>
    simp only [step]
    split
    · exact Or.inl rfl
    · split <;> exact Or.inl rfl
  | newData v => exact Or.inl rfl
  | newParams d =>
    simp only [step]
    split
    · rename_i hall
      refine Or.inr ⟨d, ?_, rfl, rfl⟩
      intro kv hkv
      exact List.all_eq_true.mp hall kv hkv
    · exact Or.inl rfl
  | newClass bases mro pmap own dlg => simp only [step]; split <;> exact Or.inl rfl
  | newCaller t cls =>
    rcases step_newCaller_cases H t cls with ⟨e, h⟩ | ⟨cl, _, _, h⟩ | ⟨H', n, t', cl, hmk, _, _, h⟩
    · rw [h]; exact Or.inl rfl
    · rw [h]; exact Or.inl rfl
    · rw [h]
      obtain ⟨_, _, _, _, _, _, _, _, hd, _⟩ := mkConn_spec hmk
      exact Or.inl hd.2
  | clone k own =>
    simp only [step]
    split
    · exact Or.inl rfl
    · split
      · rename_i H' n h
        obtain ⟨_, _, _, _, _, _, _, _, hd, _⟩ := mkConn_spec h
        exact Or.inl hd.2
      · exact Or.inl rfl
  | connOf k => simp only [step]; split <;> exact Or.inl rfl
  | cached k pfx =>
    simp only [step]
    split
    · split <;> exact Or.inl rfl
    · exact Or.inl rfl
  | call k m args =>
    rcases step_call_cases H k m args with ⟨e, h⟩ | ⟨comps, a', h⟩
    · rw [h]; exact Or.inl rfl
    · rw [h]
      have h1 := getConn_userDicts H k comps
      rcases doCall_heap H k comps a' with h2 | ⟨c', h2⟩
      · rw [h2]; exact Or.inl h1
      · rw [h2]; exact Or.inl ((request_effect (getConn H k comps).1 c' a').userDicts.trans h1)
  | request c' args =>
    simp only [step]
    have h2 := (request_effect H c' args).userDicts
    split
    · rename_i H' s heq
      have : H' = (request H c' args).1 := by rw [heq]
      subst this; exact Or.inl h2
    · rename_i H' e heq
      have : H' = (request H c' args).1 := by rw [heq]
      subst this; exact Or.inl h2

theorem step_dinv {H : Heap} (hd : DInv H) (op : Op) : DInv (step H op).1 := by
  intro r hr
  obtain ⟨_, y, hy⟩ := step_mono H op
  have old : r ∈ H.userDicts → ∃ d, (step H op).1.dicts[r]? = some d ∧ CallerCell d := by
    intro h
    obtain ⟨d, hu, hc⟩ := hd r h
    have hlt := (List.getElem?_eq_some_iff.mp hu).1
    exact ⟨d, by rw [hy, List.getElem?_append_left hlt]; exact hu, hc⟩
  rcases step_userDicts H op with h | ⟨d, hc, h1, h2⟩
  · rw [h] at hr; exact old hr
  · rw [h1] at hr
    rcases List.mem_append.mp hr with h | h
    · exact old h
    · simp at h; subst h
      exact ⟨d, by rw [h2]; simp, hc⟩

theorem run_dinv {H : Heap} (hd : DInv H) (ops : List Op) : DInv (run H ops) := by
  induction ops generalizing H with
  | nil => exact hd
  | cons op ops ih => exact ih (step_dinv hd op)

theorem optParams_user {H : Heap} (hd : DInv H) {r : Nat} (hr : r ∈ H.userDicts) :
    ∃ d u, optDict H (some r) = some (some d) ∧ optParams H (some r) = some (some u) := by
  obtain ⟨d, hu, hc⟩ := hd r hr
  obtain ⟨u, htu⟩ := toUDict_of_CallerCell hc
  exact ⟨d, u, by simp [optDict, hu], by simp [optParams, hu, htu]⟩

/-! ## the caller's structured data objects: only ever added, never written -/

theorem mkConn_datas {H H' : Heap} {t own plain n} (h : mkConn H t own plain = some (H', n)) : H'.datas = H.datas := by
  unfold mkConn at h
  split at h
  · cases h
  · split at h
    · split at h
      · cases h
      · split at h
        · cases h
        · cases h; rfl
    · cases h; rfl

theorem getConn_datas (H : Heap) (k : Nat) (comps : Option (List Str)) : (getConn H k comps).1.datas = H.datas := by
  rcases getConn_heap H k comps with h | ⟨cl, pfx, hcl, h⟩ | ⟨cl, pfx, H1, n, hcl, hmk, h⟩
  · rw [h]
  · rw [h]
  · rw [h]; have hm := mkConn_datas hmk; exact hm

theorem step_datas (H : Heap) (op : Op) : ∃ y, (step H op).1.datas = H.datas ++ y := by
  have same : ∀ {H' : Heap}, H'.datas = H.datas → ∃ y, H'.datas = H.datas ++ y := fun h => ⟨[], by simp [h]⟩
  cases op with
  | newList as => exact same rfl
  | listAppend l a => simp only [step]; split <;> (try split) <;> exact same rfl
  | newDict d => exact same rfl
  | newData v => exact ⟨[v], rfl⟩
  | newParams d => simp only [step]; split <;> exact same rfl
  | newClass bases mro pmap own dlg => simp only [step]; split <;> exact same rfl
  | mk t own plain =>
    simp only [step]
    split
    · rename_i H' n h; have hm := mkConn_datas h; exact same hm
    · exact same rfl
  | add c a => simp only [step]; split <;> (try split) <;> exact same rfl
  | newCaller t cls =>
    rcases step_newCaller_cases H t cls with ⟨e, h⟩ | ⟨cl, _, _, h⟩ | ⟨H', n, t', cl, hmk, _, _, h⟩
    · rw [h]; exact same rfl
    · rw [h]; exact same rfl
    · rw [h]; have hm := mkConn_datas hmk; exact same hm
  | clone k own =>
    simp only [step]
    split
    · exact same rfl
    · split
      · rename_i H' n h; have hm := mkConn_datas h; exact same hm
      · exact same rfl
  | connOf k => simp only [step]; split <;> exact same rfl
  | cached k pfx => simp only [step]; split <;> (try split) <;> exact same rfl
  | call k m args =>
    rcases step_call_cases H k m args with ⟨e, h⟩ | ⟨comps, a', h⟩
    · rw [h]; exact same rfl
    · rw [h]
      rcases doCall_heap H k comps a' with h2 | ⟨c', h2⟩
      · rw [h2]; exact same (getConn_datas H k comps)
      · rw [h2]; exact same ((request_effect _ c' a').datas.trans (getConn_datas H k comps))
  | request c' args =>
    simp only [step]
    have h2 := (request_effect H c' args).datas
    split
    · rename_i H' s heq
      have : H' = (request H c' args).1 := by rw [heq]
      subst this; exact same h2
    · rename_i H' e heq
      have : H' = (request H c' args).1 := by rw [heq]
      subst this; exact same h2

theorem run_datas (H : Heap) (ops : List Op) : ∃ y, (run H ops).datas = H.datas ++ y := by
  induction ops generalizing H with
  | nil => exact ⟨[], by simp [run]⟩
  | cons op ops ih =>
    obtain ⟨y1, h1⟩ := step_datas H op
    obtain ⟨y2, h2⟩ := ih (step H op).1
    exact ⟨y1 ++ y2, by simp only [run]; rw [h2, h1, List.append_assoc]⟩

theorem optData_ext {H H' : Heap} (y : List J) (h : H'.datas = H.datas ++ y) (d : DataArg)
    (hr : ∀ r, d = .obj r → r < H.datas.length) : optData H' d = optData H d := by
  cases d with
  | obj r => simp only [optData]; rw [h, List.getElem?_append_left (hr r rfl)]
  | _ => rfl

end HttpConn
