import AkVerif.Lemmas.CHTextFormat
import AkVerif.Lemmas.SgrText
/-!
Composition of the text layer (C08, `Model/CHText.lean`) with the escape-sequence layer (C09,
`Model/Sgr.lean`): `str(text)` and `format(text, spec)` as strings.

A colour id of the C08 model stands for a formatter; `Palette` gives its prefix, suffix and the
attributes a terminal shows after the prefix. Whatever C09 proves about the sequences of one
formatter (`Sgr.PreShows`, `Sgr.SufResets`, `Sgr.Strippable`) lifts to every text produced by
every operation of C08, because `str` only writes `prefix text suffix` per chunk.
-/
namespace CHText
open Ak

structure Palette where
  pre : Colour → List Char
  suf : Colour → List Char
  attr : Colour → Sgr.Attr

/-- every formatter's prefix switches a terminal in default state to its attributes, its suffix
switches back (C09: `mkSeq_shows`) -/
def Palette.Shows (P : Palette) : Prop :=
  ∀ col, Sgr.PreShows (P.pre col) (P.attr col) ∧ Sgr.SufResets (P.suf col) (P.attr col)

/-- `strip_colors` removes every prefix and suffix (C09: `mkSeq_strippable`) -/
def Palette.Strippable (P : Palette) (k : Sgr.CharClass) (fin : Char) : Prop :=
  ∀ col, Sgr.Strippable k fin (P.pre col) ∧ Sgr.Strippable k fin (P.suf col)

def toSgr (P : Palette) (c : Chunk) : Sgr.Chunk := ⟨P.pre c.col, c.text, P.suf c.col⟩

/-- `str(text)`: `"".join(prefix + text + suffix for each chunk)` -/
def strOf (P : Palette) (t : Text) : List Char := Sgr.render (t.chunks.map (toSgr P))

/-- no character of the text is ESC -/
def NoEscText (t : Text) : Prop := ∀ x ∈ t.cells, x.1 ≠ Sgr.ESC

theorem noEsc_chunk (c : Chunk) (cs : List Chunk) (h : ∀ x ∈ cellsOf (c :: cs), x.1 ≠ Sgr.ESC) :
    Sgr.NoEsc c.text ∧ ∀ x ∈ cellsOf cs, x.1 ≠ Sgr.ESC := by
  constructor
  · intro ch hch
    exact h (ch, c.col) (by simp [Chunk.cells]; exact Or.inl hch)
  · intro x hx
    exact h x (by simp; exact Or.inr hx)

theorem mem_cells_of_mem (cs : List Chunk) (d : Chunk) (hd : d ∈ cs) (ch : Char) (hch : ch ∈ d.text) :
    (ch, d.col) ∈ cellsOf cs := by
  induction cs with
  | nil => cases hd
  | cons e es ih =>
    simp only [List.mem_cons] at hd
    rw [cellsOf_cons, List.mem_append]
    rcases hd with hd | hd
    · subst hd; left; simp [Chunk.cells]; exact hch
    · right; exact ih hd

theorem plain_toSgr (P : Palette) (cs : List Chunk) :
    Sgr.plain (cs.map (toSgr P)) = (cellsOf cs).map (·.1) := by
  induction cs with
  | nil => rfl
  | cons c cs ih => simp [Sgr.plain, toSgr, ih, Chunk.cells, Function.comp_def]

/-- `strip_colors(str(text) + rest) == plain_text + strip_colors(rest)` -/
theorem strip_strOf (P : Palette) (k : Sgr.CharClass) (fin : Char) (hP : P.Strippable k fin)
    (t : Text) (ht : NoEscText t) (rest : List Char) :
    Sgr.strip k fin (strOf P t ++ rest) = t.cells.map (·.1) ++ Sgr.strip k fin rest := by
  unfold strOf
  rw [Sgr.strip_render k fin _ ?_ rest, plain_toSgr]; rfl
  intro c hc
  obtain ⟨d, hd, rfl⟩ := List.mem_map.mp hc
  refine ⟨hP d.col, ?_⟩
  intro ch hch
  exact ht (ch, d.col) (mem_cells_of_mem _ d hd ch hch)

theorem sgrCells_toSgr (P : Palette) (cs : List Chunk) :
    Sgr.cellsOf (cs.map fun c => (toSgr P c, P.attr c.col)) = (cellsOf cs).map (fun x => (x.1, P.attr x.2)) := by
  induction cs with
  | nil => rfl
  | cons c cs ih =>
    simp only [List.map_cons, Sgr.cellsOf, cellsOf_cons, List.map_append, ih]
    simp [toSgr, Chunk.cells, Function.comp_def]

/-- a terminal in default state that receives `str(text) ++ rest` shows every character of the
text with the attributes of the formatter that made it and is in default state again when it
reaches `rest` -/
theorem run_strOf (P : Palette) (hP : P.Shows) (t : Text) (ht : NoEscText t) (rest : List Char) :
    Sgr.run .ground Sgr.Attr.default (strOf P t ++ rest) =
      Sgr.prepend (t.cells.map fun x => (x.1, P.attr x.2)) (Sgr.run .ground Sgr.Attr.default rest) := by
  unfold strOf
  have hmap : t.chunks.map (toSgr P) = (t.chunks.map fun c => (toSgr P c, P.attr c.col)).map Prod.fst := by
    simp [Function.comp_def]
  rw [hmap, Sgr.render_shows _ ?_ rest, sgrCells_toSgr]; rfl
  intro g hg
  obtain ⟨d, hd, rfl⟩ := List.mem_map.mp hg
  refine ⟨(hP d.col).1, (hP d.col).2, ?_⟩
  intro ch hch
  exact ht (ch, d.col) (mem_cells_of_mem _ d hd ch hch)

/-- the string `__format__` returns: left pad, `str(self)`, right pad -/
def formatStr (P : Palette) (t : Text) (spec : List Char) : Except Fail (List Char) :=
  match formatPads t.scrlen spec with
  | .error e => .error e
  | .ok (l, r) => .ok (l ++ strOf P t ++ r)

end CHText
