import AkVerif.Lemmas.Xls
/-!
Helper lemmas for C18, third part: Python's string order (`ltCps`), `sorted` (`sortCps`) and the
text `get_attr_origin` composes for a whole ranged attribute (`rangeDescr`).
-/
namespace Xls
open Ak

theorem ltCps_irrefl : ∀ (a : List Char), ltCps a a = false := by
  intro a
  induction a with
  | nil => rfl
  | cons c cs ih => simp [ltCps, ih]

theorem ltCps_asymm : ∀ (a b : List Char), ltCps a b = true → ltCps b a = false := by
  intro a
  induction a with
  | nil => intro b h; cases b <;> simp [ltCps] at h ⊢
  | cons c cs ih =>
    intro b h
    cases b with
    | nil => simp [ltCps] at h
    | cons d ds =>
      simp only [ltCps] at h ⊢
      by_cases h1 : c.toNat < d.toNat
      · have h2 : ¬ d.toNat < c.toNat := by omega
        simp [h1, h2]
      · by_cases h2 : d.toNat < c.toNat
        · simp [h1, h2] at h
        · simp only [h1, h2, if_false] at h ⊢
          exact ih ds h

theorem ltCps_trans : ∀ (a b c : List Char), ltCps a b = true → ltCps b c = true → ltCps a c = true := by
  intro a
  induction a with
  | nil =>
    intro b c h1 h2
    cases b with
    | nil => simp [ltCps] at h1
    | cons d ds => cases c <;> simp [ltCps] at h2 ⊢
  | cons x xs ih =>
    intro b c h1 h2
    cases b with
    | nil => simp [ltCps] at h1
    | cons y ys =>
      cases c with
      | nil => simp [ltCps] at h2
      | cons z zs =>
        simp only [ltCps] at h1 h2 ⊢
        by_cases hxy : x.toNat < y.toNat
        · by_cases hyz : y.toNat < z.toNat
          · have : x.toNat < z.toNat := by omega
            simp [this]
          · by_cases hzy : z.toNat < y.toNat
            · simp [hyz, hzy] at h2
            · have : x.toNat < z.toNat := by omega
              simp [this]
        · by_cases hyx : y.toNat < x.toNat
          · simp [hxy, hyx] at h1
          · simp only [hxy, hyx, if_false] at h1
            by_cases hyz : y.toNat < z.toNat
            · have : x.toNat < z.toNat := by omega
              simp [this]
            · by_cases hzy : z.toNat < y.toNat
              · simp [hyz, hzy] at h2
              · simp only [hyz, hzy, if_false] at h2
                have e1 : ¬ x.toNat < z.toNat := by omega
                have e2 : ¬ z.toNat < x.toNat := by omega
                simp only [e1, e2, if_false]
                exact ih ys zs h1 h2

theorem ltCps_total : ∀ (a b : List Char), ltCps a b = false → ltCps b a = false → a = b := by
  intro a
  induction a with
  | nil => intro b h1 h2; cases b with
    | nil => rfl
    | cons d ds => simp [ltCps] at h1
  | cons x xs ih =>
    intro b h1 h2
    cases b with
    | nil => simp [ltCps] at h2
    | cons y ys =>
      simp only [ltCps] at h1 h2
      by_cases hxy : x.toNat < y.toNat
      · simp [hxy] at h1
      · by_cases hyx : y.toNat < x.toNat
        · simp [hyx] at h2
        · simp only [hxy, hyx, if_false] at h1 h2
          have : x = y := Char.toNat_inj.mp (by omega)
          rw [this, ih ys h1 h2]

/-- `a ≤ b ≤ c → a ≤ c` with `x ≤ y` written `ltCps y x = false` -/
theorem leCps_trans (a b c : List Char) (h1 : ltCps b a = false) (h2 : ltCps c b = false) :
    ltCps c a = false := by
  cases h : ltCps c a with
  | false => rfl
  | true =>
    cases hab : ltCps a b with
    | true =>
      have := ltCps_trans c a b h hab
      rw [h2] at this; cases this
    | false =>
      have : a = b := ltCps_total a b hab h1
      subst this
      rw [h2] at h; cases h

/-- sorted: no later element is smaller than an earlier one -/
def SortedCps (l : List (List Char)) : Prop := l.Pairwise (fun a b => ltCps b a = false)

theorem mem_insertSorted (x : List Char) :
    ∀ (l : List (List Char)) (y : List Char), y ∈ insertSorted x l ↔ y = x ∨ y ∈ l := by
  intro l
  induction l with
  | nil => intro y; simp [insertSorted]
  | cons a as ih =>
    intro y
    simp only [insertSorted]
    split
    · simp only [List.mem_cons, ih]
      constructor
      · rintro (h | h | h)
        · exact Or.inr (Or.inl h)
        · exact Or.inl h
        · exact Or.inr (Or.inr h)
      · rintro (h | h | h)
        · exact Or.inr (Or.inl h)
        · exact Or.inl h
        · exact Or.inr (Or.inr h)
    · simp [List.mem_cons]

theorem sorted_insertSorted (x : List Char) :
    ∀ (l : List (List Char)), SortedCps l → SortedCps (insertSorted x l) := by
  intro l
  induction l with
  | nil => intro _; simp [insertSorted, SortedCps]
  | cons a as ih =>
    intro hs
    unfold SortedCps at hs
    rw [List.pairwise_cons] at hs
    obtain ⟨h1, h2⟩ := hs
    simp only [insertSorted]
    split
    · rename_i hax
      unfold SortedCps
      rw [List.pairwise_cons]
      refine ⟨?_, ih h2⟩
      intro z hz
      rcases (mem_insertSorted x as z).mp hz with hz | hz
      · subst hz; exact ltCps_asymm a z hax
      · exact h1 z hz
    · rename_i hax
      have hax' : ltCps a x = false := by
        cases h : ltCps a x with
        | false => rfl
        | true => exact absurd h hax
      unfold SortedCps
      rw [List.pairwise_cons, List.pairwise_cons]
      refine ⟨?_, h1, h2⟩
      intro z hz
      simp only [List.mem_cons] at hz
      rcases hz with hz | hz
      · subst hz; exact hax'
      · exact leCps_trans x a z hax' (h1 z hz)

theorem sortCps_spec : ∀ (l : List (List Char)),
    SortedCps (sortCps l) ∧ (∀ y, y ∈ sortCps l ↔ y ∈ l) ∧ (sortCps l).length = l.length := by
  intro l
  induction l with
  | nil => simp [sortCps, SortedCps]
  | cons a as ih =>
    obtain ⟨h1, h2, h3⟩ := ih
    have e : sortCps (a :: as) = insertSorted a (sortCps as) := rfl
    rw [e]
    refine ⟨sorted_insertSorted a _ h1, ?_, ?_⟩
    · intro y
      rw [mem_insertSorted, h2]
      simp
    · have : ∀ (l : List (List Char)), (insertSorted a l).length = l.length + 1 := by
        intro l
        induction l with
        | nil => rfl
        | cons b bs ihb =>
          simp only [insertSorted]
          split
          · simp [ihb]
          · simp
      rw [this, h3]
      simp

theorem sorted_getLast (l : List (List Char)) (hs : SortedCps l) (hne : l ≠ []) :
    ∀ y ∈ l, ltCps (l.getLast hne) y = false := by
  induction l with
  | nil => exact absurd rfl hne
  | cons a as ih =>
    unfold SortedCps at hs
    rw [List.pairwise_cons] at hs
    obtain ⟨h1, h2⟩ := hs
    intro y hy
    cases as with
    | nil =>
      simp only [List.mem_cons, List.not_mem_nil, or_false] at hy
      subst hy
      simp [ltCps_irrefl]
    | cons b bs =>
      rw [List.getLast_cons (by simp)]
      simp only [List.mem_cons] at hy
      rcases hy with hy | hy
      · subst hy
        exact h1 _ (List.getLast_mem _)
      · exact ih h2 (by simp) y (by simpa using hy)

/-- The text for a whole ranged attribute: nothing for no columns, the coordinate for one column,
otherwise `lo:hi` where `lo` and `hi` are coordinates of the range, smallest and largest in
Python's *string* order. -/
theorem rangeDescr_spec (coords : List (List Char)) :
    (coords = [] ∧ rangeDescr (sortCps coords) = Gen.C18.skippedOrigin) ∨
    (∃ c, coords = [c] ∧ rangeDescr (sortCps coords) = c) ∨
    (2 ≤ coords.length ∧ ∃ lo hi, rangeDescr (sortCps coords) = lo ++ ':' :: hi ∧
      lo ∈ coords ∧ hi ∈ coords ∧
      ∀ c ∈ coords, ltCps c lo = false ∧ ltCps hi c = false) := by
  obtain ⟨hs, hm, hl⟩ := sortCps_spec coords
  cases hsc : sortCps coords with
  | nil =>
    rw [hsc] at hl
    have : coords = [] := by cases coords with
      | nil => rfl
      | cons a as => simp at hl
    exact Or.inl ⟨this, rfl⟩
  | cons c rest =>
    cases rest with
    | nil =>
      rw [hsc] at hl hm
      right; left
      cases coords with
      | nil => simp at hl
      | cons a as =>
        cases as with
        | nil =>
          have : a = c := by
            have := (hm a).mpr (by simp)
            simpa using this
          exact ⟨a, rfl, by simp [rangeDescr, this]⟩
        | cons b bs => simp at hl
    | cons d r =>
      right; right
      rw [hsc] at hl hm hs
      refine ⟨by simp at hl; omega, c, (d :: r).getLast (by simp), by simp [rangeDescr], ?_, ?_, ?_⟩
      · exact (hm c).mp (by simp)
      · exact (hm _).mp (List.mem_cons_of_mem _ (List.getLast_mem _))
      · intro x hx
        have hx' := (hm x).mpr hx
        constructor
        · unfold SortedCps at hs
          rw [List.pairwise_cons] at hs
          simp only [List.mem_cons] at hx'
          rcases hx' with hx' | hx'
          · rw [hx']; exact ltCps_irrefl c
          · exact hs.1 x (by simpa using hx')
        · have := sorted_getLast (c :: d :: r) hs (by simp) x hx'
          rw [List.getLast_cons (by simp)] at this
          exact this

end Xls
