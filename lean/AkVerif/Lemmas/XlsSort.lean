import AkVerif.Lemmas.Xls
/-!
Helper lemmas for C18, third part: Python's string order (`ltCps`), the order of coordinates by
`_coord_sort_key` (`ltCoord`), stable sorting (`sortBy`) and the text `get_attr_origin` composes
for a whole ranged attribute (`rangeDescr`).
-/
namespace Xls
open Ak

theorem ltCps_irrefl : ∀ (a : List Char), ltCps a a = false := by
  intro a
  induction a with
  | nil => rfl
  | cons c cs ih => simp [ltCps, ih]

theorem ltCps_asymm : ∀ (a b : List Char), ltCps a b = true → ltCps b a = false := by
  intro a
  induction a with
  | nil => intro b h; cases b <;> simp [ltCps] at h ⊢
  | cons c cs ih =>
    intro b h
    cases b with
    | nil => simp [ltCps] at h
    | cons d ds =>
      simp only [ltCps] at h ⊢
      by_cases h1 : c.toNat < d.toNat
      · have h2 : ¬ d.toNat < c.toNat := by omega
        simp [h1, h2]
      · by_cases h2 : d.toNat < c.toNat
        · simp [h1, h2] at h
        · simp only [h1, h2, if_false] at h ⊢
          exact ih ds h

theorem ltCps_trans : ∀ (a b c : List Char), ltCps a b = true → ltCps b c = true → ltCps a c = true := by
  intro a
  induction a with
  | nil =>
    intro b c h1 h2
    cases b with
    | nil => simp [ltCps] at h1
    | cons d ds => cases c <;> simp [ltCps] at h2 ⊢
  | cons x xs ih =>
    intro b c h1 h2
    cases b with
    | nil => simp [ltCps] at h1
    | cons y ys =>
      cases c with
      | nil => simp [ltCps] at h2
      | cons z zs =>
        simp only [ltCps] at h1 h2 ⊢
        by_cases hxy : x.toNat < y.toNat
        · by_cases hyz : y.toNat < z.toNat
          · have : x.toNat < z.toNat := by omega
            simp [this]
          · by_cases hzy : z.toNat < y.toNat
            · simp [hyz, hzy] at h2
            · have : x.toNat < z.toNat := by omega
              simp [this]
        · by_cases hyx : y.toNat < x.toNat
          · simp [hxy, hyx] at h1
          · simp only [hxy, hyx, if_false] at h1
            by_cases hyz : y.toNat < z.toNat
            · have : x.toNat < z.toNat := by omega
              simp [this]
            · by_cases hzy : z.toNat < y.toNat
              · simp [hyz, hzy] at h2
              · simp only [hyz, hzy, if_false] at h2
                have e1 : ¬ x.toNat < z.toNat := by omega
                have e2 : ¬ z.toNat < x.toNat := by omega
                simp only [e1, e2, if_false]
                exact ih ys zs h1 h2

theorem ltCps_total : ∀ (a b : List Char), ltCps a b = false → ltCps b a = false → a = b := by
  intro a
  induction a with
  | nil => intro b h1 h2; cases b with
    | nil => rfl
    | cons d ds => simp [ltCps] at h1
  | cons x xs ih =>
    intro b h1 h2
    cases b with
    | nil => simp [ltCps] at h2
    | cons y ys =>
      simp only [ltCps] at h1 h2
      by_cases hxy : x.toNat < y.toNat
      · simp [hxy] at h1
      · by_cases hyx : y.toNat < x.toNat
        · simp [hyx] at h2
        · simp only [hxy, hyx, if_false] at h1 h2
          have : x = y := Char.toNat_inj.mp (by omega)
          rw [this, ih ys h1 h2]

/-- `a ≤ b ≤ c → a ≤ c` with `x ≤ y` written `ltCps y x = false` -/
theorem leCps_trans (a b c : List Char) (h1 : ltCps b a = false) (h2 : ltCps c b = false) :
    ltCps c a = false := by
  cases h : ltCps c a with
  | false => rfl
  | true =>
    cases hab : ltCps a b with
    | true =>
      have := ltCps_trans c a b h hab
      rw [h2] at this; cases this
    | false =>
      have : a = b := ltCps_total a b hab h1
      subst this
      rw [h2] at h; cases h

/-! ## order of the sort keys `(len(column), column, row)` -/

theorem ltKey_irrefl (a : Nat × List Char × Nat) : ltKey a a = false := by
  simp [ltKey, ltCps_irrefl]

theorem ltKey_trans (a b c : Nat × List Char × Nat) (h1 : ltKey a b = true) (h2 : ltKey b c = true) :
    ltKey a c = true := by
  obtain ⟨a1, a2, a3⟩ := a
  obtain ⟨b1, b2, b3⟩ := b
  obtain ⟨c1, c2, c3⟩ := c
  simp only [ltKey] at h1 h2 ⊢
  by_cases hab : a1 < b1
  · by_cases hbc : b1 < c1
    · have : a1 < c1 := by omega
      simp [this]
    · by_cases hcb : c1 < b1
      · simp [hbc, hcb] at h2
      · have : a1 < c1 := by omega
        simp [this]
  · by_cases hba : b1 < a1
    · simp [hab, hba] at h1
    · simp only [hab, hba, if_false] at h1
      by_cases hbc : b1 < c1
      · have : a1 < c1 := by omega
        simp [this]
      · by_cases hcb : c1 < b1
        · simp [hbc, hcb] at h2
        · simp only [hbc, hcb, if_false] at h2
          have e1 : ¬ a1 < c1 := by omega
          have e2 : ¬ c1 < a1 := by omega
          simp only [e1, e2, if_false]
          cases hl1 : ltCps a2 b2 with
          | true =>
            cases hl2 : ltCps b2 c2 with
            | true => simp [ltCps_trans a2 b2 c2 hl1 hl2]
            | false =>
              rw [hl2] at h2
              cases hl3 : ltCps c2 b2 with
              | true => simp [hl3] at h2
              | false =>
                have : b2 = c2 := ltCps_total b2 c2 hl2 hl3
                subst this
                simp [hl1]
          | false =>
            rw [hl1] at h1
            cases hl1' : ltCps b2 a2 with
            | true => simp [hl1'] at h1
            | false =>
              have : a2 = b2 := ltCps_total a2 b2 hl1 hl1'
              subst this
              simp only [hl1', Bool.false_eq_true, if_false, decide_eq_true_eq] at h1
              cases hl2 : ltCps a2 c2 with
              | true => simp
              | false =>
                rw [hl2] at h2
                cases hl3 : ltCps c2 a2 with
                | true => simp [hl3] at h2
                | false =>
                  simp only [hl3, Bool.false_eq_true, if_false, decide_eq_true_eq] at h2
                  simp only [Bool.false_eq_true, if_false, decide_eq_true_eq]
                  omega

theorem ltKey_total (a b : Nat × List Char × Nat) (h1 : ltKey a b = false) (h2 : ltKey b a = false) :
    a = b := by
  obtain ⟨a1, a2, a3⟩ := a
  obtain ⟨b1, b2, b3⟩ := b
  simp only [ltKey] at h1 h2
  by_cases hab : a1 < b1
  · simp [hab] at h1
  · by_cases hba : b1 < a1
    · simp [hba] at h2
    · simp only [hab, hba, if_false] at h1 h2
      cases hl1 : ltCps a2 b2 with
      | true => simp [hl1] at h1
      | false =>
        cases hl2 : ltCps b2 a2 with
        | true => simp [hl2] at h2
        | false =>
          simp only [hl1, hl2, Bool.false_eq_true, if_false, decide_eq_false_iff_not] at h1 h2
          have e1 : a1 = b1 := by omega
          have e2 : a2 = b2 := ltCps_total a2 b2 hl1 hl2
          have e3 : a3 = b3 := by omega
          rw [e1, e2, e3]

theorem ltKey_asymm (a b : Nat × List Char × Nat) (h : ltKey a b = true) : ltKey b a = false := by
  cases hba : ltKey b a with
  | false => rfl
  | true =>
    have := ltKey_trans a b a h hba
    rw [ltKey_irrefl] at this; cases this

theorem leKey_trans (a b c : Nat × List Char × Nat) (h1 : ltKey b a = false) (h2 : ltKey c b = false) :
    ltKey c a = false := by
  cases h : ltKey c a with
  | false => rfl
  | true =>
    cases hab : ltKey a b with
    | true =>
      have := ltKey_trans c a b h hab
      rw [h2] at this; cases this
    | false =>
      have : a = b := ltKey_total a b hab h1
      subst this
      rw [h2] at h; cases h

/-! ## stable insertion sort -/

/-- what the sort needs from the order: `x < y → ¬ y < x` and `x ≤ y ≤ z → x ≤ z`
(`x ≤ y` written `lt y x = false`) -/
structure WeakOrder {α : Type} (lt : α → α → Bool) : Prop where
  asymm : ∀ a b, lt a b = true → lt b a = false
  le_trans : ∀ a b c, lt b a = false → lt c b = false → lt c a = false

theorem WeakOrder.irrefl {α : Type} {lt : α → α → Bool} (w : WeakOrder lt) (a : α) : lt a a = false := by
  cases h : lt a a with
  | false => rfl
  | true => have := w.asymm a a h; rw [h] at this; cases this

theorem weakOrder_ltCps : WeakOrder ltCps := ⟨ltCps_asymm, leCps_trans⟩

theorem weakOrder_ltCoord : WeakOrder ltCoord :=
  ⟨fun _ _ h => ltKey_asymm _ _ h, fun _ _ _ h1 h2 => leKey_trans _ _ _ h1 h2⟩

/-- sorted: no later element is smaller than an earlier one -/
def SortedBy {α : Type} (lt : α → α → Bool) (l : List α) : Prop := l.Pairwise (fun a b => lt b a = false)

theorem mem_insertBy {α : Type} (lt : α → α → Bool) (x : α) :
    ∀ (l : List α) (y : α), y ∈ insertBy lt x l ↔ y = x ∨ y ∈ l := by
  intro l
  induction l with
  | nil => intro y; simp [insertBy]
  | cons a as ih =>
    intro y
    simp only [insertBy]
    split
    · simp only [List.mem_cons, ih]
      constructor
      · rintro (h | h | h)
        · exact Or.inr (Or.inl h)
        · exact Or.inl h
        · exact Or.inr (Or.inr h)
      · rintro (h | h | h)
        · exact Or.inr (Or.inl h)
        · exact Or.inl h
        · exact Or.inr (Or.inr h)
    · simp [List.mem_cons]

theorem sorted_insertBy {α : Type} {lt : α → α → Bool} (w : WeakOrder lt) (x : α) :
    ∀ (l : List α), SortedBy lt l → SortedBy lt (insertBy lt x l) := by
  intro l
  induction l with
  | nil => intro _; simp [insertBy, SortedBy]
  | cons a as ih =>
    intro hs
    unfold SortedBy at hs
    rw [List.pairwise_cons] at hs
    obtain ⟨h1, h2⟩ := hs
    simp only [insertBy]
    split
    · rename_i hax
      unfold SortedBy
      rw [List.pairwise_cons]
      refine ⟨?_, ih h2⟩
      intro z hz
      rcases (mem_insertBy lt x as z).mp hz with hz | hz
      · subst hz; exact w.asymm a z hax
      · exact h1 z hz
    · rename_i hax
      have hax' : lt a x = false := by
        cases h : lt a x with
        | false => rfl
        | true => exact absurd h hax
      unfold SortedBy
      rw [List.pairwise_cons, List.pairwise_cons]
      refine ⟨?_, h1, h2⟩
      intro z hz
      simp only [List.mem_cons] at hz
      rcases hz with hz | hz
      · subst hz; exact hax'
      · exact w.le_trans x a z hax' (h1 z hz)

theorem sortBy_spec {α : Type} {lt : α → α → Bool} (w : WeakOrder lt) : ∀ (l : List α),
    SortedBy lt (sortBy lt l) ∧ (∀ y, y ∈ sortBy lt l ↔ y ∈ l) ∧ (sortBy lt l).length = l.length := by
  intro l
  induction l with
  | nil => simp [sortBy, SortedBy]
  | cons a as ih =>
    obtain ⟨h1, h2, h3⟩ := ih
    have e : sortBy lt (a :: as) = insertBy lt a (sortBy lt as) := rfl
    rw [e]
    refine ⟨sorted_insertBy w a _ h1, ?_, ?_⟩
    · intro y
      rw [mem_insertBy, h2]
      simp
    · have : ∀ (l : List α), (insertBy lt a l).length = l.length + 1 := by
        intro l
        induction l with
        | nil => rfl
        | cons b bs ihb =>
          simp only [insertBy]
          split
          · simp [ihb]
          · simp
      rw [this, h3]
      simp

theorem sorted_getLast {α : Type} {lt : α → α → Bool} (w : WeakOrder lt) (l : List α)
    (hs : SortedBy lt l) (hne : l ≠ []) : ∀ y ∈ l, lt (l.getLast hne) y = false := by
  induction l with
  | nil => exact absurd rfl hne
  | cons a as ih =>
    unfold SortedBy at hs
    rw [List.pairwise_cons] at hs
    obtain ⟨h1, h2⟩ := hs
    intro y hy
    cases as with
    | nil =>
      simp only [List.mem_cons, List.not_mem_nil, or_false] at hy
      subst hy
      simp [w.irrefl]
    | cons b bs =>
      rw [List.getLast_cons (by simp)]
      simp only [List.mem_cons] at hy
      rcases hy with hy | hy
      · subst hy
        exact h1 _ (List.getLast_mem _)
      · exact ih h2 (by simp) y (by simpa using hy)

/-- The text for a whole ranged attribute: nothing for no columns, the coordinate for one column,
otherwise `lo:hi` where `lo` and `hi` are coordinates of the range, least and greatest in the order
of `_coord_sort_key` (shorter column name first, then column name, then row number). -/
theorem rangeDescr_spec (coords : List (List Char)) :
    (coords = [] ∧ rangeDescr (sortCoords coords) = Gen.C18.skippedOrigin) ∨
    (∃ c, coords = [c] ∧ rangeDescr (sortCoords coords) = c) ∨
    (2 ≤ coords.length ∧ ∃ lo hi, rangeDescr (sortCoords coords) = lo ++ ':' :: hi ∧
      lo ∈ coords ∧ hi ∈ coords ∧
      ∀ c ∈ coords, ltCoord c lo = false ∧ ltCoord hi c = false) := by
  obtain ⟨hs, hm, hl⟩ := sortBy_spec weakOrder_ltCoord coords
  unfold sortCoords
  cases hsc : sortBy ltCoord coords with
  | nil =>
    rw [hsc] at hl
    have : coords = [] := by cases coords with
      | nil => rfl
      | cons a as => simp at hl
    exact Or.inl ⟨this, rfl⟩
  | cons c rest =>
    cases rest with
    | nil =>
      rw [hsc] at hl hm
      right; left
      cases coords with
      | nil => simp at hl
      | cons a as =>
        cases as with
        | nil =>
          have : a = c := by
            have := (hm a).mpr (by simp)
            simpa using this
          exact ⟨a, rfl, by simp [rangeDescr, this]⟩
        | cons b bs => simp at hl
    | cons d r =>
      right; right
      rw [hsc] at hl hm hs
      refine ⟨by simp at hl; omega, c, (d :: r).getLast (by simp), by simp [rangeDescr], ?_, ?_, ?_⟩
      · exact (hm c).mp (by simp)
      · exact (hm _).mp (List.mem_cons_of_mem _ (List.getLast_mem _))
      · intro x hx
        have hx' := (hm x).mpr hx
        constructor
        · unfold SortedBy at hs
          rw [List.pairwise_cons] at hs
          simp only [List.mem_cons] at hx'
          rcases hx' with hx' | hx'
          · rw [hx']; exact weakOrder_ltCoord.irrefl c
          · exact hs.1 x (by simpa using hx')
        · have := sorted_getLast weakOrder_ltCoord (c :: d :: r) hs (by simp) x hx'
          rw [List.getLast_cons (by simp)] at this
          exact this

end Xls
