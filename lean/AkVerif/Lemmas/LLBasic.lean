import AkVerif.Model.LLParse
/-!
Basic vocabulary of the proofs about the parse loop (C01–C03): yields, the user's grammar `U` and the
factorised grammar `P` as functions `σ → List (List σ)`, flattening of suffix symbols (`Flat`),
the hypothesis records `FactOK` (what factorisation guarantees) and `TableWF` (table entries are
non-empty lists of productions of the symbol), validity of (possibly suffix-rooted) trees.
-/
set_option linter.unusedSectionVars false
namespace LL

variable {σ : Type} [DecidableEq σ]

def yieldL (ts : List (Tree σ)) : List (Tok σ) := (ts.map Tree.yield).flatten

theorem yieldList_eq (cs : List (Tree σ)) : Tree.yieldList cs = yieldL cs := by
  induction cs with
  | nil => simp [Tree.yieldList, yieldL]
  | cons t ts ih => simp [Tree.yieldList, yieldL, ih]

@[simp] theorem yield_node (n : σ) (cs : List (Tree σ)) : (Tree.node n cs).yield = yieldL cs := by
  simp [Tree.yield, yieldList_eq]

@[simp] theorem yieldL_nil : yieldL ([] : List (Tree σ)) = [] := rfl
@[simp] theorem yieldL_append (a b : List (Tree σ)) : yieldL (a ++ b) = yieldL a ++ yieldL b := by
  simp [yieldL]
@[simp] theorem yieldL_single (t : Tree σ) : yieldL [t] = t.yield := by simp [yieldL]

/-! ### Soundness -/

/-- grammars: `U` the user's, `P` the factorised one actually used by the table -/
structure Gram (σ : Type) where
  prods : σ → List (List σ)
  /-- symbols that may name a non-root node (keeps the technical `$START$` symbol out of trees) -/
  ok : σ → Prop := fun _ => True

/-- flattened expansions of a suffix symbol -/
inductive Flat (G : Cfg σ) (P : Gram σ) : σ → List σ → Prop where
  | base {s p} : p ∈ P.prods s → (∀ l, p.getLast? = some l → G.isSuffix l = false) → Flat G P s p
  | step {s pre s' e} : pre ++ [s'] ∈ P.prods s → G.isSuffix s' = true → Flat G P s' e →
      Flat G P s (pre ++ e)

structure FactOK (G : Cfg σ) (U P : Gram σ) : Prop where
  /-- suffix symbols occur only in last position -/
  inner : ∀ s p, p ∈ P.prods s → ∀ x ∈ p.dropLast, G.isSuffix x = false
  plain : ∀ s p, G.isSuffix s = false → p ∈ P.prods s →
      (∀ l, p.getLast? = some l → G.isSuffix l = false) → p ∈ U.prods s
  grp : ∀ s pre s' e, G.isSuffix s = false → pre ++ [s'] ∈ P.prods s → G.isSuffix s' = true →
      Flat G P s' e → pre ++ e ∈ U.prods s
  suffNT : ∀ s, G.isSuffix s = true → G.isTerm s = false
  symOk : ∀ s p, p ∈ P.prods s → ∀ x ∈ p, U.ok x

structure TableWF (G : Cfg σ) (P : Gram σ) : Prop where
  sub : ∀ X t alts, G.table X t = some alts → alts ≠ [] ∧ ∀ p ∈ alts, p ∈ P.prods X

/-- validity of a (possibly suffix-rooted) tree -/
def Valid (G : Cfg σ) (U P : Gram σ) : Tree σ → Prop
  | .leaf n _ => G.isTerm n = true
  | .node n cs =>
      (∀ c ∈ cs, Valid G U P c ∧ G.isSuffix c.name = false ∧ U.ok c.name) ∧
      (if G.isSuffix n then Flat G P n (cs.map Tree.name) else cs.map Tree.name ∈ U.prods n)
termination_by t => sizeOf t
decreasing_by
  simp_wf
  have := List.sizeOf_lt_of_mem ‹c ∈ cs›
  omega

end LL
