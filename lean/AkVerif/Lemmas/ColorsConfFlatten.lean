import AkVerif.Lemmas.ColorsConfHist
/-!
# `_flatten_dict`: nested and flat spelling of one set of descriptions

* `flatCfg l`: the flat spelling (`{"A.B": …}`) of a list of items;
* `flatten_flatCfg`: flattening the flat spelling of an already flattened dictionary gives it back;
* `flattenItems_mem`: where an item of the flattened dictionary comes from (a string item, or an item of a group
  with the group's key and a dot in front);
* `flatten_group_key_none`: a key that is used for groups only (no dot in it) is not an id of the flattened dictionary.
-/
namespace ColorsConf
open Ak

/-- the entries of a dictionary, in order -/
def cfgEntries : CfgItems → List (Id × Cfg)
  | .nil => []
  | .cons k v rest => (k, v) :: cfgEntries rest

/-- the flat spelling of a list of items: `{id: description, …}` -/
def flatItems : List (Id × Str) → CfgItems
  | [] => .nil
  | (k, s) :: r => .cons k (.str s) (flatItems r)

def flatCfg (l : List (Id × Str)) : Cfg := .dict (flatItems l)

/-- `d[k] = v` for every item of `l`, in order -/
def setAll (acc l : List (Id × Str)) : List (Id × Str) := l.foldl (fun a kv => dictSet a kv.1 kv.2) acc

theorem flattenItems_flat (l acc : List (Id × Str)) : flattenItems (flatItems l) acc = setAll acc l := by
  induction l generalizing acc with
  | nil => simp [flatItems, flattenItems, setAll]
  | cons kv l ih =>
    obtain ⟨k, s⟩ := kv
    simp only [flatItems, flattenItems, setAll, List.foldl_cons]
    exact ih _

theorem dictSet_keys_of_mem {β : Type} {l : List (Str × β)} {k : Str} (v : β) (h : k ∈ l.map (·.1)) :
    (dictSet l k v).map (·.1) = l.map (·.1) := by
  induction l with
  | nil => simp at h
  | cons kv l ih =>
    obtain ⟨k', v'⟩ := kv
    simp only [dictSet]
    by_cases hk : k' = k
    · simp [hk]
    · simp only [hk, if_false, List.map_cons]
      congr 1
      apply ih
      simp only [List.map_cons, List.mem_cons] at h
      rcases h with h | h
      · exact absurd h.symm hk
      · exact h

theorem dictSet_of_not_mem {β : Type} {l : List (Str × β)} {k : Str} (v : β) (h : k ∉ l.map (·.1)) :
    dictSet l k v = l ++ [(k, v)] := by
  induction l with
  | nil => rfl
  | cons kv l ih =>
    obtain ⟨k', v'⟩ := kv
    simp only [List.map_cons, List.mem_cons, not_or] at h
    have hk : ¬ k' = k := fun e => h.1 e.symm
    simp [dictSet, hk, ih h.2]

theorem dictSet_keys_nodup {β : Type} {l : List (Str × β)} (k : Str) (v : β) (h : (l.map (·.1)).Nodup) :
    ((dictSet l k v).map (·.1)).Nodup := by
  by_cases hk : k ∈ l.map (·.1)
  · rw [dictSet_keys_of_mem v hk]; exact h
  · rw [dictSet_of_not_mem v hk]
    simp only [List.map_append, List.map_cons, List.map_nil]
    exact List.nodup_append.mpr ⟨h, by simp, by
      intro a ha b hb
      simp only [List.mem_singleton] at hb
      subst hb
      exact fun e => hk (e ▸ ha)⟩

theorem foldl_dictSet_keys_nodup {α : Type} (f : α → Str) (g : α → Str) (l : List α) (acc : List (Id × Str))
    (h : (acc.map (·.1)).Nodup) : ((l.foldl (fun a x => dictSet a (f x) (g x)) acc).map (·.1)).Nodup := by
  induction l generalizing acc with
  | nil => exact h
  | cons x l ih => exact ih _ (dictSet_keys_nodup _ _ h)

/-- the ids of a flattened dictionary are distinct -/
theorem flattenItems_keys_nodup (items : CfgItems) (acc : List (Id × Str)) (h : (acc.map (·.1)).Nodup) :
    ((flattenItems items acc).map (·.1)).Nodup := by
  fun_induction flattenItems items acc with
  | case1 acc => exact h
  | case2 k rest acc s ih => exact ih (dictSet_keys_nodup _ _ h)
  | case3 k rest acc sub _ ih => exact ih (foldl_dictSet_keys_nodup _ _ _ _ h)
  | case4 k rest acc ih => exact ih h

theorem flatten_keys_nodup (cfg : Cfg) : ((flatten cfg).map (·.1)).Nodup := by
  cases cfg with
  | dict items => exact flattenItems_keys_nodup items [] (by simp)
  | str s => simp [flatten]
  | other => simp [flatten]

/-- setting distinct new keys one after the other appends them -/
theorem setAll_fresh (acc l : List (Id × Str)) (h : ((acc ++ l).map (·.1)).Nodup) : setAll acc l = acc ++ l := by
  induction l generalizing acc with
  | nil => simp [setAll]
  | cons kv l ih =>
    obtain ⟨k, s⟩ := kv
    have hk : k ∉ acc.map (·.1) := by
      intro hm
      simp only [List.map_append, List.map_cons] at h
      exact (List.nodup_append.mp h).2.2 k hm k (by simp) rfl
    simp only [setAll, List.foldl_cons]
    rw [dictSet_of_not_mem s hk]
    have := ih (acc ++ [(k, s)]) (by simpa [List.append_assoc] using h)
    simpa [setAll, List.append_assoc] using this

/-- **Flat spelling.** The flat spelling of the flattened form of any (nested) dictionary flattens to the same items,
in the same order. -/
theorem flatten_flatCfg (cfg : Cfg) : flatten (flatCfg (flatten cfg)) = flatten cfg := by
  show flattenItems (flatItems (flatten cfg)) [] = flatten cfg
  rw [flattenItems_flat]
  have := setAll_fresh [] (flatten cfg) (by simpa using flatten_keys_nodup cfg)
  simpa using this

theorem mem_dictSet {β : Type} {l : List (Str × β)} {k : Str} {v : β} {kv : Str × β} (h : kv ∈ dictSet l k v) :
    kv ∈ l ∨ kv = (k, v) := by
  induction l with
  | nil => simp [dictSet] at h; exact .inr h
  | cons x l ih =>
    obtain ⟨k', v'⟩ := x
    simp only [dictSet] at h
    by_cases hk : k' = k
    · simp only [hk, if_true, List.mem_cons] at h
      rcases h with h | h
      · exact .inr h
      · exact .inl (List.mem_cons_of_mem _ h)
    · simp only [hk, if_false, List.mem_cons] at h
      rcases h with h | h
      · exact .inl (h ▸ List.mem_cons_self)
      · rcases ih h with h | h
        · exact .inl (List.mem_cons_of_mem _ h)
        · exact .inr h

theorem mem_foldl_dictSet {α : Type} (f : α → Str) (g : α → Str) (l : List α) (acc : List (Id × Str)) (kv : Id × Str)
    (h : kv ∈ l.foldl (fun a x => dictSet a (f x) (g x)) acc) : kv ∈ acc ∨ ∃ x ∈ l, kv = (f x, g x) := by
  induction l generalizing acc with
  | nil => exact .inl h
  | cons x l ih =>
    rcases ih _ h with h | ⟨y, hy, e⟩
    · rcases mem_dictSet h with h | h
      · exact .inl h
      · exact .inr ⟨x, List.mem_cons_self, h⟩
    · exact .inr ⟨y, List.mem_cons_of_mem _ hy, e⟩

/-- **Where the items of a flattened dictionary come from**: a string item `k: s` of the dictionary, or an item
`id: s` of a group `k: {…}` of the dictionary, as `k.id: s`. -/
theorem flattenItems_mem (items : CfgItems) (acc : List (Id × Str)) (kv : Id × Str)
    (h : kv ∈ flattenItems items acc) :
    kv ∈ acc ∨ (kv.1, Gen.C14.Cfg.str kv.2) ∈ cfgEntries items ∨
      ∃ k sub kv', (k, Gen.C14.Cfg.dict sub) ∈ cfgEntries items ∧ kv' ∈ flattenItems sub [] ∧
        kv = (k ++ '.' :: kv'.1, kv'.2) := by
  fun_induction flattenItems items acc with
  | case1 acc => exact .inl h
  | case2 k rest acc s ih =>
    rcases ih h with h | h | ⟨k', sub, kv', hm, hs, e⟩
    · rcases mem_dictSet h with h | h
      · exact .inl h
      · exact .inr (.inl (by rw [h]; simp [cfgEntries]))
    · exact .inr (.inl (by simp [cfgEntries, h]))
    · exact .inr (.inr ⟨k', sub, kv', by simp [cfgEntries, hm], hs, e⟩)
  | case3 k rest acc sub _ ih =>
    rcases ih h with h | h | ⟨k', sub', kv', hm, hs, e⟩
    · rcases mem_foldl_dictSet (fun kv : Id × Str => k ++ '.' :: kv.1) (fun kv : Id × Str => kv.2) _ _ _ h with h | ⟨x, hx, e⟩
      · exact .inl h
      · exact .inr (.inr ⟨k, sub, x, by simp [cfgEntries], hx, e⟩)
    · exact .inr (.inl (by simp [cfgEntries, h]))
    · exact .inr (.inr ⟨k', sub', kv', by simp [cfgEntries, hm], hs, e⟩)
  | case4 k rest acc ih =>
    rcases ih h with h | h | ⟨k', sub, kv', hm, hs, e⟩
    · exact .inl h
    · exact .inr (.inl (by simp [cfgEntries, h]))
    · exact .inr (.inr ⟨k', sub, kv', by simp [cfgEntries, hm], hs, e⟩)

theorem mem_of_dictGet {β : Type} {l : List (Str × β)} {k : Str} {v : β} (h : dictGet l k = some v) : (k, v) ∈ l := by
  induction l with
  | nil => simp [dictGet] at h
  | cons kv l ih =>
    obtain ⟨k', v'⟩ := kv
    simp only [dictGet] at h
    by_cases hk : k' = k
    · simp only [hk, if_true, Option.some.injEq] at h
      subst hk; subst h
      exact List.mem_cons_self
    · simp only [hk, if_false] at h
      exact List.mem_cons_of_mem _ (ih h)

/-- a key without a dot that the dictionary uses for groups only (never for a description string) is not an id of
the flattened dictionary: `{"ERROR": {"CODE": …}}` describes `ERROR.CODE`, not `ERROR` -/
theorem flatten_group_key_none (items : CfgItems) (id : Id) (hdot : '.' ∉ id)
    (hgrp : ∀ s, (id, Gen.C14.Cfg.str s) ∉ cfgEntries items) : dictGet (flatten (.dict items)) id = none := by
  cases hg : dictGet (flatten (.dict items)) id with
  | none => rfl
  | some s =>
    exfalso
    have hm := mem_of_dictGet hg
    simp only [flatten] at hm
    rcases flattenItems_mem items [] (id, s) hm with h | h | ⟨k, sub, kv', _, _, e⟩
    · simp at h
    · exact hgrp s h
    · simp only [Prod.mk.injEq] at e
      exact hdot (e.1 ▸ by simp)

end ColorsConf
