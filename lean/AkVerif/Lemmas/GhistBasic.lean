import AkVerif.Model.Ghist
/-!
Basic lemmas about the `Ghist` model: inversion of `finish`, induction principles for the two DFS
(`visit`, `bp`), monadic folds.
-/
namespace Ghist
open Ak

/-! ### folds in `Except` -/

theorem foldlM_ok_nil {ε σ α} (f : σ → α → Except ε σ) (s : σ) : ([] : List α).foldlM f s = .ok s := rfl

theorem foldlM_ok_cons {ε σ α} (f : σ → α → Except ε σ) (s s' : σ) (a : α) (l : List α)
    (h : (a :: l).foldlM f s = .ok s') : ∃ s1, f s a = .ok s1 ∧ l.foldlM f s1 = .ok s' := by
  rw [List.foldlM_cons] at h
  cases hf : f s a with
  | error e => rw [hf] at h; cases h
  | ok s1 => rw [hf] at h; exact ⟨s1, rfl, h⟩

/-- invariant + list-indexed accumulator predicate through a monadic fold -/
theorem foldlM_ind {ε σ α} (f : σ → α → Except ε σ) (I : List α → σ → Prop) (G : α → Prop)
    (step : ∀ ds s a s', I ds s → G a → f s a = .ok s' → I (ds ++ [a]) s') :
    ∀ (l : List α) (ds : List α) (s s' : σ), I ds s → (∀ a ∈ l, G a) → l.foldlM f s = .ok s' → I (ds ++ l) s' := by
  intro l
  induction l with
  | nil => intro ds s s' hI _ h; cases h; simpa using hI
  | cons a l ih =>
    intro ds s s' hI hG h
    obtain ⟨s1, h1, h2⟩ := foldlM_ok_cons f s s' a l h
    have := ih (ds ++ [a]) s1 s' (step ds s a s1 hI (hG a (by simp)) h1) (fun x hx => hG x (by simp [hx])) h2
    simpa using this

/-! ### inversion of `finish` -/

inductive FinishCase {π β} (pl : Plug π β) (head : Nat) (rel : List Nat) (st : St β) (c : Nat) (cm : Commit π)
    (fr : List Nat) : St β → Prop
  | irrelevant : cm.isMatch = false → rel = [] → fr = [] →
      FinishCase pl head rel st c cm fr { st with rp := st.rp.addDone c }
  | build (bpar : List (Nat × List Nat)) (new pb : List Nat) (pbs : List (RB β)) (bumps : β) (bn : BN)
      (na : List Nat) :
      (cm.tags ≠ [] ∨ c = head) → findNew st.rp st.br fr = .ok (bpar, new, pb) →
      buildsOf st.rp pb = some pbs → pl.mkBumps rel cm.pins (pbs.map (·.bumps)) = .ok bumps →
      (cm.isMatch = true ∨ new ≠ [] ∨ pl.nonTrivial bumps = true ∨ 1 < pb.length) →
      (buildNums cm (c == head)).head? = some bn → newAncestors st.br.anc pb [] = .ok na →
      FinishCase pl head rel st c cm fr
        (st.addBuild { commit := c, parents := fr, explicit := cm.isMatch, bns := buildNums cm (c == head), time := cm.time }
          bn bpar new pb bumps na)
  | skip (bpar : List (Nat × List Nat)) (new pb : List Nat) (pbs : List (RB β)) (bumps : β) :
      (cm.tags ≠ [] ∨ c = head) → (rel ≠ [] ∨ fr ≠ []) → findNew st.rp st.br fr = .ok (bpar, new, pb) →
      cm.isMatch = false → new = [] → pb.length ≤ 1 →
      buildsOf st.rp pb = some pbs → pl.mkBumps rel cm.pins (pbs.map (·.bumps)) = .ok bumps →
      pl.nonTrivial bumps = false →
      FinishCase pl head rel st c cm fr (st.skipBuild c fr (buildNums cm (c == head)) bpar pb)
  | plainMatch : cm.tags = [] → c ≠ head → cm.isMatch = true →
      FinishCase pl head rel st c cm fr
        { st with rp := st.rp.addRC { commit := c, parents := fr, explicit := true, bns := [], time := cm.time } }
  | plain : cm.tags = [] → c ≠ head → cm.isMatch = false → (rel ≠ [] ∨ fr ≠ []) →
      FinishCase pl head rel st c cm fr { st with rp := st.rp.addPlain c fr }

theorem finish_cases {π β} {pl : Plug π β} {head : Nat} {rel : List Nat} {st : St β} {c : Nat} {cm : Commit π}
    {fr : List Nat} {st' : St β} (hf : finish pl head rel st c cm fr = .ok st') : FinishCase pl head rel st c cm fr st' := by
  unfold finish at hf
  split at hf
  · rename_i h0
    cases hf
    simp at h0
    exact .irrelevant h0.1.1 h0.1.2 h0.2
  · rename_i h0
    have h0' : cm.isMatch = true ∨ rel ≠ [] ∨ fr ≠ [] := by
      simp at h0
      by_cases h1 : cm.isMatch = true
      · exact Or.inl h1
      · by_cases h2 : rel = []
        · exact Or.inr (Or.inr (h0 (by simpa using h1) h2))
        · exact Or.inr (Or.inl h2)
    split at hf
    · rename_i h1
      have h1' : cm.tags ≠ [] ∨ c = head := by
        simp at h1
        rcases h1 with h1 | h1
        · exact Or.inl h1
        · exact Or.inr h1
      split at hf
      · cases hf
      · rename_i bpar new pb hfn
        simp only at hf
        split at hf
        · cases hf
        · rename_i pbs hpbs
          split at hf
          · cases hf
          · rename_i bumps hb
            split at hf
            · rename_i hr
              split at hf
              · cases hf
              · cases hf
              · rename_i bn na hbn hna
                cases hf
                refine .build bpar new pb pbs bumps bn na h1' hfn hpbs hb ?_ hbn hna
                simp at hr
                rcases hr with ((hr | hr) | hr) | hr
                · exact Or.inl hr
                · exact Or.inr (Or.inl hr)
                · exact Or.inr (Or.inr (Or.inl hr))
                · exact Or.inr (Or.inr (Or.inr hr))
            · rename_i hr
              cases hf
              simp at hr
              have hm : cm.isMatch = false := hr.1.1.1
              refine .skip bpar new pb pbs bumps h1' ?_ hfn hm hr.1.1.2 (by omega) hpbs hb hr.1.2
              rcases h0' with h | h | h
              · rw [hm] at h; cases h
              · exact Or.inl h
              · exact Or.inr h
    · rename_i h1
      simp at h1
      split at hf
      · rename_i hm
        cases hf
        exact .plainMatch h1.1 h1.2 hm
      · rename_i hm
        cases hf
        have hm : cm.isMatch = false := by simpa using hm
        refine .plain h1.1 h1.2 hm ?_
        rcases h0' with h | h | h
        · rw [hm] at h; cases h
        · exact Or.inl h
        · exact Or.inr h


/-! ### classification: only the finished commit changes -/

theorem lookup_cons_ne {ν} (k k' : Nat) (v : ν) (l : List (Nat × ν)) (hne : k ≠ k') :
    List.lookup k ((k', v) :: l) = List.lookup k l := by
  rw [List.lookup_cons]
  have : (k == k') = false := by simpa using hne
  rw [this]

theorem lookup_cons_self {ν} (k : Nat) (v : ν) (l : List (Nat × ν)) :
    List.lookup k ((k, v) :: l) = some v := by
  rw [List.lookup_cons]; simp

theorem classify_addDone_ne {β} (rp : Repo β) (c x : Nat) (hne : x ≠ c) :
    classify (rp.addDone c) x = classify rp x := by
  simp [classify, Repo.addDone, hne]

theorem classify_addVisited_ne {β} (rp : Repo β) (c x : Nat) (fr : List Nat) (hne : x ≠ c) :
    classify (rp.addVisited c fr) x = classify rp x := by
  simp [classify, Repo.addVisited, lookup_cons_ne x c fr rp.visited hne]

theorem classify_addPlain_ne {β} (rp : Repo β) (c x : Nat) (fr : List Nat) (hne : x ≠ c) :
    classify (rp.addPlain c fr) x = classify rp x := by
  unfold Repo.addPlain
  split
  · exact classify_addDone_ne rp c x hne
  · exact classify_addVisited_ne rp c x fr hne

theorem classify_addRC_ne {β} (rp : Repo β) (rc : RC) (x : Nat) (hne : x ≠ rc.commit) :
    classify (rp.addRC rc) x = classify rp x := by
  simp [classify, Repo.addRC, lookup_cons_ne x rc.commit rp.rcs.length rp.selected hne]

theorem classify_builds {β} (rp : Repo β) (bs : List (RB β)) (x : Nat) :
    classify { rp with builds := bs } x = classify rp x := rfl

theorem finish_classify_ne {π β} {pl : Plug π β} {head : Nat} {st : St β} {c : Nat} {cm : Commit π}
    {fr : List Nat} {st' : St β} {rel : List Nat} (hf : finish pl head rel st c cm fr = .ok st') (x : Nat) (hne : x ≠ c) :
    classify st'.rp x = classify st.rp x := by
  cases finish_cases hf with
  | irrelevant => exact classify_addDone_ne _ _ _ hne
  | build bpar new pb pbs bumps bn na =>
    simp only [St.addBuild]
    rw [classify_builds]
    exact classify_addRC_ne _ _ _ hne
  | skip bpar new pb pbs bumps => exact classify_addPlain_ne _ _ _ _ hne
  | plainMatch => exact classify_addRC_ne _ _ _ hne
  | plain => exact classify_addPlain_ne _ _ _ _ hne

/-- commits are listed in topological order -/
def Hist.Topo {π} (h : Hist π) : Prop :=
  ∀ (c : Nat) (cm : Commit π), h.commits[c]? = some cm → ∀ p ∈ cm.parents, p < c

/-- executable test of `Hist.Topo` -/
def Hist.topoB {π} (h : Hist π) : Bool :=
  (List.range h.commits.length).all fun c =>
    match h.commits[c]? with
    | some cm => cm.parents.all (fun p => decide (p < c))
    | none => true

theorem Hist.topo_of_topoB {π} (h : Hist π) (hb : h.topoB = true) : h.Topo := by
  intro c cm hcm p hp
  have hc : c < h.commits.length := by
    rcases List.getElem?_eq_some_iff.mp hcm with ⟨hi, _⟩; exact hi
  have := (List.all_eq_true.mp hb) c (List.mem_range.mpr hc)
  rw [hcm] at this
  simpa using (List.all_eq_true.mp this) p hp

theorem visit_frame {π β} {h : Hist π} (hT : h.Topo) (pl : Plug π β) (head : Nat) :
    ∀ (fuel : Nat) {rel : List Nat} (s : St β) (acc : List Nat) (c : Nat) (s' : St β) (acc' : List Nat),
      visit h pl head fuel rel (s, acc) c = .ok (s', acc') → ∀ x, c < x → classify s'.rp x = classify s.rp x := by
  intro fuel
  induction fuel with
  | zero => intro rel s acc c s' acc' hv; simp [visit] at hv
  | succ fuel ih =>
    intro rel s acc c s' acc' hv x hx
    rw [visit] at hv
    split at hv
    · cases hv; rfl
    · split at hv
      · cases hv
      · rename_i cm hcm
        split at hv
        · cases hv
        · rename_i st1 fr hfold
          have h1 := foldlM_ind (visit h pl head fuel (pl.relStep cm.time rel))
            (fun _ (sa : St β × List Nat) => classify sa.1.rp x = classify s.rp x) (fun p => p < c)
            (by
              intro ds' sa a sa' hI hG hstep
              obtain ⟨s1, a1⟩ := sa
              obtain ⟨s2, a2⟩ := sa'
              rw [← hI]
              exact ih s1 a1 a s2 a2 hstep x (by omega))
            cm.parents.reverse [] (s, []) (st1, fr) rfl
            (by intro a ha; exact hT c cm hcm a (List.mem_reverse.mp ha)) hfold
          simp only at h1
          split at hv
          · cases hv
          · rename_i st2 hfin
            have h2 := finish_classify_ne hfin x (by omega)
            split at hv
            · cases hv; rw [h2, h1]
            · cases hv

/-! ### induction principle for the DFS over report commits (`bp`) -/

/-- report commits are numbered in topological order -/
def RcTopo (rcs : List RC) : Prop := ∀ (i : Nat) (rc : RC), rcs[i]? = some rc → ∀ p ∈ rc.parents, p < i

/-- the DFS stops at `r` -/
def bpStop {β} (rp : Repo β) (fs : FS) (r : Nat) : Bool := isCurBuild rp r || (fs.bparents.lookup r).isSome

def FS.add (fs : FS) (r : Nat) (prs : List Nat) (explicit : Bool) : FS :=
  { bparents := (r, prs) :: fs.bparents, new := if explicit then fs.new ++ [r] else fs.new }

theorem bp_succ {β} (rp : Repo β) (anc : List (Nat × List Nat)) (fuel : Nat) (fs : FS) (r : Nat) :
    bp rp anc (fuel + 1) fs r =
      if bpStop rp fs r then .ok fs
      else match rp.rcs[r]? with
        | none => .error .keyError
        | some rc =>
          match rc.parents.reverse.foldlM (bp rp anc fuel) fs with
          | .error e => .error e
          | .ok fs1 =>
            match prsOf rp anc fs1.bparents rc.parents with
            | .error e => .error e
            | .ok prs => .ok (fs1.add r prs rc.explicit) := by
  rw [bp]; rfl

theorem bp_frame {β} (rp : Repo β) (hT : RcTopo rp.rcs) (anc : List (Nat × List Nat)) :
    ∀ (fuel : Nat) (fs : FS) (r : Nat) (fs' : FS), bp rp anc fuel fs r = .ok fs' →
      ∀ x, r < x → fs'.bparents.lookup x = fs.bparents.lookup x := by
  intro fuel
  induction fuel with
  | zero => intro fs r fs' hb; simp [bp] at hb
  | succ fuel ih =>
    intro fs r fs' hb x hx
    rw [bp_succ] at hb
    split at hb
    · cases hb; rfl
    · split at hb
      · cases hb
      · rename_i rc hrc
        split at hb
        · cases hb
        · rename_i fs1 hfold
          have h1 := foldlM_ind (bp rp anc fuel)
            (fun _ (f : FS) => f.bparents.lookup x = fs.bparents.lookup x) (fun p => p < r)
            (by
              intro _ f a f' hI hG hstep
              rw [← hI]
              exact ih f a f' hstep x (by omega))
            rc.parents.reverse [] fs fs1 rfl
            (by intro a ha; exact hT r rc hrc a (List.mem_reverse.mp ha)) hfold
          split at hb
          · cases hb
          · cases hb
            simp only [FS.add]
            rw [lookup_cons_ne x r _ _ (by omega), h1]

section BpInd
variable {β : Type} (rp : Repo β) (anc : List (Nat × List Nat))
variable (P : FS → Prop) (R : FS → FS → Prop) (C : FS → Nat → Prop) (V : Nat → Prop)

structure BpHyps : Prop where
  Vstep : ∀ {r rc p}, V r → rp.rcs[r]? = some rc → p ∈ rc.parents → V p
  Rrefl : ∀ s, R s s
  Rtrans : ∀ {a b c}, R a b → R b c → R a c
  Cmono : ∀ {s s' p}, R s s' → C s p → C s' p
  Cstop : ∀ {s r}, P s → bpStop rp s r = true → C s r
  Hadd : ∀ {s0 s r rc prs}, P s0 → V r → bpStop rp s0 r = false → bpStop rp s r = false → rp.rcs[r]? = some rc →
      R s0 s → P s → (∀ p ∈ rc.parents, C s p) → prsOf rp anc s.bparents rc.parents = .ok prs →
      P (s.add r prs rc.explicit) ∧ R s (s.add r prs rc.explicit) ∧ C (s.add r prs rc.explicit) r

variable {rp anc P R C V}

theorem bp_fold_ind (f : FS → Nat → Except Err FS)
    (H : BpHyps rp anc P R C V)
    (IH : ∀ (s : FS) (r : Nat) (s' : FS), P s → V r → f s r = .ok s' → P s' ∧ R s s' ∧ C s' r) :
    ∀ (l : List Nat) (s s' : FS), P s → (∀ p ∈ l, V p) → l.foldlM f s = .ok s' →
      P s' ∧ R s s' ∧ ∀ p ∈ l, C s' p := by
  intro l
  induction l with
  | nil => intro s s' hP _ h; cases h; exact ⟨hP, H.Rrefl _, by simp⟩
  | cons a l ih =>
    intro s s' hP hV h
    obtain ⟨s1, h1, h2⟩ := foldlM_ok_cons f s s' a l h
    obtain ⟨hP1, hR1, hC1⟩ := IH s a s1 hP (hV a (by simp)) h1
    obtain ⟨hP2, hR2, hC2⟩ := ih s1 s' hP1 (fun p hp => hV p (by simp [hp])) h2
    refine ⟨hP2, H.Rtrans hR1 hR2, ?_⟩
    intro p hp
    rcases List.mem_cons.mp hp with hp | hp
    · subst hp; exact H.Cmono hR2 hC1
    · exact hC2 p hp

theorem bp_ind (hT : RcTopo rp.rcs) (H : BpHyps rp anc P R C V) :
    ∀ (fuel : Nat) (s : FS) (r : Nat) (s' : FS), P s → V r → bp rp anc fuel s r = .ok s' →
      P s' ∧ R s s' ∧ C s' r := by
  intro fuel
  induction fuel with
  | zero => intro s r s' _ _ hb; simp [bp] at hb
  | succ fuel ih =>
    intro s r s' hP hV hb
    rw [bp_succ] at hb
    split at hb
    · rename_i hstop
      cases hb
      exact ⟨hP, H.Rrefl _, H.Cstop hP hstop⟩
    · rename_i hstop
      have hstop : bpStop rp s r = false := by simpa using hstop
      split at hb
      · cases hb
      · rename_i rc hrc
        split at hb
        · cases hb
        · rename_i s1 hfold
          obtain ⟨hP1, hR1, hC1⟩ := bp_fold_ind (bp rp anc fuel) H ih rc.parents.reverse s s1 hP
            (fun p hp => H.Vstep hV hrc (List.mem_reverse.mp hp)) hfold
          have hstop1 : bpStop rp s1 r = false := by
            have h1 := foldlM_ind (bp rp anc fuel)
              (fun _ (f : FS) => f.bparents.lookup r = s.bparents.lookup r) (fun p => p < r)
              (by
                intro _ f a f' hI hG hstep
                rw [← hI]
                exact bp_frame rp hT anc fuel f a f' hstep r hG)
              rc.parents.reverse [] s s1 rfl
              (by intro a ha; exact hT r rc hrc a (List.mem_reverse.mp ha)) hfold
            simp only [bpStop] at hstop ⊢
            rw [h1]; exact hstop
          split at hb
          · cases hb
          · rename_i prs hprs
            cases hb
            obtain ⟨hP2, hR2, hC2⟩ := H.Hadd hP hV hstop hstop1 hrc hR1 hP1
              (fun p hp => hC1 p (List.mem_reverse.mpr hp)) hprs
            exact ⟨hP2, H.Rtrans hR1 hR2, hC2⟩

end BpInd

/-! ### induction principle for the commit DFS -/

section VisitInd
variable {π β : Type} (h : Hist π) (pl : Plug π β) (head : Nat)
variable (P : St β → Prop) (Q : St β → List Nat → List Nat → Prop) (R : St β → St β → Prop) (V : Nat → Prop)

/-- what has to be shown about one step for an invariant of the DFS:
`P` state invariant, `Q s ds acc` relates the accumulated `rc_parents` to the children `ds` examined so far,
`R` how the state may grow, `V` what is known about every commit the DFS looks at, `L` what is known about the
relevant components handed down the DFS. -/
structure VisitHypsL (L : List Nat → Prop) : Prop where
  Rrefl : ∀ s, R s s
  Rtrans : ∀ {a b c}, R a b → R b c → R a c
  Qmono : ∀ {s s' ds acc}, P s → P s' → R s s' → Q s ds acc → Q s' ds acc
  Qnil : ∀ s, P s → Q s [] []
  Qcls : ∀ {s ds acc c cl}, P s → Q s ds acc → V c → classify s.rp c = some cl → Q s (ds ++ [c]) (addCls acc cl)
  Vstep : ∀ {c cm p}, V c → h.commits[c]? = some cm → p ∈ cm.parents → V p
  Lstep : ∀ {rel c cm}, L rel → V c → h.commits[c]? = some cm → L (pl.relStep cm.time rel)
  Hfin : ∀ {rel s c cm fr s'}, L rel → P s → V c → classify s.rp c = none → h.commits[c]? = some cm →
      Q s cm.parents.reverse fr → finish pl head rel s c cm fr = .ok s' → P s' ∧ R s s'

/-- the same without knowledge about the relevant components -/
structure VisitHyps : Prop where
  Rrefl : ∀ s, R s s
  Rtrans : ∀ {a b c}, R a b → R b c → R a c
  Qmono : ∀ {s s' ds acc}, P s → P s' → R s s' → Q s ds acc → Q s' ds acc
  Qnil : ∀ s, P s → Q s [] []
  Qcls : ∀ {s ds acc c cl}, P s → Q s ds acc → V c → classify s.rp c = some cl → Q s (ds ++ [c]) (addCls acc cl)
  Vstep : ∀ {c cm p}, V c → h.commits[c]? = some cm → p ∈ cm.parents → V p
  Hfin : ∀ {rel s c cm fr s'}, P s → V c → classify s.rp c = none → h.commits[c]? = some cm →
      Q s cm.parents.reverse fr → finish pl head rel s c cm fr = .ok s' → P s' ∧ R s s'

variable {h pl head P Q R V}

theorem visit_indL {L : List Nat → Prop} (hT : h.Topo) (H : VisitHypsL h pl head P Q R V L) :
    ∀ (fuel : Nat) {rel : List Nat} (s : St β) (ds acc : List Nat) (c : Nat) (s' : St β) (acc' : List Nat),
      L rel → P s → Q s ds acc → V c → visit h pl head fuel rel (s, acc) c = .ok (s', acc') →
      P s' ∧ Q s' (ds ++ [c]) acc' ∧ R s s' := by
  intro fuel
  induction fuel with
  | zero => intro rel s ds acc c s' acc' _ _ _ _ hv; simp [visit] at hv
  | succ fuel ih =>
    intro rel s ds acc c s' acc' hL hP hQ hV hv
    rw [visit] at hv
    split at hv
    · rename_i cl hcl
      cases hv
      exact ⟨hP, H.Qcls hP hQ hV hcl, H.Rrefl _⟩
    · rename_i hcl
      split at hv
      · cases hv
      · rename_i cm hcm
        have hL' := H.Lstep hL hV hcm
        split at hv
        · cases hv
        · rename_i st1 fr hfold
          -- the fold over the parents
          have hfoldI := foldlM_ind (visit h pl head fuel (pl.relStep cm.time rel))
            (fun ds' (sa : St β × List Nat) => P sa.1 ∧ Q sa.1 ds' sa.2 ∧ R s sa.1) V
            (by
              intro ds' sa a sa' hI hG hstep
              obtain ⟨s1, a1⟩ := sa
              obtain ⟨s2, a2⟩ := sa'
              obtain ⟨hP2, hQ2, hR2⟩ := ih s1 ds' a1 a s2 a2 hL' hI.1 hI.2.1 hG hstep
              exact ⟨hP2, hQ2, H.Rtrans hI.2.2 hR2⟩)
            cm.parents.reverse [] (s, []) (st1, fr) ⟨hP, H.Qnil s hP, H.Rrefl s⟩
            (by intro a ha; exact H.Vstep hV hcm (List.mem_reverse.mp ha)) hfold
          simp only [List.nil_append] at hfoldI
          obtain ⟨hP1, hQ1, hR1⟩ := hfoldI
          split at hv
          · cases hv
          · rename_i st2 hfin
            have hcl1 : classify st1.rp c = none := by
              have h1 := foldlM_ind (visit h pl head fuel (pl.relStep cm.time rel))
                (fun _ (sa : St β × List Nat) => classify sa.1.rp c = classify s.rp c) (fun p => p < c)
                (by
                  intro ds' sa a sa' hI hG hstep
                  obtain ⟨s1, a1⟩ := sa
                  obtain ⟨s2, a2⟩ := sa'
                  rw [← hI]
                  exact visit_frame hT pl head fuel s1 a1 a s2 a2 hstep c hG)
                cm.parents.reverse [] (s, []) (st1, fr) rfl
                (by intro a ha; exact hT c cm hcm a (List.mem_reverse.mp ha)) hfold
              simp only at h1
              rw [h1]; exact hcl
            · obtain ⟨hP2, hR2⟩ := H.Hfin hL' hP1 hV hcl1 hcm hQ1 hfin
              split at hv
              · rename_i cl hcl2
                cases hv
                have hR := H.Rtrans hR1 hR2
                exact ⟨hP2, H.Qcls hP2 (H.Qmono hP hP2 hR hQ) hV hcl2, hR⟩
              · cases hv

theorem visit_ind (hT : h.Topo) (H : VisitHyps h pl head P Q R V) :
    ∀ (fuel : Nat) {rel : List Nat} (s : St β) (ds acc : List Nat) (c : Nat) (s' : St β) (acc' : List Nat),
      P s → Q s ds acc → V c → visit h pl head fuel rel (s, acc) c = .ok (s', acc') →
      P s' ∧ Q s' (ds ++ [c]) acc' ∧ R s s' := by
  intro fuel rel s ds acc c s' acc' hP hQ hV hv
  have HL : VisitHypsL h pl head P Q R V (fun _ => True) :=
    { Rrefl := H.Rrefl, Rtrans := H.Rtrans, Qmono := H.Qmono, Qnil := H.Qnil, Qcls := H.Qcls, Vstep := H.Vstep
      Lstep := fun _ _ _ => trivial
      Hfin := fun _ hP hV hcl hcm hQ hf => H.Hfin hP hV hcl hcm hQ hf }
  exact visit_indL hT HL fuel s ds acc c s' acc' trivial hP hQ hV hv

end VisitInd

/-- `L` holds for the relevant-component sets handed down every DFS of the history: for the candidates computed at a
branch head and, from a set to the set of a commit below -/
structure RelInv {π β} (h : Hist π) (pl : Plug π β) (L : List Nat → Prop) : Prop where
  init : ∀ (c : Nat) (cm : Commit π), h.commits[c]? = some cm → L (pl.relStep cm.time pl.relInit)
  step : ∀ (rel : List Nat) (c : Nat) (cm : Commit π), L rel → h.commits[c]? = some cm → L (pl.relStep cm.time rel)

theorem RelInv.trivial {π β} (h : Hist π) (pl : Plug π β) : RelInv h pl (fun _ => True) :=
  ⟨fun _ _ _ => True.intro, fun _ _ _ _ _ => True.intro⟩

/-- inside the component cut-off window every component with reported builds stays relevant -/
theorem RelInv.full {π β} {h : Hist π} {pl : Plug π β}
    (hfull : ∀ (c : Nat) (cm : Commit π), h.commits[c]? = some cm → pl.relStep cm.time pl.relInit = pl.relInit) :
    RelInv h pl (fun rel => rel = pl.relInit) :=
  ⟨fun c cm hcm => hfull c cm hcm, fun rel c cm hr hcm => by rw [hr]; exact hfull c cm hcm⟩

end Ghist
