import AkVerif.Lemmas.TemplatesTotal
/-!
C05, nesting for every derivation: each well-typed raw tree of the value symbol that conforms to the json-like grammar
denotes some data (so `nesting` applies to every tree the parser can return for that grammar).
-/
namespace Templates
open Ak

/-- the production table of the json-like grammar -/
structure JsonP (G : JsonG) (P : Prods) : Prop where
  value : lookup P G.value = some [[G.word], [G.lo.result], [G.mo.result]]
  lres : lookup P G.lo.result = some (G.lo.listProdsRaw.map purge)
  ltail : lookup P G.lo.tailSym = some (G.lo.tailProdsRaw.map purge)
  mres : lookup P G.mo.result = some G.mo.mapRules
  mpair : lookup P G.mo.kvPairSym = some [[G.mo.key, G.mo.assign, G.mo.val]]
  mtail : lookup P G.mo.kvTailSym = some G.mo.tailRules
  lopt : G.lo.optional = false
  mopt : G.mo.optional = false

/-- every node named by the word token is a token leaf -/
def TokOK (G : JsonG) (t : Val) : Prop :=
  ∀ y ∈ preorder t, ∀ l v, y = .elem G.word l v → l = true ∧ ∃ s, v = .str s

theorem denAll_exists {R : Val → Data → Prop} {items : List Val} (h : ∀ i ∈ items, ∃ d, R i d) :
    ∃ ds, DenAll R items ds := by
  induction items with
  | nil => exact ⟨[], trivial⟩
  | cons i is ih =>
    obtain ⟨d, hd⟩ := h i (by simp)
    obtain ⟨ds, hds⟩ := ih fun j hj => h j (by simp [hj])
    exact ⟨d :: ds, hd, hds⟩

theorem denPairs_exists {G : JsonG} {R : Val → Data → Prop} {pairs : List (Val × Val)}
    (h : ∀ kw ∈ pairs, (∃ s, kw.1 = G.wtok s) ∧ ∃ d, R kw.2 d) :
    ∃ kvs, DenPairs G R pairs kvs := by
  induction pairs with
  | nil => exact ⟨[], trivial⟩
  | cons kw ps ih =>
    obtain ⟨k, w⟩ := kw
    obtain ⟨⟨s, hs⟩, d, hd⟩ := h (k, w) (by simp)
    obtain ⟨kvs, hkvs⟩ := ih fun j hj => h j (by simp [hj])
    exact ⟨(s, d) :: kvs, hs, hd, hkvs⟩

theorem tailShape_item_names {o : ListOpts} {t : Val} {is : List Val} {f : Bool} (h : TailShape o t is f) :
    ∀ i ∈ is, ∃ l v, i = .elem o.item l v := by
  induction h with
  | nil => intro i hi; cases hi
  | fin d l v _ _ => intro i hi; cases hi
  | consNone il iv tl is f _ _ ih =>
    intro i hi
    cases hi with
    | head => exact ⟨_, _, rfl⟩
    | tail _ hi => exact ih i hi
  | consSome d dl dv il iv tl is f _ _ ih =>
    intro i hi
    cases hi with
    | head => exact ⟨_, _, rfl⟩
    | tail _ hi => exact ih i hi

theorem listShape_item_names {o : ListOpts} {t : Val} {is : List Val} {f : Bool}
    (h : ListShape o t (some (is, f))) : ∀ i ∈ is, ∃ l v, i = .elem o.item l v := by
  cases h with
  | emptyNoBr _ => intro i hi; cases hi
  | emptyBr ob cb ol ov cl' cv _ _ => intro i hi; cases hi
  | noBr il iv tl is f _ ht =>
    intro i hi
    cases hi with
    | head => exact ⟨_, _, rfl⟩
    | tail _ hi => exact tailShape_item_names ht i hi
  | br ob cb ol ov cl' cv il iv tl is f _ _ ht =>
    intro i hi
    cases hi with
    | head => exact ⟨_, _, rfl⟩
    | tail _ hi => exact tailShape_item_names ht i hi

theorem kvTailShape_pair_names {o : MapOpts} {t : Val} {ps : List (Val × Val)} {f : Bool}
    (h : KvTailShape o t ps f) :
    ∀ kw ∈ ps, (∃ l v, kw.1 = .elem o.key l v) ∧ ∃ l v, kw.2 = .elem o.val l v := by
  induction h with
  | nil => intro i hi; cases hi
  | fin l v _ => intro i hi; cases hi
  | cons dl dv p k w tl ps f hp _ ih =>
    intro kw hi
    cases hi with
    | head => cases hp; exact ⟨⟨_, _, rfl⟩, _, _, rfl⟩
    | tail _ hi => exact ih kw hi

theorem mapShape_pair_names {o : MapOpts} {t : Val} {ps : List (Val × Val)} {f : Bool}
    (h : MapShape o t (some (ps, f))) :
    ∀ kw ∈ ps, (∃ l v, kw.1 = .elem o.key l v) ∧ ∃ l v, kw.2 = .elem o.val l v := by
  cases h with
  | emptyNoBr _ => intro i hi; cases hi
  | emptyBr ob cb ol ov cl' cv _ _ => intro i hi; cases hi
  | noBr p k w tl ps f _ hp ht =>
    intro kw hi
    cases hi with
    | head => cases hp; exact ⟨⟨_, _, rfl⟩, _, _, rfl⟩
    | tail _ hi => exact kvTailShape_pair_names ht kw hi
  | br ob cb ol ov cl' cv p k w tl ps f _ _ hp ht =>
    intro kw hi
    cases hi with
    | head => cases hp; exact ⟨⟨_, _, rfl⟩, _, _, rfl⟩
    | tail _ hi => exact kvTailShape_pair_names ht kw hi

theorem tokOK_sub {G : JsonG} {P : Prods} {t x : Val} (h : TokOK G t) (hs : Sub G.cl P t x) : TokOK G x :=
  fun y hy => h y (hs.2.2.2 y hy)

theorem tokOK_self {G : JsonG} {l : Bool} {v : Val} (h : TokOK G (.elem G.word l v)) :
    ∃ s, Val.elem G.word l v = G.wtok s := by
  obtain ⟨q, hq⟩ := head_preorder (.elem G.word l v)
  obtain ⟨rfl, s, rfl⟩ := h _ (by rw [hq]; simp) l v rfl
  exact ⟨s, rfl⟩

/-- **Every derivation denotes.** -/
theorem den_exists (G : JsonG) (P : Prods) (hP : JsonP G P) :
    ∀ (n : Nat) (l : Bool) (v : Val), sizeOf (Val.elem G.value l v) < n →
      wellTyped G.cl (.elem G.value l v) = true → conforms P (.elem G.value l v) = true →
      TokOK G (.elem G.value l v) → ∃ d, Den G n (.elem G.value l v) d := by
  intro n
  induction n with
  | zero => intro l v h; omega
  | succ n ih =>
    intro l v hs hw hc htok
    rcases conforms_node _ _ _ _ _ hP.value hc with ⟨rfl, rfl, hmem⟩ | ⟨rfl, xs, ns, rfl, hne, hcn, hmem, hall⟩
    · simp at hmem
    · simp at hmem
      have hns : ∃ c, ns = [c] ∧ (c = G.word ∨ c = G.lo.result ∨ c = G.mo.result) := by
        rcases hmem with h | h | h <;> exact ⟨_, h, by simp⟩
      obtain ⟨c, rfl, hcase⟩ := hns
      obtain ⟨cl, cv, xs0, rfl, h0⟩ := childNames_cons hcn
      have := childNames_nil h0; subst this
      have hsub : Sub G.cl P (.elem G.value false (.list [.elem c cl cv])) (.elem c cl cv) :=
        sub_child hw hc (by simp)
      have value_den : ∀ x, Sub G.cl P (.elem c cl cv) x → (∃ l v, x = .elem G.value l v) → ∃ d, Den G n x d := by
        intro x hx ⟨xl, xv, hxe⟩
        subst hxe
        have hx' := hsub.trans hx
        exact ih xl xv (by have := hx'.2.2.1; omega) hx'.1 hx'.2.1 (tokOK_sub htok hx')
      rcases hcase with rfl | rfl | rfl
      · obtain ⟨s, hs'⟩ := tokOK_self (tokOK_sub htok hsub)
        exact ⟨.word s, Or.inl ⟨s, by simp [JsonG.vnode, hs'], rfl⟩⟩
      · obtain ⟨r, hr⟩ := listShape_of_conforms' G.lo G.lwf P hP.lres hP.ltail cl cv hsub.2.1
        cases r with
        | none =>
          cases hr with
          | absent ho => rw [hP.lopt] at ho; cases ho
        | some p =>
          obtain ⟨items, f⟩ := p
          have hnames := listShape_item_names hr
          have hsubs := listShape_sub hr hsub.1 hsub.2.1
          obtain ⟨ds, hds⟩ := denAll_exists (R := Den G n) (items := items) fun i hi => by
            obtain ⟨il, iv, rfl⟩ := hnames i hi
            exact value_den _ (hsubs _ hi) ⟨il, iv, by rw [G.item_value]⟩
          exact ⟨.list ds, Or.inr (Or.inl ⟨_, items, f, ds, rfl, hr, rfl, hds⟩)⟩
      · obtain ⟨r, hr⟩ := mapShape_of_conforms' G.mo G.mwf P hP.mres hP.mpair hP.mtail cl cv hsub.2.1
        cases r with
        | none =>
          cases hr with
          | absent ho => rw [hP.mopt] at ho; cases ho
        | some p =>
          obtain ⟨pairs, f⟩ := p
          have hnames := mapShape_pair_names hr
          have hsubs := mapShape_sub hr hsub.1 hsub.2.1
          obtain ⟨kvs, hkvs⟩ := denPairs_exists (G := G) (R := Den G n) (pairs := pairs) fun kw hkw => by
            obtain ⟨⟨kl, kv, hk⟩, wl, wv, hw'⟩ := hnames kw hkw
            constructor
            · have hks := (hsubs kw hkw).1
              rw [hk, G.key_word] at hks
              have := tokOK_self (tokOK_sub htok (hsub.trans hks))
              rw [hk, G.key_word]
              exact this
            · exact value_den _ (hsubs kw hkw).2 ⟨wl, wv, by rw [hw', G.val_value]⟩
          exact ⟨.map kvs, Or.inr (Or.inr ⟨_, pairs, f, kvs, rfl, hr, rfl, hkvs⟩)⟩


end Templates
