import AkVerif.Lemmas.LLFuel
/-!
The set computations and the table construction of `Model/LLGrammar.lean` never fail on a dictionary
whose right-hand-side symbols are terminals or keys (`KnownSyms`):

* `firstSets_total`, `firstSets_keys`, `firstSets_has_key`,
* `followSets_total`, `followSets_keys`, `followSets_has_key`,
* `mkTable_total`,
* `sets_total` — `nullables`, `firstSets`, `followSets`, `mkTable` in a row.

Two families of lemmas per loop nest: "a successful run keeps the key list" (`*_keys`, `st_*_inv`; no
hypothesis on the grammar) and "under the key invariant the run succeeds" (`*_ok`).  The fuel loops
end in `.ok` or `.error .outOfFuel`; the latter is excluded by `LLFuel.lean`.
-/
set_option linter.unusedSectionVars false
set_option linter.unusedVariables false
namespace LL
open Ak

/-! ### generic helpers -/

theorem tot_exc_ok_bind {ε α β : Type} (a : α) (f : α → Except ε β) :
    ((Except.ok a : Except ε α) >>= f) = f a := rfl

section Dict
variable {κ β : Type} [DecidableEq κ]

theorem tot_dgetE_some {k : κ} {d : List (κ × β)} {v : β} (h : dget k d = some v) :
    dgetE k d = .ok v := by
  simp only [dgetE, h]

theorem tot_has {M : List (κ × β)} {k : κ} (hk : k ∈ M.map (·.1)) : ∃ v, dget k M = some v := by
  have h : (dget k M).isSome := dget_isSome_iff.2 hk
  cases hd : dget k M with
  | none => rw [hd] at h; cases h
  | some v => exact ⟨v, rfl⟩

theorem tot_mem_keys {M : List (κ × β)} {k : κ} {v : β} (h : dget k M = some v) : k ∈ M.map (·.1) :=
  dget_isSome_iff.1 (by rw [h]; rfl)

theorem tot_keys_dset {k : κ} {v old : β} {M : List (κ × β)} (h : dget k M = some old) :
    (dset k v M).map (·.1) = M.map (·.1) :=
  keys_dset_of_mem v (tot_mem_keys h)

end Dict

variable {σ : Type} [DecidableEq σ]

/-- every right-hand-side symbol is a terminal or a key -/
abbrev KnownSyms (terms : List σ) (G : Prods σ) : Prop :=
  ∀ X rules, (X, rules) ∈ G → ∀ r ∈ rules, ∀ s ∈ r.rhs, s ∈ terms ∨ s ∈ G.map (·.1)

theorem tot_keys_emptySets : ∀ (G : Prods σ), (emptySets G).map (·.1) = G.map (·.1)
  | [] => rfl
  | (nt, rs) :: rest => by
    have ih := tot_keys_emptySets rest
    unfold emptySets at ih ⊢
    simp only [List.map_cons, ih]

/-! ### `nullables` -/

theorem tot_nullLoop_error (G : Prods σ) :
    ∀ (fuel : Nat) (cur : List σ) (e : Err), nullLoop G fuel cur = .error e → e = .outOfFuel
  | 0, _, e, h => by simp [nullLoop] at h; exact h.symm
  | fuel + 1, cur, e, h => by
    unfold nullLoop at h
    dsimp only at h
    split at h
    · simp at h
    · exact tot_nullLoop_error G fuel _ e h

/-- `_get_nullables` always returns a set -/
theorem nullables_total' (G : Prods σ) : ∃ N, nullables G = .ok N := by
  cases h : nullables G with
  | ok N => exact ⟨N, rfl⟩
  | error e =>
    have := tot_nullLoop_error G _ _ e h
    subst this
    exact absurd h (nullables_fuel G)

/-! ### `firstSets`: a successful run keeps the key list -/

section First
variable {terms nulls : List σ}

theorem tot_firstSyms_keys {nt : σ} : ∀ (l : List σ) (fs : SetMap σ) (upd : Bool)
    (res : SetMap σ × Bool), firstSyms terms nulls nt l fs upd = .ok res →
    res.1.map (·.1) = fs.map (·.1)
  | [], fs, upd, res, h => by
    simp only [firstSyms, Except.ok.injEq] at h
    subst h; rfl
  | s :: rest, fs, upd, res, h => by
    obtain ⟨cur, fs1, upd1, hcur, hstep, h⟩ := firstSyms_cons_ok h
    have h1 : fs1.map (·.1) = fs.map (·.1) := by
      rcases hstep with ⟨_, ⟨_, hfs, _⟩ | ⟨_, hfs, _⟩⟩ | ⟨_, other, _, hfs, _⟩
      · subst hfs; rfl
      · subst hfs; exact tot_keys_dset hcur
      · subst hfs; exact tot_keys_dset hcur
    split at h
    · rw [tot_firstSyms_keys rest fs1 upd1 res h, h1]
    · cases h; exact h1

theorem tot_firstRules_keys {nt : σ} : ∀ (rs : List (Rule σ)) (fs : SetMap σ) (upd : Bool)
    (res : SetMap σ × Bool), firstRules terms nulls nt rs fs upd = .ok res →
    res.1.map (·.1) = fs.map (·.1)
  | [], fs, upd, res, h => by
    simp only [firstRules, Except.ok.injEq] at h
    subst h; rfl
  | r :: rest, fs, upd, res, h => by
    unfold firstRules at h
    obtain ⟨⟨fs1, upd1⟩, h0, h⟩ := exc_bind_ok h
    simp only at h
    rw [tot_firstRules_keys rest fs1 upd1 res h, tot_firstSyms_keys _ _ _ _ h0]

theorem tot_firstPass_keys : ∀ (G : Prods σ) (fs : SetMap σ) (upd : Bool)
    (res : SetMap σ × Bool), firstPass terms nulls G fs upd = .ok res →
    res.1.map (·.1) = fs.map (·.1)
  | [], fs, upd, res, h => by
    simp only [firstPass, Except.ok.injEq] at h
    subst h; rfl
  | (nt, rs) :: rest, fs, upd, res, h => by
    unfold firstPass at h
    obtain ⟨⟨fs1, upd1⟩, h0, h⟩ := exc_bind_ok h
    simp only at h
    rw [tot_firstPass_keys rest fs1 upd1 res h, tot_firstRules_keys _ _ _ _ h0]

theorem tot_firstLoop_keys {G : Prods σ} : ∀ (fuel : Nat) (fs first : SetMap σ),
    firstLoop terms nulls G fuel fs = .ok first → first.map (·.1) = fs.map (·.1)
  | 0, _, _, h => by simp [firstLoop] at h
  | fuel + 1, fs, first, h => by
    unfold firstLoop at h
    obtain ⟨⟨fs1, upd1⟩, h0, h⟩ := exc_bind_ok h
    simp only at h
    have h1 := tot_firstPass_keys _ _ _ _ h0
    split at h
    · rw [tot_firstLoop_keys fuel fs1 first h, h1]
    · simp only [Except.ok.injEq] at h
      subst h; exact h1

/-! ### `firstSets`: under the key invariant every pass succeeds -/

theorem tot_firstSyms_ok {K : List σ} {nt : σ} (hnt : nt ∈ K) : ∀ (l : List σ) (fs : SetMap σ)
    (upd : Bool), fs.map (·.1) = K → (∀ s ∈ l, s ∈ terms ∨ s ∈ K) →
    ∃ res, firstSyms terms nulls nt l fs upd = .ok res
  | [], fs, upd, _, _ => ⟨(fs, upd), rfl⟩
  | s :: rest, fs, upd, hK, hl => by
    obtain ⟨cur, hcur⟩ := tot_has (M := fs) (by rw [hK]; exact hnt)
    have tail : ∀ fs1 upd1, fs1.map (·.1) = fs.map (·.1) →
        ∃ res, (if s ∈ nulls then firstSyms terms nulls nt rest fs1 upd1 else .ok (fs1, upd1))
          = .ok res := by
      intro fs1 upd1 hk
      split
      · exact tot_firstSyms_ok hnt rest fs1 upd1 (by rw [hk, hK])
          (fun x hx => hl x (List.mem_cons_of_mem _ hx))
      · exact ⟨_, rfl⟩
    unfold firstSyms
    rw [tot_dgetE_some hcur, tot_exc_ok_bind]
    by_cases hs : s ∈ terms
    · by_cases hc : s ∈ cur
      · simp only [hs, hc, if_true, pure_bind]
        exact tail fs upd rfl
      · simp only [hs, hc, if_true, if_false, pure_bind]
        exact tail _ _ (tot_keys_dset hcur)
    · obtain ⟨other, hother⟩ := tot_has (M := fs)
        (by rw [hK]; exact (hl s (by simp)).resolve_left hs)
      simp only [hs, if_false, tot_dgetE_some hother, tot_exc_ok_bind, pure_bind]
      exact tail _ _ (tot_keys_dset hcur)

theorem tot_firstRules_ok {K : List σ} {nt : σ} (hnt : nt ∈ K) : ∀ (rs : List (Rule σ))
    (fs : SetMap σ) (upd : Bool), fs.map (·.1) = K →
    (∀ r ∈ rs, ∀ s ∈ r.rhs, s ∈ terms ∨ s ∈ K) →
    ∃ res, firstRules terms nulls nt rs fs upd = .ok res
  | [], fs, upd, _, _ => ⟨(fs, upd), rfl⟩
  | r :: rest, fs, upd, hK, hl => by
    obtain ⟨⟨fs1, upd1⟩, h0⟩ := tot_firstSyms_ok (nulls := nulls) hnt r.rhs fs upd hK
      (hl r (by simp))
    have hK1 : fs1.map (·.1) = K := by rw [← hK]; exact tot_firstSyms_keys _ _ _ _ h0
    unfold firstRules
    rw [h0, tot_exc_ok_bind]
    exact tot_firstRules_ok hnt rest fs1 upd1 hK1 (fun x hx => hl x (List.mem_cons_of_mem _ hx))

theorem tot_firstPass_ok {K : List σ} : ∀ (G : Prods σ) (fs : SetMap σ) (upd : Bool),
    fs.map (·.1) = K →
    (∀ X rules, (X, rules) ∈ G → X ∈ K ∧ ∀ r ∈ rules, ∀ s ∈ r.rhs, s ∈ terms ∨ s ∈ K) →
    ∃ res, firstPass terms nulls G fs upd = .ok res
  | [], fs, upd, _, _ => ⟨(fs, upd), rfl⟩
  | (nt, rs) :: rest, fs, upd, hK, hG => by
    obtain ⟨hnt, hrs⟩ := hG nt rs (by simp)
    obtain ⟨⟨fs1, upd1⟩, h0⟩ := tot_firstRules_ok (nulls := nulls) hnt rs fs upd hK hrs
    have hK1 : fs1.map (·.1) = K := by rw [← hK]; exact tot_firstRules_keys _ _ _ _ h0
    unfold firstPass
    rw [h0, tot_exc_ok_bind]
    exact tot_firstPass_ok rest fs1 upd1 hK1
      (fun X rules hm => hG X rules (List.mem_cons_of_mem _ hm))

theorem tot_firstLoop_ok {K : List σ} {G : Prods σ}
    (hG : ∀ X rules, (X, rules) ∈ G → X ∈ K ∧ ∀ r ∈ rules, ∀ s ∈ r.rhs, s ∈ terms ∨ s ∈ K) :
    ∀ (fuel : Nat) (fs : SetMap σ), fs.map (·.1) = K →
    (∃ first, firstLoop terms nulls G fuel fs = .ok first) ∨
      firstLoop terms nulls G fuel fs = .error .outOfFuel
  | 0, _, _ => Or.inr rfl
  | fuel + 1, fs, hK => by
    obtain ⟨⟨fs1, upd1⟩, h0⟩ := tot_firstPass_ok (nulls := nulls) G fs false hK hG
    have hK1 : fs1.map (·.1) = K := by rw [← hK]; exact tot_firstPass_keys _ _ _ _ h0
    unfold firstLoop
    rw [h0, tot_exc_ok_bind]
    simp only
    split
    · exact tot_firstLoop_ok hG fuel fs1 hK1
    · exact Or.inl ⟨_, rfl⟩

end First

theorem tot_known_keys {terms : List σ} {G : Prods σ} (hknown : KnownSyms terms G) :
    ∀ X rules, (X, rules) ∈ G →
      X ∈ G.map (·.1) ∧ ∀ r ∈ rules, ∀ s ∈ r.rhs, s ∈ terms ∨ s ∈ G.map (·.1) :=
  fun X rules hm => ⟨List.mem_map.2 ⟨(X, rules), hm, rfl⟩, hknown X rules hm⟩

/-- `_calc_first_sets` returns on every dictionary whose symbols are terminals or keys -/
theorem firstSets_total (terms nulls : List σ) (G : Prods σ) (hknown : KnownSyms terms G) :
    ∃ first, firstSets terms nulls G = .ok first := by
  rcases tot_firstLoop_ok (nulls := nulls) (tot_known_keys hknown)
    (G.length * (terms.length + 1) + 2) (emptySets G) (tot_keys_emptySets G) with h | h
  · exact h
  · exact absurd h (firstSets_fuel' terms nulls G)

/-- the FIRST dictionary has exactly the keys of the grammar, in its order -/
theorem firstSets_keys {terms nulls : List σ} {G : Prods σ} {first : SetMap σ}
    (h : firstSets terms nulls G = .ok first) : first.map (·.1) = G.map (·.1) := by
  rw [tot_firstLoop_keys _ _ _ h, tot_keys_emptySets]

theorem firstSets_has_key {terms nulls : List σ} {G : Prods σ} {first : SetMap σ}
    (h : firstSets terms nulls G = .ok first) :
    ∀ k, k ∈ G.map (·.1) → ∃ f, dget k first = some f :=
  fun k hk => tot_has (by rw [firstSets_keys h]; exact hk)

/-! ### `followSets`, phase 1: a successful run keeps the keys, dependency sets are made of keys -/

/-- both dictionaries of the state `(follow_sets, follows_deps)` have the key list `K`, and every
dependency set consists of members of `K` -/
def StOK (K : List σ) (st : SetMap σ × SetMap σ) : Prop :=
  st.1.map (·.1) = K ∧ st.2.map (·.1) = K ∧ ∀ p ∈ st.2, ∀ a ∈ p.2, a ∈ K

section Follow
variable {terms nulls : List σ} {first : SetMap σ}

theorem st_followTail_inv {K : List σ} {A X : σ} (hA : A ∈ K) :
    ∀ (β : List σ) (st st' : SetMap σ × SetMap σ),
    followTail terms nulls first A X β st = .ok st' → StOK K st → StOK K st'
  | [], (W, D), st', h, hI => by
    unfold followTail at h
    obtain ⟨d, hd, h⟩ := exc_bind_ok h
    have hd := dgetE_ok hd
    simp only [Except.ok.injEq] at h
    subst h
    refine ⟨hI.1, by rw [← hI.2.1]; exact tot_keys_dset hd, ?_⟩
    intro p hp a ha
    rcases mem_dset hp with hp | hp
    · exact hI.2.2 p hp a ha
    · rw [hp] at ha
      rcases mem_sadd.1 ha with ha | ha
      · exact hI.2.2 (X, d) (dget_mem hd) a ha
      · rw [ha]; exact hA
  | m :: rest, (W, D), st', h, hI => by
    obtain ⟨w, W1, D1, hw, hstep, h⟩ := followTail_cons_ok h
    have h1 : StOK K (W1, D1) := by
      rcases hstep with ⟨_, hW, hD⟩ | ⟨_, f, _, hW, hD⟩
      · subst hW; subst hD
        exact ⟨by rw [← hI.1]; exact tot_keys_dset hw, hI.2⟩
      · subst hW; subst hD
        exact ⟨by rw [← hI.1]; exact tot_keys_dset hw, hI.2⟩
    split at h
    · exact st_followTail_inv hA rest (W1, D1) st' h h1
    · simp only [Except.ok.injEq] at h
      subst h
      exact h1

theorem st_followRule_inv {K : List σ} {A : σ} (hA : A ∈ K) :
    ∀ (l : List σ) (st st' : SetMap σ × SetMap σ),
    followRule terms nulls first A l st = .ok st' → StOK K st → StOK K st'
  | [], st, st', h, hI => by
    simp only [followRule, Except.ok.injEq] at h
    subst h
    exact hI
  | X :: rest, st, st', h, hI => by
    unfold followRule at h
    split at h
    · exact st_followRule_inv hA rest st st' h hI
    · obtain ⟨st1, h1, h⟩ := exc_bind_ok h
      exact st_followRule_inv hA rest st1 st' h (st_followTail_inv hA _ _ _ h1 hI)

theorem st_followRules_inv {K : List σ} {A : σ} (hA : A ∈ K) :
    ∀ (rs : List (Rule σ)) (st st' : SetMap σ × SetMap σ),
    followRules terms nulls first A rs st = .ok st' → StOK K st → StOK K st'
  | [], st, st', h, hI => by
    simp only [followRules, Except.ok.injEq] at h
    subst h
    exact hI
  | r :: rest, st, st', h, hI => by
    unfold followRules at h
    obtain ⟨st1, h1, h⟩ := exc_bind_ok h
    exact st_followRules_inv hA rest st1 st' h (st_followRule_inv hA _ _ _ h1 hI)

theorem st_followImm_inv {K : List σ} : ∀ (G : Prods σ) (st st' : SetMap σ × SetMap σ),
    (∀ p ∈ G, p.1 ∈ K) → followImm terms nulls first G st = .ok st' → StOK K st → StOK K st'
  | [], st, st', _, h, hI => by
    simp only [followImm, Except.ok.injEq] at h
    subst h
    exact hI
  | (A, rs) :: rest, st, st', hG, h, hI => by
    unfold followImm at h
    obtain ⟨st1, h1, h⟩ := exc_bind_ok h
    exact st_followImm_inv rest st1 st' (fun p hp => hG p (List.mem_cons_of_mem _ hp)) h
      (st_followRules_inv (hG (A, rs) (by simp)) _ _ _ h1 hI)

/-! ### phase 1 succeeds -/

theorem st_followTail_ok {K : List σ} {A X : σ} (hX : X ∈ K) : ∀ (β : List σ) (W D : SetMap σ),
    W.map (·.1) = K → D.map (·.1) = K →
    (∀ n ∈ β, n ∈ terms ∨ ∃ f, dget n first = some f) →
    ∃ st', followTail terms nulls first A X β (W, D) = .ok st'
  | [], W, D, hW, hD, _ => by
    obtain ⟨d, hd⟩ := tot_has (M := D) (by rw [hD]; exact hX)
    unfold followTail
    rw [tot_dgetE_some hd, tot_exc_ok_bind]
    exact ⟨_, rfl⟩
  | n :: rest, W, D, hW, hD, hβ => by
    obtain ⟨w, hw⟩ := tot_has (M := W) (by rw [hW]; exact hX)
    have tail : ∀ W1, W1.map (·.1) = W.map (·.1) →
        ∃ st', (if n ∈ nulls then followTail terms nulls first A X rest (W1, D) else .ok (W1, D))
          = .ok st' := by
      intro W1 hk
      split
      · exact st_followTail_ok hX rest W1 D (by rw [hk, hW]) hD
          (fun x hx => hβ x (List.mem_cons_of_mem _ hx))
      · exact ⟨_, rfl⟩
    unfold followTail
    rw [tot_dgetE_some hw, tot_exc_ok_bind]
    by_cases hn : n ∈ terms
    · simp only [hn, if_true, pure_bind]
      exact tail _ (tot_keys_dset hw)
    · obtain ⟨f, hf⟩ := (hβ n (by simp)).resolve_left hn
      simp only [hn, if_false, tot_dgetE_some hf, tot_exc_ok_bind, pure_bind]
      exact tail _ (tot_keys_dset hw)

theorem st_followRule_ok {K : List σ} {A : σ} (hA : A ∈ K)
    (hfk : ∀ k ∈ K, ∃ f, dget k first = some f) : ∀ (l : List σ) (st : SetMap σ × SetMap σ),
    StOK K st → (∀ s ∈ l, s ∈ terms ∨ s ∈ K) →
    ∃ st', followRule terms nulls first A l st = .ok st'
  | [], st, _, _ => ⟨st, rfl⟩
  | X :: rest, st, hI, hl => by
    have hrest : ∀ s ∈ rest, s ∈ terms ∨ s ∈ K := fun s hs => hl s (List.mem_cons_of_mem _ hs)
    unfold followRule
    by_cases hX : X ∈ terms
    · simp only [hX, if_true]
      exact st_followRule_ok hA hfk rest st hI hrest
    · have hXK : X ∈ K := (hl X (by simp)).resolve_left hX
      obtain ⟨st1, h1⟩ := st_followTail_ok (terms := terms) (nulls := nulls) (first := first)
        (A := A) hXK rest st.1 st.2 hI.1 hI.2.1
        (fun n hn => (hrest n hn).imp id (hfk n))
      have hI1 : StOK K st1 := st_followTail_inv hA _ _ _ h1 hI
      simp only [hX, if_false]
      rw [h1, tot_exc_ok_bind]
      exact st_followRule_ok hA hfk rest st1 hI1 hrest

theorem st_followRules_ok {K : List σ} {A : σ} (hA : A ∈ K)
    (hfk : ∀ k ∈ K, ∃ f, dget k first = some f) : ∀ (rs : List (Rule σ))
    (st : SetMap σ × SetMap σ), StOK K st → (∀ r ∈ rs, ∀ s ∈ r.rhs, s ∈ terms ∨ s ∈ K) →
    ∃ st', followRules terms nulls first A rs st = .ok st'
  | [], st, _, _ => ⟨st, rfl⟩
  | r :: rest, st, hI, hl => by
    obtain ⟨st1, h1⟩ := st_followRule_ok (nulls := nulls) hA hfk r.rhs st hI (hl r (by simp))
    have hI1 : StOK K st1 := st_followRule_inv hA _ _ _ h1 hI
    unfold followRules
    rw [h1, tot_exc_ok_bind]
    exact st_followRules_ok hA hfk rest st1 hI1 (fun x hx => hl x (List.mem_cons_of_mem _ hx))

theorem st_followImm_ok {K : List σ} (hfk : ∀ k ∈ K, ∃ f, dget k first = some f) :
    ∀ (G : Prods σ) (st : SetMap σ × SetMap σ), StOK K st →
    (∀ X rules, (X, rules) ∈ G → X ∈ K ∧ ∀ r ∈ rules, ∀ s ∈ r.rhs, s ∈ terms ∨ s ∈ K) →
    ∃ st', followImm terms nulls first G st = .ok st'
  | [], st, _, _ => ⟨st, rfl⟩
  | (A, rs) :: rest, st, hI, hG => by
    obtain ⟨hA, hrs⟩ := hG A rs (by simp)
    obtain ⟨st1, h1⟩ := st_followRules_ok (nulls := nulls) hA hfk rs st hI hrs
    have hI1 : StOK K st1 := st_followRules_inv hA _ _ _ h1 hI
    unfold followImm
    rw [h1, tot_exc_ok_bind]
    exact st_followImm_ok hfk rest st1 hI1 (fun X rules hm => hG X rules (List.mem_cons_of_mem _ hm))

end Follow

/-! ### phase 2 -/

theorem tot_depsOne_keys {X : σ} : ∀ (deps : List σ) (W W' : SetMap σ),
    depsOne X deps W = .ok W' → W'.map (·.1) = W.map (·.1)
  | [], W, W', h => by
    simp only [depsOne, Except.ok.injEq] at h
    subst h; rfl
  | dep :: rest, W, W', h => by
    unfold depsOne at h
    obtain ⟨w, hw, h⟩ := exc_bind_ok h
    obtain ⟨wd, _, h⟩ := exc_bind_ok h
    rw [tot_depsOne_keys rest _ W' h, tot_keys_dset (dgetE_ok hw)]

theorem tot_depsPass_keys : ∀ (D W : SetMap σ) (upd : Bool) (res : SetMap σ × Bool),
    depsPass D W upd = .ok res → res.1.map (·.1) = W.map (·.1)
  | [], W, upd, res, h => by
    simp only [depsPass, Except.ok.injEq] at h
    subst h; rfl
  | (X, deps) :: rest, W, upd, res, h => by
    unfold depsPass at h
    obtain ⟨w0, _, h⟩ := exc_bind_ok h
    obtain ⟨W1, hone, h⟩ := exc_bind_ok h
    obtain ⟨w1, _, h⟩ := exc_bind_ok h
    rw [tot_depsPass_keys rest W1 _ res h, tot_depsOne_keys _ _ _ hone]

theorem tot_depsLoop_keys {D : SetMap σ} : ∀ (fuel : Nat) (W follow : SetMap σ),
    depsLoop D fuel W = .ok follow → follow.map (·.1) = W.map (·.1)
  | 0, _, _, h => by simp [depsLoop] at h
  | fuel + 1, W, follow, h => by
    unfold depsLoop at h
    obtain ⟨⟨W1, upd1⟩, h0, h⟩ := exc_bind_ok h
    simp only at h
    have h1 := tot_depsPass_keys _ _ _ _ h0
    split at h
    · rw [tot_depsLoop_keys fuel W1 follow h, h1]
    · simp only [Except.ok.injEq] at h
      subst h; exact h1

theorem tot_depsOne_ok {K : List σ} {X : σ} (hX : X ∈ K) : ∀ (deps : List σ) (W : SetMap σ),
    W.map (·.1) = K → (∀ d ∈ deps, d ∈ K) → ∃ W', depsOne X deps W = .ok W'
  | [], W, _, _ => ⟨W, rfl⟩
  | dep :: rest, W, hW, hd => by
    obtain ⟨w, hw⟩ := tot_has (M := W) (by rw [hW]; exact hX)
    obtain ⟨wd, hwd⟩ := tot_has (M := W) (by rw [hW]; exact hd dep (by simp))
    unfold depsOne
    rw [tot_dgetE_some hw, tot_exc_ok_bind, tot_dgetE_some hwd, tot_exc_ok_bind]
    exact tot_depsOne_ok hX rest _ (by rw [tot_keys_dset hw, hW])
      (fun d h => hd d (List.mem_cons_of_mem _ h))

theorem tot_depsPass_ok {K : List σ} : ∀ (D W : SetMap σ) (upd : Bool), W.map (·.1) = K →
    (∀ p ∈ D, p.1 ∈ K ∧ ∀ a ∈ p.2, a ∈ K) → ∃ res, depsPass D W upd = .ok res
  | [], W, upd, _, _ => ⟨(W, upd), rfl⟩
  | (X, deps) :: rest, W, upd, hW, hD => by
    obtain ⟨hX, hdeps⟩ := hD (X, deps) (by simp)
    obtain ⟨w0, hw0⟩ := tot_has (M := W) (by rw [hW]; exact hX)
    obtain ⟨W1, hone⟩ := tot_depsOne_ok hX deps W hW hdeps
    have hW1 : W1.map (·.1) = K := by rw [tot_depsOne_keys _ _ _ hone, hW]
    obtain ⟨w1, hw1⟩ := tot_has (M := W1) (by rw [hW1]; exact hX)
    unfold depsPass
    rw [tot_dgetE_some hw0, tot_exc_ok_bind, hone, tot_exc_ok_bind, tot_dgetE_some hw1,
      tot_exc_ok_bind]
    exact tot_depsPass_ok rest W1 _ hW1 (fun p hp => hD p (List.mem_cons_of_mem _ hp))

theorem tot_depsLoop_ok {K : List σ} {D : SetMap σ}
    (hD : ∀ p ∈ D, p.1 ∈ K ∧ ∀ a ∈ p.2, a ∈ K) : ∀ (fuel : Nat) (W : SetMap σ),
    W.map (·.1) = K →
    (∃ follow, depsLoop D fuel W = .ok follow) ∨ depsLoop D fuel W = .error .outOfFuel
  | 0, _, _ => Or.inr rfl
  | fuel + 1, W, hW => by
    obtain ⟨⟨W1, upd1⟩, h0⟩ := tot_depsPass_ok D W false hW hD
    have hW1 : W1.map (·.1) = K := by rw [← hW]; exact tot_depsPass_keys _ _ _ _ h0
    unfold depsLoop
    rw [h0, tot_exc_ok_bind]
    simp only
    split
    · exact tot_depsLoop_ok hD fuel W1 hW1
    · exact Or.inl ⟨_, rfl⟩

/-! ### `followSets` -/

theorem st_start_ok {G : Prods σ} {start : σ} {ws : List σ} (endS : σ)
    (hws : dget start (emptySets G) = some ws) :
    StOK (G.map (·.1)) (dset start (sadd ws endS) (emptySets G), emptySets G) := by
  refine ⟨by rw [tot_keys_dset hws, tot_keys_emptySets], tot_keys_emptySets G, ?_⟩
  intro p hp a ha
  simp only [emptySets, List.mem_map] at hp
  obtain ⟨q, _, hq⟩ := hp
  subst hq
  simp at ha

theorem st_deps_keys {K : List σ} {st : SetMap σ × SetMap σ} (h : StOK K st) :
    ∀ p ∈ st.2, p.1 ∈ K ∧ ∀ a ∈ p.2, a ∈ K := by
  intro p hp
  refine ⟨?_, h.2.2 p hp⟩
  rw [← h.2.1]
  exact List.mem_map.2 ⟨p, hp, rfl⟩

theorem tot_followSets_aux (terms nulls : List σ) (first : SetMap σ) (G : Prods σ) (start endS : σ)
    (hknown : KnownSyms terms G) (hstart : start ∈ G.map (·.1))
    (hfk : ∀ k ∈ G.map (·.1), ∃ f, dget k first = some f) :
    (∃ follow, followSets terms nulls first G start endS = .ok follow) ∨
      followSets terms nulls first G start endS = .error .outOfFuel := by
  obtain ⟨ws, hws⟩ := tot_has (M := emptySets G) (by rw [tot_keys_emptySets]; exact hstart)
  have hI := st_start_ok endS hws
  obtain ⟨⟨W2, D⟩, himm⟩ := st_followImm_ok (terms := terms) (nulls := nulls) hfk G _ hI
    (tot_known_keys hknown)
  have hI2 : StOK (G.map (·.1)) (W2, D) := st_followImm_inv G _ _
    (fun p hp => List.mem_map.2 ⟨p, hp, rfl⟩) himm hI
  unfold followSets
  simp only [hws, pure_bind, himm, tot_exc_ok_bind]
  exact tot_depsLoop_ok (st_deps_keys hI2) _ W2 hI2.1

/-- `_calc_follow_sets` returns on every dictionary whose symbols are terminals or keys -/
theorem followSets_total (terms nulls : List σ) (first : SetMap σ) (G : Prods σ) (start endS : σ)
    (hknown : KnownSyms terms G) (hstart : start ∈ G.map (·.1))
    (hfk : ∀ k ∈ G.map (·.1), ∃ f, dget k first = some f)
    (hfirst : ∀ X f, dget X first = some f → ∀ t ∈ f, t ∈ terms) (hend : endS ∈ terms) :
    ∃ follow, followSets terms nulls first G start endS = .ok follow := by
  rcases tot_followSets_aux terms nulls first G start endS hknown hstart hfk with h | h
  · exact h
  · exact absurd h (followSets_fuel' terms nulls first G start endS hfirst hend)

/-- the FOLLOW dictionary has exactly the keys of the grammar, in its order -/
theorem followSets_keys {terms nulls : List σ} {first : SetMap σ} {G : Prods σ} {start endS : σ}
    {follow : SetMap σ} (h : followSets terms nulls first G start endS = .ok follow) :
    follow.map (·.1) = G.map (·.1) := by
  unfold followSets at h
  simp only at h
  split at h
  case h_2 =>
    obtain ⟨_, hc, _⟩ := exc_bind_ok h
    cases hc
  rename_i ws hws
  simp only [pure_bind] at h
  obtain ⟨⟨W2, D⟩, himm, h⟩ := exc_bind_ok h
  simp only at h
  have hI2 : StOK (G.map (·.1)) (W2, D) := st_followImm_inv G _ _
    (fun p hp => List.mem_map.2 ⟨p, hp, rfl⟩) himm (st_start_ok endS hws)
  rw [tot_depsLoop_keys _ _ _ h]
  exact hI2.1

theorem followSets_has_key {terms nulls : List σ} {first : SetMap σ} {G : Prods σ} {start endS : σ}
    {follow : SetMap σ} (h : followSets terms nulls first G start endS = .ok follow) :
    ∀ k, k ∈ G.map (·.1) → ∃ w, dget k follow = some w :=
  fun k hk => tot_has (by rw [followSets_keys h]; exact hk)

/-! ### `mkTable` -/

section Table
variable {terms nulls : List σ} {first follow : SetMap σ}

/-- `startSyms` on a suffix `l` of a right-hand side: every non-terminal of `l` has a FIRST entry,
and if all of `l` is nullable non-terminals (so the scan reaches the `for … else`) then `A` is
nullable and has a FOLLOW entry -/
theorem tot_startSyms_ok {A : σ} : ∀ (l acc : List σ),
    (∀ s ∈ l, s ∉ terms → ∃ f, dget s first = some f) →
    ((∀ s ∈ l, s ∉ terms ∧ s ∈ nulls) → A ∈ nulls ∧ ∃ w, dget A follow = some w) →
    ∃ ss, startSyms terms nulls first follow A l acc = .ok ss
  | [], acc, _, hN => by
    obtain ⟨hA, w, hw⟩ := hN (fun s hs => by simp at hs)
    unfold startSyms
    simp only [hA, if_true, tot_dgetE_some hw, tot_exc_ok_bind]
    exact ⟨_, rfl⟩
  | s :: rest, acc, hl, hN => by
    unfold startSyms
    by_cases hs : s ∈ terms
    · exact ⟨sadd acc s, by simp only [hs, if_true]⟩
    · obtain ⟨f, hf⟩ := hl s (by simp) hs
      simp only [hs, if_false, tot_dgetE_some hf, tot_exc_ok_bind]
      by_cases hn : s ∈ nulls
      · simp only [hn, if_true]
        refine tot_startSyms_ok rest (sunion acc f)
          (fun x hx => hl x (List.mem_cons_of_mem _ hx)) (fun hr => hN (fun x hx => ?_))
        rcases List.mem_cons.1 hx with e | hx
        · subst e; exact ⟨hs, hn⟩
        · exact hr x hx
      · simp only [hn, if_false]
        exact ⟨_, rfl⟩

theorem tot_tableRules_ok {A : σ} : ∀ (rs : List (Rule σ)) (T : Table σ),
    (∀ r ∈ rs, ∃ ss, startSyms terms nulls first follow A r.rhs [] = .ok ss) →
    ∃ T', tableRules terms nulls first follow A rs T = .ok T'
  | [], T, _ => ⟨T, rfl⟩
  | r :: rest, T, h => by
    obtain ⟨ss, hss⟩ := h r (by simp)
    unfold tableRules
    rw [hss, tot_exc_ok_bind]
    exact tot_tableRules_ok rest _ (fun x hx => h x (List.mem_cons_of_mem _ hx))

theorem tot_tableFill_ok : ∀ (G : Prods σ) (T : Table σ),
    (∀ A rules, (A, rules) ∈ G → ∀ r ∈ rules,
      ∃ ss, startSyms terms nulls first follow A r.rhs [] = .ok ss) →
    ∃ T', tableFill terms nulls first follow G T = .ok T'
  | [], T, _ => ⟨T, rfl⟩
  | (A, rs) :: rest, T, h => by
    obtain ⟨T1, hT1⟩ := tot_tableRules_ok (terms := terms) (nulls := nulls) (first := first)
      (follow := follow) (A := A) rs T (h A rs (by simp))
    unfold tableFill
    rw [hT1, tot_exc_ok_bind]
    exact tot_tableFill_ok rest T1 (fun B rules hm => h B rules (List.mem_cons_of_mem _ hm))

end Table

/-- `_make_llone_table` returns (in particular its `assert non_term in nullables` holds) -/
theorem mkTable_total (terms nulls : List σ) (first follow : SetMap σ) (G : Prods σ)
    (hknown : KnownSyms terms G) (hN : nullables G = .ok nulls)
    (hfk : ∀ k ∈ G.map (·.1), ∃ f, dget k first = some f)
    (hwk : ∀ k ∈ G.map (·.1), ∃ w, dget k follow = some w) :
    ∃ T, mkTable terms nulls first follow G = .ok T := by
  obtain ⟨T, hT⟩ := tot_tableFill_ok (terms := terms) (nulls := nulls) (first := first)
    (follow := follow) G [] (by
      intro A rules hm r hr
      refine tot_startSyms_ok r.rhs [] ?_ ?_
      · intro s hs hsT
        exact hfk s ((hknown A rules hm r hr s hs).resolve_left hsT)
      · intro hall
        exact ⟨nullables_closed hN A rules hm r hr (fun s hs => (hall s hs).2),
          hwk A (List.mem_map.2 ⟨(A, rules), hm, rfl⟩)⟩)
  unfold mkTable
  rw [hT, tot_exc_ok_bind]
  exact ⟨_, rfl⟩

/-- nullables, FIRST, FOLLOW and the table are all computed without an error for a dictionary whose
right-hand-side symbols are terminals or keys, a start symbol that is a key and `endS` a terminal -/
theorem sets_total (terms : List σ) (G : Prods σ) (start endS : σ)
    (hknown : KnownSyms terms G) (hstart : start ∈ G.map (·.1)) (hend : endS ∈ terms) :
    ∃ N F W T, nullables G = .ok N ∧ firstSets terms N G = .ok F ∧
      followSets terms N F G start endS = .ok W ∧ mkTable terms N F W G = .ok T := by
  obtain ⟨N, hN⟩ := nullables_total' G
  obtain ⟨F, hF⟩ := firstSets_total terms N G hknown
  have hfk := firstSets_has_key hF
  obtain ⟨W, hW⟩ := followSets_total terms N F G start endS hknown hstart hfk
    (fun X f hf t ht => (firstSets_terms hF X f hf t ht).1) hend
  obtain ⟨T, hT⟩ := mkTable_total terms N F W G hknown hN hfk (followSets_has_key hW)
  exact ⟨N, F, W, T, hN, hF, hW, hT⟩

section
#print axioms LL.sets_total
end

end LL
