import AkVerif.Lemmas.GhistFinal
import AkVerif.Lemmas.GhistOrder
/-! From the graph to the printed report: membership in the commit lists of a build. -/
namespace Ghist
open Ak

theorem mem_explicitCommits (rcs : List RC) (is : List Nat) (c : Nat) :
    c ∈ explicitCommits rcs is ↔ ∃ i ∈ is, ∃ rc, rcs[i]? = some rc ∧ rc.explicit = true ∧ rc.commit = c := by
  induction is with
  | nil => simp [explicitCommits]
  | cons i is ih =>
    simp only [explicitCommits]
    split
    · rename_i rc hrc
      rw [List.mem_append, ih]
      constructor
      · rintro (h1 | ⟨j, hj, rc', h2⟩)
        · split at h1
          · rename_i he
            simp at h1
            exact ⟨i, by simp, rc, hrc, he, h1.symm⟩
          · simp at h1
        · exact ⟨j, by simp [hj], rc', h2⟩
      · rintro ⟨j, hj, rc', h2, h3, h4⟩
        rcases List.mem_cons.mp hj with hj | hj
        · subst hj
          rw [hrc] at h2; cases h2
          left; simp [h3, h4]
        · right; exact ⟨j, hj, rc', h2, h3, h4⟩
    · rename_i hrc
      rw [ih]
      constructor
      · rintro ⟨j, hj, rc', h2⟩; exact ⟨j, by simp [hj], rc', h2⟩
      · rintro ⟨j, hj, rc', h2, h3, h4⟩
        rcases List.mem_cons.mp hj with hj | hj
        · subst hj; rw [hrc] at h2; cases h2
        · exact ⟨j, hj, rc', h2, h3, h4⟩

theorem explicitCommits_nodup (rcs : List RC)
    (hinj : ∀ (i j : Nat) (ri rj : RC), rcs[i]? = some ri → rcs[j]? = some rj → ri.commit = rj.commit → i = j)
    (is : List Nat) (hnd : is.Nodup) : (explicitCommits rcs is).Nodup := by
  induction is with
  | nil => simp [explicitCommits]
  | cons i is ih =>
    rw [List.nodup_cons] at hnd
    simp only [explicitCommits]
    split
    · rename_i rc hrc
      rw [List.nodup_append]
      refine ⟨by split <;> simp, ih hnd.2, ?_⟩
      intro a ha b hb hab
      subst hab
      split at ha
      · simp at ha; subst ha
        obtain ⟨j, hj, rc', h2, _, h4⟩ := (mem_explicitCommits rcs is _).mp hb
        have := hinj j i rc' rc h2 hrc h4
        subst this
        exact hnd.1 hj
      · simp at ha
    · exact ih hnd.2

theorem mem_descending (l : List Nat) (a : Nat) : a ∈ descending l ↔ a ∈ l := mem_sortBy _ l a

theorem descending_nodup (l : List Nat) (h : l.Nodup) : (descending l).Nodup :=
  (sortBy_perm _ l).nodup_iff.mpr h

theorem mem_repBuild_commits {β} (rcs : List RC) (b : RB β) (c : Nat) :
    c ∈ (repBuild rcs b).commits ↔
      ∃ i ∈ b.rcommits, ∃ rc, rcs[i]? = some rc ∧ rc.explicit = true ∧ rc.commit = c := by
  simp only [repBuild, mem_explicitCommits, mem_descending]

/-- every reported branch is the picture of a branch that was read -/
theorem report_branch {π β} {h : Hist π} {pl : Plug π β} {rep : List RepBranch} (hr : report h pl = .ok rep) :
    ∃ g, rgraph h pl = .ok g ∧ rep = g.branches.map (repBranch g.rcs) ∧
      g.branches = g.all.reverse.filter (fun rb => !rb.rbuilds.isEmpty) := by
  unfold report at hr
  split at hr
  · cases hr
  · rename_i g hg
    cases hr
    refine ⟨g, hg, rfl, ?_⟩
    unfold rgraph at hg
    split at hg
    · cases hg
    · cases hg; rfl

/-- builds at different positions of `get_rbuilds_list` that both have a build commit have different ids -/
theorem buildsList_distinct {β} {rb : RBranch β} (hf : BrFacts rb) (i j : Nat) (a b : RB β) (hij : i ≠ j)
    (ha : (buildsList rb)[i]? = some a) (hb : (buildsList rb)[j]? = some b)
    (hna : a.rcommit.isSome = true) (hnb : b.rcommit.isSome = true) : a.iid ≠ b.iid := by
  obtain ⟨cur, fakes, hsplit, hlen, hfk, hcur, hinc, _⟩ := hf.split
  let R : RB β → RB β → Prop := fun a b => a.rcommit.isSome = true → b.rcommit.isSome = true → a.iid ≠ b.iid
  have hsym : ∀ {x y : RB β}, R x y → R y x := fun hxy h1 h2 h3 => hxy h2 h1 h3.symm
  have hP0 : (cur ++ fakes).Pairwise R := by
    rw [List.pairwise_append]
    refine ⟨?_, ?_, ?_⟩
    · have := List.pairwise_map.mp hinc
      exact this.imp (fun hlt _ _ => by omega)
    · match fakes, hlen with
      | [], _ => simp
      | [f], _ => simp
    · intro x _ y hy _ h2
      rw [(hfk y hy).1] at h2; cases h2
  have hP : (buildsList rb).Pairwise R := by
    have hperm : (buildsList rb).Perm (cur ++ fakes) := by
      rw [← hsplit]; exact sortBy_perm _ _
    exact (List.Perm.pairwise_iff hsym hperm).mpr hP0
  obtain ⟨hi, hai⟩ := List.getElem?_eq_some_iff.mp ha
  obtain ⟨hj, hbj⟩ := List.getElem?_eq_some_iff.mp hb
  have hP' := List.pairwise_iff_getElem.mp hP
  rcases Nat.lt_or_gt_of_ne hij with hlt | hlt
  · have := hP' i j hi hj hlt
    rw [hai, hbj] at this
    exact this hna hnb
  · have := hP' j i hj hi hlt
    rw [hai, hbj] at this
    exact fun h => this hnb hna h.symm

theorem mem_buildsList {β} (rb : RBranch β) (b : RB β) : b ∈ buildsList rb ↔ b ∈ rb.rbuilds := mem_sortBy _ _ _

theorem BrFacts.nodup {β} {rb : RBranch β} (hf : BrFacts rb) (b : RB β) (hb : b ∈ rb.rbuilds) : b.rcommits.Nodup := by
  obtain ⟨cur, fakes, hsplit, _, hfk, hcur, _, _⟩ := hf.split
  rw [hsplit] at hb
  rcases List.mem_append.mp hb with hb | hb
  · exact (hcur b hb).2
  · exact (hfk b hb).2

theorem BrFacts.disj {β} {rb : RBranch β} (hf : BrFacts rb) (a b : RB β) (ha : a ∈ rb.rbuilds) (hb : b ∈ rb.rbuilds)
    (hna : a.rcommit.isSome = true) (hnb : b.rcommit.isSome = true) (hne : a.iid ≠ b.iid) :
    ∀ r ∈ a.rcommits, r ∉ b.rcommits := by
  obtain ⟨cur, fakes, hsplit, _, hfk, _, _, hd⟩ := hf.split
  rw [hsplit] at ha hb
  have ha' : a ∈ cur := by
    rcases List.mem_append.mp ha with h | h
    · exact h
    · rw [(hfk a h).1] at hna; cases hna
  have hb' : b ∈ cur := by
    rcases List.mem_append.mp hb with h | h
    · exact h
    · rw [(hfk b h).1] at hnb; cases hnb
  exact hd a ha' b hb' hne

theorem mem_repBranch_builds {β} (rcs : List RC) (rb : RBranch β) (bd : RepBuild) :
    bd ∈ (repBranch rcs rb).builds ↔ ∃ bd0 ∈ rb.rbuilds, bd = repBuild rcs bd0 := by
  simp only [repBranch, List.mem_map, mem_buildsList]
  constructor
  · rintro ⟨a, ha, rfl⟩; exact ⟨a, ha, rfl⟩
  · rintro ⟨a, ha, rfl⟩; exact ⟨a, ha, rfl⟩

theorem listed_iff_mem {β} (rcs : List RC) (b : RB β) (c : Nat) :
    c ∈ (repBuild rcs b).commits ↔ Listed rcs b c := mem_repBuild_commits rcs b c

/-- at most one build of a branch is a pseudo build -/
theorem buildsList_one_pseudo {β} {rb : RBranch β} (hf : BrFacts rb) (i j : Nat) (a b : RB β) (hij : i ≠ j)
    (ha : (buildsList rb)[i]? = some a) (hb : (buildsList rb)[j]? = some b)
    (hna : a.rcommit = none) (hnb : b.rcommit = none) : False := by
  obtain ⟨cur, fakes, hsplit, hlen, hfk, hcur, _, _⟩ := hf.split
  let R : RB β → RB β → Prop := fun a b => ¬ (a.rcommit = none ∧ b.rcommit = none)
  have hsym : ∀ {x y : RB β}, R x y → R y x := fun hxy h => hxy ⟨h.2, h.1⟩
  have hP0 : (cur ++ fakes).Pairwise R := by
    rw [List.pairwise_append]
    refine ⟨?_, ?_, ?_⟩
    · apply List.pairwise_of_forall_mem_list
      intro x hx y _ ⟨h1, _⟩
      have := (hcur x hx).1; rw [h1] at this; cases this
    · match fakes, hlen with
      | [], _ => simp
      | [f], _ => simp
    · intro x hx y _ ⟨h1, _⟩
      have := (hcur x hx).1; rw [h1] at this; cases this
  have hP : (buildsList rb).Pairwise R := by
    have hperm : (buildsList rb).Perm (cur ++ fakes) := by
      rw [← hsplit]; exact sortBy_perm _ _
    exact (List.Perm.pairwise_iff hsym hperm).mpr hP0
  obtain ⟨hi, hai⟩ := List.getElem?_eq_some_iff.mp ha
  obtain ⟨hj, hbj⟩ := List.getElem?_eq_some_iff.mp hb
  have hP' := List.pairwise_iff_getElem.mp hP
  rcases Nat.lt_or_gt_of_ne hij with hlt | hlt
  · have := hP' i j hi hj hlt
    rw [hai, hbj] at this
    exact this ⟨hna, hnb⟩
  · have := hP' j i hj hi hlt
    rw [hai, hbj] at this
    exact this ⟨hnb, hna⟩

end Ghist
