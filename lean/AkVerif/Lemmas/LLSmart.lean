import AkVerif.Lemmas.LLFact3
/-!
Smart undo of the factorisation (`smartUndo`, the `if smart_factorization:` block of
`_factorize_productions`), part 1 — generic tools:
* `ddel` and `dget` on dictionaries with duplicate-free keys,
* `gramRules` read through `dget`,
* two transport lemmas for `FlatD`: rewriting the rules of one key by inlining a helper symbol
  (`flatD_inline`), and deleting helper symbols that are no longer referenced (`flatD_remove`),
* what `undoRule` / `undoRules` compute (`UndoSpec`), renumbering keeps right-hand sides,
* one unfolding step of `undoLoop`.
-/
set_option linter.unusedSectionVars false
namespace LL
open Ak

/-! ### dictionaries with duplicate-free keys -/
section DictMore
variable {κ β : Type} [DecidableEq κ]

theorem mem_iff_dget {d : List (κ × β)} (hnd : (d.map (·.1)).Nodup) {k : κ} {v : β} :
    (k, v) ∈ d ↔ dget k d = some v := ⟨dget_of_mem_nodup hnd, dget_mem⟩

theorem keys_ddel_sublist (s : κ) : ∀ (d : List (κ × β)), ((ddel s d).map (·.1)).Sublist (d.map (·.1))
  | [] => by simp [ddel]
  | (k', v) :: rest => by
    unfold ddel
    split
    · simp
    · simp only [List.map_cons]
      exact (keys_ddel_sublist s rest).cons_cons _

theorem nodup_keys_ddel (s : κ) {d : List (κ × β)} (hnd : (d.map (·.1)).Nodup) :
    ((ddel s d).map (·.1)).Nodup := (keys_ddel_sublist s d).nodup hnd

theorem dget_ddel {s k : κ} : ∀ {d : List (κ × β)}, (d.map (·.1)).Nodup →
    dget k (ddel s d) = if s = k then none else dget k d
  | [], _ => by simp [ddel, dget]
  | (k', v) :: rest, hnd => by
    simp only [List.map_cons, List.nodup_cons] at hnd
    unfold ddel
    by_cases h1 : k' = s
    · simp only [h1, if_true]
      by_cases h2 : s = k
      · simp only [h2, if_true]
        rw [dget_none_iff]
        rw [← h2, ← h1]; exact hnd.1
      · have h3 : k' ≠ k := fun e => h2 (h1.symm.trans e)
        simp only [h2, if_false, dget]
    · simp only [h1, if_false]
      unfold dget
      by_cases h3 : k' = k
      · have : s ≠ k := fun e => h1 (h3.trans e.symm)
        simp [h3, this]
      · simp only [h3, if_false]
        exact dget_ddel hnd.2

theorem ddels_spec : ∀ (rm : List κ) {d : List (κ × β)}, (d.map (·.1)).Nodup →
    ((rm.foldl (fun d s => ddel s d) d).map (·.1)).Nodup ∧
    ∀ k, dget k (rm.foldl (fun d s => ddel s d) d) = if k ∈ rm then none else dget k d
  | [], d, hnd => ⟨hnd, fun k => by simp⟩
  | s :: rm, d, hnd => by
    obtain ⟨h1, h2⟩ := ddels_spec rm (nodup_keys_ddel s hnd)
    refine ⟨h1, fun k => ?_⟩
    simp only [List.foldl_cons]
    rw [h2 k, dget_ddel hnd]
    by_cases hk : k ∈ rm
    · simp [hk]
    · by_cases hs : s = k
      · simp [hs]
      · have : k ≠ s := fun e => hs e.symm
        simp [hk, hs, this]

theorem mem_foldl_sadd {a b : List κ} {y : κ} : y ∈ b.foldl sadd a ↔ y ∈ a ∨ y ∈ b :=
  mem_sunion (a := a) (b := b)

end DictMore

/-! ### list helpers -/

theorem getLast?_cons_of {α : Type} {a : α} {q : List α} {l : α} (h : q.getLast? = some l) :
    (a :: q).getLast? = some l := by
  cases q with
  | nil => simp at h
  | cons b q => simpa [List.getLast?_cons_cons] using h

theorem getLast?_cons_inv {α : Type} {a : α} {q : List α} {l : α} (h : (a :: q).getLast? = some l) :
    (q = [] ∧ l = a) ∨ q.getLast? = some l := by
  cases q with
  | nil => left; simp at h; exact ⟨rfl, h.symm⟩
  | cons b q => right; simpa [List.getLast?_cons_cons] using h

/-! ### `gramRules` through `dget` -/
section GramDget
variable {σ : Type} [DecidableEq σ]

theorem mem_gramRules_dget {G : Prods σ} (hnd : (G.map (·.1)).Nodup) {s : σ} {p : List σ} :
    p ∈ gramRules G s ↔ ∃ rules, dget s G = some rules ∧ ∃ r ∈ rules, r.rhs = p := by
  rw [mem_gramRules]
  constructor
  · rintro ⟨rules, hm, h⟩; exact ⟨rules, (mem_iff_dget hnd).1 hm, h⟩
  · rintro ⟨rules, hm, h⟩; exact ⟨rules, (mem_iff_dget hnd).2 hm, h⟩

theorem gramRules_congr_dget {G G' : Prods σ} (hnd : (G.map (·.1)).Nodup) (hnd' : (G'.map (·.1)).Nodup)
    {s : σ} (h : dget s G' = dget s G) : ∀ p, p ∈ gramRules G' s ↔ p ∈ gramRules G s := by
  intro p
  rw [mem_gramRules_dget hnd, mem_gramRules_dget hnd', h]

/-! ### transport of `FlatD` -/

/-- the rules of `s` are rewritten: a rule `[a, b]` (`b` a helper) may be replaced by `a :: q` for all
rules `q` of `b`; nothing else changes.  The flattened expansions stay the same. -/
theorem flatD_inline_fwd {d d' : Prods σ} {S : List σ} {s : σ}
    (hother : ∀ k, k ≠ s → ∀ p, p ∈ gramRules d' k ↔ p ∈ gramRules d k)
    (hA : ∀ p ∈ gramRules d' s, p ∈ gramRules d s ∨
      ∃ a b q, [a, b] ∈ gramRules d s ∧ a ∉ S ∧ b ∈ S ∧ q ∈ gramRules d b ∧ p = a :: q)
    {k : σ} {e : List σ} (h : FlatD d' S k e) : FlatD d S k e := by
  induction h with
  | @base k p hp hlast =>
    by_cases hk : k = s
    · rw [hk] at hp ⊢
      rcases hA p hp with h1 | ⟨a, b, q, hab, ha, hb, hq, heq⟩
      · exact FlatD.base h1 hlast
      · subst heq
        have hq' : FlatD d S b q := FlatD.base hq (fun l hl => hlast l (getLast?_cons_of hl))
        exact FlatD.step (pre := [a]) hab hb hq'
    · exact FlatD.base ((hother k hk p).1 hp) hlast
  | @step k pre s' e hp hs' _ ih =>
    by_cases hk : k = s
    · rw [hk] at hp ⊢
      rcases hA _ hp with h1 | ⟨a, b, q, hab, ha, hb, hq, heq⟩
      · exact FlatD.step h1 hs' ih
      · cases pre with
        | nil =>
          simp only [List.nil_append, List.cons.injEq] at heq
          obtain ⟨e1, _⟩ := heq
          subst e1
          exact absurd hs' ha
        | cons x pre2 =>
          simp only [List.cons_append, List.cons.injEq] at heq
          obtain ⟨e1, e2⟩ := heq
          subst e1
          subst e2
          have hb' : FlatD d S b (pre2 ++ e) := FlatD.step hq hs' ih
          exact FlatD.step (pre := [x]) hab hb hb'
    · exact FlatD.step ((hother k hk _).1 hp) hs' ih

theorem flatD_inline_bwd {d d' : Prods σ} {S : List σ} {s : σ}
    (hother : ∀ k, k ≠ s → ∀ p, p ∈ gramRules d' k ↔ p ∈ gramRules d k)
    (hB : ∀ p ∈ gramRules d s, p ∈ gramRules d' s ∨
      ∃ a b, p = [a, b] ∧ a ∉ S ∧ b ∈ S ∧ b ≠ s ∧ ∀ q ∈ gramRules d b, a :: q ∈ gramRules d' s)
    {k : σ} {e : List σ} (h : FlatD d S k e) : FlatD d' S k e := by
  induction h with
  | @base k p hp hlast =>
    by_cases hk : k = s
    · rw [hk] at hp ⊢
      rcases hB p hp with h1 | ⟨a, b, heq, ha, hb, hne, hall⟩
      · exact FlatD.base h1 hlast
      · subst heq
        exact absurd hb (hlast b (by simp))
    · exact FlatD.base ((hother k hk p).2 hp) hlast
  | @step k pre s' e hp hs' _ ih =>
    by_cases hk : k = s
    · rw [hk] at hp ⊢
      rcases hB _ hp with h1 | ⟨a, b, heq, ha, hb, hne, hall⟩
      · exact FlatD.step h1 hs' ih
      · have hpre : pre = [a] ∧ s' = b := by
          have := List.append_inj' (t₁ := [s']) (s₂ := [a]) (t₂ := [b]) (by simpa using heq) rfl
          exact ⟨this.1, by simpa using this.2⟩
        obtain ⟨e1, e2⟩ := hpre
        subst e1
        subst e2
        cases ih with
        | base hq hl =>
          have hq' := (hother _ hne _).1 hq
          refine FlatD.base (hall _ hq') ?_
          intro l hl'
          rcases getLast?_cons_inv hl' with ⟨_, e3⟩ | h3
          · rw [e3]; exact ha
          · exact hl l h3
        | step hq hs2 hfl2 =>
          have hq' := (hother _ hne _).1 hq
          rename_i pre2 s2 e2 _
          exact FlatD.step (pre := a :: pre2) (hall _ hq') hs2 hfl2
    · exact FlatD.step ((hother k hk _).2 hp) hs' ih

/-- helper symbols `rm` that no remaining rule ends in are deleted from the dictionary and from `S` -/
theorem flatD_remove {d G : Prods σ} {S0 S rm : List σ}
    (hS : ∀ x, x ∈ S ↔ x ∈ S0 ∧ x ∉ rm)
    (hG : ∀ k, k ∉ rm → ∀ p, p ∈ gramRules G k ↔ p ∈ gramRules d k)
    (hlast : ∀ k, k ∉ rm → ∀ p ∈ gramRules d k, ∀ l, p.getLast? = some l → l ∈ S0 → l ∉ rm) :
    ∀ k, k ∉ rm → ∀ e, FlatD G S k e ↔ FlatD d S0 k e := by
  intro k hk e
  constructor
  · intro h
    induction h with
    | @base k p hp hl =>
      have hp' := (hG k hk p).1 hp
      refine FlatD.base hp' (fun l hl' hlS => ?_)
      exact hl l hl' ((hS l).2 ⟨hlS, hlast k hk p hp' l hl' hlS⟩)
    | @step k pre s' e hp hs' _ ih =>
      have hp' := (hG k hk _).1 hp
      obtain ⟨h1, h2⟩ := (hS s').1 hs'
      exact FlatD.step hp' h1 (ih h2)
  · intro h
    induction h with
    | @base k p hp hl =>
      exact FlatD.base ((hG k hk p).2 hp) (fun l hl' hlS => hl l hl' ((hS l).1 hlS).1)
    | @step k pre s' e hp hs' _ ih =>
      have h2 : s' ∉ rm := hlast k hk _ hp s' (by simp) hs'
      exact FlatD.step ((hG k hk _).2 hp) ((hS s').2 ⟨hs', h2⟩) (ih h2)

end GramDget

/-! ### `undoRule`, `undoRules` -/

/-- the rule is inlined by the smart undo -/
def Inl (terms suffix : List Sym) (d : Prods Sym) (r : Rule Sym) : Prop :=
  ∃ a b sp, r.rhs = [a, b] ∧ a ∈ terms ∧ b ∈ suffix ∧ dget b d = some sp ∧ sp.length ≤ 5

theorem undoRule_spec {terms suffix : List Sym} {d : Prods Sym} {r : Rule Sym} {rs : List (Rule Sym)}
    {o : Option Sym} (h : undoRule terms suffix d r = .ok (rs, o)) :
    (rs = [r] ∧ o = none ∧ ¬ Inl terms suffix d r) ∨
    (∃ a b sp, r.rhs = [a, b] ∧ a ∈ terms ∧ b ∈ suffix ∧ dget b d = some sp ∧ sp.length ≤ 5 ∧
      rs = sp.map (fun sr => (⟨a :: sr.rhs, 0⟩ : Rule Sym)) ∧ o = some b) := by
  unfold undoRule at h
  split at h
  · rename_i a b hrhs
    split at h
    · rename_i hab
      cases hg : dget b d with
      | none => simp [dgetE, hg, bind, Except.bind] at h
      | some sp =>
        simp only [dgetE, hg, bind, Except.bind] at h
        split at h
        · rename_i hlen
          simp only [Except.ok.injEq, Prod.mk.injEq] at h
          left
          refine ⟨h.1.symm, h.2.symm, ?_⟩
          rintro ⟨a', b', sp', h1, _, _, h4, h5⟩
          rw [hrhs] at h1
          simp only [List.cons.injEq, and_true] at h1
          rw [← h1.2, hg] at h4
          cases h4
          omega
        · rename_i hlen
          simp only [Except.ok.injEq, Prod.mk.injEq] at h
          right
          exact ⟨a, b, sp, hrhs, hab.1, hab.2, hg, by omega, h.1.symm, h.2.symm⟩
    · rename_i hab
      simp only [Except.ok.injEq, Prod.mk.injEq] at h
      left
      refine ⟨h.1.symm, h.2.symm, ?_⟩
      rintro ⟨a', b', sp', h1, h2, h3, _, _⟩
      rw [hrhs] at h1
      simp only [List.cons.injEq, and_true] at h1
      exact hab ⟨h1.1 ▸ h2, h1.2 ▸ h3⟩
  · rename_i hno
    simp only [Except.ok.injEq, Prod.mk.injEq] at h
    left
    refine ⟨h.1.symm, h.2.symm, ?_⟩
    rintro ⟨a', b', sp', h1, _⟩
    exact hno a' b' h1

/-- what one run of `undoRules` over the rule list `rr` of a key produces -/
structure UndoSpec (terms suffix : List Sym) (d : Prods Sym) (rr new : List (Rule Sym)) (rm' : List Sym) :
    Prop where
  n1 : ∀ r' ∈ new, (r' ∈ rr ∧ ¬ Inl terms suffix d r') ∨
    ∃ r ∈ rr, ∃ a b sp sr, r.rhs = [a, b] ∧ a ∈ terms ∧ b ∈ suffix ∧ dget b d = some sp ∧ sr ∈ sp ∧
      r' = ⟨a :: sr.rhs, 0⟩
  n2 : ∀ r ∈ rr, r ∈ new ∨
    ∃ a b sp, r.rhs = [a, b] ∧ a ∈ terms ∧ b ∈ suffix ∧ dget b d = some sp ∧ b ∈ rm' ∧
      ∀ sr ∈ sp, (⟨a :: sr.rhs, 0⟩ : Rule Sym) ∈ new
  n3 : ∀ b ∈ rm', ∃ r ∈ rr, ∃ a sp, r.rhs = [a, b] ∧ a ∈ terms ∧ b ∈ suffix ∧ dget b d = some sp ∧
    sp.length ≤ 5
  n4 : rm' = [] → new = rr
  n5 : (∀ b ∈ suffix, ∀ sp, dget b d = some sp → 2 ≤ sp.length) →
    rr.length ≤ new.length ∧ (rm' ≠ [] → rr.length < new.length)

theorem undoRules_spec {terms suffix : List Sym} {d : Prods Sym} : ∀ {rr new : List (Rule Sym)} {rm' : List Sym},
    undoRules terms suffix d rr = .ok (new, rm') → UndoSpec terms suffix d rr new rm'
  | [], new, rm', h => by
    simp only [undoRules, Except.ok.injEq, Prod.mk.injEq] at h
    obtain ⟨e1, e2⟩ := h
    subst e1; subst e2
    exact { n1 := by simp, n2 := by simp, n3 := by simp, n4 := fun _ => rfl, n5 := fun _ => ⟨Nat.le_refl _, by simp⟩ }
  | r :: rest, new, rm', h => by
    simp only [undoRules] at h
    obtain ⟨⟨rs, o⟩, h1, h⟩ := Except.bind_ok h
    obtain ⟨⟨rs2, rm2⟩, h2, h⟩ := Except.bind_ok h
    simp only [Except.ok.injEq, Prod.mk.injEq] at h
    obtain ⟨e1, e2⟩ := h
    subst e1; subst e2
    have ih := undoRules_spec h2
    rcases undoRule_spec h1 with ⟨e1, e2, hni⟩ | ⟨a, b, sp, hrhs, ha, hb, hg, hlen, e1, e2⟩
    · subst e1; subst e2
      refine { n1 := ?_, n2 := ?_, n3 := ?_, n4 := ?_, n5 := ?_ }
      · intro r' hr'
        simp only [List.cons_append, List.nil_append, List.mem_cons] at hr'
        rcases hr' with hr' | hr'
        · subst hr'; exact Or.inl ⟨by simp, hni⟩
        · rcases ih.n1 r' hr' with ⟨h3, h4⟩ | ⟨r0, hr0, h3⟩
          · exact Or.inl ⟨by simp [h3], h4⟩
          · exact Or.inr ⟨r0, by simp [hr0], h3⟩
      · intro r0 hr0
        simp only [List.mem_cons] at hr0
        rcases hr0 with hr0 | hr0
        · subst hr0; exact Or.inl (by simp)
        · rcases ih.n2 r0 hr0 with h3 | ⟨a, b, sp, h3, h4, h5, h6, h7, h8⟩
          · exact Or.inl (by simp [h3])
          · exact Or.inr ⟨a, b, sp, h3, h4, h5, h6, by simpa using h7, fun sr hsr => by simp [h8 sr hsr]⟩
      · intro b hb
        simp only [List.nil_append] at hb
        obtain ⟨r0, hr0, h3⟩ := ih.n3 b hb
        exact ⟨r0, by simp [hr0], h3⟩
      · intro he
        simp only [List.nil_append] at he
        simp [ih.n4 he]
      · intro htwo
        obtain ⟨h3, h4⟩ := ih.n5 htwo
        simp only [List.nil_append, List.cons_append, List.length_cons]
        exact ⟨by omega, fun hne => by have := h4 hne; omega⟩
    · subst e1; subst e2
      refine { n1 := ?_, n2 := ?_, n3 := ?_, n4 := ?_, n5 := ?_ }
      · intro r' hr'
        simp only [List.mem_append, List.mem_map] at hr'
        rcases hr' with ⟨sr, hsr, hr'⟩ | hr'
        · exact Or.inr ⟨r, by simp, a, b, sp, sr, hrhs, ha, hb, hg, hsr, hr'.symm⟩
        · rcases ih.n1 r' hr' with ⟨h3, h4⟩ | ⟨r0, hr0, h3⟩
          · exact Or.inl ⟨by simp [h3], h4⟩
          · exact Or.inr ⟨r0, by simp [hr0], h3⟩
      · intro r0 hr0
        simp only [List.mem_cons] at hr0
        rcases hr0 with hr0 | hr0
        · subst hr0
          refine Or.inr ⟨a, b, sp, hrhs, ha, hb, hg, by simp, fun sr hsr => ?_⟩
          simp only [List.mem_append, List.mem_map]
          exact Or.inl ⟨sr, hsr, rfl⟩
        · rcases ih.n2 r0 hr0 with h3 | ⟨a', b', sp', h3, h4, h5, h6, h7, h8⟩
          · exact Or.inl (by simp [h3])
          · exact Or.inr ⟨a', b', sp', h3, h4, h5, h6, by simp [h7],
              fun sr hsr => by simp only [List.mem_append]; exact Or.inr (h8 sr hsr)⟩
      · intro b' hb'
        simp only [List.cons_append, List.nil_append, List.mem_cons] at hb'
        rcases hb' with hb' | hb'
        · subst hb'; exact ⟨r, by simp, a, sp, hrhs, ha, hb, hg, hlen⟩
        · obtain ⟨r0, hr0, h3⟩ := ih.n3 b' hb'
          exact ⟨r0, by simp [hr0], h3⟩
      · intro he
        simp at he
      · intro htwo
        obtain ⟨h3, _⟩ := ih.n5 htwo
        have := htwo b hb sp hg
        simp only [List.length_append, List.length_map, List.length_cons]
        exact ⟨by omega, fun _ => by omega⟩

/-! ### renumbering and one step of the loop -/

/-- `rr[:] = new_rr` with fresh `sort_n` -/
def renum (new : List (Rule Sym)) : List (Rule Sym) :=
  (numberFrom 0 new).map fun (i, r) => (⟨r.rhs, i⟩ : Rule Sym)

theorem renum_rhs_aux : ∀ (k : Nat) (new : List (Rule Sym)),
    ((numberFrom k new).map fun (i, r) => (⟨r.rhs, i⟩ : Rule Sym)).map (·.rhs) = new.map (·.rhs)
  | _, [] => rfl
  | k, r :: rs => by simp [numberFrom, renum_rhs_aux (k + 1) rs]

theorem renum_rhs (new : List (Rule Sym)) : (renum new).map (·.rhs) = new.map (·.rhs) := renum_rhs_aux 0 new

theorem undoLoop_nil {terms suffix : List Sym} {d : Prods Sym} {rm : List Sym} {out : Prods Sym × List Sym}
    (h : undoLoop terms suffix [] d rm = .ok out) : out = (d, rm) := by
  simp only [undoLoop, Except.ok.injEq] at h
  exact h.symm

theorem undoLoop_cons {terms suffix : List Sym} {s : Sym} {rest : List Sym} {d : Prods Sym} {rm : List Sym}
    {out : Prods Sym × List Sym} (h : undoLoop terms suffix (s :: rest) d rm = .ok out) :
    ∃ rr new rm', dget s d = some rr ∧ undoRules terms suffix d rr = .ok (new, rm') ∧
      undoLoop terms suffix rest (if new.length ≠ rr.length then dset s (renum new) d else d)
        (rm'.foldl sadd rm) = .ok out := by
  simp only [undoLoop] at h
  obtain ⟨rr, h1, h⟩ := Except.bind_ok h
  obtain ⟨⟨new, rm'⟩, h2, h⟩ := Except.bind_ok h
  refine ⟨rr, new, rm', ?_, h2, h⟩
  unfold dgetE at h1
  cases hg : dget s d with
  | none => simp [hg] at h1
  | some v => simp only [hg, Except.ok.injEq] at h1; rw [h1]

theorem suf_parent_inj {k k' : Sym} {g g' : Nat} (h : k.suf g = k'.suf g') : k = k' := by
  cases k; cases k'
  simp only [Sym.suf, Sym.mk.injEq] at h
  obtain ⟨hb, hp⟩ := h
  have := List.append_inj' hp rfl
  simp [hb, this.1]

theorem suf_ne_self (s : Sym) (g : Nat) : s.suf g ≠ s := by
  intro e
  have := nameLen_suf s g
  rw [e] at this
  omega

end LL
