import AkVerif.Lemmas.TemplatesConform
/-!
Lengths: the clean-up of a list / map returns one entry per item / pair of the derivation whatever the length, and there is
a conforming derivation of every length (so the statements about "every conforming tree" are not vacuous for long lists).
The model walks the tail chain by structural recursion: no fuel, no bound on the length.
-/
namespace Templates
open Ak

theorem cleanItems_length (cl : Cleanuper) : ∀ (is : List Val) (es : List El),
    cleanItems cl is = .ok es → es.length = is.length
  | [], es, h => by
    simp only [cleanItems] at h
    cases h; rfl
  | i :: is, es, h => by
    simp only [cleanItems] at h
    cases hi : cleanItem cl i with
    | error e => simp [hi] at h
    | ok e =>
      simp only [hi] at h
      cases hr : cleanItems cl is with
      | error e' => simp [hr] at h
      | ok es' =>
        simp only [hr] at h
        cases h
        simp [cleanItems_length cl is es' hr]

theorem cleanPairs_length (cl : Cleanuper) : ∀ (ps : List (Val × Val)) (kvs : List (Val × Val)),
    cleanPairs cl ps = .ok kvs → kvs.length = ps.length
  | [], kvs, h => by
    simp only [cleanPairs] at h
    cases h; rfl
  | (k, w) :: ps, kvs, h => by
    simp only [cleanPairs] at h
    cases hi : cleanPair cl k w with
    | error e => simp [hi] at h
    | ok e =>
      simp only [hi] at h
      cases hr : cleanPairs cl ps with
      | error e' => simp [hr] at h
      | ok es' =>
        simp only [hr] at h
        cases h
        simp [cleanPairs_length cl ps es' hr]

theorem lastIsNone_ne_nil : ∀ (vs : List Val), lastIsNone vs = true → vs ≠ []
  | [], h => by simp [lastIsNone] at h
  | _ :: _, _ => by simp

/-- `adjust` keeps the length or (the two documented cases: the last entry is `None`) drops exactly that last entry -/
theorem adjust_length (o : ListOpts) (vs : List Val) :
    (adjust o vs).length = vs.length ∨ ((adjust o vs).length + 1 = vs.length ∧ lastIsNone vs = true) := by
  unfold adjust
  split
  · rename_i h
    have h1 : lastIsNone vs = true := by
      cases hl : lastIsNone vs <;> simp [hl] at h ⊢
    right
    refine ⟨?_, h1⟩
    have := lastIsNone_ne_nil vs h1
    rw [List.length_dropLast]
    have : 0 < vs.length := List.length_pos_iff.2 this
    omega
  · split
    · right
      simp [lastIsNone, Val.isNone]
    · left; rfl

theorem pySet_length_le : ∀ (d : List (Val × Val)) (k v : Val), (pySet d k v).length ≤ d.length + 1
  | [], _, _ => by simp [pySet]
  | (k', v') :: rest, k, v => by
    simp only [pySet]
    split
    · simp
    · have := pySet_length_le rest k v
      simp only [List.length_cons]
      omega

theorem foldl_pySet_length_le : ∀ (ps d : List (Val × Val)),
    (ps.foldl (fun d p => pySet d p.1 p.2) d).length ≤ d.length + ps.length
  | [], d => by simp
  | p :: ps, d => by
    simp only [List.foldl_cons, List.length_cons]
    have h1 := foldl_pySet_length_le ps (pySet d p.1 p.2)
    have h2 := pySet_length_le d p.1 p.2
    omega

/-- a dict never has more entries than pairs were written -/
theorem pyDict_length_le (kvs d : List (Val × Val)) (h : pyDict kvs = .ok d) : d.length ≤ kvs.length := by
  unfold pyDict at h
  split at h
  · cases h
    have := foldl_pySet_length_le kvs []
    simpa using this
  · cases h

/-- the cleaned list has one entry per item of the derivation (one less exactly in the two documented `None` cases) -/
theorem list_length (cl : Cleanuper) (o : ListOpts) (wf : o.WF)
    (hT : lookup cl.templates o.result = some (.list o)) {t : Val} {items : List Val} {fin : Bool}
    (hs : ListShape o t (some (items, fin))) (fc fch : Bool) (res : El × Bool)
    (hres : cleanup cl t fc fch = .ok res) :
    ∃ es, cleanItems cl items = .ok es ∧ es.length = items.length ∧
      res = ((o.result, true, .list (adjust o (es.map entry))), fch) ∧
      ((adjust o (es.map entry)).length = items.length ∨
        ((adjust o (es.map entry)).length + 1 = items.length ∧ lastIsNone (es.map entry) = true)) := by
  rw [cleanup_list cl o wf hT hs fc fch] at hres
  simp only [listResult] at hres
  cases hc : cleanItems cl items with
  | error e => simp [hc] at hres
  | ok es =>
    simp only [hc] at hres
    have hl := cleanItems_length cl items es hc
    refine ⟨es, rfl, hl, ?_, ?_⟩
    · cases hres; rfl
    · have := adjust_length o (es.map entry)
      simpa [hl] using this

/-- the cleaned map comes from one cleaned (key, value) pair per pair of the derivation; the dict has at most that many
entries (`dict_key_order`: exactly the distinct keys) -/
theorem map_length (cl : Cleanuper) (o : MapOpts) (wf : o.WF)
    (hT : lookup cl.templates o.result = some (.map o)) {t : Val} {pairs : List (Val × Val)} {fin : Bool}
    (hs : MapShape o t (some (pairs, fin))) (fc fch : Bool) (res : El × Bool)
    (hres : cleanup cl t fc fch = .ok res) :
    ∃ kvs d, cleanPairs cl pairs = .ok kvs ∧ kvs.length = pairs.length ∧ pyDict kvs = .ok d ∧
      res = ((o.result, true, .dict d), fch) ∧ d.length ≤ pairs.length := by
  rw [cleanup_map cl o wf hT hs fc fch] at hres
  simp only [mapResult] at hres
  cases hc : cleanPairs cl pairs with
  | error e => simp [hc] at hres
  | ok kvs =>
    simp only [hc] at hres
    cases hd : pyDict kvs with
    | error e => simp [hd] at hres
    | ok d =>
      simp only [hd] at hres
      have hl := cleanPairs_length cl pairs kvs hc
      refine ⟨kvs, d, rfl, hl, hd, ?_, ?_⟩
      · cases hres; rfl
      · have := pyDict_length_le kvs d hd
        omega

/-! ### a conforming list derivation of every length: `[a, a, …, a]` for `ListProds('[', 'ITEM', ',', ']')` -/

def lenOpts : ListOpts :=
  ⟨some "[".toList, "ITEM".toList, some ",".toList, some "]".toList, true, false, "LIST".toList⟩

def lenCl : Cleanuper :=
  { templates := [("LIST".toList, .list lenOpts)], choice := [], keep := [], squash := ["ITEM".toList] }

def lenItem : Val := .elem "ITEM".toList false (.list [.elem "WORD".toList true (.str "a".toList)])
def lenComma : Val := .elem ",".toList true (.str ",".toList)

/-- the tail chain `, a , a … , a` with `n` items -/
def lenTail : Nat → Val
  | 0 => .elem lenOpts.tailSym true .none
  | n + 1 => .elem lenOpts.tailSym false (.list [lenComma, lenItem, lenTail n])

/-- the raw tree of `[a, a, …, a]` with `n + 1` items -/
def lenTree (n : Nat) : Val :=
  .elem "LIST".toList false (.list [.elem "[".toList true (.str "[".toList), lenItem, lenTail n,
    .elem "]".toList true (.str "]".toList)])

theorem lenOpts_wf : lenOpts.WF := by constructor <;> decide

theorem lenTail_shape : ∀ n, TailShape lenOpts (lenTail n) (List.replicate n lenItem) false
  | 0 => TailShape.nil
  | n + 1 => by
    have := TailShape.consSome (o := lenOpts) ",".toList true (.str ",".toList) false
      (.list [.elem "WORD".toList true (.str "a".toList)]) (lenTail n) (List.replicate n lenItem) false rfl
      (lenTail_shape n)
    exact this

theorem lenTree_shape (n : Nat) :
    ListShape lenOpts (lenTree n) (some (List.replicate (n + 1) lenItem, false)) :=
  ListShape.br (o := lenOpts) "[".toList "]".toList true (.str "[".toList) true (.str "]".toList) false
    (.list [.elem "WORD".toList true (.str "a".toList)]) (lenTail n) (List.replicate n lenItem) false rfl rfl
    (lenTail_shape n)

theorem conforms_inner (P : Prods) (name : Name) (rules : List (List Name)) (xs : List Val) (ns : List Name)
    (hl : lookup P name = some rules) (hcn : childNames xs = .ok ns) (hne : xs ≠ []) (hm : ns ∈ rules)
    (hall : conformsAll P xs = true) : conforms P (.elem name false (.list xs)) = true := by
  cases xs with
  | nil => exact absurd rfl hne
  | cons x xs => simp [conforms, hl, hcn, hm, hall]

theorem lenTail_elem (n : Nat) : ∃ l v, lenTail n = .elem lenOpts.tailSym l v := by
  cases n <;> exact ⟨_, _, rfl⟩

theorem lenTail_conforms : ∀ n, conforms lenOpts.genProds (lenTail n) = true
  | 0 => by decide
  | n + 1 => by
    have ih := lenTail_conforms n
    obtain ⟨l, v, hv⟩ := lenTail_elem n
    refine conforms_inner _ _ _ _ [",".toList, "ITEM".toList, lenOpts.tailSym]
      (lookup_genProds_tail lenOpts lenOpts_wf) (by rw [hv]; rfl) (by simp) (by decide) ?_
    have hi : conforms lenOpts.genProds lenItem = true := by decide
    have hc : conforms lenOpts.genProds lenComma = true := by decide
    simp only [conformsAll, hi, hc, ih, Bool.and_self]

theorem lenTree_conforms (n : Nat) : conforms lenOpts.genProds (lenTree n) = true := by
  have ih := lenTail_conforms n
  obtain ⟨l, v, hv⟩ := lenTail_elem n
  refine conforms_inner _ _ _ _ ["[".toList, "ITEM".toList, lenOpts.tailSym, "]".toList]
    (lookup_genProds_result lenOpts lenOpts_wf) (by rw [hv]; rfl) (by simp) (by decide) ?_
  have hi : conforms lenOpts.genProds lenItem = true := by decide
  have ho : conforms lenOpts.genProds (.elem "[".toList true (.str "[".toList)) = true := by decide
  have hcl : conforms lenOpts.genProds (.elem "]".toList true (.str "]".toList)) = true := by decide
  simp only [conformsAll, hi, ho, hcl, ih, Bool.and_self]

def lenEntry : El := ("WORD".toList, true, .str "a".toList)

theorem lenItems_clean : ∀ n, cleanItems lenCl (List.replicate n lenItem) = .ok (List.replicate n lenEntry)
  | 0 => rfl
  | n + 1 => by
    have h1 : cleanItem lenCl lenItem = .ok lenEntry := by rfl
    simp only [List.replicate_succ, cleanItems, h1, lenItems_clean n]

theorem lastIsNone_replicate_str (s : List Char) : ∀ n, lastIsNone (List.replicate n (Val.str s)) = false
  | 0 => rfl
  | 1 => rfl
  | n + 2 => by
    rw [List.replicate_succ, List.replicate_succ]
    simp only [lastIsNone]
    rw [← List.replicate_succ]
    exact lastIsNone_replicate_str s (n + 1)

/-- the clean-up of `[a, a, …, a]` (`n + 1` items) is the list of `n + 1` strings `'a'` -/
theorem lenTree_clean (n : Nat) (fc fch : Bool) :
    cleanup lenCl (lenTree n) fc fch =
      .ok (("LIST".toList, true, .list (List.replicate (n + 1) (.str "a".toList))), fch) := by
  rw [cleanup_list lenCl lenOpts lenOpts_wf rfl (lenTree_shape n) fc fch]
  simp only [listResult, lenItems_clean (n + 1)]
  have he : (List.replicate (n + 1) lenEntry).map entry = List.replicate (n + 1) (.str "a".toList) := by
    simp [List.map_replicate, entry, lenEntry]
  rw [he]
  have ha : adjust lenOpts (List.replicate (n + 1) (Val.str "a".toList)) = List.replicate (n + 1) (.str "a".toList) := by
    unfold adjust
    simp [lastIsNone_replicate_str, lenOpts]
  rw [ha]
  rfl

end Templates
