import AkVerif.Model.Templates
/-!
Lemmas about the template model (C05): reserved names, Python dictionaries, the shapes of the raw trees of
lists and maps (`TailShape`, `ListShape`, `KvShape`, `KvTailShape`, `MapShape` — one constructor per generated
production) and the fact that the signature-table walk of `transform_t_elem` visits exactly the items of the shape.
-/
namespace Templates
open Ak

/-! ### names -/

/-- the name contains two consecutive underscores (reserved for generated symbols) -/
def hasDU : Name → Bool
  | [] => false
  | [_] => false
  | a :: b :: r => (a == '_' && b == '_') || hasDU (b :: r)

theorem hasDU_append_right (a b : Name) (h : hasDU b = true) : hasDU (a ++ b) = true := by
  induction a with
  | nil => simpa using h
  | cons x a ih =>
    cases hab : a ++ b with
    | nil => rw [hab] at ih; simp [hasDU] at ih
    | cons y r =>
      rw [hab] at ih
      simp [hasDU, hab, ih]

theorem ne_of_hasDU {a b : Name} (ha : hasDU a = true) (hb : hasDU b = false) : a ≠ b := by
  intro h; rw [h, hb] at ha; cases ha

theorem append_ne_self (a s : Name) (h : s ≠ []) : a ++ s ≠ a := by
  intro e
  have := congrArg List.length e
  simp at this
  exact h this

/-! ### dictionaries -/

theorem lookup_dictSet {α β} [DecidableEq α] (d : List (α × β)) (k : α) (v : β) (k' : α) :
    lookup (dictSet d k v) k' = if k = k' then some v else lookup d k' := by
  induction d with
  | nil => simp [dictSet, lookup]
  | cons p d ih =>
    obtain ⟨a, b⟩ := p
    simp only [dictSet]
    by_cases h : a = k
    · subst h; simp [lookup]; split <;> simp_all
    · simp [h, lookup, ih]
      by_cases h2 : a = k'
      · subst h2; simp [h]; intro h3; exact absurd h3.symm h
      · simp [h2]


/-! ### lists -/

structure ListOpts.WF (o : ListOpts) : Prop where
  br : o.openBr.isSome = o.closeBr.isSome
  item_open : o.openBr ≠ some o.item
  item_close : o.closeBr ≠ some o.item
  item_delim : o.delim ≠ some o.item
  item_tail : o.item ≠ o.tailSym
  tail_open : o.openBr ≠ some o.tailSym
  tail_close : o.closeBr ≠ some o.tailSym
  tail_delim : o.delim ≠ some o.tailSym
  afd : o.afd = true → o.delim.isSome = true ∧ o.openBr.isSome = true
  opt : o.optional = true → o.openBr.isSome = true

theorem tailSuffix_ne_nil : tailSuffix ≠ [] := by decide

macro "list_cases" o:ident wf:ident : tactic => `(tactic| (
  obtain ⟨h_br, h_io, h_ic, h_id, h_it, h_to, h_tc, h_td, h_afd, h_opt⟩ := $wf
  obtain ⟨ob, item, dl, cb, afd, opt, res⟩ := $o
  cases ob <;> cases cb <;> cases dl <;> cases afd <;> cases opt <;>
    simp_all [ListOpts.tailSym, tailSuffix_ne_nil]))

macro "sig_simp" : tactic => `(tactic|
  simp_all [tailPositions, listPositions, positions, signature, childNames, ListOpts.tailSigs, ListOpts.listSigs,
    ListOpts.tailProdsRaw, ListOpts.listProdsRaw, dictOf, dictSet, lookup, ListOpts.mkSig, purge, indexOf?,
    ListOpts.tailSym, tailSuffix_ne_nil])

theorem tailPos_nil (o : ListOpts) (wf : o.WF) :
    tailPositions o o.tailSym true .none = .ok (none, none) := by
  list_cases o wf <;> sig_simp

theorem tailPos_fin (o : ListOpts) (wf : o.WF) (h : o.afd = true) (d : Name) (hd : o.delim = some d)
    (l : Bool) (v : Val) :
    tailPositions o o.tailSym false (.list [.elem d l v]) = .ok (none, none) := by
  list_cases o wf <;> sig_simp

theorem tailPos_cons_none (o : ListOpts) (wf : o.WF) (hd : o.delim = none) (il : Bool) (iv : Val)
    (tl : Bool) (tv : Val) :
    tailPositions o o.tailSym false (.list [.elem o.item il iv, .elem o.tailSym tl tv]) =
      .ok (some 0, some 1) := by
  list_cases o wf <;> sig_simp

theorem tailPos_cons_some (o : ListOpts) (wf : o.WF) (d : Name) (hd : o.delim = some d) (dl : Bool) (dv : Val)
    (il : Bool) (iv : Val) (tl : Bool) (tv : Val) :
    tailPositions o o.tailSym false (.list [.elem d dl dv, .elem o.item il iv, .elem o.tailSym tl tv]) =
      .ok (some 1, some 2) := by
  list_cases o wf <;> sig_simp

/-- cleaning of one container item: `cleanuper._cleanup(item, for_container=True)` -/
def cleanItem (cl : Cleanuper) (i : Val) : Except Err El :=
  match cleanup cl i true false with
  | .ok r => .ok r.1
  | .error e => .error e

def cleanItems (cl : Cleanuper) : List Val → Except Err (List El)
  | [] => .ok []
  | i :: is =>
    match cleanItem cl i with
    | .error e => .error e
    | .ok e =>
      match cleanItems cl is with
      | .error e => .error e
      | .ok es => .ok (e :: es)

inductive TailShape (o : ListOpts) : Val → List Val → Bool → Prop
  | nil : TailShape o (.elem o.tailSym true .none) [] false
  | fin (d : Name) (l : Bool) (v : Val) : o.afd = true → o.delim = some d →
      TailShape o (.elem o.tailSym false (.list [.elem d l v])) [] true
  | consNone (il : Bool) (iv : Val) (tl : Val) (is : List Val) (f : Bool) : o.delim = none →
      TailShape o tl is f →
      TailShape o (.elem o.tailSym false (.list [.elem o.item il iv, tl])) (.elem o.item il iv :: is) f
  | consSome (d : Name) (dl : Bool) (dv : Val) (il : Bool) (iv : Val) (tl : Val) (is : List Val) (f : Bool) :
      o.delim = some d → TailShape o tl is f →
      TailShape o (.elem o.tailSym false (.list [.elem d dl dv, .elem o.item il iv, tl]))
        (.elem o.item il iv :: is) f

theorem TailShape.isElem {o : ListOpts} {t : Val} {is : List Val} {f : Bool} (h : TailShape o t is f) :
    ∃ l v, t = .elem o.tailSym l v := by
  cases h <;> exact ⟨_, _, rfl⟩

theorem itemAt_zero (cl : Cleanuper) (x : Val) (xs : List Val) :
    itemAt cl (x :: xs) 0 = cleanItem cl x := by
  simp only [itemAt, cleanItem, bind, Except.bind, pure, Except.pure]
  cases cleanup cl x true false <;> rfl

theorem itemAt_succ (cl : Cleanuper) (x : Val) (xs : List Val) (n : Nat) :
    itemAt cl (x :: xs) (n + 1) = itemAt cl xs n := by
  simp only [itemAt]

theorem tailAt_zero (cl : Cleanuper) (o : ListOpts) (x : Val) (xs : List Val) :
    tailAt cl o (x :: xs) 0 = parseTail cl o x := by
  simp only [tailAt]

theorem tailAt_succ (cl : Cleanuper) (o : ListOpts) (x : Val) (xs : List Val) (n : Nat) :
    tailAt cl o (x :: xs) (n + 1) = tailAt cl o xs n := by
  simp only [tailAt]

theorem parseTail_list_eq (cl : Cleanuper) (o : ListOpts) (name : Name) (leaf : Bool) (xs : List Val) (p q : Nat)
    (h : tailPositions o name leaf (.list xs) = .ok (some p, some q)) :
    parseTail cl o (.elem name leaf (.list xs)) =
      match itemAt cl xs p with
      | .error e => .error e
      | .ok i =>
        match tailAt cl o xs q with
        | .error e => .error e
        | .ok r => .ok (i :: r) := by
  rw [parseTail]
  simp only [h, bind, Except.bind, pure, Except.pure]
  cases itemAt cl xs p <;> simp
  cases tailAt cl o xs q <;> simp

theorem parseTail_shape (cl : Cleanuper) (o : ListOpts) (wf : o.WF) {t : Val} {is : List Val} {f : Bool}
    (h : TailShape o t is f) : parseTail cl o t = cleanItems cl is := by
  induction h with
  | nil =>
    simp [parseTail, tailPos_nil o wf, cleanItems]
  | fin d l v ha hd =>
    simp [parseTail, tailPos_fin o wf ha d hd, cleanItems, bind, Except.bind, pure, Except.pure]
  | consNone il iv tl is f hd ht ih =>
    obtain ⟨l, v, rfl⟩ := ht.isElem
    rw [parseTail_list_eq cl o _ _ _ 0 1 (tailPos_cons_none o wf hd il iv l v)]
    simp only [itemAt_zero, tailAt_succ, tailAt_zero, ih, cleanItems]
  | consSome d dl dv il iv tl is f hd ht ih =>
    obtain ⟨l, v, rfl⟩ := ht.isElem
    rw [parseTail_list_eq cl o _ _ _ 1 2 (tailPos_cons_some o wf d hd dl dv il iv l v)]
    simp only [itemAt_zero, itemAt_succ, tailAt_succ, tailAt_zero, ih, cleanItems]

/-- the raw tree of a list: `none` = absent optional list, `some (items, final_delimiter_present)` -/
inductive ListShape (o : ListOpts) : Val → Option (List Val × Bool) → Prop
  | absent : o.optional = true → ListShape o (.elem o.result true .none) none
  | emptyNoBr : o.openBr = none → ListShape o (.elem o.result true .none) (some ([], false))
  | noBr (il : Bool) (iv : Val) (tl : Val) (is : List Val) (f : Bool) : o.openBr = none → TailShape o tl is f →
      ListShape o (.elem o.result false (.list [.elem o.item il iv, tl])) (some (.elem o.item il iv :: is, f))
  | emptyBr (ob cb : Name) (ol : Bool) (ov : Val) (cl' : Bool) (cv : Val) : o.openBr = some ob → o.closeBr = some cb →
      ListShape o (.elem o.result false (.list [.elem ob ol ov, .elem cb cl' cv])) (some ([], false))
  | br (ob cb : Name) (ol : Bool) (ov : Val) (cl' : Bool) (cv : Val) (il : Bool) (iv : Val) (tl : Val)
      (is : List Val) (f : Bool) : o.openBr = some ob → o.closeBr = some cb → TailShape o tl is f →
      ListShape o (.elem o.result false (.list [.elem ob ol ov, .elem o.item il iv, tl, .elem cb cl' cv]))
        (some (.elem o.item il iv :: is, f))

theorem listPos_absent (o : ListOpts) (wf : o.WF) (h : o.optional = true) :
    listPositions o o.result true .none = .ok (none, none) := by
  list_cases o wf <;> sig_simp

theorem listPos_emptyNoBr (o : ListOpts) (wf : o.WF) (h : o.openBr = none) :
    listPositions o o.result true .none = .ok (none, none) := by
  list_cases o wf <;> sig_simp

theorem listPos_noBr (o : ListOpts) (wf : o.WF) (h : o.openBr = none) (il : Bool) (iv : Val) (tl : Bool) (tv : Val) :
    listPositions o o.result false (.list [.elem o.item il iv, .elem o.tailSym tl tv]) = .ok (some 0, some 1) := by
  list_cases o wf <;> sig_simp

theorem listPos_emptyBr (o : ListOpts) (wf : o.WF) (ob cb : Name) (h : o.openBr = some ob) (h' : o.closeBr = some cb)
    (ol : Bool) (ov : Val) (cl' : Bool) (cv : Val) :
    listPositions o o.result false (.list [.elem ob ol ov, .elem cb cl' cv]) = .ok (none, none) := by
  list_cases o wf <;> sig_simp

theorem listPos_br (o : ListOpts) (wf : o.WF) (ob cb : Name) (h : o.openBr = some ob) (h' : o.closeBr = some cb)
    (ol : Bool) (ov : Val) (cl' : Bool) (cv : Val) (il : Bool) (iv : Val) (tl : Bool) (tv : Val) :
    listPositions o o.result false
      (.list [.elem ob ol ov, .elem o.item il iv, .elem o.tailSym tl tv, .elem cb cl' cv]) = .ok (some 1, some 2) := by
  list_cases o wf <;> sig_simp

/-- the value `ListProds.transform_t_elem` must produce for the given items -/
def listResult (cl : Cleanuper) (o : ListOpts) (is : List Val) : Except Err El :=
  match cleanItems cl is with
  | .ok es => .ok (o.result, true, .list (adjust o (es.map entry)))
  | .error e => .error e

theorem transformList_shape (cl : Cleanuper) (o : ListOpts) (wf : o.WF) {leaf : Bool} {v : Val}
    {r : Option (List Val × Bool)} (h : ListShape o (.elem o.result leaf v) r) :
    transformList cl o o.result leaf v =
      match r with
      | none => .ok (o.result, true, .none)
      | some (is, _) => listResult cl o is := by
  cases h with
  | absent ho =>
    simp [transformList, listPos_absent o wf ho, ho, Val.isNone]
  | emptyNoBr hb =>
    have : o.optional = false := by
      cases hopt : o.optional
      · rfl
      · have := wf.opt hopt; simp [hb] at this
    simp [transformList, listPos_emptyNoBr o wf hb, this, listResult, cleanItems]
  | noBr il iv tl is f hb ht =>
    obtain ⟨l, tv, rfl⟩ := ht.isElem
    rw [transformList]
    simp only [listPos_noBr o wf hb, itemAt_zero, tailAt_succ, tailAt_zero, parseTail_shape cl o wf ht, listResult,
      cleanItems, bind, Except.bind, pure, Except.pure]
    cases cleanItem cl (.elem o.item il iv) <;> simp
    cases cleanItems cl is <;> simp
  | emptyBr ob cb ol ov cl' cv hb hc =>
    rw [transformList]
    simp [listPos_emptyBr o wf ob cb hb hc, listResult, cleanItems, bind, Except.bind, pure, Except.pure]
  | br ob cb ol ov cl' cv il iv tl is f hb hc ht =>
    obtain ⟨l, tv, rfl⟩ := ht.isElem
    rw [transformList]
    simp only [listPos_br o wf ob cb hb hc, itemAt_zero, itemAt_succ, tailAt_succ, tailAt_zero,
      parseTail_shape cl o wf ht, listResult, cleanItems, bind, Except.bind, pure, Except.pure]
    cases cleanItem cl (.elem o.item il iv) <;> simp
    cases cleanItems cl is <;> simp

theorem ListShape.isElem {o : ListOpts} {t : Val} {r : Option (List Val × Bool)} (h : ListShape o t r) :
    ∃ l v, t = .elem o.result l v := by
  cases h <;> exact ⟨_, _, rfl⟩

theorem cleanup_of_list_template (cl : Cleanuper) (o : ListOpts) (name : Name) (leaf : Bool) (v : Val) (fc fch : Bool)
    (hT : lookup cl.templates name = some (.list o)) :
    cleanup cl (.elem name leaf v) fc fch =
      match transformList cl o name leaf v with
      | .ok e => .ok (e, fch)
      | .error e => .error e := by
  cases v <;> simp only [cleanup, hT, bind, Except.bind, pure, Except.pure] <;>
    (split <;> simp_all)

theorem cleanup_list (cl : Cleanuper) (o : ListOpts) (wf : o.WF)
    (hT : lookup cl.templates o.result = some (.list o)) {t : Val} {r : Option (List Val × Bool)}
    (h : ListShape o t r) (fc fch : Bool) :
    cleanup cl t fc fch =
      match r with
      | none => .ok ((o.result, true, .none), fch)
      | some (is, _) =>
        match listResult cl o is with
        | .ok e => .ok (e, fch)
        | .error e => .error e := by
  obtain ⟨l, v, rfl⟩ := h.isElem
  rw [cleanup_of_list_template cl o _ _ _ _ _ hT, transformList_shape cl o wf h]
  cases r with
  | none => rfl
  | some p => rfl

/-! ### maps -/

structure MapOpts.WF (o : MapOpts) : Prop where
  br : o.openBr.isSome = o.closeBr.isSome
  open_pair : o.openBr ≠ some o.kvPairSym
  open_tail : o.openBr ≠ some o.kvTailSym
  close_pair : o.closeBr ≠ some o.kvPairSym
  close_tail : o.closeBr ≠ some o.kvTailSym
  delim_pair : o.delim ≠ o.kvPairSym
  delim_tail : o.delim ≠ o.kvTailSym
  opt : o.optional = true → o.openBr.isSome = true

theorem kvSuffix_ne : kvPairSuffix ≠ kvTailSuffix := by decide

theorem kvPair_ne_kvTail (r : Name) : r ++ kvPairSuffix ≠ r ++ kvTailSuffix := by
  intro h
  have := List.append_cancel_left h
  revert this
  decide

macro "map_cases" o:ident wf:ident : tactic => `(tactic| (
  obtain ⟨h_br, h_op, h_ot, h_cp, h_ct, h_dp, h_dt, h_opt⟩ := $wf
  obtain ⟨ob, key, asg, val, dl, cb, opt, afd, res⟩ := $o
  cases ob <;> cases cb <;> cases afd <;> cases opt <;>
    simp_all [MapOpts.kvPairSym, MapOpts.kvTailSym]))

macro "msig_simp" : tactic => `(tactic|
  simp_all [kvTailPositions, mapPositions, positions, signature, childNames, MapOpts.kvTailSigs, MapOpts.mapSigs,
    MapOpts.kvTailProdsRaw, MapOpts.mapProdsRaw, dictOf, dictSet, lookup, MapOpts.mkSig, purge, indexOf?,
    MapOpts.kvPairSym, MapOpts.kvTailSym, kvSuffix_ne, Ne.symm kvSuffix_ne])

theorem kvTailPos_nil (o : MapOpts) (wf : o.WF) :
    kvTailPositions o o.kvTailSym true .none = .ok (none, none) := by
  map_cases o wf <;> msig_simp

theorem kvTailPos_fin (o : MapOpts) (wf : o.WF) (h : o.afd = true) (l : Bool) (v : Val) :
    kvTailPositions o o.kvTailSym false (.list [.elem o.delim l v]) = .ok (none, none) := by
  map_cases o wf <;> msig_simp

theorem kvTailPos_cons (o : MapOpts) (wf : o.WF) (dl : Bool) (dv : Val) (pl : Bool) (pv : Val) (tl : Bool)
    (tv : Val) :
    kvTailPositions o o.kvTailSym false
      (.list [.elem o.delim dl dv, .elem o.kvPairSym pl pv, .elem o.kvTailSym tl tv]) = .ok (some 1, some 2) := by
  map_cases o wf <;> msig_simp

def cleanPair (cl : Cleanuper) (k w : Val) : Except Err (Val × Val) :=
  match cleanItem cl k with
  | .error e => .error e
  | .ok ke =>
    match cleanItem cl w with
    | .error e => .error e
    | .ok we => .ok (entry ke, entry we)

def cleanPairs (cl : Cleanuper) : List (Val × Val) → Except Err (List (Val × Val))
  | [] => .ok []
  | (k, w) :: ps =>
    match cleanPair cl k w with
    | .error e => .error e
    | .ok kv =>
      match cleanPairs cl ps with
      | .error e => .error e
      | .ok kvs => .ok (kv :: kvs)

/-- a key/value node: `MAP__KV_PAIR[key, assign, value]` -/
inductive KvShape (o : MapOpts) : Val → Val → Val → Prop
  | mk (kl : Bool) (kv : Val) (al : Bool) (av : Val) (vl : Bool) (vv : Val) :
      KvShape o (.elem o.kvPairSym false (.list [.elem o.key kl kv, .elem o.assign al av, .elem o.val vl vv]))
        (.elem o.key kl kv) (.elem o.val vl vv)

inductive KvTailShape (o : MapOpts) : Val → List (Val × Val) → Bool → Prop
  | nil : KvTailShape o (.elem o.kvTailSym true .none) [] false
  | fin (l : Bool) (v : Val) : o.afd = true → KvTailShape o (.elem o.kvTailSym false (.list [.elem o.delim l v])) [] true
  | cons (dl : Bool) (dv : Val) (p k w tl : Val) (ps : List (Val × Val)) (f : Bool) :
      KvShape o p k w → KvTailShape o tl ps f →
      KvTailShape o (.elem o.kvTailSym false (.list [.elem o.delim dl dv, p, tl])) ((k, w) :: ps) f

theorem KvShape.isElem {o : MapOpts} {p k w : Val} (h : KvShape o p k w) : ∃ l v, p = .elem o.kvPairSym l v := by
  cases h; exact ⟨_, _, rfl⟩

theorem KvTailShape.isElem {o : MapOpts} {t : Val} {ps : List (Val × Val)} {f : Bool} (h : KvTailShape o t ps f) :
    ∃ l v, t = .elem o.kvTailSym l v := by
  cases h <;> exact ⟨_, _, rfl⟩

theorem parseKvPair_shape (cl : Cleanuper) (o : MapOpts) {p k w : Val} (h : KvShape o p k w) :
    parseKvPair cl o p = cleanPair cl k w := by
  cases h with
  | mk kl kv al av vl vv =>
    rw [parseKvPair]
    simp only [signature, childNames, MapOpts.kvSig, itemAt_zero, itemAt_succ, cleanPair, bind, Except.bind, pure,
      Except.pure]
    simp
    cases cleanItem cl (.elem o.key kl kv) <;> simp
    cases cleanItem cl (.elem o.val vl vv) <;> simp

theorem kvAt_zero (cl : Cleanuper) (o : MapOpts) (x : Val) (xs : List Val) :
    kvAt cl o (x :: xs) 0 = parseKvPair cl o x := by simp only [kvAt]
theorem kvAt_succ (cl : Cleanuper) (o : MapOpts) (x : Val) (xs : List Val) (n : Nat) :
    kvAt cl o (x :: xs) (n + 1) = kvAt cl o xs n := by simp only [kvAt]
theorem kvTailAt_zero (cl : Cleanuper) (o : MapOpts) (x : Val) (xs : List Val) :
    kvTailAt cl o (x :: xs) 0 = parseKvTail cl o x := by simp only [kvTailAt]
theorem kvTailAt_succ (cl : Cleanuper) (o : MapOpts) (x : Val) (xs : List Val) (n : Nat) :
    kvTailAt cl o (x :: xs) (n + 1) = kvTailAt cl o xs n := by simp only [kvTailAt]

theorem parseKvTail_list_eq (cl : Cleanuper) (o : MapOpts) (name : Name) (leaf : Bool) (xs : List Val) (p q : Nat)
    (h : kvTailPositions o name leaf (.list xs) = .ok (some p, some q)) :
    parseKvTail cl o (.elem name leaf (.list xs)) =
      match kvAt cl o xs p with
      | .error e => .error e
      | .ok i =>
        match kvTailAt cl o xs q with
        | .error e => .error e
        | .ok r => .ok (i :: r) := by
  rw [parseKvTail]
  simp only [h, bind, Except.bind, pure, Except.pure]
  cases kvAt cl o xs p <;> simp
  cases kvTailAt cl o xs q <;> simp

theorem parseKvTail_shape (cl : Cleanuper) (o : MapOpts) (wf : o.WF) {t : Val} {ps : List (Val × Val)} {f : Bool}
    (h : KvTailShape o t ps f) : parseKvTail cl o t = cleanPairs cl ps := by
  induction h with
  | nil => simp [parseKvTail, kvTailPos_nil o wf, cleanPairs]
  | fin l v ha =>
    simp [parseKvTail, kvTailPos_fin o wf ha, cleanPairs, bind, Except.bind, pure, Except.pure]
  | cons dl dv p k w tl ps f hp ht ih =>
    obtain ⟨l, v, rfl⟩ := ht.isElem
    obtain ⟨pl, pv, rfl⟩ := hp.isElem
    rw [parseKvTail_list_eq cl o _ _ _ 1 2 (kvTailPos_cons o wf dl dv pl pv l v)]
    simp only [kvAt_zero, kvAt_succ, kvTailAt_zero, kvTailAt_succ, ih, cleanPairs, parseKvPair_shape cl o hp]

/-- the raw tree of a map: `none` = absent optional map, `some (pairs, final_delimiter_present)` -/
inductive MapShape (o : MapOpts) : Val → Option (List (Val × Val) × Bool) → Prop
  | absent : o.optional = true → MapShape o (.elem o.result true .none) none
  | emptyNoBr : o.openBr = none → MapShape o (.elem o.result true .none) (some ([], false))
  | noBr (p k w tl : Val) (ps : List (Val × Val)) (f : Bool) : o.openBr = none → KvShape o p k w →
      KvTailShape o tl ps f →
      MapShape o (.elem o.result false (.list [p, tl])) (some ((k, w) :: ps, f))
  | emptyBr (ob cb : Name) (ol : Bool) (ov : Val) (cl' : Bool) (cv : Val) : o.openBr = some ob → o.closeBr = some cb →
      MapShape o (.elem o.result false (.list [.elem ob ol ov, .elem cb cl' cv])) (some ([], false))
  | br (ob cb : Name) (ol : Bool) (ov : Val) (cl' : Bool) (cv : Val) (p k w tl : Val) (ps : List (Val × Val))
      (f : Bool) : o.openBr = some ob → o.closeBr = some cb → KvShape o p k w → KvTailShape o tl ps f →
      MapShape o (.elem o.result false (.list [.elem ob ol ov, p, tl, .elem cb cl' cv])) (some ((k, w) :: ps, f))

theorem MapShape.isElem {o : MapOpts} {t : Val} {r : Option (List (Val × Val) × Bool)} (h : MapShape o t r) :
    ∃ l v, t = .elem o.result l v := by
  cases h <;> exact ⟨_, _, rfl⟩

theorem mapPos_absent (o : MapOpts) (wf : o.WF) (h : o.optional = true) :
    mapPositions o o.result true .none = .ok (none, none) := by
  map_cases o wf <;> msig_simp

theorem mapPos_emptyNoBr (o : MapOpts) (wf : o.WF) (h : o.openBr = none) :
    mapPositions o o.result true .none = .ok (none, none) := by
  map_cases o wf <;> msig_simp

theorem mapPos_noBr (o : MapOpts) (wf : o.WF) (h : o.openBr = none) (pl : Bool) (pv : Val) (tl : Bool) (tv : Val) :
    mapPositions o o.result false (.list [.elem o.kvPairSym pl pv, .elem o.kvTailSym tl tv]) =
      .ok (some 0, some 1) := by
  map_cases o wf <;> msig_simp

theorem mapPos_emptyBr (o : MapOpts) (wf : o.WF) (ob cb : Name) (h : o.openBr = some ob) (h' : o.closeBr = some cb)
    (ol : Bool) (ov : Val) (cl' : Bool) (cv : Val) :
    mapPositions o o.result false (.list [.elem ob ol ov, .elem cb cl' cv]) = .ok (none, none) := by
  map_cases o wf <;> msig_simp

theorem mapPos_br (o : MapOpts) (wf : o.WF) (ob cb : Name) (h : o.openBr = some ob) (h' : o.closeBr = some cb)
    (ol : Bool) (ov : Val) (cl' : Bool) (cv : Val) (pl : Bool) (pv : Val) (tl : Bool) (tv : Val) :
    mapPositions o o.result false
      (.list [.elem ob ol ov, .elem o.kvPairSym pl pv, .elem o.kvTailSym tl tv, .elem cb cl' cv]) =
      .ok (some 1, some 2) := by
  map_cases o wf <;> msig_simp

/-- the value `MapProds.transform_t_elem` must produce for the given key/value nodes -/
def mapResult (cl : Cleanuper) (o : MapOpts) (ps : List (Val × Val)) : Except Err El :=
  match cleanPairs cl ps with
  | .error e => .error e
  | .ok kvs =>
    match pyDict kvs with
    | .error e => .error e
    | .ok d => .ok (o.result, true, .dict d)

theorem pyDict_nil : pyDict [] = .ok [] := by simp [pyDict]

theorem transformMap_shape (cl : Cleanuper) (o : MapOpts) (wf : o.WF) {leaf : Bool} {v : Val}
    {r : Option (List (Val × Val) × Bool)} (h : MapShape o (.elem o.result leaf v) r) :
    transformMap cl o o.result leaf v =
      match r with
      | none => .ok (o.result, true, .none)
      | some (ps, _) => mapResult cl o ps := by
  cases h with
  | absent ho =>
    simp [transformMap, mapPos_absent o wf ho, ho, Val.isNone]
  | emptyNoBr hb =>
    have : o.optional = false := by
      cases hopt : o.optional
      · rfl
      · have := wf.opt hopt; simp [hb] at this
    simp [transformMap, mapPos_emptyNoBr o wf hb, this, mapResult, cleanPairs, pyDict_nil]
  | noBr p k w tl ps f hb hp ht =>
    obtain ⟨l, tv, rfl⟩ := ht.isElem
    obtain ⟨pl, pv, rfl⟩ := hp.isElem
    rw [transformMap]
    simp only [mapPos_noBr o wf hb, kvAt_zero, kvTailAt_succ, kvTailAt_zero, parseKvTail_shape cl o wf ht,
      parseKvPair_shape cl o hp, mapResult, cleanPairs, bind, Except.bind, pure, Except.pure]
    cases cleanPair cl k w <;> simp
    cases cleanPairs cl ps <;> simp
    rename_i a b
    cases pyDict (a :: b) <;> simp
  | emptyBr ob cb ol ov cl' cv hb hc =>
    rw [transformMap]
    simp [mapPos_emptyBr o wf ob cb hb hc, mapResult, cleanPairs, pyDict_nil, bind, Except.bind, pure, Except.pure]
  | br ob cb ol ov cl' cv p k w tl ps f hb hc hp ht =>
    obtain ⟨l, tv, rfl⟩ := ht.isElem
    obtain ⟨pl, pv, rfl⟩ := hp.isElem
    rw [transformMap]
    simp only [mapPos_br o wf ob cb hb hc, kvAt_zero, kvAt_succ, kvTailAt_succ, kvTailAt_zero,
      parseKvTail_shape cl o wf ht, parseKvPair_shape cl o hp, mapResult, cleanPairs, bind, Except.bind, pure,
      Except.pure]
    cases cleanPair cl k w <;> simp
    cases cleanPairs cl ps <;> simp
    rename_i a b
    cases pyDict (a :: b) <;> simp

theorem cleanup_of_map_template (cl : Cleanuper) (o : MapOpts) (name : Name) (leaf : Bool) (v : Val) (fc fch : Bool)
    (hT : lookup cl.templates name = some (.map o)) :
    cleanup cl (.elem name leaf v) fc fch =
      match transformMap cl o name leaf v with
      | .ok e => .ok (e, fch)
      | .error e => .error e := by
  cases v <;> simp only [cleanup, hT, bind, Except.bind, pure, Except.pure] <;>
    (split <;> simp_all)

theorem cleanup_map (cl : Cleanuper) (o : MapOpts) (wf : o.WF)
    (hT : lookup cl.templates o.result = some (.map o)) {t : Val} {r : Option (List (Val × Val) × Bool)}
    (h : MapShape o t r) (fc fch : Bool) :
    cleanup cl t fc fch =
      match r with
      | none => .ok ((o.result, true, .none), fch)
      | some (ps, _) =>
        match mapResult cl o ps with
        | .ok e => .ok (e, fch)
        | .error e => .error e := by
  obtain ⟨l, v, rfl⟩ := h.isElem
  rw [cleanup_of_map_template cl o _ _ _ _ _ hT, transformMap_shape cl o wf h]
  cases r with
  | none => rfl
  | some p => rfl

end Templates
