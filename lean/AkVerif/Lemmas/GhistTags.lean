import AkVerif.Model.GhistTags
/-!
`ProjectRepo.parse_buildtag` + `finalize_build_tag_info` on the model: what the tag names of the naming scheme
`build_<n>_release_<major>_<minor>_success` / `build_<n>_<other>_success` are read as, and that other names are ignored.
-/
namespace Ghist
open Ak

theorem stripPrefix_iff : ∀ (p s r : List Char), stripPrefix p s = some r ↔ s = p ++ r := by
  intro p
  induction p with
  | nil => intro s r; simp [stripPrefix]
  | cons a p ih =>
    intro s r
    cases s with
    | nil => simp [stripPrefix]
    | cons c cs =>
      simp only [stripPrefix, List.cons_append, List.cons.injEq]
      by_cases hac : a = c
      · subst hac; simp [ih]
      · simp only [hac, if_false]
        constructor
        · intro h; cases h
        · rintro ⟨h1, _⟩; exact absurd h1.symm hac

theorem stripSuffix_iff (suf s r : List Char) : stripSuffix suf s = some r ↔ s = r ++ suf := by
  unfold stripSuffix
  constructor
  · intro h
    cases hp : stripPrefix suf.reverse s.reverse with
    | none => rw [hp] at h; cases h
    | some x =>
      rw [hp] at h
      simp only [Option.map_some, Option.some.injEq] at h
      have := (stripPrefix_iff _ _ _).mp hp
      have h2 : s = (suf.reverse ++ x).reverse := by rw [← this]; simp
      rw [h2, ← h]; simp
  · intro h
    have : stripPrefix suf.reverse s.reverse = some r.reverse := by
      rw [stripPrefix_iff, h]; simp
    rw [this]; simp

/-- a non-empty run of decimal digits -/
def Digits (ds : List Char) : Prop := ds ≠ [] ∧ ∀ c ∈ ds, isDigit c = true

theorem takeDigits_append : ∀ (ds r : List Char), (∀ c ∈ ds, isDigit c = true) →
    (∀ c, r.head? = some c → isDigit c = false) → takeDigits (ds ++ r) = (ds, r) := by
  intro ds
  induction ds with
  | nil =>
    intro r _ hr
    cases r with
    | nil => rfl
    | cons c cs => simp [takeDigits, hr c rfl]
  | cons d ds ih =>
    intro r hd hr
    have h1 : isDigit d = true := hd d (by simp)
    have h2 := ih r (fun c hc => hd c (by simp [hc])) hr
    simp only [List.cons_append, takeDigits, h1, if_true, h2]

theorem takeDigits_all (ds : List Char) (hd : ∀ c ∈ ds, isDigit c = true) : takeDigits ds = (ds, []) := by
  have := takeDigits_append ds [] hd (by intro c hc; cases hc)
  simpa using this

theorem takeDigits_split : ∀ (r : List Char), r = (takeDigits r).1 ++ (takeDigits r).2 := by
  intro r
  induction r with
  | nil => rfl
  | cons c cs ih =>
    simp only [takeDigits]
    split
    · simp only [List.cons_append, List.cons.injEq, true_and]; exact ih
    · rfl

/-- the literal pieces the translator read: the separators and the suffix start with a character that is no digit -/
theorem tagSep_shape : ∃ c t, Gen.Ghist.tagSep = c :: t ∧ isDigit c = false := ⟨'_', [], by decide, by decide⟩
theorem brSep_shape : ∃ c t, Gen.Ghist.brSep = c :: t ∧ isDigit c = false := ⟨'_', [], by decide, by decide⟩
theorem tagSuf_shape : ∃ c t, Gen.Ghist.tagSuf = c :: t ∧ isDigit c = false :=
  ⟨'_', "success".toList, by decide, by decide⟩

theorem head_nondigit {sep : List Char} (hs : ∃ c t, sep = c :: t ∧ isDigit c = false) (r : List Char) :
    ∀ c, (sep ++ r).head? = some c → isDigit c = false := by
  obtain ⟨c0, t, rfl, hc0⟩ := hs
  intro c hc
  simp only [List.cons_append, List.head?_cons, Option.some.injEq] at hc
  rw [← hc]; exact hc0

/-- `release_<major>_<minor>` -/
theorem parseBranchStr_release {dM dm : List Char} (hM : Digits dM) (hm : Digits dm) :
    parseBranchStr (Gen.Ghist.brPre ++ dM ++ Gen.Ghist.brSep ++ dm) = some (digitsVal dM 0, digitsVal dm 0) := by
  unfold parseBranchStr
  have h1 : stripPrefix Gen.Ghist.brPre (Gen.Ghist.brPre ++ dM ++ Gen.Ghist.brSep ++ dm) =
      some (dM ++ (Gen.Ghist.brSep ++ dm)) := by
    rw [stripPrefix_iff]; simp
  have h2 : takeDigits (dM ++ (Gen.Ghist.brSep ++ dm)) = (dM, Gen.Ghist.brSep ++ dm) :=
    takeDigits_append dM _ hM.2 (head_nondigit brSep_shape dm)
  have h3 : stripPrefix Gen.Ghist.brSep (Gen.Ghist.brSep ++ dm) = some dm := by rw [stripPrefix_iff]
  have h4 : takeDigits dm = (dm, []) := takeDigits_all dm hm.2
  have e1 : dM.isEmpty = false := by cases dM with | nil => exact absurd rfl hM.1 | cons _ _ => rfl
  have e2 : dm.isEmpty = false := by cases dm with | nil => exact absurd rfl hm.1 | cons _ _ => rfl
  simp only [h1, h2, h3, h4, e1, e2]
  simp

/-- `_RE_BUILD_TAG` on `build_<n>_<branch>_success` : the number and the branch part, whatever the branch part is -/
theorem parseBuildTag_spec {ds : List Char} (hd : Digits ds) (br : List Char) :
    parseBuildTag (Gen.Ghist.tagPre ++ ds ++ Gen.Ghist.tagSep ++ br ++ Gen.Ghist.tagSuf) = some (digitsVal ds 0, br) := by
  unfold parseBuildTag
  have h1 : stripPrefix Gen.Ghist.tagPre (Gen.Ghist.tagPre ++ ds ++ Gen.Ghist.tagSep ++ br ++ Gen.Ghist.tagSuf) =
      some (ds ++ (Gen.Ghist.tagSep ++ (br ++ Gen.Ghist.tagSuf))) := by
    rw [stripPrefix_iff]; simp
  have h2 : takeDigits (ds ++ (Gen.Ghist.tagSep ++ (br ++ Gen.Ghist.tagSuf))) =
      (ds, Gen.Ghist.tagSep ++ (br ++ Gen.Ghist.tagSuf)) :=
    takeDigits_append ds _ hd.2 (head_nondigit tagSep_shape _)
  have h3 : stripPrefix Gen.Ghist.tagSep (Gen.Ghist.tagSep ++ (br ++ Gen.Ghist.tagSuf)) = some (br ++ Gen.Ghist.tagSuf) := by
    rw [stripPrefix_iff]
  have h4 : stripSuffix Gen.Ghist.tagSuf (br ++ Gen.Ghist.tagSuf) = some br := by rw [stripSuffix_iff]
  have e1 : ds.isEmpty = false := by cases ds with | nil => exact absurd rfl hd.1 | cons _ _ => rfl
  simp only [h1, h2, h3, h4, e1]
  simp

/-- the build tag of a release line: `build_<n>_release_<major>_<minor>_success` is build `major.minor.n` -/
theorem tagBN_release {ds dM dm : List Char} (hd : Digits ds) (hM : Digits dM) (hm : Digits dm)
    (saved : Option (Nat × Nat)) :
    tagBN saved (Gen.Ghist.tagPre ++ ds ++ Gen.Ghist.tagSep ++ (Gen.Ghist.brPre ++ dM ++ Gen.Ghist.brSep ++ dm) ++
      Gen.Ghist.tagSuf) =
      .ok (some ⟨digitsVal dM 0, digitsVal dm 0, digitsVal ds 0, digitsVal ds 0⟩) := by
  unfold tagBN
  rw [parseBuildTag_spec hd]
  simp only [parseBranchStr_release hM hm]

/-- a build tag that does not name a release line (`build_<n>_master_success`, …) takes major.minor from the version
saved in the commit -/
theorem tagBN_saved {ds w : List Char} (hd : Digits ds) (hw : parseBranchStr w = none) (M m : Nat) :
    tagBN (some (M, m)) (Gen.Ghist.tagPre ++ ds ++ Gen.Ghist.tagSep ++ w ++ Gen.Ghist.tagSuf) =
      .ok (some ⟨M, m, digitsVal ds 0, digitsVal ds 0⟩) := by
  unfold tagBN
  rw [parseBuildTag_spec hd]
  simp only [hw]

/-- the same tag on a commit without a version file: major and minor are unknown (`'?'`) -/
theorem tagBN_unknown {ds w : List Char} (hd : Digits ds) (hw : parseBranchStr w = none) :
    tagBN none (Gen.Ghist.tagPre ++ ds ++ Gen.Ghist.tagSep ++ w ++ Gen.Ghist.tagSuf) =
      .ok (some ⟨unknownNum, unknownNum, digitsVal ds 0, digitsVal ds 0⟩) := by
  unfold tagBN
  rw [parseBuildTag_spec hd]
  simp only [hw]

/-- names that do not start with `build_` or do not end with `_success` are no build tags -/
theorem tagBN_ignored (saved : Option (Nat × Nat)) (s : List Char)
    (h : (¬ ∃ r, s = Gen.Ghist.tagPre ++ r) ∨ (¬ ∃ r, s = r ++ Gen.Ghist.tagSuf)) : tagBN saved s = .ok none := by
  have hp : parseBuildTag s = none := by
    unfold parseBuildTag
    cases h1 : stripPrefix Gen.Ghist.tagPre s with
    | none => rfl
    | some r =>
      have hs := (stripPrefix_iff _ _ _).mp h1
      simp only
      split
      · rfl
      · cases h3 : stripPrefix Gen.Ghist.tagSep (takeDigits r).2 with
        | none => rfl
        | some r2 =>
          simp only
          cases h4 : stripSuffix Gen.Ghist.tagSuf r2 with
          | none => rfl
          | some br =>
            exfalso
            rcases h with h | h
            · exact h ⟨r, hs⟩
            · apply h
              have e3 := (stripPrefix_iff _ _ _).mp h3
              have e4 := (stripSuffix_iff _ _ _).mp h4
              have hsplit : r = (takeDigits r).1 ++ (takeDigits r).2 := takeDigits_split r
              refine ⟨Gen.Ghist.tagPre ++ (takeDigits r).1 ++ Gen.Ghist.tagSep ++ br, ?_⟩
              rw [hs]
              conv => lhs; rw [hsplit, e3, e4]
              simp
  unfold tagBN
  rw [hp]

/-- the search predicate: the text occurs in the message as a contiguous piece, nothing is stripped or folded -/
theorem occursIn_iff (text : List Char) : ∀ (msg : List Char),
    occursIn text msg = true ↔ ∃ a b, msg = a ++ text ++ b := by
  intro msg
  induction msg with
  | nil =>
    simp only [occursIn, List.isEmpty_iff]
    constructor
    · intro h; subst h; exact ⟨[], [], rfl⟩
    · rintro ⟨a, b, h⟩
      have := congrArg List.length h
      simp at this
      exact List.eq_nil_of_length_eq_zero (by omega)
  | cons c cs ih =>
    simp only [occursIn, Bool.or_eq_true, List.isPrefixOf_iff_prefix, ih]
    constructor
    · rintro (⟨t, ht⟩ | ⟨a, b, h⟩)
      · exact ⟨[], t, by simpa using ht.symm⟩
      · exact ⟨c :: a, b, by rw [h]; simp⟩
    · rintro ⟨a, b, h⟩
      cases a with
      | nil => exact Or.inl ⟨b, by simpa using h.symm⟩
      | cons x a =>
        simp only [List.cons_append, List.cons.injEq] at h
        exact Or.inr ⟨a, b, h.2⟩

end Ghist
