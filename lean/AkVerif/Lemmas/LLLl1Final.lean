import AkVerif.Lemmas.LLLl1Cover
import AkVerif.Lemmas.LLLl1Null
import AkVerif.Lemmas.LLLl1Pred
import AkVerif.Lemmas.LLLl1Ref
import AkVerif.Lemmas.LLFactAll
import AkVerif.Lemmas.LLC03
/-!
Assembly of the clause of C02 "a grammar that is LL(1) as written is reported as not ambiguous":

* `l1z_pairwise` — a `Pairwise` statement about a rule list from a `Pairwise` statement about its
  ordered expansion,
* `l1z_Facts` / `l1z_facts` — what the constructor guarantees about `U = userProds`, `G = prods`,
  `S = suffix`, `T = terminals`,
* `l1z_key` — for one key `A` of `G` below the user symbol `X`: if the user's alternatives of `X` have
  pairwise disjoint (semantic) predict sets, so have the rules of `A`,
* `ll1_unambiguous` — the final statement.
-/
set_option linter.unusedSectionVars false
namespace LL
open Ak

/-! ### `Pairwise` through the ordered expansion -/

theorem l1z_exA_mem_sub {G : Prods Sym} {S : List Sym} {ps L : List (List Sym)} (h : ExA G S ps L)
    {p : List Sym} (hp : p ∈ ps) : ∃ Lp, ExA G S [p] Lp ∧ ∀ u ∈ Lp, u ∈ L := by
  obtain ⟨a, b, e⟩ := List.append_of_mem hp
  subst e
  obtain ⟨M1, M2, eL, _, h2⟩ := exA_append_inv h
  have h2' : ExA G S ([p] ++ b) M2 := h2
  obtain ⟨N1, N2, eM, hN1, _⟩ := exA_append_inv h2'
  exact ⟨N1, hN1, fun u hu => by rw [eL, eM]; simp [hu]⟩

/-- if the expansion list of `rs.map f` is pairwise `R'`, and `Q ri rj` follows from "everything in the
block of `ri` is `R'`-related to everything in the block of `rj`", then `rs` is pairwise `Q` -/
theorem l1z_pairwise {G : Prods Sym} {S : List Sym} (f : Rule Sym → List Sym)
    (R' : List Sym → List Sym → Prop) (Q : Rule Sym → Rule Sym → Prop) :
    ∀ (rs : List (Rule Sym)) (L : List (List Sym)), ExA G S (rs.map f) L → L.Pairwise R' →
      (∀ ri ∈ rs, ∀ rj ∈ rs, ∀ Li Lj, ExA G S [f ri] Li → ExA G S [f rj] Lj →
        (∀ ui ∈ Li, ∀ uj ∈ Lj, R' ui uj) → Q ri rj) → rs.Pairwise Q
  | [], _, _, _, _ => List.Pairwise.nil
  | r :: rest, L, hE, hP, hQ => by
    have hE' : ExA G S ([f r] ++ rest.map f) L := hE
    obtain ⟨La, Lb, eL, hA, hBb⟩ := exA_append_inv hE'
    subst eL
    obtain ⟨_, hPb, hab⟩ := List.pairwise_append.1 hP
    refine List.pairwise_cons.2 ⟨?_, l1z_pairwise f R' Q rest Lb hBb hPb
      (fun ri hri rj hrj => hQ ri (List.mem_cons_of_mem _ hri) rj (List.mem_cons_of_mem _ hrj))⟩
    intro r' hr'
    obtain ⟨Lc, hC, hsub⟩ := l1z_exA_mem_sub hBb (List.mem_map.2 ⟨r', hr', rfl⟩)
    exact hQ r (by simp) r' (List.mem_cons_of_mem _ hr') La Lc hA hC
      (fun ui hui uj huj => hab ui hui uj (hsub uj huj))

/-- a flattening `e` of `q` shows up, prefixed with `c`, in the expansion list of `[c ++ q]` -/
theorem l1z_mem_block {G : Prods Sym} {S : List Sym} (hndG : (G.map (·.1)).Nodup)
    (hinner : ∀ s rules, (s, rules) ∈ G → ∀ r ∈ rules, ∀ x ∈ r.rhs.dropLast, x ∉ S)
    {c : List Sym} (hc : ∀ x ∈ c, x ∉ S) {q : List Sym} (hq : ∀ x ∈ q.dropLast, x ∉ S)
    {L' : List (List Sym)} (h : ExA G S [c ++ q] L') {e : List Sym} (he : FlatR G S q e) :
    c ++ e ∈ L' := by
  have hgood : ∀ p ∈ [c ++ q], ∀ x ∈ p.dropLast, x ∉ S := by
    intro p hp
    rw [List.mem_singleton.1 hp]
    exact (exGood_append (rm := []) hc ⟨hq, fun _ _ _ => by simp⟩).1
  refine (exA_mem hndG (fun k rs hk => hinner k rs (dget_mem hk)) h hgood (c ++ e)).2
    ⟨c ++ q, by simp, ?_⟩
  exact (flatR_prefix hc q (c ++ e)).2 ⟨e, he, rfl⟩

/-! ### what the constructor guarantees -/

structure l1z_Facts (U G : Prods Sym) (S T NU NG : List Sym) (FU FG : SetMap Sym) (start : Sym) :
    Prop where
  hR : FactRelD U G S
  hndG : (G.map (·.1)).Nodup
  hUwf : UserWF U
  hNU : nullables U = .ok NU
  hNG : nullables G = .ok NG
  hFU : firstSets T NU U = .ok FU
  hFG : firstSets T NG G = .ok FG
  hntU : ∀ s ∈ NU, s ∉ T
  hntG : ∀ s ∈ NG, s ∉ T
  hST : ∀ s ∈ S, s ∉ T
  hprod : ∀ s ∈ S, ∃ e, FlatD G S s e
  hSpath : ∀ s ∈ S, s.path ≠ []
  hext : ∀ k rules, (k, rules) ∈ G → ∀ r ∈ rules, ∀ l, r.rhs.getLast? = some l → l ∈ S → Ext k l
  href : ∀ h ∈ S, ∃ k rules r, (k, rules) ∈ G ∧ r ∈ rules ∧ r.rhs.getLast? = some h
  hstart : start.path = []
  hkU : ∀ k ∈ pkeys U, k ∉ T
  hkG : ∀ k ∈ pkeys G, k ∉ T
  knownU : ∀ s ∈ psyms U, s ∈ T ∨ s ∈ pkeys U
  knownG : ∀ s ∈ psyms G, s ∈ T ∨ s ∈ pkeys G
  hneU : ∀ X rules, (X, rules) ∈ U → rules ≠ []
  hrankU : ∃ rank : Sym → Nat, ∀ X Y, Reach1 U NU X Y → Y ∈ pkeys U → rank Y < rank X
  hexA : ∀ X rulesU, (X, rulesU) ∈ U → ∃ rulesG, dget X G = some rulesG ∧
    ExA G S (rulesG.map (·.rhs)) (rulesU.map (·.rhs))

theorem l1z_facts {inp : CtorIn} {P : Parser} (hB : Built inp P) {NU : List Sym} {FU : SetMap Sym}
    (hNU : nullables P.userProds = .ok NU)
    (hFU : firstSets P.terminals NU P.userProds = .ok FU)
    (hne : ∀ X rules, (X, rules) ∈ P.userProds → rules ≠ [])
    (hstart : inp.start ∈ inp.prods.map (·.1)) :
    l1z_Facts P.userProds P.prods P.suffix P.terminals NU P.nullables FU P.first P.start := by
  obtain ⟨hR, hndG⟩ := factRelD_of_built hB
  obtain ⟨hUwf, _, _⟩ := createProds_wf inp.prods 0 [] P.userProds hB.hU userWF_nil
  have hterm := terms_path_nil hB.hD
  obtain ⟨hne', hext⟩ := factorize_helpers hUwf hterm hB.hF
  have href := factorize_referenced hUwf hterm hB.hF
  have hprod : ∀ s ∈ P.suffix, ∃ e, FlatD P.prods P.suffix s e := by
    refine tr_productive (fun s => s.path.length) hne' ?_
    intro s p hp l hl hlS
    obtain ⟨rules, hm, r, hr, hrp⟩ := mem_gramRules.1 hp
    exact Ext_path_lt (hext s rules hm r hr l (by rw [hrp]; exact hl) hlS)
  have hP1 := verifyPart1_ok hB.hV
  have hSpath : ∀ s ∈ P.suffix, s.path ≠ [] := by
    intro s hs hp
    have := (factorize_struct hB.hF).2 s hs
    simp [Sym.isSuf, hp] at this
  have hkG : ∀ k ∈ pkeys P.prods, k ∉ P.terminals := hP1.disjoint
  have hST : ∀ s ∈ P.suffix, s ∉ P.terminals := fun s hs => hkG s (hR.sufKeys s hs)
  have hkU : ∀ k ∈ pkeys P.userProds, k ∉ P.terminals := fun k hk => hkG k (hR.keys k hk)
  have hntG : ∀ s ∈ P.nullables, s ∉ P.terminals := lst_nulls_not_terms hB.hN hkG
  have hntU : ∀ s ∈ NU, s ∉ P.terminals := lst_nulls_not_terms hNU hkU
  have knownU : ∀ s ∈ psyms P.userProds, s ∈ P.terminals ∨ s ∈ pkeys P.userProds := by
    intro s hs
    obtain ⟨X, rules, hm, r, hr, hsr⟩ := mem_psyms.1 hs
    have hfl := hR.flatOut X r.rhs (mem_gramRules.2 ⟨rules, hm, r, hr, rfl⟩)
    obtain ⟨hsS, hsG⟩ := l1c_flat_syms hR.inner hfl s hsr
    rcases hP1.known s hsG with h | h
    · exact Or.inl h
    · exact Or.inr (hR.keysBack s h hsS)
  have hrankU : ∃ rank : Sym → Nat, ∀ X Y, Reach1 P.userProds NU X Y → Y ∈ pkeys P.userProds →
      rank Y < rank X := by
    obtain ⟨rank, hr⟩ := recCheck_rank hndG (fun k hk => mem_sortedKeys.2 hk) hB.hR
    refine ⟨rank, fun X Y hXY hY => ?_⟩
    exact plus_rank hr hkG (plus_transfer_rev hR hNU hB.hN (Plus.one hXY)) (hR.keys Y hY)
  exact {
    hR := hR, hndG := hndG, hUwf := hUwf, hNU := hNU, hNG := hB.hN, hFU := hFU, hFG := hB.hFi,
    hntU := hntU, hntG := hntG, hST := hST, hprod := hprod, hSpath := hSpath, hext := hext,
    href := href, hstart := hUwf.keyUser _ (start_user_of_built hB hstart), hkU := hkU, hkG := hkG,
    knownU := knownU, knownG := hP1.known, hneU := hne, hrankU := hrankU,
    hexA := factorize_exA hUwf hterm hB.hF }

/-! ### one key of the factorised dictionary -/

section Key
variable {U G : Prods Sym} {S T NU NG : List Sym} {FU FG : SetMap Sym} {start : Sym}

/-- if the user's alternatives of `X` have pairwise disjoint predict sets, so have the rules of every
key `A` of the factorised dictionary below `X` -/
theorem l1z_key (hF : l1z_Facts U G S T NU NG FU FG start) {endS : Sym} {A X : Sym} {c : List Sym}
    (hB : Below G S X A c) (hX : X = rootOf A) {rsA rulesU : List (Rule Sym)}
    (hd : dget A G = some rsA) (hm : (X, rulesU) ∈ U)
    (hLL : rulesU.Pairwise fun r1 r2 => ∀ t, PredS U T NU FU start endS X r1.rhs t →
      PredS U T NU FU start endS X r2.rhs t → False) :
    rsA.Pairwise fun r1 r2 => ∀ t, PredS G T NG FG start endS A r1.rhs t →
      PredS G T NG FG start endS A r2.rhs t → False := by
  obtain ⟨L1, L, L3, eLU, hE⟩ := l1c_block hF.hndG (hF.hexA X rulesU hm) hB rsA hd
  let R' : List Sym → List Sym → Prop := fun u1 u2 =>
    ∀ t, PredS U T NU FU start endS X u1 t → PredS U T NU FU start endS X u2 t → False
  have hPU : (rulesU.map (·.rhs)).Pairwise R' := List.pairwise_map.2 hLL
  rw [eLU] at hPU
  have hPL : L.Pairwise R' := (List.pairwise_append.1 (List.pairwise_append.1 hPU).1).2.1
  refine l1z_pairwise (fun r => c ++ r.rhs) R' _ rsA L hE hPL ?_
  intro ri hri rj hrj Li Lj hLi hLj hdis t hti htj
  have hLi' : ExA G S [c ++ ri.rhs] Li := hLi
  have hLj' : ExA G S [c ++ rj.rhs] Lj := hLj
  have hcS := l1c_below_syms hF.hR.inner hB
  have hc : ∀ x ∈ c, x ∉ S := fun x hx => (hcS x hx).1
  have hpi : ri.rhs ∈ gramRules G A := gramRules_of_dget hd hri
  have hpj : rj.rhs ∈ gramRules G A := gramRules_of_dget hd hrj
  have hqi : ∀ x ∈ ri.rhs.dropLast, x ∉ S := hF.hR.inner A rsA (dget_mem hd) ri hri
  have hqj : ∀ x ∈ rj.rhs.dropLast, x ∉ S := hF.hR.inner A rsA (dget_mem hd) rj hrj
  by_cases hcn : NullIn T NU c
  · obtain ⟨ei, hfi, hpi'⟩ := l1c_cover hF.hR hF.hUwf hF.hNU hF.hNG hF.hFU hF.hFG hF.hntU hF.hntG
      hF.hST hF.hprod hF.hSpath hF.hext hF.href hF.hstart hpi hti
    obtain ⟨ej, hfj, hpj'⟩ := l1c_cover hF.hR hF.hUwf hF.hNU hF.hNG hF.hFU hF.hFG hF.hntU hF.hntG
      hF.hST hF.hprod hF.hSpath hF.hext hF.href hF.hstart hpj htj
    rw [← hX] at hpi' hpj'
    exact hdis _ (l1z_mem_block hF.hndG hF.hR.inner hc hqi hLi' hfi)
      _ (l1z_mem_block hF.hndG hF.hR.inner hc hqj hLj' hfj) t
      (l1c_pred_prefix hcn hpi') (l1c_pred_prefix hcn hpj')
  · obtain ⟨rank, hrank⟩ := hF.hrankU
    have hce : ∀ x ∈ c, x ∈ T ∨ x ∈ pkeys U := by
      intro x hx
      obtain ⟨hxS, hxG⟩ := hcS x hx
      rcases hF.knownG x hxG with h | h
      · exact Or.inl h
      · exact Or.inr (hF.hR.keysBack x h hxS)
    rcases seq_nullable_or_first hF.hNU hF.hneU hF.knownU hF.hkU rank hrank hce with h | ⟨t', ht'⟩
    · exact absurd h hcn
    · obtain ⟨ei, hfi⟩ := l1c_flatR_exists hF.hprod ri.rhs
      obtain ⟨ej, hfj⟩ := l1c_flatR_exists hF.hprod rj.rhs
      have h1 : PredS U T NU FU start endS X (c ++ ei) t' :=
        Or.inl ((l1f_append ei c).2 (Or.inl ht'))
      have h2 : PredS U T NU FU start endS X (c ++ ej) t' :=
        Or.inl ((l1f_append ej c).2 (Or.inl ht'))
      exact hdis _ (l1z_mem_block hF.hndG hF.hR.inner hc hqi hLi' hfi)
        _ (l1z_mem_block hF.hndG hF.hR.inner hc hqj hLj' hfj) t' h1 h2

end Key

/-! ### the final statement -/

/-- **a grammar that is LL(1) as written is reported as not ambiguous.**  `hLL1`: for every symbol of
the user's grammar the predict sets of its alternatives, computed by the model's own (exact)
nullable / FIRST / FOLLOW functions on the user's dictionary, are pairwise disjoint; `hne`: every
non-terminal has at least one alternative. -/
theorem ll1_unambiguous {inp : CtorIn} {P : Parser} (hP : construct inp = .ok P)
    {NU : List Sym} {FU WU : SetMap Sym}
    (hNU : nullables P.userProds = .ok NU)
    (hFU : firstSets P.terminals NU P.userProds = .ok FU)
    (hWU : followSets P.terminals NU FU P.userProds P.start endSym = .ok WU)
    (hne : ∀ X rules, (X, rules) ∈ P.userProds → rules ≠ [])
    (hstart : inp.start ∈ inp.prods.map (·.1))
    (hLL1 : ∀ X rules, (X, rules) ∈ P.userProds →
        rules.Pairwise (PredDisjoint P.terminals NU FU WU X)) :
    isAmbiguous P.table = false := by
  have hB := construct_built hP
  have hF := l1z_facts hB hNU hFU hne hstart
  refine (not_ambiguous_iff_disjoint hF.hndG hB.hT).2 ?_
  intro A rulesG hmG
  have hA : A ∈ pkeys P.prods := List.mem_map.2 ⟨_, hmG, rfl⟩
  obtain ⟨c, hBel⟩ := below_exists hF.hR hF.hUwf hF.hext hF.href A hA
  have hXG : rootOf A ∈ pkeys P.prods := l1c_below_key hBel hA
  have hXS : rootOf A ∉ P.suffix := fun h => hF.hSpath _ h rfl
  have hXU : rootOf A ∈ pkeys P.userProds := hF.hR.keysBack _ hXG hXS
  obtain ⟨⟨X', rulesU⟩, hmU, eX⟩ := List.mem_map.1 hXU
  simp only at eX
  subst eX
  have hLLs : rulesU.Pairwise fun r1 r2 => ∀ t,
      PredS P.userProds P.terminals NU FU P.start endSym (rootOf A) r1.rhs t →
      PredS P.userProds P.terminals NU FU P.start endSym (rootOf A) r2.rhs t → False :=
    List.Pairwise.imp_of_mem
      (fun h1 h2 h => (predDisjoint_iff_predS hNU hFU hWU hF.hkU hF.knownU hmU h1 h2).1 h)
      (hLL1 _ rulesU hmU)
  have hd : dget A P.prods = some rulesG := dget_of_mem_nodup hF.hndG hmG
  have hkey := l1z_key hF (endS := endSym) hBel rfl hd hmU hLLs
  exact List.Pairwise.imp_of_mem
    (fun h1 h2 h => (predDisjoint_iff_predS hB.hN hB.hFi hB.hFo hF.hkG hF.knownG hmG h1 h2).2 h)
    hkey

end LL

section
open LL
#print axioms ll1_unambiguous
end
