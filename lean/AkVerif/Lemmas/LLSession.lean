import AkVerif.Model.LLDriver
import AkVerif.Lemmas.LLC03
import AkVerif.Lemmas.LLFactAll
/-!
A parser object has no memory between calls: the handler the drivers execute leaves the parser
untouched on every request except `g` (construct) and `reset`; `parse(…, start_symbol_name=X)` is the
same loop on the same table started from `X`, so soundness (C01) and totality (C03) carry over.
-/
set_option linter.unusedSectionVars false
namespace LL
open Ak

theorem handle_keeps_state (st : Drv.DState) (line : String)
    (h1 : ∀ rest, Ak.Proto.splitWs line ≠ "reset" :: rest) (h2 : ∀ args, Ak.Proto.splitWs line ≠ "g" :: args)
    (h3 : ∀ k, Ak.Proto.splitWs line ≠ ["use", k]) :
    (Drv.handle st line).1 = st := by
  unfold Drv.handle
  split
  · rename_i rest heq; exact absurd heq (h1 rest)
  · rename_i args heq; exact absurd heq (h2 args)
  · rename_i k heq; exact absurd heq (h3 k)
  · split <;> rfl
  · split <;> rfl
  · split <;> rfl
  · split <;> rfl
  · split <;> rfl
  · rfl

theorem handleG_slots (st : Drv.DState) (args : List String) :
    ∃ new, (Drv.handleG st args).1.slots = st.slots ++ new := by
  unfold Drv.handleG
  split
  · rename_i T seqs inp _
    unfold Drv.addResult
    cases constructGN (Drv.nonullOf args) T inp with
    | ok P => exact ⟨[(P, seqs)], rfl⟩
    | error e => exact ⟨[], by simp⟩
  · exact ⟨[], by simp⟩

/-- no request except `reset` alters or removes an existing parser object: the earlier parsers of a
case stay exactly what their own constructor call made them, whatever is constructed or parsed later -/
theorem handle_slots_prefix (st : Drv.DState) (line : String)
    (h1 : ∀ rest, Ak.Proto.splitWs line ≠ "reset" :: rest) :
    ∃ new, (Drv.handle st line).1.slots = st.slots ++ new := by
  unfold Drv.handle
  split
  · rename_i rest heq; exact absurd heq (h1 rest)
  · exact handleG_slots st _
  · split <;> exact ⟨[], by simp⟩
  · split <;> exact ⟨[], by simp⟩
  · split <;> exact ⟨[], by simp⟩
  · split <;> exact ⟨[], by simp⟩
  · split <;> exact ⟨[], by simp⟩
  · split <;> exact ⟨[], by simp⟩
  · exact ⟨[], by simp⟩

/-- without templates `constructG` is `construct` -/
theorem createProdsT_none : ∀ (l : List (List Char × List (List (List Char)))) (n : Nat) (acc : Prods Sym),
    createProdsT Tmpl.none n l acc = createProds n l acc
  | [], n, acc => by simp [createProdsT, createProds]
  | (s, alts) :: rest, n, acc => by
    simp only [createProdsT, createProds, Tmpl.none, List.not_mem_nil, not_false_eq_true, true_and]
    split
    · rfl
    · split
      · rfl
      · split
        · rfl
        · exact createProdsT_none rest _ _

theorem constructG_none (inp : CtorIn) : constructG Tmpl.none inp = construct inp := by
  unfold constructG construct
  simp only [createProdsT_none]

theorem parseFrom_eq (P : Parser) (s : List Char) (raw : List (List Char × List Char)) (fuel : Nat)
    (hs : parseSym s ∈ P.prods.map (·.1)) :
    P.parseFrom s raw fuel = ({ P with start := parseSym s } : Parser).parse raw fuel := by
  have hr : ({ P with start := parseSym s } : Parser).rename = P.rename := by
    funext r; rfl
  simp only [Parser.parseFrom, hs, if_true, Parser.parse]
  rfl

theorem parseFrom_not_key (P : Parser) (s : List Char) (raw : List (List Char × List Char)) (fuel : Nat)
    (hs : parseSym s ∉ P.prods.map (·.1)) : P.parseFrom s raw fuel = .error .assertion := by
  simp [Parser.parseFrom, hs]

/-- C01 for `parse(text, start_symbol_name=s)`, `s` one of the user's symbols -/
theorem parseFrom_sound {inp : CtorIn} {P : Parser} (hB : Built inp P) (s : List Char)
    (hs : s ∈ inp.prods.map (·.1)) (raw : List (List Char × List Char))
    (hEnd : ∀ tok ∈ (P.tokens raw).dropLast, tok.name ≠ endSym)
    (fuel : Nat) (t : Tree Sym) (h : P.parseFrom s raw fuel = .ok t) :
    t.name = parseSym s ∧ Derives P.terminals P.userProds t ∧ NoHelper P.suffix t ∧
      t.yield = (P.tokens raw).dropLast := by
  obtain ⟨hD, _⟩ := factRelD_of_built hB
  have hsU : parseSym s ∈ pkeys P.userProds := by
    obtain ⟨_, hk, _⟩ := createProds_wf inp.prods 0 [] P.userProds hB.hU userWF_nil
    rw [hk]
    simp only [pkeys, List.map_nil, List.nil_append, List.mem_map]
    obtain ⟨e, he, hes⟩ := List.mem_map.1 hs
    exact ⟨e, he, by rw [hes]⟩
  have hsG : parseSym s ∈ pkeys P.prods := hD.keys _ hsU
  rw [parseFrom_eq P s raw fuel hsG] at h
  let P' : Parser := { P with start := parseSym s }
  have hC : Core P' := hB.core.withStart hsG
  exact parse_sound_of_rel (P := P') hC (factRel_of_D hC.hV hD) hsU raw hEnd fuel t h

/-- C03 for `parse(text, start_symbol_name=s)`, any `s`: an `AssertionError` when `s` is not a key of the
factorised dictionary, otherwise a tree or `ParsingError` -/
theorem parseFrom_total {inp : CtorIn} {P : Parser} (hB : Built inp P) (s : List Char)
    (raw : List (List Char × List Char)) :
    ∃ k, ∀ fuel, k ≤ fuel → (∃ t, P.parseFrom s raw fuel = .ok t) ∨
      P.parseFrom s raw fuel = .error .parsingError ∨ P.parseFrom s raw fuel = .error .assertion := by
  by_cases hs : parseSym s ∈ P.prods.map (·.1)
  · obtain ⟨hnd, hsuf⟩ := built_struct hB
    let P' : Parser := { P with start := parseSym s }
    have hC : Core P' := hB.core.withStart hs
    obtain ⟨k, hk⟩ := parse_total_of_built (P := P') hC hnd hsuf raw
    refine ⟨k, fun fuel hf => ?_⟩
    rw [parseFrom_eq P s raw fuel hs]
    rcases hk fuel hf with h | h
    · exact Or.inl h
    · exact Or.inr (Or.inl h)
  · exact ⟨0, fun fuel _ => Or.inr (Or.inr (parseFrom_not_key P s raw fuel hs))⟩

end LL
