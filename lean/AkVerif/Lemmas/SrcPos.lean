import AkVerif.Lemmas.SrcPosTok
import AkVerif.Lemmas.SrcPosCover
import AkVerif.Lemmas.SrcPosText
import AkVerif.Lemmas.SrcPosTree
/-!
Helper lemmas for C04 (core Lean only): `SrcPosTok` (the tokenizer), `SrcPosText` (text and
`get_orig_text`), `SrcPosTree` (node spans), and here what combines them.
-/
namespace SrcPos
open Ak

/-- every match ends inside its line -/
def ReIn (re : Re) (lines : List (List Char)) : Prop :=
  (∀ i c m l, re.norm i c = some m → lines[i]? = some l → m.stop ≤ l.length) ∧
  (∀ k i c m l, re.body k i c = some m → lines[i]? = some l → m.stop ≤ l.length)

/-- an ordinary token: `get_orig_text` is the lexeme (everything `re` matched), which is also the
slice of the whole text between the token's offsets -/
theorem plain_orig {cfg : Cfg} {re : Re} {lines olines : List (List Char)} {t : Tok} {i c : Nat} {m : Match}
    (hp : IsPlain cfg re lines t i c m) (hre : ReIn re lines) (hext : Ext lines olines) :
    ∃ line, lines[i]? = some line ∧
      getOrigText Bases.std olines t.s t.e = .ok (slice line c m.stop) ∧
      slice line c m.stop = slice (joinNl olines) (offset olines i c) (offset olines i m.stop) := by
  obtain ⟨line, hl, hc, hm, hadv, _, rfl⟩ := hp
  obtain ⟨r, hr⟩ := hext i line hl
  have hstop : m.stop ≤ line.length := hre.1 i c m line hm hl
  refine ⟨line, hl, ?_, ?_⟩
  · simp only [plainTok]
    rw [getOrigText_sameLine hr (by omega) (by simp; omega), slice_append_left _ _ _ _ hstop]
  · rw [flat_same hr (by simp; omega), slice_append_left _ _ _ _ hstop]

/-- a span token: `get_orig_text` is the whole region of the text from the first character of the
opener to the last character of the closer -/
theorem span_orig {cfg : Cfg} {re : Re} {lines olines : List (List Char)} {t : Tok} {i c : Nat} {m : Match}
    {j d : Nat} {m' : Match} (hs : IsSpanTok cfg re lines t i c m j d m') (hre : ReIn re lines)
    (hext : Ext lines olines) :
    getOrigText Bases.std olines t.s t.e =
      .ok (slice (joinNl olines) (offset olines i c) (offset olines j m'.stop)) := by
  obtain ⟨⟨li, hli, hc, hm, hadv, _⟩, ⟨lj, hlj, hd⟩, hb, hadv', hord, _, hts, hte⟩ := hs
  obtain ⟨ri, hri⟩ := hext i li hli
  obtain ⟨rj, hrj⟩ := hext j lj hlj
  have h1 : m.stop ≤ li.length := hre.1 i c m li hm hli
  have h2 : m'.stop ≤ lj.length := hre.2 _ j d m' lj hb hlj
  rw [hts, hte]
  apply getOrigText_flat hri hrj (by simp; omega) (by simp; omega)
  rcases hord with h | ⟨rfl, h⟩
  · exact Or.inl h
  · exact Or.inr ⟨rfl, by omega⟩

/-- the run-time check of the driver establishes the hypothesis `ReIn` -/
theorem reOfTable_in (sk : List Nat) (lines : List (List Char)) (tbl : List LineTbl)
    (h : tableOk sk lines tbl = true) : ReIn (reOfTable sk tbl) lines := by
  induction lines generalizing tbl with
  | nil =>
    constructor
    · intro i c m l _ hl; simp at hl
    · intro k i c m l _ hl; simp at hl
  | cons l0 ls ih =>
    cases tbl with
    | nil => simp [tableOk] at h
    | cons r rs =>
      simp only [tableOk, Bool.and_eq_true] at h
      obtain ⟨⟨⟨⟨⟨_, _⟩, _⟩, hn⟩, hb⟩, hrest⟩ := h
      obtain ⟨ih1, ih2⟩ := ih rs hrest
      constructor
      · intro i c m l hm hl
        cases i with
        | zero =>
          simp at hl; subst hl
          simp only [reOfTable, List.getElem?_cons_zero] at hm
          split at hm
          · rename_i e he
            subst hm
            have hmem := List.mem_of_getElem? he
            have := List.all_eq_true.mp hn _ hmem
            simpa [entryIn] using this
          · cases hm
        | succ i =>
          simp at hl
          exact ih1 i c m l (by simpa [reOfTable] using hm) hl
      · intro k i c m l hm hl
        cases i with
        | zero =>
          simp at hl; subst hl
          simp only [reOfTable, List.getElem?_cons_zero] at hm
          split at hm
          · rename_i r' j hr hj
            cases hr
            split at hm
            · rename_i row hrow
              split at hm
              · rename_i e he
                subst hm
                have hmem := List.mem_of_getElem? he
                have hrmem := List.mem_of_getElem? hrow
                have := List.all_eq_true.mp (List.all_eq_true.mp hb _ hrmem) _ hmem
                simpa [entryIn] using this
              · cases hm
            · cases hm
          · cases hm
        | succ i =>
          simp at hl
          exact ih2 k i c m l (by simpa [reOfTable] using hm) hl


theorem mem_dropLast_filter_snoc {α} (q : α → Bool) (ts : List α) (e x : α)
    (h : x ∈ ((ts ++ [e]).filter q).dropLast) : x ∈ ts := by
  rw [List.filter_append] at h
  by_cases hq : q e = true
  · simp [List.filter, hq] at h
    exact h.1
  · simp [List.filter, hq] at h
    exact (List.mem_filter.mp (List.dropLast_subset _ h)).1

/-- the token list of a text satisfies the hypothesis of `spanT_spec`, as long as `$END$` is not
consumed -/
theorem noEq_of_tokens_filter {p0 : Pos} {ts : List Tok} {e : Tok} (hl : Linked p0 (ts ++ [e]))
    (hne : ∀ t ∈ ts, t.s < t.e) (he : e.s ≤ e.e) (q : Tok → Bool) :
    NoEq (((ts ++ [e]).filter q).map Tok.span)
      ((((ts ++ [e]).filter q).map Tok.span).length - 1) := by
  have hw : ∀ t ∈ ts ++ [e], t.s ≤ t.e := by
    intro t ht
    rcases List.mem_append.mp ht with h | h
    · exact Pos.le_of_lt (hne t h)
    · simp at h; subst h; exact he
  have hpw := Linked_pairwise hl hw
  have hpw2 : (((ts ++ [e]).filter q).map Tok.span).Pairwise (fun x y => x.e ≤ y.s) := by
    rw [List.pairwise_map]
    exact hpw.filter _
  generalize hL : ((ts ++ [e]).filter q).map Tok.span = L at *
  have hdl : ∀ x ∈ L.dropLast, x.s < x.e := by
    intro x hx
    rw [← hL, ← List.map_dropLast] at hx
    obtain ⟨t, ht, rfl⟩ := List.mem_map.mp hx
    exact hne t (mem_dropLast_filter_snoc _ ts e t ht)
  intro a b sa sb hab hb ha' hb'
  have hbm : sb ∈ L.dropLast := by
    have : L.dropLast[b]? = some sb := by
      rw [List.getElem?_dropLast]; simp [hb, hb']
    exact List.mem_of_getElem? this
  have ham : sa ∈ L.dropLast := by
    have : L.dropLast[a]? = some sa := by
      rw [List.getElem?_dropLast]; simp [show a < L.length - 1 by omega, ha']
    exact List.mem_of_getElem? this
  have h1 := hdl sa ham
  have h2 := hdl sb hbm
  by_cases hab' : a = b
  · subst hab'
    rw [ha'] at hb'; cases hb'
    exact Pos.ne_of_lt h1
  · have hlt : a < b := by omega
    obtain ⟨hal, hae⟩ := List.getElem?_eq_some_iff.mp ha'
    obtain ⟨hbl, hbe⟩ := List.getElem?_eq_some_iff.mp hb'
    have := (List.pairwise_iff_getElem.mp hpw2) a b hal hbl hlt
    rw [hae, hbe] at this
    exact Pos.ne_of_lt (Pos.lt_of_lt_of_le h1 (Pos.le_trans this (Pos.le_of_lt h2)))


theorem noEq_of_tokens {p0 : Pos} {ts : List Tok} {e : Tok} (hl : Linked p0 (ts ++ [e]))
    (hne : ∀ t ∈ ts, t.s < t.e) (he : e.s ≤ e.e) (skip : List Nat) :
    NoEq ((dropSkipped skip (ts ++ [e])).map Tok.span)
      (((dropSkipped skip (ts ++ [e])).map Tok.span).length - 1) :=
  noEq_of_tokens_filter hl hne he _

/-- the text as one string -/
def flatText : Input → List Char
  | .str t => t
  | .lines ls => joinNl ls

theorem joinNl_origLines (inp : Input) : joinNl (origLines inp) = flatText inp := by
  cases inp with
  | str t => exact joinNl_splitNl t
  | lines ls => rfl

/-! ## positions inside the text; text of a node -/

/-- a position inside the text: column `c` (0-based, may be the end of the line) of line `i` -/
def Valid (lines : List (List Char)) (p : Pos) : Prop :=
  ∃ i c l, lines[i]? = some l ∧ c ≤ l.length ∧ p = ⟨1 + i, c + 1⟩

theorem Valid.ext {lines olines : List (List Char)} (hext : Ext lines olines) {p : Pos}
    (h : Valid lines p) : Valid olines p := by
  obtain ⟨i, c, l, hl, hc, rfl⟩ := h
  obtain ⟨r, hr⟩ := hext i l hl
  exact ⟨i, c, _, hr, by simp; omega, rfl⟩

theorem origin_valid {cfg : Cfg} {re : Re} {lines : List (List Char)} {t : Tok}
    (ho : Origin cfg re lines t) (hre : ReIn re lines) : Valid lines t.s ∧ Valid lines t.e := by
  rcases ho with ⟨i, c, m, line, hl, hc, hm, hadv, _, rfl⟩ |
    ⟨i, c, m, j, d, m', ⟨li, hli, hc, hm, _⟩, ⟨lj, hlj, hd⟩, hb, _, _, _, hts, hte⟩
  · exact ⟨⟨i, c, line, hl, by omega, rfl⟩, ⟨i, m.stop, line, hl, hre.1 i c m line hm hl, rfl⟩⟩
  · exact ⟨⟨i, c, li, hli, by omega, hts⟩, ⟨j, m'.stop, lj, hlj, hre.2 _ j d m' lj hb hlj, hte⟩⟩

theorem lastEnd_mem (p : Pos) (ts : List Tok) (h : ts ≠ []) : ∃ t ∈ ts, lastEnd p ts = t.e := by
  induction ts generalizing p with
  | nil => exact absurd rfl h
  | cons a as ih =>
    cases as with
    | nil => exact ⟨a, by simp, rfl⟩
    | cons b bs =>
      obtain ⟨t, ht, he⟩ := ih a.e (by simp)
      exact ⟨t, List.mem_cons_of_mem _ ht, he⟩

theorem lastEnd_getLast (p : Pos) (ts : List Tok) (t : Tok) (h : ts.getLast? = some t) :
    lastEnd p ts = t.e := by
  induction ts generalizing p with
  | nil => simp at h
  | cons a as ih =>
    cases as with
    | nil => simp at h; subst h; rfl
    | cons b bs => exact ih a.e (by simpa using h)

/-- every position carried by a token (`$END$` included) lies inside the text -/
theorem tokens_valid {cfg : Cfg} {re : Re} {lines : List (List Char)} {toks : List Tok}
    (h : tokenize Bases.std cfg re lines = .ok toks) (hre : ReIn re lines) (hne : lines ≠ []) :
    ∀ t ∈ toks, Valid lines t.s ∧ Valid lines t.e := by
  have horig := tokenize_origin h
  obtain ⟨st, ts, hrun, _, rfl⟩ := tokenize_ok h
  obtain ⟨_, _, h3, _⟩ := RunLines_linked hrun StInv_init
  simp only [List.dropLast_concat] at horig
  intro t ht
  rcases List.mem_append.mp ht with h | h
  · exact origin_valid (horig t h) hre
  · simp at h; subst h
    have : Valid lines st.prevEnd := by
      rw [h3]
      by_cases hts : ts = []
      · subst hts
        cases lines with
        | nil => exact absurd rfl hne
        | cons l ls => exact ⟨0, 0, l, by simp, by omega, rfl⟩
      · obtain ⟨t, ht, he⟩ := lastEnd_mem ⟨1, 1⟩ ts hts
        rw [he]; exact (origin_valid (horig t ht) hre).2
    exact ⟨this, this⟩

/-- `get_orig_text` of any span between two positions of the text is the text between them -/
theorem getOrigText_valid {lines : List (List Char)} {s e : Pos} (hs : Valid lines s) (he : Valid lines e)
    (hle : s ≤ e) :
    ∃ i a j b, s = ⟨1 + i, a + 1⟩ ∧ e = ⟨1 + j, b + 1⟩ ∧
      getOrigText Bases.std lines s e = .ok (slice (joinNl lines) (offset lines i a) (offset lines j b)) := by
  obtain ⟨i, a, li, hli, ha, rfl⟩ := hs
  obtain ⟨j, b, lj, hlj, hb, rfl⟩ := he
  refine ⟨i, a, j, b, rfl, rfl, getOrigText_flat hli hlj ha hb ?_⟩
  simp only [Pos.le_def] at hle; omega

/-- `get_orig_text` of a node whose span is as `Good` says is the text from the start of its first token
to the end of its last token -/
theorem good_orig {L : List Span} {olines : List (List Char)}
    (hv : ∀ x ∈ L, Valid olines x.s ∧ Valid olines x.e) (hpw : L.Pairwise (fun x y => x.e ≤ y.s))
    (hw : ∀ x ∈ L, x.s ≤ x.e) {n : NodeInfo} (hg : Good L n) :
    ∃ i a j b, n.span.s = ⟨1 + i, a + 1⟩ ∧ n.span.e = ⟨1 + j, b + 1⟩ ∧
      getOrigText Bases.std olines n.span.s n.span.e =
        .ok (slice (joinNl olines) (offset olines i a) (offset olines j b)) := by
  obtain ⟨hle, first, hf, h1, h2⟩ := hg
  have hfm := List.mem_of_getElem? hf
  by_cases heq : n.lo = n.hi
  · rw [h1 heq]
    exact getOrigText_valid (hv first hfm).1 (hv first hfm).1 (Pos.le_refl _)
  · obtain ⟨last, hl, hsp⟩ := h2 (by omega)
    have hlm := List.mem_of_getElem? hl
    rw [hsp]
    have key : first.s ≤ last.e := by
      by_cases h3 : n.lo = n.hi - 1
      · have : first = last := by rw [h3, hl] at hf; cases hf; rfl
        rw [this]; exact hw last hlm
      · obtain ⟨ha, hae⟩ := List.getElem?_eq_some_iff.mp hf
        obtain ⟨hb, hbe⟩ := List.getElem?_eq_some_iff.mp hl
        have := (List.pairwise_iff_getElem.mp hpw) n.lo (n.hi - 1) ha hb (by omega)
        rw [hae, hbe] at this
        exact Pos.le_trans (hw first hfm) (Pos.le_trans this (hw last hlm))
    exact getOrigText_valid (hv first hfm).1 (hv last hlm).2 key


/-- every input except the list of zero lines has at least one line for the tokenizer (a `str` always has:
`"".split("\n") == [""]`) -/
theorem tokLines_ne_nil (ws : Char → Bool) {inp : Input} (h : inp ≠ .lines []) : tokLines ws inp ≠ [] := by
  cases inp with
  | str t => simp [tokLines, splitNl_ne_nil]
  | lines ls =>
    intro he
    simp only [tokLines] at he
    exact h (by rw [he])

end SrcPos
