import AkVerif.Lemmas.LLLl1Defs
/-!
A symbol that has rules is nullable or has a non-empty (semantic) FIRST set, provided the grammar has
no `Reach1`-cycle (given as a `rank` that decreases along `Reach1` edges into keys):

* `nullable_or_first`     — `X ∈ pkeys D → X ∈ N ∨ ∃ t, First D T N X t`,
* `seq_nullable_or_first` — the same for a sequence of known symbols (`NullIn` / `FirstSeq`).

Both need `hkT : ∀ k ∈ pkeys D, k ∉ T` (keys are not terminals): a symbol of a rule that is not a
terminal is a key by `hknown`, and `First.nonterm` wants exactly "not a terminal".
-/
set_option linter.unusedSectionVars false
namespace LL

section Generic
variable {σ : Type} [DecidableEq σ]

/-- a sequence is `NullIn`, or it has a first symbol that is not (a non-terminal in `N`), behind a
`NullIn` prefix -/
theorem l1n_split (T N : List σ) : ∀ (l : List σ),
    NullIn T N l ∨ ∃ pre s post, l = pre ++ s :: post ∧ NullIn T N pre ∧ ¬ (s ∉ T ∧ s ∈ N)
  | [] => Or.inl (fun s hs => by simp at hs)
  | a :: rest => by
    by_cases ha : a ∉ T ∧ a ∈ N
    · rcases l1n_split T N rest with h | ⟨pre, s, post, hl, hpre, hs⟩
      · left
        intro x hx
        rcases List.mem_cons.1 hx with e | hx
        · subst e; exact ha
        · exact h x hx
      · right
        refine ⟨a :: pre, s, post, by rw [hl]; rfl, ?_, hs⟩
        intro x hx
        rcases List.mem_cons.1 hx with e | hx
        · subst e; exact ha
        · exact hpre x hx
    · exact Or.inr ⟨[], a, rest, rfl, fun s hs => by simp at hs, ha⟩

/-- the symbol behind a `NullIn` prefix of a rule of `X` is a `Reach1`-successor of `X` -/
theorem l1n_reach1 {D : Prods σ} {T N : List σ} {X : σ} {rules : List (Rule σ)} {r : Rule σ}
    {pre post : List σ} {s : σ} (hm : (X, rules) ∈ D) (hr : r ∈ rules)
    (hl : r.rhs = pre ++ s :: post) (hpre : NullIn T N pre) : Reach1 D N X s := by
  refine ⟨rules, r, pre.length, hm, hr, ?_, ?_⟩
  · rw [hl]
    intro x hx
    have : x ∈ pre := by simpa using hx
    exact (hpre x this).2
  · rw [hl]; simp

end Generic

theorem l1n_aux {D : Prods Sym} {T N : List Sym} (hN : nullables D = .ok N)
    (hne : ∀ X rules, (X, rules) ∈ D → rules ≠ [])
    (hknown : ∀ s ∈ psyms D, s ∈ T ∨ s ∈ pkeys D)
    (hkT : ∀ k ∈ pkeys D, k ∉ T)
    (rank : Sym → Nat) (hrank : ∀ X Y, Reach1 D N X Y → Y ∈ pkeys D → rank Y < rank X) :
    ∀ (n : Nat) (X : Sym), rank X < n → X ∈ pkeys D → X ∈ N ∨ ∃ t, First D T N X t
  | 0, _, h, _ => absurd h (Nat.not_lt_zero _)
  | n + 1, X, h, hX => by
    have hX' := hX
    unfold pkeys at hX'
    obtain ⟨⟨X', rules⟩, hm, e⟩ := List.mem_map.1 hX'
    simp only at e
    subst e
    obtain ⟨r, hr⟩ := List.exists_mem_of_ne_nil rules (hne X' rules hm)
    rcases l1n_split T N r.rhs with hall | ⟨pre, s, post, hl, hpre, hs⟩
    · exact Or.inl (nullables_closed hN X' rules hm r hr (fun s hs => (hall s hs).2))
    · by_cases hsT : s ∈ T
      · exact Or.inr ⟨s, First.term hm hr hl hpre hsT⟩
      · have hsN : s ∉ N := fun hn => hs ⟨hsT, hn⟩
        have hsK : s ∈ pkeys D := by
          rcases hknown s (mem_psyms.2 ⟨X', rules, hm, r, hr, by rw [hl]; simp⟩) with h1 | h1
          · exact absurd h1 hsT
          · exact h1
        have hlt := hrank X' s (l1n_reach1 hm hr hl hpre) hsK
        rcases l1n_aux hN hne hknown hkT rank hrank n s (by omega) hsK with h1 | ⟨t, ht⟩
        · exact absurd h1 hsN
        · exact Or.inr ⟨t, First.nonterm hm hr hl hpre hsT ht⟩

/-- a symbol with rules is nullable or has a non-empty FIRST set (`rank`: no `Reach1`-cycle) -/
theorem nullable_or_first {D : Prods Sym} {T N : List Sym} (hN : nullables D = .ok N)
    (hne : ∀ X rules, (X, rules) ∈ D → rules ≠ [])
    (hknown : ∀ s ∈ psyms D, s ∈ T ∨ s ∈ pkeys D)
    (hkT : ∀ k ∈ pkeys D, k ∉ T)
    (rank : Sym → Nat) (hrank : ∀ X Y, Reach1 D N X Y → Y ∈ pkeys D → rank Y < rank X) :
    ∀ X, X ∈ pkeys D → X ∈ N ∨ ∃ t, First D T N X t :=
  fun X hX => l1n_aux hN hne hknown hkT rank hrank (rank X + 1) X (Nat.lt_succ_self _) hX

/-- a sequence of known symbols is nullable or has a non-empty FIRST set -/
theorem seq_nullable_or_first {D : Prods Sym} {T N : List Sym} (hN : nullables D = .ok N)
    (hne : ∀ X rules, (X, rules) ∈ D → rules ≠ [])
    (hknown : ∀ s ∈ psyms D, s ∈ T ∨ s ∈ pkeys D)
    (hkT : ∀ k ∈ pkeys D, k ∉ T)
    (rank : Sym → Nat) (hrank : ∀ X Y, Reach1 D N X Y → Y ∈ pkeys D → rank Y < rank X)
    {e : List Sym} (he : ∀ x ∈ e, x ∈ T ∨ x ∈ pkeys D) :
    NullIn T N e ∨ ∃ t, FirstSeq D T N e t := by
  rcases l1n_split T N e with hall | ⟨pre, s, post, hl, hpre, hs⟩
  · exact Or.inl hall
  · right
    by_cases hsT : s ∈ T
    · exact ⟨s, (lst_FirstInM_split _ _).2 ⟨pre, s, post, hl, hpre, Or.inl ⟨hsT, rfl⟩⟩⟩
    · have hsN : s ∉ N := fun hn => hs ⟨hsT, hn⟩
      have hsK : s ∈ pkeys D := by
        rcases he s (by rw [hl]; simp) with h1 | h1
        · exact absurd h1 hsT
        · exact h1
      rcases nullable_or_first hN hne hknown hkT rank hrank s hsK with h1 | ⟨t, ht⟩
      · exact absurd h1 hsN
      · exact ⟨t, (lst_FirstInM_split _ _).2 ⟨pre, s, post, hl, hpre, Or.inr ⟨hsT, ht⟩⟩⟩

end LL

section
open LL
#print axioms nullable_or_first
#print axioms seq_nullable_or_first
end
