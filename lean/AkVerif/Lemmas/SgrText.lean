import AkVerif.Lemmas.Sgr
/-! Helper lemmas for C09, part 2: what `mkSeq` with the standard constants emits, as seen by the
terminal (`PreShows`/`SufResets`/`Good`) and by `strip` (`Strippable`); `CHText` construction
(`buildGo`) preserves both; characters of the sequences and their UTF-8 bytes. -/
namespace Sgr
open Ak

def codesOf (b : Bool) : Colour → List (List Char)
  | .dflt => []
  | c => [elemOf b c]

theorem optElement_spec (b : Bool) (c : ColorSpec) :
    optElement std b c =
      match wantedColour c with
      | some col => .ok (codesOf b col)
      | none => .error .valueError := by
  by_cases hc : c = .none
  · subst hc; rfl
  · have h1 : optElement std b c =
        match seqElement std b c with
        | .ok x => .ok [x]
        | .error e => .error e := by
      cases c <;> first | exact absurd rfl hc | rfl
    rw [h1, seqElement_spec b c hc]
    cases hw : wantedColour c with
    | none => rfl
    | some col =>
      rcases wantedColour_wf c col hw with ⟨h, _⟩ | ⟨_, hwf⟩
      · exact absurd h hc
      · cases col with
        | dflt => exact absurd hwf (by simp [WFc])
        | basic k => rfl
        | idx n => rfl

/-- the parameters of a valid, coloured formatter -/
def codesFor (s : Spec) (a : Attr) : List (List Char) :=
  codesOf false a.fg ++ codesOf true a.bg ++ effectCodes std s

theorem mkSeq_nocolor (cfg : SgrCfg) (s : Spec) (h : s.noColor = true) : mkSeq cfg s = .ok ([], []) := by
  simp [mkSeq, h]

theorem mkSeq_invalid (s : Spec) (h : wantedAttr s = none) : mkSeq std s = .error .valueError := by
  unfold wantedAttr at h
  by_cases hn : s.noColor = true
  · simp [hn] at h
  · simp only [hn] at h
    simp only [mkSeq, hn, colorCodes, optElement_spec]
    cases hf : wantedColour s.fg with
    | none => rfl
    | some f =>
      cases hb : wantedColour s.bg with
      | none => rfl
      | some b => simp [hf, hb] at h

theorem mkSeq_valid (s : Spec) (a : Attr) (hn : s.noColor = false) (h : wantedAttr s = some a) :
    mkSeq std s = .ok (match codesFor s a with
      | [] => ([], [])
      | c :: cs => (std.intro ++ joinWith std.joiner (c :: cs) ++ std.final, std.reset)) := by
  unfold wantedAttr at h
  simp only [hn] at h
  cases hf : wantedColour s.fg with
  | none => simp [hf] at h
  | some f =>
    cases hb : wantedColour s.bg with
    | none => simp [hf, hb] at h
    | some b =>
      simp [hf, hb] at h
      subst h
      simp only [mkSeq, hn, colorCodes, optElement_spec, hf, hb, codesFor]
      cases codesOf false f ++ codesOf true b ++ effectCodes std s <;> rfl
/-! what the parameters do and which characters they consist of -/

theorem effect_params :
    parseParam ['1'] = some (.bold true) ∧ parseParam ['2'] = some (.faint true) ∧
    parseParam ['4'] = some (.underline true) ∧ parseParam ['5'] = some (.blink true) ∧
    parseParam ['9'] = some (.crossed true) ∧ parseParam ['0'] = some .reset := by decide +kernel

theorem effects_apply (s : Spec) (a : Attr) :
    applyParams (effectCodes std s) a =
      some { a with bold := a.bold || truthy s.bold, faint := a.faint || truthy s.faint,
                    underline := a.underline || truthy s.underline,
                    blink := a.blink || truthy s.blink, crossed := a.crossed || truthy s.crossed } := by
  obtain ⟨p1, p2, p4, p5, p9, _⟩ := effect_params
  cases h1 : truthy s.bold <;> cases h2 : truthy s.faint <;> cases h3 : truthy s.underline <;>
    cases h4 : truthy s.blink <;> cases h5 : truthy s.crossed <;>
    simp [effectCodes, std, Spec.flag, h1, h2, h3, h4, h5, applyParams, p1, p2, p4, p5, p9, Action.apply]

theorem effect_codes_chars :
    ∀ code ∈ std.effects.map Prod.snd, ∀ c ∈ code, c ∈ codeAlphabet := by decide +kernel

theorem effects_chars (s : Spec) : ∀ code ∈ effectCodes std s, ∀ c ∈ code, c ∈ codeAlphabet := by
  intro code hcode
  have : code ∈ std.effects.map Prod.snd := by
    simp only [effectCodes, List.mem_filterMap] at hcode
    obtain ⟨⟨e, cd⟩, hm, hx⟩ := hcode
    split at hx
    · simp at hx; subst hx; exact List.mem_map.mpr ⟨(e, cd), hm, rfl⟩
    · simp at hx
  exact effect_codes_chars code this
theorem alphabet_facts : ∀ c ∈ codeAlphabet, isParamChar c = true ∧ c ≠ ';' := by decide +kernel

theorem codesOf_chars (b : Bool) (col : Colour) (h : col = .dflt ∨ WFc col) :
    ∀ code ∈ codesOf b col, ∀ c ∈ code, c ∈ codeAlphabet := by
  intro code hcode
  cases col with
  | dflt => simp [codesOf] at hcode
  | basic k =>
    simp [codesOf] at hcode; subst hcode
    exact (basic_ok b k (by simpa [WFc] using h)).2
  | idx n =>
    simp [codesOf] at hcode; subst hcode
    exact (idx_ok b n (by simpa [WFc] using h)).2

def setCol (b : Bool) (col : Colour) (a : Attr) : Attr :=
  match col with
  | .dflt => a
  | c => (actOf b c).apply a

theorem codesOf_apply (b : Bool) (col : Colour) (h : col = .dflt ∨ WFc col) (a : Attr) :
    applyParams (codesOf b col) a = some (setCol b col a) := by
  cases col with
  | dflt => rfl
  | basic k =>
    have := (basic_ok b k (by simpa [WFc] using h)).1
    simp [codesOf, applyParams, this, setCol]
  | idx n =>
    have := (idx_ok b n (by simpa [WFc] using h)).1
    simp [codesOf, applyParams, this, setCol]

theorem wantedAttr_colours (s : Spec) (a : Attr) (hn : s.noColor = false) (h : wantedAttr s = some a) :
    wantedColour s.fg = some a.fg ∧ wantedColour s.bg = some a.bg ∧
    a = ⟨a.fg, a.bg, truthy s.bold, truthy s.faint, truthy s.underline, truthy s.blink, truthy s.crossed⟩ := by
  unfold wantedAttr at h
  simp only [hn] at h
  cases hf : wantedColour s.fg with
  | none => simp [hf] at h
  | some f =>
    cases hb : wantedColour s.bg with
    | none => simp [hf, hb] at h
    | some b => simp [hf, hb] at h; subst h; simp

theorem colour_ok (c : ColorSpec) (col : Colour) (h : wantedColour c = some col) :
    col = .dflt ∨ WFc col := by
  rcases wantedColour_wf c col h with ⟨_, h⟩ | ⟨_, h⟩
  · exact Or.inl h
  · exact Or.inr h

theorem codesFor_chars (s : Spec) (a : Attr) (hn : s.noColor = false) (h : wantedAttr s = some a) :
    ∀ code ∈ codesFor s a, ∀ c ∈ code, c ∈ codeAlphabet := by
  obtain ⟨hf, hb, _⟩ := wantedAttr_colours s a hn h
  intro code hcode
  simp only [codesFor, List.mem_append] at hcode
  rcases hcode with (hc | hc) | hc
  · exact codesOf_chars false a.fg (colour_ok _ _ hf) code hc
  · exact codesOf_chars true a.bg (colour_ok _ _ hb) code hc
  · exact effects_chars s code hc

theorem codesFor_apply (s : Spec) (a : Attr) (hn : s.noColor = false) (h : wantedAttr s = some a) :
    applyParams (codesFor s a) Attr.default = some a := by
  obtain ⟨hf, hb, ha⟩ := wantedAttr_colours s a hn h
  simp only [codesFor, applyParams_append, codesOf_apply false a.fg (colour_ok _ _ hf),
    codesOf_apply true a.bg (colour_ok _ _ hb), effects_apply, Option.bind_some]
  obtain ⟨fg, bg, b1, b2, b3, b4, b5⟩ := a
  simp only [Attr.mk.injEq, true_and] at ha
  obtain ⟨h1, h2, h3, h4, h5⟩ := ha
  subst h1 h2 h3 h4 h5
  cases fg <;> cases bg <;> simp [Attr.default, actOf, Action.apply, setCol]
/-! a formatter as seen by the terminal and by `strip` -/

/-- the prefix shows nothing and switches a terminal in default state to attributes `a` -/
def PreShows (p : List Char) (a : Attr) : Prop :=
  ∀ rest, run .ground Attr.default (p ++ rest) = run .ground a rest

/-- the suffix shows nothing and brings a terminal with attributes `a` back to default -/
def SufResets (q : List Char) (a : Attr) : Prop :=
  ∀ rest, run .ground a (q ++ rest) = run .ground Attr.default rest

/-- `strip` removes the sequence wherever it stands -/
def Strippable (k : CharClass) (fin : Char) (p : List Char) : Prop :=
  ∀ rest, strip k fin (p ++ rest) = strip k fin rest

theorem PreShows_unique (p : List Char) (a b : Attr) (ha : PreShows p a) (hb : PreShows p b) : a = b := by
  have h1 := ha []
  have h2 := hb []
  rw [h1] at h2
  simp [run] at h2
  exact h2

theorem join_chars (c : List Char) (cs : List (List Char))
    (h : ∀ code ∈ c :: cs, ∀ x ∈ code, x ∈ codeAlphabet) :
    ∀ x ∈ joinWith [';'] (c :: cs), x ∈ ';' :: codeAlphabet := by
  intro x hx
  rcases mem_joinWith _ _ _ hx with h1 | ⟨code, hc, hxc⟩
  · simp at h1; simp [h1]
  · exact List.mem_cons_of_mem _ (h code hc x hxc)

theorem seq_alphabet_facts : ∀ c ∈ ';' :: codeAlphabet, isParamChar c = true := by decide +kernel

theorem reset_apply (a : Attr) : applySgr ['0'] a = some Attr.default := by
  have := effect_params.2.2.2.2.2
  simp [applySgr, splitGo, applyParams, this, Action.apply]

theorem std_reset_resets (a : Attr) : SufResets std.reset a := by
  intro rest
  have := run_seq ['0'] rest a (by decide)
  simpa [std, reset_apply] using this

theorem mkSeq_shows (s : Spec) (a : Attr) (h : wantedAttr s = some a) :
    ∃ p q, mkSeq std s = .ok (p, q) ∧ PreShows p a ∧ SufResets q a := by
  by_cases hn : s.noColor = true
  · have : a = Attr.default := by simp [wantedAttr, hn] at h; exact h.symm
    subst this
    exact ⟨[], [], mkSeq_nocolor std s hn, fun _ => rfl, fun _ => rfl⟩
  · have hn : s.noColor = false := by simpa using hn
    have hv := mkSeq_valid s a hn h
    have hap := codesFor_apply s a hn h
    have hch := codesFor_chars s a hn h
    cases hc : codesFor s a with
    | nil =>
      rw [hc] at hv hap
      simp [applyParams] at hap
      subst hap
      exact ⟨[], [], hv, fun _ => rfl, fun _ => rfl⟩
    | cons c cs =>
      rw [hc] at hv hap hch
      refine ⟨_, _, hv, ?_, std_reset_resets a⟩
      intro rest
      have hbody := join_chars c cs hch
      have hsplit : splitGo ';' [] (joinWith [';'] (c :: cs)) = c :: cs := by
        have := splitGo_join ';' [] c cs (fun x hx y hy => (alphabet_facts y (hch x hx y hy)).2)
        simpa using this
      have := run_seq (joinWith [';'] (c :: cs)) rest Attr.default
        (fun x hx => seq_alphabet_facts x (hbody x hx))
      simp only [applySgr, hsplit, hap, Option.bind_some] at this
      simpa [std] using this
theorem mkSeq_strippable (k : CharClass) (fin : Char)
    (hk : ∀ c ∈ ';' :: codeAlphabet, k.mem c = true) (hfin : fin = 'm') (hm : k.mem fin = false)
    (s : Spec) (p q : List Char) (h : mkSeq std s = .ok (p, q)) :
    Strippable k fin p ∧ Strippable k fin q := by
  have hnil : Strippable k fin [] := fun _ => rfl
  cases hw : wantedAttr s with
  | none => rw [mkSeq_invalid s hw] at h; cases h
  | some a =>
    by_cases hn : s.noColor = true
    · rw [mkSeq_nocolor std s hn] at h
      cases h; exact ⟨hnil, hnil⟩
    · have hn : s.noColor = false := by simpa using hn
      have hv := mkSeq_valid s a hn hw
      have hch := codesFor_chars s a hn hw
      cases hc : codesFor s a with
      | nil =>
        rw [hc] at hv; rw [hv] at h
        cases h; exact ⟨hnil, hnil⟩
      | cons c cs =>
        rw [hc] at hv hch; rw [hv] at h
        cases h
        constructor
        · intro rest
          have := strip_seq k fin (joinWith [';'] (c :: cs)) rest
            (fun x hx => hk x (join_chars c cs hch x hx)) hm
          subst hfin
          simpa [std] using this
        · intro rest
          have := strip_seq k fin ['0'] rest (fun x hx => hk x (by simp at hx; subst hx; decide)) hm
          subst hfin
          simpa [std] using this

/-! texts of several chunks -/

/-- `P` holds for the prefix/suffix pair of every chunk and texts are escape-free -/
def AllChunks (P : List Char → List Char → Prop) (cs : List Chunk) : Prop :=
  ∀ c ∈ cs, P c.pre c.suf ∧ NoEsc c.text

theorem buildGo_inv (P : List Char → List Char → Prop) (cur : Option Chunk) (cs : List Chunk)
    (hcur : ∀ p, cur = some p → P p.pre p.suf ∧ NoEsc p.text) (hcs : AllChunks P cs) :
    AllChunks P (buildGo cur cs) := by
  induction cs generalizing cur with
  | nil =>
    cases cur with
    | none => intro c hc; simp [buildGo] at hc
    | some p => intro c hc; simp [buildGo] at hc; rw [hc]; exact hcur p rfl
  | cons c cs ih =>
    have hc := hcs c (by simp)
    have hrest : AllChunks P cs := fun x hx => hcs x (by simp [hx])
    cases cur with
    | none =>
      simp only [buildGo]
      split
      · exact ih none (by simp) hrest
      · exact ih (some c) (by intro p hp; cases hp; exact hc) hrest
    | some p =>
      have hp := hcur p rfl
      simp only [buildGo]
      split
      · exact ih (some p) hcur hrest
      · split
        · exact ih _ (by intro p' hp'; rw [← Option.some.inj hp']; exact ⟨hp.1, NoEsc_append.mpr ⟨hp.2, hc.2⟩⟩) hrest
        · intro x hx
          simp only [List.mem_cons] at hx
          rcases hx with rfl | hx
          · exact hp
          · exact ih (some c) (by intro p' hp'; cases hp'; exact hc) hrest x hx

theorem plain_buildGo (cur : Option Chunk) (cs : List Chunk) :
    plain (buildGo cur cs) = (match cur with | none => [] | some p => p.text) ++ plain cs := by
  induction cs generalizing cur with
  | nil => cases cur <;> simp [buildGo, plain]
  | cons c cs ih =>
    cases cur with
    | none =>
      simp only [buildGo]
      split
      · rename_i h; simp [ih, plain, h]
      · simp [ih, plain]
    | some p =>
      simp only [buildGo]
      split
      · rename_i h; simp [ih, plain, h]
      · split
        · simp [ih, plain]
        · simp [ih, plain]

theorem strip_render (k : CharClass) (fin : Char) (cs : List Chunk)
    (h : AllChunks (fun p q => Strippable k fin p ∧ Strippable k fin q) cs) (rest : List Char) :
    strip k fin (render cs ++ rest) = plain cs ++ strip k fin rest := by
  induction cs with
  | nil => rfl
  | cons c cs ih =>
    obtain ⟨⟨hp, hq⟩, ht⟩ := h c (by simp)
    simp only [render, plain, List.append_assoc]
    rw [hp, strip_text k fin _ _ ht, hq, ih (fun x hx => h x (by simp [hx]))]
/-- chunk `c` is shown with attributes `a` and leaves the terminal in default state -/
def Good (c : Chunk) (a : Attr) : Prop := PreShows c.pre a ∧ SufResets c.suf a ∧ NoEsc c.text

def cellsOf : List (Chunk × Attr) → List (Char × Attr)
  | [] => []
  | (c, a) :: gs => c.text.map (fun x => (x, a)) ++ cellsOf gs

theorem run_chunk (c : Chunk) (a : Attr) (h : Good c a) (rest : List Char) :
    run .ground Attr.default (c.pre ++ (c.text ++ (c.suf ++ rest))) =
      prepend (c.text.map fun x => (x, a)) (run .ground Attr.default rest) := by
  rw [h.1, run_text _ _ _ h.2.2, h.2.1]

theorem buildGo_some_shows (gs : List (Chunk × Attr)) (hg : ∀ g ∈ gs, Good g.1 g.2)
    (p : Chunk) (ap : Attr) (hp : Good p ap) (rest : List Char) :
    run .ground Attr.default (render (buildGo (some p) (gs.map Prod.fst)) ++ rest) =
      prepend (p.text.map (fun x => (x, ap)) ++ cellsOf gs) (run .ground Attr.default rest) := by
  induction gs generalizing p ap with
  | nil =>
    simp only [List.map_nil, buildGo, render, List.append_nil, List.append_assoc, cellsOf]
    exact run_chunk p ap hp rest
  | cons g gs ih =>
    obtain ⟨c, ac⟩ := g
    have hc : Good c ac := hg (c, ac) (by simp)
    have hrest : ∀ g ∈ gs, Good g.1 g.2 := fun x hx => hg x (by simp [hx])
    simp only [List.map_cons, buildGo, cellsOf]
    split
    · rename_i he
      rw [ih hrest p ap hp, he]; simp
    · split
      · rename_i he
        have : ap = ac := PreShows_unique p.pre ap ac hp.1 (he ▸ hc.1)
        subst this
        rw [ih hrest { p with text := p.text ++ c.text } ap ⟨hp.1, hp.2.1, NoEsc_append.mpr ⟨hp.2.2, hc.2.2⟩⟩]
        simp
      · simp only [render, List.append_assoc]
        rw [run_chunk p ap hp, ih hrest c ac hc]
        simp only [prepend_append]

theorem buildGo_none_shows (gs : List (Chunk × Attr)) (hg : ∀ g ∈ gs, Good g.1 g.2)
    (rest : List Char) :
    run .ground Attr.default (render (buildGo none (gs.map Prod.fst)) ++ rest) =
      prepend (cellsOf gs) (run .ground Attr.default rest) := by
  induction gs with
  | nil => simp [buildGo, render, cellsOf, prepend_nil]
  | cons g gs ih =>
    obtain ⟨c, ac⟩ := g
    have hc : Good c ac := hg (c, ac) (by simp)
    have hrest : ∀ g ∈ gs, Good g.1 g.2 := fun x hx => hg x (by simp [hx])
    simp only [List.map_cons, buildGo, cellsOf]
    split
    · rename_i he
      rw [ih hrest, he]; simp
    · exact buildGo_some_shows gs hrest c ac hc rest

/-- a list of good chunks, cut after any chunk, leaves the terminal in default state -/
theorem render_resets (cs : List Chunk)
    (h : AllChunks (fun p q => ∃ a, PreShows p a ∧ SufResets q a) cs) :
    ∃ cells, interp (render cs) = some (cells, Attr.default) := by
  unfold interp
  induction cs with
  | nil => exact ⟨[], rfl⟩
  | cons c cs ih =>
    obtain ⟨⟨a, hp, hq⟩, ht⟩ := h c (by simp)
    obtain ⟨cells, hcells⟩ := ih (fun x hx => h x (by simp [hx]))
    refine ⟨c.text.map (fun x => (x, a)) ++ cells, ?_⟩
    simp only [render, List.append_assoc]
    rw [run_chunk c a ⟨hp, hq, ht⟩, hcells]
    rfl
/-- any list of good chunks (however the texts were split or merged) shows its cells -/
theorem render_shows (gs : List (Chunk × Attr)) (hg : ∀ g ∈ gs, Good g.1 g.2) (rest : List Char) :
    run .ground Attr.default (render (gs.map Prod.fst) ++ rest) =
      prepend (cellsOf gs) (run .ground Attr.default rest) := by
  induction gs with
  | nil => simp [render, cellsOf, prepend_nil]
  | cons g gs ih =>
    obtain ⟨c, a⟩ := g
    simp only [List.map_cons, render, List.append_assoc, cellsOf]
    rw [run_chunk c a (hg (c, a) (by simp)), ih (fun x hx => hg x (by simp [hx])), prepend_append]

/-! from parts (formatter arguments, text) to chunks -/

theorem mkChunks_good (parts : List (Spec × List Char)) (cells : List (Char × Attr))
    (hw : wantedCells parts = some cells) (ht : ∀ p ∈ parts, NoEsc p.2) :
    ∃ gs : List (Chunk × Attr), mkChunks std parts = .ok (gs.map Prod.fst) ∧
      (∀ g ∈ gs, Good g.1 g.2) ∧ cellsOf gs = cells := by
  induction parts generalizing cells with
  | nil =>
    simp [wantedCells] at hw; subst hw
    exact ⟨[], rfl, by simp, rfl⟩
  | cons part parts ih =>
    obtain ⟨s, t⟩ := part
    simp only [wantedCells] at hw
    cases ha : wantedAttr s with
    | none => simp [ha] at hw
    | some a =>
      cases hr : wantedCells parts with
      | none => simp [ha, hr] at hw
      | some cells' =>
        simp [ha, hr] at hw; subst hw
        obtain ⟨gs, hgs, hgood, hcells⟩ := ih cells' hr (fun p hp => ht p (by simp [hp]))
        obtain ⟨p, q, hpq, hp, hq⟩ := mkSeq_shows s a ha
        refine ⟨(⟨p, t, q⟩, a) :: gs, ?_, ?_, ?_⟩
        · simp [mkChunks, mkChunk, hpq, hgs, Except.map]
        · intro g hg
          simp only [List.mem_cons] at hg
          rcases hg with rfl | hg
          · exact ⟨hp, hq, ht (s, t) (by simp)⟩
          · exact hgood g hg
        · simp [cellsOf, hcells]

theorem mkChunks_invalid (parts : List (Spec × List Char)) (hw : wantedCells parts = none) :
    mkChunks std parts = .error .valueError := by
  induction parts with
  | nil => simp [wantedCells] at hw
  | cons part parts ih =>
    obtain ⟨s, t⟩ := part
    simp only [wantedCells] at hw
    cases ha : wantedAttr s with
    | none => simp [mkChunks, mkChunk, mkSeq_invalid s ha, Except.map]
    | some a =>
      obtain ⟨p, q, hpq, _, _⟩ := mkSeq_shows s a ha
      cases hr : wantedCells parts with
      | none => simp [mkChunks, mkChunk, hpq, Except.map, ih hr]
      | some cells' => simp [ha, hr] at hw

theorem mkChunks_inv (P : List Char → List Char → Prop)
    (hP : ∀ s p q, mkSeq std s = .ok (p, q) → P p q)
    (parts : List (Spec × List Char)) (cs : List Chunk)
    (h : mkChunks std parts = .ok cs) (ht : ∀ p ∈ parts, NoEsc p.2) :
    AllChunks P cs ∧ plain cs = parts.flatMap Prod.snd := by
  induction parts generalizing cs with
  | nil => simp [mkChunks] at h; subst h; exact ⟨by intro c hc; simp at hc, rfl⟩
  | cons part parts ih =>
    obtain ⟨s, t⟩ := part
    simp only [mkChunks, mkChunk] at h
    cases hs : mkSeq std s with
    | error e => simp [hs, Except.map] at h
    | ok pq =>
      obtain ⟨p, q⟩ := pq
      cases hr : mkChunks std parts with
      | error e => simp [hs, hr, Except.map] at h
      | ok cs' =>
        simp [hs, hr, Except.map] at h; subst h
        obtain ⟨h1, h2⟩ := ih cs' hr (fun p hp => ht p (by simp [hp]))
        refine ⟨?_, by simp [plain, h2]⟩
        intro c hc
        simp only [List.mem_cons] at hc
        rcases hc with rfl | hc
        · exact ⟨hP s p q hs, ht (s, t) (by simp)⟩
        · exact h1 c hc
/-! characters of the sequences; bytes -/

def seqAlphabet : List Char := ESC :: '[' :: 'm' :: ';' :: codeAlphabet

theorem mkSeq_chars (s : Spec) (p q : List Char) (h : mkSeq std s = .ok (p, q)) :
    ∀ c ∈ p ++ q, c ∈ seqAlphabet := by
  cases hw : wantedAttr s with
  | none => rw [mkSeq_invalid s hw] at h; cases h
  | some a =>
    by_cases hn : s.noColor = true
    · rw [mkSeq_nocolor std s hn] at h
      cases h; simp
    · have hn : s.noColor = false := by simpa using hn
      have hv := mkSeq_valid s a hn hw
      have hch := codesFor_chars s a hn hw
      cases hc : codesFor s a with
      | nil => rw [hc] at hv; rw [hv] at h; cases h; simp
      | cons c cs =>
        rw [hc] at hv hch; rw [hv] at h
        cases h
        intro x hx
        simp only [std, List.mem_append, List.mem_cons, List.not_mem_nil, or_false] at hx
        rcases hx with ((hx | hx) | hx) | hx
        · rcases hx with rfl | rfl <;> decide +kernel
        · have := join_chars c cs hch x hx
          simp only [seqAlphabet, List.mem_cons] at this ⊢
          rcases this with h | h
          · simp [h]
          · right; right; right; right; exact h
        · subst hx; decide +kernel
        · rcases hx with rfl | rfl | rfl | rfl <;> decide +kernel

theorem seqAlphabet_ascii : ∀ c ∈ seqAlphabet, c.toNat < 128 := by decide +kernel

theorem plain_emits_nothing (s : Spec) (h : wantedAttr s = some Attr.default) :
    mkSeq std s = .ok ([], []) := by
  by_cases hn : s.noColor = true
  · exact mkSeq_nocolor std s hn
  · have hn : s.noColor = false := by simpa using hn
    rw [mkSeq_valid s _ hn h]
    obtain ⟨_, _, ha⟩ := wantedAttr_colours s _ hn h
    simp only [Attr.default, Attr.mk.injEq, true_and] at ha
    obtain ⟨h1, h2, h3, h4, h5⟩ := ha
    have : codesFor s Attr.default = [] := by
      simp [codesFor, Attr.default, codesOf, effectCodes, std, Spec.flag, ← h1, ← h2, ← h3, ← h4, ← h5]
    rw [this]

def toByte (c : Char) : UInt8 := UInt8.ofNat c.toNat

theorem utf8_ascii (c : Char) (h : c.toNat < 128) : String.utf8EncodeChar c = [toByte c] := by
  unfold String.utf8EncodeChar toByte
  have h1 : c.val.toNat = c.toNat := c.toNat_val
  have h2 : c.toNat ≤ 127 := by omega
  simp only [h1, if_pos h2]

theorem encodeUtf8_ascii (s : List Char) (h : ∀ c ∈ s, c.toNat < 128) :
    encodeUtf8 s = s.map toByte := by
  induction s with
  | nil => rfl
  | cons c s ih =>
    simp only [encodeUtf8, List.flatMap_cons, List.map_cons] at ih ⊢
    rw [utf8_ascii c (h c (by simp)), ih (fun x hx => h x (by simp [hx]))]
    rfl
end Sgr
