import AkVerif.Model.Interleave
/-!
C16: the decidable shape `WellLocked`, the invariant of well-locked programs under arbitrary
schedules (ghost-log refinement to "take a number atomically", linearisation point = the counter
write) and what follows from it.  Core Lean only.
-/
namespace Interleave

/-! ### the shape -/

/-- positions of the four synchronisation points and the two registers that matter -/
structure Idx where
  A : Nat      -- the `acq`
  W : Nat      -- the counter write
  R : Nat      -- the `rel`
  E : Nat      -- the `ret` (last instruction)
  src : Nat    -- register the write adds 1 to
  r : Nat      -- register that is returned
  deriving Repr, DecidableEq

def isRd : Option Instr → Bool
  | some (.rd _) => true
  | _ => false

/-- `nop* ; acq ; (nop | rd _)* ; wr src 1 ; nop* ; rel ; nop* ; ret r` where both `src` and `r` are
read from the counter inside the section before the write -/
def Shape (p : List Instr) (x : Idx) : Prop :=
  x.A < x.W ∧ x.W < x.R ∧ x.R < x.E ∧ x.E + 1 = p.length ∧
  p[x.A]? = some .acq ∧ p[x.W]? = some (.wr x.src 1) ∧ p[x.R]? = some .rel ∧
  p[x.E]? = some (.ret x.r) ∧
  (∀ k, k < x.A → p[k]? = some .nop) ∧
  (∀ k, k < x.W → x.A < k → (p[k]? = some .nop ∨ isRd p[k]? = true)) ∧
  (∀ k, k < x.R → x.W < k → p[k]? = some .nop) ∧
  (∀ k, k < x.E → x.R < k → p[k]? = some .nop) ∧
  (∃ k, k < x.W ∧ (x.A < k ∧ p[k]? = some (.rd x.src))) ∧
  (∃ k, k < x.W ∧ (x.A < k ∧ p[k]? = some (.rd x.r)))

instance (p : List Instr) (x : Idx) : Decidable (Shape p x) := by
  unfold Shape; infer_instance

def isWr : Instr → Bool
  | .wr _ _ => true
  | _ => false

def isRet : Instr → Bool
  | .ret _ => true
  | _ => false

/-- first `acq`, first write, first `rel`, first `ret`, and the registers found there -/
def findShape (p : List Instr) : Option Idx :=
  match p.findIdx? (· == .acq), p.findIdx? isWr, p.findIdx? (· == .rel), p.findIdx? isRet with
  | some a, some w, some r, some e =>
    match p[w]?, p[e]? with
    | some (.wr src _), some (.ret reg) => some ⟨a, w, r, e, src, reg⟩
    | _, _ => none
  | _, _, _, _ => none

def wellLockedB (p : List Instr) : Bool :=
  match findShape p with
  | some x => decide (Shape p x)
  | none => false

/-- the program has the locked read-and-increment shape -/
def WellLocked (p : List Instr) : Prop := ∃ x, Shape p x

theorem wellLocked_of_check {p : List Instr} (h : wellLockedB p = true) : WellLocked p := by
  unfold wellLockedB at h
  split at h
  · rename_i x _; exact ⟨x, of_decide_eq_true h⟩
  · cases h

/-! position of each kind of instruction in a program of that shape -/
section positions
variable {p : List Instr} {x : Idx} (h : Shape p x)
include h

theorem Shape.classify (k : Nat) (hk : k ≤ x.E) :
    (k < x.A ∧ p[k]? = some .nop) ∨ (k = x.A) ∨
    (x.A < k ∧ k < x.W ∧ (p[k]? = some .nop ∨ isRd p[k]? = true)) ∨ k = x.W ∨
    (x.W < k ∧ k < x.R ∧ p[k]? = some .nop) ∨ k = x.R ∨
    (x.R < k ∧ k < x.E ∧ p[k]? = some .nop) ∨ k = x.E := by
  obtain ⟨h1, h2, h3, _, _, _, _, _, hA, hB, hC, hD, _, _⟩ := h
  by_cases c1 : k < x.A
  · exact Or.inl ⟨c1, hA k c1⟩
  by_cases c2 : k = x.A
  · exact Or.inr (Or.inl c2)
  by_cases c3 : k < x.W
  · exact Or.inr (Or.inr (Or.inl ⟨by omega, c3, hB k c3 (by omega)⟩))
  by_cases c4 : k = x.W
  · exact Or.inr (Or.inr (Or.inr (Or.inl c4)))
  by_cases c5 : k < x.R
  · exact Or.inr (Or.inr (Or.inr (Or.inr (Or.inl ⟨by omega, c5, hC k c5 (by omega)⟩))))
  by_cases c6 : k = x.R
  · exact Or.inr (Or.inr (Or.inr (Or.inr (Or.inr (Or.inl c6)))))
  by_cases c7 : k < x.E
  · exact Or.inr (Or.inr (Or.inr (Or.inr (Or.inr (Or.inr (Or.inl ⟨by omega, c7, hD k c7 (by omega)⟩))))))
  · exact Or.inr (Or.inr (Or.inr (Or.inr (Or.inr (Or.inr (Or.inr (by omega)))))))

theorem Shape.pos_acq {k : Nat} (hk : k ≤ x.E) (hp : p[k]? = some .acq) : k = x.A := by
  have hc := h.classify k hk
  obtain ⟨_, _, _, _, _, hW, hR, hE, _⟩ := h
  rcases hc with c | c | c | c | c | c | c | c
  · simp [hp] at c
  · exact c
  · simp [hp, isRd] at c
  · subst c; simp [hp] at hW
  · simp [hp] at c
  · subst c; simp [hp] at hR
  · simp [hp] at c
  · subst c; simp [hp] at hE

theorem Shape.pos_rel {k : Nat} (hk : k ≤ x.E) (hp : p[k]? = some .rel) : k = x.R := by
  have hc := h.classify k hk
  obtain ⟨_, _, _, _, hA, hW, _, hE, _⟩ := h
  rcases hc with c | c | c | c | c | c | c | c
  · simp [hp] at c
  · subst c; simp [hp] at hA
  · simp [hp, isRd] at c
  · subst c; simp [hp] at hW
  · simp [hp] at c
  · exact c
  · simp [hp] at c
  · subst c; simp [hp] at hE

theorem Shape.pos_wr {k a b : Nat} (hk : k ≤ x.E) (hp : p[k]? = some (.wr a b)) :
    k = x.W ∧ a = x.src ∧ b = 1 := by
  have hc := h.classify k hk
  obtain ⟨_, _, _, _, hA, hW, hR, hE, _⟩ := h
  rcases hc with c | c | c | c | c | c | c | c
  · simp [hp] at c
  · subst c; simp [hp] at hA
  · simp [hp, isRd] at c
  · subst c; simp [hp] at hW; exact ⟨rfl, hW.1, hW.2⟩
  · simp [hp] at c
  · subst c; simp [hp] at hR
  · simp [hp] at c
  · subst c; simp [hp] at hE

theorem Shape.pos_ret {k a : Nat} (hk : k ≤ x.E) (hp : p[k]? = some (.ret a)) :
    k = x.E ∧ a = x.r := by
  have hc := h.classify k hk
  obtain ⟨_, _, _, _, hA, hW, hR, hE, _⟩ := h
  rcases hc with c | c | c | c | c | c | c | c
  · simp [hp] at c
  · subst c; simp [hp] at hA
  · simp [hp, isRd] at c
  · subst c; simp [hp] at hW
  · simp [hp] at c
  · subst c; simp [hp] at hR
  · simp [hp] at c
  · subst c; simp [hp] at hE; exact ⟨rfl, hE⟩

theorem Shape.pos_rd {k d : Nat} (hk : k ≤ x.E) (hp : p[k]? = some (.rd d)) :
    x.A < k ∧ k < x.W := by
  have hc := h.classify k hk
  obtain ⟨_, _, _, _, hA, hW, hR, hE, _⟩ := h
  rcases hc with c | c | c | c | c | c | c | c
  · simp [hp] at c
  · subst c; simp [hp] at hA
  · exact ⟨c.1, c.2.1⟩
  · subst c; simp [hp] at hW
  · simp [hp] at c
  · subst c; simp [hp] at hR
  · simp [hp] at c
  · subst c; simp [hp] at hE

theorem Shape.pos_nop {k : Nat} (hk : k ≤ x.E) (hp : p[k]? = some .nop) :
    k < x.A ∨ (x.A < k ∧ k < x.W) ∨ (x.W < k ∧ k < x.R) ∨ (x.R < k ∧ k < x.E) := by
  have hc := h.classify k hk
  obtain ⟨_, _, _, _, hA, hW, hR, hE, _⟩ := h
  rcases hc with c | c | c | c | c | c | c | c
  · exact Or.inl c.1
  · subst c; simp [hp] at hA
  · exact Or.inr (Or.inl ⟨c.1, c.2.1⟩)
  · subst c; simp [hp] at hW
  · exact Or.inr (Or.inr (Or.inl ⟨c.1, c.2.1⟩))
  · subst c; simp [hp] at hR
  · exact Or.inr (Or.inr (Or.inr ⟨c.1, c.2.1⟩))
  · subst c; simp [hp] at hE

theorem Shape.lt_len {k : Nat} (hk : k ≤ x.E) : ∃ ins, p[k]? = some ins := by
  obtain ⟨_, _, _, hl, _⟩ := h
  have : k < p.length := by omega
  exact ⟨p[k], List.getElem?_eq_getElem this⟩

end positions

/-! ### the invariant -/

/-- pc strictly after the `acq` and not after the `rel` -/
def inSec (x : Idx) (pc : Nat) : Prop := x.A < pc ∧ pc ≤ x.R

/-- the number a thread has taken (it executed the write) but not returned yet -/
def pend (x : Idx) (t : Th) : List Nat := if x.W < t.pc then [t.locals x.r] else []

structure Inv (p : List Instr) (x : Idx) (c0 : Nat) (rem : Nat → Nat) (s : St) : Prop where
  pcE : ∀ i, (s.th i).pc ≤ x.E
  fin : ∀ i, (s.th i).remaining = 0 → (s.th i).pc = 0
  cnt : ∀ i, (s.th i).handed.length + (s.th i).remaining = rem i
  lock : ∀ i, s.lock = some i ↔ inSec x (s.th i).pc
  vals : ∀ i k d, x.A < k → k < (s.th i).pc → (s.th i).pc ≤ x.W → p[k]? = some (.rd d) →
    (s.th i).locals d = s.ctr
  c0le : c0 ≤ s.ctr
  logv : s.log.map (·.2) = List.range' c0 (s.ctr - c0)
  own : ∀ i, (s.log.filter (fun e => e.1 == i)).map (·.2) =
    (s.th i).handed.reverse ++ pend x (s.th i)

theorem inv_init (p : List Instr) (x : Idx) (c0 : Nat) (rem : Nat → Nat) (h : Shape p x) :
    Inv p x c0 rem (initSt c0 rem) := by
  obtain ⟨h1, h2, h3, _⟩ := h
  refine ⟨?_, ?_, ?_, ?_, ?_, ?_, ?_, ?_⟩ <;> simp [initSt, initTh, inSec, pend]

@[simp] theorem setTh_th (s : St) (i : Nat) (t : Th) (j : Nat) :
    (setTh s i t).th j = if j = i then t else s.th j := rfl
@[simp] theorem setTh_ctr (s : St) (i : Nat) (t : Th) : (setTh s i t).ctr = s.ctr := rfl
@[simp] theorem setTh_lock (s : St) (i : Nat) (t : Th) : (setTh s i t).lock = s.lock := rfl
@[simp] theorem setTh_log (s : St) (i : Nat) (t : Th) : (setTh s i t).log = s.log := rfl

section preservation
variable {p : List Instr} {x : Idx} {c0 : Nat} {rem : Nat → Nat} {s : St}

/-- a purely local instruction -/
theorem inv_nop (h : Shape p x) (I : Inv p x c0 rem s) (i : Nat)
    (hr : (s.th i).remaining ≠ 0) (hp : p[(s.th i).pc]? = some .nop) :
    Inv p x c0 rem (setTh s i { s.th i with pc := (s.th i).pc + 1 }) := by
  have hpos := h.pos_nop (I.pcE i) hp
  obtain ⟨h1, h2, h3, _⟩ := h
  refine ⟨?_, ?_, ?_, ?_, ?_, I.c0le, I.logv, ?_⟩
  · intro j; by_cases hj : j = i
    · subst hj; simp; omega
    · simp [hj]; exact I.pcE j
  · intro j; by_cases hj : j = i
    · subst hj; simp; exact hr
    · simp [hj]; exact I.fin j
  · intro j; by_cases hj : j = i
    · subst hj; simp; exact I.cnt j
    · simp [hj]; exact I.cnt j
  · intro j; by_cases hj : j = i
    · subst hj; simp; rw [I.lock j]; unfold inSec; omega
    · simp [hj]; exact I.lock j
  · intro j k d hk1 hk2 hk3 hk4
    by_cases hj : j = i
    · subst hj; simp at hk2 hk3 ⊢
      by_cases hkk : k = (s.th j).pc
      · subst hkk; simp [hp] at hk4
      · exact I.vals j k d hk1 (by omega) (by omega) hk4
    · simp [hj] at hk2 hk3 ⊢; exact I.vals j k d hk1 hk2 hk3 hk4
  · intro j; by_cases hj : j = i
    · subst hj; simp; rw [I.own j]; unfold pend; simp
      by_cases e2 : x.W < (s.th j).pc
      · have e1 : x.W < (s.th j).pc + 1 := by omega
        simp [e1, e2]
      · have e1 : ¬ x.W < (s.th j).pc + 1 := by omega
        simp [e1, e2]
    · simp [hj]; exact I.own j

/-- a read of the counter (inside the section, before the write) -/
theorem inv_rd (h : Shape p x) (I : Inv p x c0 rem s) (i d : Nat)
    (hr : (s.th i).remaining ≠ 0) (hp : p[(s.th i).pc]? = some (.rd d)) :
    Inv p x c0 rem (setTh s i { s.th i with pc := (s.th i).pc + 1, locals := fun y => if y = d then s.ctr else (s.th i).locals y }) := by
  have hpos := h.pos_rd (I.pcE i) hp
  obtain ⟨h1, h2, h3, _⟩ := h
  refine ⟨?_, ?_, ?_, ?_, ?_, I.c0le, I.logv, ?_⟩
  · intro j; by_cases hj : j = i
    · subst hj; simp; omega
    · simp [hj]; exact I.pcE j
  · intro j; by_cases hj : j = i
    · subst hj; simp; exact hr
    · simp [hj]; exact I.fin j
  · intro j; by_cases hj : j = i
    · subst hj; simp; exact I.cnt j
    · simp [hj]; exact I.cnt j
  · intro j; by_cases hj : j = i
    · subst hj; simp; rw [I.lock j]; unfold inSec; omega
    · simp [hj]; exact I.lock j
  · intro j k d' hk1 hk2 hk3 hk4
    by_cases hj : j = i
    · subst hj; simp at hk2 hk3 ⊢
      by_cases hd : d' = d
      · simp [hd]
      · simp [hd]
        by_cases hkk : k = (s.th j).pc
        · subst hkk; rw [hp] at hk4; cases hk4; exact absurd rfl hd
        · exact I.vals j k d' hk1 (by omega) (by omega) hk4
    · simp [hj] at hk2 hk3 ⊢; exact I.vals j k d' hk1 hk2 hk3 hk4
  · intro j; by_cases hj : j = i
    · subst hj; simp; rw [I.own j]; unfold pend; simp
      have e1 : ¬ x.W < (s.th j).pc + 1 := by omega
      have e2 : ¬ x.W < (s.th j).pc := by omega
      simp [e1, e2]
    · simp [hj]; exact I.own j

/-- taking the free lock -/
theorem inv_acq (h : Shape p x) (I : Inv p x c0 rem s) (i : Nat)
    (hr : (s.th i).remaining ≠ 0) (hp : p[(s.th i).pc]? = some .acq) (hl : s.lock = none) :
    Inv p x c0 rem (setTh { s with lock := some i } i { s.th i with pc := (s.th i).pc + 1 }) := by
  have hpos := h.pos_acq (I.pcE i) hp
  obtain ⟨h1, h2, h3, _⟩ := h
  refine ⟨?_, ?_, ?_, ?_, ?_, I.c0le, I.logv, ?_⟩
  · intro j; by_cases hj : j = i
    · subst hj; simp; omega
    · simp [hj]; exact I.pcE j
  · intro j; by_cases hj : j = i
    · subst hj; simp; exact hr
    · simp [hj]; exact I.fin j
  · intro j; by_cases hj : j = i
    · subst hj; simp; exact I.cnt j
    · simp [hj]; exact I.cnt j
  · intro j; by_cases hj : j = i
    · subst hj; simp; unfold inSec; omega
    · simp [hj]
      have := I.lock j
      rw [hl] at this
      constructor
      · intro e; exact absurd e.symm hj
      · intro e; exact absurd (this.mpr e) (by simp)
  · intro j k d hk1 hk2 hk3 hk4
    by_cases hj : j = i
    · subst hj; simp at hk2 hk3 ⊢; omega
    · simp [hj] at hk2 hk3 ⊢; exact I.vals j k d hk1 hk2 hk3 hk4
  · intro j; by_cases hj : j = i
    · subst hj; simp; rw [I.own j]; unfold pend; simp
      have e1 : ¬ x.W < (s.th j).pc + 1 := by omega
      have e2 : ¬ x.W < (s.th j).pc := by omega
      simp [e1, e2]
    · simp [hj]; exact I.own j

/-- releasing the lock -/
theorem inv_rel (h : Shape p x) (I : Inv p x c0 rem s) (i : Nat)
    (hr : (s.th i).remaining ≠ 0) (hp : p[(s.th i).pc]? = some .rel) :
    Inv p x c0 rem (setTh { s with lock := none } i { s.th i with pc := (s.th i).pc + 1 }) := by
  have hpos := h.pos_rel (I.pcE i) hp
  have hh : s.lock = some i := (I.lock i).mpr (by obtain ⟨h1, h2, h3, _⟩ := h; unfold inSec; omega)
  obtain ⟨h1, h2, h3, _⟩ := h
  refine ⟨?_, ?_, ?_, ?_, ?_, I.c0le, I.logv, ?_⟩
  · intro j; by_cases hj : j = i
    · subst hj; simp; omega
    · simp [hj]; exact I.pcE j
  · intro j; by_cases hj : j = i
    · subst hj; simp; exact hr
    · simp [hj]; exact I.fin j
  · intro j; by_cases hj : j = i
    · subst hj; simp; exact I.cnt j
    · simp [hj]; exact I.cnt j
  · intro j; by_cases hj : j = i
    · subst hj; simp; unfold inSec; omega
    · simp [hj]
      intro hs
      have := (I.lock j).mpr hs
      rw [hh] at this; cases this; exact hj rfl
  · intro j k d hk1 hk2 hk3 hk4
    by_cases hj : j = i
    · subst hj; simp at hk2 hk3 ⊢; omega
    · simp [hj] at hk2 hk3 ⊢; exact I.vals j k d hk1 hk2 hk3 hk4
  · intro j; by_cases hj : j = i
    · subst hj; simp; rw [I.own j]; unfold pend; simp
      have e1 : x.W < (s.th j).pc + 1 := by omega
      have e2 : x.W < (s.th j).pc := by omega
      simp [e1, e2]
    · simp [hj]; exact I.own j

/-- the counter write: the linearisation point -/
theorem inv_wr (h : Shape p x) (I : Inv p x c0 rem s) (i a b : Nat)
    (hr : (s.th i).remaining ≠ 0) (hp : p[(s.th i).pc]? = some (.wr a b)) :
    Inv p x c0 rem (setTh { s with ctr := (s.th i).locals a + b, log := s.log ++ [(i, s.ctr)] } i
      { s.th i with pc := (s.th i).pc + 1 }) := by
  obtain ⟨hpc, ha, hb⟩ := h.pos_wr (I.pcE i) hp
  subst ha hb
  have hh : s.lock = some i := (I.lock i).mpr (by obtain ⟨h1, h2, h3, _⟩ := h; unfold inSec; omega)
  obtain ⟨h1, h2, h3, _, _, _, _, _, _, _, _, _, ⟨ks, hks1, hks2, hks3⟩, ⟨kr, hkr1, hkr2, hkr3⟩⟩ := h
  have hsrc : (s.th i).locals x.src = s.ctr := I.vals i ks x.src hks2 (by omega) (by omega) hks3
  have hret : (s.th i).locals x.r = s.ctr := I.vals i kr x.r hkr2 (by omega) (by omega) hkr3
  have hc0 := I.c0le
  refine ⟨?_, ?_, ?_, ?_, ?_, ?_, ?_, ?_⟩
  · intro j; by_cases hj : j = i
    · subst hj; simp; omega
    · simp [hj]; exact I.pcE j
  · intro j; by_cases hj : j = i
    · subst hj; simp; exact hr
    · simp [hj]; exact I.fin j
  · intro j; by_cases hj : j = i
    · subst hj; simp; exact I.cnt j
    · simp [hj]; exact I.cnt j
  · intro j; by_cases hj : j = i
    · subst hj; simp; rw [I.lock j]; unfold inSec; omega
    · simp [hj]; exact I.lock j
  · intro j k d hk1 hk2 hk3 hk4
    by_cases hj : j = i
    · subst hj; simp at hk2 hk3 ⊢; omega
    · simp [hj] at hk2 hk3 ⊢
      have hns : ¬ inSec x (s.th j).pc := by
        intro hs
        have := (I.lock j).mpr hs
        rw [hh] at this; cases this; exact hj rfl
      unfold inSec at hns; omega
  · simp [hsrc]; omega
  · simp [hsrc, I.logv]
    have : s.ctr + 1 - c0 = (s.ctr - c0) + 1 := by omega
    rw [this, List.range'_concat]; simp; omega
  · intro j; by_cases hj : j = i
    · subst hj; simp [List.filter_append]; rw [I.own j]; unfold pend; simp
      have e1 : x.W < (s.th j).pc + 1 := by omega
      have e2 : ¬ x.W < (s.th j).pc := by omega
      simp [e1, e2, hret]
    · have hji : (i == j) = false := by simp; exact fun e => hj e.symm
      simp [hj, List.filter_append, hji]; exact I.own j

/-- returning the number -/
theorem inv_ret (h : Shape p x) (I : Inv p x c0 rem s) (i a : Nat)
    (hr : (s.th i).remaining ≠ 0) (hp : p[(s.th i).pc]? = some (.ret a)) :
    Inv p x c0 rem (setTh s i { pc := 0, locals := fun _ => 0, handed := (s.th i).locals a :: (s.th i).handed, remaining := (s.th i).remaining - 1 }) := by
  obtain ⟨hpc, ha⟩ := h.pos_ret (I.pcE i) hp
  subst ha
  obtain ⟨h1, h2, h3, _⟩ := h
  refine ⟨?_, ?_, ?_, ?_, ?_, I.c0le, I.logv, ?_⟩
  · intro j; by_cases hj : j = i
    · subst hj; simp
    · simp [hj]; exact I.pcE j
  · intro j; by_cases hj : j = i
    · subst hj; simp
    · simp [hj]; exact I.fin j
  · intro j; by_cases hj : j = i
    · subst hj; simp; have := I.cnt j; omega
    · simp [hj]; exact I.cnt j
  · intro j; by_cases hj : j = i
    · subst hj; simp; rw [I.lock j]; unfold inSec; omega
    · simp [hj]; exact I.lock j
  · intro j k d hk1 hk2 hk3 hk4
    by_cases hj : j = i
    · subst hj; simp at hk2
    · simp [hj] at hk2 hk3 ⊢; exact I.vals j k d hk1 hk2 hk3 hk4
  · intro j; by_cases hj : j = i
    · subst hj; simp; rw [I.own j]; unfold pend; simp
      have e2 : x.W < (s.th j).pc := by omega
      simp [e2]
    · simp [hj]; exact I.own j

/-- every scheduler choice preserves the invariant -/
theorem inv_step (h : Shape p x) (I : Inv p x c0 rem s) (i : Nat) :
    Inv p x c0 rem (stepTh p s i) := by
  unfold stepTh
  simp only []
  split
  · exact I
  · rename_i hr
    split
    · exact I
    · rename_i hp
      split
      · exact inv_acq h I i hr hp (by assumption)
      · exact I
    · rename_i hp; exact inv_rel h I i hr hp
    · rename_i d hp; exact inv_rd h I i d hr hp
    · rename_i a b hp; exact inv_wr h I i a b hr hp
    · rename_i hp; exact inv_nop h I i hr hp
    · rename_i a hp; exact inv_ret h I i a hr hp

theorem inv_run (h : Shape p x) (I : Inv p x c0 rem s) (sched : List Nat) :
    Inv p x c0 rem (runSched p s sched) := by
  induction sched generalizing s with
  | nil => exact I
  | cons i rest ih => exact ih (inv_step h I i)

end preservation

/-! ### what the invariant gives -/

theorem nodup_map_inj {α β : Type} (f : α → β) : ∀ (l : List α), (l.map f).Nodup →
    ∀ a b, a ∈ l → b ∈ l → f a = f b → a = b := by
  intro l
  induction l with
  | nil => intro _ a b ha; cases ha
  | cons c l ih =>
    intro hn a b ha hb hab
    simp only [List.map_cons, List.nodup_cons, List.mem_map, not_exists, not_and] at hn
    rcases List.mem_cons.mp ha with ha' | ha' <;> rcases List.mem_cons.mp hb with hb' | hb'
    · rw [ha', hb']
    · rw [ha'] at hab; exact absurd hab.symm (hn.1 b hb')
    · rw [hb'] at hab; exact absurd hab (hn.1 a ha')
    · exact ih hn.2 a b ha' hb' hab

section consequences
variable {p : List Instr} {x : Idx} {c0 : Nat} {rem : Nat → Nat} {s : St}

/-- numbers a thread has taken so far, oldest first -/
def taken (x : Idx) (t : Th) : List Nat := t.handed.reverse ++ pend x t

theorem Inv.sub (I : Inv p x c0 rem s) (i : Nat) :
    (taken x (s.th i)).Sublist (List.range' c0 (s.ctr - c0)) := by
  unfold taken
  rw [← I.own i, ← I.logv]
  exact List.Sublist.map _ List.filter_sublist

theorem Inv.taken_increasing (I : Inv p x c0 rem s) (i : Nat) :
    (taken x (s.th i)).Pairwise (· < ·) :=
  List.Pairwise.sublist (I.sub i) (List.pairwise_lt_range' 1)

theorem Inv.taken_bounds (I : Inv p x c0 rem s) (i v : Nat) (hv : v ∈ taken x (s.th i)) :
    c0 ≤ v ∧ v < s.ctr := by
  have := (I.sub i).subset hv
  rw [List.mem_range'_1] at this
  have := I.c0le
  omega

theorem Inv.mem_taken_iff (I : Inv p x c0 rem s) (i v : Nat) :
    v ∈ taken x (s.th i) ↔ (i, v) ∈ s.log := by
  unfold taken
  rw [← I.own i]
  simp only [List.mem_map, List.mem_filter, beq_iff_eq]
  constructor
  · rintro ⟨⟨a, b⟩, ⟨he, ha⟩, hb⟩
    simp only at ha hb; subst ha hb; exact he
  · intro h; exact ⟨(i, v), ⟨h, rfl⟩, rfl⟩

theorem Inv.taken_disjoint (I : Inv p x c0 rem s) (i j v : Nat) (hij : i ≠ j)
    (hi : v ∈ taken x (s.th i)) (hj : v ∈ taken x (s.th j)) : False := by
  rw [I.mem_taken_iff] at hi hj
  have hn : (s.log.map (·.2)).Nodup := by rw [I.logv]; exact List.nodup_range' 1
  have := nodup_map_inj (·.2) s.log hn (i, v) (j, v) hi hj rfl
  cases this; exact hij rfl

theorem Inv.gap_free (I : Inv p x c0 rem s) (v : Nat) (h1 : c0 ≤ v) (h2 : v < s.ctr) :
    ∃ i, v ∈ taken x (s.th i) := by
  have hm : v ∈ s.log.map (·.2) := by
    rw [I.logv, List.mem_range'_1]; omega
  obtain ⟨⟨a, b⟩, he, hb⟩ := List.mem_map.mp hm
  simp only at hb; subst hb
  exact ⟨a, (I.mem_taken_iff a b).mpr he⟩

theorem pend_nil_of_pc0 (t : Th) (h : t.pc = 0) : pend x t = [] := by
  unfold pend; simp [h]

theorem mem_pend_pc (t : Th) (v : Nat) (h : v ∈ pend x t) : t.pc ≠ 0 := by
  unfold pend at h
  split at h
  · omega
  · cases h

/-- a thread that will never make a call never writes -/
theorem Inv.owner_active (I : Inv p x c0 rem s) (e : Nat × Nat) (he : e ∈ s.log) : rem e.1 ≠ 0 := by
  intro h0
  have hc := I.cnt e.1
  have hrem : (s.th e.1).remaining = 0 := by omega
  have hh : (s.th e.1).handed = [] := by
    have : (s.th e.1).handed.length = 0 := by omega
    exact List.eq_nil_of_length_eq_zero this
  have hm : e.2 ∈ taken x (s.th e.1) := (I.mem_taken_iff e.1 e.2).mpr he
  unfold taken at hm
  rw [hh, pend_nil_of_pc0 _ (I.fin e.1 hrem)] at hm
  cases hm

end consequences

/-! ### the run-length encoded runner is `runSched` -/

theorem step_idle {p : List Instr} {s : St} {i : Nat} (h : idle p s i = true) :
    stepTh p s i = s := by
  unfold idle at h
  unfold stepTh
  simp only [Bool.or_eq_true, beq_iff_eq] at h
  by_cases hr : (s.th i).remaining = 0
  · simp [hr]
  · simp only [hr, false_or] at h
    simp only [hr, if_false]
    split at h
    · rename_i hp; simp [hp]
    · rename_i hp
      simp only [hp]
      cases hl : s.lock with
      | none => simp [hl] at h
      | some _ => rfl
    · cases h

theorem runSched_append (p : List Instr) (s : St) (a b : List Nat) :
    runSched p s (a ++ b) = runSched p (runSched p s a) b := by
  unfold runSched; exact List.foldl_append

theorem runSched_idle {p : List Instr} {s : St} {i : Nat} (h : idle p s i = true) (n : Nat) :
    runSched p s (List.replicate n i) = s := by
  induction n with
  | zero => rfl
  | succ n ih =>
    rw [List.replicate_succ]
    show runSched p (stepTh p s i) (List.replicate n i) = s
    rw [step_idle h]; exact ih

theorem runTh_eq_runSched (p : List Instr) (s : St) (i n : Nat) :
    runTh p s i n = runSched p s (List.replicate n i) := by
  induction n generalizing s with
  | zero => rfl
  | succ n ih =>
    unfold runTh
    split
    · rename_i h; exact (runSched_idle h (n + 1)).symm
    · rw [ih, List.replicate_succ]; rfl

theorem runRle_eq_runSched (p : List Instr) (s : St) (rle : List (Nat × Nat)) :
    runRle p s rle = runSched p s (expand rle) := by
  induction rle generalizing s with
  | nil => rfl
  | cons tn rest ih =>
    obtain ⟨t, n⟩ := tn
    unfold runRle
    rw [ih, runTh_eq_runSched]
    unfold expand
    simp only [List.map_cons, List.flatten_cons]
    rw [runSched_append]

/-! ### counting -/

theorem filter_lt_succ (l : List (Nat × Nat)) (k : Nat) :
    (l.filter (fun e => decide (e.1 < k + 1))).length =
      (l.filter (fun e => decide (e.1 < k))).length + (l.filter (fun e => e.1 == k)).length := by
  induction l with
  | nil => rfl
  | cons e l ih =>
    simp only [List.filter_cons]
    by_cases h1 : e.1 < k
    · have h2 : e.1 < k + 1 := by omega
      have h3 : (e.1 == k) = false := by simp; omega
      simp [h1, h2, h3, ih]; omega
    · by_cases h4 : e.1 = k
      · have h2 : e.1 < k + 1 := by omega
        have h3 : (e.1 == k) = true := by simp [h4]
        simp only [h1, h2, h3, decide_true, decide_false]
        simp [ih]; omega
      · have h2 : ¬ e.1 < k + 1 := by omega
        have h3 : (e.1 == k) = false := by simp; exact h4
        simp [h1, h2, h3, ih]

theorem sum_owner_counts (l : List (Nat × Nat)) (k : Nat) :
    ((List.range k).map (fun t => (l.filter (fun e => e.1 == t)).length)).sum =
      (l.filter (fun e => decide (e.1 < k))).length := by
  induction k with
  | zero =>
    have : l.filter (fun e => decide (e.1 < 0)) = [] := by
      rw [List.filter_eq_nil_iff]; intro a _; simp
    rw [this]; rfl
  | succ k ih =>
    rw [List.range_succ, List.map_append, List.sum_append, ih, filter_lt_succ]
    simp

theorem sum_owner_counts_all (l : List (Nat × Nat)) (k : Nat) (h : ∀ e ∈ l, e.1 < k) :
    ((List.range k).map (fun t => (l.filter (fun e => e.1 == t)).length)).sum = l.length := by
  rw [sum_owner_counts]
  congr 1
  rw [List.filter_eq_self]
  intro e he; simp [h e he]

theorem map_reqOf_range (l : List Nat) : (List.range l.length).map (reqOf l) = l := by
  apply List.ext_getElem
  · simp
  · intro i h1 h2
    simp at h1
    simp [reqOf, h1]

theorem reqOf_some {l : List Nat} {t n : Nat} (h : l[t]? = some n) : reqOf l t = n := by
  simp [reqOf, h]

theorem reqOf_lt {l : List Nat} {t : Nat} (h : reqOf l t ≠ 0) : t < l.length := by
  apply Classical.byContradiction
  intro hge
  have : l[t]? = none := List.getElem?_eq_none (by omega)
  simp [reqOf, this] at h

end Interleave
