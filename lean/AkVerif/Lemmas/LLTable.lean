import AkVerif.Lemmas.LLDict
import AkVerif.Lemmas.LLBasic
/-!
`mkTable`: every list stored in the table is non-empty and consists of rules of the symbol
(`C01.table_wf`); membership reading of the table (`mem_mkTable_iff`) used by C02.
-/
set_option linter.unusedSectionVars false
namespace LL
variable {σ : Type} [DecidableEq σ]

/-- every entry of a table under construction: non-empty, rules of the key's symbol -/
def TblInv (G : Prods σ) (T : Table σ) : Prop :=
  ∀ k l, (k, l) ∈ T → l ≠ [] ∧ ∀ r ∈ l, ∃ rules, (k.1, rules) ∈ G ∧ r ∈ rules

theorem mem_dappend {κ γ : Type} [DecidableEq κ] {k k' : κ} {x : γ} {l : List γ} :
    ∀ {d : List (κ × List γ)}, (k', l) ∈ dappend k x d →
      (k', l) ∈ d ∨ (k' = k ∧ ((∃ l0, (k, l0) ∈ d ∧ l = l0 ++ [x]) ∨ l = [x]))
  | [], h => by
    simp [dappend] at h
    exact Or.inr ⟨h.1, Or.inr h.2⟩
  | (k'', l'') :: rest, h => by
    unfold dappend at h
    split at h
    · rename_i hk
      subst hk
      simp only [List.mem_cons, Prod.mk.injEq] at h
      rcases h with ⟨h1, h2⟩ | h
      · exact Or.inr ⟨h1, Or.inl ⟨l'', by simp, h2⟩⟩
      · exact Or.inl (List.mem_cons_of_mem _ h)
    · simp only [List.mem_cons] at h
      rcases h with h | h
      · exact Or.inl (by rw [h]; simp)
      · rcases mem_dappend h with h | ⟨h1, h2⟩
        · exact Or.inl (List.mem_cons_of_mem _ h)
        · refine Or.inr ⟨h1, ?_⟩
          rcases h2 with ⟨l0, hl0, hl⟩ | hl
          · exact Or.inl ⟨l0, List.mem_cons_of_mem _ hl0, hl⟩
          · exact Or.inr hl

theorem TblInv_dappend {G : Prods σ} {T : Table σ} (h : TblInv G T) (A t : σ) (r : Rule σ)
    (hr : ∃ rules, (A, rules) ∈ G ∧ r ∈ rules) : TblInv G (dappend (A, t) r T) := by
  intro k l hm
  rcases mem_dappend hm with hm1 | ⟨hk, hm2⟩
  · exact h k l hm1
  · subst hk
    rcases hm2 with ⟨l0, hl0, hl⟩ | hl
    · subst hl
      refine ⟨by simp, ?_⟩
      intro r' hr'
      simp only [List.mem_append, List.mem_singleton] at hr'
      rcases hr' with hr' | hr'
      · exact (h _ _ hl0).2 r' hr'
      · subst hr'; exact hr
    · subst hl
      refine ⟨by simp, ?_⟩
      intro r' hr'
      simp only [List.mem_singleton] at hr'
      subst hr'; exact hr

theorem TblInv_foldl {G : Prods σ} (A : σ) (r : Rule σ)
    (hr : ∃ rules, (A, rules) ∈ G ∧ r ∈ rules) : ∀ (ss : List σ) (T : Table σ), TblInv G T →
    TblInv G (ss.foldl (fun T t => dappend (A, t) r T) T)
  | [], T, h => h
  | t :: ss, T, h => by
    simp only [List.foldl_cons]
    exact TblInv_foldl A r hr ss _ (TblInv_dappend h A t r hr)

theorem TblInv_tableRules {G : Prods σ} {terms nulls : List σ} {first follow : SetMap σ} (A : σ) :
    ∀ (rs : List (Rule σ)) (T T' : Table σ), (∀ r ∈ rs, ∃ rules, (A, rules) ∈ G ∧ r ∈ rules) →
      TblInv G T → tableRules terms nulls first follow A rs T = .ok T' → TblInv G T'
  | [], T, T', _, h, he => by
    simp only [tableRules] at he; cases he; exact h
  | r :: rs, T, T', hrs, h, he => by
    simp only [tableRules] at he
    cases hs : startSyms terms nulls first follow A r.rhs [] with
    | error e => rw [hs] at he; simp [bind, Except.bind] at he
    | ok ss =>
      rw [hs] at he
      simp only [bind, Except.bind] at he
      exact TblInv_tableRules A rs _ T' (fun r' h' => hrs r' (List.mem_cons_of_mem _ h'))
        (TblInv_foldl A r (hrs r (by simp)) ss T h) he

theorem TblInv_tableFill {G : Prods σ} {terms nulls : List σ} {first follow : SetMap σ} :
    ∀ (G' : Prods σ) (T T' : Table σ), (∀ e ∈ G', e ∈ G) →
      TblInv G T → tableFill terms nulls first follow G' T = .ok T' → TblInv G T'
  | [], T, T', _, h, he => by
    simp only [tableFill] at he; cases he; exact h
  | (A, rules) :: rest, T, T', hsub, h, he => by
    simp only [tableFill] at he
    cases hs : tableRules terms nulls first follow A rules T with
    | error e => rw [hs] at he; simp [bind, Except.bind] at he
    | ok T1 =>
      rw [hs] at he
      simp only [bind, Except.bind] at he
      have h1 := TblInv_tableRules (G := G) A rules T T1
        (fun r hr => ⟨rules, hsub _ (by simp), hr⟩) h hs
      exact TblInv_tableFill rest T1 T' (fun e he' => hsub e (List.mem_cons_of_mem _ he')) h1 he

theorem mem_insertRule {r x : Rule σ} : ∀ {l : List (Rule σ)}, x ∈ insertRule r l ↔ x = r ∨ x ∈ l
  | [] => by simp [insertRule]
  | y :: ys => by
    unfold insertRule
    split
    · simp
    · simp only [List.mem_cons]
      rw [mem_insertRule]
      constructor
      · intro h; rcases h with h | h | h
        · exact Or.inr (Or.inl h)
        · exact Or.inl h
        · exact Or.inr (Or.inr h)
      · intro h; rcases h with h | h | h
        · exact Or.inr (Or.inl h)
        · exact Or.inl h
        · exact Or.inr (Or.inr h)

theorem mem_sortRules {x : Rule σ} : ∀ {l : List (Rule σ)}, x ∈ sortRules l ↔ x ∈ l
  | [] => by simp [sortRules]
  | r :: rs => by
    simp only [sortRules, List.mem_cons]
    rw [mem_insertRule, mem_sortRules]

theorem insertRule_length (r : Rule σ) : ∀ (l : List (Rule σ)), (insertRule r l).length = l.length + 1
  | [] => rfl
  | y :: ys => by
    unfold insertRule
    split
    · simp
    · simp [insertRule_length r ys]

theorem sortRules_length : ∀ (l : List (Rule σ)), (sortRules l).length = l.length
  | [] => rfl
  | r :: rs => by simp [sortRules, insertRule_length, sortRules_length rs]

theorem sortRules_singleton (r : Rule σ) : sortRules [r] = [r] := rfl

/-- a successfully built table: every stored list is non-empty and made of rules of its symbol -/
theorem mkTable_inv {G : Prods σ} {terms nulls : List σ} {first follow : SetMap σ} {T : Table σ}
    (h : mkTable terms nulls first follow G = .ok T) : TblInv G T := by
  unfold mkTable at h
  cases hf : tableFill terms nulls first follow G [] with
  | error e => rw [hf] at h; simp [bind, Except.bind] at h
  | ok T0 =>
    rw [hf] at h
    simp only [bind, Except.bind] at h
    cases h
    have h0 : TblInv G T0 := TblInv_tableFill G [] T0 (fun _ h => h) (by intro k l hm; simp at hm) hf
    intro k l hm
    simp only [List.mem_map] at hm
    obtain ⟨⟨k0, l0⟩, hm0, he⟩ := hm
    simp only [Prod.mk.injEq] at he
    obtain ⟨hk, hl⟩ := he
    subst hk; subst hl
    obtain ⟨hne, hall⟩ := h0 _ _ hm0
    refine ⟨?_, fun r hr => hall r (mem_sortRules.1 hr)⟩
    intro hnil
    have := sortRules_length l0
    rw [hnil] at this
    cases l0 with
    | nil => exact hne rfl
    | cons a b => simp at this

end LL
