import AkVerif.Lemmas.CHText
/-!
Lemmas about the `CHText` model, part 3: a canonical chunk list is determined by its cells
(`group` rebuilds it), hence `==` on canonical texts is equality of what is shown.
-/
namespace CHText
open Ak

/-- the canonical chunk list of a cell sequence: maximal runs of one colour -/
def group : Cells → List Chunk
  | [] => []
  | x :: rest =>
    match group rest with
    | [] => [⟨x.2, [x.1]⟩]
    | d :: ds => if d.col = x.2 then ⟨x.2, x.1 :: d.text⟩ :: ds else ⟨x.2, [x.1]⟩ :: d :: ds

theorem group_run (col : Colour) (text : List Char) (htext : text ≠ []) (cells : Cells) (rest : List Chunk)
    (hrest : group cells = rest) (hhead : ∀ d ds, rest = d :: ds → d.col ≠ col) :
    group (text.map (·, col) ++ cells) = ⟨col, text⟩ :: rest := by
  induction text with
  | nil => exact absurd rfl htext
  | cons x xs ih =>
    cases xs with
    | nil =>
      simp only [List.map_cons, List.map_nil, List.cons_append, List.nil_append, group, hrest]
      cases rest with
      | nil => rfl
      | cons d ds => simp [hhead d ds rfl]
    | cons y ys =>
      have := ih (by simp)
      simp only [List.map_cons, List.cons_append] at this ⊢
      rw [group, this]
      simp

/-- a canonical chunk list is rebuilt from its cells -/
theorem group_cellsOf (cs : List Chunk) (h : CanonChunks cs) : group (cellsOf cs) = cs := by
  induction cs with
  | nil => rfl
  | cons c cs ih =>
    have ih' := ih h.tail
    rw [cellsOf_cons, Chunk.cells]
    rw [group_run c.col c.text h.head_ne (cellsOf cs) cs ih']
    intro d ds hd
    subst hd
    exact fun heq => h.2.1 heq.symm

/-- two canonical chunk lists showing the same cells are the same list -/
theorem canon_unique (a b : List Chunk) (ha : CanonChunks a) (hb : CanonChunks b)
    (h : cellsOf a = cellsOf b) : a = b := by
  rw [← group_cellsOf a ha, ← group_cellsOf b hb, h]

theorem group_mono (col : Colour) (s : List Char) :
    group (s.map (·, col)) = if s = [] then [] else [⟨col, s⟩] := by
  by_cases hs : s = []
  · simp [hs, group]
  · have := group_run col s hs [] [] rfl (by intro d ds h; cases h)
    simpa [hs] using this

theorem group_canon (cells : Cells) : CanonChunks (group cells) := by
  induction cells with
  | nil => trivial
  | cons x rest ih =>
    simp only [group]
    cases hg : group rest with
    | nil => simp [CanonChunks]
    | cons d ds =>
      rw [hg] at ih
      simp only []
      split
      · next heq =>
        cases ds with
        | nil => simp [CanonChunks]
        | cons e es => exact ⟨by simp, by rw [← heq]; exact ih.2.1, ih.2.2⟩
      · next hne => exact ⟨by simp, fun h => hne h.symm, ih⟩

/-- every cell sequence has a canonical representation -/
theorem cellsOf_group (cells : Cells) : cellsOf (group cells) = cells := by
  induction cells with
  | nil => rfl
  | cons x rest ih =>
    simp only [group]
    cases hg : group rest with
    | nil => rw [hg] at ih; simp [Chunk.cells, ← ih]
    | cons d ds =>
      rw [hg] at ih
      simp only []
      split
      · next heq => simp [Chunk.cells, ← ih, heq]
      · simp [Chunk.cells, ← ih]

/-! ### `==` -/

theorem zipAll_eq {α} [DecidableEq α] (l₁ l₂ : List α) :
    (l₁.length == l₂.length && (l₁.zip l₂).all (fun pq => pq.1 == pq.2)) = true ↔ l₁ = l₂ := by
  induction l₁ generalizing l₂ with
  | nil => cases l₂ <;> simp
  | cons a as ih =>
    cases l₂ with
    | nil => simp
    | cons b bs =>
      have := ih bs
      simp only [Bool.and_eq_true, beq_iff_eq, List.length_cons, Nat.add_right_cancel_iff, List.zip_cons_cons,
        List.all_cons, List.cons.injEq] at this ⊢
      constructor
      · intro ⟨h1, h2, h3⟩; exact ⟨h2, this.mp ⟨h1, h3⟩⟩
      · intro ⟨h1, h2⟩; have := this.mpr h2; exact ⟨this.1, h1, this.2⟩

theorem eqText_iff_chunks (a b : Text) : eqText a b = true ↔ a.chunks = b.chunks :=
  zipAll_eq a.chunks b.chunks

theorem eqText_iff (a b : Text) (ha : Canon a) (hb : Canon b) :
    eqText a b = true ↔ a.cells = b.cells := by
  rw [eqText_iff_chunks]
  constructor
  · intro h; simp [Text.cells, h]
  · exact canon_unique _ _ ha.1 hb.1

theorem eqStr_iff (t : Text) (h : Canon t) (s : List Char) :
    eqStr t s = true ↔ t.cells = plainCells s := by
  constructor
  · intro he
    unfold eqStr at he
    unfold Text.cells
    split at he
    · next p hp => simp at he; simp [hp, Chunk.cells, plainCells, he.1, he.2]
    · next hp => simp at he; simp [hp, he, plainCells]
    · cases he
  · intro hc
    have hch : t.chunks = group (plainCells s) := by rw [← hc]; exact (group_cellsOf _ h.1).symm
    rw [plainCells, group_mono] at hch
    unfold eqStr
    by_cases hs : s = []
    · simp [hs] at hch; simp [hch, hs]
    · simp [hs] at hch; simp [hch]

theorem eqChunk_iff (t : Text) (h : Canon t) (c : Chunk) :
    eqChunk t c = true ↔ t.cells = c.cells := by
  constructor
  · intro he
    unfold eqChunk at he
    unfold Text.cells
    split at he
    · next hp => simp at he; simp [hp, Chunk.cells, he]
    · next p hp => simp at he; simp [hp, he]
    · cases he
  · intro hc
    have hch : t.chunks = group c.cells := by rw [← hc]; exact (group_cellsOf _ h.1).symm
    rw [Chunk.cells, group_mono] at hch
    unfold eqChunk
    by_cases hs : c.text = []
    · simp [hs] at hch; simp [hch, hs]
    · simp [hs] at hch; simp [hch]

theorem map_pair_inj (s s' : List Char) (c c' : Colour) (h : s.map (·, c) = s'.map (·, c')) :
    s = s' ∧ (s ≠ [] → c = c') := by
  induction s generalizing s' with
  | nil => cases s' <;> simp_all
  | cons x xs ih =>
    cases s' with
    | nil => simp at h
    | cons y ys =>
      simp only [List.map_cons, List.cons.injEq, Prod.mk.injEq] at h
      obtain ⟨⟨h1, h2⟩, h3⟩ := h
      exact ⟨by rw [h1, (ih ys h3).1], fun _ => h2⟩

/-- chunk `==` chunk (out of the property's domain when both are empty) -/
theorem chunk_eq_iff (c d : Chunk) (h : c.text ≠ [] ∨ d.text ≠ []) : c = d ↔ c.cells = d.cells := by
  constructor
  · intro he; rw [he]
  · intro hc
    obtain ⟨h1, h2⟩ := map_pair_inj _ _ _ _ hc
    have : c.text ≠ [] := by
      cases h with
      | inl h => exact h
      | inr h => rw [h1]; exact h
    cases c; cases d
    simp only [Chunk.mk.injEq]
    exact ⟨h2 this, h1⟩

/-- chunk `==` str (out of the property's domain when both are empty) -/
theorem chunk_eqStr_iff (c : Chunk) (s : List Char) (h : c.text ≠ [] ∨ s ≠ []) :
    c.eqStr s = true ↔ c.cells = plainCells s := by
  unfold Chunk.eqStr
  simp only [Bool.and_eq_true, beq_iff_eq]
  constructor
  · intro ⟨h1, h2⟩; simp [Chunk.cells, plainCells, h1, h2]
  · intro hc
    obtain ⟨h1, h2⟩ := map_pair_inj _ _ _ _ hc
    have : c.text ≠ [] := by
      cases h with
      | inl h => exact h
      | inr h => rw [h1]; exact h
    exact ⟨h2 this, h1⟩

/-- the domain of `==` in the property: str/chunk/text operands, not two plain strings (that is
Python's own `==`), and not an empty chunk compared directly with a chunk or a str -/
def EqDomain : Part → Part → Prop
  | .text _, .text _ => True
  | .text _, .str _ => True
  | .str _, .text _ => True
  | .text _, .chunk _ => True
  | .chunk _, .text _ => True
  | .chunk c, .chunk d => c.text ≠ [] ∨ d.text ≠ []
  | .chunk c, .str s => c.text ≠ [] ∨ s ≠ []
  | .str s, .chunk c => c.text ≠ [] ∨ s ≠ []
  | _, _ => False

end CHText
