import AkVerif.Model.ShortUuid
/-! Helper lemmas for C20 (core Lean only). -/
namespace ShortUuid
open Ak

theorem value_replicate_zero (B k : Nat) : value B (List.replicate k 0) = 0 := by
  induction k with
  | zero => rfl
  | succ k ih => simp [List.replicate, value, ih]

theorem value_append_zeros (B : Nat) (ds : List Nat) (k : Nat) :
    value B (ds ++ List.replicate k 0) = value B ds := by
  induction ds with
  | nil => simpa [value] using value_replicate_zero B k
  | cons d ds ih => simp [value, ih]

theorem value_digits (B : Nat) (hB : 2 ≤ B) (fuel n : Nat) (h : n ≤ fuel) :
    value B (digits B fuel n) = n := by
  induction fuel generalizing n with
  | zero => simp [digits, value]; omega
  | succ f ih =>
    unfold digits
    split
    · simp [value]; omega
    · rename_i hn
      have : n / B ≤ f := by
        have : n / B < n := Nat.div_lt_self (by omega) (by omega)
        omega
      rw [value, ih _ this]
      have := Nat.mod_add_div n B
      omega

theorem digits_lt (B : Nat) (hB : 0 < B) (fuel n : Nat) : ∀ d ∈ digits B fuel n, d < B := by
  induction fuel generalizing n with
  | zero => simp [digits]
  | succ f ih =>
    unfold digits
    split
    · simp
    · intro d hd
      simp at hd
      rcases hd with h | h
      · subst h; exact Nat.mod_lt _ hB
      · exact ih _ _ h

theorem digits_length (B : Nat) (_hB : 0 < B) (fuel n k : Nat) (h : n < B ^ k) :
    (digits B fuel n).length ≤ k := by
  induction fuel generalizing n k with
  | zero => simp [digits]
  | succ f ih =>
    unfold digits
    split
    · simp
    · rename_i hn
      cases k with
      | zero => simp at h; omega
      | succ k =>
        simp
        apply ih
        rw [Nat.pow_succ] at h
        exact Nat.div_lt_of_lt_mul (by rw [Nat.mul_comm]; exact h)

theorem encodeIdx_value (B len n : Nat) (hB : 2 ≤ B) : value B (encodeIdx B len n) = n := by
  unfold encodeIdx
  simp only []
  rw [value_append_zeros, value_digits B hB n n (Nat.le_refl _)]

theorem encodeIdx_length (B len n : Nat) (hB : 0 < B) (h : n < B ^ len) :
    (encodeIdx B len n).length = len := by
  have h1 := digits_length B hB n n len h
  unfold encodeIdx
  simp
  omega

theorem encodeIdx_lt (B len n : Nat) (hB : 0 < B) : ∀ d ∈ encodeIdx B len n, d < B := by
  intro d hd
  unfold encodeIdx at hd
  simp only [List.mem_append, List.mem_replicate] at hd
  rcases hd with h | ⟨_, h⟩
  · exact digits_lt B hB _ _ d h
  · omega

/-- base-`B` representations of a fixed length are unique -/
theorem value_inj (B : Nat) (hB : 0 < B) : ∀ (ds es : List Nat), ds.length = es.length →
    (∀ d ∈ ds, d < B) → (∀ e ∈ es, e < B) → value B ds = value B es → ds = es
  | [], [], _, _, _, _ => rfl
  | [], _ :: _, h, _, _, _ => by simp at h
  | _ :: _, [], h, _, _, _ => by simp at h
  | d :: ds, e :: es, hl, hd, he, hv => by
    have hd0 : d < B := hd d (by simp)
    have he0 : e < B := he e (by simp)
    simp only [value] at hv
    have h1 : d = e := by
      have := congrArg (· % B) hv
      simp [Nat.add_mul_mod_self_left, Nat.mod_eq_of_lt hd0, Nat.mod_eq_of_lt he0] at this
      exact this
    subst h1
    have h2 : value B ds = value B es := by
      have : B * value B ds = B * value B es := by omega
      exact Nat.eq_of_mul_eq_mul_left hB this
    have := value_inj B hB ds es (by simpa using hl)
      (fun x hx => hd x (by simp [hx])) (fun x hx => he x (by simp [hx])) h2
    rw [this]

/-! ### alphabet lookups -/

theorem indexOf_lt (al : List Char) (c : Char) (d : Nat) (h : indexOf al c = some d) :
    d < al.length := by
  induction al generalizing d with
  | nil => simp [indexOf] at h
  | cons a as ih =>
    unfold indexOf at h
    split at h
    · cases h; simp
    · cases hx : indexOf as c with
      | none => simp [hx] at h
      | some k =>
        simp [hx] at h
        have := ih k hx
        simp; omega

theorem getElem_indexOf (al : List Char) (c : Char) (d : Nat) (h : indexOf al c = some d) :
    al[d]? = some c := by
  induction al generalizing d with
  | nil => simp [indexOf] at h
  | cons a as ih =>
    unfold indexOf at h
    split at h
    · rename_i hac; cases h; simp [hac]
    · cases hx : indexOf as c with
      | none => simp [hx] at h
      | some k =>
        simp [hx] at h
        subst h
        simpa using ih k hx

theorem indexOf_none_iff (al : List Char) (c : Char) : indexOf al c = none ↔ c ∉ al := by
  induction al with
  | nil => simp [indexOf]
  | cons a as ih =>
    unfold indexOf
    by_cases h : a = c
    · simp [h]
    · have h' : ¬ c = a := fun hc => h hc.symm
      simp [h, h', ih]

theorem indexOf_getElem (al : List Char) (hn : al.Nodup) (d : Nat) (c : Char)
    (h : al[d]? = some c) : indexOf al c = some d := by
  induction al generalizing d with
  | nil => simp at h
  | cons a as ih =>
    have hn' := List.nodup_cons.mp hn
    cases d with
    | zero => simp at h; simp [indexOf, h]
    | succ k =>
      simp at h
      have hmem : c ∈ as := List.mem_of_getElem? h
      have hne : a ≠ c := fun hac => hn'.1 (hac ▸ hmem)
      simp [indexOf, hne, ih hn'.2 k h]

theorem lookupAll_isSome (al : List Char) (ds : List Nat) (h : ∀ d ∈ ds, d < al.length) :
    ∃ cs, lookupAll al ds = some cs := by
  induction ds with
  | nil => exact ⟨[], rfl⟩
  | cons d ds ih =>
    obtain ⟨cs, hcs⟩ := ih (fun x hx => h x (by simp [hx]))
    have hd : d < al.length := h d (by simp)
    refine ⟨al[d] :: cs, ?_⟩
    simp [lookupAll, hcs, List.getElem?_eq_getElem hd]

theorem lookupAll_length (al : List Char) (ds : List Nat) (cs : List Char)
    (h : lookupAll al ds = some cs) : cs.length = ds.length := by
  induction ds generalizing cs with
  | nil => simp [lookupAll] at h; simp [h]
  | cons d ds ih =>
    unfold lookupAll at h
    split at h
    · rename_i c cs' _ hcs; cases h; simp [ih cs' hcs]
    · cases h

theorem lookupAll_mem (al : List Char) (ds : List Nat) (cs : List Char)
    (h : lookupAll al ds = some cs) : ∀ c ∈ cs, c ∈ al := by
  induction ds generalizing cs with
  | nil => simp [lookupAll] at h; simp [h]
  | cons d ds ih =>
    unfold lookupAll at h
    split at h
    · rename_i c cs' hc hcs
      cases h
      intro x hx
      simp at hx
      rcases hx with rfl | hx
      · exact List.mem_of_getElem? hc
      · exact ih cs' hcs x hx
    · cases h

/-- reading back what `lookupAll` wrote (needs a duplicate-free alphabet) -/
theorem indexAll_lookupAll (al : List Char) (hn : al.Nodup) (ds : List Nat) (cs : List Char)
    (h : lookupAll al ds = some cs) : indexAll al cs = some ds := by
  induction ds generalizing cs with
  | nil => simp [lookupAll] at h; subst h; rfl
  | cons d ds ih =>
    unfold lookupAll at h
    split at h
    · rename_i c cs' hc hcs
      cases h
      simp [indexAll, indexOf_getElem al hn d c hc, ih cs' hcs]
    · cases h

/-- writing back what `indexAll` read (any alphabet) -/
theorem lookupAll_indexAll (al : List Char) (cs : List Char) (ds : List Nat)
    (h : indexAll al cs = some ds) : lookupAll al ds = some cs := by
  induction cs generalizing ds with
  | nil => simp [indexAll] at h; subst h; rfl
  | cons c cs ih =>
    unfold indexAll at h
    split at h
    · rename_i d ds' hd hds
      cases h
      simp [lookupAll, getElem_indexOf al c d hd, ih ds' hds]
    · cases h

theorem indexAll_length (al : List Char) (cs : List Char) (ds : List Nat)
    (h : indexAll al cs = some ds) : ds.length = cs.length := by
  have := lookupAll_length al ds cs (lookupAll_indexAll al cs ds h)
  omega

theorem indexAll_lt (al : List Char) (cs : List Char) (ds : List Nat)
    (h : indexAll al cs = some ds) : ∀ d ∈ ds, d < al.length := by
  induction cs generalizing ds with
  | nil => simp [indexAll] at h; subst h; simp
  | cons c cs ih =>
    unfold indexAll at h
    split at h
    · rename_i d ds' hd hds
      cases h
      intro x hx
      simp at hx
      rcases hx with rfl | hx
      · exact indexOf_lt al c _ hd
      · exact ih ds' hds x hx
    · cases h

theorem indexAll_none_iff (al : List Char) (cs : List Char) :
    indexAll al cs = none ↔ ∃ c ∈ cs, c ∉ al := by
  induction cs with
  | nil => simp [indexAll]
  | cons c cs ih =>
    unfold indexAll
    cases hc : indexOf al c with
    | none =>
      have := (indexOf_none_iff al c).mp hc
      simp [this]
    | some d =>
      have hmem : c ∈ al := by
        apply Classical.byContradiction
        intro hcon
        have := (indexOf_none_iff al c).mpr hcon
        simp [hc] at this
      cases hcs : indexAll al cs with
      | none =>
        simp
        have := ih.mp hcs
        obtain ⟨x, hx, hxa⟩ := this
        exact Or.inr ⟨x, hx, hxa⟩
      | some ds =>
        simp [hmem]
        intro x hx
        apply Classical.byContradiction
        intro hxa
        have : indexAll al cs = none := ih.mpr ⟨x, hx, hxa⟩
        simp [hcs] at this

end ShortUuid
