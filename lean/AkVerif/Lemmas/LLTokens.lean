import AkVerif.Lemmas.LLFactTop
/-!
Token naming: the names `_Tokenizer.tokenize` can give to a lexeme (synonyms, then keywords) are among
`get_all_token_names()` (`tokenNames`), so when `$END$` is not one of those names no token before the
final one is named `$END$` — this discharges the hypothesis `hEnd` of the composed theorems from a
condition on the constructor's arguments.  Also: decoding a name and printing it back is the identity
(`name_parseSym`), i.e. the model's structured symbols are faithful to Python's strings.
-/
set_option linter.unusedSectionVars false
namespace LL
open Ak

/-! ### `parseSym` is a right inverse of `Sym.name` -/

theorem splitSuffix_some {n rest : List Char} {g : Nat} (h : splitSuffix n = some (rest, g)) :
    n = rest ++ ("__S".toList ++ pad2 g) := by
  unfold splitSuffix at h
  simp only at h
  split at h
  · rename_i base heq
    split at h
    · rename_i hpad
      simp only [Option.some.injEq, Prod.mk.injEq] at h
      obtain ⟨h1, h2⟩ := h
      have hsplit := List.takeWhile_append_dropWhile (p := Char.isDigit) (l := n.reverse)
      rw [heq] at hsplit
      have := congrArg List.reverse hsplit
      simp only [List.reverse_append, List.reverse_cons, List.reverse_reverse, List.append_assoc,
        List.cons_append, List.nil_append] at this
      rw [← this, ← h1, ← h2, hpad]
      simp
    · simp at h
  · simp at h

theorem name_parseSymAux : ∀ (fuel : Nat) (n : List Char), (parseSymAux fuel n).name = n
  | 0, n => by simp [parseSymAux, Sym.name]
  | fuel + 1, n => by
    unfold parseSymAux
    split
    · rename_i rest g heq
      rw [name_suf, name_parseSymAux fuel rest]
      exact (splitSuffix_some heq).symm
    · simp [Sym.name]

/-- printing a decoded name gives the name back -/
theorem name_parseSym (n : List Char) : (parseSym n).name = n := name_parseSymAux _ n

/-! ### names of tokens -/

theorem mem_foldl_sadd_map {α : Type} (f : α → Sym) : ∀ (l : List α) (acc : List Sym) (y : Sym),
    y ∈ l.foldl (fun acc x => sadd acc (f x)) acc ↔ y ∈ acc ∨ ∃ x ∈ l, f x = y
  | [], acc, y => by simp
  | a :: l, acc, y => by
    simp only [List.foldl_cons]
    rw [mem_foldl_sadd_map f l, mem_sadd]
    constructor
    · rintro ((h | h) | ⟨x, hx, hxy⟩)
      · exact Or.inl h
      · exact Or.inr ⟨a, by simp, h.symm⟩
      · exact Or.inr ⟨x, by simp [hx], hxy⟩
    · rintro (h | ⟨x, hx, hxy⟩)
      · exact Or.inl (Or.inl h)
      · simp only [List.mem_cons] at hx
        rcases hx with hx | hx
        · subst hx; exact Or.inl (Or.inr hxy.symm)
        · exact Or.inr ⟨x, hx, hxy⟩

theorem mem_tokenNames {inp : CtorIn} {y : Sym} :
    y ∈ tokenNames inp ↔
      ((∃ g ∈ inp.groups, parseSym g = y) ∧ dget y.name inp.syn = none) ∨
      (∃ kv ∈ inp.syn, parseSym kv.2 = y) ∨ (∃ kv ∈ inp.kw, parseSym kv.2 = y) := by
  unfold tokenNames
  simp only
  rw [mem_foldl_sadd_map (fun (kv : (List Char × List Char) × List Char) => parseSym kv.2),
    mem_foldl_sadd_map (fun (kv : List Char × List Char) => parseSym kv.2), List.mem_filter,
    mem_foldl_sadd_map (fun (g : List Char) => parseSym g)]
  simp only [List.not_mem_nil, false_or, Option.isNone_iff_eq_none, or_assoc]

/-- the name `parse` gives to a lexeme whose regex group is one of the tokenizer's groups is one of
`get_all_token_names()` -/
theorem rename_mem_tokenNames {inp : CtorIn} {P : Parser} (hsyn : P.syn = inp.syn) (hkw : P.kw = inp.kw)
    {raw : List Char × List Char} (hg : raw.1 ∈ inp.groups) : (P.rename raw).name ∈ tokenNames inp := by
  unfold Parser.rename
  simp only [hsyn, hkw]
  rw [mem_tokenNames]
  cases h1 : dget raw.1 inp.syn with
  | some n1 =>
    simp only
    cases h2 : dget (n1, raw.2) inp.kw with
    | some n2 => exact Or.inr (Or.inr ⟨_, dget_mem h2, rfl⟩)
    | none => exact Or.inr (Or.inl ⟨_, dget_mem h1, rfl⟩)
  | none =>
    simp only
    cases h2 : dget (raw.1, raw.2) inp.kw with
    | some n2 => exact Or.inr (Or.inr ⟨_, dget_mem h2, rfl⟩)
    | none => exact Or.inl ⟨⟨raw.1, hg, rfl⟩, by rw [name_parseSym]; exact h1⟩

/-- `hEnd`, discharged: the lexemes come from the tokenizer's groups and `$END$` is not among the
token names of the configuration -/
theorem tokens_no_end {inp : CtorIn} {P : Parser} (hsyn : P.syn = inp.syn) (hkw : P.kw = inp.kw)
    (hend : endSym ∉ tokenNames inp) {raw : List (List Char × List Char)}
    (hraw : ∀ r ∈ raw, r.1 ∈ inp.groups) :
    ∀ tok ∈ (P.tokens raw).dropLast, tok.name ≠ endSym := by
  intro tok htok
  simp only [Parser.tokens, List.dropLast_concat, List.mem_filter, List.mem_map] at htok
  obtain ⟨⟨r, hr, hrt⟩, _⟩ := htok
  intro he
  apply hend
  rw [← he, ← hrt]
  exact rename_mem_tokenNames hsyn hkw (hraw r hr)

end LL
