import AkVerif.Model.GhistRefs
/-!
Lemmas about reading the refs of a git directory (`Model/GhistRefs.lean`): a packed-refs text written the way git
writes it is read back record by record — the last record included, with or without a line break after it.
-/
namespace Ghist
open Ak

def NoWs (s : List Char) : Prop := ∀ c ∈ s, isWs c = false

instance (s : List Char) : Decidable (NoWs s) := by unfold NoWs; infer_instance

/-- one record of packed-refs: the ref, the hexsha on its line, and the hexsha of the `^` line when there is one -/
structure PRec where
  name : List Char
  sha : List Char
  peeled : Option (List Char)

structure PRec.WF (r : PRec) : Prop where
  sha_ws : NoWs r.sha
  sha_first : ∃ c t, r.sha = c :: t ∧ c ≠ Gen.GhistRefs.commentChar ∧ c ≠ Gen.GhistRefs.peeledChar
  name_ne : r.name ≠ []
  name_ws : NoWs r.name
  peeled_ok : ∀ p, r.peeled = some p → p.length + 1 = Gen.GhistRefs.peeledLineLen ∧ NoWs p

/-- the lines of a record -/
def PRec.lines (r : PRec) : List (List Char) :=
  (r.sha ++ ' ' :: r.name) :: (match r.peeled with | some p => [Gen.GhistRefs.peeledChar :: p] | none => [])

/-- the commit the record stands for: the `^` line wins -/
def PRec.commit (r : PRec) : List Char := match r.peeled with | some p => p | none => r.sha

def PRec.entry (r : PRec) : List Char × List Char := (r.name, r.commit)

def PRec.below (prefixes : List (List Char)) (r : PRec) : Bool := prefixes.any fun p => p.isPrefixOf r.name

theorem dropWs_head {c : Char} (cs : List Char) (h : isWs c = false) : dropWs (c :: cs) = c :: cs := by
  simp [dropWs, h]

theorem strip_eq (s : List Char) (h1 : ∃ c t, s = c :: t ∧ isWs c = false)
    (h2 : ∃ c t, s.reverse = c :: t ∧ isWs c = false) : strip s = s := by
  obtain ⟨c, t, rfl, hc⟩ := h1
  obtain ⟨d, u, hr, hd⟩ := h2
  unfold strip
  rw [dropWs_head t hc, hr, dropWs_head u hd, ← hr, List.reverse_reverse]

theorem strip_nil : strip [] = [] := rfl

theorem takeWord_append (w : List Char) (hw : NoWs w) (c : Char) (hc : isWs c = true) (rest : List Char) :
    takeWord (w ++ c :: rest) = w := by
  induction w with
  | nil => simp [takeWord, hc]
  | cons x w ih =>
    have hx : isWs x = false := hw x (by simp)
    simp only [List.cons_append, takeWord, hx, Bool.false_eq_true, if_false]
    rw [ih (fun y hy => hw y (by simp [hy]))]

theorem dropWord_append (w : List Char) (hw : NoWs w) (c : Char) (hc : isWs c = true) (rest : List Char) :
    dropWord (w ++ c :: rest) = c :: rest := by
  induction w with
  | nil => simp [dropWord, hc]
  | cons x w ih =>
    have hx : isWs x = false := hw x (by simp)
    simp only [List.cons_append, dropWord, hx, Bool.false_eq_true, if_false]
    exact ih (fun y hy => hw y (by simp [hy]))

theorem splitTwo_line (sha name : List Char) (hs : NoWs sha) (hne : name ≠ []) (hn : NoWs name) :
    splitTwo (sha ++ ' ' :: name) = some (sha, name) := by
  have hsp : isWs ' ' = true := by decide
  cases name with
  | nil => exact absurd rfl hne
  | cons a name =>
    have ha : isWs a = false := hn a (by simp)
    unfold splitTwo
    simp only [dropWord_append sha hs ' ' hsp, takeWord_append sha hs ' ' hsp]
    have : dropWs (' ' :: a :: name) = a :: name := by
      simp [dropWs, hsp, ha]
    rw [this]
    simp

theorem noWs_append_rev_head (sha name : List Char) (hne : name ≠ []) (hn : NoWs name) :
    ∃ c t, (sha ++ ' ' :: name).reverse = c :: t ∧ isWs c = false := by
  cases hr : name.reverse with
  | nil => simp at hr; exact absurd hr hne
  | cons c t =>
    refine ⟨c, t ++ ' ' :: sha.reverse, ?_, ?_⟩
    · simp [hr]
    · apply hn
      have : c ∈ name.reverse := by rw [hr]; simp
      simpa using this

theorem strip_recordLine (r : PRec) (h : r.WF) : strip (r.sha ++ ' ' :: r.name) = r.sha ++ ' ' :: r.name := by
  obtain ⟨c, t, hs, _, _⟩ := h.sha_first
  apply strip_eq
  · exact ⟨c, t ++ ' ' :: r.name, by rw [hs]; rfl, h.sha_ws c (by rw [hs]; simp)⟩
  · exact noWs_append_rev_head r.sha r.name h.name_ne h.name_ws

theorem strip_peeledLine (p : List Char) (hp : NoWs p) :
    strip (Gen.GhistRefs.peeledChar :: p) = Gen.GhistRefs.peeledChar :: p := by
  have hc : isWs Gen.GhistRefs.peeledChar = false := by decide
  apply strip_eq
  · exact ⟨_, _, rfl, hc⟩
  · cases hr : p.reverse with
    | nil => exact ⟨Gen.GhistRefs.peeledChar, [], by simp [hr], hc⟩
    | cons c t =>
      refine ⟨c, t ++ [Gen.GhistRefs.peeledChar], by simp [hr], ?_⟩
      apply hp
      have : c ∈ p.reverse := by rw [hr]; simp
      simpa using this

theorem consAcc_ok {α} (acc : Option α) (l : List α) : consAcc acc (.ok l : Except Err (List α)) = .ok (acc.toList ++ l) := rfl

/-- reading the lines of one record: whatever was pending is yielded, the record becomes the pending one (when its
name is below one of the prefixes) with the hexsha of its `^` line if it has one -/
theorem packedLoop_record (P : List (List Char)) (r : PRec) (h : r.WF) (rest : List (List Char))
    (acc : Option (List Char × List Char)) :
    packedLoop P (r.lines ++ rest) acc =
      consAcc acc (packedLoop P rest (if r.below P then some r.entry else none)) := by
  obtain ⟨c, t, hs, hc1, hc2⟩ := h.sha_first
  have hline : strip (r.sha ++ ' ' :: r.name) = c :: (t ++ ' ' :: r.name) := by
    rw [strip_recordLine r h, hs]; rfl
  have hsplit : splitTwo (c :: (t ++ ' ' :: r.name)) = some (r.sha, r.name) := by
    have := splitTwo_line r.sha r.name h.sha_ws h.name_ne h.name_ws
    rw [hs] at this ⊢
    exact this
  have step1 : ∀ rest', packedLoop P ((r.sha ++ ' ' :: r.name) :: rest') acc =
      consAcc acc (packedLoop P rest' (if r.below P then some (r.name, r.sha) else none)) := by
    intro rest'
    rw [packedLoop, hline]
    simp only [hc1, hc2, if_false, hsplit]
    rfl
  cases hp : r.peeled with
  | none =>
    simp only [PRec.lines, hp, List.cons_append, List.nil_append]
    rw [step1]
    simp [PRec.entry, PRec.commit, hp]
  | some p =>
    obtain ⟨hlen, hpw⟩ := h.peeled_ok p hp
    simp only [PRec.lines, hp, List.cons_append, List.nil_append]
    rw [step1]
    congr 1
    rw [packedLoop, strip_peeledLine p hpw]
    have hne : Gen.GhistRefs.peeledChar ≠ Gen.GhistRefs.commentChar := by decide
    simp only [hne, if_false, if_true, List.length_cons, hlen, ne_eq, not_true_eq_false]
    congr 1
    cases hb : r.below P <;> simp [PRec.entry, PRec.commit, hp]

theorem packedLoop_blank (P : List (List Char)) (tr : List (List Char)) (htr : ∀ l ∈ tr, strip l = [])
    (acc : Option (List Char × List Char)) : packedLoop P tr acc = .ok acc.toList := by
  induction tr with
  | nil => rfl
  | cons l tr ih =>
    rw [packedLoop, htr l (by simp)]
    exact ih (fun x hx => htr x (by simp [hx]))

/-- a comment line git writes: it names the format -/
def IsHeader (l : List Char) : Prop :=
  ∃ rest, strip l = Gen.GhistRefs.commentChar :: rest ∧
    Gen.GhistRefs.headerWords.all (fun w => occursIn w (Gen.GhistRefs.commentChar :: rest)) = true

theorem packedLoop_headers (P : List (List Char)) (hdrs : List (List Char)) (hh : ∀ l ∈ hdrs, IsHeader l)
    (rest : List (List Char)) (acc : Option (List Char × List Char)) :
    packedLoop P (hdrs ++ rest) acc = packedLoop P rest acc := by
  induction hdrs with
  | nil => rfl
  | cons l hdrs ih =>
    obtain ⟨r, h1, h2⟩ := hh l (by simp)
    rw [List.cons_append, packedLoop, h1]
    simp only [if_true, h2]
    exact ih (fun x hx => hh x (by simp [hx]))

theorem packedLoop_records (P : List (List Char)) :
    ∀ (recs : List PRec), (∀ r ∈ recs, r.WF) → ∀ (tr : List (List Char)), (∀ l ∈ tr, strip l = []) →
      ∀ acc, packedLoop P (recs.flatMap PRec.lines ++ tr) acc =
        .ok (acc.toList ++ (recs.filter (PRec.below P)).map PRec.entry) := by
  intro recs
  induction recs with
  | nil => intro _ tr htr acc; simpa using packedLoop_blank P tr htr acc
  | cons r recs ih =>
    intro hwf tr htr acc
    rw [List.flatMap_cons, List.append_assoc, packedLoop_record P r (hwf r (by simp)),
      ih (fun x hx => hwf x (by simp [hx])) tr htr, consAcc_ok]
    cases hb : r.below P <;> simp [hb]

/-! ### the text of the file -/

def unlines (ls : List (List Char)) : List Char := ls.flatMap fun l => l ++ ['\n']

theorem splitNl_noNl (l : List Char) (h : '\n' ∉ l) : splitNl l = [l] := by
  induction l with
  | nil => rfl
  | cons c l ih =>
    have hc : c ≠ '\n' := fun e => h (by simp [e])
    rw [splitNl, if_neg hc, ih (fun m => h (by simp [m]))]

theorem splitNl_line (l : List Char) (h : '\n' ∉ l) (rest : List Char) :
    splitNl (l ++ '\n' :: rest) = l :: splitNl rest := by
  induction l with
  | nil => simp [splitNl]
  | cons c l ih =>
    have hc : c ≠ '\n' := fun e => h (by simp [e])
    rw [List.cons_append, splitNl, if_neg hc, ih (fun m => h (by simp [m]))]

theorem splitNl_unlines (ls : List (List Char)) (h : ∀ l ∈ ls, '\n' ∉ l) (t : List Char) :
    splitNl (unlines ls ++ t) = ls ++ splitNl t := by
  induction ls with
  | nil => rfl
  | cons l ls ih =>
    have : unlines (l :: ls) ++ t = l ++ '\n' :: (unlines ls ++ t) := by
      simp [unlines, List.flatMap_cons]
    rw [this, splitNl_line l (h l (by simp)), ih (fun x hx => h x (by simp [hx]))]
    rfl

/-- the text of a file with the given lines; `nl` : the last line ends with a line break too -/
def fileText (ls : List (List Char)) (nl : Bool) : List Char :=
  if nl then unlines ls
  else unlines ls.dropLast ++ (match ls.getLast? with | some l => l | none => [])

/-- the file read line by line: the lines, possibly followed by one empty line -/
theorem splitNl_fileText (ls : List (List Char)) (h : ∀ l ∈ ls, '\n' ∉ l) (nl : Bool) :
    ∃ tr, splitNl (fileText ls nl) = ls ++ tr ∧ ∀ l ∈ tr, strip l = [] := by
  cases nl with
  | true =>
    refine ⟨[[]], ?_, by simp [strip_nil]⟩
    have := splitNl_unlines ls h []
    simpa [fileText, splitNl] using this
  | false =>
    rcases List.eq_nil_or_concat ls with rfl | ⟨init, a, rfl⟩
    · exact ⟨[[]], by simp [fileText, unlines, splitNl], by simp [strip_nil]⟩
    · simp only [List.concat_eq_append] at h ⊢
      refine ⟨[], ?_, by simp⟩
      have h1 := splitNl_unlines init (fun x hx => h x (by simp [hx])) a
      have h2 := splitNl_noNl a (h a (by simp))
      simp only [fileText, Bool.false_eq_true, if_false, List.dropLast_concat, List.getLast?_concat]
      rw [h1, h2]
      simp

theorem noNl_of_noWs {s : List Char} (h : NoWs s) : '\n' ∉ s := by
  intro hm
  have := h _ hm
  revert this
  decide

theorem record_lines_noNl (r : PRec) (h : r.WF) : ∀ l ∈ r.lines, '\n' ∉ l := by
  intro l hl
  simp only [PRec.lines, List.mem_cons] at hl
  rcases hl with rfl | hl
  · intro hm
    simp only [List.mem_append, List.mem_cons] at hm
    rcases hm with hm | hm | hm
    · exact noNl_of_noWs h.sha_ws hm
    · revert hm; decide
    · exact noNl_of_noWs h.name_ws hm
  · cases hp : r.peeled with
    | none => rw [hp] at hl; simp at hl
    | some p =>
      rw [hp] at hl
      simp only [List.mem_cons, List.not_mem_nil, or_false] at hl
      subst hl
      intro hm
      simp only [List.mem_cons] at hm
      rcases hm with hm | hm
      · revert hm; decide
      · exact noNl_of_noWs (h.peeled_ok p hp).2 hm

/-- a packed-refs file as git writes it: comment lines, then the records -/
def packedText (hdrs : List (List Char)) (recs : List PRec) (nl : Bool) : List Char :=
  fileText (hdrs ++ recs.flatMap PRec.lines) nl

theorem packedLoop_packedText (P : List (List Char)) (hdrs : List (List Char)) (hh : ∀ l ∈ hdrs, IsHeader l ∧ '\n' ∉ l)
    (recs : List PRec) (hwf : ∀ r ∈ recs, r.WF) (nl : Bool) :
    packedLoop P (splitNl (packedText hdrs recs nl)) none = .ok ((recs.filter (PRec.below P)).map PRec.entry) := by
  have hno : ∀ l ∈ hdrs ++ recs.flatMap PRec.lines, '\n' ∉ l := by
    intro l hl
    rcases List.mem_append.mp hl with h1 | h1
    · exact (hh l h1).2
    · obtain ⟨r, hr, hlr⟩ := List.mem_flatMap.mp h1
      exact record_lines_noNl r (hwf r hr) l hlr
  obtain ⟨tr, hsplit, htr⟩ := splitNl_fileText _ hno nl
  unfold packedText
  rw [hsplit, List.append_assoc, packedLoop_headers P hdrs (fun l hl => (hh l hl).1),
    packedLoop_records P recs hwf tr htr]
  rfl

/-! ### `iter_refs` and what `ProjectRepo` makes of it -/

theorem resolveAll_some (st : RefStore) (l : List (List Char × List Char)) :
    resolveAll st (l.map fun r => (r.1, some r.2)) = .ok l := by
  induction l with
  | nil => rfl
  | cons a l ih =>
    obtain ⟨n, s⟩ := a
    simp only [List.map_cons, resolveAll, ih]

theorem looseSha_mem (st : RefStore) (hnd : (st.loose.map (·.1)).Nodup) (r : List Char × List Char)
    (hr : r ∈ st.loose) : looseSha st r.1 = .ok r.2 := by
  unfold looseSha
  have : st.loose.find? (fun x => decide (x.1 = r.1)) = some r := by
    generalize st.loose = L at hnd hr
    induction L with
    | nil => cases hr
    | cons a L ih =>
      simp only [List.map_cons, List.nodup_cons] at hnd
      rcases List.mem_cons.mp hr with rfl | hm
      · simp
      · have hne : a.1 ≠ r.1 := by
          intro e
          exact hnd.1 (by rw [e]; exact List.mem_map.mpr ⟨r, hm, rfl⟩)
        simp only [List.find?_cons, hne, decide_false]
        exact ih hnd.2 hm
  rw [this]

theorem resolveAll_loose (st : RefStore) (hnd : (st.loose.map (·.1)).Nodup)
    (l : List (List Char × List Char)) (hl : ∀ r ∈ l, r ∈ st.loose) (tail : List (List Char × Option (List Char)))
    (res : List (List Char × List Char)) (ht : resolveAll st tail = .ok res) :
    resolveAll st ((l.map (·.1)).map (fun n => (n, none)) ++ tail) = .ok (l ++ res) := by
  induction l with
  | nil => simpa using ht
  | cons a l ih =>
    have h1 := looseSha_mem st hnd a (hl a (by simp))
    have h2 := ih (fun r hr => hl r (by simp [hr]))
    simp only [List.map_cons, List.cons_append, resolveAll, h1, h2]

/-- the refs a well-formed git directory stores below a prefix, in the order `ProjectRepo` sees them: the loose ones
with the hexsha of their files, then the records of packed-refs that have no file of their own — every one of them -/
theorem refsBelow_packedText (st : RefStore) (pre : List Char) (hpre : ("refs/".toList).isPrefixOf pre = true)
    (hnd : (st.loose.map (·.1)).Nodup)
    (hdrs : List (List Char)) (hh : ∀ l ∈ hdrs, IsHeader l ∧ '\n' ∉ l) (recs : List PRec) (hwf : ∀ r ∈ recs, r.WF)
    (nl : Bool) (hp : st.packed = some (packedText hdrs recs nl) ∨ (st.packed = none ∧ recs = [])) :
    refsBelow st pre = .ok (st.loose.filter (fun r => pre.isPrefixOf r.1) ++
      ((recs.filter (PRec.below [pre])).filter fun r =>
        !((st.loose.filter fun x => pre.isPrefixOf x.1).map (·.1)).contains r.name).map PRec.entry) := by
  have hpk : packedRefs st [pre] = .ok ((recs.filter (PRec.below [pre])).map PRec.entry) := by
    unfold packedRefs
    rcases hp with hp | ⟨hp, rfl⟩
    · rw [hp]; exact packedLoop_packedText [pre] hdrs hh recs hwf nl
    · rw [hp]; rfl
  have hfm : ∀ (fs : List (List Char)) (L : List PRec),
      (L.map PRec.entry).filter (fun r => !fs.contains r.1) = (L.filter fun r => !fs.contains r.name).map PRec.entry := by
    intro fs L
    rw [List.filter_map]
    rfl
  unfold refsBelow iterRefs
  simp only [hpre, Bool.not_true, Bool.false_eq_true, if_false, hpk, hfm]
  exact resolveAll_loose st hnd (st.loose.filter fun r => pre.isPrefixOf r.1)
    (fun r hr => (List.mem_filter.mp hr).1) _ _ (resolveAll_some st _)

end Ghist
