import AkVerif.Lemmas.LLFuel
/-!
The FIRST and FOLLOW sets computed by `Model/LLGrammar.lean` are the LEAST solutions of the closure
conditions proved in `LLSets.lean` / `LLFollow.lean` (`firstSets_closed`, `followSets_closed`):

* `firstSets_least`   — every relation `M` closed under "`FirstInM … M r.rhs t → M X t`" contains the
                        computed FIRST sets,
* `followSets_least`  — every relation `M` with `M start endS`, closed under the immediate-follow and
                        the dependency condition, contains the computed FOLLOW sets,
* `firstSets_exact`   — `t ∈ first[X] ↔ First G terms nulls X t` (`First` an inductive predicate),
* `followSets_exact`  — `t ∈ follow[X] ↔ Follow G terms nulls first start endS X t`.

All four need `hnt : ∀ s ∈ nulls, s ∉ terms`: the code keeps scanning behind a *terminal* that is in
`nulls`, while `FirstIn` / `FirstInM` / `NullIn` stop there; without the hypothesis leastness is false
(`terms = [a, b]`, `nulls = [a]`, `X → a b` puts `b` into `first[X]`).  No `Nodup` on the keys of `G`
is needed: the invariants are stated for every *entry* of the running dictionaries.
-/
set_option linter.unusedSectionVars false
namespace LL

section Dict
variable {κ β : Type} [DecidableEq κ]

theorem lst_mem_dset {k : κ} {v : β} {p : κ × β} : ∀ {d : List (κ × β)}, p ∈ dset k v d →
    p ∈ d ∨ p = (k, v)
  | [], h => by
    simp only [dset, List.mem_singleton] at h
    exact Or.inr h
  | (k', v') :: rest, h => by
    unfold dset at h
    split at h
    · rcases List.mem_cons.1 h with e | h
      · exact Or.inr e
      · exact Or.inl (List.mem_cons_of_mem _ h)
    · rcases List.mem_cons.1 h with e | h
      · subst e; exact Or.inl (by simp)
      · rcases lst_mem_dset h with h | h
        · exact Or.inl (List.mem_cons_of_mem _ h)
        · exact Or.inr h

end Dict

variable {σ : Type} [DecidableEq σ]

/-- `FirstIn` with an arbitrary relation `M` in place of the looked-up sets -/
def FirstInM (terms nulls : List σ) (M : σ → σ → Prop) : List σ → σ → Prop
  | [], _ => False
  | s :: rest, t => (s ∈ terms ∧ t = s) ∨
      (s ∉ terms ∧ (M s t ∨ (s ∈ nulls ∧ FirstInM terms nulls M rest t)))

/-- every element stored in any entry of the dictionary satisfies `M` -/
def lst_Sat (M : σ → σ → Prop) (fs : SetMap σ) : Prop := ∀ p ∈ fs, ∀ t ∈ p.2, M p.1 t

theorem lst_Sat_dset {M : σ → σ → Prop} {fs : SetMap σ} {k : σ} {v : List σ} (h : lst_Sat M fs)
    (hv : ∀ t ∈ v, M k t) : lst_Sat M (dset k v fs) := by
  intro p hp
  rcases lst_mem_dset hp with hp | hp
  · exact h p hp
  · subst hp; exact hv

theorem lst_Sat_get {M : σ → σ → Prop} {fs : SetMap σ} {X : σ} {f : List σ} (h : lst_Sat M fs)
    (hg : dget X fs = some f) : ∀ t ∈ f, M X t :=
  h (X, f) (dget_mem hg)

theorem lst_Sat_emptySets (M : σ → σ → Prop) (G : Prods σ) : lst_Sat M (emptySets G) := by
  intro p hp t ht
  unfold emptySets at hp
  obtain ⟨e, _, he⟩ := List.mem_map.1 hp
  subst he
  simp at ht

/-! ### FIRST -/

theorem lst_firstSyms {terms nulls : List σ} (hnt : ∀ s ∈ nulls, s ∉ terms) {M : σ → σ → Prop}
    {nt : σ} : ∀ (l : List σ) (fs : SetMap σ) (upd : Bool) (res : SetMap σ × Bool),
    firstSyms terms nulls nt l fs upd = .ok res → lst_Sat M fs →
    (∀ t, FirstInM terms nulls M l t → M nt t) → lst_Sat M res.1
  | [], fs, upd, res, h, hS, _ => by
    simp only [firstSyms, Except.ok.injEq] at h
    subst h; exact hS
  | s :: rest, fs, upd, res, h, hS, hl => by
    obtain ⟨cur, fs1, upd1, hcur, hstep, h⟩ := firstSyms_cons_ok h
    have hS1 : lst_Sat M fs1 := by
      rcases hstep with ⟨h1, ⟨_, hfs, _⟩ | ⟨_, hfs, _⟩⟩ | ⟨h1, other, hother, hfs, _⟩
      · subst hfs; exact hS
      · subst hfs
        refine lst_Sat_dset hS ?_
        intro t ht
        rcases List.mem_append.1 ht with ht | ht
        · exact lst_Sat_get hS hcur t ht
        · have e : t = s := by simpa using ht
          subst e
          exact hl _ (by unfold FirstInM; exact Or.inl ⟨h1, rfl⟩)
      · subst hfs
        refine lst_Sat_dset hS ?_
        intro t ht
        rcases mem_sunion.1 ht with ht | ht
        · exact lst_Sat_get hS hcur t ht
        · exact hl t (by unfold FirstInM; exact Or.inr ⟨h1, Or.inl (lst_Sat_get hS hother t ht)⟩)
    split at h
    · rename_i hn
      refine lst_firstSyms hnt rest fs1 upd1 res h hS1 ?_
      intro t ht
      exact hl t (by unfold FirstInM; exact Or.inr ⟨hnt s hn, Or.inr ⟨hn, ht⟩⟩)
    · cases h; exact hS1

theorem lst_firstRules {terms nulls : List σ} (hnt : ∀ s ∈ nulls, s ∉ terms) {M : σ → σ → Prop}
    {nt : σ} : ∀ (rs : List (Rule σ)) (fs : SetMap σ) (upd : Bool) (res : SetMap σ × Bool),
    firstRules terms nulls nt rs fs upd = .ok res → lst_Sat M fs →
    (∀ r ∈ rs, ∀ t, FirstInM terms nulls M r.rhs t → M nt t) → lst_Sat M res.1
  | [], fs, upd, res, h, hS, _ => by
    simp only [firstRules, Except.ok.injEq] at h
    subst h; exact hS
  | r0 :: rest, fs, upd, res, h, hS, hl => by
    unfold firstRules at h
    obtain ⟨⟨fs1, upd1⟩, h0, h⟩ := exc_bind_ok h
    simp only at h
    have hS1 := lst_firstSyms hnt _ _ _ _ h0 hS (hl r0 (by simp))
    exact lst_firstRules hnt rest fs1 upd1 res h hS1 (fun r hr => hl r (List.mem_cons_of_mem _ hr))

theorem lst_firstPass {terms nulls : List σ} (hnt : ∀ s ∈ nulls, s ∉ terms) {M : σ → σ → Prop} :
    ∀ (G : Prods σ) (fs : SetMap σ) (upd : Bool) (res : SetMap σ × Bool),
    firstPass terms nulls G fs upd = .ok res → lst_Sat M fs →
    (∀ X rules, (X, rules) ∈ G → ∀ r ∈ rules, ∀ t, FirstInM terms nulls M r.rhs t → M X t) →
    lst_Sat M res.1
  | [], fs, upd, res, h, hS, _ => by
    simp only [firstPass, Except.ok.injEq] at h
    subst h; exact hS
  | (nt, rs) :: rest, fs, upd, res, h, hS, hM => by
    unfold firstPass at h
    obtain ⟨⟨fs1, upd1⟩, h0, h⟩ := exc_bind_ok h
    simp only at h
    have hS1 := lst_firstRules hnt _ _ _ _ h0 hS (hM nt rs (by simp))
    exact lst_firstPass hnt rest fs1 upd1 res h hS1
      (fun X rules hm => hM X rules (List.mem_cons_of_mem _ hm))

theorem lst_firstLoop {terms nulls : List σ} (hnt : ∀ s ∈ nulls, s ∉ terms) {M : σ → σ → Prop}
    {G : Prods σ}
    (hM : ∀ X rules, (X, rules) ∈ G → ∀ r ∈ rules, ∀ t, FirstInM terms nulls M r.rhs t → M X t) :
    ∀ (fuel : Nat) (fs first : SetMap σ), firstLoop terms nulls G fuel fs = .ok first →
      lst_Sat M fs → lst_Sat M first
  | 0, _, _, h, _ => by simp [firstLoop] at h
  | fuel + 1, fs, first, h, hS => by
    unfold firstLoop at h
    obtain ⟨⟨fs1, upd1⟩, h0, h⟩ := exc_bind_ok h
    simp only at h
    have hS1 := lst_firstPass hnt _ _ _ _ h0 hS hM
    split at h
    · exact lst_firstLoop hnt hM fuel fs1 first h hS1
    · simp only [Except.ok.injEq] at h
      subst h; exact hS1

/-- the computed FIRST sets are contained in every relation closed under the rules of the grammar.
`hnt` is needed (see the header); no `Nodup` on the keys of `G`. -/
theorem firstSets_least {terms nulls : List σ} {G : Prods σ} {first : SetMap σ}
    (h : firstSets terms nulls G = .ok first) (hnt : ∀ s ∈ nulls, s ∉ terms) (M : σ → σ → Prop)
    (hM : ∀ X rules, (X, rules) ∈ G → ∀ r ∈ rules, ∀ t, FirstInM terms nulls M r.rhs t → M X t) :
    ∀ X f, dget X first = some f → ∀ t ∈ f, M X t := by
  have hS := lst_firstLoop hnt hM _ _ _ h (lst_Sat_emptySets M G)
  exact fun X f hf => lst_Sat_get hS hf

/-! ### FOLLOW -/

/-- the meaning of a stored dependency `a ∈ D[X]`: `follow[a] ⊆ follow[X]` -/
def lst_Dep (M : σ → σ → Prop) : σ → σ → Prop := fun X a => ∀ t, M a t → M X t

/-- the invariant of phase 1 -/
def lst_StSat (M : σ → σ → Prop) (st : SetMap σ × SetMap σ) : Prop :=
  lst_Sat M st.1 ∧ lst_Sat (lst_Dep M) st.2

theorem lst_followTail {terms nulls : List σ} {first : SetMap σ} (hnt : ∀ s ∈ nulls, s ∉ terms)
    {M : σ → σ → Prop} {A X : σ} : ∀ (β : List σ) (st st' : SetMap σ × SetMap σ),
    followTail terms nulls first A X β st = .ok st' → lst_StSat M st →
    (∀ t, FirstIn terms nulls first β t → M X t) →
    (NullIn terms nulls β → ∀ t, M A t → M X t) → lst_StSat M st'
  | [], (W, D), st', h, hS, _, hN => by
    unfold followTail at h
    obtain ⟨d, hd, h⟩ := exc_bind_ok h
    have hd := dgetE_ok hd
    simp only [Except.ok.injEq] at h
    subst h
    refine ⟨hS.1, lst_Sat_dset hS.2 ?_⟩
    intro a ha
    rcases mem_sadd.1 ha with ha | ha
    · exact lst_Sat_get hS.2 hd a ha
    · subst ha
      exact hN (fun s hs => by simp at hs)
  | n :: rest, (W, D), st', h, hS, hF, hN => by
    obtain ⟨w, W1, D1, hw, hstep, hk⟩ := followTail_cons_ok h
    clear h
    have hW : lst_Sat M W := hS.1
    have hD : lst_Sat (lst_Dep M) D := hS.2
    have h1 : lst_Sat M W1 ∧ D1 = D := by
      rcases hstep with ⟨h1, hW1, hD1⟩ | ⟨h1, f, hf, hW1, hD1⟩
      · subst hW1
        refine ⟨lst_Sat_dset hW ?_, hD1⟩
        intro t ht
        rcases mem_sadd.1 ht with ht | ht
        · exact lst_Sat_get hW hw t ht
        · subst ht
          exact hF _ (by unfold FirstIn; exact Or.inl ⟨h1, rfl⟩)
      · subst hW1
        refine ⟨lst_Sat_dset hW ?_, hD1⟩
        intro t ht
        rcases mem_sunion.1 ht with ht | ht
        · exact lst_Sat_get hW hw t ht
        · exact hF t (by unfold FirstIn; exact Or.inr ⟨h1, Or.inl ⟨f, hf, ht⟩⟩)
    obtain ⟨hW1, hD1⟩ := h1
    subst hD1
    split at hk
    · rename_i hn
      refine lst_followTail hnt rest (W1, D1) st' hk ⟨hW1, hD⟩ ?_ ?_
      · intro t ht
        exact hF t (by unfold FirstIn; exact Or.inr ⟨hnt n hn, Or.inr ⟨hn, ht⟩⟩)
      · intro hr
        apply hN
        intro s hs
        rcases List.mem_cons.1 hs with e | hs
        · subst e; exact ⟨hnt s hn, hn⟩
        · exact hr s hs
    · simp only [Except.ok.injEq] at hk
      subst hk; exact ⟨hW1, hD⟩

/-- the two closure conditions for every non-terminal occurrence in the right-hand side `l` of a
rule of `A` -/
def lst_TailHyp (terms nulls : List σ) (first : SetMap σ) (M : σ → σ → Prop) (A : σ) (l : List σ) :
    Prop :=
  ∀ i X, l[i]? = some X → X ∉ terms →
    (∀ t, FirstIn terms nulls first (l.drop (i + 1)) t → M X t) ∧
    (NullIn terms nulls (l.drop (i + 1)) → ∀ t, M A t → M X t)

theorem lst_TailHyp_tail {terms nulls : List σ} {first : SetMap σ} {M : σ → σ → Prop} {A Y : σ}
    {rest : List σ} (h : lst_TailHyp terms nulls first M A (Y :: rest)) :
    lst_TailHyp terms nulls first M A rest := by
  intro i X hi hX
  have := h (i + 1) X (by simpa using hi) hX
  simpa using this

theorem lst_followRule {terms nulls : List σ} {first : SetMap σ} (hnt : ∀ s ∈ nulls, s ∉ terms)
    {M : σ → σ → Prop} {A : σ} : ∀ (l : List σ) (st st' : SetMap σ × SetMap σ),
    followRule terms nulls first A l st = .ok st' → lst_StSat M st →
    lst_TailHyp terms nulls first M A l → lst_StSat M st'
  | [], st, st', h, hS, _ => by
    simp only [followRule, Except.ok.injEq] at h
    subst h; exact hS
  | Y :: rest, st, st', h, hS, hH => by
    unfold followRule at h
    split at h
    · exact lst_followRule hnt rest st st' h hS (lst_TailHyp_tail hH)
    · rename_i hY
      obtain ⟨st1, h1, h⟩ := exc_bind_ok h
      have h0 := hH 0 Y (by simp) hY
      have hS1 := lst_followTail hnt rest st st1 h1 hS (by simpa using h0.1) (by simpa using h0.2)
      exact lst_followRule hnt rest st1 st' h hS1 (lst_TailHyp_tail hH)

theorem lst_followRules {terms nulls : List σ} {first : SetMap σ} (hnt : ∀ s ∈ nulls, s ∉ terms)
    {M : σ → σ → Prop} {A : σ} : ∀ (rs : List (Rule σ)) (st st' : SetMap σ × SetMap σ),
    followRules terms nulls first A rs st = .ok st' → lst_StSat M st →
    (∀ r ∈ rs, lst_TailHyp terms nulls first M A r.rhs) → lst_StSat M st'
  | [], st, st', h, hS, _ => by
    simp only [followRules, Except.ok.injEq] at h
    subst h; exact hS
  | r0 :: rest, st, st', h, hS, hH => by
    unfold followRules at h
    obtain ⟨st1, h1, h⟩ := exc_bind_ok h
    have hS1 := lst_followRule hnt _ st st1 h1 hS (hH r0 (by simp))
    exact lst_followRules hnt rest st1 st' h hS1 (fun r hr => hH r (List.mem_cons_of_mem _ hr))

theorem lst_followImm {terms nulls : List σ} {first : SetMap σ} (hnt : ∀ s ∈ nulls, s ∉ terms)
    {M : σ → σ → Prop} : ∀ (G : Prods σ) (st st' : SetMap σ × SetMap σ),
    followImm terms nulls first G st = .ok st' → lst_StSat M st →
    (∀ A rules, (A, rules) ∈ G → ∀ r ∈ rules, lst_TailHyp terms nulls first M A r.rhs) →
    lst_StSat M st'
  | [], st, st', h, hS, _ => by
    simp only [followImm, Except.ok.injEq] at h
    subst h; exact hS
  | (A0, rs0) :: rest, st, st', h, hS, hH => by
    unfold followImm at h
    obtain ⟨st1, h1, h⟩ := exc_bind_ok h
    have hS1 := lst_followRules hnt _ st st1 h1 hS (hH A0 rs0 (by simp))
    exact lst_followImm hnt rest st1 st' h hS1
      (fun A rules hm => hH A rules (List.mem_cons_of_mem _ hm))

theorem lst_depsOne {M : σ → σ → Prop} {X : σ} : ∀ (deps : List σ) (W W' : SetMap σ),
    depsOne X deps W = .ok W' → lst_Sat M W → (∀ dep ∈ deps, lst_Dep M X dep) → lst_Sat M W'
  | [], W, W', h, hW, _ => by
    simp only [depsOne, Except.ok.injEq] at h
    subst h; exact hW
  | dep :: rest, W, W', h, hW, hd => by
    unfold depsOne at h
    obtain ⟨w, hw, h⟩ := exc_bind_ok h
    obtain ⟨wd, hwd, h⟩ := exc_bind_ok h
    refine lst_depsOne rest _ W' h (lst_Sat_dset hW ?_)
      (fun d hd' => hd d (List.mem_cons_of_mem _ hd'))
    intro t ht
    rcases mem_sunion.1 ht with ht | ht
    · exact lst_Sat_get hW (dgetE_ok hw) t ht
    · exact hd dep (by simp) t (lst_Sat_get hW (dgetE_ok hwd) t ht)

theorem lst_depsPass {M : σ → σ → Prop} : ∀ (D W : SetMap σ) (upd : Bool) (res : SetMap σ × Bool),
    depsPass D W upd = .ok res → lst_Sat M W → lst_Sat (lst_Dep M) D → lst_Sat M res.1
  | [], W, upd, res, h, hW, _ => by
    simp only [depsPass, Except.ok.injEq] at h
    subst h; exact hW
  | (X0, deps0) :: rest, W, upd, res, h, hW, hD => by
    unfold depsPass at h
    obtain ⟨w0, _, h⟩ := exc_bind_ok h
    obtain ⟨W1, hone, h⟩ := exc_bind_ok h
    obtain ⟨w1, _, h⟩ := exc_bind_ok h
    have hW1 := lst_depsOne deps0 W W1 hone hW (hD (X0, deps0) (by simp))
    exact lst_depsPass rest W1 _ res h hW1 (fun p hp => hD p (List.mem_cons_of_mem _ hp))

theorem lst_depsLoop {M : σ → σ → Prop} {D : SetMap σ} (hD : lst_Sat (lst_Dep M) D) :
    ∀ (fuel : Nat) (W follow : SetMap σ), depsLoop D fuel W = .ok follow → lst_Sat M W →
      lst_Sat M follow
  | 0, _, _, h, _ => by simp [depsLoop] at h
  | fuel + 1, W, follow, h, hW => by
    unfold depsLoop at h
    obtain ⟨⟨W1, upd1⟩, hpass, h⟩ := exc_bind_ok h
    simp only at h
    have hW1 := lst_depsPass D W false _ hpass hW hD
    split at h
    · exact lst_depsLoop hD fuel W1 follow h hW1
    · simp only [Except.ok.injEq] at h
      subst h; exact hW1

/-- the computed FOLLOW sets are contained in every relation that holds `(start, endS)` and is
closed under the two FOLLOW conditions.  `hnt` is needed (see the header); no `Nodup`. -/
theorem followSets_least {terms nulls : List σ} {first : SetMap σ} {G : Prods σ} {start endS : σ}
    {follow : SetMap σ} (h : followSets terms nulls first G start endS = .ok follow)
    (hnt : ∀ s ∈ nulls, s ∉ terms) (M : σ → σ → Prop)
    (hstart : M start endS)
    (h1 : ∀ A rules, (A, rules) ∈ G → ∀ r ∈ rules, ∀ i X, r.rhs[i]? = some X → X ∉ terms →
        ∀ t, FirstIn terms nulls first (r.rhs.drop (i + 1)) t → M X t)
    (h2 : ∀ A rules, (A, rules) ∈ G → ∀ r ∈ rules, ∀ i X, r.rhs[i]? = some X → X ∉ terms →
        NullIn terms nulls (r.rhs.drop (i + 1)) → ∀ t, M A t → M X t) :
    ∀ X w, dget X follow = some w → ∀ t ∈ w, M X t := by
  unfold followSets at h
  simp only at h
  split at h
  case h_2 =>
    obtain ⟨_, hc, _⟩ := exc_bind_ok h
    cases hc
  rename_i ws hws
  simp only [pure_bind] at h
  obtain ⟨⟨W2, D⟩, himm, h⟩ := exc_bind_ok h
  simp only at h
  have hE := lst_Sat_emptySets M G
  have hS0 : lst_StSat M (dset start (sadd ws endS) (emptySets G), emptySets G) := by
    refine ⟨lst_Sat_dset hE ?_, lst_Sat_emptySets _ G⟩
    intro t ht
    rcases mem_sadd.1 ht with ht | ht
    · exact lst_Sat_get hE hws t ht
    · subst ht; exact hstart
  have hS2 := lst_followImm hnt G _ _ himm hS0
    (fun A rules hm r hr i X hi hX => ⟨h1 A rules hm r hr i X hi hX, h2 A rules hm r hr i X hi hX⟩)
  have hS := lst_depsLoop hS2.2 _ W2 follow h hS2.1
  exact fun X w hw => lst_Sat_get hS hw

/-! ### exact characterisations -/

/-- `FirstInM` read as "some symbol behind a nullable prefix contributes `t`" -/
theorem lst_FirstInM_split {terms nulls : List σ} {M : σ → σ → Prop} : ∀ (l : List σ) (t : σ),
    FirstInM terms nulls M l t ↔ ∃ pre s post, l = pre ++ s :: post ∧ NullIn terms nulls pre ∧
      ((s ∈ terms ∧ t = s) ∨ (s ∉ terms ∧ M s t))
  | [], t => by
    simp only [FirstInM, false_iff]
    rintro ⟨pre, s, post, h, _⟩
    cases pre <;> simp at h
  | a :: rest, t => by
    unfold FirstInM
    rw [lst_FirstInM_split rest t]
    constructor
    · rintro (⟨h1, h2⟩ | ⟨h1, h2 | ⟨hn, pre, s, post, hl, hpre, hs⟩⟩)
      · exact ⟨[], a, rest, rfl, fun s hs => by simp at hs, Or.inl ⟨h1, h2⟩⟩
      · exact ⟨[], a, rest, rfl, fun s hs => by simp at hs, Or.inr ⟨h1, h2⟩⟩
      · refine ⟨a :: pre, s, post, by rw [hl]; rfl, ?_, hs⟩
        intro y hy
        rcases List.mem_cons.1 hy with e | hy
        · subst e; exact ⟨h1, hn⟩
        · exact hpre y hy
    · rintro ⟨pre, s, post, hl, hpre, hs⟩
      cases pre with
      | nil =>
        simp only [List.nil_append, List.cons.injEq] at hl
        obtain ⟨e, _⟩ := hl
        subst e
        rcases hs with hs | ⟨h1, h2⟩
        · exact Or.inl hs
        · exact Or.inr ⟨h1, Or.inl h2⟩
      | cons b pre =>
        simp only [List.cons_append, List.cons.injEq] at hl
        obtain ⟨e, hl⟩ := hl
        subst e
        have hb := hpre a (by simp)
        exact Or.inr ⟨hb.1, Or.inr ⟨hb.2, pre, s, post, hl, fun y hy =>
          hpre y (List.mem_cons_of_mem _ hy), hs⟩⟩

/-- `FirstIn` is `FirstInM` for the relation "stored in `first`" -/
theorem lst_FirstIn_iff {terms nulls : List σ} {first : SetMap σ} : ∀ (l : List σ) (t : σ),
    FirstIn terms nulls first l t ↔
      FirstInM terms nulls (fun s t => ∃ f, dget s first = some f ∧ t ∈ f) l t
  | [], t => by simp [FirstIn, FirstInM]
  | a :: rest, t => by
    unfold FirstIn FirstInM
    rw [lst_FirstIn_iff rest t]

/-- FIRST as an inductive predicate: the least relation closed under the condition `hM` of
`firstSets_least` (`First.term` / `First.nonterm` are the two ways `FirstInM` can hold). -/
inductive First (G : Prods σ) (terms nulls : List σ) : σ → σ → Prop
  | term {X : σ} {rules : List (Rule σ)} {r : Rule σ} {pre post : List σ} {s : σ} :
      (X, rules) ∈ G → r ∈ rules → r.rhs = pre ++ s :: post → NullIn terms nulls pre →
      s ∈ terms → First G terms nulls X s
  | nonterm {X : σ} {rules : List (Rule σ)} {r : Rule σ} {pre post : List σ} {s t : σ} :
      (X, rules) ∈ G → r ∈ rules → r.rhs = pre ++ s :: post → NullIn terms nulls pre →
      s ∉ terms → First G terms nulls s t → First G terms nulls X t

/-- `First` is closed under the rules … -/
theorem First.closed {G : Prods σ} {terms nulls : List σ} {X : σ} {rules : List (Rule σ)}
    (hm : (X, rules) ∈ G) {r : Rule σ} (hr : r ∈ rules) {t : σ}
    (h : FirstInM terms nulls (First G terms nulls) r.rhs t) : First G terms nulls X t := by
  obtain ⟨pre, s, post, hl, hpre, hs⟩ := (lst_FirstInM_split _ _).1 h
  rcases hs with ⟨h1, h2⟩ | ⟨h1, h2⟩
  · subst h2; exact First.term hm hr hl hpre h1
  · exact First.nonterm hm hr hl hpre h1 h2

/-- … and the least such relation -/
theorem First.least {G : Prods σ} {terms nulls : List σ} (M : σ → σ → Prop)
    (hM : ∀ X rules, (X, rules) ∈ G → ∀ r ∈ rules, ∀ t, FirstInM terms nulls M r.rhs t → M X t)
    {X t : σ} (h : First G terms nulls X t) : M X t := by
  induction h with
  | term hm hr hl hpre hs =>
    exact hM _ _ hm _ hr _ ((lst_FirstInM_split _ _).2 ⟨_, _, _, hl, hpre, Or.inl ⟨hs, rfl⟩⟩)
  | nonterm hm hr hl hpre hs _ ih =>
    exact hM _ _ hm _ hr _ ((lst_FirstInM_split _ _).2 ⟨_, _, _, hl, hpre, Or.inr ⟨hs, ih⟩⟩)

/-- the computed FIRST sets are exactly `First` -/
theorem firstSets_exact {terms nulls : List σ} {G : Prods σ} {first : SetMap σ}
    (h : firstSets terms nulls G = .ok first) (hnt : ∀ s ∈ nulls, s ∉ terms) (X t : σ) :
    (∃ f, dget X first = some f ∧ t ∈ f) ↔ First G terms nulls X t := by
  constructor
  · rintro ⟨f, hf, ht⟩
    exact firstSets_least h hnt (First G terms nulls) (fun X rules hm r hr t => First.closed hm hr)
      X f hf t ht
  · intro hF
    exact First.least (fun X t => ∃ f, dget X first = some f ∧ t ∈ f)
      (fun X rules hm r hr t ht => firstSets_closed h X rules hm r hr t ((lst_FirstIn_iff _ _).2 ht))
      hF

/-- FOLLOW as an inductive predicate (relative to the FIRST dictionary `first`) -/
inductive Follow (G : Prods σ) (terms nulls : List σ) (first : SetMap σ) (start endS : σ) :
    σ → σ → Prop
  | start : Follow G terms nulls first start endS start endS
  | imm {A : σ} {rules : List (Rule σ)} {r : Rule σ} {i : Nat} {X t : σ} :
      (A, rules) ∈ G → r ∈ rules → r.rhs[i]? = some X → X ∉ terms →
      FirstIn terms nulls first (r.rhs.drop (i + 1)) t → Follow G terms nulls first start endS X t
  | dep {A : σ} {rules : List (Rule σ)} {r : Rule σ} {i : Nat} {X t : σ} :
      (A, rules) ∈ G → r ∈ rules → r.rhs[i]? = some X → X ∉ terms →
      NullIn terms nulls (r.rhs.drop (i + 1)) → Follow G terms nulls first start endS A t →
      Follow G terms nulls first start endS X t

/-- the computed FOLLOW sets are exactly `Follow` -/
theorem followSets_exact {terms nulls : List σ} {first : SetMap σ} {G : Prods σ} {start endS : σ}
    {follow : SetMap σ} (h : followSets terms nulls first G start endS = .ok follow)
    (hnt : ∀ s ∈ nulls, s ∉ terms) (X t : σ) :
    (∃ w, dget X follow = some w ∧ t ∈ w) ↔ Follow G terms nulls first start endS X t := by
  constructor
  · rintro ⟨w, hw, ht⟩
    exact followSets_least h hnt (Follow G terms nulls first start endS) Follow.start
      (fun A rules hm r hr i X hi hX t ht => Follow.imm hm hr hi hX ht)
      (fun A rules hm r hr i X hi hX hn t ht => Follow.dep hm hr hi hX hn ht) X w hw t ht
  · intro hF
    obtain ⟨hst, hcl⟩ := followSets_closed h
    induction hF with
    | start => exact hst
    | imm hm hr hi hX ht => exact (hcl _ _ hm _ hr _ _ hi hX).1 _ ht
    | dep hm hr hi hX hn _ ih =>
      obtain ⟨w, wa, hw, hwa, hs⟩ := (hcl _ _ hm _ hr _ _ hi hX).2 hn
      obtain ⟨wa', hwa', hta⟩ := ih
      rw [hwa] at hwa'; cases hwa'
      exact ⟨w, hw, hs _ hta⟩

/-! ### the hypothesis `hnt` -/

/-- `hnt` for the nullable set the constructor computes: the keys of `G` are not terminals
(`verifyPart1`, `Part1.disjoint` of `LLCompose.lean`) -/
theorem lst_nulls_not_terms {terms nulls : List σ} {G : Prods σ} (hN : nullables G = .ok nulls)
    (hk : ∀ k ∈ G.map (·.1), k ∉ terms) : ∀ s ∈ nulls, s ∉ terms :=
  fun s hs => hk s (nullables_sub_keys hN s hs)

/-- without `hnt` the leastness statement for FIRST is false: `terms = [0, 1]`, `nulls = [0]`,
`2 → 0 1`; the code puts `1` into `first[2]`, the relation `t = 0` is closed. -/
theorem lst_hnt_needed : ¬ (∀ (terms nulls : List Nat) (G : Prods Nat) (first : SetMap Nat),
    firstSets terms nulls G = .ok first → ∀ (M : Nat → Nat → Prop),
    (∀ X rules, (X, rules) ∈ G → ∀ r ∈ rules, ∀ t, FirstInM terms nulls M r.rhs t → M X t) →
    ∀ X f, dget X first = some f → ∀ t ∈ f, M X t) := by
  intro H
  have h := H [0, 1] [0] [(2, [⟨[0, 1], 0⟩])] [(2, [0, 1])] (by decide) (fun _ t => t = 0) ?_
    2 [0, 1] (by decide) 1 (by decide)
  · exact absurd h (by decide)
  · intro X rules hm r hr t ht
    simp only [List.mem_singleton, Prod.mk.injEq] at hm
    obtain ⟨_, hrules⟩ := hm
    subst hrules
    simp only [List.mem_singleton] at hr
    subst hr
    unfold FirstInM at ht
    rcases ht with ⟨_, ht⟩ | ⟨hn, _⟩
    · exact ht
    · exact absurd (by decide) hn

end LL

section
open LL
#print axioms firstSets_least
#print axioms followSets_least
#print axioms firstSets_exact
#print axioms followSets_exact
end
