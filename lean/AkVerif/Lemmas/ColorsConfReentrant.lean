import AkVerif.Lemmas.ColorsConfSafe
/-!
Lemmas for C14, sixth part: the re-entrant registration that makes `set_global_colors_config` raise, and
decidable tests for the static domain of `ColorsConfSafe` (used by the non-vacuity examples); how the formatter
of one id can differ between two states of a configuration (`getColor_settled`, `getColor_late_iff`).
-/
namespace ColorsConf
open Ak

/-! ### registrations only add sources -/

def SrcSub (g g' : GWorld) : Prop := ∀ x ∈ g.w.conf.sources, x ∈ g'.w.conf.sources

theorem addNewItems_sources {c c' : Conf} {items : List (Id × Str)} (h : addNewItems c items = .ok c') :
    c'.sources = c.sources := by
  unfold addNewItems at h
  split at h
  · cases h; rfl
  · cases h1 : insertItems c.noColor c.map items with
    | error e => simp [h1] at h
    | ok m1 =>
      simp only [h1] at h
      cases h2 : resolveAll c.noColor m1 with
      | error e => simp [h2] at h
      | ok m2 => simp [h2] at h; subst h; rfl

theorem addWith_srcSub {sync : GWorld → Except Err GWorld} (hsync : ∀ g g', sync g = .ok g' → SrcSub g g')
    {g g' : GWorld} {items : List (Id × Str)} (h : addWith sync g items = .ok g') : SrcSub g g' := by
  unfold addWith at h
  cases h1 : addNewItems g.w.conf items with
  | error e => simp [h1] at h
  | ok c' =>
    simp only [h1] at h
    have hs := addNewItems_sources h1
    split at h
    · intro x hx
      exact hsync _ g' h x (by simpa [hs] using hx)
    · cases h
      intro x hx
      simpa [hs] using hx

theorem regCompWith_srcSub {sync : GWorld → Except Err GWorld} (hsync : ∀ g g', sync g = .ok g' → SrcSub g g')
    {g g' : GWorld} {cfg : Cfg} {src : Src} (h : regCompWith sync g cfg src = .ok g') :
    SrcSub g g' ∧ src ∈ g'.w.conf.sources := by
  unfold regCompWith at h
  split at h
  · cases h
  · have := addWith_srcSub hsync h
    exact ⟨fun x hx => this x (List.mem_cons_of_mem _ hx), this src List.mem_cons_self⟩

theorem regParents_srcSub {reg : GWorld → Nat → Except Err GWorld} (hreg : ∀ g k g', reg g k = .ok g' → SrcSub g g') :
    ∀ (ps : List Nat) (g g' : GWorld), regParents reg g ps = .ok g' → SrcSub g g' := by
  intro ps
  induction ps with
  | nil => intro g g' h; simp [regParents] at h; subst h; exact fun _ hx => hx
  | cons p ps ih =>
    intro g g' h
    unfold regParents at h
    cases h1 : reg g p with
    | error e => simp [h1] at h
    | ok g1 =>
      simp [h1] at h
      exact fun x hx => ih g1 g' h x (hreg g p g1 h1 x hx)

theorem syncList_srcSub {classes : List ClassDef} {reg : GWorld → Nat → Except Err GWorld}
    (hreg : ∀ g k g', reg g k = .ok g' → SrcSub g g') :
    ∀ (ks : List Nat) (g g' : GWorld), syncList classes reg g ks = .ok g' → SrcSub g g' := by
  intro ks
  induction ks with
  | nil => intro g g' h; simp [syncList] at h; subst h; exact fun _ hx => hx
  | cons k ks ih =>
    intro g g' h
    unfold syncList at h
    cases h1 : reg g k with
    | error e => simp [h1] at h
    | ok g1 =>
      simp only [h1] at h
      cases hcd : classes[k]? with
      | none => simp [hcd] at h
      | some cd =>
        simp only [hcd] at h
        exact fun x hx => ih _ g' h x (hreg g k g1 h1 x hx)

theorem registerClassG_srcSub {classes : List ClassDef} : ∀ (fuel : Nat) (g : GWorld) (k : Nat) (g' : GWorld),
    registerClassG classes fuel g k = .ok g' → SrcSub g g' := by
  intro fuel
  induction fuel with
  | zero => intro g k g' h; simp [registerClassG] at h
  | succ f ih =>
    intro g k g' h
    unfold registerClassG at h
    split at h
    · cases h; exact fun _ hx => hx
    · cases hcd : classes[k]? with
      | none => simp [hcd] at h
      | some cd =>
        simp only [hcd] at h
        cases h1 : regParents (registerClassG classes f) g cd.parents with
        | error e => simp [h1] at h
        | ok g1 =>
          simp only [h1] at h
          have s1 := regParents_srcSub (fun g k g' => ih g k g') cd.parents g g1 h1
          cases hdf : cd.defaults with
          | none => simp [hdf] at h; subst h; exact s1
          | some cfg =>
            simp only [hdf] at h
            have s2 := (regCompWith_srcSub
              (fun g g' hs => syncList_srcSub (fun g k g' => ih g k g') _ g g' hs) h).1
            exact fun x hx => s2 x (s1 x hx)

/-- a class with defaults is registered once its registration returned -/
theorem registerClassG_self {classes : List ClassDef} {fuel : Nat} {g g' : GWorld} {k : Nat} {cd : ClassDef}
    {cfg : Cfg} (hcd : classes[k]? = some cd) (hdf : cd.defaults = some cfg)
    (h : registerClassG classes fuel g k = .ok g') : Src.cls k ∈ g'.w.conf.sources := by
  cases fuel with
  | zero => simp [registerClassG] at h
  | succ f =>
    unfold registerClassG at h
    split at h
    · rename_i hin; cases h; exact hin
    · simp only [hcd] at h
      cases h1 : regParents (registerClassG classes f) g cd.parents with
      | error e => simp [h1] at h
      | ok g1 =>
        simp only [h1, hdf] at h
        exact (regCompWith_srcSub
          (fun g g' hs => syncList_srcSub (fun g k g' => registerClassG_srcSub f g k g') _ g g' hs) h).2

/-- a registration that offers an id the configuration does not know changes the map -/
theorem addNewItems_changes {c c' : Conf} {items : List (Id × Str)} (hg : Good c.noColor c.map)
    (h : addNewItems c items = .ok c') {id : Id} {s : Str} (hnew : strOf c.map id = none)
    (hit : dictGet items id = some s) : c'.map ≠ c.map := by
  obtain ⟨_, _, _, hstr, _⟩ := addNewItems_spec hg h
  intro heq
  have : strOf c'.map id = some s := by rw [hstr]; simp [firstStr, hnew, hit]
  rw [heq, hnew] at this
  cases this

/-- **the re-entrant registration.** The configuration becomes the global one while the first synced palette
is of a class `K` with defaults whose only parent `P` (no parents of its own) has defaults that offer an id
the configuration does not know, neither class registered yet: `set_global_colors_config` does not return
normally (registering `P` modifies the configuration, the nested re-sync registers `K`, and `K`'s own
registration then fails its assertion — or an inner registration already raised). -/
theorem setGlobal_reentrant {classes : List ClassDef} {g : GWorld} {K P : Nat} {cdK cdP : ClassDef}
    {cfgK cfgP : Cfg} {rest : List Nat} {id : Id} {s : Str}
    (hg : Good g.w.conf.noColor g.w.conf.map)
    (hK : classes[K]? = some cdK) (hP : classes[P]? = some cdP)
    (hKp : cdK.parents = [P]) (hKd : cdK.defaults = some cfgK)
    (hPp : cdP.parents = []) (hPd : cdP.defaults = some cfgP)
    (hkeys : g.synced.map (·.1) = K :: rest)
    (hKs : Src.cls K ∉ g.w.conf.sources) (hPs : Src.cls P ∉ g.w.conf.sources)
    (hnew : strOf g.w.conf.map id = none) (hit : dictGet (flatten cfgP) id = some s) :
    ∀ g', syncTop classes { g with isGlobal := true } ≠ .ok g' := by
  intro g' h
  unfold syncTop at h
  simp only [hkeys] at h
  obtain ⟨X, hX⟩ : ∃ X, gFuel classes = X + 2 := ⟨gFuel classes - 2, by
    unfold gFuel
    have : 1 ≤ (classes.length + 1) * (classes.length + 1) := Nat.mul_pos (by omega) (by omega)
    omega⟩
  rw [hX] at h
  unfold syncList at h
  cases h1 : registerClassG classes (X + 2) { g with isGlobal := true } K with
  | error e => simp [h1] at h
  | ok gK =>
    clear h
    unfold registerClassG at h1
    simp only [hKs, if_false, hK, hKp] at h1
    unfold regParents at h1
    cases h2 : registerClassG classes (X + 1) { g with isGlobal := true } P with
    | error e => simp [h2] at h1
    | ok g1 =>
      simp only [h2, regParents, hKd] at h1
      -- `K` is registered in `g1`
      have hin : Src.cls K ∈ g1.w.conf.sources := by
        unfold registerClassG at h2
        simp only [hPs, if_false, hP, hPp, regParents, hPd] at h2
        unfold regCompWith at h2
        simp only [hPs, if_false] at h2
        unfold addWith at h2
        cases h3 : addNewItems { g.w.conf with sources := Src.cls P :: g.w.conf.sources } (flatten cfgP) with
        | error e => simp [h3] at h2
        | ok c' =>
          simp only [h3] at h2
          have hch : c'.map ≠ g.w.conf.map :=
            addNewItems_changes (c := { g.w.conf with sources := Src.cls P :: g.w.conf.sources }) hg h3 hnew hit
          simp only [Bool.true_and, hch, ne_eq, not_false_eq_true, decide_true, if_true, hkeys] at h2
          unfold syncList at h2
          cases h4 : registerClassG classes X
              ({ w := { conf := c', ncCache := g.w.ncCache }, isGlobal := true, synced := g.synced } : GWorld) K with
          | error e => simp [h4] at h2
          | ok g2 =>
            simp only [h4, hK] at h2
            have hin2 : Src.cls K ∈ g2.w.conf.sources := registerClassG_self hK hKd h4
            have := syncList_srcSub (fun g k g' => registerClassG_srcSub X g k g') rest _ g1 h2
            exact this _ hin2
      unfold regCompWith at h1
      simp [hin] at h1

/-! ### decidable tests for the static domain -/

def classesWFb (classes : List ClassDef) : Bool :=
  (List.range classes.length).all fun k =>
    match classes[k]? with
    | some cd => cd.parents.all fun p => decide (p < k)
    | none => true

theorem classesWF_of {classes : List ClassDef} (h : classesWFb classes = true) : ClassesWF classes := by
  intro k cd hcd p hp
  have hk : k < classes.length := by
    cases Nat.lt_or_ge k classes.length with
    | inl h => exact h
    | inr h => simp [List.getElem?_eq_none h] at hcd
  have := List.all_eq_true.mp h k (List.mem_range.mpr hk)
  simp only [hcd] at this
  simpa using List.all_eq_true.mp this p hp

/-- `k` and its ancestors, following `PARENT_PALETTES` at most `fuel` levels deep -/
def ancList (classes : List ClassDef) : Nat → Nat → List Nat
  | 0, k => [k]
  | f + 1, k =>
    k :: (match classes[k]? with
      | some cd => cd.parents.flatMap (ancList classes f)
      | none => [])

theorem anc_mem_ancList {classes : List ClassDef} (hwf : ClassesWF classes) {k a : Nat} (h : Anc classes k a) :
    ∀ f, k ≤ f → a ∈ ancList classes f k := by
  induction h with
  | refl k => intro f _; cases f <;> simp [ancList]
  | @step k p a cd hcd hp _ ih =>
    intro f hf
    have hpk := hwf k cd hcd p hp
    obtain ⟨f', rfl⟩ : ∃ f', f = f' + 1 := ⟨f - 1, by omega⟩
    simp only [ancList, hcd, List.mem_cons, List.mem_flatMap]
    exact .inr ⟨p, hp, ih f' (by omega)⟩

def syncSafeb (classes : List ClassDef) (safe : List Nat) : Bool :=
  safe.all fun s => decide (s < classes.length) &&
    (ancList classes classes.length s).all fun C =>
      !hasDefaults classes C ||
        (match classes[C]? with
          | some cd => cd.parents.all fun p => (ancList classes classes.length p).all fun A => !hasDefaults classes A
          | none => true)

theorem syncSafe_of {classes : List ClassDef} {safe : List Nat} (hwf : ClassesWF classes)
    (h : syncSafeb classes safe = true) : SyncSafe classes safe := by
  intro s hs C hsC hdC cd p A hcd hp hpA
  have h1 := List.all_eq_true.mp h s hs
  simp only [Bool.and_eq_true, decide_eq_true_eq] at h1
  obtain ⟨hsl, h2⟩ := h1
  have hC := List.all_eq_true.mp h2 C (anc_mem_ancList hwf hsC _ (Nat.le_of_lt hsl))
  simp only [hdC, Bool.not_true, Bool.false_or, hcd] at hC
  have hp2 := List.all_eq_true.mp hC p hp
  have hpl : p ≤ classes.length := by
    have := hwf C cd hcd p hp
    have := hsC.le hwf
    omega
  have hA := List.all_eq_true.mp hp2 A (anc_mem_ancList hwf hpA _ hpl)
  simpa using hA

def unionAcyclicb (offers : List (Id × Str)) (rank : Id → Nat) : Bool :=
  offers.all fun kv =>
    match parsed kv.2 with
    | none => true
    | some d =>
      match d.parent with
      | none => true
      | some p => !(offers.any fun kv' => decide (kv'.1 = p)) || decide (rank p < rank kv.1)

theorem unionAcyclic_of {offers : List (Id × Str)} {rank : Id → Nat} (h : unionAcyclicb offers rank = true) :
    UnionAcyclic offers := by
  refine ⟨rank, fun kv hkv d p hd hp hex => ?_⟩
  have := List.all_eq_true.mp h kv hkv
  simp only [hd, hp] at this
  obtain ⟨s, hs⟩ := hex
  have hany : (offers.any fun kv' => decide (kv'.1 = p)) = true :=
    List.any_eq_true.mpr ⟨(p, s), hs, by simp⟩
  simpa [hany] using this

def clsOffb (classes : List ClassDef) (offers : List (Id × Str)) : Bool :=
  (List.range classes.length).all fun k =>
    match classes[k]? with
    | some cd =>
      (match cd.defaults with
        | some cfg => (flatten cfg).all fun kv => decide (kv ∈ offers)
        | none => true)
    | none => true

theorem clsOff_of {classes : List ClassDef} {offers : List (Id × Str)} (h : clsOffb classes offers = true) :
    ∀ (k : Nat) (cd : ClassDef) (cfg : Cfg), classes[k]? = some cd → cd.defaults = some cfg →
      ∀ kv ∈ flatten cfg, kv ∈ offers := by
  intro k cd cfg hcd hdf kv hkv
  have hk : k < classes.length := by
    cases Nat.lt_or_ge k classes.length with
    | inl h => exact h
    | inr h => simp [List.getElem?_eq_none h] at hcd
  have := List.all_eq_true.mp h k (List.mem_range.mpr hk)
  simp only [hcd, hdf] at this
  simpa using List.all_eq_true.mp this kv hkv

/-- everything `Ctx` asks for, as one computable test -/
def ctxb (classes : List ClassDef) (offers : List (Id × Str)) (safe : List Nat) (rank : Id → Nat) : Bool :=
  classesWFb classes && (offers.all fun kv => (parsed kv.2).isSome) && unionAcyclicb offers rank &&
    clsOffb classes offers && syncSafeb classes safe

theorem ctx_of_check {classes : List ClassDef} {offers : List (Id × Str)} {safe : List Nat} {rank : Id → Nat}
    (h : ctxb classes offers safe rank = true) : Ctx classes offers safe := by
  simp only [ctxb, Bool.and_eq_true] at h
  obtain ⟨⟨⟨⟨h1, h2⟩, h3⟩, h4⟩, h5⟩ := h
  have hwf := classesWF_of h1
  exact ⟨hwf, fun kv hkv => List.all_eq_true.mp h2 kv hkv, unionAcyclic_of h3, clsOff_of h4, syncSafe_of hwf h5⟩

/-! ### how a formatter can change between two states of one configuration -/

/-- `id` is described and its chain is complete -/
def Settled (dm : Id → Option Desc) (id : Id) : Prop := (dm id).isSome = true ∧ Resolvable dm id

theorem Later.descs {c c' : Conf} (hg : Good c.noColor c.map) (hg' : Good c'.noColor c'.map)
    (hl : Later c c') : ∀ x d, descOf c.map x = some d → descOf c'.map x = some d := by
  intro x d hx
  rw [hg.parsed.descOf] at hx
  rw [hg'.parsed.descOf]
  cases hsx : strOf c.map x with
  | none => simp [hsx] at hx
  | some s =>
    rw [hl.strs x s hsx]
    rw [hsx] at hx
    exact hx

theorem getColor_of_resolves {c : Conf} (hg : Good c.noColor c.map) {x : Id} {r : Resolved} {f : Str}
    (hreg : (descOf c.map x).isSome = true) (hr : Resolves (descOf c.map) x r)
    (hf : mkFmt c.noColor r = .ok f) : getColor c x = f := by
  have sp := getColor_spec hg x
  unfold SpecColor at sp
  simp only [hreg, if_true] at sp
  rcases sp with ⟨r', hr', hf'⟩ | ⟨hn, _⟩
  · rw [hr'.det hr, hf] at hf'
    exact (Except.ok.inj hf').symm
  · exact absurd ⟨r, hr⟩ hn

theorem getColor_of_unresolvable {c : Conf} (hg : Good c.noColor c.map) {x : Id}
    (hreg : (descOf c.map x).isSome = true) (hn : ¬ Resolvable (descOf c.map) x) : getColor c x = [] := by
  have sp := getColor_spec hg x
  unfold SpecColor at sp
  simp only [hreg, if_true] at sp
  rcases sp with ⟨r', hr', _⟩ | ⟨_, hf⟩
  · exact absurd ⟨r', hr'⟩ hn
  · exact hf

theorem getColor_fmt_ok {c : Conf} (hg : Good c.noColor c.map) {x : Id} {r : Resolved}
    (hreg : (descOf c.map x).isSome = true) (hr : Resolves (descOf c.map) x r) :
    mkFmt c.noColor r = .ok (getColor c x) := by
  have sp := getColor_spec hg x
  unfold SpecColor at sp
  simp only [hreg, if_true] at sp
  rcases sp with ⟨r', hr', hf'⟩ | ⟨hn, _⟩
  · rw [hr'.det hr] at hf'; exact hf'
  · exact absurd ⟨r, hr⟩ hn

/-- once an id is described and its chain is complete, its formatter never changes -/
theorem getColor_settled {c c' : Conf} (hg : Good c.noColor c.map) (hg' : Good c'.noColor c'.map)
    (hl : Later c c') {x : Id} (hs : Settled (descOf c.map) x) : getColor c' x = getColor c x := by
  obtain ⟨hreg, r, hr⟩ := hs
  have hsub := hl.descs hg hg'
  have hreg' : (descOf c'.map x).isSome = true := by
    cases hd : descOf c.map x with
    | none => simp [hd] at hreg
    | some d => simp [hsub x d hd]
  have h1 := getColor_fmt_ok hg hreg hr
  have h2 := getColor_fmt_ok hg' hreg' (hr.mono hsub)
  rw [hl.nc, h1] at h2
  exact (Except.ok.inj h2).symm

/-- an id that is still not described in the later state stands for the default syntax in both states -/
theorem getColor_unknown_settled {c c' : Conf} (hg : Good c.noColor c.map) (hg' : Good c'.noColor c'.map)
    (hl : Later c c') {x : Id} (hun : descOf c'.map x = none)
    (hs : Settled (descOf c.map) Gen.C14.dfltId) : getColor c' x = getColor c x := by
  have hsub := hl.descs hg hg'
  have hun0 : descOf c.map x = none := by
    cases hd : descOf c.map x with
    | none => rfl
    | some d => rw [hsub x d hd] at hun; cases hun
  have e1 : getColor c x = getColor c Gen.C14.dfltId := by
    have a := getColor_spec hg x
    have b := getColor_spec hg Gen.C14.dfltId
    unfold SpecColor at a b
    simp only [hun0, hs.1, Option.isSome_none, Bool.false_eq_true, if_false, if_true] at a b
    exact SpecColor.det (id := Gen.C14.dfltId) (by unfold SpecColor; simpa [hs.1] using a)
      (by unfold SpecColor; simpa [hs.1] using b)
  have hs' : (descOf c'.map Gen.C14.dfltId).isSome = true := by
    cases hd : descOf c.map Gen.C14.dfltId with
    | none => have := hs.1; simp [hd] at this
    | some d => simp [hsub _ d hd]
  have e2 : getColor c' x = getColor c' Gen.C14.dfltId := by
    have a := getColor_spec hg' x
    have b := getColor_spec hg' Gen.C14.dfltId
    unfold SpecColor at a b
    simp only [hun, hs', Option.isSome_none, Bool.false_eq_true, if_false, if_true] at a b
    exact SpecColor.det (id := Gen.C14.dfltId) (by unfold SpecColor; simpa [hs'] using a)
      (by unfold SpecColor; simpa [hs'] using b)
  rw [e1, e2]
  exact getColor_settled hg hg' hl hs

/-- **late resolution, exactly**: the formatter of a described id whose chain was incomplete changes
between the two states iff the later state completes the chain to attributes with a visible effect -/
theorem getColor_late_iff {c c' : Conf} (hg : Good c.noColor c.map) (hg' : Good c'.noColor c'.map)
    (hl : Later c c') {x : Id} (hreg : (descOf c.map x).isSome = true)
    (hn : ¬ Resolvable (descOf c.map) x) :
    getColor c' x ≠ getColor c x ↔
      ∃ r f, Resolves (descOf c'.map) x r ∧ mkFmt c.noColor r = .ok f ∧ f ≠ [] := by
  have hsub := hl.descs hg hg'
  have hreg' : (descOf c'.map x).isSome = true := by
    cases hd : descOf c.map x with
    | none => simp [hd] at hreg
    | some d => simp [hsub x d hd]
  rw [getColor_of_unresolvable hg hreg hn]
  constructor
  · intro hne
    by_cases hr' : Resolvable (descOf c'.map) x
    · obtain ⟨r, hr⟩ := hr'
      have := getColor_fmt_ok hg' hreg' hr
      rw [hl.nc] at this
      exact ⟨r, _, hr, this, hne⟩
    · exact absurd (getColor_of_unresolvable hg' hreg' hr') hne
  · rintro ⟨r, f, hr, hf, hne⟩
    rw [getColor_of_resolves hg' hreg' hr (by rw [hl.nc]; exact hf)]
    exact hne

/-! ### a registered class has its defaults described (each class is a component of its own) -/

/-- every palette class that counts as registered has all ids of its `SYNTAX_DEFAULTS` described in the
configuration, except possibly ids that `items` is about to offer -/
def SrcInvOr (classes : List ClassDef) (items : List (Id × Str)) (c : Conf) : Prop :=
  ∀ (k : Nat) (cd : ClassDef) (cfg : Cfg), Src.cls k ∈ c.sources → classes[k]? = some cd → cd.defaults = some cfg →
    ∀ kv ∈ flatten cfg, (strOf c.map kv.1).isSome = true ∨ kv ∈ items

def SrcInv (classes : List ClassDef) (c : Conf) : Prop := SrcInvOr classes [] c

theorem SrcInv.described {classes : List ClassDef} {c : Conf} (h : SrcInv classes c) {k : Nat} {cd : ClassDef}
    {cfg : Cfg} (hk : Src.cls k ∈ c.sources) (hcd : classes[k]? = some cd) (hdf : cd.defaults = some cfg) :
    ∀ kv ∈ flatten cfg, (strOf c.map kv.1).isSome = true := by
  intro kv hkv
  rcases h k cd cfg hk hcd hdf kv hkv with a | a
  · exact a
  · cases a

theorem SrcInv.later {classes : List ClassDef} {c c' : Conf} (h : SrcInv classes c) (hl : Later c c')
    (hs : c'.sources = c.sources) : SrcInv classes c' := by
  intro k cd cfg hk hcd hdf kv hkv
  rw [hs] at hk
  have := h.described hk hcd hdf kv hkv
  cases hx : strOf c.map kv.1 with
  | none => simp [hx] at this
  | some x => exact .inl (by simp [hl.strs _ x hx])

theorem dictGet_isSome_of_mem {β : Type} {l : List (Str × β)} {kv : Str × β} (h : kv ∈ l) :
    (dictGet l kv.1).isSome = true := by
  induction l with
  | nil => cases h
  | cons x l ih =>
    obtain ⟨k0, v0⟩ := x
    by_cases hk : k0 = kv.1
    · simp [dictGet, hk]
    · simp only [dictGet, hk, if_false]
      rcases List.mem_cons.mp h with rfl | h'
      · exact absurd rfl hk
      · exact ih h'

/-- what the synced-palette loop guarantees, in the form `addWith_step` wants it -/
def SyncStep (classes : List ClassDef) (sync : GWorld → Except Err GWorld) : Prop :=
  ∀ g g', WGood classes g.w → sync g = .ok g' →
    WGood classes g'.w ∧ Later g.w.conf g'.w.conf ∧ g'.isGlobal = g.isGlobal ∧
      g'.synced.map (·.1) = g.synced.map (·.1) ∧ (g.isGlobal = true → Fresh classes g')

theorem addWith_srcInv {classes : List ClassDef} {sync : GWorld → Except Err GWorld}
    (hsync : ∀ g g', WGood classes g.w → SrcInv classes g.w.conf → sync g = .ok g' → SrcInv classes g'.w.conf)
    {g g' : GWorld} {items : List (Id × Str)} (hg : WGood classes g.w)
    (hi : SrcInvOr classes items g.w.conf) (h : addWith sync g items = .ok g') :
    SrcInv classes g'.w.conf := by
  unfold addWith at h
  cases h1 : addNewItems g.w.conf items with
  | error e => simp [h1] at h
  | ok c' =>
    simp only [h1] at h
    obtain ⟨hg1, hl1, hsrc, hstr⟩ := addNewItems_cgood hg.conf h1
    have hi1 : SrcInv classes c' := by
      intro k cd cfg hk hcd hdf kv hkv
      rw [hsrc] at hk
      refine .inl ?_
      rw [hstr]
      unfold firstStr
      rcases hi k cd cfg hk hcd hdf kv hkv with a | a
      · cases hx : strOf g.w.conf.map kv.1 with
        | none => simp [hx] at a
        | some x => simp
      · cases hx : strOf g.w.conf.map kv.1 with
        | none => simpa using dictGet_isSome_of_mem a
        | some x => simp
    split at h
    · exact hsync ({ g with w := { g.w with conf := c' } } : GWorld) g' ⟨hg1, hg.nc⟩ hi1 h
    · cases h; exact hi1

theorem regCompWith_srcInv {classes : List ClassDef} {sync : GWorld → Except Err GWorld}
    (hsync : ∀ g g', WGood classes g.w → SrcInv classes g.w.conf → sync g = .ok g' → SrcInv classes g'.w.conf)
    {g g' : GWorld} {cfg : Cfg} {src : Src} (hg : WGood classes g.w) (hi : SrcInv classes g.w.conf)
    (hsrc : ∀ k, src = Src.cls k → ∃ cd, classes[k]? = some cd ∧ cd.defaults = some cfg)
    (h : regCompWith sync g cfg src = .ok g') : SrcInv classes g'.w.conf := by
  unfold regCompWith at h
  split at h
  · cases h
  · refine addWith_srcInv hsync (g := { g with w := { g.w with conf := { g.w.conf with sources := src :: g.w.conf.sources } } })
      ⟨⟨hg.conf.good, hg.conf.cache⟩, hg.nc⟩ ?_ h
    intro k cd cfg' hk hcd hdf kv hkv
    rcases List.mem_cons.mp hk with hk | hk
    · obtain ⟨cd2, hcd2, hdf2⟩ := hsrc k hk.symm
      rw [hcd] at hcd2; cases hcd2
      rw [hdf] at hdf2; cases hdf2
      exact .inr hkv
    · exact .inl (hi.described hk hcd hdf kv hkv)

theorem regParents_srcInv {classes : List ClassDef} {reg : GWorld → Nat → Except Err GWorld}
    (hstep : ∀ g k g', WGood classes g.w → reg g k = .ok g' → Step classes g g')
    (hreg : ∀ g k g', WGood classes g.w → SrcInv classes g.w.conf → reg g k = .ok g' → SrcInv classes g'.w.conf) :
    ∀ (ps : List Nat) (g g' : GWorld), WGood classes g.w → SrcInv classes g.w.conf →
      regParents reg g ps = .ok g' → SrcInv classes g'.w.conf := by
  intro ps
  induction ps with
  | nil => intro g g' _ hi h; simp [regParents] at h; subst h; exact hi
  | cons p ps ih =>
    intro g g' hg hi h
    unfold regParents at h
    cases h1 : reg g p with
    | error e => simp [h1] at h
    | ok g1 =>
      simp [h1] at h
      exact ih g1 g' (hstep g p g1 hg h1).good (hreg g p g1 hg hi h1) h

theorem syncList_srcInv {classes : List ClassDef} {reg : GWorld → Nat → Except Err GWorld}
    (hstep : ∀ g k g', WGood classes g.w → reg g k = .ok g' → Step classes g g')
    (hreg : ∀ g k g', WGood classes g.w → SrcInv classes g.w.conf → reg g k = .ok g' → SrcInv classes g'.w.conf) :
    ∀ (ks : List Nat) (g g' : GWorld), WGood classes g.w → SrcInv classes g.w.conf →
      syncList classes reg g ks = .ok g' → SrcInv classes g'.w.conf := by
  intro ks
  induction ks with
  | nil => intro g g' _ hi h; simp [syncList] at h; subst h; exact hi
  | cons k ks ih =>
    intro g g' hg hi h
    unfold syncList at h
    cases h1 : reg g k with
    | error e => simp [h1] at h
    | ok g1 =>
      simp only [h1] at h
      cases hcd : classes[k]? with
      | none => simp [hcd] at h
      | some cd =>
        simp only [hcd] at h
        exact ih ({ g1 with synced := cacheSet g1.synced k (snapOf g1.w.conf cd.accessors) } : GWorld) g'
          (hstep g k g1 hg h1).good (hreg g k g1 hg hi h1) h

theorem registerClassG_srcInv {classes : List ClassDef} : ∀ (fuel : Nat) (g : GWorld) (k : Nat) (g' : GWorld),
    WGood classes g.w → SrcInv classes g.w.conf → registerClassG classes fuel g k = .ok g' →
    SrcInv classes g'.w.conf := by
  intro fuel
  induction fuel with
  | zero => intro g k g' _ _ h; simp [registerClassG] at h
  | succ f ih =>
    intro g k g' hg hi h
    unfold registerClassG at h
    split at h
    · cases h; exact hi
    · cases hcd : classes[k]? with
      | none => simp [hcd] at h
      | some cd =>
        simp only [hcd] at h
        cases h1 : regParents (registerClassG classes f) g cd.parents with
        | error e => simp [h1] at h
        | ok g1 =>
          simp only [h1] at h
          have hstep : ∀ g k g', WGood classes g.w → registerClassG classes f g k = .ok g' → Step classes g g' :=
            fun g k g' => registerClassG_step f g k g'
          have hi1 := regParents_srcInv hstep (fun g k g' => ih g k g') cd.parents g g1 hg hi h1
          have hg1 := (regParents_step hstep cd.parents g g1 hg h1).good
          cases hdf : cd.defaults with
          | none => simp [hdf] at h; subst h; exact hi1
          | some cfg =>
            simp only [hdf] at h
            refine regCompWith_srcInv ?_ hg1 hi1 ?_ h
            · intro g2 g2' hg2 hi2 hs
              exact syncList_srcInv hstep (fun g k g' => ih g k g') _ g2 g2' hg2 hi2 hs
            · intro k' hk'
              cases hk'
              exact ⟨cd, hcd, hdf⟩

theorem syncTop_srcInv {classes : List ClassDef} {g g' : GWorld} (hg : WGood classes g.w)
    (hi : SrcInv classes g.w.conf) (h : syncTop classes g = .ok g') : SrcInv classes g'.w.conf :=
  syncList_srcInv (fun g k g' => registerClassG_step _ g k g') (fun g k g' => registerClassG_srcInv _ g k g')
    _ g g' hg hi h

theorem stepG_srcInv {classes : List ClassDef} {g g' : GWorld} {op : GOp} {o : Option Snap}
    (hi : GInv classes g) (hs : SrcInv classes g.w.conf) (h : stepG classes g op = .ok (g', o)) :
    SrcInv classes g'.w.conf := by
  have hsync : ∀ g g', WGood classes g.w → SrcInv classes g.w.conf → syncTop classes g = .ok g' →
      SrcInv classes g'.w.conf := fun g g' => syncTop_srcInv
  cases op with
  | op o' =>
    cases o' with
    | add items =>
      simp only [stepG] at h
      cases h1 : addWith (syncTop classes) g items with
      | error err => simp [h1] at h
      | ok g1 =>
        simp [h1] at h
        obtain ⟨hw, _⟩ := h; subst hw
        refine addWith_srcInv hsync hi.good ?_ h1
        intro k cd cfg hk hcd hdf kv hkv
        exact .inl (hs.described hk hcd hdf kv hkv)
    | reg name cfg =>
      simp only [stepG] at h
      cases h1 : regCompWith (syncTop classes) g cfg (.name name) with
      | error err => simp [h1] at h
      | ok g1 =>
        simp [h1] at h
        obtain ⟨hw, _⟩ := h; subst hw
        exact regCompWith_srcInv hsync hi.good hs (fun k hk => by cases hk) h1
    | pal k nc =>
      simp only [stepG, getPaletteG] at h
      cases hcd : classes[k]? with
      | none => simp [hcd] at h
      | some cd =>
        simp only [hcd] at h
        cases nc with
        | true =>
          simp only [if_true] at h
          cases h1 : registerClassG classes (gFuel classes) g k with
          | error err => simp [h1] at h
          | ok g1 =>
            simp only [h1] at h
            have := registerClassG_srcInv _ g k g1 hi.good hs h1
            cases hc : cacheGet g1.w.ncCache k with
            | some s0 => simp [hc] at h; obtain ⟨hw, _⟩ := h; subst hw; exact this
            | none => simp [hc] at h; obtain ⟨hw, _⟩ := h; subst hw; exact this
        | false =>
          simp only [Bool.false_eq_true, if_false] at h
          cases hc : cacheGet g.w.conf.cache k with
          | some s0 => simp [hc] at h; obtain ⟨hw, _⟩ := h; subst hw; exact hs
          | none =>
            simp only [hc] at h
            cases h1 : registerClassG classes (gFuel classes) g k with
            | error err => simp [h1] at h
            | ok g1 =>
              simp [h1] at h
              obtain ⟨hw, _⟩ := h; subst hw
              exact registerClassG_srcInv _ g k g1 hi.good hs h1
    | get id =>
      simp [stepG] at h
      obtain ⟨hw, _⟩ := h; subst hw; exact hs
  | setGlobal =>
    simp only [stepG] at h
    cases h1 : syncTop classes { g with isGlobal := true } with
    | error err => simp [h1] at h
    | ok g1 =>
      simp [h1] at h
      obtain ⟨hw, _⟩ := h; subst hw
      exact syncTop_srcInv (g := { g with isGlobal := true }) hi.good hs h1
  | syn k =>
    simp only [stepG] at h
    cases hc : cacheGet g.synced k with
    | some s0 => simp [hc] at h; obtain ⟨hw, _⟩ := h; subst hw; exact hs
    | none =>
      simp only [hc] at h
      cases hcd : classes[k]? with
      | none => simp [hcd] at h
      | some cd =>
        simp only [hcd] at h
        cases hgl : g.isGlobal with
        | false => simp [hgl] at h; obtain ⟨hw, _⟩ := h; subst hw; exact hs
        | true =>
          simp only [hgl, Bool.not_true, Bool.false_eq_true, if_false] at h
          cases h1 : registerClassG classes (gFuel classes) g k with
          | error err => simp [h1] at h
          | ok g1 =>
            simp [h1] at h
            obtain ⟨hw, _⟩ := h; subst hw
            exact registerClassG_srcInv _ g k g1 hi.good hs h1
  | sget k =>
    simp only [stepG] at h
    cases hc : cacheGet g.synced k with
    | some s0 => simp [hc] at h; obtain ⟨hw, _⟩ := h; subst hw; exact hs
    | none => simp [hc] at h

theorem runG_srcInv {classes : List ClassDef} : ∀ (ops : List GOp) (g g' : GWorld),
    GInv classes g → SrcInv classes g.w.conf → runG classes g ops = .ok g' → SrcInv classes g'.w.conf := by
  intro ops
  induction ops with
  | nil => intro g g' _ hs h; simp [runG] at h; subst h; exact hs
  | cons op ops ih =>
    intro g g' hi hs h
    unfold runG at h
    cases h1 : stepG classes g op with
    | error err => simp [h1] at h
    | ok go =>
      obtain ⟨g1, o⟩ := go
      simp [h1] at h
      exact ih g1 g' (stepG_inv hi h1).1 (stepG_srcInv hi hs h1) h

end ColorsConf
