import AkVerif.Lemmas.PPrint
/-!
Helper lemmas for C11, part 5: the parser reads the canonical token sequence of a value back;
`gen` ends with a chunk; `norm` keeps the value (`Eqv`) and sorts the keys.
-/
namespace PPrint

/-! ### the parser on `toks v` -/

theorem dropTok_rbrack_toks (v : J) (rest : List Tok) : dropTok .rbrack (toks v ++ rest) = none := by
  cases v <;> simp [toks, dropTok]

theorem toksList_false_cons (y : J) (ys : List J) :
    toksList false (y :: ys) = .comma :: toksList true (y :: ys) := by
  simp [toksList]

theorem toksEntries_false_cons (kv : Key × J) (r : List (Key × J)) :
    toksEntries false (kv :: r) = .comma :: toksEntries true (kv :: r) := by
  obtain ⟨k, v⟩ := kv; simp [toksEntries]

theorem tokKey_keyTok {sk : Bool} {k : Key} (h : keyOk sk k = true) : tokKey sk (keyTok k) = some k := by
  cases k <;> simp_all [keyOk, keyTok, tokKey]

theorem parseItems_toks (sk : Bool) (x : J) (xs : List J)
    (ih : ∀ y, y ∈ x :: xs → ∀ f rest, (toks y).length < f →
      parseV sk f (toks y ++ rest) = some (y, rest))
    (f : Nat) (rest : List Tok) (hf : (toksList true (x :: xs)).length + 2 ≤ f) :
    parseItems sk f (toksList true (x :: xs) ++ .rbrack :: rest) = some (x :: xs, rest) := by
  induction xs generalizing x f with
  | nil =>
    obtain ⟨f, rfl⟩ : ∃ g, f = g + 1 := ⟨f - 1, by omega⟩
    simp only [toksList, if_true, List.nil_append, List.append_nil] at hf ⊢
    rw [parseItems, ih x (by simp) f _ (by omega)]
  | cons y ys ihl =>
    obtain ⟨f, rfl⟩ : ∃ g, f = g + 1 := ⟨f - 1, by omega⟩
    have e : toksList true (x :: y :: ys) ++ Tok.rbrack :: rest =
        toks x ++ (.comma :: (toksList true (y :: ys) ++ .rbrack :: rest)) := by
      rw [toksList, toksList_false_cons]; simp
    have hl : (toksList true (x :: y :: ys)).length =
        (toks x).length + 1 + (toksList true (y :: ys)).length := by
      rw [toksList, toksList_false_cons]; simp; omega
    rw [e, parseItems, ih x (by simp) f _ (by omega)]
    simp only []
    rw [ihl y (fun z hz => ih z (List.mem_cons_of_mem _ hz)) f (by omega)]

theorem parseEntries_toks (sk : Bool) (kv : Key × J) (r : List (Key × J))
    (hk : ∀ e, e ∈ kv :: r → keyOk sk e.1 = true)
    (ih : ∀ e, e ∈ kv :: r → ∀ f rest, (toks e.2).length < f →
      parseV sk f (toks e.2 ++ rest) = some (e.2, rest))
    (f : Nat) (rest : List Tok) (hf : (toksEntries true (kv :: r)).length + 2 ≤ f) :
    parseEntries sk f (toksEntries true (kv :: r) ++ .rbrace :: rest) = some (kv :: r, rest) := by
  induction r generalizing kv f with
  | nil =>
    obtain ⟨k, v⟩ := kv
    obtain ⟨f, rfl⟩ : ∃ g, f = g + 1 := ⟨f - 1, by omega⟩
    simp only [toksEntries, if_true, List.nil_append, List.append_nil,
      List.length_cons, List.cons_append] at hf ⊢
    rw [parseEntries]
    simp only [if_true, tokKey_keyTok (hk (k, v) (by simp))]
    rw [ih (k, v) (by simp) f _ (by simp only []; omega)]
  | cons e es ihl =>
    obtain ⟨k, v⟩ := kv
    obtain ⟨f, rfl⟩ : ∃ g, f = g + 1 := ⟨f - 1, by omega⟩
    have e1 : toksEntries true ((k, v) :: e :: es) ++ Tok.rbrace :: rest =
        keyTok k :: .colon :: (toks v ++ (.comma :: (toksEntries true (e :: es) ++ .rbrace :: rest))) := by
      rw [toksEntries, toksEntries_false_cons]; simp
    have hl : (toksEntries true ((k, v) :: e :: es)).length =
        (toks v).length + 3 + (toksEntries true (e :: es)).length := by
      rw [toksEntries, toksEntries_false_cons]; simp; omega
    rw [e1, parseEntries]
    simp only [if_true, tokKey_keyTok (hk (k, v) (by simp))]
    rw [ih (k, v) (by simp) f _ (by simp only []; omega)]
    simp only []
    rw [ihl e (fun z hz => hk z (List.mem_cons_of_mem _ hz))
      (fun z hz => ih z (List.mem_cons_of_mem _ hz)) f (by omega)]

theorem parseV_toks (sk : Bool) : ∀ v : J, WF sk v → ∀ f rest, (toks v).length < f →
    parseV sk f (toks v ++ rest) = some (v, rest) := by
  intro v
  induction v using J.ind with
  | hs s => intro _ f rest hf; obtain ⟨f, rfl⟩ : ∃ g, f = g + 1 := ⟨f - 1, by omega⟩; simp [toks, parseV]
  | hi n => intro _ f rest hf; obtain ⟨f, rfl⟩ : ∃ g, f = g + 1 := ⟨f - 1, by omega⟩; simp [toks, parseV]
  | hn t => intro _ f rest hf; obtain ⟨f, rfl⟩ : ∃ g, f = g + 1 := ⟨f - 1, by omega⟩; simp [toks, parseV]
  | hk k => intro _ f rest hf; obtain ⟨f, rfl⟩ : ∃ g, f = g + 1 := ⟨f - 1, by omega⟩; simp [toks, parseV]
  | hl xs ih =>
    intro hw f rest hf
    have hw' := (WFList_iff sk xs).mp (by simpa [WF] using hw)
    obtain ⟨f, rfl⟩ : ∃ g, f = g + 1 := ⟨f - 1, by omega⟩
    cases xs with
    | nil => simp [toks, toksList, parseV, dropTok]
    | cons x xs' =>
      have e : toks (.list (x :: xs')) ++ rest =
          .lbrack :: (toks x ++ (toksList false xs' ++ .rbrack :: rest)) := by
        simp [toks, toksList]
      have e2 : toks x ++ (toksList false xs' ++ Tok.rbrack :: rest) =
          toksList true (x :: xs') ++ .rbrack :: rest := by simp [toksList]
      have hlen : (toks (.list (x :: xs'))).length = (toksList true (x :: xs')).length + 2 := by
        simp [toks]
      rw [e, parseV, dropTok_rbrack_toks, e2,
        parseItems_toks sk x xs' (fun y hy => ih y hy (hw' y hy)) f rest (by omega)]
  | hd kvs ih =>
    intro hw f rest hf
    have hw' := (WFEntries_iff sk kvs).mp (by simpa [WF] using hw)
    obtain ⟨f, rfl⟩ : ∃ g, f = g + 1 := ⟨f - 1, by omega⟩
    cases kvs with
    | nil => simp [toks, toksEntries, parseV, dropTok]
    | cons kv r =>
      have hlen : (toks (.dict (kv :: r))).length = (toksEntries true (kv :: r)).length + 2 := by
        simp [toks]
      have e : toks (.dict (kv :: r)) ++ rest =
          .lbrace :: (toksEntries true (kv :: r) ++ .rbrace :: rest) := by simp [toks]
      have hd : dropTok .rbrace (toksEntries true (kv :: r) ++ .rbrace :: rest) = none := by
        obtain ⟨k, v⟩ := kv; cases k <;> simp [toksEntries, dropTok, keyTok]
      rw [e, parseV, hd, parseEntries_toks sk kv r (fun e he => (hw' e he).1)
        (fun e he => ih e he (hw' e he).2) f rest (by omega)]

/-- the parser reads the canonical token sequence of any value of the domain back -/
theorem parse_toks (sk : Bool) (v : J) (hw : WF sk v) : parse sk (toks v) = some v := by
  unfold parse
  have := parseV_toks sk v hw ((toks v).length + 1) [] (by omega)
  rw [List.append_nil] at this
  rw [this]

/-- sorting the entries keeps a value inside the domain -/
theorem WF_norm (sk : Bool) : ∀ v : J, WF sk v → WF sk (norm v) := by
  intro v
  induction v using J.ind with
  | hs s => intro h; simpa [norm] using h
  | hi n => intro h; simp [norm, WF]
  | hn t => intro h; simpa [norm] using h
  | hk k => intro h; simp [norm, WF]
  | hl xs ih =>
    intro h
    have h' := (WFList_iff sk xs).mp (by simpa [WF] using h)
    simp only [norm, WF, WFList_iff, normList_eq, List.mem_map]
    rintro _ ⟨x, hx, rfl⟩
    exact ih x hx (h' x hx)
  | hd kvs ih =>
    intro h
    have h' := (WFEntries_iff sk kvs).mp (by simpa [WF] using h)
    simp only [norm, WF, WFEntries_iff]
    intro kv hkv
    rw [mem_sortE, normEntries_eq, List.mem_map] at hkv
    obtain ⟨e, he, rfl⟩ := hkv
    exact ⟨(h' e he).1, ih e he (h' e he).2⟩

/-! ### `gen` ends with a chunk (never with a new-line marker) -/

/-- the chunk list ends with a chunk -/
def EndsSome (l : List (Option Chunk)) : Prop := ∃ pre ch, l = pre ++ [some ch]

theorem endsSome_snoc (l : List (Option Chunk)) (ch : Chunk) : EndsSome (l ++ [some ch]) :=
  ⟨l, ch, rfl⟩

theorem endsSome_append (m : List (Option Chunk)) {l : List (Option Chunk)} (h : EndsSome l) :
    EndsSome (m ++ l) := by
  obtain ⟨pre, ch, rfl⟩ := h
  exact ⟨m ++ pre, ch, by simp⟩

theorem endsSome_cons (a : Option Chunk) {l : List (Option Chunk)} (h : EndsSome l) :
    EndsSome (a :: l) := endsSome_append [a] h

theorem endsSome_multiLine (L : Limits) (o cl : Char) (off : Nat)
    (subs : List (List (Option Chunk))) : EndsSome (multiLine L o cl off subs) :=
  endsSome_cons _ (endsSome_append _ (endsSome_snoc [none] _))

theorem gen_last (c : Consts) (L : Limits) (v : J) (off : Nat) : EndsSome (gen c L v off) := by
  cases v with
  | str s => exact endsSome_snoc [] _
  | int n => exact endsSome_snoc [] _
  | num t => exact endsSome_snoc [] _
  | kw k => exact endsSome_snoc [] _
  | list xs =>
    simp only [gen, renderList]
    cases xs with
    | nil => exact endsSome_snoc [] _
    | cons x xs' =>
      simp only []
      cases allSimple? (x :: xs') with
      | none => exact endsSome_multiLine _ _ _ _ _
      | some ss =>
        simp only []
        split
        · exact endsSome_cons _ (endsSome_snoc _ _)
        · exact endsSome_snoc _ _
  | dict kvs =>
    simp only [gen, renderDict]
    cases kvs with
    | nil => exact endsSome_snoc [] _
    | cons kv r =>
      simp only []
      cases allSimpleD? (kv :: r) with
      | none => exact endsSome_multiLine _ _ _ _ _
      | some ss =>
        simp only []
        split
        · exact endsSome_cons _ (endsSome_snoc _ _)
        · exact endsSome_multiLine _ _ _ _ _

theorem joinLines_groupLines_gen (c : Consts) (L : Limits) (v : J) (off : Nat) :
    joinLines (groupLines (gen c L v off)) = text (gen c L v off) := by
  obtain ⟨pre, ch, e⟩ := gen_last c L v off
  rw [e, groupLines, joinLines_groupLinesGo]
  simp [lineText]

/-! ### the domain test -/

theorem wfBList_iff (sk : Bool) (xs : List J) :
    wfBList sk xs = true ↔ ∀ x, x ∈ xs → wfB sk x = true := by
  induction xs with
  | nil => simp [wfBList]
  | cons x xs ih => simp [wfBList, ih]

theorem wfBEntries_iff (sk : Bool) (kvs : List (Key × J)) :
    wfBEntries sk kvs = true ↔ ∀ kv, kv ∈ kvs → keyOk sk kv.1 = true ∧ wfB sk kv.2 = true := by
  induction kvs with
  | nil => simp [wfBEntries]
  | cons kv r ih =>
    obtain ⟨k, v⟩ := kv
    simp only [wfBEntries, Bool.and_eq_true, ih, List.mem_cons, forall_eq_or_imp]

theorem wfB_iff (sk : Bool) (v : J) : wfB sk v = true ↔ WF sk v := by
  induction v using J.ind with
  | hs s => simp [wfB, WF]
  | hi n => simp [wfB, WF]
  | hn t => simp [wfB, WF]
  | hk k => simp [wfB, WF]
  | hl xs ih =>
    simp only [wfB, WF, wfBList_iff, WFList_iff]
    exact ⟨fun h x hx => (ih x hx).mp (h x hx), fun h x hx => (ih x hx).mpr (h x hx)⟩
  | hd kvs ih =>
    simp only [wfB, WF, wfBEntries_iff, WFEntries_iff]
    exact ⟨fun h x hx => ⟨(h x hx).1, (ih x hx).mp (h x hx).2⟩,
      fun h x hx => ⟨(h x hx).1, (ih x hx).mpr (h x hx).2⟩⟩

/-! ### `norm` -/

theorem eqvD_of_forall (kvs : List (Key × J)) (h : ∀ kv, kv ∈ kvs → Eqv kv.2 (norm kv.2)) :
    EqvD kvs (normEntries kvs) := by
  induction kvs with
  | nil => exact .nil
  | cons kv r ih =>
    obtain ⟨k, v⟩ := kv
    exact .cons (h (k, v) (by simp)) (ih fun e he => h e (List.mem_cons_of_mem _ he))

theorem eqvL_of_forall (xs : List J) (h : ∀ x, x ∈ xs → Eqv x (norm x)) : EqvL xs (normList xs) := by
  induction xs with
  | nil => exact .nil
  | cons x r ih => exact .cons (h x (by simp)) (ih fun e he => h e (List.mem_cons_of_mem _ he))

theorem norm_eqv (v : J) : Eqv v (norm v) := by
  induction v using J.ind with
  | hs s => exact .str s
  | hi n => exact .int n
  | hn t => exact .num t
  | hk k => exact .kw k
  | hl xs ih => exact .list (eqvL_of_forall xs ih)
  | hd kvs ih => exact .dict (eqvD_of_forall kvs ih) (sortE_perm _).symm

theorem DistinctKeysL_iff (xs : List J) : DistinctKeysL xs ↔ ∀ x, x ∈ xs → DistinctKeys x := by
  induction xs with
  | nil => simp [DistinctKeysL]
  | cons x xs ih => simp [DistinctKeysL, ih]

theorem DistinctKeysD_iff (kvs : List (Key × J)) :
    DistinctKeysD kvs ↔ ∀ kv, kv ∈ kvs → DistinctKeys kv.2 := by
  induction kvs with
  | nil => simp [DistinctKeysD]
  | cons kv r ih => obtain ⟨k, v⟩ := kv; simp [DistinctKeysD, ih]

theorem distinctBL_iff (xs : List J) : distinctBL xs = true ↔ ∀ x, x ∈ xs → distinctB x = true := by
  induction xs with
  | nil => simp [distinctBL]
  | cons x xs ih => simp [distinctBL, ih]

theorem distinctBD_iff (kvs : List (Key × J)) :
    distinctBD kvs = true ↔ ∀ kv, kv ∈ kvs → distinctB kv.2 = true := by
  induction kvs with
  | nil => simp [distinctBD]
  | cons kv r ih => obtain ⟨k, v⟩ := kv; simp [distinctBD, ih]

theorem distinctB_iff (v : J) : distinctB v = true ↔ DistinctKeys v := by
  induction v using J.ind with
  | hs s => simp [distinctB, DistinctKeys]
  | hi n => simp [distinctB, DistinctKeys]
  | hn t => simp [distinctB, DistinctKeys]
  | hk k => simp [distinctB, DistinctKeys]
  | hl xs ih =>
    simp only [distinctB, DistinctKeys, distinctBL_iff, DistinctKeysL_iff]
    exact ⟨fun h x hx => (ih x hx).mp (h x hx), fun h x hx => (ih x hx).mpr (h x hx)⟩
  | hd kvs ih =>
    simp only [distinctB, DistinctKeys, Bool.and_eq_true, decide_eq_true_eq, distinctBD_iff,
      DistinctKeysD_iff]
    exact ⟨fun h => ⟨h.1, fun x hx => (ih x hx).mp (h.2 x hx)⟩,
      fun h => ⟨h.1, fun x hx => (ih x hx).mpr (h.2 x hx)⟩⟩

theorem KeysSortedL_iff (xs : List J) : KeysSortedL xs ↔ ∀ x, x ∈ xs → KeysSorted x := by
  induction xs with
  | nil => simp [KeysSortedL]
  | cons x xs ih => simp [KeysSortedL, ih]

theorem KeysSortedD_iff (kvs : List (Key × J)) :
    KeysSortedD kvs ↔ ∀ kv, kv ∈ kvs → KeysSorted kv.2 := by
  induction kvs with
  | nil => simp [KeysSortedD]
  | cons kv r ih => obtain ⟨k, v⟩ := kv; simp [KeysSortedD, ih]

theorem norm_keysSorted (v : J) : DistinctKeys v → KeysSorted (norm v) := by
  induction v using J.ind with
  | hs s => intro _; simp [norm, KeysSorted]
  | hi n => intro _; simp [norm, KeysSorted]
  | hn t => intro _; simp [norm, KeysSorted]
  | hk k => intro _; simp [norm, KeysSorted]
  | hl xs ih =>
    intro h
    simp only [DistinctKeys, DistinctKeysL_iff] at h
    simp only [norm, KeysSorted, KeysSortedL_iff, normList_eq, List.mem_map]
    rintro _ ⟨x, hx, rfl⟩
    exact ih x hx (h x hx)
  | hd kvs ih =>
    intro h
    simp only [DistinctKeys, DistinctKeysD_iff] at h
    simp only [norm, KeysSorted, KeysSortedD_iff]
    constructor
    · apply sortE_strict
      rw [normEntries_eq]
      simpa [List.map_map, Function.comp_def] using h.1
    · intro kv hkv
      rw [mem_sortE, normEntries_eq, List.mem_map] at hkv
      obtain ⟨e, he, rfl⟩ := hkv
      exact ih e he (h.2 e he)

end PPrint
