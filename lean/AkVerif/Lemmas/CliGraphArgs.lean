import AkVerif.Lemmas.CliGraph
/-! Helper lemmas for C19, second part: namespaces, one parser scanning a one-option argument list,
the top-level dispatch and the default-command insertion. -/
namespace CliGraph
open Ak

/-! ### namespaces -/

/-- the namespace has the attribute `k` -/
def Has (ns : Ns) (k : Name) : Prop := ∃ v, (k, v) ∈ ns

theorem get_of_has {ns : Ns} {k : Name} (h : Has ns k) : ∃ v, ns.get k = some v := by
  obtain ⟨v, hv⟩ := h
  unfold Ns.get
  cases hf : ns.find? (fun p => p.1 == k) with
  | some p => exact ⟨p.2, rfl⟩
  | none =>
    have := List.find?_eq_none.mp hf (k, v) hv
    simp at this

theorem has_set_self (ns : Ns) (k : Name) (v : Val) : Has (ns.set k v) k := by
  unfold Ns.set
  split
  · rename_i h
    obtain ⟨p, hp, hk⟩ := List.any_eq_true.mp h
    exact ⟨v, List.mem_map.mpr ⟨p, hp, by simp [hk]⟩⟩
  · exact ⟨v, by simp⟩

theorem has_set {ns : Ns} {k : Name} (h : Has ns k) (k' : Name) (v : Val) : Has (ns.set k' v) k := by
  by_cases hk : k = k'
  · exact hk ▸ has_set_self ns k v
  · obtain ⟨v0, hv0⟩ := h
    unfold Ns.set
    split
    · refine ⟨v0, List.mem_map.mpr ⟨(k, v0), hv0, ?_⟩⟩
      simp [hk]
    · exact ⟨v0, List.mem_append_left _ hv0⟩

theorem has_assignPos {ns : Ns} {k : Name} (h : Has ns k) (ds ws : List Name) : Has (assignPos ds ws ns) k := by
  induction ds generalizing ws ns with
  | nil => exact h
  | cons d ds ih => exact ih (has_set h d _) []

theorem has_defaults {ns : Ns} {k : Name} (h : Has ns k) (os : List OptSpec) : Has (defaults os ns) k := by
  induction os generalizing ns with
  | nil => exact h
  | cons o os ih =>
    unfold defaults
    split
    · exact ih h
    · apply ih
      split
      · exact h
      · obtain ⟨v, hv⟩ := h
        exact ⟨v, List.mem_append_left _ hv⟩

theorem defaults_append (a b : List OptSpec) (ns : Ns) : defaults (a ++ b) ns = defaults b (defaults a ns) := by
  induction a generalizing ns with
  | nil => rfl
  | cons o os ih =>
    simp only [List.cons_append, defaults]
    split <;> exact ih _

theorem has_mergeNs_base {base : Ns} {k : Name} (h : Has base k) (sub : Ns) : Has (mergeNs base sub) k := by
  induction sub generalizing base with
  | nil => exact h
  | cons p r ih => exact ih (has_set h p.1 p.2)

theorem has_mergeNs {sub : Ns} {k : Name} (h : Has sub k) (base : Ns) : Has (mergeNs base sub) k := by
  induction sub generalizing base with
  | nil => obtain ⟨_, hv⟩ := h; cases hv
  | cons p r ih =>
    obtain ⟨v, hv⟩ := h
    rcases List.mem_cons.mp hv with hv | hv
    · have : Has (base.set p.1 p.2) k := by
        have : p.1 = k := by rw [← hv]
        exact this ▸ has_set_self base p.1 p.2
      exact has_mergeNs_base this r
    · exact ih ⟨v, hv⟩ _

theorem post_ok {ns : Ns} (h : Has ns noColor) : ∃ ns', post ns = .ok ns' := by
  obtain ⟨v, hv⟩ := get_of_has h
  simp only [post, hv]
  exact ⟨_, rfl⟩

/-! ### one-option argument lists -/

theorem finish_extras (tbl : List OptSpec) (ps : PS) : (finish tbl ps).extras = ps.extras := by
  unfold finish closeRun
  split <;> simp_all

theorem finish_has (tbl : List OptSpec) {ps : PS} {k : Name} (h : Has ps.ns k) : Has (finish tbl ps).ns k := by
  unfold finish closeRun
  split
  · exact has_assignPos h _ _
  · rename_i ws hr
    simp only [hr]
    exact has_assignPos h _ _
  · exact h

def PS.init (tbl : List OptSpec) : PS := { ns := defaults tbl [], seen := [], run := .idle, extras := false }

theorem runParser_eq (q : Parser) (args : List Name) :
    runParser q args = match runP q.opts args (PS.init q.opts) with
      | .error e => .error e
      | .ok ps => if ps.extras then .error (.exit 2) else .ok ps.ns := rfl

theorem mutexOk_init (o : OptSpec) (ps : PS) (hs : ps.seen = []) :
    ∃ ps', mutexOk o ps = some ps' ∧ ps'.ns = ps.ns ∧ ps'.run = ps.run ∧ ps'.extras = ps.extras := by
  unfold mutexOk
  split
  · simp [hs]
  · exact ⟨ps, rfl, rfl, rfl, rfl⟩

/-- a flag the table knows, alone on the command line -/
theorem runParser_flag {q : Parser} {s : Name} {o : OptSpec} (hc : classify q.opts s = .opt o none)
    (hk : o.kind = .flag) :
    ∃ ns, runParser q [s] = .ok ns ∧ ∀ k, Has (defaults q.opts []) k → Has ns k := by
  obtain ⟨ps1, h1, h2, h3, h4⟩ := mutexOk_init o (closeRun q.opts (PS.init q.opts)) (by simp [closeRun, PS.init])
  have hcr : closeRun q.opts (PS.init q.opts) = PS.init q.opts := by simp [closeRun, PS.init]
  rw [hcr] at h1 h2 h3 h4
  refine ⟨(finish q.opts (setv o (.bool true) ps1)).ns, ?_, ?_⟩
  · rw [runParser_eq]
    simp only [runP, hc, hk, hcr, h1]
    have : (finish q.opts (setv o (.bool true) ps1)).extras = false := by
      rw [finish_extras]; simp [setv, h4, PS.init]
    simp [this]
  · intro k hkk
    apply finish_has
    simp only [setv, h2]
    exact has_set hkk _ _

/-- a value option the table knows, followed by a word -/
theorem runParser_value {q : Parser} {s w : Name} {o : OptSpec} (hc : classify q.opts s = .opt o none)
    (hk : o.kind = .value) (hw : classify q.opts w = .word) :
    ∃ ns, runParser q [s, w] = .ok ns ∧ ∀ k, Has (defaults q.opts []) k → Has ns k := by
  obtain ⟨ps1, h1, h2, h3, h4⟩ := mutexOk_init o (closeRun q.opts (PS.init q.opts)) (by simp [closeRun, PS.init])
  have hcr : closeRun q.opts (PS.init q.opts) = PS.init q.opts := by simp [closeRun, PS.init]
  rw [hcr] at h1 h2 h3 h4
  refine ⟨(finish q.opts (setv o (.str w) ps1)).ns, ?_, ?_⟩
  · rw [runParser_eq]
    simp only [runP, hc, hk, hcr, h1, hw]
    have : (finish q.opts (setv o (.str w) ps1)).extras = false := by
      rw [finish_extras]; simp [setv, h4, PS.init]
    simp [this]
  · intro k hkk
    apply finish_has
    simp only [setv, h2]
    exact has_set hkk _ _

/-- an option the table does not know (and that abbreviates nothing) -/
theorem runParser_unknown {q : Parser} {s : Name} (hc : classify q.opts s = .unknown) :
    runParser q [s] = .error (.exit 2) := by
  rw [runParser_eq]
  simp only [runP, hc]
  have : (finish q.opts { closeRun q.opts (PS.init q.opts) with extras := true }).extras = true := by
    rw [finish_extras]
  simp [this]

theorem findOpt_some {tbl : List OptSpec} {s : Name} {o : OptSpec} (h : findOpt tbl s = some o) :
    o ∈ tbl ∧ o.isOpt = true ∧ s ∈ o.strings := by
  unfold findOpt at h
  have := List.find?_some h
  simp only [Bool.and_eq_true, List.contains_eq_mem, decide_eq_true_eq] at this
  exact ⟨List.mem_of_find?_eq_some h, this.1, this.2⟩

theorem mem_optStrings {tbl : List OptSpec} {s : Name} :
    s ∈ optStrings tbl ↔ ∃ o ∈ tbl, o.isOpt = true ∧ s ∈ o.strings := by
  unfold optStrings
  simp only [List.mem_flatMap, List.mem_filter]
  constructor
  · rintro ⟨o, ⟨h1, h2⟩, h3⟩; exact ⟨o, h1, h2, h3⟩
  · rintro ⟨o, h1, h2, h3⟩; exact ⟨o, ⟨h1, h2⟩, h3⟩

theorem findOpt_isSome_iff {tbl : List OptSpec} {s : Name} :
    (∃ o, findOpt tbl s = some o) ↔ s ∈ optStrings tbl := by
  rw [mem_optStrings]
  constructor
  · rintro ⟨o, h⟩
    exact ⟨o, findOpt_some h⟩
  · rintro ⟨o, h1, h2, h3⟩
    unfold findOpt
    cases hf : tbl.find? (fun o => o.isOpt && o.strings.contains s) with
    | some o' => exact ⟨o', rfl⟩
    | none =>
      have := List.find?_eq_none.mp hf o h1
      simp [h2, h3] at this

theorem findOpt_none_iff {tbl : List OptSpec} {s : Name} : findOpt tbl s = none ↔ s ∉ optStrings tbl := by
  rw [← findOpt_isSome_iff]
  cases findOpt tbl s <;> simp

theorem classify_known {tbl : List OptSpec} {s : Name} {o : OptSpec} (hs : s.head? = some '-')
    (h : findOpt tbl s = some o) : classify tbl s = .opt o none := by
  cases s with
  | nil => simp at hs
  | cons c r =>
    simp only [List.head?_cons, Option.some.injEq] at hs
    subst hs
    simp [classify, h]

theorem prefixClash_false {tbl : List OptSpec} {s : Name}
    (h : ∀ x ∈ optStrings tbl, ¬ s <+: x) : prefixClash tbl s = false := by
  unfold prefixClash
  apply Bool.eq_false_iff.mpr
  intro hc
  obtain ⟨x, hx, hp⟩ := List.any_eq_true.mp hc
  exact h x hx (List.isPrefixOf_iff_prefix.mp hp)

theorem takeWhile_ne_self {c : Char} {l : List Char} (h : c ∉ l) :
    l.takeWhile (· ≠ c) = l ∧ l.dropWhile (· ≠ c) = [] := by
  induction l with
  | nil => simp
  | cons x xs ih =>
    have hx : x ≠ c := fun e => h (e ▸ List.mem_cons_self)
    have := ih (fun e => h (List.mem_cons_of_mem _ e))
    simp only [List.takeWhile_cons, List.dropWhile_cons, hx, ne_eq, not_false_eq_true, decide_true, if_true]
    exact ⟨by rw [this.1], this.2⟩

/-- a long option string (`--name`, no `=`) that is no option string of the table and no prefix of one -/
theorem classify_unknown_long {tbl : List OptSpec} {c : Char} {r : Name}
    (heq : '=' ∉ ('-' :: '-' :: c :: r)) (hn : ('-' :: '-' :: c :: r) ∉ optStrings tbl)
    (hp : ∀ x ∈ optStrings tbl, ¬ ('-' :: '-' :: c :: r) <+: x) :
    classify tbl ('-' :: '-' :: c :: r) = .unknown := by
  have h1 := findOpt_none_iff.mpr hn
  obtain ⟨h2, h3⟩ := takeWhile_ne_self heq
  unfold classify
  simp only [h1, h2, h3, prefixClash_false hp]
  simp

/-! ### more facts used by the property file -/

theorem has_of_get {ns : Ns} {k : Name} {v : Val} (h : ns.get k = some v) : Has ns k := by
  unfold Ns.get at h
  cases hf : ns.find? (fun p => p.1 == k) with
  | none => simp [hf] at h
  | some p =>
    have h1 := List.mem_of_find?_eq_some hf
    have h2 : p.1 = k := by simpa using List.find?_some hf
    exact ⟨p.2, h2 ▸ h1⟩

theorem get_append_of_some {ns : Ns} {k : Name} {v : Val} (h : ns.get k = some v) (ns' : Ns) :
    (ns ++ ns').get k = some v := by
  unfold Ns.get at h ⊢
  rw [List.find?_append]
  cases hf : ns.find? (fun p => p.1 == k) with
  | none => simp [hf] at h
  | some p => simpa [hf] using h

theorem defaults_get {ns : Ns} {k : Name} {v : Val} (h : ns.get k = some v) (os : List OptSpec) :
    (defaults os ns).get k = some v := by
  induction os generalizing ns with
  | nil => exact h
  | cons o os ih =>
    unfold defaults
    split
    · exact ih h
    · apply ih
      split
      · exact h
      · exact get_append_of_some h _

theorem findOpt_append_left {a b : List OptSpec} {s : Name} {o : OptSpec} (h : findOpt a s = some o) :
    findOpt (a ++ b) s = some o := by
  unfold findOpt at h ⊢
  rw [List.find?_append, h]
  rfl

/-- `-v` alone: the count option of a table whose default for that dest is a number -/
theorem runParser_count {q : Parser} {s : Name} {o : OptSpec} {n : Nat}
    (hc : classify q.opts s = .opt o none) (hk : o.kind = .count)
    (hd : (defaults q.opts []).get (destOf o) = some (.nat n)) :
    ∃ ns, runParser q [s] = .ok ns ∧ ∀ k, Has (defaults q.opts []) k → Has ns k := by
  obtain ⟨ps1, h1, h2, h3, h4⟩ := mutexOk_init o (closeRun q.opts (PS.init q.opts)) (by simp [closeRun, PS.init])
  have hcr : closeRun q.opts (PS.init q.opts) = PS.init q.opts := by simp [closeRun, PS.init]
  rw [hcr] at h1 h2 h3 h4
  have hd' : ps1.ns.get (destOf o) = some (.nat n) := by rw [h2]; exact hd
  refine ⟨(finish q.opts (setv o (.nat (n + 1)) ps1)).ns, ?_, ?_⟩
  · rw [runParser_eq]
    simp only [runP, hc, hk, hcr, h1, hd']
    have : (finish q.opts (setv o (.nat (n + 1)) ps1)).extras = false := by
      rw [finish_extras]; simp [setv, h4, PS.init]
    simp [this]
  · intro k hkk
    apply finish_has
    simp only [setv, h2]
    exact has_set hkk _ _

/-- `--color` alone: the optional value is absent -/
theorem runParser_optChoice {q : Parser} {s : Name} {o : OptSpec} {ch : List Name} {d : Name}
    (hc : classify q.opts s = .opt o none) (hk : o.kind = .optChoice ch d) :
    ∃ ns, runParser q [s] = .ok ns ∧ ∀ k, Has (defaults q.opts []) k → Has ns k := by
  obtain ⟨ps1, h1, h2, h3, h4⟩ := mutexOk_init o (closeRun q.opts (PS.init q.opts)) (by simp [closeRun, PS.init])
  have hcr : closeRun q.opts (PS.init q.opts) = PS.init q.opts := by simp [closeRun, PS.init]
  rw [hcr] at h1 h2 h3 h4
  refine ⟨(finish q.opts (setv o .none ps1)).ns, ?_, ?_⟩
  · rw [runParser_eq]
    simp only [runP, hc, hk, hcr, h1]
    have : (finish q.opts (setv o .none ps1)).extras = false := by
      rw [finish_extras]; simp [setv, h4, PS.init]
    simp [this]
  · intro k hkk
    apply finish_has
    simp only [setv, h2]
    exact has_set hkk _ _

/-- the top-level parser hands the arguments after a public command name to that command's parser -/
theorem dispatch_public {st : St} {q : Parser} (hn : (names st.parsers).Nodup) (hq : q ∈ st.parsers)
    (hpub : q.internal = false) (h1 : q.name ≠ ['-', 'h']) (h2 : q.name ≠ ['-', '-', 'h', 'e', 'l', 'p'])
    (rest : List Name) :
    dispatch st (some q.name :: rest.map some) =
      match runParser q rest with
      | .error e => .error e
      | .ok sub => post (mergeNs [(command, .str q.name)] sub) := by
  have : (rest.map some).filterMap id = rest := by simp
  simp only [dispatch, h1, h2, or_self, if_false, findParser_public hn hq hpub, this]
  rfl

theorem withDefault_keep {cfg : Cfg} {st : St} {a : Name} (rest : List Name)
    (h : a ∈ cfg.helpFirst ∨ a ∈ firstArgNames cfg st) :
    withDefault cfg st (a :: rest) = some a :: rest.map some := by
  have : (cfg.helpFirst.contains a || (firstArgNames cfg st).contains a) = true := by
    simpa using h
  unfold withDefault
  simp only [this, if_true, List.map_cons]

theorem withDefault_insert {cfg : Cfg} {st : St} (argv : List Name)
    (h : ∀ a, argv.head? = some a → a ∉ cfg.helpFirst ∧ a ∉ firstArgNames cfg st) :
    withDefault cfg st argv = st.default :: argv.map some := by
  cases argv with
  | nil => simp [withDefault]
  | cons a rest =>
    obtain ⟨h1, h2⟩ := h a rfl
    have : (cfg.helpFirst.contains a || (firstArgNames cfg st).contains a) = false := by
      simp [h1, h2]
    unfold withDefault
    simp only [this, Bool.false_eq_true, if_false]

theorem mem_publicNames {ps : List Parser} {q : Parser} (hq : q ∈ ps) (hpub : q.internal = false) :
    q.name ∈ publicNames ps := by
  unfold publicNames names
  exact List.mem_map.mpr ⟨q, List.mem_filter.mpr ⟨hq, by simp [hpub]⟩, rfl⟩

theorem mem_firstArgNames {cfg : Cfg} {st : St} {q : Parser} (hq : q ∈ st.parsers) (hpub : q.internal = false) :
    q.name ∈ firstArgNames cfg st := by
  unfold firstArgNames
  split
  · exact List.mem_map.mpr ⟨q, hq, rfl⟩
  · exact mem_publicNames hq hpub

theorem firstArgNames_sub {cfg : Cfg} {st : St} {a : Name} (h : a ∈ firstArgNames cfg st) : a ∈ names st.parsers := by
  unfold firstArgNames at h
  split at h
  · exact h
  · unfold publicNames names at h
    obtain ⟨q, hq, rfl⟩ := List.mem_map.mp h
    exact List.mem_map.mpr ⟨q, (List.mem_filter.mp hq).1, rfl⟩

/-- a short option string `-x` that is no option string of the table and no prefix of one -/
theorem classify_unknown_short {tbl : List OptSpec} {c : Char} (hc1 : c ≠ '-') (hc2 : c ≠ '=')
    (hc3 : c.isDigit = false) (hn : ['-', c] ∉ optStrings tbl) (hp : ∀ x ∈ optStrings tbl, ¬ ['-', c] <+: x) :
    classify tbl ['-', c] = .unknown := by
  have h1 := findOpt_none_iff.mpr hn
  unfold classify
  simp only [h1, prefixClash_false hp, hc3]
  simp [hc1, Ne.symm hc2]

/-! ### when does `add_argument` succeed -/

theorem mapE_ok_iff {α β ε} {f : α → Except ε β} {l : List α} :
    (∃ l', mapE f l = .ok l') ↔ ∀ a ∈ l, ∃ b, f a = .ok b := by
  induction l with
  | nil => simp [mapE]
  | cons a as ih =>
    unfold mapE
    cases ha : f a with
    | error e =>
      simp only [List.mem_cons, forall_eq_or_imp, ha]
      constructor
      · rintro ⟨_, h⟩; cases h
      · rintro ⟨⟨_, h⟩, _⟩; cases h
    | ok b =>
      cases has : mapE f as with
      | error e =>
        simp only [List.mem_cons, forall_eq_or_imp, ha]
        constructor
        · rintro ⟨_, h⟩; cases h
        · rintro ⟨_, h⟩
          obtain ⟨_, h'⟩ := ih.mpr h
          rw [has] at h'; cases h'
      | ok bs =>
        simp only [List.mem_cons, forall_eq_or_imp, ha]
        refine ⟨fun _ => ⟨⟨b, rfl⟩, ih.mp ⟨bs, has⟩⟩, fun _ => ⟨_, rfl⟩⟩

theorem addOpt_ok_iff (q : Parser) (s : OptSpec) :
    (∃ q', q.addOpt s = .ok q') ↔ (s.isOpt = true → ∀ x ∈ s.strings, x ∉ optStrings q.opts) := by
  unfold Parser.addOpt conflicts
  by_cases hk : s.isOpt = true
  · by_cases hc : s.strings.any (fun x => (optStrings q.opts).contains x) = true
    · simp only [hk, hc, Bool.and_self, if_true]
      constructor
      · rintro ⟨_, h⟩; cases h
      · intro h
        obtain ⟨x, hx, hx'⟩ := List.any_eq_true.mp hc
        exact absurd (by simpa using hx') (h trivial x hx)
    · simp only [hk, hc, Bool.and_false, Bool.false_eq_true, if_false]
      refine ⟨fun _ _ x hx hm => hc (List.any_eq_true.mpr ⟨x, hx, by simpa using hm⟩), fun _ => ⟨_, rfl⟩⟩
  · have hk' : s.isOpt = false := by simpa using hk
    rw [hk']
    simp only [Bool.false_and, Bool.false_eq_true, if_false]
    exact ⟨fun _ h => (by cases h), fun _ => ⟨_, rfl⟩⟩

/-- `add_argument` succeeds iff the target exists and no parser that receives the option already has
one of its option strings; the failures are `ValueError` (unknown command) and `ArgumentError`. -/
theorem addOption_ok_iff (st : St) (t : Option Name) (s : OptSpec) :
    (∃ st', addOption st t s = .ok st') ↔
      (∀ p, t = some p → p ∈ names st.parsers) ∧
      (s.isOpt = true → ∀ q ∈ st.parsers, recvN st.parsers t q.name = true →
        ∀ x ∈ s.strings, x ∉ optStrings q.opts) := by
  cases t with
  | none =>
    have : (∃ st', addOption st none s = .ok st') ↔ ∃ l', mapE (fun q => q.addOpt s) st.parsers = .ok l' := by
      unfold addOption
      cases mapE (fun q => q.addOpt s) st.parsers with
      | error e => simp
      | ok l => simp
    rw [this, mapE_ok_iff]
    simp only [reduceCtorEq, false_implies, implies_true, true_and, recvN]
    constructor
    · intro h hk q hq _
      exact (addOpt_ok_iff q s).mp (h q hq) hk
    · intro h q hq
      exact (addOpt_ok_iff q s).mpr (fun hk => h hk q hq trivial)
  | some p =>
    cases hf : findParser st.parsers p with
    | none =>
      have h1 : ¬ ∃ st', addOption st (some p) s = .ok st' := by
        unfold addOption; simp [hf]
      have h2 : p ∉ names st.parsers := by
        intro hm
        obtain ⟨r, hr, hn⟩ := List.mem_map.mp hm
        obtain ⟨r', hr'⟩ := findParser_of_mem hr
        rw [hn, hf] at hr'; cases hr'
      exact ⟨fun h => absurd h h1, fun ⟨h, _⟩ => absurd (h p rfl) h2⟩
    | some r =>
      have hp : p ∈ names st.parsers := by
        obtain ⟨hr, hn⟩ := findParser_some hf
        exact hn ▸ List.mem_map.mpr ⟨r, hr, rfl⟩
      have : (∃ st', addOption st (some p) s = .ok st') ↔
          ∃ l', mapE (fun q => if q.name = p ∨ q.name ∈ r.deps then q.addOpt s else .ok q) st.parsers = .ok l' := by
        unfold addOption
        simp only [hf]
        cases mapE (fun q => if q.name = p ∨ q.name ∈ r.deps then q.addOpt s else .ok q) st.parsers with
        | error e => simp
        | ok l => simp
      rw [this, mapE_ok_iff]
      simp only [Option.some.injEq, forall_eq', hp, true_and, recvN, hf, decide_eq_true_eq]
      constructor
      · intro h hk q hq hrecv
        have := h q hq
        rw [if_pos hrecv] at this
        exact (addOpt_ok_iff q s).mp this hk
      · intro h q hq
        by_cases hrecv : q.name = p ∨ q.name ∈ r.deps
        · rw [if_pos hrecv]
          exact (addOpt_ok_iff q s).mpr (fun hk => h hk q hq hrecv)
        · rw [if_neg hrecv]; exact ⟨q, rfl⟩

theorem addOption_err {st : St} {t : Option Name} {s : OptSpec} {e : Fail} (h : addOption st t s = .error e) :
    e = .exc .valueError ∨ e = .argumentError := by
  have hm : ∀ (f : Parser → Except Fail Parser) (l : List Parser),
      (∀ q e, f q = .error e → e = .argumentError) → ∀ e, mapE f l = .error e → e = .argumentError := by
    intro f l hf
    induction l with
    | nil => intro e h; cases h
    | cons a as ih =>
      intro e h
      unfold mapE at h
      cases ha : f a with
      | error e' => simp only [ha] at h; cases h; exact hf a _ ha
      | ok b =>
        simp only [ha] at h
        cases has : mapE f as with
        | error e' => simp only [has] at h; cases h; exact ih _ has
        | ok bs => simp [has] at h
  have ha : ∀ q e, Parser.addOpt q s = .error e → e = .argumentError := by
    intro q e h
    unfold Parser.addOpt at h
    split at h
    · cases h; rfl
    · cases h
  unfold addOption at h
  cases t with
  | none =>
    simp only at h
    cases hmm : mapE (fun q => q.addOpt s) st.parsers with
    | error e' => simp only [hmm] at h; cases h; exact Or.inr (hm _ _ ha _ hmm)
    | ok l => simp [hmm] at h
  | some p =>
    simp only at h
    cases hf : findParser st.parsers p with
    | none => simp only [hf] at h; cases h; exact Or.inl rfl
    | some r =>
      simp only [hf] at h
      cases hmm : mapE (fun q => if q.name = p ∨ q.name ∈ r.deps then q.addOpt s else .ok q) st.parsers with
      | error e' =>
        simp only [hmm] at h; cases h
        refine Or.inr (hm _ _ ?_ _ hmm)
        intro q e hq
        split at hq
        · exact ha q e hq
        · cases hq
      | ok l => simp [hmm] at h

/-! ### the declaration syntax `!name:parent1,parent2` -/

/-- `",".join(parents)` -/
def joinComma : List Name → Name
  | [] => []
  | [p] => p
  | p :: q :: r => p ++ ',' :: joinComma (q :: r)

/-- the documented way to write a declaration -/
def render (d : Decl) : Name :=
  (if d.internal then ['!'] else []) ++ d.name ++
    (match d.parents with
     | [] => []
     | ps => ':' :: joinComma ps)

theorem takeWhile_append_sep {c : Char} {pre post : List Char} (h : c ∉ pre) :
    (pre ++ c :: post).takeWhile (· ≠ c) = pre ∧ (pre ++ c :: post).dropWhile (· ≠ c) = c :: post := by
  induction pre with
  | nil => simp
  | cons x xs ih =>
    have hx : x ≠ c := fun e => h (e ▸ List.mem_cons_self)
    have := ih (fun e => h (List.mem_cons_of_mem _ e))
    simp only [List.cons_append, List.takeWhile_cons, List.dropWhile_cons, hx, ne_eq, not_false_eq_true,
      decide_true, if_true]
    exact ⟨by rw [this.1], this.2⟩

theorem splitOn_nosep {sep : Char} {p : List Char} (h : sep ∉ p) : splitOn sep p = (p, []) := by
  induction p with
  | nil => rfl
  | cons x xs ih =>
    have hx : x ≠ sep := fun e => h (e ▸ List.mem_cons_self)
    simp [splitOn, ih (fun e => h (List.mem_cons_of_mem _ e)), hx]

theorem splitOn_append_sep {sep : Char} {p rest : List Char} (h : sep ∉ p) :
    splitOn sep (p ++ sep :: rest) = (p, splitAll sep rest) := by
  induction p with
  | nil => simp [splitOn, splitAll]
  | cons x xs ih =>
    have hx : x ≠ sep := fun e => h (e ▸ List.mem_cons_self)
    simp [splitOn, ih (fun e => h (List.mem_cons_of_mem _ e)), hx]

theorem splitAll_joinComma (ps : List Name) (hne : ps ≠ []) (h : ∀ p ∈ ps, ',' ∉ p) :
    splitAll ',' (joinComma ps) = ps := by
  induction ps with
  | nil => exact absurd rfl hne
  | cons p r ih =>
    cases r with
    | nil => simp [joinComma, splitAll, splitOn_nosep (h p List.mem_cons_self)]
    | cons q r' =>
      have hp := h p List.mem_cons_self
      have := ih (by simp) (fun x hx => h x (List.mem_cons_of_mem _ hx))
      simp only [joinComma, splitAll, splitOn_append_sep hp]
      show p :: splitAll ',' (joinComma (q :: r')) = _
      rw [this]

theorem dedup_of_nodup (l : List Name) (h : l.Nodup) : dedup l = l := by
  induction l with
  | nil => rfl
  | cons x xs ih =>
    obtain ⟨h1, h2⟩ := List.nodup_cons.mp h
    simp [dedup, h1, ih h2]

theorem mem_dedup (l : List Name) (x : Name) : x ∈ dedup l ↔ x ∈ l := by
  induction l with
  | nil => simp [dedup]
  | cons y ys ih =>
    unfold dedup
    split
    · rename_i hy
      rw [ih]
      constructor
      · exact fun h => List.mem_cons_of_mem _ h
      · intro h
        rcases List.mem_cons.mp h with h | h
        · exact h ▸ hy
        · exact h
    · simp [ih]

theorem dedup_nodup (l : List Name) : (dedup l).Nodup := by
  induction l with
  | nil => simp [dedup]
  | cons y ys ih =>
    unfold dedup
    split
    · exact ih
    · rename_i hy
      exact List.nodup_cons.mpr ⟨fun h => hy ((mem_dedup ys y).mp h), ih⟩

/-- every parsed declaration has a duplicate-free list of non-empty parents -/
theorem parseDecl_parents (s : Name) : (parseDecl s).parents.Nodup ∧ ∀ p ∈ (parseDecl s).parents, p ≠ [] := by
  have key : ∀ l : List Name, (dedup (l.filter (· ≠ []))).Nodup ∧ ∀ p ∈ dedup (l.filter (· ≠ [])), p ≠ [] := by
    intro l
    refine ⟨dedup_nodup _, fun p hp => ?_⟩
    have := (mem_dedup _ p).mp hp
    simpa using (List.mem_filter.mp this).2
  unfold parseDecl
  cases hr : List.dropWhile (· ≠ ':') s with
  | nil =>
    simp only []
    split <;> simp
  | cons c ps =>
    simp only []
    split <;> exact key _

/-- **Front end.** A declaration written the documented way — optional `!`, a name without `:` that
does not itself start with `!`, then `:` and the comma separated parents (non-empty, without commas,
without surrounding blanks, all different) — is read back as exactly that declaration. -/
theorem parseDecl_render (d : Decl) (hn1 : ':' ∉ d.name) (hn2 : d.name.head? ≠ some '!')
    (hp1 : ∀ p ∈ d.parents, p ≠ [] ∧ ',' ∉ p ∧ strip p = p) (hp2 : d.parents.Nodup) :
    parseDecl (render d) = d := by
  obtain ⟨name, internal, parents⟩ := d
  simp only at hn1 hn2 hp1 hp2
  have hcolon : ':' ∉ (if internal then ['!'] else []) ++ name := by
    cases internal <;> simp [hn1]
  have hpar : dedup (((splitAll ',' (joinComma parents)).map strip).filter (· ≠ [])) = parents ∨ parents = [] := by
    by_cases he : parents = []
    · exact Or.inr he
    · left
      rw [splitAll_joinComma parents he (fun p hp => (hp1 p hp).2.1)]
      have h1 : parents.map strip = parents := by
        conv => rhs; rw [← List.map_id parents]
        exact List.map_congr_left (fun p hp => (hp1 p hp).2.2)
      rw [h1]
      have h2 : parents.filter (· ≠ []) = parents := by
        apply List.filter_eq_self.mpr
        intro p hp
        simpa using (hp1 p hp).1
      rw [h2]
      exact dedup_of_nodup _ hp2
  have hhead : ∀ (cmd : Name) (ps : List Name), cmd = (if internal then ['!'] else []) ++ name →
      (match cmd with
        | '!' :: nm => ({ name := nm, internal := true, parents := ps } : Decl)
        | _ => { name := cmd, internal := false, parents := ps }) =
      { name := name, internal := internal, parents := ps } := by
    intro cmd ps hc
    subst hc
    cases internal with
    | true => simp
    | false =>
      cases name with
      | nil => simp
      | cons c r =>
        have : c ≠ '!' := fun e => hn2 (by simp [e])
        simp only [Bool.false_eq_true, if_false, List.nil_append]
        split
        · rename_i nm heq
          cases heq
          exact absurd rfl this
        · rfl
  unfold parseDecl render
  cases parents with
  | nil =>
    simp only [List.append_nil]
    obtain ⟨h1, h2⟩ := takeWhile_ne_self hcolon
    rw [h1, h2]
    exact hhead _ _ rfl
  | cons p r =>
    simp only []
    obtain ⟨h1, h2⟩ := takeWhile_append_sep (post := joinComma (p :: r)) hcolon
    rw [h1, h2]
    simp only []
    rcases hpar with hpar | hpar
    · rw [hpar]; exact hhead _ _ rfl
    · cases hpar

end CliGraph
