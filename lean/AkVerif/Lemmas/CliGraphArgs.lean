import AkVerif.Lemmas.CliGraph
/-! Helper lemmas for C19, second part: namespaces, one parser scanning a one-option argument list,
the top-level dispatch and the default-command insertion. -/
namespace CliGraph
open Ak

/-! ### namespaces -/

/-- the namespace has the attribute `k` -/
def Has (ns : Ns) (k : Name) : Prop := ∃ v, (k, v) ∈ ns

theorem get_of_has {ns : Ns} {k : Name} (h : Has ns k) : ∃ v, ns.get k = some v := by
  obtain ⟨v, hv⟩ := h
  unfold Ns.get
  cases hf : ns.find? (fun p => p.1 == k) with
  | some p => exact ⟨p.2, rfl⟩
  | none =>
    have := List.find?_eq_none.mp hf (k, v) hv
    simp at this

theorem has_set_self (ns : Ns) (k : Name) (v : Val) : Has (ns.set k v) k := by
  unfold Ns.set
  split
  · rename_i h
    obtain ⟨p, hp, hk⟩ := List.any_eq_true.mp h
    exact ⟨v, List.mem_map.mpr ⟨p, hp, by simp [hk]⟩⟩
  · exact ⟨v, by simp⟩

theorem has_set {ns : Ns} {k : Name} (h : Has ns k) (k' : Name) (v : Val) : Has (ns.set k' v) k := by
  by_cases hk : k = k'
  · exact hk ▸ has_set_self ns k v
  · obtain ⟨v0, hv0⟩ := h
    unfold Ns.set
    split
    · refine ⟨v0, List.mem_map.mpr ⟨(k, v0), hv0, ?_⟩⟩
      simp [hk]
    · exact ⟨v0, List.mem_append_left _ hv0⟩

theorem has_assignPos {ns : Ns} {k : Name} (h : Has ns k) (ds ws : List Name) : Has (assignPos ds ws ns) k := by
  induction ds generalizing ws ns with
  | nil => exact h
  | cons d ds ih => exact ih (has_set h d _) []

theorem has_defaults {ns : Ns} {k : Name} (h : Has ns k) (os : List OptSpec) : Has (defaults os ns) k := by
  induction os generalizing ns with
  | nil => exact h
  | cons o os ih =>
    unfold defaults
    split
    · exact ih h
    · apply ih
      split
      · exact h
      · obtain ⟨v, hv⟩ := h
        exact ⟨v, List.mem_append_left _ hv⟩

theorem defaults_append (a b : List OptSpec) (ns : Ns) : defaults (a ++ b) ns = defaults b (defaults a ns) := by
  induction a generalizing ns with
  | nil => rfl
  | cons o os ih =>
    simp only [List.cons_append, defaults]
    split <;> exact ih _

theorem has_mergeNs_base {base : Ns} {k : Name} (h : Has base k) (sub : Ns) : Has (mergeNs base sub) k := by
  induction sub generalizing base with
  | nil => exact h
  | cons p r ih => exact ih (has_set h p.1 p.2)

theorem has_mergeNs {sub : Ns} {k : Name} (h : Has sub k) (base : Ns) : Has (mergeNs base sub) k := by
  induction sub generalizing base with
  | nil => obtain ⟨_, hv⟩ := h; cases hv
  | cons p r ih =>
    obtain ⟨v, hv⟩ := h
    rcases List.mem_cons.mp hv with hv | hv
    · have : Has (base.set p.1 p.2) k := by
        have : p.1 = k := by rw [← hv]
        exact this ▸ has_set_self base p.1 p.2
      exact has_mergeNs_base this r
    · exact ih ⟨v, hv⟩ _

theorem post_ok {ns : Ns} (h : Has ns noColor) : ∃ ns', post ns = .ok ns' := by
  obtain ⟨v, hv⟩ := get_of_has h
  simp only [post, hv]
  exact ⟨_, rfl⟩

/-! ### one-option argument lists -/

theorem finish_extras (tbl : List OptSpec) (ps : PS) : (finish tbl ps).extras = ps.extras := by
  unfold finish closeRun
  split <;> simp_all

theorem finish_has (tbl : List OptSpec) {ps : PS} {k : Name} (h : Has ps.ns k) : Has (finish tbl ps).ns k := by
  unfold finish closeRun
  split
  · exact has_assignPos h _ _
  · rename_i ws hr
    simp only [hr]
    exact has_assignPos h _ _
  · exact h

def PS.init (tbl : List OptSpec) : PS := { ns := defaults tbl [], seen := [], run := .idle, extras := false }

theorem runParser_eq (q : Parser) (args : List Name) :
    runParser q args = match runP q.opts args (PS.init q.opts) with
      | .error e => .error e
      | .ok ps => if ps.extras then .error (.exit 2) else .ok ps.ns := rfl

theorem mutexOk_init (o : OptSpec) (ps : PS) (hs : ps.seen = []) :
    ∃ ps', mutexOk o ps = some ps' ∧ ps'.ns = ps.ns ∧ ps'.run = ps.run ∧ ps'.extras = ps.extras := by
  unfold mutexOk
  split
  · simp [hs]
  · exact ⟨ps, rfl, rfl, rfl, rfl⟩

/-- a flag the table knows, alone on the command line -/
theorem runParser_flag {q : Parser} {s : Name} {o : OptSpec} (hc : classify q.opts s = .opt o none)
    (hk : o.kind = .flag) :
    ∃ ns, runParser q [s] = .ok ns ∧ ∀ k, Has (defaults q.opts []) k → Has ns k := by
  obtain ⟨ps1, h1, h2, h3, h4⟩ := mutexOk_init o (closeRun q.opts (PS.init q.opts)) (by simp [closeRun, PS.init])
  have hcr : closeRun q.opts (PS.init q.opts) = PS.init q.opts := by simp [closeRun, PS.init]
  rw [hcr] at h1 h2 h3 h4
  refine ⟨(finish q.opts (setv o (.bool true) ps1)).ns, ?_, ?_⟩
  · rw [runParser_eq]
    simp only [runP, hc, hk, hcr, h1]
    have : (finish q.opts (setv o (.bool true) ps1)).extras = false := by
      rw [finish_extras]; simp [setv, h4, PS.init]
    simp [this]
  · intro k hkk
    apply finish_has
    simp only [setv, h2]
    exact has_set hkk _ _

/-- a value option the table knows, followed by a word -/
theorem runParser_value {q : Parser} {s w : Name} {o : OptSpec} (hc : classify q.opts s = .opt o none)
    (hk : o.kind = .value) (hw : classify q.opts w = .word) :
    ∃ ns, runParser q [s, w] = .ok ns ∧ ∀ k, Has (defaults q.opts []) k → Has ns k := by
  obtain ⟨ps1, h1, h2, h3, h4⟩ := mutexOk_init o (closeRun q.opts (PS.init q.opts)) (by simp [closeRun, PS.init])
  have hcr : closeRun q.opts (PS.init q.opts) = PS.init q.opts := by simp [closeRun, PS.init]
  rw [hcr] at h1 h2 h3 h4
  refine ⟨(finish q.opts (setv o (.str w) ps1)).ns, ?_, ?_⟩
  · rw [runParser_eq]
    simp only [runP, hc, hk, hcr, h1, hw]
    have : (finish q.opts (setv o (.str w) ps1)).extras = false := by
      rw [finish_extras]; simp [setv, h4, PS.init]
    simp [this]
  · intro k hkk
    apply finish_has
    simp only [setv, h2]
    exact has_set hkk _ _

/-- an option the table does not know (and that abbreviates nothing) -/
theorem runParser_unknown {q : Parser} {s : Name} (hc : classify q.opts s = .unknown) :
    runParser q [s] = .error (.exit 2) := by
  rw [runParser_eq]
  simp only [runP, hc]
  have : (finish q.opts { closeRun q.opts (PS.init q.opts) with extras := true }).extras = true := by
    rw [finish_extras]
  simp [this]

theorem findOpt_some {tbl : List OptSpec} {s : Name} {o : OptSpec} (h : findOpt tbl s = some o) :
    o ∈ tbl ∧ o.isOpt = true ∧ s ∈ o.strings := by
  unfold findOpt at h
  have := List.find?_some h
  simp only [Bool.and_eq_true, List.contains_eq_mem, decide_eq_true_eq] at this
  exact ⟨List.mem_of_find?_eq_some h, this.1, this.2⟩

theorem mem_optStrings {tbl : List OptSpec} {s : Name} :
    s ∈ optStrings tbl ↔ ∃ o ∈ tbl, o.isOpt = true ∧ s ∈ o.strings := by
  unfold optStrings
  simp only [List.mem_flatMap, List.mem_filter]
  constructor
  · rintro ⟨o, ⟨h1, h2⟩, h3⟩; exact ⟨o, h1, h2, h3⟩
  · rintro ⟨o, h1, h2, h3⟩; exact ⟨o, ⟨h1, h2⟩, h3⟩

theorem findOpt_isSome_iff {tbl : List OptSpec} {s : Name} :
    (∃ o, findOpt tbl s = some o) ↔ s ∈ optStrings tbl := by
  rw [mem_optStrings]
  constructor
  · rintro ⟨o, h⟩
    exact ⟨o, findOpt_some h⟩
  · rintro ⟨o, h1, h2, h3⟩
    unfold findOpt
    cases hf : tbl.find? (fun o => o.isOpt && o.strings.contains s) with
    | some o' => exact ⟨o', rfl⟩
    | none =>
      have := List.find?_eq_none.mp hf o h1
      simp [h2, h3] at this

theorem findOpt_none_iff {tbl : List OptSpec} {s : Name} : findOpt tbl s = none ↔ s ∉ optStrings tbl := by
  rw [← findOpt_isSome_iff]
  cases findOpt tbl s <;> simp

theorem classify_known {tbl : List OptSpec} {s : Name} {o : OptSpec} (hs : s.head? = some '-')
    (h : findOpt tbl s = some o) : classify tbl s = .opt o none := by
  cases s with
  | nil => simp at hs
  | cons c r =>
    simp only [List.head?_cons, Option.some.injEq] at hs
    subst hs
    simp [classify, h]

theorem prefixClash_false {tbl : List OptSpec} {s : Name}
    (h : ∀ x ∈ optStrings tbl, ¬ s <+: x) : prefixClash tbl s = false := by
  unfold prefixClash
  apply Bool.eq_false_iff.mpr
  intro hc
  obtain ⟨x, hx, hp⟩ := List.any_eq_true.mp hc
  exact h x hx (List.isPrefixOf_iff_prefix.mp hp)

theorem takeWhile_ne_self {c : Char} {l : List Char} (h : c ∉ l) :
    l.takeWhile (· ≠ c) = l ∧ l.dropWhile (· ≠ c) = [] := by
  induction l with
  | nil => simp
  | cons x xs ih =>
    have hx : x ≠ c := fun e => h (e ▸ List.mem_cons_self)
    have := ih (fun e => h (List.mem_cons_of_mem _ e))
    simp only [List.takeWhile_cons, List.dropWhile_cons, hx, ne_eq, not_false_eq_true, decide_true, if_true]
    exact ⟨by rw [this.1], this.2⟩

/-- a long option string (`--name`, no `=`) that is no option string of the table and no prefix of one -/
theorem classify_unknown_long {tbl : List OptSpec} {c : Char} {r : Name}
    (heq : '=' ∉ ('-' :: '-' :: c :: r)) (hn : ('-' :: '-' :: c :: r) ∉ optStrings tbl)
    (hp : ∀ x ∈ optStrings tbl, ¬ ('-' :: '-' :: c :: r) <+: x) :
    classify tbl ('-' :: '-' :: c :: r) = .unknown := by
  have h1 := findOpt_none_iff.mpr hn
  obtain ⟨h2, h3⟩ := takeWhile_ne_self heq
  unfold classify
  simp only [h1, h2, h3, prefixClash_false hp]
  simp

/-! ### more facts used by the property file -/

theorem has_of_get {ns : Ns} {k : Name} {v : Val} (h : ns.get k = some v) : Has ns k := by
  unfold Ns.get at h
  cases hf : ns.find? (fun p => p.1 == k) with
  | none => simp [hf] at h
  | some p =>
    have h1 := List.mem_of_find?_eq_some hf
    have h2 : p.1 = k := by simpa using List.find?_some hf
    exact ⟨p.2, h2 ▸ h1⟩

theorem get_append_of_some {ns : Ns} {k : Name} {v : Val} (h : ns.get k = some v) (ns' : Ns) :
    (ns ++ ns').get k = some v := by
  unfold Ns.get at h ⊢
  rw [List.find?_append]
  cases hf : ns.find? (fun p => p.1 == k) with
  | none => simp [hf] at h
  | some p => simpa [hf] using h

theorem defaults_get {ns : Ns} {k : Name} {v : Val} (h : ns.get k = some v) (os : List OptSpec) :
    (defaults os ns).get k = some v := by
  induction os generalizing ns with
  | nil => exact h
  | cons o os ih =>
    unfold defaults
    split
    · exact ih h
    · apply ih
      split
      · exact h
      · exact get_append_of_some h _

theorem findOpt_append_left {a b : List OptSpec} {s : Name} {o : OptSpec} (h : findOpt a s = some o) :
    findOpt (a ++ b) s = some o := by
  unfold findOpt at h ⊢
  rw [List.find?_append, h]
  rfl

/-- `-v` alone: the count option of a table whose default for that dest is a number -/
theorem runParser_count {q : Parser} {s : Name} {o : OptSpec} {n : Nat}
    (hc : classify q.opts s = .opt o none) (hk : o.kind = .count)
    (hd : (defaults q.opts []).get (destOf o) = some (.nat n)) :
    ∃ ns, runParser q [s] = .ok ns ∧ ∀ k, Has (defaults q.opts []) k → Has ns k := by
  obtain ⟨ps1, h1, h2, h3, h4⟩ := mutexOk_init o (closeRun q.opts (PS.init q.opts)) (by simp [closeRun, PS.init])
  have hcr : closeRun q.opts (PS.init q.opts) = PS.init q.opts := by simp [closeRun, PS.init]
  rw [hcr] at h1 h2 h3 h4
  have hd' : ps1.ns.get (destOf o) = some (.nat n) := by rw [h2]; exact hd
  refine ⟨(finish q.opts (setv o (.nat (n + 1)) ps1)).ns, ?_, ?_⟩
  · rw [runParser_eq]
    simp only [runP, hc, hk, hcr, h1, hd']
    have : (finish q.opts (setv o (.nat (n + 1)) ps1)).extras = false := by
      rw [finish_extras]; simp [setv, h4, PS.init]
    simp [this]
  · intro k hkk
    apply finish_has
    simp only [setv, h2]
    exact has_set hkk _ _

/-- `--color` alone: the optional value is absent -/
theorem runParser_optChoice {q : Parser} {s : Name} {o : OptSpec} {ch : List Name} {d : Name}
    (hc : classify q.opts s = .opt o none) (hk : o.kind = .optChoice ch d) :
    ∃ ns, runParser q [s] = .ok ns ∧ ∀ k, Has (defaults q.opts []) k → Has ns k := by
  obtain ⟨ps1, h1, h2, h3, h4⟩ := mutexOk_init o (closeRun q.opts (PS.init q.opts)) (by simp [closeRun, PS.init])
  have hcr : closeRun q.opts (PS.init q.opts) = PS.init q.opts := by simp [closeRun, PS.init]
  rw [hcr] at h1 h2 h3 h4
  refine ⟨(finish q.opts (setv o .none ps1)).ns, ?_, ?_⟩
  · rw [runParser_eq]
    simp only [runP, hc, hk, hcr, h1]
    have : (finish q.opts (setv o .none ps1)).extras = false := by
      rw [finish_extras]; simp [setv, h4, PS.init]
    simp [this]
  · intro k hkk
    apply finish_has
    simp only [setv, h2]
    exact has_set hkk _ _

/-- the top-level parser hands the arguments after a public command name to that command's parser -/
theorem dispatch_public {st : St} {q : Parser} (hn : (names st.parsers).Nodup) (hq : q ∈ st.parsers)
    (hpub : q.internal = false) (h1 : q.name ≠ ['-', 'h']) (h2 : q.name ≠ ['-', '-', 'h', 'e', 'l', 'p'])
    (rest : List Name) :
    dispatch st (some q.name :: rest.map some) =
      match runParser q rest with
      | .error e => .error e
      | .ok sub => post (mergeNs [(command, .str q.name)] sub) := by
  have : (rest.map some).filterMap id = rest := by simp
  simp only [dispatch, h1, h2, or_self, if_false, findParser_public hn hq hpub, this]
  rfl

theorem withDefault_keep {cfg : Cfg} {st : St} {a : Name} (rest : List Name)
    (h : a ∈ cfg.helpFirst ∨ a ∈ firstArgNames cfg st) :
    withDefault cfg st (a :: rest) = some a :: rest.map some := by
  have : (cfg.helpFirst.contains a || (firstArgNames cfg st).contains a) = true := by
    simpa using h
  unfold withDefault
  simp only [this, if_true, List.map_cons]

theorem withDefault_insert {cfg : Cfg} {st : St} (argv : List Name)
    (h : ∀ a, argv.head? = some a → a ∉ cfg.helpFirst ∧ a ∉ firstArgNames cfg st) :
    withDefault cfg st argv = st.default :: argv.map some := by
  cases argv with
  | nil => simp [withDefault]
  | cons a rest =>
    obtain ⟨h1, h2⟩ := h a rfl
    have : (cfg.helpFirst.contains a || (firstArgNames cfg st).contains a) = false := by
      simp [h1, h2]
    unfold withDefault
    simp only [this, Bool.false_eq_true, if_false]

theorem mem_publicNames {ps : List Parser} {q : Parser} (hq : q ∈ ps) (hpub : q.internal = false) :
    q.name ∈ publicNames ps := by
  unfold publicNames names
  exact List.mem_map.mpr ⟨q, List.mem_filter.mpr ⟨hq, by simp [hpub]⟩, rfl⟩

theorem mem_firstArgNames {cfg : Cfg} {st : St} {q : Parser} (hq : q ∈ st.parsers) (hpub : q.internal = false) :
    q.name ∈ firstArgNames cfg st := by
  unfold firstArgNames
  split
  · exact List.mem_map.mpr ⟨q, hq, rfl⟩
  · exact mem_publicNames hq hpub

theorem firstArgNames_sub {cfg : Cfg} {st : St} {a : Name} (h : a ∈ firstArgNames cfg st) : a ∈ names st.parsers := by
  unfold firstArgNames at h
  split at h
  · exact h
  · unfold publicNames names at h
    obtain ⟨q, hq, rfl⟩ := List.mem_map.mp h
    exact List.mem_map.mpr ⟨q, (List.mem_filter.mp hq).1, rfl⟩

end CliGraph
