import AkVerif.Lemmas.CliGraph
import AkVerif.Model.CliArgs
/-! Helper lemmas for C19, second part: option strings of a table, when `add_argument` succeeds,
the declaration syntax. -/
namespace CliGraph
open Ak

theorem findOpt_some {tbl : List OptSpec} {s : Name} {o : OptSpec} (h : findOpt tbl s = some o) :
    o ∈ tbl ∧ o.isOpt = true ∧ s ∈ o.strings := by
  unfold findOpt at h
  have := List.find?_some h
  simp only [Bool.and_eq_true, List.contains_eq_mem, decide_eq_true_eq] at this
  exact ⟨List.mem_of_find?_eq_some h, this.1, this.2⟩

theorem mem_optStrings {tbl : List OptSpec} {s : Name} :
    s ∈ optStrings tbl ↔ ∃ o ∈ tbl, o.isOpt = true ∧ s ∈ o.strings := by
  unfold optStrings
  simp only [List.mem_flatMap, List.mem_filter]
  constructor
  · rintro ⟨o, ⟨h1, h2⟩, h3⟩; exact ⟨o, h1, h2, h3⟩
  · rintro ⟨o, h1, h2, h3⟩; exact ⟨o, ⟨h1, h2⟩, h3⟩

theorem findOpt_isSome_iff {tbl : List OptSpec} {s : Name} :
    (∃ o, findOpt tbl s = some o) ↔ s ∈ optStrings tbl := by
  rw [mem_optStrings]
  constructor
  · rintro ⟨o, h⟩
    exact ⟨o, findOpt_some h⟩
  · rintro ⟨o, h1, h2, h3⟩
    unfold findOpt
    cases hf : tbl.find? (fun o => o.isOpt && o.strings.contains s) with
    | some o' => exact ⟨o', rfl⟩
    | none =>
      have := List.find?_eq_none.mp hf o h1
      simp [h2, h3] at this

theorem findOpt_none_iff {tbl : List OptSpec} {s : Name} : findOpt tbl s = none ↔ s ∉ optStrings tbl := by
  rw [← findOpt_isSome_iff]
  cases findOpt tbl s <;> simp

theorem takeWhile_ne_self {c : Char} {l : List Char} (h : c ∉ l) :
    l.takeWhile (· ≠ c) = l ∧ l.dropWhile (· ≠ c) = [] := by
  induction l with
  | nil => simp
  | cons x xs ih =>
    have hx : x ≠ c := fun e => h (e ▸ List.mem_cons_self)
    have := ih (fun e => h (List.mem_cons_of_mem _ e))
    simp only [List.takeWhile_cons, List.dropWhile_cons, hx, ne_eq, not_false_eq_true, decide_true, if_true]
    exact ⟨by rw [this.1], this.2⟩

theorem findOpt_append_left {a b : List OptSpec} {s : Name} {o : OptSpec} (h : findOpt a s = some o) :
    findOpt (a ++ b) s = some o := by
  unfold findOpt at h ⊢
  rw [List.find?_append, h]
  rfl

theorem mem_publicNames {ps : List Parser} {q : Parser} (hq : q ∈ ps) (hpub : q.internal = false) :
    q.name ∈ publicNames ps := by
  unfold publicNames names
  exact List.mem_map.mpr ⟨q, List.mem_filter.mpr ⟨hq, by simp [hpub]⟩, rfl⟩

theorem mem_firstArgNames {cfg : Cfg} {st : St} {q : Parser} (hq : q ∈ st.parsers) (hpub : q.internal = false) :
    q.name ∈ firstArgNames cfg st := by
  unfold firstArgNames
  split
  · exact List.mem_map.mpr ⟨q, hq, rfl⟩
  · exact mem_publicNames hq hpub

theorem firstArgNames_sub {cfg : Cfg} {st : St} {a : Name} (h : a ∈ firstArgNames cfg st) : a ∈ names st.parsers := by
  unfold firstArgNames at h
  split at h
  · exact h
  · unfold publicNames names at h
    obtain ⟨q, hq, rfl⟩ := List.mem_map.mp h
    exact List.mem_map.mpr ⟨q, (List.mem_filter.mp hq).1, rfl⟩

/-! ### when does `add_argument` succeed -/

theorem mapE_ok_iff {α β ε} {f : α → Except ε β} {l : List α} :
    (∃ l', mapE f l = .ok l') ↔ ∀ a ∈ l, ∃ b, f a = .ok b := by
  induction l with
  | nil => simp [mapE]
  | cons a as ih =>
    unfold mapE
    cases ha : f a with
    | error e =>
      simp only [List.mem_cons, forall_eq_or_imp, ha]
      constructor
      · rintro ⟨_, h⟩; cases h
      · rintro ⟨⟨_, h⟩, _⟩; cases h
    | ok b =>
      cases has : mapE f as with
      | error e =>
        simp only [List.mem_cons, forall_eq_or_imp, ha]
        constructor
        · rintro ⟨_, h⟩; cases h
        · rintro ⟨_, h⟩
          obtain ⟨_, h'⟩ := ih.mpr h
          rw [has] at h'; cases h'
      | ok bs =>
        simp only [List.mem_cons, forall_eq_or_imp, ha]
        refine ⟨fun _ => ⟨⟨b, rfl⟩, ih.mp ⟨bs, has⟩⟩, fun _ => ⟨_, rfl⟩⟩

theorem addOpt_ok_iff (q : Parser) (s : OptSpec) :
    (∃ q', q.addOpt s = .ok q') ↔ (s.isOpt = true → ∀ x ∈ s.strings, x ∉ optStrings q.opts) := by
  unfold Parser.addOpt conflicts
  by_cases hk : s.isOpt = true
  · by_cases hc : s.strings.any (fun x => (optStrings q.opts).contains x) = true
    · simp only [hk, hc, Bool.and_self, if_true]
      constructor
      · rintro ⟨_, h⟩; cases h
      · intro h
        obtain ⟨x, hx, hx'⟩ := List.any_eq_true.mp hc
        exact absurd (by simpa using hx') (h trivial x hx)
    · simp only [hk, hc, Bool.and_false, Bool.false_eq_true, if_false]
      refine ⟨fun _ _ x hx hm => hc (List.any_eq_true.mpr ⟨x, hx, by simpa using hm⟩), fun _ => ⟨_, rfl⟩⟩
  · have hk' : s.isOpt = false := by simpa using hk
    rw [hk']
    simp only [Bool.false_and, Bool.false_eq_true, if_false]
    exact ⟨fun _ h => (by cases h), fun _ => ⟨_, rfl⟩⟩

/-- `add_argument` succeeds iff the target exists and no parser that receives the option already has
one of its option strings; the failures are `ValueError` (unknown command) and `ArgumentError`. -/
theorem addOption_ok_iff (st : St) (t : Option Name) (s : OptSpec) :
    (∃ st', addOption st t s = .ok st') ↔
      (∀ p, t = some p → p ∈ names st.parsers) ∧
      (s.isOpt = true → ∀ q ∈ st.parsers, recvN st.parsers t q.name = true →
        ∀ x ∈ s.strings, x ∉ optStrings q.opts) := by
  cases t with
  | none =>
    have : (∃ st', addOption st none s = .ok st') ↔ ∃ l', mapE (fun q => q.addOpt s) st.parsers = .ok l' := by
      unfold addOption
      cases mapE (fun q => q.addOpt s) st.parsers with
      | error e => simp
      | ok l => simp
    rw [this, mapE_ok_iff]
    simp only [reduceCtorEq, false_implies, implies_true, true_and, recvN]
    constructor
    · intro h hk q hq _
      exact (addOpt_ok_iff q s).mp (h q hq) hk
    · intro h q hq
      exact (addOpt_ok_iff q s).mpr (fun hk => h hk q hq trivial)
  | some p =>
    cases hf : findParser st.parsers p with
    | none =>
      have h1 : ¬ ∃ st', addOption st (some p) s = .ok st' := by
        unfold addOption; simp [hf]
      have h2 : p ∉ names st.parsers := by
        intro hm
        obtain ⟨r, hr, hn⟩ := List.mem_map.mp hm
        obtain ⟨r', hr'⟩ := findParser_of_mem hr
        rw [hn, hf] at hr'; cases hr'
      exact ⟨fun h => absurd h h1, fun ⟨h, _⟩ => absurd (h p rfl) h2⟩
    | some r =>
      have hp : p ∈ names st.parsers := by
        obtain ⟨hr, hn⟩ := findParser_some hf
        exact hn ▸ List.mem_map.mpr ⟨r, hr, rfl⟩
      have : (∃ st', addOption st (some p) s = .ok st') ↔
          ∃ l', mapE (fun q => if q.name = p ∨ q.name ∈ r.deps then q.addOpt s else .ok q) st.parsers = .ok l' := by
        unfold addOption
        simp only [hf]
        cases mapE (fun q => if q.name = p ∨ q.name ∈ r.deps then q.addOpt s else .ok q) st.parsers with
        | error e => simp
        | ok l => simp
      rw [this, mapE_ok_iff]
      simp only [Option.some.injEq, forall_eq', hp, true_and, recvN, hf, decide_eq_true_eq]
      constructor
      · intro h hk q hq hrecv
        have := h q hq
        rw [if_pos hrecv] at this
        exact (addOpt_ok_iff q s).mp this hk
      · intro h q hq
        by_cases hrecv : q.name = p ∨ q.name ∈ r.deps
        · rw [if_pos hrecv]
          exact (addOpt_ok_iff q s).mpr (fun hk => h hk q hq hrecv)
        · rw [if_neg hrecv]; exact ⟨q, rfl⟩

theorem addOption_err {st : St} {t : Option Name} {s : OptSpec} {e : Fail} (h : addOption st t s = .error e) :
    e = .exc .valueError ∨ e = .argumentError := by
  have hm : ∀ (f : Parser → Except Fail Parser) (l : List Parser),
      (∀ q e, f q = .error e → e = .argumentError) → ∀ e, mapE f l = .error e → e = .argumentError := by
    intro f l hf
    induction l with
    | nil => intro e h; cases h
    | cons a as ih =>
      intro e h
      unfold mapE at h
      cases ha : f a with
      | error e' => simp only [ha] at h; cases h; exact hf a _ ha
      | ok b =>
        simp only [ha] at h
        cases has : mapE f as with
        | error e' => simp only [has] at h; cases h; exact ih _ has
        | ok bs => simp [has] at h
  have ha : ∀ q e, Parser.addOpt q s = .error e → e = .argumentError := by
    intro q e h
    unfold Parser.addOpt at h
    split at h
    · cases h; rfl
    · cases h
  unfold addOption at h
  cases t with
  | none =>
    simp only at h
    cases hmm : mapE (fun q => q.addOpt s) st.parsers with
    | error e' => simp only [hmm] at h; cases h; exact Or.inr (hm _ _ ha _ hmm)
    | ok l => simp [hmm] at h
  | some p =>
    simp only at h
    cases hf : findParser st.parsers p with
    | none => simp only [hf] at h; cases h; exact Or.inl rfl
    | some r =>
      simp only [hf] at h
      cases hmm : mapE (fun q => if q.name = p ∨ q.name ∈ r.deps then q.addOpt s else .ok q) st.parsers with
      | error e' =>
        simp only [hmm] at h; cases h
        refine Or.inr (hm _ _ ?_ _ hmm)
        intro q e hq
        split at hq
        · exact ha q e hq
        · cases hq
      | ok l => simp [hmm] at h

/-! ### the declaration syntax `!name:parent1,parent2` -/

/-- `",".join(parents)` -/
def joinComma : List Name → Name
  | [] => []
  | [p] => p
  | p :: q :: r => p ++ ',' :: joinComma (q :: r)

/-- the documented way to write a declaration -/
def render (d : Decl) : Name :=
  (if d.internal then ['!'] else []) ++ d.name ++
    (match d.parents with
     | [] => []
     | ps => ':' :: joinComma ps)

theorem takeWhile_append_sep {c : Char} {pre post : List Char} (h : c ∉ pre) :
    (pre ++ c :: post).takeWhile (· ≠ c) = pre ∧ (pre ++ c :: post).dropWhile (· ≠ c) = c :: post := by
  induction pre with
  | nil => simp
  | cons x xs ih =>
    have hx : x ≠ c := fun e => h (e ▸ List.mem_cons_self)
    have := ih (fun e => h (List.mem_cons_of_mem _ e))
    simp only [List.cons_append, List.takeWhile_cons, List.dropWhile_cons, hx, ne_eq, not_false_eq_true,
      decide_true, if_true]
    exact ⟨by rw [this.1], this.2⟩

theorem splitOn_nosep {sep : Char} {p : List Char} (h : sep ∉ p) : splitOn sep p = (p, []) := by
  induction p with
  | nil => rfl
  | cons x xs ih =>
    have hx : x ≠ sep := fun e => h (e ▸ List.mem_cons_self)
    simp [splitOn, ih (fun e => h (List.mem_cons_of_mem _ e)), hx]

theorem splitOn_append_sep {sep : Char} {p rest : List Char} (h : sep ∉ p) :
    splitOn sep (p ++ sep :: rest) = (p, splitAll sep rest) := by
  induction p with
  | nil => simp [splitOn, splitAll]
  | cons x xs ih =>
    have hx : x ≠ sep := fun e => h (e ▸ List.mem_cons_self)
    simp [splitOn, ih (fun e => h (List.mem_cons_of_mem _ e)), hx]

theorem splitAll_joinComma (ps : List Name) (hne : ps ≠ []) (h : ∀ p ∈ ps, ',' ∉ p) :
    splitAll ',' (joinComma ps) = ps := by
  induction ps with
  | nil => exact absurd rfl hne
  | cons p r ih =>
    cases r with
    | nil => simp [joinComma, splitAll, splitOn_nosep (h p List.mem_cons_self)]
    | cons q r' =>
      have hp := h p List.mem_cons_self
      have := ih (by simp) (fun x hx => h x (List.mem_cons_of_mem _ hx))
      simp only [joinComma, splitAll, splitOn_append_sep hp]
      show p :: splitAll ',' (joinComma (q :: r')) = _
      rw [this]

theorem dedup_of_nodup (l : List Name) (h : l.Nodup) : dedup l = l := by
  induction l with
  | nil => rfl
  | cons x xs ih =>
    obtain ⟨h1, h2⟩ := List.nodup_cons.mp h
    simp [dedup, h1, ih h2]

theorem mem_dedup (l : List Name) (x : Name) : x ∈ dedup l ↔ x ∈ l := by
  induction l with
  | nil => simp [dedup]
  | cons y ys ih =>
    unfold dedup
    split
    · rename_i hy
      rw [ih]
      constructor
      · exact fun h => List.mem_cons_of_mem _ h
      · intro h
        rcases List.mem_cons.mp h with h | h
        · exact h ▸ hy
        · exact h
    · simp [ih]

theorem dedup_nodup (l : List Name) : (dedup l).Nodup := by
  induction l with
  | nil => simp [dedup]
  | cons y ys ih =>
    unfold dedup
    split
    · exact ih
    · rename_i hy
      exact List.nodup_cons.mpr ⟨fun h => hy ((mem_dedup ys y).mp h), ih⟩

/-- every parsed declaration has a duplicate-free list of non-empty parents -/
theorem parseDecl_parents (s : Name) : (parseDecl s).parents.Nodup ∧ ∀ p ∈ (parseDecl s).parents, p ≠ [] := by
  have key : ∀ l : List Name, (dedup (l.filter (· ≠ []))).Nodup ∧ ∀ p ∈ dedup (l.filter (· ≠ [])), p ≠ [] := by
    intro l
    refine ⟨dedup_nodup _, fun p hp => ?_⟩
    have := (mem_dedup _ p).mp hp
    simpa using (List.mem_filter.mp this).2
  unfold parseDecl
  cases hr : List.dropWhile (· ≠ ':') s with
  | nil =>
    simp only []
    split <;> simp
  | cons c ps =>
    simp only []
    split <;> exact key _

/-- **Front end.** A declaration written the documented way — optional `!`, a name without `:` that
does not itself start with `!`, then `:` and the comma separated parents (non-empty, without commas,
without surrounding blanks, all different) — is read back as exactly that declaration. -/
theorem parseDecl_render (d : Decl) (hn1 : ':' ∉ d.name) (hn2 : d.name.head? ≠ some '!')
    (hp1 : ∀ p ∈ d.parents, p ≠ [] ∧ ',' ∉ p ∧ strip p = p) (hp2 : d.parents.Nodup) :
    parseDecl (render d) = d := by
  obtain ⟨name, internal, parents⟩ := d
  simp only at hn1 hn2 hp1 hp2
  have hcolon : ':' ∉ (if internal then ['!'] else []) ++ name := by
    cases internal <;> simp [hn1]
  have hpar : dedup (((splitAll ',' (joinComma parents)).map strip).filter (· ≠ [])) = parents ∨ parents = [] := by
    by_cases he : parents = []
    · exact Or.inr he
    · left
      rw [splitAll_joinComma parents he (fun p hp => (hp1 p hp).2.1)]
      have h1 : parents.map strip = parents := by
        conv => rhs; rw [← List.map_id parents]
        exact List.map_congr_left (fun p hp => (hp1 p hp).2.2)
      rw [h1]
      have h2 : parents.filter (· ≠ []) = parents := by
        apply List.filter_eq_self.mpr
        intro p hp
        simpa using (hp1 p hp).1
      rw [h2]
      exact dedup_of_nodup _ hp2
  have hhead : ∀ (cmd : Name) (ps : List Name), cmd = (if internal then ['!'] else []) ++ name →
      (match cmd with
        | '!' :: nm => ({ name := nm, internal := true, parents := ps } : Decl)
        | _ => { name := cmd, internal := false, parents := ps }) =
      { name := name, internal := internal, parents := ps } := by
    intro cmd ps hc
    subst hc
    cases internal with
    | true => simp
    | false =>
      cases name with
      | nil => simp
      | cons c r =>
        have : c ≠ '!' := fun e => hn2 (by simp [e])
        simp only [Bool.false_eq_true, if_false, List.nil_append]
        split
        · rename_i nm heq
          cases heq
          exact absurd rfl this
        · rfl
  unfold parseDecl render
  cases parents with
  | nil =>
    simp only [List.append_nil]
    obtain ⟨h1, h2⟩ := takeWhile_ne_self hcolon
    rw [h1, h2]
    exact hhead _ _ rfl
  | cons p r =>
    simp only []
    obtain ⟨h1, h2⟩ := takeWhile_append_sep (post := joinComma (p :: r)) hcolon
    rw [h1, h2]
    simp only []
    rcases hpar with hpar | hpar
    · rw [hpar]; exact hhead _ _ rfl
    · cases hpar

end CliGraph
