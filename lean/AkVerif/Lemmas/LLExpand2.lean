import AkVerif.Lemmas.LLExpand
/-!
Ordered expansion of the factorised dictionary, part 2: the smart undo keeps the ordered expansions.

* `ex_undoRule_exA` / `ex_undoRules_exA` — replacing `[a, b]` by `a :: q` for the rules `q` of the helper `b`
  does not change the expansion list of a rule list (under any prefix),
* `ex_transport` — rewriting the rules of one key into a rule list with the same expansions keeps all expansions,
* `ExInv`, `exInv_step`, `ex_undoLoop_inv` — the loop invariant of `undoLoop` next to `Inv`,
* `ex_remove` — deleting the inlined helpers at the end,
* `factorize_exA`, `factorize_expands` — the ordered identity for `factorize` with either value of `smart`.
-/
set_option linter.unusedSectionVars false
namespace LL
open Ak

section Congr
variable {G : Prods Sym} {S : List Sym}

theorem exA_append_iff {ps qs L : List (List Sym)} :
    ExA G S (ps ++ qs) L ↔ ∃ L1 L2, L = L1 ++ L2 ∧ ExA G S ps L1 ∧ ExA G S qs L2 := by
  constructor
  · exact exA_append_inv
  · rintro ⟨L1, L2, e, h1, h2⟩
    rw [e]
    exact exA_append h1 h2

theorem exA_append_congr {ps ps' qs qs' : List (List Sym)} (h1 : ∀ L, ExA G S ps L ↔ ExA G S ps' L)
    (h2 : ∀ L, ExA G S qs L ↔ ExA G S qs' L) (L : List (List Sym)) :
    ExA G S (ps ++ qs) L ↔ ExA G S (ps' ++ qs') L := by
  rw [exA_append_iff, exA_append_iff]
  constructor
  · rintro ⟨L1, L2, e, a, b⟩; exact ⟨L1, L2, e, (h1 L1).1 a, (h2 L2).1 b⟩
  · rintro ⟨L1, L2, e, a, b⟩; exact ⟨L1, L2, e, (h1 L1).2 a, (h2 L2).2 b⟩

theorem ex_map_pre (pre : List Sym) {rs rs' : List (Rule Sym)} (h : rs.map (·.rhs) = rs'.map (·.rhs)) :
    (rs.map fun r => pre ++ r.rhs) = rs'.map fun r => pre ++ r.rhs := by
  have e : ∀ l : List (Rule Sym), (l.map fun r => pre ++ r.rhs) = (l.map (·.rhs)).map (pre ++ ·) := by
    intro l; simp [List.map_map, Function.comp_def]
  rw [e rs, e rs', h]

theorem ex_map_nil (rs : List (Rule Sym)) : (rs.map fun r => ([] : List Sym) ++ r.rhs) = rs.map (·.rhs) := by
  simp

end Congr

/-! ### one inlining step on a rule list -/

section Undo
variable {terms S0 : List Sym} {d d2 : Prods Sym}

/-- one rule: `[a, b]` expands exactly like the list `a :: q`, `q` the rules of `b` (by definition of `group`) -/
theorem ex_undoRule_exA {r : Rule Sym} {rs : List (Rule Sym)} {o : Option Sym}
    (h : undoRule terms S0 d r = .ok (rs, o))
    (hsame : ∀ a b, r.rhs = [a, b] → b ∈ S0 → dget b d2 = dget b d) (pre : List Sym) (L : List (List Sym)) :
    ExA d2 S0 [pre ++ r.rhs] L ↔ ExA d2 S0 (rs.map fun r => pre ++ r.rhs) L := by
  rcases undoRule_spec h with ⟨e1, _, _⟩ | ⟨a, b, sp, hrhs, _, hb, hg, _, e1, _⟩
  · subst e1; simp
  · subst e1
    have hg2 : dget b d2 = some sp := by rw [hsame a b hrhs hb]; exact hg
    have e1 : pre ++ r.rhs = (pre ++ [a]) ++ [b] := by rw [hrhs]; simp
    have e2 : ((sp.map fun sr => (⟨a :: sr.rhs, 0⟩ : Rule Sym)).map fun r => pre ++ r.rhs) =
        sp.map fun sr => (pre ++ [a]) ++ sr.rhs := by
      simp [List.map_map, Function.comp_def]
    rw [e1, e2]
    constructor
    · intro hx
      obtain ⟨L1, L2, e, h1, h2⟩ := exA_group_inv hb hg2 hx
      have := exA_nil_inv h2
      subst this
      rw [e, List.append_nil]
      exact h1
    · intro hx
      have := ExA.group (ps := []) hb hg2 hx ExA.nil
      rwa [List.append_nil] at this

theorem ex_undoRules_exA : ∀ {rr new : List (Rule Sym)} {rm' : List Sym},
    undoRules terms S0 d rr = .ok (new, rm') →
    (∀ r ∈ rr, ∀ a b, r.rhs = [a, b] → b ∈ S0 → dget b d2 = dget b d) →
    ∀ (pre : List Sym) (L : List (List Sym)),
      ExA d2 S0 (rr.map fun r => pre ++ r.rhs) L ↔ ExA d2 S0 (new.map fun r => pre ++ r.rhs) L
  | [], new, rm', h, _, pre, L => by
    simp only [undoRules, Except.ok.injEq, Prod.mk.injEq] at h
    obtain ⟨e1, _⟩ := h
    subst e1
    exact Iff.rfl
  | r :: rest, new, rm', h, hsame, pre, L => by
    simp only [undoRules] at h
    obtain ⟨⟨rs, o⟩, h1, h⟩ := Except.bind_ok h
    obtain ⟨⟨rs2, rm2⟩, h2, h⟩ := Except.bind_ok h
    simp only [Except.ok.injEq, Prod.mk.injEq] at h
    obtain ⟨e1, _⟩ := h
    subst e1
    have ih := ex_undoRules_exA h2 (fun r' hr' => hsame r' (by simp [hr'])) pre
    have hone := ex_undoRule_exA (d2 := d2) h1 (hsame r (by simp)) pre
    have e1 : ((r :: rest).map fun r => pre ++ r.rhs) = [pre ++ r.rhs] ++ rest.map fun r => pre ++ r.rhs := by
      simp
    rw [e1, List.map_append]
    exact exA_append_congr hone ih L

end Undo

/-! ### rewriting the rules of one key -/

/-- the rules of `s` change from `r1` to `r2`, which expand alike under every prefix; nothing else changes -/
theorem ex_transport {S0 : List Sym} {d1 d2 : Prods Sym} {s : Sym} {r1 r2 : List (Rule Sym)}
    (h1 : dget s d1 = some r1) (h2 : dget s d2 = some r2) (hoth : ∀ k, k ≠ s → dget k d2 = dget k d1)
    (hB : ∀ pre L, ExA d2 S0 (r1.map fun r => pre ++ r.rhs) L → ExA d2 S0 (r2.map fun r => pre ++ r.rhs) L)
    {ps L : List (List Sym)} (h : ExA d1 S0 ps L) : ExA d2 S0 ps L := by
  induction h with
  | nil => exact ExA.nil
  | plain hl _ ih => exact ExA.plain hl ih
  | @group pre x rs ps L1 L2 hS hg _ _ ih1 ih2 =>
    by_cases hx : x = s
    · subst hx
      rw [h1] at hg
      cases hg
      exact ExA.group hS h2 (hB pre L1 ih1) ih2
    · exact ExA.group hS (by rw [hoth x hx]; exact hg) ih1 ih2

/-! ### the loop invariant -/

/-- next to `Inv`: the dictionary `d` of the loop expands every list of right-hand sides like `D0`, and the rules
of every key expand like the rules the key had in `D0` -/
structure ExInv (D0 : Prods Sym) (S0 : List Sym) (d : Prods Sym) : Prop where
  all : ∀ ps L, ExA D0 S0 ps L ↔ ExA d S0 ps L
  key : ∀ k rs0, dget k D0 = some rs0 → ∃ rs, dget k d = some rs ∧
    ∀ L, ExA D0 S0 (rs0.map (·.rhs)) L ↔ ExA d S0 (rs.map (·.rhs)) L

theorem exInv_init (D0 : Prods Sym) (S0 : List Sym) : ExInv D0 S0 D0 :=
  { all := fun _ _ => Iff.rfl, key := fun _ rs0 h => ⟨rs0, h, fun _ => Iff.rfl⟩ }

section Step
variable {terms : List Sym} {D0 : Prods Sym} {S0 done : List Sym} {d : Prods Sym} {rm : List Sym}
  {s : Sym} {rr new : List (Rule Sym)} {rm' : List Sym} {d' : Prods Sym} {new' : List (Rule Sym)}

theorem exInv_step (hB : Base terms D0 S0) (hI : Inv D0 S0 done d rm) (hE : ExInv D0 S0 d) (hs : s ∉ done)
    (hrr : dget s d = some rr) (hu : undoRules terms S0 d rr = .ok (new, rm'))
    (hs' : dget s d' = some new') (hrhs : new'.map (·.rhs) = new.map (·.rhs))
    (hoth : ∀ k, k ≠ s → dget k d' = dget k d) : ExInv D0 S0 d' := by
  have hrr0 : dget s D0 = some rr := by rw [← hI.J3 s hs]; exact hrr
  have hsame' : ∀ r ∈ rr, ∀ a b, r.rhs = [a, b] → b ∈ S0 → dget b d' = dget b d := by
    intro r hr a b hrhs' hb
    obtain ⟨g, eg⟩ := hB.par s rr hrr0 r hr b (by rw [hrhs']; simp) hb
    exact hoth b (by rw [eg]; exact suf_ne_self s g)
  have hsame : ∀ r ∈ rr, ∀ a b, r.rhs = [a, b] → b ∈ S0 → dget b d = dget b d := fun _ _ _ _ _ _ => rfl
  have hB' : ∀ pre L, ExA d' S0 (rr.map fun r => pre ++ r.rhs) L ↔ ExA d' S0 (new'.map fun r => pre ++ r.rhs) L := by
    intro pre L
    rw [ex_map_pre pre hrhs]
    exact ex_undoRules_exA hu hsame' pre L
  have hBd : ∀ pre L, ExA d S0 (rr.map fun r => pre ++ r.rhs) L ↔ ExA d S0 (new'.map fun r => pre ++ r.rhs) L := by
    intro pre L
    rw [ex_map_pre pre hrhs]
    exact ex_undoRules_exA hu hsame pre L
  have hT : ∀ ps L, ExA d S0 ps L ↔ ExA d' S0 ps L := by
    intro ps L
    constructor
    · exact ex_transport hrr hs' hoth (fun pre L => (hB' pre L).1)
    · exact ex_transport hs' hrr (fun k hk => (hoth k hk).symm) (fun pre L => (hBd pre L).2)
  refine { all := fun ps L => (hE.all ps L).trans (hT ps L), key := ?_ }
  intro k rs0 hk0
  obtain ⟨rs, hk, hL⟩ := hE.key k rs0 hk0
  by_cases hks : k = s
  · subst hks
    rw [hrr] at hk
    cases hk
    refine ⟨new', hs', fun L => ?_⟩
    have := hB' [] L
    rw [ex_map_nil, ex_map_nil] at this
    exact ((hL L).trans (hT _ L)).trans this
  · exact ⟨rs, by rw [hoth k hks]; exact hk, fun L => (hL L).trans (hT _ L)⟩

end Step

/-- the whole loop, carried next to `undoLoop_inv` -/
theorem ex_undoLoop_inv {terms : List Sym} {D0 : Prods Sym} {S0 : List Sym} (hB : Base terms D0 S0)
    {order : List Sym} (hnd : order.Nodup) (hsorted : order.Pairwise (fun a b => b.nameLen ≤ a.nameLen))
    (hkeys : ∀ x, x ∈ D0.map (·.1) → x ∈ order) :
    ∀ (rest done : List Sym) (d : Prods Sym) (rm : List Sym) (out : Prods Sym × List Sym),
      order = done ++ rest → Inv D0 S0 done d rm → ExInv D0 S0 d → undoLoop terms S0 rest d rm = .ok out →
      ExInv D0 S0 out.1
  | [], done, d, rm, out, _, _, hE, h => by
    rw [undoLoop_nil h]
    exact hE
  | s :: rest, done, d, rm, out, ho, hI, hE, h => by
    obtain ⟨rr, new, rm', hrr, hu, h'⟩ := undoLoop_cons h
    have hU := undoRules_spec hu
    have hs : s ∉ done := by
      rw [ho] at hnd
      have := (List.nodup_append.1 hnd).2.2
      intro hsd
      exact this s hsd s (by simp) rfl
    have hchild : ∀ g, s.suf g ∈ D0.map (·.1) → s.suf g ∈ done := by
      intro g hg
      have hmem := hkeys _ hg
      rw [ho] at hmem hsorted
      simp only [List.mem_append, List.mem_cons] at hmem
      rcases hmem with hmem | hmem | hmem
      · exact hmem
      · exact absurd hmem (suf_ne_self s g)
      · have h1 := (List.pairwise_append.1 hsorted).2.1
        have h2 := (List.pairwise_cons.1 h1).1 _ hmem
        have h3 := nameLen_suf s g
        omega
    have hsk : s ∈ d.map (·.1) := dget_isSome_iff.1 (by rw [hrr]; rfl)
    by_cases hlen : new.length ≠ rr.length
    · rw [if_pos hlen] at h'
      have hI' := inv_step hB hI hs hchild hrr hU (keys_dset_of_mem _ hsk) (dget_dset_self _ _ _) (renum_rhs new)
        (fun k hk => dget_dset_ne _ (fun e => hk e.symm) _)
      have hE' := exInv_step hB hI hE hs hrr hu (dget_dset_self _ _ _) (renum_rhs new)
        (fun k hk => dget_dset_ne _ (fun e => hk e.symm) _)
      exact ex_undoLoop_inv hB hnd hsorted hkeys rest (done ++ [s]) _ _ out (by simp [ho]) hI' hE' h'
    · rw [if_neg hlen] at h'
      have hlen' : new.length = rr.length := Classical.not_not.1 hlen
      have hrm : rm' = [] := by
        apply Classical.byContradiction
        intro hne
        have := (hU.n5 (inv_two hI)).2 hne
        omega
      have hnew := hU.n4 hrm
      have hI' := inv_step hB hI hs hchild hrr hU rfl hrr (by rw [hnew]) (fun _ _ => rfl)
      have hE' := exInv_step hB hI hE hs hrr hu hrr (by rw [hnew]) (fun _ _ => rfl)
      exact ex_undoLoop_inv hB hnd hsorted hkeys rest (done ++ [s]) _ _ out (by simp [ho]) hI' hE' h'

theorem ex_undoLoop_all {terms : List Sym} {D0 : Prods Sym} {S0 : List Sym} (hB : Base terms D0 S0)
    {d' : Prods Sym} {rm : List Sym}
    (h : undoLoop terms S0 (sortBy (fun (a b : Sym) => decide (b.nameLen ≤ a.nameLen)) (D0.map (·.1))) D0 [] =
      .ok (d', rm)) : ExInv D0 S0 d' := by
  have hperm := sortBy_perm (fun (a b : Sym) => decide (b.nameLen ≤ a.nameLen)) (D0.map (·.1))
  have hnd := hperm.nodup_iff.2 hB.nd
  have hsorted : (sortBy (fun (a b : Sym) => decide (b.nameLen ≤ a.nameLen)) (D0.map (·.1))).Pairwise
      (fun a b => b.nameLen ≤ a.nameLen) := by
    have := sortBy_sorted (le := fun (a b : Sym) => decide (b.nameLen ≤ a.nameLen))
      (by intro a b; simp only [decide_eq_true_eq]; omega)
      (by intro a b c; simp only [decide_eq_true_eq]; omega) (D0.map (·.1))
    exact this.imp (by intro a b h; simpa using h)
  exact ex_undoLoop_inv hB hnd hsorted (fun x hx => mem_sortBy.2 hx) _ [] D0 [] (d', rm) rfl (inv_init hB)
    (exInv_init D0 S0) h

/-! ### deleting the inlined helpers -/

/-- helpers occur only last, and a last helper has not been removed -/
def ExGood (S0 rm : List Sym) (p : List Sym) : Prop :=
  (∀ x ∈ p.dropLast, x ∉ S0) ∧ (∀ l, p.getLast? = some l → l ∈ S0 → l ∉ rm)

theorem exGood_append {S0 rm : List Sym} {pre q : List Sym} (hpre : ∀ x ∈ pre, x ∉ S0) (hq : ExGood S0 rm q) :
    ExGood S0 rm (pre ++ q) := by
  by_cases hne : q = []
  · subst hne
    rw [List.append_nil]
    exact ⟨fun x hx => hpre x (mem_of_mem_dropLast' hx),
      fun l hl hlS => absurd hlS (hpre l (List.mem_of_getLast? hl))⟩
  · constructor
    · intro x hx
      rw [List.dropLast_append_of_ne_nil hne, List.mem_append] at hx
      rcases hx with hx | hx
      · exact hpre x hx
      · exact hq.1 x hx
    · intro l hl
      rw [ex_getLast?_append_ne hne] at hl
      exact hq.2 l hl

theorem ex_remove {d G : Prods Sym} {S0 S rm : List Sym} (hS : ∀ x, x ∈ S ↔ x ∈ S0 ∧ x ∉ rm)
    (hG : ∀ k, k ∉ rm → dget k G = dget k d)
    (hgood : ∀ k ∈ S0, ∀ rs, dget k d = some rs → ∀ r ∈ rs, ExGood S0 rm r.rhs)
    {ps L : List (List Sym)} (h : ExA d S0 ps L) : (∀ p ∈ ps, ExGood S0 rm p) → ExA G S ps L := by
  induction h with
  | nil => intro _; exact ExA.nil
  | plain hl _ ih =>
    intro hps
    exact ExA.plain (fun l hlast hlS => hl l hlast ((hS l).1 hlS).1) (ih (fun p hp => hps p (by simp [hp])))
  | @group pre x rs ps L1 L2 hx hg _ _ ih1 ih2 =>
    intro hps
    obtain ⟨g1, g2⟩ := hps (pre ++ [x]) (by simp)
    have hxrm : x ∉ rm := g2 x (by simp) hx
    have hpre : ∀ y ∈ pre, y ∉ S0 := by
      intro y hy
      exact g1 y (by simpa using hy)
    refine ExA.group ((hS x).2 ⟨hx, hxrm⟩) (by rw [hG x hxrm]; exact hg) (ih1 ?_)
      (ih2 (fun p hp => hps p (by simp [hp])))
    intro p hp
    obtain ⟨r, hr, e⟩ := List.mem_map.1 hp
    rw [← e]
    exact exGood_append hpre (hgood x hx rs hg r hr)

/-- `smartUndo` keeps the ordered expansions of the rules of every key that is not a helper -/
theorem ex_smartUndo {terms : List Sym} {D0 : Prods Sym} {S0 : List Sym} {G : Prods Sym} {S : List Sym}
    (hB : Base terms D0 S0) (h : smartUndo terms D0 S0 = .ok (G, S)) :
    ∀ X rs0, dget X D0 = some rs0 → X ∉ S0 → ∃ rs, dget X G = some rs ∧
      ∀ L, ExA D0 S0 (rs0.map (·.rhs)) L → ExA G S (rs.map (·.rhs)) L := by
  unfold smartUndo at h
  simp only at h
  obtain ⟨⟨d', rm⟩, hloop, h⟩ := Except.bind_ok h
  simp only [Except.ok.injEq, Prod.mk.injEq] at h
  obtain ⟨eG, eS⟩ := h
  have hI := undoLoop_all hB hloop
  have hE := ex_undoLoop_all hB hloop
  have hndd : (d'.map (·.1)).Nodup := by rw [hI.K]; exact hB.nd
  obtain ⟨_, hgetG⟩ := ddels_spec rm hndd
  rw [eG] at hgetG
  have hS : ∀ x, x ∈ S ↔ x ∈ S0 ∧ x ∉ rm := by
    intro x; rw [← eS]; simp [List.mem_filter]
  have hG : ∀ k, k ∉ rm → dget k G = dget k d' := by
    intro k hk
    rw [hgetG, if_neg hk]
  have hgood : ∀ k rs, dget k d' = some rs → ∀ r ∈ rs, ExGood S0 rm r.rhs := by
    intro k rs hg r hr
    have hk : k ∈ D0.map (·.1) := by
      rw [← hI.K]; exact dget_isSome_iff.1 (by rw [hg]; rfl)
    exact ⟨hI.L3 k rs hg r hr, fun l hl hlS => (hI.J2 k (mem_sortBy.2 hk) rs hg r hr l hl hlS).1⟩
  intro X rs0 hX hXS
  obtain ⟨rs, hXd, hL⟩ := hE.key X rs0 hX
  have hXrm : X ∉ rm := fun hm => hXS (hI.J1 X hm).1
  refine ⟨rs, by rw [hG X hXrm]; exact hXd, fun L h0 => ?_⟩
  refine ex_remove hS hG (fun k _ => hgood k) ((hL L).1 h0) ?_
  intro p hp
  obtain ⟨r, hr, e⟩ := List.mem_map.1 hp
  rw [← e]
  exact hgood X rs hXd r hr

/-! ### the ordered identity for `factorize` -/

theorem factorize_exA {terms : List Sym} {U G : Prods Sym} {S : List Sym} {smart : Bool}
    (hU : UserWF U) (hterm : ∀ t ∈ terms, t.path = []) (h : factorize terms U smart = .ok (G, S)) :
    ∀ X rulesU, (X, rulesU) ∈ U → ∃ rulesG, dget X G = some rulesG ∧
      ExA G S (rulesG.map (·.rhs)) (rulesU.map (·.rhs)) := by
  unfold factorize at h
  obtain ⟨d, hd, h⟩ := Except.bind_ok h
  split at h
  · cases h
  · rename_i hnd
    have hnd : (d.map (·.1)).Nodup := Classical.not_not.1 hnd
    have hplain := ex_factorizeAll hU hd hnd
    cases smart with
    | false =>
      simp only [Bool.false_eq_true, if_false, Except.ok.injEq, Prod.mk.injEq] at h
      obtain ⟨e1, e2⟩ := h
      subst e1; subst e2
      exact hplain
    | true =>
      simp only [if_true] at h
      intro X rulesU hm
      obtain ⟨rs0, hX, hL⟩ := hplain X rulesU hm
      have hXS : X ∉ (d.map (·.1)).filter Sym.isSuf := by
        intro hmem
        have h1 := (List.mem_filter.1 hmem).2
        have h2 := path_nil_not_isSuf (hU.keyUser X (List.mem_map.2 ⟨(X, rulesU), hm, rfl⟩))
        rw [h1] at h2
        cases h2
      obtain ⟨rs, hXG, hLG⟩ := ex_smartUndo (base_of_factorizeAll hU hterm hd hnd) h X rs0 hX hXS
      exact ⟨rs, hXG, hLG _ hL⟩

/-- **The ordered identity.**  Reading the rules of `X` in the factorised dictionary `G` left to right and expanding
helper symbols recursively reproduces the user's alternatives of `X` in the user's order. -/
theorem factorize_expands {terms : List Sym} {U G : Prods Sym} {S : List Sym} {smart : Bool}
    (hU : UserWF U) (hterm : ∀ t ∈ terms, t.path = []) (h : factorize terms U smart = .ok (G, S)) :
    ∀ X rulesU, (X, rulesU) ∈ U → ∃ rulesG, dget X G = some rulesG ∧
      ExpandsAll G S (rulesG.map (·.rhs)) (rulesU.map (·.rhs)) := by
  intro X rulesU hm
  obtain ⟨rulesG, h1, h2⟩ := factorize_exA hU hterm h X rulesU hm
  exact ⟨rulesG, h1, expandsAll_of_exA h2⟩

end LL
