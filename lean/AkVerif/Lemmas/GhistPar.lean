import AkVerif.Lemmas.GhistVals
import AkVerif.Lemmas.GhistFinal
/-!
The parent builds of a build, in terms of git ancestry: they are the nearest builds of the same branch below it
(`BrPar`), carried from the value-level invariant `VInv` through the branch loop to the final graph.
-/
namespace Ghist
open Ak

section
variable {π β : Type} {h : Hist π}

theorem visit_vinv (hT : h.Topo) {pl : Plug π β} {head : Nat} {fuel : Nat} {s s' : St β}
    {acc acc' : List Nat} {c : Nat} (w : WF h s) (hacc : ∀ r ∈ acc, r < s.rp.rcs.length) (v : VInv s)
    {rel : List Nat} (hv : visit h pl head fuel rel (s, acc) c = .ok (s', acc')) : VInv s' := by
  have H : VisitHyps h pl head (fun s => WF h s ∧ VInv s)
      (fun s _ acc => ∀ r ∈ acc, r < s.rp.rcs.length) (fun s s' => s.rp.rcs.length ≤ s'.rp.rcs.length)
      (fun _ => True) :=
    { Rrefl := (wf_hyps h pl head).Rrefl
      Rtrans := (wf_hyps h pl head).Rtrans
      Qmono := by
        intro s s' ds acc hP hP' hR hQ
        exact (wf_hyps h pl head).Qmono (ds := ds) hP.1 hP'.1 hR hQ
      Qnil := fun s hP => (wf_hyps h pl head).Qnil s hP.1
      Qcls := by
        intro s ds acc c cl hP hQ hV hc
        exact (wf_hyps h pl head).Qcls (ds := ds) hP.1 hQ hV hc
      Vstep := fun _ _ _ => trivial
      Hfin := by
        intro rel s c cm fr s' hP _ hcl hcm hQ hf
        obtain ⟨w', hle⟩ := finish_wf hP.1 hQ hcl hcm hf
        exact ⟨⟨w', finish_vinv hP.1 w' hP.2 hQ hf⟩, hle⟩ }
  exact (visit_ind hT H fuel s [] acc c s' acc' ⟨w, v⟩ hacc trivial hv).1.2

theorem vinv_init {rp : Repo β} (w : WF h ⟨rp, Br.empty⟩) : VInv (⟨rp, Br.empty⟩ : St β) := by
  have hnc : ∀ i, isCurBuild rp i = false := by
    intro i
    cases hc : isCurBuild rp i with
    | false => rfl
    | true => have := (w.curIff i).mpr hc; simp [Br.empty] at this
  refine ⟨?_, ?_, ?_⟩
  · intro j a hl; simp [Br.empty] at hl
  · intro r v hl; simp [Br.empty] at hl
  · intro b _ hc; simp only [CurB] at hc; rw [hnc] at hc; cases hc

/-- the commit of a build -/
def BuildAt (rcs : List RC) (bd : RB β) (e : Nat) : Prop :=
  bd.rcommit = some bd.iid ∧ ∃ rc, rcs[bd.iid]? = some rc ∧ rc.commit = e

/-- the parent builds of every build of the branch are the nearest builds of the branch below it -/
def BrPar (h : Hist π) (rcs : List RC) (rb : RBranch β) : Prop :=
  ∀ bd ∈ rb.rbuilds, ∀ e, BuildAt rcs bd e → bd.parents.Nodup ∧ ∀ p, p ∈ bd.parents ↔
    ∃ bp ∈ rb.rbuilds, bp.iid = p ∧ ∃ ep, BuildAt rcs bp ep ∧ ep ≠ e ∧ Anc h ep e ∧
      ∀ bq ∈ rb.rbuilds, ∀ eq, BuildAt rcs bq eq → eq ≠ ep → eq ≠ e → Anc h eq e → ¬ Anc h ep eq

theorem BuildAt.ext {rcs ext : List RC} {bd : RB β} (hlt : bd.rcommit.isSome = true → bd.iid < rcs.length) (e : Nat) :
    BuildAt (rcs ++ ext) bd e ↔ BuildAt rcs bd e := by
  constructor
  · rintro ⟨h1, rc, h2, h3⟩
    have := hlt (by rw [h1]; rfl)
    rw [List.getElem?_append_left this] at h2
    exact ⟨h1, rc, h2, h3⟩
  · rintro ⟨h1, rc, h2, h3⟩
    exact ⟨h1, rc, by rw [List.getElem?_append_left (List.getElem?_eq_some_iff.mp h2).1]; exact h2, h3⟩

theorem BrPar.ext {rcs : List RC} {rb : RBranch β}
    (hb : ∀ bd ∈ rb.rbuilds, bd.rcommit.isSome = true → bd.iid < rcs.length) (s : BrPar h rcs rb) (ext : List RC) :
    BrPar h (rcs ++ ext) rb := by
  intro bd hbd e he
  have he' := (BuildAt.ext (hb bd hbd) e).mp he
  obtain ⟨h1, h2⟩ := s bd hbd e he'
  refine ⟨h1, fun p => ?_⟩
  rw [h2 p]
  constructor
  · rintro ⟨bp, hbp, hp, ep, h3, h4, h5, h6⟩
    refine ⟨bp, hbp, hp, ep, (BuildAt.ext (hb bp hbp) ep).mpr h3, h4, h5, ?_⟩
    intro bq hbq eq hq
    exact h6 bq hbq eq ((BuildAt.ext (hb bq hbq) eq).mp hq)
  · rintro ⟨bp, hbp, hp, ep, h3, h4, h5, h6⟩
    refine ⟨bp, hbp, hp, ep, (BuildAt.ext (hb bp hbp) ep).mp h3, h4, h5, ?_⟩
    intro bq hbq eq hq
    exact h6 bq hbq eq ((BuildAt.ext (hb bq hbq) eq).mpr hq)

/-- reachability between the report commits of two selected commits is git ancestry -/
theorem rreach_iff_anc {st : St β} (w : WF h st) (sm : Sem h st.rp) {x r : Nat} {rcx rcr : RC}
    (hx : st.rp.rcs[x]? = some rcx) (hr : st.rp.rcs[r]? = some rcr) :
    RReach st.rp.rcs x r ↔ Anc h rcx.commit rcr.commit := by
  have hselr : selOf st.rp rcr.commit r := w.rcSel r rcr hr
  have hcl := sm.selCls _ _ hselr
  have := sm.reach _ _ hcl x
  simp only [clsList, List.mem_singleton, exists_eq_left] at this
  rw [this]
  constructor
  · rintro ⟨y, hy, hsy⟩
    obtain ⟨rc', h1, h2⟩ := w.selOk y x hsy
    rw [hx] at h1; cases h1
    rw [h2]; exact hy
  · intro ha
    exact ⟨rcx.commit, ha, w.rcSel x rcx hx⟩

/-- reading one branch: the parent builds recorded in its builds are the nearest builds below -/
theorem readBranch_par (hT : h.Topo) {pl : Plug π β} {pre : List Branch} {rp0 : Repo β} {b : Branch}
    {rp' : Repo β} {rb : RBranch β} (inv : RepoInv h pre rp0)
    (hr : readBranch h pl pre.isEmpty rp0 b = .ok (rp', rb)) : BrPar h rp'.rcs rb := by
  obtain ⟨hc0, st, rheads, hhc0, hv, he⟩ := readBranch_inv hr
  have H := attr_hyps (h := h) hT pl b.head rp0
  have hP0 : (WF h (⟨rp0, Br.empty⟩ : St β) ∧ Sem h rp0) ∧ Attr h rp0 b.head ⟨rp0, Br.empty⟩ :=
    ⟨⟨inv.wf, inv.sem⟩, attr_init rp0 b.head inv.wf⟩
  obtain ⟨⟨⟨w, sm⟩, _⟩, _, _⟩ := visit_ind hT H h.commits.length ⟨rp0, Br.empty⟩ [] [] b.head st rheads hP0
    (H.Qnil _ hP0) (Anc.refl _) hv
  have v := visit_vinv hT inv.wf (by simp) (vinv_init inv.wf) hv
  have hn := visit_buildsNormal hT inv.normal hv
  have hs := endBranch_spec he
  obtain ⟨seen, curBuilds, _, hcb, hrbuilds, _⟩ := hs.seen
  obtain ⟨hids, hmem⟩ := buildsOf_spec hcb
  rw [hs.rcs]
  -- the builds of the branch and the builds of the current branch in the DFS state
  have Fb : ∀ bx ∈ curBuilds, bx ∈ st.rp.builds ∧ CurB st.rp bx.iid ∧
      ∃ rcx, st.rp.rcs[bx.iid]? = some rcx ∧ BuildAt st.rp.rcs bx rcx.commit := by
    intro bx hbx
    have h1 := hmem bx hbx
    have h2 : CurB st.rp bx.iid := (w.curIff bx.iid).mp (by rw [← hids]; exact List.mem_map.mpr ⟨bx, hbx, rfl⟩)
    have h3 := w.bldLt bx h1
    exact ⟨h1, h2, st.rp.rcs[bx.iid], List.getElem?_eq_getElem h3, hn bx h1, _, List.getElem?_eq_getElem h3, rfl⟩
  have Fa : ∀ bx ∈ rb.rbuilds, ∀ ex, BuildAt st.rp.rcs bx ex → bx ∈ curBuilds := by
    intro bx hbx ex hex
    rcases hrbuilds with h1 | ⟨fake, h1, h2, _⟩
    · rw [h1] at hbx; exact hbx
    · rw [h1] at hbx
      rcases List.mem_append.mp hbx with h3 | h3
      · exact h3
      · simp at h3; subst h3; have := hex.1; rw [h2] at this; cases this
  have Fsub : ∀ bx ∈ curBuilds, bx ∈ rb.rbuilds := by
    intro bx hbx
    rcases hrbuilds with h1 | ⟨fake, h1, _, _⟩
    · rw [h1]; exact hbx
    · rw [h1]; exact List.mem_append_left _ hbx
  have Fc : ∀ x, CurB st.rp x → ∃ bx ∈ curBuilds, bx.iid = x := by
    intro x hx
    have : x ∈ st.br.cur := (w.curIff x).mpr hx
    rw [← hids] at this
    obtain ⟨bx, hbx, rfl⟩ := List.mem_map.mp this
    exact ⟨bx, hbx, rfl⟩
  have Finj : ∀ {i j : Nat} {ri rj : RC}, st.rp.rcs[i]? = some ri → st.rp.rcs[j]? = some rj →
      ri.commit = rj.commit → i = j := by
    intro i j ri rj hi hj hc
    have h1 := w.rcSel i ri hi
    have h2 := w.rcSel j rj hj
    rw [hc, h2] at h1; cases h1; rfl
  intro bd hbd e hbe
  have hbdc := Fa bd hbd e hbe
  obtain ⟨hbdb, hbdcur, rcd, hrcd, _⟩ := Fb bd hbdc
  obtain ⟨_, rc0, hrc0, hce⟩ := hbe
  rw [hrcd] at hrc0; cases hrc0
  obtain ⟨hnd, hpar⟩ := v.parents bd hbdb hbdcur
  refine ⟨hnd, fun p => ?_⟩
  rw [hpar p]
  constructor
  · rintro ⟨⟨hcp, hne, hrr⟩, hmax⟩
    obtain ⟨bp, hbp, rfl⟩ := Fc p hcp
    obtain ⟨_, _, rcp, hrcp, hbap⟩ := Fb bp hbp
    refine ⟨bp, Fsub bp hbp, rfl, rcp.commit, hbap, ?_, ?_, ?_⟩
    · intro heq; apply hne; exact Finj hrcp hrcd (by rw [heq, hce])
    · rw [← hce]; exact (rreach_iff_anc w sm hrcp hrcd).mp hrr
    · intro bq hbq eq hbaq hne1 hne2 hanc hcontra
      have hbqc := Fa bq hbq eq hbaq
      obtain ⟨_, hcq, rcq, hrcq, _⟩ := Fb bq hbqc
      obtain ⟨_, rcq', hrcq', hcq'⟩ := hbaq
      rw [hrcq] at hrcq'; cases hrcq'
      apply hmax bq.iid ⟨hcq, ?_, ?_⟩ ?_ ?_
      · intro heq; apply hne2; rw [← hcq', ← hce]
        have : rcq = rcd := by rw [heq] at hrcq; rw [hrcq] at hrcd; exact Option.some.inj hrcd
        rw [this]
      · exact (rreach_iff_anc w sm hrcq hrcd).mpr (by rw [hcq', hce]; exact hanc)
      · intro heq; apply hne1; rw [← hcq']
        have : rcq = rcp := by rw [heq] at hrcq; rw [hrcq] at hrcp; exact Option.some.inj hrcp
        rw [this]
      · exact (rreach_iff_anc w sm hrcp hrcq).mpr (by rw [hcq']; exact hcontra)
  · rintro ⟨bp, hbp, rfl, ep, hbap, hne, hanc, hmax⟩
    have hbpc := Fa bp hbp ep hbap
    obtain ⟨_, hcp, rcp, hrcp, _⟩ := Fb bp hbpc
    obtain ⟨_, rcp', hrcp', hcp'⟩ := hbap
    rw [hrcp] at hrcp'; cases hrcp'
    refine ⟨⟨hcp, ?_, ?_⟩, ?_⟩
    · intro heq; apply hne; rw [← hcp', ← hce]
      have : rcp = rcd := by rw [heq] at hrcp; rw [hrcp] at hrcd; exact Option.some.inj hrcd
      rw [this]
    · exact (rreach_iff_anc w sm hrcp hrcd).mpr (by rw [hcp', hce]; exact hanc)
    · rintro q ⟨hcq, hqne, hqr⟩ hqp hpq
      obtain ⟨bq, hbq, rfl⟩ := Fc q hcq
      obtain ⟨_, _, rcq, hrcq, hbaq⟩ := Fb bq hbq
      apply hmax bq (Fsub bq hbq) rcq.commit hbaq
      · intro heq; apply hqp; exact Finj hrcq hrcp (by rw [heq, hcp'])
      · intro heq; apply hqne; exact Finj hrcq hrcd (by rw [heq, hce])
      · rw [← hce]; exact (rreach_iff_anc w sm hrcq hrcd).mp hqr
      · rw [← hcp']; exact (rreach_iff_anc w sm hrcp hrcq).mp hpq

/-- the parent builds in the final graph -/
theorem rgraph_par (hT : h.Topo) {pl : Plug π β} {g : Graph β} {mt : Option Nat} (hg : rgraphNW h pl mt = .ok g) :
    ∀ rb ∈ g.all, BrPar h g.rcs rb := by
  unfold rgraphNW at hg
  split at hg
  · cases hg
  · rename_i rp rbs hr
    cases hg
    have hstep : ∀ (pre : List Branch) (rp : Repo β) (b : Branch) (rp' : Repo β) (rb : RBranch β),
        RepoInv h pre rp → readBranch h pl pre.isEmpty rp b = .ok (rp', rb) →
        RepoInv h (pre ++ [b]) rp' ∧
          (BrPar h rp'.rcs rb ∧ ∀ bd ∈ rb.rbuilds, bd.rcommit.isSome = true → bd.iid < rp'.rcs.length) ∧
          ∃ ext, rp'.rcs = rp.rcs ++ ext := by
      intro pre rp b rp' rb inv hrb
      obtain ⟨h1, h2, h3⟩ := readBranch_sem hT inv hrb
      exact ⟨h1, ⟨readBranch_par hT inv hrb, fun bd hbd hs => (h2.bound bd hbd).2 hs⟩, h3⟩
    obtain ⟨_, _, hlen, hF⟩ := readBranches_ind2 (RepoInv h)
      (fun _ _ rp' rb => BrPar h rp'.rcs rb ∧ ∀ bd ∈ rb.rbuilds, bd.rcommit.isSome = true → bd.iid < rp'.rcs.length)
      (fun rp rp' => ∃ ext, rp'.rcs = rp.rcs ++ ext) (fun rp => ⟨[], by simp⟩)
      (by
        rintro a b c ⟨e1, h1⟩ ⟨e2, h2⟩
        exact ⟨e1 ++ e2, by rw [h2, h1]; simp⟩)
      hstep (branchesOf h) [] Repo.empty rp rbs repoInv_empty hr
    intro rb hrb
    obtain ⟨j, hj⟩ := List.mem_iff_getElem?.mp hrb
    have hjlt : j < (branchesOf h).length := by
      rw [← hlen]; exact (List.getElem?_eq_some_iff.mp hj).1
    obtain ⟨rpj, ⟨h1, h2⟩, ⟨ext, hext⟩⟩ := hF j _ rb (List.getElem?_eq_getElem hjlt) hj
    rw [hext]
    exact h1.ext h2 ext

end

end Ghist
