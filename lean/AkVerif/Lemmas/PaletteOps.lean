import AkVerif.Lemmas.PaletteInv
/-!
Invariant of the palette state machine (C10) — part 3: rendering, memory release, configurations,
whole histories; and the characterisation of the colours a rendering uses.
-/
namespace PaletteState
open Ak Render

/-! ### the enum cell cache -/

theorem fillOne_inv {cfg : Cfg} {s : State} (hinv : Inv cfg s) (p : Addr) (t : Tag) : Inv cfg (fillOne s p t) := by
  unfold fillOne
  split
  · rename_i e v c i
    split
    · rename_i a ec hsub hen
      split
      · rename_i pa hmiss hpa
        refine ⟨hinv.confs, hinv.pals, hinv.live, hinv.cache, hinv.nc, hinv.subs, ?_⟩
        intro hko e' ec' a' v' cols h1 h2
        simp only [] at h1
        by_cases he : e' = e
        · subst he
          rw [lookup_cons_eq] at h1; cases h1
          by_cases hk : (a', v') = (a, v)
          · cases hk; rw [lookup_cons_eq] at h2; cases h2; exact ⟨pa, hpa, rfl⟩
          · rw [lookup_cons_ne _ _ hk] at h2; exact hinv.enums hko e' ec a' v' cols hen h2
        · rw [lookup_cons_ne _ _ he, lookup_filter_key (fun x => x ≠ e)] at h1
          simp only [ne_eq, he, not_false_eq_true, decide_true, if_true] at h1
          exact hinv.enums hko e' ec' a' v' cols h1 h2
      · exact hinv
    · exact hinv
  · exact hinv

theorem fillOne_fields (s : State) (p : Addr) (t : Tag) :
    (fillOne s p t).confs = s.confs ∧ (fillOne s p t).heap = s.heap ∧ (fillOne s p t).subs = s.subs := by
  unfold fillOne
  split
  · split
    · split <;> simp
    · simp
  · simp

theorem fill_inv {cfg : Cfg} (p : Addr) : ∀ (ts : List Tag) (s : State), Inv cfg s →
    Inv cfg (ts.foldl (fun st t => fillOne st p t) s) ∧ (ts.foldl (fun st t => fillOne st p t) s).confs = s.confs := by
  intro ts
  induction ts with
  | nil => intro s h; exact ⟨h, rfl⟩
  | cons t ts ih =>
    intro s h
    obtain ⟨h1, h2⟩ := ih (fillOne s p t) (fillOne_inv h p t)
    exact ⟨h1, h2.trans (fillOne_fields s p t).1⟩

/-! ### the colours of a rendering -/

def stableAcc (cfg : Cfg) (ci : ClassInfo) (x : SyntId) : Bool :=
  (cfg.builtin.lookup x).isSome || (defaultIds ci).contains x || !(allDefaultIds cfg).contains x

theorem stableAcc_iff (cfg : Cfg) (ci : ClassInfo) (x : SyntId) : stableAcc cfg ci x = true ↔ StableAcc cfg ci x := by
  simp [stableAcc, StableAcc, or_assoc]

/-- the accessor the tag names does not wait for another palette class -/
def tagStable (cfg : Cfg) : Tag → Bool
  | .plain => true
  | .pal cls i | .enum _ _ cls i =>
    match cfg.classes[cls]? with
    | none => true
    | some ci =>
      match ci.localSyntax[i]? with
      | none => true
      | some x => stableAcc cfg ci x

/-- the colour of a tag as a function of the configuration alone -/
def pureColor (cfg : Cfg) (c : Conf) (nc : Bool) : Tag → Color
  | .plain => []
  | .pal cls i | .enum _ _ cls i =>
    if nc then [] else
    match cfg.classes[cls]? with
    | none => []
    | some ci =>
      match ci.localSyntax[i]? with
      | none => []
      | some x => getColor cfg.dfltId c x

/-- a palette of the kind the rendering asked for, seen through the invariant -/
theorem pal_color {cfg : Cfg} {s : State} (hinv : Inv cfg s) {k : ConfId} {c : Conf} {nc : Bool}
    (hk : s.confs.lookup k = some c) {a : Addr} {q : Pal} (hq : s.heap.lookup a = some q)
    (hnc : q.noColor = nc) (hconf : nc = false → q.conf = k) {i : Nat} {col : Color}
    (hcol : q.colors[i]? = some col) (hst : nc = false → c.closed = true ∧ tagStable cfg (.pal q.cls i) = true) :
    col = pureColor cfg c nc (.pal q.cls i) := by
  obtain ⟨ci, hci, hlen, _, hncs, hcols⟩ := hinv.pals a q hq
  cases nc with
  | true =>
    simp only [pureColor, if_true]
    exact hncs hnc col (List.mem_of_getElem? hcol)
  | false =>
    obtain ⟨hcl, hstb⟩ := hst rfl
    have hi : i < ci.localSyntax.length := by
      rw [← hlen]
      exact (List.getElem?_eq_some_iff.mp hcol).1
    obtain ⟨x, hx⟩ : ∃ x, ci.localSyntax[i]? = some x := ⟨ci.localSyntax[i], List.getElem?_eq_getElem hi⟩
    simp only [pureColor, Bool.false_eq_true, if_false, hci, hx]
    simp only [tagStable, hci, hx] at hstb
    have := hcols hnc c (by rw [hconf rfl]; exact hk)
    exact this.2 hcl i x col hx hcol ((stableAcc_iff cfg ci x).mp hstb)

theorem nth_some {l : List Color} {i : Nat} {col : Color} (h : nth l i = .ok col) : l[i]? = some col := by
  unfold nth at h
  split at h
  · rename_i c hc; cases h; exact hc
  · cases h

theorem tagColor_pure {cfg : Cfg} (hko : cfg.keyByObj = true) {s : State} (hinv : Inv cfg s) {k : ConfId} {c : Conf}
    {nc : Bool} (hk : s.confs.lookup k = some c) {p : Addr} {pp : Pal} (hp : s.heap.lookup p = some pp)
    (hpnc : pp.noColor = nc) (hpconf : nc = false → pp.conf = k) (t : Tag) {col : Color}
    (hst : nc = false → c.closed = true ∧ tagStable cfg t = true)
    (h : tagColor s p pp.cls t = .ok col) : col = pureColor cfg c nc t := by
  -- the palette that serves class `cls`: the object's own one or a memoised sub-palette
  have sub : ∀ cls a, (if cls = pp.cls then Except.ok p else subAddr s p cls) = .ok a ∨ subAddr s p cls = .ok a →
      ∃ q, s.heap.lookup a = some q ∧ q.cls = cls ∧ q.noColor = nc ∧ (nc = false → q.conf = k) := by
    intro cls a ha
    have hsub : subAddr s p cls = .ok a → ∃ q, s.heap.lookup a = some q ∧ q.cls = cls ∧ q.noColor = nc ∧
        (nc = false → q.conf = k) := by
      intro h1
      unfold subAddr at h1
      split at h1
      · rename_i b hb
        cases h1
        obtain ⟨pp', pb, e1, e2, e3, e4, e5⟩ := hinv.subs p cls a hb
        rw [hp] at e1; cases e1
        refine ⟨pb, e2, e3, e4.trans hpnc, ?_⟩
        intro hf
        rw [e5 (by rw [hpnc]; exact hf)]; exact hpconf hf
      · cases h1
    rcases ha with ha | ha
    · split at ha
      · rename_i e; cases ha; exact ⟨pp, hp, e.symm, hpnc, hpconf⟩
      · exact hsub ha
    · exact hsub ha
  cases t with
  | plain => simp [tagColor] at h; subst h; rfl
  | pal cls i =>
    simp only [tagColor, bind, Except.bind] at h
    cases ha : (if cls = pp.cls then Except.ok p else subAddr s p cls) with
    | error e => simp [ha] at h
    | ok a =>
      simp only [ha, getPal] at h
      obtain ⟨q, hq, hqc, hqn, hqk⟩ := sub cls a (Or.inl ha)
      simp only [hq] at h
      have := pal_color hinv hk hq hqn hqk (nth_some h) (by rw [hqc]; exact hst)
      rw [hqc] at this; exact this
  | enum e v cls i =>
    simp only [tagColor, bind, Except.bind] at h
    cases ha : subAddr s p cls with
    | error er => simp [ha] at h
    | ok a =>
      simp only [ha] at h
      obtain ⟨q, hq, hqc, hqn, hqk⟩ := sub cls a (Or.inr ha)
      have hst' : nc = false → c.closed = true ∧ tagStable cfg (.pal q.cls i) = true := by
        intro hf; rw [hqc]; exact hst hf
      have hgoal : ∀ col', q.colors[i]? = some col' → col' = pureColor cfg c nc (.enum e v cls i) := by
        intro col' hc
        have := pal_color hinv hk hq hqn hqk hc hst'
        rw [hqc] at this; exact this
      split at h
      · cases h
      · rename_i ec hen
        split at h
        · rename_i cols hhit
          obtain ⟨q', hq', hcols⟩ := hinv.enums hko e ec a v cols hen hhit
          rw [hq] at hq'; cases hq'
          rw [hcols] at h
          exact hgoal col (nth_some h)
        · simp only [getPal, hq] at h
          exact hgoal col (nth_some h)

theorem colorChunks_pure {cfg : Cfg} (hko : cfg.keyByObj = true) {s : State} (hinv : Inv cfg s) {k : ConfId} {c : Conf}
    {nc : Bool} (hk : s.confs.lookup k = some c) {p : Addr} {pp : Pal} (hp : s.heap.lookup p = some pp)
    (hpnc : pp.noColor = nc) (hpconf : nc = false → pp.conf = k) :
    ∀ (chs : List SChunk) (out : List Chunk),
      (nc = false → c.closed = true ∧ ∀ ch ∈ chs, tagStable cfg ch.tag = true) →
      colorChunks s p pp.cls chs = .ok out → out = paintChunks (pureColor cfg c nc) chs := by
  intro chs
  induction chs with
  | nil => intro out _ h; simp [colorChunks] at h; subst h; rfl
  | cons ch rest ih =>
    intro out hst h
    simp only [colorChunks, bind, Except.bind] at h
    cases h1 : tagColor s p pp.cls ch.tag with
    | error e => simp [h1] at h
    | ok col =>
      simp only [h1] at h
      cases h2 : colorChunks s p pp.cls rest with
      | error e => simp [h2] at h
      | ok cs =>
        simp only [h2] at h
        cases h
        have e1 := tagColor_pure hko hinv hk hp hpnc hpconf ch.tag
          (fun hf => ⟨(hst hf).1, (hst hf).2 ch (by simp)⟩) h1
        have e2 := ih cs (fun hf => ⟨(hst hf).1, fun x hx => (hst hf).2 x (by simp [hx])⟩) h2
        simp [paintChunks, e1] at e2 ⊢
        exact e2

theorem colorLines_pure {cfg : Cfg} (hko : cfg.keyByObj = true) {s : State} (hinv : Inv cfg s) {k : ConfId} {c : Conf}
    {nc : Bool} (hk : s.confs.lookup k = some c) {p : Addr} {pp : Pal} (hp : s.heap.lookup p = some pp)
    (hpnc : pp.noColor = nc) (hpconf : nc = false → pp.conf = k) :
    ∀ (ls : List SLine) (out : List (List Chunk)),
      (nc = false → c.closed = true ∧ ∀ l ∈ ls, ∀ ch ∈ l.chunks, tagStable cfg ch.tag = true) →
      colorLines s p pp.cls ls = .ok out → out = paintLines (pureColor cfg c nc) ls := by
  intro ls
  induction ls with
  | nil => intro out _ h; simp [colorLines] at h; subst h; rfl
  | cons l rest ih =>
    intro out hst h
    simp only [colorLines, bind, Except.bind] at h
    cases h1 : colorChunks s p pp.cls l.chunks with
    | error e => simp [h1] at h
    | ok cs =>
      simp only [h1] at h
      cases h2 : colorLines s p pp.cls rest with
      | error e => simp [h2] at h
      | ok lsout =>
        simp only [h2] at h
        cases h
        have e1 := colorChunks_pure hko hinv hk hp hpnc hpconf l.chunks cs
          (fun hf => ⟨(hst hf).1, (hst hf).2 l (by simp)⟩) h1
        have e2 := ih lsout (fun hf => ⟨(hst hf).1, fun x hx => (hst hf).2 x (by simp [hx])⟩) h2
        simp only [paintLines, List.map_cons, paintLine] at e2 ⊢
        rw [← e2, e1]

/-- `render`: the invariant survives, and the output is the shape painted with the colours that
the configuration (as it is after the rendering) gives — for every no-colour rendering, and for
coloured renderings under a configuration whose descriptions were all resolved at creation -/
theorem render_spec {cfg : Cfg} (hcfg : cfgOk cfg = true) (hko : cfg.keyByObj = true) {alloc : Alloc}
    (hal : ValidAlloc alloc) {k : ConfId} {nc : Bool} {sh : Shape} {s s' : State} {out : List (List Chunk)}
    (hinv : Inv cfg s) (h : render cfg alloc k nc sh s = .ok (s', out)) :
    Inv cfg s' ∧
    ∃ c c', s.confs.lookup k = some c ∧ s'.confs.lookup k = some c' ∧ c'.closed = c.closed ∧ c'.noColor = c.noColor ∧
      ((nc = false → c.closed = true ∧ ∀ t ∈ sh.tags, tagStable cfg t = true) →
        out = paintLines (pureColor cfg c' nc) sh.lines) := by
  unfold render at h
  simp only [bind, Except.bind] at h
  cases h1 : mkPalette cfg alloc sh.top k nc s with
  | error e => simp [h1] at h
  | ok r =>
    obtain ⟨s1, p⟩ := r
    simp only [h1] at h
    obtain ⟨hinv1, hfr1, pp, hp1, hpc, hpn, hpk⟩ := mkPalette_spec hcfg hal hinv h1
    cases h2 : getSubs cfg alloc p sh.subs s1 with
    | error e => simp [h2] at h
    | ok s2 =>
      simp only [h2] at h
      obtain ⟨hinv2, hfr2⟩ := getSubs_spec hcfg hal p sh.subs s1 s2 hinv1 h2
      cases h3 : colorLines s2 p sh.top sh.lines with
      | error e => simp [h3] at h
      | ok lines =>
        simp only [h3] at h
        cases h
        obtain ⟨hinv3, hconfs3⟩ := fill_inv (cfg := cfg) p sh.tags s2 hinv2
        refine ⟨hinv3, ?_⟩
        -- the configuration existed before (mkPalette read it)
        have hk0 : ∃ c, s.confs.lookup k = some c := by
          unfold mkPalette at h1
          simp only [bind, Except.bind, getClass, getConf] at h1
          cases hci : cfg.classes[sh.top]? with
          | none => simp [hci] at h1
          | some ci =>
            cases hk : s.confs.lookup k with
            | none => simp [hci, hk] at h1
            | some c => exact ⟨c, rfl⟩
        obtain ⟨c, hk⟩ := hk0
        obtain ⟨c2, hk2, hcl2, hnc2⟩ := (hfr1.trans hfr2).confs k c hk
        refine ⟨c, c2, hk, by rw [hconfs3]; exact hk2, hcl2, hnc2, ?_⟩
        intro hst
        have hp2 := hfr2.heap p pp hp1
        rw [← hpc] at h3
        apply colorLines_pure hko hinv2 hk2 hp2 hpn hpk sh.lines out _ h3
        intro hf
        refine ⟨by rw [hcl2]; exact (hst hf).1, ?_⟩
        intro l hl ch hch
        apply (hst hf).2
        simp only [Shape.tags, List.mem_flatMap, List.mem_map]
        exact ⟨l, hl, ch, hch, rfl⟩

end PaletteState
