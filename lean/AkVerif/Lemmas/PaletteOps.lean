import AkVerif.Lemmas.PaletteInv
/-!
Invariant of the palette state machine (C10) — part 3: rendering, memory release, configurations,
whole histories; and the characterisation of the colours a rendering uses.
-/
namespace PaletteState
open Ak Render

/-! ### the enum cell cache -/

theorem fillOne_inv {cfg : Cfg} {s : State} (hinv : Inv cfg s) (p : Addr) (t : Tag) : Inv cfg (fillOne s p t) := by
  unfold fillOne
  split
  · rename_i e v c i
    split
    · rename_i a ec hsub hen
      split
      · rename_i pa hmiss hpa
        refine ⟨hinv.confs, hinv.pals, hinv.live, hinv.cache, hinv.nc, hinv.subs, ?_, hinv.cur, hinv.subcur, hinv.glob, hinv.gp⟩
        intro hko e' ec' a' v' cols h1 h2
        simp only [] at h1
        by_cases he : e' = e
        · subst he
          rw [lookup_cons_eq] at h1; cases h1
          by_cases hk : (a', v') = (a, v)
          · cases hk; rw [lookup_cons_eq] at h2; cases h2; exact ⟨pa, hpa, rfl⟩
          · rw [lookup_cons_ne _ _ hk] at h2; exact hinv.enums hko e' ec a' v' cols hen h2
        · rw [lookup_cons_ne _ _ he, lookup_filter_key (fun x => x ≠ e)] at h1
          simp only [ne_eq, he, not_false_eq_true, decide_true, if_true] at h1
          exact hinv.enums hko e' ec' a' v' cols h1 h2
      · exact hinv
    · exact hinv
  · exact hinv

theorem fillOne_fields (s : State) (p : Addr) (t : Tag) :
    (fillOne s p t).confs = s.confs ∧ (fillOne s p t).heap = s.heap ∧ (fillOne s p t).subs = s.subs := by
  unfold fillOne
  split
  · split
    · split <;> simp
    · simp
  · simp

theorem fill_inv {cfg : Cfg} (p : Addr) : ∀ (ts : List Tag) (s : State), Inv cfg s →
    Inv cfg (ts.foldl (fun st t => fillOne st p t) s) ∧ (ts.foldl (fun st t => fillOne st p t) s).confs = s.confs := by
  intro ts
  induction ts with
  | nil => intro s h; exact ⟨h, rfl⟩
  | cons t ts ih =>
    intro s h
    obtain ⟨h1, h2⟩ := ih (fillOne s p t) (fillOne_inv h p t)
    exact ⟨h1, h2.trans (fillOne_fields s p t).1⟩

/-! ### the colours of a rendering -/

def stableAcc (cfg : Cfg) (ci : ClassInfo) (x : SyntId) : Bool :=
  (cfg.builtin.lookup x).isSome || (defaultIds ci).contains x || !(allDefaultIds cfg).contains x

theorem stableAcc_iff (cfg : Cfg) (ci : ClassInfo) (x : SyntId) : stableAcc cfg ci x = true ↔ StableAcc cfg ci x := by
  simp [stableAcc, StableAcc, or_assoc]

/-- the accessor the tag names does not wait for another palette class -/
def tagStable (cfg : Cfg) : Tag → Bool
  | .plain => true
  | .pal cls i | .enum _ _ cls i =>
    match cfg.classes[cls]? with
    | none => true
    | some ci =>
      match ci.localSyntax[i]? with
      | none => true
      | some x => stableAcc cfg ci x

/-- the colour of a tag as a function of the configuration alone -/
def pureColor (cfg : Cfg) (c : Conf) (nc : Bool) : Tag → Color
  | .plain => []
  | .pal cls i | .enum _ _ cls i =>
    if nc then [] else
    match cfg.classes[cls]? with
    | none => []
    | some ci =>
      match ci.localSyntax[i]? with
      | none => []
      | some x => getColor cfg.dfltId c x

/-- the tag with the palette class that serves it in an object whose own palette is of class `top`: the
object's own class, or the class `top`'s `SUB_PALETTES_MAP` substitutes for the requested one (enum cells are
always served by a sub-palette) -/
def resolveTag (cfg : Cfg) (top : ClassId) : Tag → Tag
  | .plain => .plain
  | .pal cls i => .pal (if cls = top then top else subCls cfg top cls) i
  | .enum e v cls i => .enum e v (subCls cfg top cls) i

/-- the colour of a tag of an object printed with a palette of class `top`, as a function of the configuration alone -/
def pureColorAt (cfg : Cfg) (top : ClassId) (c : Conf) (nc : Bool) (t : Tag) : Color :=
  pureColor cfg c nc (resolveTag cfg top t)

/-- the accessor that serves the tag does not wait for another palette class -/
def tagStableAt (cfg : Cfg) (top : ClassId) (t : Tag) : Bool := tagStable cfg (resolveTag cfg top t)

/-- without substitutions nothing changes -/
theorem resolveTag_id {cfg : Cfg} {top : ClassId} {ci : ClassInfo} (hci : cfg.classes[top]? = some ci)
    (hsub : ci.subMap = []) (t : Tag) : resolveTag cfg top t = t := by
  have h : ∀ c, subCls cfg top c = c := by intro c; simp [subCls, hci, ClassInfo.actual, hsub]
  cases t with
  | plain => rfl
  | pal cls i =>
    simp only [resolveTag, h]
    split
    · rename_i e; rw [e]
    · rfl
  | enum e v cls i => simp only [resolveTag, h]

/-- a palette of the kind the rendering asked for, seen through the invariant -/
theorem pal_color {cfg : Cfg} {s : State} (hinv : Inv cfg s) {k : ConfId} {c : Conf} {nc : Bool}
    (hk : s.confs.lookup k = some c) {a : Addr} {q : Pal} (hq : s.heap.lookup a = some q)
    (hnc : q.noColor = nc) (hconf : nc = false → q.conf = k) {i : Nat} {col : Color}
    (hcol : q.colors[i]? = some col) (hst : nc = false → c.closed = true ∧ tagStable cfg (.pal q.cls i) = true) :
    col = pureColor cfg c nc (.pal q.cls i) := by
  obtain ⟨ci, hci, hlen, _, hncs, hcols⟩ := hinv.pals a q hq
  cases nc with
  | true =>
    simp only [pureColor, if_true]
    exact hncs hnc col (List.mem_of_getElem? hcol)
  | false =>
    obtain ⟨hcl, hstb⟩ := hst rfl
    have hi : i < ci.localSyntax.length := by
      rw [← hlen]
      exact (List.getElem?_eq_some_iff.mp hcol).1
    obtain ⟨x, hx⟩ : ∃ x, ci.localSyntax[i]? = some x := ⟨ci.localSyntax[i], List.getElem?_eq_getElem hi⟩
    simp only [pureColor, Bool.false_eq_true, if_false, hci, hx]
    simp only [tagStable, hci, hx] at hstb
    have := hcols hnc c (by rw [hconf rfl]; exact hk)
    exact this.2 hcl i x col hx hcol ((stableAcc_iff cfg ci x).mp hstb)

theorem nth_some {l : List Color} {i : Nat} {col : Color} (h : nth l i = .ok col) : l[i]? = some col := by
  unfold nth at h
  split at h
  · rename_i c hc; cases h; exact hc
  · cases h

theorem tagColor_pure {cfg : Cfg} (hko : cfg.keyByObj = true) {s : State} (hinv : Inv cfg s) {k : ConfId} {c : Conf}
    {nc : Bool} (hk : s.confs.lookup k = some c) {p : Addr} {pp : Pal} (hp : s.heap.lookup p = some pp)
    (hpnc : pp.noColor = nc) (hpconf : nc = false → pp.conf = k) (t : Tag) {col : Color}
    (hst : nc = false → c.closed = true ∧ tagStableAt cfg pp.cls t = true)
    (h : tagColor s p pp.cls t = .ok col) : col = pureColorAt cfg pp.cls c nc t := by
  -- the memoised sub-palette that serves class `cls`: of the class the own palette's map substitutes
  have hsub : ∀ cls a, subAddr s p cls = .ok a → ∃ q, s.heap.lookup a = some q ∧ q.cls = subCls cfg pp.cls cls ∧
      q.noColor = nc ∧ (nc = false → q.conf = k) := by
    intro cls a h1
    unfold subAddr at h1
    split at h1
    · rename_i b hb
      cases h1
      obtain ⟨pp', pb, e1, e2, e3, e4, e5⟩ := hinv.subs p cls a hb
      rw [hp] at e1; cases e1
      refine ⟨pb, e2, e3, e4.trans hpnc, ?_⟩
      intro hf
      rw [e5 (by rw [hpnc]; exact hf)]; exact hpconf hf
    · cases h1
  unfold pureColorAt
  unfold tagStableAt at hst
  cases t with
  | plain => simp [tagColor] at h; subst h; rfl
  | pal cls i =>
    simp only [tagColor, bind, Except.bind] at h
    by_cases hcp : cls = pp.cls
    · simp only [hcp, if_true] at h
      simp only [getPal, hp] at h
      simp only [resolveTag, hcp, if_true] at hst ⊢
      exact pal_color hinv hk hp hpnc hpconf (nth_some h) hst
    · simp only [hcp, if_false] at h
      cases ha : subAddr s p cls with
      | error e => simp [ha] at h
      | ok a =>
        simp only [ha] at h
        obtain ⟨q, hq, hqc, hqn, hqk⟩ := hsub cls a ha
        simp only [getPal, hq] at h
        simp only [resolveTag, hcp, if_false] at hst ⊢
        have := pal_color hinv hk hq hqn hqk (nth_some h) (by rw [hqc]; exact hst)
        rw [hqc] at this; exact this
  | enum e v cls i =>
    simp only [tagColor, bind, Except.bind] at h
    cases ha : subAddr s p cls with
    | error er => simp [ha] at h
    | ok a =>
      simp only [ha] at h
      obtain ⟨q, hq, hqc, hqn, hqk⟩ := hsub cls a ha
      simp only [resolveTag] at hst ⊢
      have hst' : nc = false → c.closed = true ∧ tagStable cfg (.pal q.cls i) = true := by
        intro hf; rw [hqc]; exact hst hf
      have hgoal : ∀ col', q.colors[i]? = some col' →
          col' = pureColor cfg c nc (.enum e v (subCls cfg pp.cls cls) i) := by
        intro col' hc
        have := pal_color hinv hk hq hqn hqk hc hst'
        rw [hqc] at this; exact this
      split at h
      · cases h
      · rename_i ec hen
        split at h
        · rename_i cols hhit
          obtain ⟨q', hq', hcols⟩ := hinv.enums hko e ec a v cols hen hhit
          rw [hq] at hq'; cases hq'
          rw [hcols] at h
          exact hgoal col (nth_some h)
        · simp only [getPal, hq] at h
          exact hgoal col (nth_some h)

theorem colorChunks_pure {cfg : Cfg} (hko : cfg.keyByObj = true) {s : State} (hinv : Inv cfg s) {k : ConfId} {c : Conf}
    {nc : Bool} (hk : s.confs.lookup k = some c) {p : Addr} {pp : Pal} (hp : s.heap.lookup p = some pp)
    (hpnc : pp.noColor = nc) (hpconf : nc = false → pp.conf = k) :
    ∀ (chs : List SChunk) (out : List Chunk),
      (nc = false → c.closed = true ∧ ∀ ch ∈ chs, tagStableAt cfg pp.cls ch.tag = true) →
      colorChunks s p pp.cls chs = .ok out → out = paintChunks (pureColorAt cfg pp.cls c nc) chs := by
  intro chs
  induction chs with
  | nil => intro out _ h; simp [colorChunks] at h; subst h; rfl
  | cons ch rest ih =>
    intro out hst h
    simp only [colorChunks, bind, Except.bind] at h
    cases h1 : tagColor s p pp.cls ch.tag with
    | error e => simp [h1] at h
    | ok col =>
      simp only [h1] at h
      cases h2 : colorChunks s p pp.cls rest with
      | error e => simp [h2] at h
      | ok cs =>
        simp only [h2] at h
        cases h
        have e1 := tagColor_pure hko hinv hk hp hpnc hpconf ch.tag
          (fun hf => ⟨(hst hf).1, (hst hf).2 ch (by simp)⟩) h1
        have e2 := ih cs (fun hf => ⟨(hst hf).1, fun x hx => (hst hf).2 x (by simp [hx])⟩) h2
        simp [paintChunks, e1] at e2 ⊢
        exact e2

theorem colorLines_pure {cfg : Cfg} (hko : cfg.keyByObj = true) {s : State} (hinv : Inv cfg s) {k : ConfId} {c : Conf}
    {nc : Bool} (hk : s.confs.lookup k = some c) {p : Addr} {pp : Pal} (hp : s.heap.lookup p = some pp)
    (hpnc : pp.noColor = nc) (hpconf : nc = false → pp.conf = k) :
    ∀ (ls : List SLine) (out : List (List Chunk)),
      (nc = false → c.closed = true ∧ ∀ l ∈ ls, ∀ ch ∈ l.chunks, tagStableAt cfg pp.cls ch.tag = true) →
      colorLines s p pp.cls ls = .ok out → out = paintLines (pureColorAt cfg pp.cls c nc) ls := by
  intro ls
  induction ls with
  | nil => intro out _ h; simp [colorLines] at h; subst h; rfl
  | cons l rest ih =>
    intro out hst h
    simp only [colorLines, bind, Except.bind] at h
    cases h1 : colorChunks s p pp.cls l.chunks with
    | error e => simp [h1] at h
    | ok cs =>
      simp only [h1] at h
      cases h2 : colorLines s p pp.cls rest with
      | error e => simp [h2] at h
      | ok lsout =>
        simp only [h2] at h
        cases h
        have e1 := colorChunks_pure hko hinv hk hp hpnc hpconf l.chunks cs
          (fun hf => ⟨(hst hf).1, (hst hf).2 l (by simp)⟩) h1
        have e2 := ih lsout (fun hf => ⟨(hst hf).1, fun x hx => (hst hf).2 x (by simp [hx])⟩) h2
        simp only [paintLines, List.map_cons, paintLine] at e2 ⊢
        subst e1
        rw [← e2]
        cases l.kind <;> rfl

theorem colorChunks_eq (s : State) (p : Addr) (top : ClassId) (f : Tag → Color) :
    ∀ (chs : List SChunk) (out : List Chunk),
      (∀ ch ∈ chs, ∀ col, tagColor s p top ch.tag = .ok col → col = f ch.tag) →
      colorChunks s p top chs = .ok out → out = paintChunks f chs := by
  intro chs
  induction chs with
  | nil => intro out _ h; simp [colorChunks] at h; subst h; rfl
  | cons ch rest ih =>
    intro out hf h
    simp only [colorChunks, bind, Except.bind] at h
    cases h1 : tagColor s p top ch.tag with
    | error e => simp [h1] at h
    | ok col =>
      simp only [h1] at h
      cases h2 : colorChunks s p top rest with
      | error e => simp [h2] at h
      | ok cs =>
        simp only [h2] at h
        cases h
        have e1 := hf ch (by simp) col h1
        have e2 := ih cs (fun x hx => hf x (by simp [hx])) h2
        simp [paintChunks, e1] at e2 ⊢
        exact e2

theorem colorLines_eq (s : State) (p : Addr) (top : ClassId) (f : Tag → Color) :
    ∀ (ls : List SLine) (out : List (List Chunk)),
      (∀ l ∈ ls, ∀ ch ∈ l.chunks, ∀ col, tagColor s p top ch.tag = .ok col → col = f ch.tag) →
      colorLines s p top ls = .ok out → out = paintLines f ls := by
  intro ls
  induction ls with
  | nil => intro out _ h; simp [colorLines] at h; subst h; rfl
  | cons l rest ih =>
    intro out hf h
    simp only [colorLines, bind, Except.bind] at h
    cases h1 : colorChunks s p top l.chunks with
    | error e => simp [h1] at h
    | ok cs =>
      simp only [h1] at h
      cases h2 : colorLines s p top rest with
      | error e => simp [h2] at h
      | ok lsout =>
        simp only [h2] at h
        cases h
        have e1 := colorChunks_eq s p top f l.chunks cs (hf l (by simp)) h1
        have e2 := ih lsout (fun x hx => hf x (by simp [hx])) h2
        simp only [paintLines, List.map_cons, paintLine] at e2 ⊢
        subst e1
        rw [← e2]
        cases l.kind <;> rfl

/-- the colour of a tag when the object's palette is (still) in the palette cache of its configuration:
the cached palette and the sub-palettes it memoised have the colours the configuration gives now -/
theorem tagColor_steady {cfg : Cfg} (hko : cfg.keyByObj = true) {s : State} (hinv : Inv cfg s) {k : ConfId} {c : Conf}
    (hk : s.confs.lookup k = some c) {p : Addr} {pp : Pal} (hp : s.heap.lookup p = some pp)
    (hcached : c.cache.lookup pp.cls = some p) (t : Tag) {col : Color}
    (h : tagColor s p pp.cls t = .ok col) : col = pureColorAt cfg pp.cls c false t := by
  -- a palette with the current colours of its class
  have fromSnap : ∀ (q : Pal) (i : Nat) (col' : Color), (∀ ci, cfg.classes[q.cls]? = some ci → q.colors = snapshot cfg ci c) →
      (∃ ci, cfg.classes[q.cls]? = some ci) → q.colors[i]? = some col' → col' = pureColor cfg c false (.pal q.cls i) := by
    intro q i col' hsn ⟨ci, hci⟩ hc
    rw [hsn ci hci] at hc
    simp only [snapshot, List.getElem?_map] at hc
    cases hx : ci.localSyntax[i]? with
    | none => simp [hx] at hc
    | some x =>
      simp only [hx, Option.map_some] at hc
      cases hc
      simp [pureColor, hci, hx]
  have own : ∀ ci, cfg.classes[pp.cls]? = some ci → pp.colors = snapshot cfg ci c :=
    fun ci hci => hinv.cur k c pp.cls p pp ci hk hcached hp hci
  have ownC : ∃ ci, cfg.classes[pp.cls]? = some ci := by
    obtain ⟨ci, hci, _⟩ := hinv.pals p pp hp; exact ⟨ci, hci⟩
  have sub : ∀ cls a, subAddr s p cls = .ok a →
      ∃ q, s.heap.lookup a = some q ∧ q.cls = subCls cfg pp.cls cls ∧
        (∀ ci, cfg.classes[q.cls]? = some ci → q.colors = snapshot cfg ci c) ∧
        (∃ ci, cfg.classes[q.cls]? = some ci) := by
    intro cls a h1
    unfold subAddr at h1
    split at h1
    · rename_i b hb
      cases h1
      obtain ⟨pp', pb, e1, e2, e3, _⟩ := hinv.subs p cls a hb
      rw [hp] at e1; cases e1
      refine ⟨pb, e2, e3, ?_, ?_⟩
      · intro ci hci
        rw [e3] at hci
        exact hinv.subcur k c pp.cls p cls a pb ci hk hcached hb e2 hci
      · obtain ⟨ci, hci, _⟩ := hinv.pals a pb e2; exact ⟨ci, hci⟩
    · cases h1
  unfold pureColorAt
  cases t with
  | plain => simp [tagColor] at h; subst h; rfl
  | pal cls i =>
    simp only [tagColor, bind, Except.bind] at h
    by_cases hcp : cls = pp.cls
    · simp only [hcp, if_true] at h
      simp only [getPal, hp] at h
      simp only [resolveTag, hcp, if_true]
      exact fromSnap pp i col own ownC (nth_some h)
    · simp only [hcp, if_false] at h
      cases ha : subAddr s p cls with
      | error e => simp [ha] at h
      | ok a =>
        simp only [ha] at h
        obtain ⟨q, hq, hqc, hqs, hqC⟩ := sub cls a ha
        simp only [getPal, hq] at h
        simp only [resolveTag, hcp, if_false]
        have := fromSnap q i col hqs hqC (nth_some h)
        rw [hqc] at this; exact this
  | enum e v cls i =>
    simp only [tagColor, bind, Except.bind] at h
    cases ha : subAddr s p cls with
    | error er => simp [ha] at h
    | ok a =>
      simp only [ha] at h
      obtain ⟨q, hq, hqc, hqs, hqC⟩ := sub cls a ha
      simp only [resolveTag]
      have hgoal : ∀ col', q.colors[i]? = some col' →
          col' = pureColor cfg c false (.enum e v (subCls cfg pp.cls cls) i) := by
        intro col' hc
        have := fromSnap q i col' hqs hqC hc
        rw [hqc] at this; exact this
      split at h
      · cases h
      · rename_i ec hen
        split at h
        · rename_i cols hhit
          obtain ⟨q', hq', hcols⟩ := hinv.enums hko e ec a v cols hen hhit
          rw [hq] at hq'; cases hq'
          rw [hcols] at h
          exact hgoal col (nth_some h)
        · simp only [getPal, hq] at h
          exact hgoal col (nth_some h)

/-- `render`: the invariant survives, and the output is the shape painted with the colours that
the configuration (as it is after the rendering) gives — for every no-colour rendering, and for
coloured renderings under a configuration whose descriptions were all resolved at creation -/
theorem render_spec {cfg : Cfg} (hcfg : cfgOk cfg = true) (hko : cfg.keyByObj = true) {alloc : Alloc}
    (hal : ValidAlloc alloc) {k : ConfId} {nc : Bool} {sh : Shape} {s s' : State} {out : List (List Chunk)}
    (hinv : Inv cfg s) (h : render cfg alloc k nc sh s = .ok (s', out)) :
    Inv cfg s' ∧
    ∃ c c', s.confs.lookup k = some c ∧ s'.confs.lookup k = some c' ∧ c'.closed = c.closed ∧ c'.noColor = c.noColor ∧
      ((nc = false → c.closed = true ∧ ∀ t ∈ sh.tags, tagStableAt cfg sh.top t = true) →
        out = paintLines (pureColorAt cfg sh.top c' nc) sh.lines) ∧
      (nc = false → c'.smap.length = c.smap.length → out = paintLines (pureColorAt cfg sh.top c' false) sh.lines) := by
  unfold render at h
  simp only [bind, Except.bind] at h
  cases h1 : mkPalette cfg alloc sh.top k nc s with
  | error e => simp [h1] at h
  | ok r =>
    obtain ⟨s1, p⟩ := r
    simp only [h1] at h
    obtain ⟨hinv1, hfr1, ⟨pp, hp1, hpc, hpn, hpk⟩, hpcache⟩ := mkPalette_spec hcfg hal hinv h1
    cases h2 : getSubs cfg alloc p sh.subs s1 with
    | error e => simp [h2] at h
    | ok s2 =>
      simp only [h2] at h
      obtain ⟨hinv2, hfr2⟩ := getSubs_spec hcfg hal p sh.subs s1 s2 hinv1 h2
      cases h3 : colorLines s2 p sh.top sh.lines with
      | error e => simp [h3] at h
      | ok lines =>
        simp only [h3] at h
        cases h
        obtain ⟨hinv3, hconfs3⟩ := fill_inv (cfg := cfg) p sh.tags s2 hinv2
        refine ⟨hinv3, ?_⟩
        -- the configuration existed before (mkPalette read it)
        have hk0 : ∃ c, s.confs.lookup k = some c := by
          unfold mkPalette at h1
          simp only [bind, Except.bind, getClass, getConf] at h1
          cases hci : cfg.classes[sh.top]? with
          | none => simp [hci] at h1
          | some ci =>
            cases hk : s.confs.lookup k with
            | none => simp [hci, hk] at h1
            | some c => exact ⟨c, rfl⟩
        obtain ⟨c, hk⟩ := hk0
        obtain ⟨c2, hk2, hcl2, hnc2, _, _⟩ := (hfr1.trans hfr2).confs k c hk
        have hp2 := hfr2.heap p pp hp1
        rw [← hpc] at h3
        rw [← hpc]
        refine ⟨c, c2, hk, by rw [hconfs3]; exact hk2, hcl2, hnc2, ?_, ?_⟩
        rotate_left
        · -- steady state: the configuration learnt nothing, so the cached top palette stayed cached
          intro hf hlen
          obtain ⟨c1, hk1, hc1⟩ := hpcache hf
          obtain ⟨c1', e1, _, _, l1, _⟩ := hfr1.confs k c hk
          rw [hk1] at e1; cases e1
          obtain ⟨c2', e2, _, _, l2, same2⟩ := hfr2.confs k c1 hk1
          rw [hk2] at e2; cases e2
          have hl12 : c2.smap.length = c1.smap.length := by omega
          have hcached : c2.cache.lookup pp.cls = some p := by rw [hpc]; exact (same2 hl12).2 sh.top p hc1
          apply colorLines_eq s2 p pp.cls _ sh.lines out _ h3
          intro l _ ch _ col hcol
          exact tagColor_steady hko hinv2 hk2 hp2 hcached ch.tag hcol
        intro hst
        apply colorLines_pure hko hinv2 hk2 hp2 hpn hpk sh.lines out _ h3
        intro hf
        refine ⟨by rw [hcl2]; exact (hst hf).1, ?_⟩
        intro l hl ch hch
        apply (hst hf).2
        simp only [Shape.tags, List.mem_flatMap, List.mem_map]
        exact ⟨l, hl, ch, hch, rfl⟩

/-! ### releasing memory -/

theorem contains_iff {l : List Nat} {x : Nat} : l.contains x = true ↔ x ∈ l := by simp

theorem gc_inv {cfg : Cfg} {s : State} (hinv : Inv cfg s) (keepP : List Addr) (keepC : List ConfId) :
    Inv cfg (gc cfg keepP keepC s) := by
  unfold gc
  split
  · rename_i hok
    simp only [gcOk, Bool.and_eq_true, List.all_eq_true, Bool.or_eq_true, Bool.not_eq_true'] at hok
    obtain ⟨⟨⟨⟨⟨⟨⟨⟨_, hkg⟩, hnc⟩, hen⟩, hheap⟩, hsubs⟩, hconfs⟩, _⟩, _⟩ := hok
    have heapLk : ∀ a, (List.lookup a (s.heap.filter fun e => keepP.contains e.1)) =
        if keepP.contains a then s.heap.lookup a else none := fun a => lookup_filter_key (fun x => keepP.contains x) a s.heap
    have confLk : ∀ k, (List.lookup k (s.confs.filter fun e => keepC.contains e.1)) =
        if keepC.contains k then s.confs.lookup k else none := fun k => lookup_filter_key (fun x => keepC.contains x) k s.confs
    have keepHeap : ∀ a p, keepP.contains a = true → s.heap.lookup a = some p →
        List.lookup a (s.heap.filter fun e => keepP.contains e.1) = some p := by
      intro a p h1 h2; rw [heapLk, h1]; exact h2
    refine ⟨?_, ?_, ?_, ?_, ?_, ?_, ?_, ?_, ?_, ?_, ?_⟩
    rotate_left 7
    · intro k c cls a p ci h hc hp hci
      simp only [] at h hp
      rw [confLk] at h
      rw [heapLk] at hp
      split at h
      · split at hp
        · exact hinv.cur k c cls a p ci h hc hp hci
        · cases hp
      · cases h
    · intro k c cls pa c2 b pb ci2 h hc hsb hp hci
      simp only [] at h hp hsb
      rw [confLk] at h
      rw [heapLk] at hp
      rw [lookup_filter_key (fun (x : Addr × ClassId) => keepP.contains x.1) (pa, c2) s.subs] at hsb
      split at h
      · split at hp
        · split at hsb
          · exact hinv.subcur k c cls pa c2 b pb ci2 h hc hsb hp hci
          · cases hsb
        · cases hp
      · cases h
    · simp only []
      rw [confLk, hkg]
      exact hinv.glob
    · intro c0 ci0 h1 h2
      simp only [] at h1 ⊢
      rw [confLk, hkg] at h1
      exact hinv.gp c0 ci0 h1 h2
    · intro k c h
      simp only [] at h
      rw [confLk] at h
      split at h
      · exact hinv.confs k c h
      · cases h
    · intro a p h
      simp only [] at h ⊢
      rw [heapLk] at h
      split at h
      · obtain ⟨ci, hci, hlen, hv, hn, hcol⟩ := hinv.pals a p h
        refine ⟨ci, hci, hlen, hv, hn, ?_⟩
        intro hc c hc2
        rw [confLk] at hc2
        split at hc2
        · exact hcol hc c hc2
        · cases hc2
      · cases h
    · intro a p h
      simp only [] at h ⊢
      rw [heapLk] at h
      split at h
      · rename_i hka
        have hmem := lookup_mem h
        have := hheap (a, p) hmem
        simp only [hka, Bool.true_eq_false, false_or] at this
        rw [confLk, this]
        exact hinv.live a p h
      · cases h
    · intro k c cls a h hc
      simp only [] at h ⊢
      rw [confLk] at h
      split at h
      · rename_i hkk
        obtain ⟨p, h1, h2⟩ := hinv.cache k c cls a h hc
        have := hconfs (k, c) (lookup_mem h)
        simp only [hkk, Bool.true_eq_false, false_or] at this
        exact ⟨p, keepHeap a p (this (cls, a) (lookup_mem hc)) h1, h2⟩
      · cases h
    · intro cls a h
      obtain ⟨p, h1, h2⟩ := hinv.nc cls a h
      exact ⟨p, keepHeap a p (hnc (cls, a) (lookup_mem h)) h1, h2⟩
    · intro pa c b h
      simp only [] at h ⊢
      rw [lookup_filter_key (fun (x : Addr × ClassId) => keepP.contains x.1) (pa, c) s.subs] at h
      split at h
      · rename_i hpa
        obtain ⟨pp, pb, h1, h2, h3⟩ := hinv.subs pa c b h
        have := hsubs ((pa, c), b) (lookup_mem h)
        simp only [] at hpa
        simp only [hpa, Bool.true_eq_false, false_or] at this
        exact ⟨pp, pb, keepHeap pa pp hpa h1, keepHeap b pb this h2, h3⟩
      · cases h
    · intro hko e ec a v cols h1 h2
      obtain ⟨p, h3, h4⟩ := hinv.enums hko e ec a v cols h1 h2
      have hen' : ∀ (x : EnumId × EnumCache), x ∈ s.enums → ∀ (y : (Addr × Nat) × List Color), y ∈ x.2 →
          keepP.contains y.1.1 = true := by
        rcases hen with h0 | h0
        · rw [hko] at h0; cases h0
        · exact h0
      exact ⟨p, keepHeap a p (hen' (e, ec) (lookup_mem h1) ((a, v), cols) (lookup_mem h2)) h3, h4⟩
  · exact hinv

/-! ### configurations and enum types -/

theorem mkConf_ok {cfg : Cfg} (hcfg : cfgOk cfg = true) {nc : Bool} {items : SMap} {c : Conf}
    (h : mkConf cfg nc items = .ok c) : ConfOk cfg c := by
  unfold mkConf at h
  split at h
  · cases h
  · rename_i hwf
    simp only [] at h
    split at h
    · cases h
    · split at h
      · cases h
      · cases h
        simp only [Bool.not_eq_true'] at hwf
        have hwf' : ∀ e ∈ items, e.2.wf = true := by simpa [List.all_eq_true] using hwf
        refine ⟨?_, ?_, ?_, ?_⟩
        · intro x hx
          simp only []
          cases hb : cfg.builtin.lookup x with
          | none => simp [hb] at hx
          | some d =>
            exact addItems_has _ cfg.builtin x (key_of_lookup hb)
        · simp only []
          apply smapWf_addItems _ _ _ (cfgOk_builtin_wf hcfg)
          apply smapWf_addItems _ _ _ hwf'
          intro x d hl; simp [emptyConf] at hl
        · intro hcl
          simp only [] at hcl ⊢
          exact allResolved_of_bool hcl
        · intro cls hcls
          have h1 := (addItems_fields ((emptyConf nc).addItems items) cfg.builtin).2.2.1
          have h2 := (addItems_fields (emptyConf nc) items).2.2.1
          simp only [] at hcls
          rw [h1, h2] at hcls
          simp [emptyConf] at hcls

theorem newConf_inv {cfg : Cfg} (hcfg : cfgOk cfg = true) {k : ConfId} {nc : Bool} {items : SMap} {s s' : State}
    (hinv : Inv cfg s) (h : newConf cfg k nc items s = .ok s') : Inv cfg s' := by
  unfold newConf at h
  simp only [bind, Except.bind] at h
  split at h
  · cases h
  · rename_i hfresh
    cases hm : mkConf cfg nc items with
    | error e => simp [hm] at h
    | ok c =>
      simp only [hm] at h
      cases h
      have hnone : s.confs.lookup k = none := by
        cases hl : s.confs.lookup k with
        | none => rfl
        | some c0 => simp [hl] at hfresh
      have hold : ∀ k' c', k' ≠ k → List.lookup k' ((k, c) :: s.confs) = some c' → s.confs.lookup k' = some c' := by
        intro k' c' hne hl; rw [lookup_cons_ne _ _ hne] at hl; exact hl
      have hext : ∀ k' c', s.confs.lookup k' = some c' → List.lookup k' ((k, c) :: s.confs) = some c' := by
        intro k' c' hl
        have : k' ≠ k := by intro e; subst e; rw [hnone] at hl; cases hl
        rw [lookup_cons_ne _ _ this]; exact hl
      have hgk : s.global ≠ k := by
        intro e
        have := hinv.glob
        rw [e, hnone] at this
        simp at this
      have hcache0 : c.cache = [] := by
        unfold mkConf at hm
        split at hm
        · cases hm
        · simp only [] at hm
          split at hm
          · cases hm
          · split at hm
            · cases hm
            · cases hm
              simp only []
              have h1 := (addItems_fields ((emptyConf nc).addItems items) cfg.builtin).2.2.2
              have h2 := (addItems_fields (emptyConf nc) items).2.2.2
              rcases h1 with h1 | h1
              · rcases h2 with h2 | h2
                · rw [h1, h2]; rfl
                · rw [h1, h2]
              · exact h1
      refine ⟨?_, ?_, ?_, ?_, hinv.nc, hinv.subs, hinv.enums, ?_, ?_, ?_, ?_⟩
      rotate_left 4
      · intro k' c' cls a p ci hl hc hp hci
        simp only [] at hl
        by_cases e : k' = k
        · subst e; rw [lookup_cons_eq] at hl; cases hl; rw [hcache0] at hc; simp at hc
        · exact hinv.cur k' c' cls a p ci (hold k' c' e hl) hc hp hci
      · intro k' c' cls pa c2 b pb ci2 hl hc hsb hp hci
        simp only [] at hl
        by_cases e : k' = k
        · subst e; rw [lookup_cons_eq] at hl; cases hl; rw [hcache0] at hc; simp at hc
        · exact hinv.subcur k' c' cls pa c2 b pb ci2 (hold k' c' e hl) hc hsb hp hci
      · simp only []
        rw [lookup_cons_ne _ _ hgk]
        exact hinv.glob
      · intro c0 ci0 h1 h2
        simp only [] at h1 ⊢
        rw [lookup_cons_ne _ _ hgk] at h1
        exact hinv.gp c0 ci0 h1 h2
      · intro k' c' hl
        simp only [] at hl
        by_cases e : k' = k
        · subst e; rw [lookup_cons_eq] at hl; cases hl; exact mkConf_ok hcfg hm
        · exact hinv.confs k' c' (hold k' c' e hl)
      · intro a p hp
        obtain ⟨ci, hci, hlen, hv, hn, hcol⟩ := hinv.pals a p hp
        refine ⟨ci, hci, hlen, hv, hn, ?_⟩
        intro hc c' hc'
        simp only [] at hc'
        have hlive := hinv.live a p hp
        have : p.conf ≠ k := by intro e; rw [e, hnone] at hlive; simp at hlive
        exact hcol hc c' (hold _ _ this hc')
      · intro a p hp
        simp only []
        have hlive := hinv.live a p hp
        cases hl : s.confs.lookup p.conf with
        | none => simp [hl] at hlive
        | some c0 => simp [hext _ _ hl]
      · intro k' c' cls a hl hc
        simp only [] at hl
        by_cases e : k' = k
        · subst e; rw [lookup_cons_eq] at hl; cases hl
          -- a new configuration has an empty palette cache
          unfold mkConf at hm
          split at hm
          · cases hm
          · simp only [] at hm
            split at hm
            · cases hm
            · split at hm
              · cases hm
              · cases hm
                simp only [] at hc
                have h1 := (addItems_fields ((emptyConf nc).addItems items) cfg.builtin).2.2.2
                have h2 := (addItems_fields (emptyConf nc) items).2.2.2
                rcases h1 with h1 | h1
                · rcases h2 with h2 | h2
                  · rw [h1, h2] at hc; simp [emptyConf] at hc
                  · rw [h1, h2] at hc; simp at hc
                · rw [h1] at hc; simp at hc
        · exact hinv.cache k' c' cls a (hold k' c' e hl) hc

theorem dropConf_inv {cfg : Cfg} {s : State} (hinv : Inv cfg s) (k : ConfId) : Inv cfg (dropConf k s) :=
  ⟨hinv.confs, hinv.pals, hinv.live, hinv.cache, hinv.nc, hinv.subs, hinv.enums, hinv.cur, hinv.subcur, hinv.glob, hinv.gp⟩

/-- re-syncing establishes the `gp` part, whatever it was before -/
theorem syncGp_inv {cfg : Cfg} {s : State}
    (confs : ∀ k c, s.confs.lookup k = some c → ConfOk cfg c)
    (pals : ∀ a p, s.heap.lookup a = some p → PalOk cfg s.confs p)
    (live : ∀ a p, s.heap.lookup a = some p → (s.confs.lookup p.conf).isSome)
    (cache : ∀ k c cls a, s.confs.lookup k = some c → c.cache.lookup cls = some a →
      ∃ p, s.heap.lookup a = some p ∧ p.cls = cls ∧ p.conf = k ∧ p.noColor = false)
    (nc : ∀ cls a, s.ncCache.lookup cls = some a → ∃ p, s.heap.lookup a = some p ∧ p.cls = cls ∧ p.noColor = true)
    (subs : ∀ pa c b, s.subs.lookup (pa, c) = some b → ∃ pp pb, s.heap.lookup pa = some pp ∧ s.heap.lookup b = some pb ∧
      pb.cls = subCls cfg pp.cls c ∧ pb.noColor = pp.noColor ∧ (pp.noColor = false → pb.conf = pp.conf))
    (enums : cfg.keyByObj = true → ∀ e ec a v cols, s.enums.lookup e = some ec → ec.lookup (a, v) = some cols →
      ∃ p, s.heap.lookup a = some p ∧ cols = p.colors)
    (cur : ∀ k c cls a p ci, s.confs.lookup k = some c → c.cache.lookup cls = some a → s.heap.lookup a = some p →
      cfg.classes[cls]? = some ci → p.colors = snapshot cfg ci c)
    (subcur : ∀ k c cls pa c2 b pb ci2, s.confs.lookup k = some c → c.cache.lookup cls = some pa →
      s.subs.lookup (pa, c2) = some b → s.heap.lookup b = some pb → cfg.classes[subCls cfg cls c2]? = some ci2 →
      pb.colors = snapshot cfg ci2 c)
    (glob : (s.confs.lookup s.global).isSome) : Inv cfg (syncGp cfg s) := by
  obtain ⟨e1, e2, e3, e4, e5, _, e7⟩ := syncGp_fields cfg s
  refine ⟨?_, ?_, ?_, ?_, ?_, ?_, ?_, ?_, ?_, ?_, ?_⟩
  · rw [e1]; exact confs
  · rw [e1, e2]; exact pals
  · rw [e1, e2]; exact live
  · rw [e1, e2]; exact cache
  · rw [e4, e2]; exact nc
  · rw [e3, e2]; exact subs
  · rw [e5, e2]; exact enums
  · rw [e1, e2]; exact cur
  · rw [e1, e2, e3]; exact subcur
  · rw [e1, e7]; exact glob
  · intro c ci h1 h2
    rw [e1, e7] at h1
    exact syncGp_gp cfg s c ci h1 h2

theorem regSynced_inv {cfg : Cfg} (hcfg : cfgOk cfg = true) (k : ConfId) : ∀ (cs : List ClassId) (s : State),
    Inv cfg s → Inv cfg (regSynced cfg k cs s) ∧
      ((s.confs.lookup k).isSome → ((regSynced cfg k cs s).confs.lookup k).isSome) := by
  intro cs
  induction cs with
  | nil => intro s h; exact ⟨h, fun x => x⟩
  | cons cls rest ih =>
    intro s hinv
    simp only [regSynced]
    cases hk : s.confs.lookup k with
    | none => exact ⟨hinv, fun x => by simp [hk] at x⟩
    | some c =>
      simp only []
      cases hr : registerCls cfg cls c with
      | error e => simp only []; rw [← hk]; exact ih s hinv
      | ok c' =>
        simp only []
        obtain ⟨hc', hstep⟩ := registerCls_ok hcfg (hinv.confs k c hk) hr
        have h1 := inv_setConf hcfg hinv hk hc' hstep
        obtain ⟨h2, h3⟩ := ih _ h1
        refine ⟨h2, fun _ => h3 ?_⟩
        rw [setConf_confs, lookup_putConf]; simp

theorem setGlobal_inv {cfg : Cfg} (hcfg : cfgOk cfg = true) {k : ConfId} {s s' : State} (hinv : Inv cfg s)
    (h : setGlobal cfg k s = .ok s') : Inv cfg s' := by
  unfold setGlobal at h
  simp only [bind, Except.bind] at h
  cases hg : getConf s k with
  | error e => simp [hg] at h
  | ok c =>
    simp only [hg] at h
    cases h
    obtain ⟨h1, h2⟩ := regSynced_inv hcfg k (s.synced.map (·.1)) s hinv
    apply syncGp_inv (s := { regSynced cfg k (s.synced.map (·.1)) s with global := k })
      h1.confs h1.pals h1.live h1.cache h1.nc h1.subs h1.enums h1.cur h1.subcur
    simp only []
    apply h2
    unfold getConf at hg
    split at hg
    · rename_i c0 hc0; simp [hc0]
    · cases hg

theorem newEnum_inv {cfg : Cfg} {e : EnumId} {s s' : State} (hinv : Inv cfg s) (h : newEnum e s = .ok s') :
    Inv cfg s' := by
  unfold newEnum at h
  split at h
  · cases h
  · cases h
    refine ⟨hinv.confs, hinv.pals, hinv.live, hinv.cache, hinv.nc, hinv.subs, ?_, hinv.cur, hinv.subcur, hinv.glob, hinv.gp⟩
    intro hko e' ec a v cols h1 h2
    simp only [] at h1
    by_cases he : e' = e
    · subst he; rw [lookup_cons_eq] at h1; cases h1; simp at h2
    · rw [lookup_cons_ne _ _ he] at h1; exact hinv.enums hko e' ec a v cols h1 h2

theorem dropEnum_inv {cfg : Cfg} {s : State} (hinv : Inv cfg s) (e : EnumId) : Inv cfg (dropEnum e s) := by
  refine ⟨hinv.confs, hinv.pals, hinv.live, hinv.cache, hinv.nc, hinv.subs, ?_, hinv.cur, hinv.subcur, hinv.glob, hinv.gp⟩
  intro hko e' ec a v cols h1 h2
  simp only [dropEnum] at h1
  rw [lookup_filter_key (fun x => x ≠ e)] at h1
  split at h1
  · exact hinv.enums hko e' ec a v cols h1 h2
  · cases h1

theorem initState_inv {cfg : Cfg} (hcfg : cfgOk cfg = true) (hmk : ∃ c, mkConf cfg false [] = .ok c) :
    Inv cfg (initState cfg) := by
  obtain ⟨c, hm⟩ := hmk
  unfold initState
  rw [hm]
  simp only []
  have hc := mkConf_ok hcfg hm
  have hcache : c.cache = [] := by
    unfold mkConf at hm
    split at hm
    · cases hm
    · simp only [] at hm
      split at hm
      · cases hm
      · split at hm
        · cases hm
        · cases hm
          simp only []
          have h3 := (addItems_fields ((emptyConf false).addItems []) cfg.builtin).2.2.2
          have h4 := (addItems_fields (emptyConf false) []).2.2.2
          rcases h3 with h3 | h3
          · rcases h4 with h4 | h4
            · rw [h3, h4]; rfl
            · rw [h3, h4]
          · exact h3
  apply syncGp_inv
  · intro k c' h
    simp only [emptyState] at h
    by_cases e : k = 0
    · subst e; rw [lookup_cons_eq] at h; cases h; exact hc
    · rw [lookup_cons_ne _ _ e] at h; simp at h
  · intro a p h; simp [emptyState] at h
  · intro a p h; simp [emptyState] at h
  · intro k c' cls a h1 h2
    simp only [emptyState] at h1
    by_cases e : k = 0
    · subst e; rw [lookup_cons_eq] at h1; cases h1; rw [hcache] at h2; simp at h2
    · rw [lookup_cons_ne _ _ e] at h1; simp at h1
  · intro cls a h; simp [emptyState] at h
  · intro pa c' b h; simp [emptyState] at h
  · intro _ e ec a v cols h; simp [emptyState] at h
  · intro k c' cls a p ci h1 h2 h3; simp [emptyState] at h3
  · intro k c' cls pa c2 b pb ci2 h1 h2 h3; simp [emptyState] at h3
  · simp [emptyState]

end PaletteState
