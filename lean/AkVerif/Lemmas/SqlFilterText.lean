import AkVerif.Lemmas.SqlFilter
/-!
Lemmas about the *text* of a prepared statement (C15): placeholder counting, the generated clause
tables, field names of the clauses, independence of the text from the values.
-/
namespace SqlFilter
open Ak

/-! ## counting a character in joined text -/

def sumCount (m : Char) : List Str → Nat
  | [] => 0
  | t :: ts => t.count m + sumCount m ts

theorem count_joinSep_clean (m : Char) (sep : Str) (hsep : sep.count m = 0) (ts : List Str) :
    (joinSep sep ts).count m = sumCount m ts := by
  induction ts with
  | nil => simp [joinSep, sumCount]
  | cons t ts ih =>
    cases ts with
    | nil => simp [joinSep, sumCount]
    | cons u us =>
      simp only [joinSep, List.count_append, hsep, sumCount] at ih ⊢
      omega

theorem count_joinSep_replicate (m : Char) (sep ph : Str) (hsep : sep.count m = 0) (n : Nat) :
    (joinSep sep (List.replicate n ph)).count m = n * ph.count m := by
  rw [count_joinSep_clean m sep hsep]
  induction n with
  | zero => simp [sumCount]
  | succ n ih => simp [List.replicate_succ, sumCount, ih, Nat.succ_mul, Nat.add_comm]

/-! ## the generated tables -/

/-- number of placeholders in the clause of an operation -/
def Op.slots : Op → Nat
  | .cmp _ => 1
  | .like _ => 1
  | .isIn _ => 0
  | .isNull _ => 0

/-- every operation has a clause in both tables, with exactly the expected number of placeholder
marks (re-decided by the kernel whenever the tables are regenerated) -/
theorem clause_count (pct : Bool) (o : Op) :
    ∃ cl, clause pct o.key = .ok cl ∧ cl.count (marker pct) = o.slots := by
  cases pct <;> rcases o with (c | neg | neg | neg)
  all_goals first
    | (cases c <;> exact ⟨_, rfl, by decide⟩)
    | (cases neg <;> exact ⟨_, rfl, by decide⟩)

theorem placeholder_count (pct : Bool) :
    ∃ ph, clause pct phKey = .ok ph ∧ ph.count (marker pct) = 1 := by
  cases pct <;> exact ⟨_, rfl, by decide⟩

/-- the fixed pieces of text carry no placeholder mark -/
theorem consts_clean (pct : Bool) :
    Gen.C15.emptyIn.count (marker pct) = 0 ∧ Gen.C15.emptyNotIn.count (marker pct) = 0 ∧
    Gen.C15.emptyOr.count (marker pct) = 0 ∧
    Gen.C15.listOpen.count (marker pct) = 0 ∧ Gen.C15.listSep.count (marker pct) = 0 ∧
    Gen.C15.listClose.count (marker pct) = 0 ∧
    Gen.C15.orOpen.count (marker pct) = 0 ∧ Gen.C15.orSep.count (marker pct) = 0 ∧
    Gen.C15.orClose.count (marker pct) = 0 ∧
    Gen.C15.wherePfx.count (marker pct) = 0 ∧ Gen.C15.andSep.count (marker pct) = 0 ∧
    Gen.C15.groupPfx.count (marker pct) = 0 ∧ Gen.C15.orderPfx.count (marker pct) = 0 ∧
    Gen.C15.rawOpen.count (marker pct) = 0 ∧ Gen.C15.rawClose.count (marker pct) = 0 := by
  cases pct <;> decide

/-! ## placeholders in the text of a clause -/

theorem clean_of_mem {m : Char} {fs : List Str} (h : ∀ f ∈ fs, f.count m = 0) {f : Str} (hf : f ∈ fs) :
    f.count m = 0 := h f hf

mutual
theorem render_count (pct : Bool) : ∀ (w : Where) (t : Str), render pct w = .ok t →
    (∀ f ∈ whereFields w, f.count (marker pct) = 0) → t.count (marker pct) = slots w
  | .cmp f c, t, h, hf => by
    obtain ⟨cl, hcl, hn⟩ := clause_count pct (.cmp c)
    simp only [render, hcl, bind, Except.bind, pure, Except.pure, Except.ok.injEq] at h
    subst h
    simp [List.count_append, hn, Op.slots, slots, hf f (by simp [whereFields])]
  | .inList f neg n, t, h, hf => by
    obtain ⟨cl, hcl, hn⟩ := clause_count pct (.isIn neg)
    obtain ⟨ph, hph, hp⟩ := placeholder_count pct
    obtain ⟨-, -, -, h4, h5, h6, -⟩ := consts_clean pct
    simp only [render, hcl, hph, bind, Except.bind, pure, Except.pure, Except.ok.injEq] at h
    subst h
    simp [List.count_append, hn, Op.slots, slots, hf f (by simp [whereFields]), h4, h6,
      count_joinSep_replicate _ _ _ h5, hp]
  | .isNull f neg, t, h, hf => by
    obtain ⟨cl, hcl, hn⟩ := clause_count pct (.isNull neg)
    simp only [render, hcl, bind, Except.bind, pure, Except.pure, Except.ok.injEq] at h
    subst h
    simp [List.count_append, hn, Op.slots, slots, hf f (by simp [whereFields])]
  | .like f neg, t, h, hf => by
    obtain ⟨cl, hcl, hn⟩ := clause_count pct (.like neg)
    simp only [render, hcl, bind, Except.bind, pure, Except.pure, Except.ok.injEq] at h
    subst h
    simp [List.count_append, hn, Op.slots, slots, hf f (by simp [whereFields])]
  | .const b, t, h, hf => by
    obtain ⟨h1, h2, -⟩ := consts_clean pct
    simp only [render, Except.ok.injEq] at h
    subst h
    cases b <;> simp [slots, h1, h2]
  | .false, t, h, hf => by
    obtain ⟨-, -, h3, -⟩ := consts_clean pct
    simp only [render, Except.ok.injEq] at h
    subst h
    simp [slots, h3]
  | .raw txt, t, h, hf => by
    obtain ⟨-, -, -, -, -, -, -, -, -, -, -, -, -, h14, h15⟩ := consts_clean pct
    simp only [render, Except.ok.injEq] at h
    subst h
    simp [List.count_append, slots, h14, h15, hf txt (by simp [whereFields])]
  | .or ws, t, h, hf => by
    obtain ⟨-, -, -, -, -, -, h7, h8, h9, -⟩ := consts_clean pct
    simp only [render, bind, Except.bind] at h
    cases hr : renders pct ws with
    | error e => simp [hr] at h
    | ok ts =>
      simp only [hr, pure, Except.pure, Except.ok.injEq] at h
      subst h
      have := renders_count pct ws ts hr (by simpa [whereFields] using hf)
      simp [List.count_append, h7, h9, count_joinSep_clean _ _ h8, this, slots]
theorem renders_count (pct : Bool) : ∀ (ws : List Where) (ts : List Str), renders pct ws = .ok ts →
    (∀ f ∈ wheresFields ws, f.count (marker pct) = 0) → sumCount (marker pct) ts = slotsL ws
  | [], ts, h, hf => by
    simp only [renders, Except.ok.injEq] at h
    subst h
    simp [sumCount, slotsL]
  | w :: ws, ts, h, hf => by
    simp only [renders, bind, Except.bind] at h
    cases hw : render pct w with
    | error e => simp [hw] at h
    | ok t =>
      cases hr : renders pct ws with
      | error e => simp [hw, hr] at h
      | ok ts' =>
        simp only [hw, hr, pure, Except.pure, Except.ok.injEq] at h
        subst h
        have h1 := render_count pct w t hw (fun f hm => hf f (by simp [wheresFields, hm]))
        have h2 := renders_count pct ws ts' hr (fun f hm => hf f (by simp [wheresFields, hm]))
        simp [sumCount, slotsL, h1, h2]
end

theorem renders_length (pct : Bool) : ∀ (ws : List Where) (ts : List Str), renders pct ws = .ok ts →
    ts.length = ws.length
  | [], ts, h => by simp only [renders, Except.ok.injEq] at h; subst h; rfl
  | w :: ws, ts, h => by
    simp only [renders, bind, Except.bind] at h
    cases hw : render pct w with
    | error e => simp [hw] at h
    | ok t =>
      cases hr : renders pct ws with
      | error e => simp [hw, hr] at h
      | ok ts' =>
        simp only [hw, hr, pure, Except.pure, Except.ok.injEq] at h
        subst h
        simp [renders_length pct ws ts' hr]

/-- the statement text has as many placeholder marks as its clauses have slots, provided the
caller's own texts (SELECT … FROM, column expressions, GROUP BY, ORDER BY) have none -/
theorem sqlText_count (pct : Bool) (st : Stmt) (ws : List Where) (t : Str) (h : sqlText pct st ws = .ok t)
    (hf : ∀ f ∈ wheresFields ws, f.count (marker pct) = 0)
    (hs : st.selectFrom.count (marker pct) = 0)
    (hg : ∀ g, st.groupBy = some g → g.count (marker pct) = 0)
    (ho : ∀ o, st.orderBy = some o → o.count (marker pct) = 0) :
    t.count (marker pct) = slotsL ws := by
  obtain ⟨-, -, -, -, -, -, -, -, -, h10, h11, h12, h13, -, -⟩ := consts_clean pct
  simp only [sqlText, bind, Except.bind] at h
  cases hr : renders pct ws with
  | error e => simp [hr] at h
  | ok ts =>
    simp only [hr, pure, Except.pure, Except.ok.injEq] at h
    subst h
    have hc := renders_count pct ws ts hr hf
    have hg' : (groupPart st).count (marker pct) = 0 := by
      unfold groupPart
      cases hgb : st.groupBy with
      | none => simp
      | some g => by_cases he : g.isEmpty <;> simp [he, List.count_append, h12, hg g hgb]
    have ho' : (orderPart st).count (marker pct) = 0 := by
      unfold orderPart
      cases hob : st.orderBy with
      | none => simp
      | some o => simp [List.count_append, h13, ho o hob]
    simp only [List.count_append, hs, hg', ho']
    unfold wherePart
    by_cases he : ts.isEmpty
    · have : ts = [] := by simpa using he
      subst this
      have hl := renders_length pct ws [] hr
      have : ws = [] := List.eq_nil_of_length_eq_zero hl.symm
      subst this
      simp [slotsL]
    · simp [he, List.count_append, h10, count_joinSep_clean _ _ h11, hc]

/-! ## slots = number of values appended -/

theorem slots_leafWhere (l : Leaf) : slots (leafWhere l).1 = (leafWhere l).2.length := by
  cases l with
  | cmp f c a => simp [leafWhere, slots]
  | inl f neg vs => by_cases he : vs.isEmpty <;> simp [leafWhere, he, slots]
  | null f neg => simp [leafWhere, slots]
  | like f neg p => simp [leafWhere, slots]
  | raw t => simp [leafWhere, slots]

mutual
theorem slots_toWhere : ∀ (n : NCond), slots (toWhere n).1 = (toWhere n).2.length
  | .leaf l => by simpa [toWhere] using slots_leafWhere l
  | .or [] => by simp [toWhere, slots]
  | .or (c :: cs) => by
    have := slots_toWheres (c :: cs)
    simpa [toWhere, slots] using this
theorem slots_toWheres : ∀ (ns : List NCond), slotsL (toWheres ns).1 = (toWheres ns).2.length
  | [] => by simp [toWheres, slotsL]
  | n :: ns => by
    have h1 := slots_toWhere n
    have h2 := slots_toWheres ns
    simp [toWheres, slotsL, h1, h2]
end

/-! ## the column expressions of the clauses are the caller's -/

theorem mkLeaf_field {f op : Str} {a : Arg} {l : Leaf} (h : mkLeaf f op a = .ok l) :
    ∀ g ∈ whereFields (leafWhere l).1, g = f := by
  unfold mkLeaf at h
  cases hc : classify (upper op) with
  | none => simp [hc] at h
  | some o =>
    simp only [hc] at h
    have key : ∀ l' : Leaf, (l' = .cmp f .eq a ∨ l' = .cmp f .ne a ∨ (∃ c, l' = .cmp f c a) ∨
        (∃ neg vs, l' = .inl f neg vs) ∨ (∃ neg, l' = .null f neg) ∨ (∃ neg p, l' = .like f neg p)) →
        ∀ g ∈ whereFields (leafWhere l').1, g = f := by
      intro l' hl'
      rcases hl' with h | h | ⟨c, h⟩ | ⟨neg, vs, h⟩ | ⟨neg, h⟩ | ⟨neg, p, h⟩ <;> subst h
      · simp [leafWhere, whereFields]
      · simp [leafWhere, whereFields]
      · simp [leafWhere, whereFields]
      · by_cases he : vs.isEmpty <;> simp [leafWhere, whereFields, he]
      · simp [leafWhere, whereFields]
      · simp [leafWhere, whereFields]
    apply key
    rcases o with (c | neg | neg | neg)
    · cases c <;> first
        | (cases a with
           | scalar v => cases v <;> simp at h <;> subst h <;> simp
           | list vs => simp at h; subst h; simp
           | set vs => simp at h; subst h; simp)
        | (simp at h; subst h; simp)
    · cases a <;> simp at h <;> subst h <;> simp
    · cases a with
      | scalar v => cases v <;> simp at h; subst h; simp
      | list vs => simp at h
      | set vs => simp at h
    · cases a with
      | scalar v => cases v <;> simp at h; subst h; simp
      | list vs => simp at h
      | set vs => simp at h

theorem wheresFields_toWheres_append (xs ys : List NCond) :
    wheresFields (toWheres (xs ++ ys)).1 = wheresFields (toWheres xs).1 ++ wheresFields (toWheres ys).1 := by
  induction xs with
  | nil => simp [toWheres, wheresFields]
  | cons x xs ih => simp [toWheres, wheresFields, ih]

theorem whereFields_or (l : List NCond) :
    whereFields (toWhere (.or l)).1 = wheresFields (toWheres l).1 := by
  cases l <;> simp [toWhere, toWheres, whereFields, wheresFields]

theorem kw_fields : ∀ (kw : List (Str × Arg)) (ns : List NCond), mkKw kw = .ok ns →
    ∀ g ∈ wheresFields (toWheres ns).1, g ∈ kw.map (·.1)
  | [], ns, h => by simp [mkKw] at h; subst h; simp [toWheres, wheresFields]
  | (k, a) :: rest, ns, h => by
    simp only [mkKw, bind, Except.bind] at h
    cases hl : mkLeaf k opEq a with
    | error err => simp [hl] at h
    | ok l =>
      cases hr : mkKw rest with
      | error err => simp [hl, hr] at h
      | ok ls =>
        simp only [hl, hr, pure, Except.pure, Except.ok.injEq] at h
        subst h
        intro g hg
        simp only [toWheres, toWhere_leaf, wheresFields, List.mem_append] at hg
        rcases hg with hg | hg
        · simp [mkLeaf_field hl g hg]
        · have := kw_fields rest ls hr g hg
          simp only [List.map_cons, List.mem_cons]
          exact Or.inr this

mutual
theorem cond_fields : ∀ (c : Cond) (n : NCond), mkCond c = .ok n →
    ∀ g ∈ whereFields (toWhere n).1, g ∈ condFields c
  | .triple f op a, n, h => by
    simp only [mkCond, bind, Except.bind] at h
    cases hl : mkLeaf f op a with
    | error err => simp [hl] at h
    | ok l =>
      simp only [hl, pure, Except.pure, Except.ok.injEq] at h
      subst h
      intro g hg
      simp [condFields, mkLeaf_field hl g (by simpa [toWhere_leaf] using hg)]
  | .pair f a, n, h => by
    simp only [mkCond, bind, Except.bind] at h
    cases hl : mkLeaf f opEq a with
    | error err => simp [hl] at h
    | ok l =>
      simp only [hl, pure, Except.pure, Except.ok.injEq] at h
      subst h
      intro g hg
      simp [condFields, mkLeaf_field hl g (by simpa [toWhere_leaf] using hg)]
  | .badOp _ _, n, h => by simp [mkCond] at h
  | .badShape, n, h => by simp [mkCond] at h
  | .raw t, n, h => by
    simp only [mkCond, Except.ok.injEq] at h
    subst h
    intro g hg
    simpa [toWhere_leaf, leafWhere, whereFields, condFields] using hg
  | .or cs kw, n, h => by
    simp only [mkCond, bind, Except.bind] at h
    cases hx : mkConds cs with
    | error err => simp [hx] at h
    | ok xs =>
      cases hy : mkKw (sortKw kw) with
      | error err => simp [hx, hy] at h
      | ok ys =>
        simp only [hx, hy, pure, Except.pure, Except.ok.injEq] at h
        subst h
        intro g hg
        rw [whereFields_or, wheresFields_toWheres_append, List.mem_append] at hg
        simp only [condFields, List.mem_append]
        rcases hg with hg | hg
        · exact Or.inl (conds_fields cs xs hx g hg)
        · right
          have := kw_fields (sortKw kw) ys hy g hg
          simp only [List.mem_map] at this ⊢
          obtain ⟨ka, hka, rfl⟩ := this
          exact ⟨ka, (mem_sortKw ka kw).mp hka, rfl⟩
theorem conds_fields : ∀ (cs : List Cond) (ns : List NCond), mkConds cs = .ok ns →
    ∀ g ∈ wheresFields (toWheres ns).1, g ∈ condsFields cs
  | [], ns, h => by simp [mkConds] at h; subst h; simp [toWheres, wheresFields]
  | c :: cs, ns, h => by
    simp only [mkConds, bind, Except.bind] at h
    cases hx : mkCond c with
    | error err => simp [hx] at h
    | ok x =>
      cases hr : mkConds cs with
      | error err => simp [hx, hr] at h
      | ok xs =>
        simp only [hx, hr, pure, Except.pure, Except.ok.injEq] at h
        subst h
        intro g hg
        simp only [toWheres, wheresFields, List.mem_append] at hg
        simp only [condsFields, List.mem_append]
        rcases hg with hg | hg
        · exact Or.inl (cond_fields c x hx g hg)
        · exact Or.inr (conds_fields cs xs hr g hg)
end

theorem prepare_fields {pct : Bool} {st : Stmt} {call : Call} {p : Prepared} (h : prepare pct st call = .ok p) :
    ∀ g ∈ wheresFields p.conj, g ∈ call.fields := by
  obtain ⟨xs, ys, _, hx, hy, hc, _, _, _⟩ := prepare_ok h
  intro g hg
  rw [hc, wheresFields_toWheres_append, List.mem_append] at hg
  simp only [Call.fields, List.mem_append]
  rcases hg with hg | hg
  · exact Or.inl (conds_fields _ xs hx g hg)
  · right
    have := kw_fields _ ys hy g hg
    simp only [List.mem_map] at this ⊢
    obtain ⟨ka, hka, rfl⟩ := this
    exact ⟨ka, (mem_sortKw ka _).mp hka, rfl⟩

theorem cleanStr_iff (pct : Bool) (s : Str) : cleanStr pct s = true ↔ s.count (marker pct) = 0 := by
  simp [cleanStr]

/-- one placeholder mark per bound value -/
theorem prepare_count {pct : Bool} {st : Stmt} {call : Call} {p : Prepared} (h : prepare pct st call = .ok p)
    (hc : clean pct st call = true) : p.text.count (marker pct) = p.params.length := by
  obtain ⟨xs, ys, ord, hx, hy, hcj, hord, ht, hb⟩ := prepare_ok h
  simp only [clean, Bool.and_eq_true, List.all_eq_true, hord] at hc
  obtain ⟨⟨⟨hs, hg⟩, hf⟩, ho⟩ := hc
  rw [sqlText_count pct _ p.conj p.text ht
    (fun f hm => (cleanStr_iff pct f).mp (hf f (prepare_fields h f hm)))
    ((cleanStr_iff pct _).mp hs)
    (fun g hgb => by
      simp only [] at hgb
      rw [hgb] at hg
      exact (cleanStr_iff pct g).mp hg)
    (fun o hob => by
      simp only [] at hob
      subst hob
      exact (cleanStr_iff pct o).mp ho)]
  rw [bindAll_length hb, hcj, slots_toWheres]

/-! ## the text does not depend on the values -/

def Leaf.erase : Leaf → Leaf
  | .cmp f c a => .cmp f c a.erase
  | .inl f neg vs => .inl f neg (vs.map Value.erase)
  | .null f neg => .null f neg
  | .like f neg _ => .like f neg []
  | .raw t => .raw t

mutual
def NCond.erase : NCond → NCond
  | .leaf l => .leaf l.erase
  | .or cs => .or (eraseNConds cs)
def eraseNConds : List NCond → List NCond
  | [] => []
  | c :: cs => c.erase :: eraseNConds cs
end

def Prepared.erase (p : Prepared) : Prepared := { p with params := p.params.map Value.erase }

theorem mkLeaf_erase (f op : Str) (a : Arg) : mkLeaf f op a.erase = (mkLeaf f op a).map Leaf.erase := by
  unfold mkLeaf
  cases classify (upper op) with
  | none => rfl
  | some o =>
    rcases o with (c | neg | neg | neg)
    · cases c <;> cases a with
        | scalar v => cases v <;> rfl
        | list vs => rfl
        | set vs => rfl
    · cases a <;> rfl
    · cases a with
      | scalar v => cases v <;> rfl
      | list vs => rfl
      | set vs => rfl
    · cases a with
      | scalar v => cases v <;> rfl
      | list vs => rfl
      | set vs => rfl

theorem leafWhere_erase (l : Leaf) :
    leafWhere l.erase = ((leafWhere l).1, (leafWhere l).2.map Arg.erase) := by
  cases l with
  | cmp f c a => rfl
  | inl f neg vs =>
    by_cases he : vs.isEmpty
    · have : vs = [] := by simpa using he
      subst this; rfl
    · have he' : (vs.map Value.erase).isEmpty = false := by simpa using he
      simp [leafWhere, Leaf.erase, he, he', Arg.erase, Function.comp_def]
  | null f neg => rfl
  | like f neg p => rfl
  | raw t => rfl

theorem eraseNConds_append (xs ys : List NCond) :
    eraseNConds (xs ++ ys) = eraseNConds xs ++ eraseNConds ys := by
  induction xs with
  | nil => rfl
  | cons x xs ih => simp [eraseNConds, ih]

mutual
theorem toWhere_erase : ∀ (n : NCond), toWhere n.erase = ((toWhere n).1, (toWhere n).2.map Arg.erase)
  | .leaf l => by simp [NCond.erase, toWhere, leafWhere_erase]
  | .or [] => by simp [NCond.erase, eraseNConds, toWhere]
  | .or (c :: cs) => by
    have := toWheres_erase (c :: cs)
    simp only [NCond.erase, eraseNConds] at this ⊢
    simp [toWhere, this]
theorem toWheres_erase : ∀ (ns : List NCond),
    toWheres (eraseNConds ns) = ((toWheres ns).1, (toWheres ns).2.map Arg.erase)
  | [] => by simp [eraseNConds, toWheres]
  | n :: ns => by
    simp [eraseNConds, toWheres, toWhere_erase n, toWheres_erase ns]
end

theorem insertKw_erase (x : Str × Arg) (l : List (Str × Arg)) :
    insertKw (x.1, x.2.erase) (eraseKw l) = eraseKw (insertKw x l) := by
  induction l with
  | nil => rfl
  | cons y ys ih =>
    simp only [eraseKw, List.map_cons, insertKw] at ih ⊢
    split <;> simp [ih]

theorem sortKw_erase (l : List (Str × Arg)) : sortKw (eraseKw l) = eraseKw (sortKw l) := by
  induction l with
  | nil => rfl
  | cons x xs ih =>
    have : eraseKw (x :: xs) = (x.1, x.2.erase) :: eraseKw xs := rfl
    rw [this, sortKw, ih, insertKw_erase, sortKw]

theorem mkKw_erase : ∀ (kw : List (Str × Arg)), mkKw (eraseKw kw) = (mkKw kw).map eraseNConds
  | [] => rfl
  | (k, a) :: rest => by
    have : eraseKw ((k, a) :: rest) = (k, a.erase) :: eraseKw rest := rfl
    rw [this]
    simp only [mkKw, mkLeaf_erase, mkKw_erase rest, bind, Except.bind]
    cases mkLeaf k opEq a with
    | error e => rfl
    | ok l =>
      simp only [Except.map]
      cases mkKw rest with
      | error e => rfl
      | ok ls => simp [pure, Except.pure, eraseNConds, NCond.erase]

mutual
theorem mkCond_erase : ∀ (c : Cond), mkCond c.erase = (mkCond c).map NCond.erase
  | .triple f op a => by
    simp only [Cond.erase, mkCond, mkLeaf_erase, bind, Except.bind]
    cases mkLeaf f op a <;> simp [Except.map, pure, Except.pure, NCond.erase]
  | .pair f a => by
    simp only [Cond.erase, mkCond, mkLeaf_erase, bind, Except.bind]
    cases mkLeaf f opEq a <;> simp [Except.map, pure, Except.pure, NCond.erase]
  | .badOp _ _ => rfl
  | .badShape => rfl
  | .raw t => rfl
  | .or cs kw => by
    simp only [Cond.erase, mkCond, mkConds_erase cs, sortKw_erase, mkKw_erase, bind, Except.bind]
    cases mkConds cs with
    | error e => rfl
    | ok xs =>
      simp only [Except.map]
      cases mkKw (sortKw kw) with
      | error e => rfl
      | ok ys => simp [pure, Except.pure, NCond.erase, eraseNConds_append]
theorem mkConds_erase : ∀ (cs : List Cond), mkConds (eraseConds cs) = (mkConds cs).map eraseNConds
  | [] => rfl
  | c :: cs => by
    simp only [eraseConds, mkConds, mkCond_erase c, mkConds_erase cs, bind, Except.bind]
    cases mkCond c with
    | error e => rfl
    | ok x =>
      simp only [Except.map]
      cases mkConds cs with
      | error e => rfl
      | ok xs => simp [pure, Except.pure, eraseNConds]
end

theorem filterMap_eraseArgs (as : List (Option Cond)) :
    (eraseArgs as).filterMap id = eraseConds (as.filterMap id) := by
  induction as with
  | nil => rfl
  | cons a as ih =>
    cases a with
    | none => simpa [eraseArgs] using ih
    | some c => simp [eraseArgs, eraseConds, ih]

theorem bindAll_erase (as : List Arg) :
    bindAll (as.map Arg.erase) = (bindAll as).map (·.map Value.erase) := by
  induction as with
  | nil => rfl
  | cons a as ih =>
    cases a with
    | scalar v =>
      simp only [List.map_cons, Arg.erase, bindAll, ih, bind, Except.bind]
      cases bindAll as <;> simp [Except.map, pure, Except.pure]
    | list vs => rfl
    | set vs => rfl

theorem filterKwargs_eraseTopKw (kw : List (Str × Arg)) :
    filterKwargs (eraseTopKw kw) = eraseKw (filterKwargs kw) := by
  induction kw with
  | nil => rfl
  | cons x xs ih =>
    simp only [eraseTopKw, filterKwargs, eraseKw, List.map_cons, List.filter_cons] at ih ⊢
    by_cases hk : isOptionKey x.1 = true
    · simp [hk, ih]
    · simp [hk, ih]

theorem lookupKw_eraseTopKw (k : Str) (hk : isOptionKey k = true) (kw : List (Str × Arg)) :
    lookupKw k (eraseTopKw kw) = lookupKw k kw := by
  induction kw with
  | nil => rfl
  | cons x xs ih =>
    obtain ⟨k', a⟩ := x
    simp only [eraseTopKw, List.map_cons] at ih ⊢
    by_cases ho : isOptionKey k' = true
    · simp [ho, lookupKw, ih]
    · simp only [ho, Bool.false_eq_true, if_false, lookupKw]
      have : k' ≠ k := fun e => ho (e ▸ hk)
      simp [this, ih]

theorem orderKey_isOption : isOptionKey Gen.C15.orderKey = true := by simp [isOptionKey]

theorem orderClause_erase (st : Stmt) (kw : List (Str × Arg)) :
    orderClause st (eraseTopKw kw) = orderClause st kw := by
  simp [orderClause, lookupKw_eraseTopKw _ orderKey_isOption]

/-- forgetting the values of a call changes nothing but the bound values -/
theorem prepare_erase (pct : Bool) (st : Stmt) (call : Call) :
    prepare pct st call.erase = (prepare pct st call).map Prepared.erase := by
  simp only [prepare, filters, Call.erase, filterMap_eraseArgs, mkConds_erase, filterKwargs_eraseTopKw,
    sortKw_erase, mkKw_erase, orderClause_erase, bind, Except.bind]
  cases mkConds (call.args.filterMap id) with
  | error e => rfl
  | ok xs =>
    simp only [Except.map]
    cases mkKw (sortKw (filterKwargs call.kwargs)) with
    | error e => rfl
    | ok ys =>
      simp only [Except.map, pure, Except.pure, ← eraseNConds_append, toWheres_erase, bindAll_erase]
      cases orderClause st call.kwargs with
      | error e => rfl
      | ok ord =>
        simp only []
        cases sqlText pct { st with orderBy := ord } (toWheres (xs ++ ys)).1 with
        | error e => rfl
        | ok t =>
          simp only []
          cases bindAll (toWheres (xs ++ ys)).2 with
          | error e => rfl
          | ok vs => rfl

/-! ## nothing but `ValueError`, `AttributeError` or a refused parameter -/

mutual
theorem render_ok (pct : Bool) : ∀ (w : Where), ∃ t, render pct w = .ok t
  | .cmp f c => by
    obtain ⟨cl, hcl, -⟩ := clause_count pct (.cmp c)
    simp [render, hcl, bind, Except.bind, pure, Except.pure]
  | .inList f neg n => by
    obtain ⟨cl, hcl, -⟩ := clause_count pct (.isIn neg)
    obtain ⟨ph, hph, -⟩ := placeholder_count pct
    simp [render, hcl, hph, bind, Except.bind, pure, Except.pure]
  | .isNull f neg => by
    obtain ⟨cl, hcl, -⟩ := clause_count pct (.isNull neg)
    simp [render, hcl, bind, Except.bind, pure, Except.pure]
  | .like f neg => by
    obtain ⟨cl, hcl, -⟩ := clause_count pct (.like neg)
    simp [render, hcl, bind, Except.bind, pure, Except.pure]
  | .const b => by simp [render]
  | .false => by simp [render]
  | .raw t => by simp [render]
  | .or ws => by
    obtain ⟨ts, hts⟩ := renders_ok pct ws
    simp [render, hts, bind, Except.bind, pure, Except.pure]
theorem renders_ok (pct : Bool) : ∀ (ws : List Where), ∃ ts, renders pct ws = .ok ts
  | [] => ⟨[], rfl⟩
  | w :: ws => by
    obtain ⟨t, ht⟩ := render_ok pct w
    obtain ⟨ts, hts⟩ := renders_ok pct ws
    simp [renders, ht, hts, bind, Except.bind, pure, Except.pure]
end

theorem sqlText_ok (pct : Bool) (st : Stmt) (ws : List Where) : ∃ t, sqlText pct st ws = .ok t := by
  obtain ⟨ts, hts⟩ := renders_ok pct ws
  simp [sqlText, hts, bind, Except.bind, pure, Except.pure]

/-- the exceptions a constructor can raise -/
def CtorFail (e : Fail) : Prop := e = .py .valueError ∨ e = .py .attributeError

theorem mkLeaf_fail {f op : Str} {a : Arg} {e : Fail} (h : mkLeaf f op a = .error e) : e = .py .valueError := by
  unfold mkLeaf at h
  cases hc : classify (upper op) with
  | none => simp [hc] at h; exact h.symm
  | some o =>
    simp only [hc] at h
    rcases o with (c | neg | neg | neg)
    · cases c <;> first
        | (cases a with
           | scalar v => cases v <;> simp at h
           | list vs => simp at h
           | set vs => simp at h)
        | simp at h
    · cases a <;> simp at h; exact h.symm
    · cases a with
      | scalar v => cases v <;> simp at h <;> exact h.symm
      | list vs => simp at h; exact h.symm
      | set vs => simp at h; exact h.symm
    · cases a with
      | scalar v => cases v <;> simp at h <;> exact h.symm
      | list vs => simp at h; exact h.symm
      | set vs => simp at h; exact h.symm

theorem mkKw_fail : ∀ (kw : List (Str × Arg)) (e : Fail), mkKw kw = .error e → CtorFail e
  | [], e, h => by simp [mkKw] at h
  | (k, a) :: rest, e, h => by
    simp only [mkKw, bind, Except.bind] at h
    cases hl : mkLeaf k opEq a with
    | error err => simp [hl] at h; subst h; exact Or.inl (mkLeaf_fail hl)
    | ok l =>
      cases hr : mkKw rest with
      | error err => simp [hl, hr] at h; subst h; exact mkKw_fail rest _ hr
      | ok ls => simp [hl, hr, pure, Except.pure] at h

mutual
theorem mkCond_fail : ∀ (c : Cond) (e : Fail), mkCond c = .error e → CtorFail e
  | .triple f op a, e, h => by
    simp only [mkCond, bind, Except.bind] at h
    cases hl : mkLeaf f op a with
    | error err => simp [hl] at h; subst h; exact Or.inl (mkLeaf_fail hl)
    | ok l => simp [hl, pure, Except.pure] at h
  | .pair f a, e, h => by
    simp only [mkCond, bind, Except.bind] at h
    cases hl : mkLeaf f opEq a with
    | error err => simp [hl] at h; subst h; exact Or.inl (mkLeaf_fail hl)
    | ok l => simp [hl, pure, Except.pure] at h
  | .badOp _ _, e, h => by simp [mkCond] at h; exact Or.inr h.symm
  | .badShape, e, h => by simp [mkCond] at h; exact Or.inl h.symm
  | .raw t, e, h => by simp [mkCond] at h
  | .or cs kw, e, h => by
    simp only [mkCond, bind, Except.bind] at h
    cases hx : mkConds cs with
    | error err => simp [hx] at h; subst h; exact mkConds_fail cs _ hx
    | ok xs =>
      cases hy : mkKw (sortKw kw) with
      | error err => simp [hx, hy] at h; subst h; exact mkKw_fail _ _ hy
      | ok ys => simp [hx, hy, pure, Except.pure] at h
theorem mkConds_fail : ∀ (cs : List Cond) (e : Fail), mkConds cs = .error e → CtorFail e
  | [], e, h => by simp [mkConds] at h
  | c :: cs, e, h => by
    simp only [mkConds, bind, Except.bind] at h
    cases hx : mkCond c with
    | error err => simp [hx] at h; subst h; exact mkCond_fail c _ hx
    | ok x =>
      cases hr : mkConds cs with
      | error err => simp [hx, hr] at h; subst h; exact mkConds_fail cs _ hr
      | ok xs => simp [hx, hr, pure, Except.pure] at h
end

theorem bindAll_fail {as : List Arg} {e : Fail} (h : bindAll as = .error e) : e = .bind := by
  induction as with
  | nil => simp [bindAll] at h
  | cons a as ih =>
    cases a with
    | scalar v =>
      simp only [bindAll, bind, Except.bind] at h
      cases hr : bindAll as with
      | error err => simp [hr] at h; subst h; exact ih hr
      | ok r => simp [hr, pure, Except.pure] at h
    | list _ => simp [bindAll] at h; exact h.symm
    | set _ => simp [bindAll] at h; exact h.symm

theorem orderClause_fail {st : Stmt} {kw : List (Str × Arg)} {e : Fail} (h : orderClause st kw = .error e) :
    e = .py .typeError ∧ ∃ a, lookupKw Gen.C15.orderKey kw = some a ∧ a ≠ .scalar .null ∧
      ∀ s, a ≠ .scalar (.text s) := by
  unfold orderClause at h
  cases hl : lookupKw Gen.C15.orderKey kw with
  | none => simp [hl] at h
  | some a =>
    simp only [hl] at h
    cases a with
    | scalar v =>
      cases v with
      | null => simp at h
      | int i => simp at h; exact ⟨h.symm, _, rfl, by simp, by simp⟩
      | text s => simp at h
      | blob b => simp at h; exact ⟨h.symm, _, rfl, by simp, by simp⟩
      | obj k b => simp at h; exact ⟨h.symm, _, rfl, by simp, by simp⟩
    | list vs => simp at h; exact ⟨h.symm, _, rfl, by simp, by simp⟩
    | set vs => simp at h; exact ⟨h.symm, _, rfl, by simp, by simp⟩

theorem prepare_fail {pct : Bool} {st : Stmt} {call : Call} {e : Fail} (h : prepare pct st call = .error e) :
    CtorFail e ∨ e = .bind ∨
      (e = .py .typeError ∧ ∃ a, lookupKw Gen.C15.orderKey call.kwargs = some a ∧ a ≠ .scalar .null ∧
        ∀ s, a ≠ .scalar (.text s)) := by
  simp only [prepare, filters, bind, Except.bind] at h
  cases hx : mkConds (call.args.filterMap id) with
  | error err => simp [hx] at h; subst h; exact Or.inl (mkConds_fail _ _ hx)
  | ok xs =>
    cases hy : mkKw (sortKw (filterKwargs call.kwargs)) with
    | error err => simp [hx, hy] at h; subst h; exact Or.inl (mkKw_fail _ _ hy)
    | ok ys =>
      simp only [hx, hy, pure, Except.pure] at h
      cases ho : orderClause st call.kwargs with
      | error err => simp [ho] at h; subst h; exact Or.inr (Or.inr (orderClause_fail ho))
      | ok ord =>
        simp only [ho] at h
        obtain ⟨t, ht⟩ := sqlText_ok pct { st with orderBy := ord } (toWheres (xs ++ ys)).1
        simp only [ht] at h
        cases hb : bindAll (toWheres (xs ++ ys)).2 with
        | error err => simp [hb] at h; subst h; exact Or.inr (Or.inl (bindAll_fail hb))
        | ok vs => simp [hb] at h

/-! ## reading a piece of generated text -/

/-- the words of a text (split at blanks) -/
def wordsAux : Str → Str → List Str
  | cur, [] => if cur.isEmpty then [] else [cur.reverse]
  | cur, c :: cs =>
    if c = ' ' then (if cur.isEmpty then wordsAux [] cs else cur.reverse :: wordsAux [] cs)
    else wordsAux (c :: cur) cs

def words (s : Str) : List Str := wordsAux [] s

/-- the placeholder of a flavour -/
def phText (pct : Bool) : Str := if pct then "%s".toList else "?".toList

/-- the SQL spelling that a node of the `Where` AST stands for -/
def Op.sqlWords (pct : Bool) : Op → List Str
  | .cmp .eq => ["=".toList, phText pct]
  | .cmp .ne => ["!=".toList, phText pct]
  | .cmp .gt => [">".toList, phText pct]
  | .cmp .lt => ["<".toList, phText pct]
  | .cmp .ge => [">=".toList, phText pct]
  | .cmp .le => ["<=".toList, phText pct]
  | .isIn false => ["IN".toList]
  | .isIn true => ["NOT".toList, "IN".toList]
  | .isNull false => ["IS".toList, "NULL".toList]
  | .isNull true => ["IS".toList, "NOT".toList, "NULL".toList]
  | .like false => ["LIKE".toList, phText pct]
  | .like true => ["NOT".toList, "LIKE".toList, phText pct]

end SqlFilter
