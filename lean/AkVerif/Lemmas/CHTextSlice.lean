import AkVerif.Lemmas.CHText
/-!
Lemmas about the `CHText` model, part 2: Python's slice/index on plain lists (`pySlice`, `pyIndex`
against an index-level specification) and the refinement of `__getitem__`, `fixed_len` to them.
-/
namespace CHText
open Ak

/-! ### `pySlice` / `pyIndex` -/

theorem normBound_le (n : Nat) (x : Int) : normBound n x ≤ n := by
  unfold normBound
  split <;> split <;> omega

theorem sliceLo_le (n : Nat) (i : Option Int) : sliceLo n i ≤ n := by
  cases i <;> simp [sliceLo, normBound_le]

theorem sliceHi_le (n : Nat) (j : Option Int) : sliceHi n j ≤ n := by
  cases j <;> simp [sliceHi, normBound_le]

/-- the language reference: `s[i:j]` has the items with index `k`, `lo ≤ k < hi` -/
theorem pySlice_getElem? {α} (l : List α) (i j : Option Int) (k : Nat) :
    (pySlice l i j)[k]? =
      if sliceLo l.length i + k < sliceHi l.length j then l[sliceLo l.length i + k]? else none := by
  simp [pySlice, List.getElem?_drop, List.getElem?_take]

theorem pySlice_length {α} (l : List α) (i j : Option Int) :
    (pySlice l i j).length = sliceHi l.length j - sliceLo l.length i := by
  have := sliceHi_le l.length j
  simp [pySlice]
  omega

theorem pySlice_none_none {α} (l : List α) : pySlice l none none = l := by
  simp [pySlice, sliceHi, sliceLo]

/-- `s[:n]` for `0 ≤ n` is `take n` -/
theorem pySlice_none_nat {α} (l : List α) (n : Nat) : pySlice l none (some (n : Int)) = l.take n := by
  simp only [pySlice, sliceHi, sliceLo, List.drop_zero, normBound]
  have h1 : ¬ ((n : Int) < 0) := by omega
  simp only [h1, if_false]
  split
  · simp
  · rw [List.take_of_length_le (by omega), List.take_of_length_le (by omega)]

/-- `s[n:]` for `0 ≤ n` is `drop n` -/
theorem pySlice_nat_none {α} (l : List α) (n : Nat) : pySlice l (some (n : Int)) none = l.drop n := by
  simp only [pySlice, sliceHi, sliceLo, normBound, List.take_length]
  have h1 : ¬ ((n : Int) < 0) := by omega
  simp only [h1, if_false]
  split
  · simp
  · rw [List.drop_of_length_le (by omega), List.drop_of_length_le (by omega)]

/-- `s[-n:]` for `0 < n` is the last `n` items -/
theorem pySlice_neg_none {α} (l : List α) (n : Nat) (hn : 0 < n) :
    pySlice l (some (-(n : Int))) none = l.drop (l.length - n) := by
  simp only [pySlice, sliceHi, sliceLo, normBound, List.take_length]
  have h1 : (-(n : Int) < 0) := by omega
  simp only [h1, if_true]
  split
  · rw [show l.length - n = 0 by omega]
  · rw [show (-(n : Int) + (l.length : Int)).toNat = l.length - n by omega]

theorem pySlice_map {α β} (f : α → β) (l : List α) (i j : Option Int) :
    pySlice (l.map f) i j = (pySlice l i j).map f := by
  simp [pySlice, List.map_drop, List.map_take]

theorem pyIndex_map {α β} (f : α → β) (l : List α) (i : Int) :
    pyIndex (l.map f) i = (pyIndex l i).map f := by
  unfold pyIndex
  simp only [List.length_map, List.getElem?_map]
  generalize (if i < 0 then i + (l.length : Int) else i) = k
  by_cases hk : k < 0
  · simp only [hk, if_true]; rfl
  · simp only [hk, if_false]; cases l[k.toNat]? <;> rfl

/-- `s[i]` raises `IndexError` exactly for `i ≥ len` and `i < -len` -/
theorem pyIndex_error_iff {α} (l : List α) (i : Int) :
    (∃ e, pyIndex l i = .error e) ↔ (i ≥ l.length ∨ i < -(l.length : Int)) := by
  unfold pyIndex
  simp only []
  generalize hk : (if i < 0 then i + (l.length : Int) else i) = k
  have hk' : (i < 0 ∧ k = i + l.length) ∨ (0 ≤ i ∧ k = i) := by split at hk <;> omega
  by_cases h0 : k < 0
  · simp only [h0, if_true]
    constructor
    · intro _; omega
    · intro _; exact ⟨_, rfl⟩
  · simp only [h0, if_false]
    cases hg : l[k.toNat]? with
    | none =>
      have := List.getElem?_eq_none_iff.mp hg
      constructor
      · intro _; omega
      · intro _; exact ⟨_, rfl⟩
    | some a =>
      have := (List.getElem?_eq_some_iff.mp hg).1
      constructor
      · intro ⟨e, he⟩; cases he
      · intro hh; omega

/-- … and otherwise gives the item counted from the start / from the end -/
theorem pyIndex_ok {α} (l : List α) (i : Int) (a : α) (h : pyIndex l i = .ok a) :
    (0 ≤ i ∧ l[i.toNat]? = some a) ∨ (i < 0 ∧ -(l.length : Int) ≤ i ∧ l[(i + l.length).toNat]? = some a) := by
  unfold pyIndex at h
  simp only [] at h
  by_cases hi : i < 0
  · simp only [hi, if_true] at h
    by_cases h0 : i + (l.length : Int) < 0
    · simp only [h0, if_true] at h; cases h
    · simp only [h0, if_false] at h
      cases hg : l[(i + (l.length : Int)).toNat]? with
      | none => rw [hg] at h; cases h
      | some b => rw [hg] at h; cases h; exact Or.inr ⟨hi, by omega, rfl⟩
  · simp only [hi, if_false] at h
    cases hg : l[i.toNat]? with
    | none => rw [hg] at h; cases h
    | some b => rw [hg] at h; cases h; exact Or.inl ⟨by omega, rfl⟩

theorem pyIndex_error_eq {α} (l : List α) (i : Int) (e : Err) (h : pyIndex l i = .error e) :
    e = .indexError := by
  unfold pyIndex at h
  simp only [] at h
  generalize (if i < 0 then i + (l.length : Int) else i) = k at h
  by_cases h0 : k < 0
  · simp only [h0, if_true] at h; cases h; rfl
  · simp only [h0, if_false] at h
    cases hg : l[k.toNat]? with
    | none => rw [hg] at h; cases h; rfl
    | some b => rw [hg] at h; cases h

/-! ### `_get_chunk_pos` and the slice loop -/

theorem locate_none (cs : List Chunk) (p : Nat) : locate cs p = none ↔ (cellsOf cs).length ≤ p := by
  fun_induction locate cs p with
  | case1 p => simp
  | case2 c cs p h => simp; omega
  | case3 c cs p h ih => simp [ih]; omega

theorem locate_some (cs : List Chunk) (p : Nat) (c : Chunk) (q : Nat) (rest : List Chunk)
    (h : locate cs p = some (c, q, rest)) :
    q < c.text.length ∧ (cellsOf cs).drop p = cellsOf (⟨c.col, c.text.drop q⟩ :: rest) := by
  fun_induction locate cs p with
  | case1 p => cases h
  | case2 d ds p hlt =>
    cases h
    refine ⟨hlt, ?_⟩
    simp [List.drop_append, Chunk.cells, List.map_drop, show q - c.text.length = 0 by omega]
  | case3 d ds p hge ih =>
    obtain ⟨h1, h2⟩ := ih h
    refine ⟨h1, ?_⟩
    rw [← h2]
    simp [List.drop_append, List.drop_of_length_le (show d.cells.length ≤ p by simp; omega)]

theorem locate_getElem (cs : List Chunk) (p : Nat) (c : Chunk) (q : Nat) (rest : List Chunk)
    (h : locate cs p = some (c, q, rest)) :
    ∃ ch, c.text[q]? = some ch ∧ (cellsOf cs)[p]? = some (ch, c.col) := by
  fun_induction locate cs p with
  | case1 p => cases h
  | case2 d ds p hlt =>
    cases h
    refine ⟨c.text[q], List.getElem?_eq_getElem hlt, ?_⟩
    rw [cellsOf_cons, List.getElem?_append_left (by simpa using hlt)]
    simp [Chunk.cells, List.getElem?_eq_getElem hlt]
  | case3 d ds p hge ih =>
    obtain ⟨ch, h1, h2⟩ := ih h
    refine ⟨ch, h1, ?_⟩
    rw [cellsOf_cons, List.getElem?_append_right (by simp; omega)]
    simpa using h2

theorem takeChars_cells (cs : List Chunk) (n : Nat) : cellsOf (takeChars cs n) = (cellsOf cs).take n := by
  fun_induction takeChars cs n with
  | case1 n => simp
  | case2 c cs => simp
  | case3 c cs n h0 hle =>
    simp [Chunk.cells, List.take_append, List.map_take, show n - c.text.length = 0 by omega]
  | case4 c cs n h0 hgt ih =>
    rw [cellsOf_cons, ih, cellsOf_cons, List.take_append,
      List.take_of_length_le (show c.cells.length ≤ n by simp; omega)]
    simp

/-! ### `__getitem__`, `fixed_len` -/

theorem chBound_nonneg (n : Nat) (x : Int) : 0 ≤ chBound n x := by
  unfold chBound
  by_cases h1 : x < 0 <;> simp only [h1, if_true, if_false]
  · split <;> omega
  · omega

theorem normBound_chBound (n : Nat) (x : Int) : normBound n x = min (chBound n x).toNat n := by
  unfold normBound chBound
  by_cases h1 : x < 0 <;> simp only [h1, if_true, if_false]
  · split <;> split <;> omega
  · split <;> omega

theorem sliceStart_nat (n : Nat) (i : Option Int) :
    ∃ S : Nat, sliceStart n i = (S : Int) ∧ sliceLo n i = min S n := by
  cases i with
  | none => exact ⟨0, rfl, by simp [sliceLo]⟩
  | some x =>
    refine ⟨(chBound n x).toNat, ?_, ?_⟩
    · have := chBound_nonneg n x; simp only [sliceStart]; omega
    · simp [sliceLo, normBound_chBound]

theorem sliceStop_nat (n : Nat) (j : Option Int) :
    ∃ E : Nat, sliceStop n j = (E : Int) ∧ sliceHi n j = min E n := by
  cases j with
  | none => exact ⟨n, rfl, by simp [sliceHi]⟩
  | some x =>
    refine ⟨(chBound n x).toNat, ?_, ?_⟩
    · have := chBound_nonneg n x; simp only [sliceStop]; omega
    · simp [sliceHi, normBound_chBound]

/-- the natural-number core of `getSlice` -/
theorem slice_core (cs : List Chunk) (S E : Nat) (hSE : S < E) :
    (match locate cs S with
      | none => Text.empty
      | some (c, p, rest) => fromChunks (takeChars (⟨c.col, c.text.drop p⟩ :: rest) (E - S))).cells
    = ((cellsOf cs).take (min E (cellsOf cs).length)).drop (min S (cellsOf cs).length) := by
  cases hl : locate cs S with
  | none =>
    have := (locate_none cs S).mp hl
    simp only [Text.empty_cells]
    rw [List.drop_of_length_le]
    simp; omega
  | some r =>
    obtain ⟨c, p, rest⟩ := r
    obtain ⟨_, hd⟩ := locate_some cs S c p rest hl
    have hS : S < (cellsOf cs).length := by
      apply Classical.byContradiction
      intro hn
      have := (locate_none cs S).mpr (by omega)
      rw [hl] at this; cases this
    simp only [fromChunks_cells, takeChars_cells, ← hd]
    rw [show min S (cellsOf cs).length = S by omega, List.drop_take]
    by_cases hE : E ≤ (cellsOf cs).length
    · rw [show min E (cellsOf cs).length = E by omega]
    · rw [show min E (cellsOf cs).length = (cellsOf cs).length by omega,
        List.take_of_length_le (by simp; omega), List.take_of_length_le (by simp)]

/-- slicing a text is slicing the visible characters (Python semantics for `None`, negative and
out-of-range bounds) -/
theorem getSlice_cells (t : Text) (h : LenOK t) (i j : Option Int) :
    (t.getSlice i j).cells = pySlice t.cells i j := by
  unfold LenOK at h
  obtain ⟨S, hS, hlo⟩ := sliceStart_nat t.scrlen i
  obtain ⟨E, hE, hhi⟩ := sliceStop_nat t.scrlen j
  unfold Text.getSlice pySlice
  rw [← h]
  simp only [hS, hE, hlo, hhi]
  rw [h]
  by_cases hSE : S < E
  · rw [if_neg (by omega)]
    have hg : getChunkPos t.chunks (S : Int) = locate t.chunks S := by
      unfold getChunkPos
      rw [if_neg (by omega)]
      simp
    rw [hg, show ((E : Int) - (S : Int)).toNat = E - S by omega]
    exact slice_core t.chunks S E hSE
  · rw [if_pos (by omega)]
    simp only [Text.empty_cells]
    rw [List.drop_of_length_le]
    simp; omega

theorem getSlice_canon (t : Text) (i j : Option Int) : Canon (t.getSlice i j) := by
  unfold Text.getSlice
  simp only []
  split
  · exact canon_empty
  · split
    · exact canon_empty
    · exact fromChunks_canon _

/-- the one-character text made by `text[i]` -/
def cellText (x : Char × Colour) : Text := fromChunks [⟨x.2, [x.1]⟩]

theorem cellText_cells (x : Char × Colour) : (cellText x).cells = [x] := by
  simp [cellText, fromChunks_cells, Chunk.cells]

/-- indexing a text is indexing the visible characters, with `IndexError` in exactly the same cases -/
theorem getIndex_spec (t : Text) (h : LenOK t) (i : Int) :
    t.getIndex i = (pyIndex t.cells i).map cellText := by
  unfold LenOK at h
  unfold Text.getIndex pyIndex
  simp only []
  have hk : (if i < 0 then (t.scrlen : Int) + i else i) = (if i < 0 then i + (t.cells.length : Int) else i) := by
    split <;> omega
  rw [hk]
  generalize (if i < 0 then i + (t.cells.length : Int) else i) = k
  unfold getChunkPos
  by_cases hk0 : k < 0
  · simp [hk0]; rfl
  · simp only [hk0, if_false]
    cases hl : locate t.chunks k.toNat with
    | none =>
      have := (locate_none _ _).mp hl
      simp only []
      rw [show t.cells[k.toNat]? = none from List.getElem?_eq_none_iff.mpr this]
      rfl
    | some r =>
      obtain ⟨c, p, rest⟩ := r
      obtain ⟨ch, h1, h2⟩ := locate_getElem _ _ _ _ _ hl
      simp only [h1]
      rw [show t.cells[k.toNat]? = some (ch, c.col) from h2]
      rfl

theorem getIndex_canon (t r : Text) (i : Int) (h : t.getIndex i = .ok r) : Canon r := by
  unfold Text.getIndex at h
  simp only [] at h
  split at h
  · cases h
  · split at h
    · cases h; exact fromChunks_canon _
    · cases h

/-- `" " * n` really is made of spaces (the pad character is read from the source) -/
theorem spaces_eq (n : Nat) : spaces n = List.replicate n ' ' := by
  have : Gen.C08.padChar = ' ' := by decide
  rw [spaces, this]

/-- `s[:n].ljust(n)` on cells; for a negative `n` (outside the property) what the code does:
`s[:n]` -/
def pyFixedLen (cells : Cells) (n : Int) : Cells :=
  if n < cells.length then pySlice cells none (some n)
  else cells ++ plainCells (spaces (n - cells.length).toNat)

theorem pyFixedLen_nat (cells : Cells) (n : Nat) :
    pyFixedLen cells n = cells.take n ++ plainCells (spaces (n - cells.length)) := by
  unfold pyFixedLen
  split
  · rw [pySlice_none_nat, show n - cells.length = 0 by omega]; simp [spaces, plainCells]
  · rw [List.take_of_length_le (by omega), show ((n : Int) - (cells.length : Int)).toNat = n - cells.length by omega]

theorem fixedLen_cells (t : Text) (h : LenOK t) (n : Int) :
    (t.fixedLen n).cells = pyFixedLen t.cells n := by
  unfold LenOK at h
  unfold Text.fixedLen pyFixedLen
  simp only []
  by_cases h1 : n - (t.scrlen : Int) < 0
  · rw [if_pos h1, if_pos (show n < (t.cells.length : Int) by omega), getSlice_cells t h]
  · rw [if_neg h1, if_neg (show ¬ n < (t.cells.length : Int) by omega)]
    by_cases h2 : n - (t.scrlen : Int) > 0
    · rw [if_pos h2, add_cells, h]; rfl
    · rw [if_neg h2, show (n - (t.cells.length : Int)).toNat = 0 by omega, construct_cells]
      simp [spaces, plainCells, Part.cellsList, Part.cells]

theorem fixedLen_canon (t : Text) (n : Int) : Canon (t.fixedLen n) := by
  unfold Text.fixedLen
  simp only []
  split
  · exact getSlice_canon _ _ _
  · split
    · exact add_canon _ _
    · exact construct_canon _

/-! ### the chunk versions -/

theorem chunk_getIndex_spec (c : Chunk) (i : Int) :
    (c.getIndex i).map Chunk.cells = (pyIndex c.cells i).map (fun x => [x]) := by
  unfold Chunk.getIndex
  rw [Chunk.cells, pyIndex_map]
  cases pyIndex c.text i <;> rfl

theorem chunk_getSlice_cells (c : Chunk) (i j : Option Int) :
    (c.getSlice i j).cells = pySlice c.cells i j := by
  simp [Chunk.getSlice, Chunk.cells, pySlice_map]

theorem chunk_fixedLen_cells (c : Chunk) (n : Int) :
    (c.fixedLen n).cells = pyFixedLen c.cells n := by
  unfold Chunk.fixedLen pyFixedLen
  simp only [Chunk.cells_length]
  split
  · rw [if_neg (by omega), construct_cells]
    simp [Part.cellsList, Part.cells]
  · split
    · rw [if_pos (by omega), construct_cells]
      simp [Part.cellsList, Part.cells, Chunk.cells, pySlice_map]
    · rw [if_neg (by omega), construct_cells, show (n - (c.text.length : Int)).toNat = 0 by omega]
      simp [Part.cellsList, Part.cells, spaces, plainCells]

/-! ### iteration -/

theorem pyIndex_nat {α} (l : List α) (k : Nat) :
    pyIndex l (k : Int) = match l[k]? with
      | some a => .ok a
      | none => .error .indexError := by
  unfold pyIndex
  have h1 : ¬ ((k : Int) < 0) := by omega
  simp only [h1, if_false, Int.toNat_natCast]
  cases l[k]? <;> rfl

/-- the iteration loop over an object whose `[k]` is `pyIndex` of a list yields that list -/
theorem iterLoop_spec {α β} (l : List α) (f : α → β) (get : Nat → Except Err β)
    (hget : ∀ k : Nat, get k = (pyIndex l (k : Int)).map f) (fuel k : Nat) (hf : l.length < fuel + k)
    (hk : k ≤ l.length) :
    iterLoop get fuel k = .ok ((l.drop k).map f) := by
  induction fuel generalizing k with
  | zero => omega
  | succ fuel ih =>
    unfold iterLoop
    rw [hget k, pyIndex_nat]
    cases hk : l[k]? with
    | none =>
      have : l.drop k = [] := List.drop_of_length_le (List.getElem?_eq_none_iff.mp hk)
      simp [Except.map, this]
    | some a =>
      have hlt := (List.getElem?_eq_some_iff.mp hk).1
      simp only [Except.map]
      rw [ih (k + 1) (by omega) (by omega)]
      have hd : l.drop k = a :: l.drop (k + 1) := by
        rw [List.drop_eq_getElem_cons hlt]
        congr 1
        exact (List.getElem?_eq_some_iff.mp hk).2
      simp [hd]

/-- `list(text)` is the list of the one-character texts of its cells -/
theorem iter_spec (t : Text) (h : LenOK t) : t.iter = .ok (t.cells.map cellText) := by
  unfold Text.iter
  rw [iterLoop_spec t.cells cellText _ (fun k => getIndex_spec t h k) _ 0 (by omega) (by omega)]
  simp

theorem chunk_getIndex_eq (c : Chunk) (i : Int) :
    c.getIndex i = (pyIndex c.cells i).map (fun x => (⟨x.2, [x.1]⟩ : Chunk)) := by
  unfold Chunk.getIndex
  rw [Chunk.cells, pyIndex_map]
  cases pyIndex c.text i <;> rfl

/-- `list(chunk)` is the list of one-character chunks -/
theorem chunk_iter_spec (c : Chunk) :
    c.iter = .ok (c.cells.map (fun x => (⟨x.2, [x.1]⟩ : Chunk))) := by
  unfold Chunk.iter
  rw [iterLoop_spec c.cells _ _ (fun k => chunk_getIndex_eq c k) _ 0 (by simp) (by omega)]
  simp

end CHText
