import AkVerif.Model.GhistComp
import AkVerif.Lemmas.GhistBasic
/-!
`inBump` (`ComponentBump.get_rbuilds_in_bump`) computes the component builds reachable from `to_rbuild` through
parent builds along a path that does not touch `from_rbuilds`; on a linear build graph with a monotone pin this is
"contained in the new version and in none of the previous ones".
-/
namespace Ghist
open Ak

section
variable {β : Type} (g : Graph β)

/-- `RbAvoid g stop x t` : there is a path of parent builds from `t` down to `x` none of whose builds
(end points included) is in `stop` -/
inductive RbAvoid (stop : List Nat) : Nat → Nat → Prop
  | refl {t : Nat} {b : RB β} : t ∉ stop → g.findBuild t = some b → RbAvoid stop t t
  | step {x p t : Nat} {b : RB β} : t ∉ stop → g.findBuild t = some b → p ∈ b.parents → RbAvoid stop x p →
      RbAvoid stop x t

/-- `x` is `t` or an ancestor of `t` in the graph of builds: the version `t` contains the build `x` -/
def RbAnc (x t : Nat) : Prop := RbAvoid g [] x t

variable {g}

theorem RbAvoid.top_not_stop {stop : List Nat} {x t : Nat} (h : RbAvoid g stop x t) : t ∉ stop := by
  cases h with
  | refl h1 _ => exact h1
  | step h1 _ _ _ => exact h1

theorem RbAvoid.bottom_not_stop {stop : List Nat} {x t : Nat} (h : RbAvoid g stop x t) : x ∉ stop := by
  induction h with
  | refl h1 _ => exact h1
  | step _ _ _ _ ih => exact ih

theorem RbAvoid.anc {stop : List Nat} {x t : Nat} (h : RbAvoid g stop x t) : RbAnc g x t := by
  induction h with
  | refl _ h2 => exact .refl (by simp) h2
  | step _ h2 h3 _ ih => exact .step (by simp) h2 h3 ih

theorem RbAvoid.trans {stop : List Nat} {x y t : Nat} (h1 : RbAvoid g stop x y) (h2 : RbAvoid g stop y t) :
    RbAvoid g stop x t := by
  induction h2 with
  | refl _ _ => exact h1
  | step a b c _ ih => exact .step a b c ih

structure BumpStep (g : Graph β) (stop : List Nat) (targets : List Nat) (s0 s1 : List Nat) : Prop where
  sub : ∀ x ∈ s0, x ∈ s1
  tgt : ∀ t ∈ targets, t ∈ s1 ∨ t ∈ stop
  from_ : ∀ x ∈ s1, x ∈ s0 ∨ ∃ t ∈ targets, RbAvoid g stop x t
  closed : ∀ x ∈ s1, x ∉ s0 → x ∉ stop ∧ ∃ b, g.findBuild x = some b ∧ ∀ p ∈ b.parents, p ∈ s1 ∨ p ∈ stop

theorem bump_fold {stop : List Nat} (f : List Nat → Nat → Except Err (List Nat))
    (hf : ∀ s r s', f s r = .ok s' → BumpStep g stop [r] s s') :
    ∀ (l : List Nat) (s0 s1 : List Nat), l.foldlM f s0 = .ok s1 → BumpStep g stop l s0 s1 := by
  intro l
  induction l with
  | nil =>
    intro s0 s1 h; cases h
    exact ⟨fun x hx => hx, by simp, fun x hx => Or.inl hx, fun x hx hn => absurd hx hn⟩
  | cons a l ih =>
    intro s0 s1 h
    obtain ⟨s', h1, h2⟩ := foldlM_ok_cons f s0 s1 a l h
    have r1 := hf s0 a s' h1
    have r2 := ih s' s1 h2
    refine ⟨fun x hx => r2.sub x (r1.sub x hx), ?_, ?_, ?_⟩
    · intro t ht
      rcases List.mem_cons.mp ht with ht | ht
      · subst ht
        rcases r1.tgt t (by simp) with h3 | h3
        · exact Or.inl (r2.sub t h3)
        · exact Or.inr h3
      · exact r2.tgt t ht
    · intro x hx
      rcases r2.from_ x hx with h3 | ⟨t, ht, hr⟩
      · rcases r1.from_ x h3 with h4 | ⟨t, ht, hr⟩
        · exact Or.inl h4
        · simp at ht; subst ht; exact Or.inr ⟨_, by simp, hr⟩
      · exact Or.inr ⟨t, by simp [ht], hr⟩
    · intro x hx hn
      classical
      by_cases hx' : x ∈ s'
      · obtain ⟨h3, b, h4, h5⟩ := r1.closed x hx' hn
        refine ⟨h3, b, h4, fun p hp => ?_⟩
        rcases h5 p hp with h6 | h6
        · exact Or.inl (r2.sub p h6)
        · exact Or.inr h6
      · exact r2.closed x hx hx'

theorem inBump_spec (stop : List Nat) : ∀ (fuel : Nat) (s : List Nat) (r : Nat) (s' : List Nat),
    inBump g stop fuel s r = .ok s' → BumpStep g stop [r] s s' := by
  intro fuel
  induction fuel with
  | zero => intro s r s' h; simp [inBump] at h
  | succ fuel ih =>
    intro s r s' h
    rw [inBump] at h
    split at h
    · rename_i hc
      cases h
      refine ⟨fun x hx => hx, ?_, fun x hx => Or.inl hx, fun x hx hn => absurd hx hn⟩
      intro t ht
      simp at ht; subst ht
      simp only [Bool.or_eq_true, List.contains_eq_mem, decide_eq_true_eq] at hc
      rcases hc with hc | hc
      · exact Or.inr hc
      · exact Or.inl hc
    · rename_i hc
      simp only [Bool.or_eq_true, List.contains_eq_mem, decide_eq_true_eq, not_or] at hc
      split at h
      · cases h
      · rename_i b hb
        have rs := bump_fold (inBump g stop fuel) ih b.parents (r :: s) s' h
        refine ⟨fun x hx => rs.sub x (List.mem_cons_of_mem _ hx), ?_, ?_, ?_⟩
        · intro t ht; simp at ht; subst ht; exact Or.inl (rs.sub _ (by simp))
        · intro x hx
          rcases rs.from_ x hx with h1 | ⟨t, ht, hr⟩
          · rcases List.mem_cons.mp h1 with h1 | h1
            · subst h1; exact Or.inr ⟨_, by simp, .refl hc.1 hb⟩
            · exact Or.inl h1
          · exact Or.inr ⟨r, by simp, .step hc.1 hb ht hr⟩
        · intro x hx hn
          classical
          by_cases hxr : x = r
          · subst hxr; exact ⟨hc.1, b, hb, fun p hp => rs.tgt p hp⟩
          · exact rs.closed x hx (by simp [hxr, hn])

/-- the set returned by `get_rbuilds_in_bump` -/
theorem inBump_mem {stop : List Nat} {fuel t : Nat} {s : List Nat} (h : inBump g stop fuel [] t = .ok s) :
    ∀ x, x ∈ s ↔ RbAvoid g stop x t := by
  have rs := inBump_spec (g := g) stop fuel [] t s h
  intro x
  constructor
  · intro hx
    rcases rs.from_ x hx with h1 | ⟨t', ht', hr⟩
    · cases h1
    · simp at ht'; subst ht'; exact hr
  · intro hr
    have hts : t ∈ s := by
      rcases rs.tgt t (by simp) with h1 | h1
      · exact h1
      · exact absurd h1 hr.top_not_stop
    have hclosed := rs.closed
    clear h rs
    induction hr with
    | refl _ _ => exact hts
    | step h1 h2 h3 hr' ih =>
      obtain ⟨_, b', hb', hp'⟩ := hclosed _ hts (by simp)
      rw [h2] at hb'; cases hb'
      rcases hp' _ h3 with h4 | h4
      · exact ih h4
      · exact absurd h4 hr'.top_not_stop

/-! ### linear build graphs -/

/-- every build has at most one parent build (the component's reported builds form chains) -/
def LinearRb (g : Graph β) : Prop := ∀ x b, g.findBuild x = some b → b.parents.length ≤ 1

/-- parent builds have smaller ids -/
def TopoRb (g : Graph β) : Prop := ∀ x b, g.findBuild x = some b → ∀ p ∈ b.parents, p < x

theorem RbAvoid.le (ht : TopoRb g) {stop : List Nat} {x t : Nat} (h : RbAvoid g stop x t) : x ≤ t := by
  induction h with
  | refl _ _ => exact Nat.le_refl _
  | step _ h2 h3 _ ih => have := ht _ _ h2 _ h3; omega

theorem linear_parent_unique (hl : LinearRb g) {t : Nat} {b : RB β} (hb : g.findBuild t = some b) {p p' : Nat}
    (hp : p ∈ b.parents) (hp' : p' ∈ b.parents) : p = p' := by
  have hlen := hl _ _ hb
  cases hps : b.parents with
  | nil => rw [hps] at hp; cases hp
  | cons q r =>
    cases r with
    | nil => rw [hps] at hp hp'; simp at hp hp'; rw [hp, hp']
    | cons q2 r2 => rw [hps] at hlen; simp at hlen

/-- on a linear, acyclic build graph, with every `from` build contained in the target (the pin does not go back),
a build is returned by `get_rbuilds_in_bump` iff the target contains it and no `from` build does -/
theorem rbAvoid_linear (hl : LinearRb g) (ht : TopoRb g) {stop : List Nat} {t : Nat}
    (hmono : ∀ f ∈ stop, RbAnc g f t) (x : Nat) :
    RbAvoid g stop x t ↔ RbAnc g x t ∧ ∀ f ∈ stop, ¬ RbAnc g x f := by
  constructor
  · intro h
    refine ⟨h.anc, ?_⟩
    have key : ∀ f ∈ stop, RbAnc g f t → ¬ RbAnc g x f := by
      clear hmono
      induction h with
      | refl h1 h2 =>
        intro f hf hft hxf
        have h3 := RbAvoid.le ht hft
        have h4 := RbAvoid.le ht hxf
        have : f = _ := Nat.le_antisymm h3 h4
        subst this
        exact h1 hf
      | step h1 h2 h3 _ ih =>
        intro f hf hft
        cases hft with
        | refl _ _ => exact absurd hf h1
        | step _ h2' h3' hfp =>
          rw [h2] at h2'; cases h2'
          have := linear_parent_unique hl h2 h3 h3'
          subst this
          exact ih f hf hfp
    intro f hf
    exact key f hf (hmono f hf)
  · rintro ⟨h1, h2⟩
    induction h1 with
    | refl _ hb =>
      refine .refl ?_ hb
      intro hs; exact h2 _ hs (.refl (by simp) hb)
    | step _ hb hp hxp ih =>
      rename_i p t' b _h
      have ht' : t' ∉ stop := by
        intro hs
        exact h2 t' hs (.step (by simp) hb hp hxp)
      refine .step ht' hb hp (ih ?_)
      intro f hf
      have hft := hmono f hf
      cases hft with
      | refl _ _ => exact absurd hf ht'
      | step _ hb' hp' hfp =>
        rw [hb] at hb'; cases hb'
        have := linear_parent_unique hl hb hp hp'
        subst this
        exact hfp

end

end Ghist
