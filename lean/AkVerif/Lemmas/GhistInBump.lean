import AkVerif.Model.GhistComp
import AkVerif.Lemmas.GhistBasic
/-!
`inBump` (`ComponentBump.get_rbuilds_in_bump`) computes the component builds reachable from `to_rbuild` through
parent builds along a path that does not touch `from_rbuilds`; on a linear build graph with a monotone pin this is
"contained in the new version and in none of the previous ones".
-/
namespace Ghist
open Ak

section
variable {β : Type} (g : Graph β)

/-- `RbAvoid g stop x t` : there is a path of parent builds from `t` down to `x` none of whose builds
(end points included) is in `stop` -/
inductive RbAvoid (stop : List Nat) : Nat → Nat → Prop
  | refl {t : Nat} {b : RB β} : t ∉ stop → g.findBuild t = some b → RbAvoid stop t t
  | step {x p t : Nat} {b : RB β} : t ∉ stop → g.findBuild t = some b → p ∈ b.parents → RbAvoid stop x p →
      RbAvoid stop x t

/-- `x` is `t` or an ancestor of `t` in the graph of builds: the version `t` contains the build `x` -/
def RbAnc (x t : Nat) : Prop := RbAvoid g [] x t

variable {g}

theorem RbAvoid.top_not_stop {stop : List Nat} {x t : Nat} (h : RbAvoid g stop x t) : t ∉ stop := by
  cases h with
  | refl h1 _ => exact h1
  | step h1 _ _ _ => exact h1

theorem RbAvoid.bottom_not_stop {stop : List Nat} {x t : Nat} (h : RbAvoid g stop x t) : x ∉ stop := by
  induction h with
  | refl h1 _ => exact h1
  | step _ _ _ _ ih => exact ih

theorem RbAvoid.anc {stop : List Nat} {x t : Nat} (h : RbAvoid g stop x t) : RbAnc g x t := by
  induction h with
  | refl _ h2 => exact .refl (by simp) h2
  | step _ h2 h3 _ ih => exact .step (by simp) h2 h3 ih

theorem RbAvoid.trans {stop : List Nat} {x y t : Nat} (h1 : RbAvoid g stop x y) (h2 : RbAvoid g stop y t) :
    RbAvoid g stop x t := by
  induction h2 with
  | refl _ _ => exact h1
  | step a b c _ ih => exact .step a b c ih

structure BumpStep (g : Graph β) (stop : List Nat) (targets : List Nat) (s0 s1 : List Nat) : Prop where
  sub : ∀ x ∈ s0, x ∈ s1
  tgt : ∀ t ∈ targets, t ∈ s1 ∨ t ∈ stop
  from_ : ∀ x ∈ s1, x ∈ s0 ∨ ∃ t ∈ targets, RbAvoid g stop x t
  closed : ∀ x ∈ s1, x ∉ s0 → x ∉ stop ∧ ∃ b, g.findBuild x = some b ∧ ∀ p ∈ b.parents, p ∈ s1 ∨ p ∈ stop

theorem bump_fold {stop : List Nat} (f : List Nat → Nat → Except Err (List Nat))
    (hf : ∀ s r s', f s r = .ok s' → BumpStep g stop [r] s s') :
    ∀ (l : List Nat) (s0 s1 : List Nat), l.foldlM f s0 = .ok s1 → BumpStep g stop l s0 s1 := by
  intro l
  induction l with
  | nil =>
    intro s0 s1 h; cases h
    exact ⟨fun x hx => hx, by simp, fun x hx => Or.inl hx, fun x hx hn => absurd hx hn⟩
  | cons a l ih =>
    intro s0 s1 h
    obtain ⟨s', h1, h2⟩ := foldlM_ok_cons f s0 s1 a l h
    have r1 := hf s0 a s' h1
    have r2 := ih s' s1 h2
    refine ⟨fun x hx => r2.sub x (r1.sub x hx), ?_, ?_, ?_⟩
    · intro t ht
      rcases List.mem_cons.mp ht with ht | ht
      · subst ht
        rcases r1.tgt t (by simp) with h3 | h3
        · exact Or.inl (r2.sub t h3)
        · exact Or.inr h3
      · exact r2.tgt t ht
    · intro x hx
      rcases r2.from_ x hx with h3 | ⟨t, ht, hr⟩
      · rcases r1.from_ x h3 with h4 | ⟨t, ht, hr⟩
        · exact Or.inl h4
        · simp at ht; subst ht; exact Or.inr ⟨_, by simp, hr⟩
      · exact Or.inr ⟨t, by simp [ht], hr⟩
    · intro x hx hn
      classical
      by_cases hx' : x ∈ s'
      · obtain ⟨h3, b, h4, h5⟩ := r1.closed x hx' hn
        refine ⟨h3, b, h4, fun p hp => ?_⟩
        rcases h5 p hp with h6 | h6
        · exact Or.inl (r2.sub p h6)
        · exact Or.inr h6
      · exact r2.closed x hx hx'

theorem inBump_spec (stop : List Nat) : ∀ (fuel : Nat) (s : List Nat) (r : Nat) (s' : List Nat),
    inBump g stop fuel s r = .ok s' → BumpStep g stop [r] s s' := by
  intro fuel
  induction fuel with
  | zero => intro s r s' h; simp [inBump] at h
  | succ fuel ih =>
    intro s r s' h
    rw [inBump] at h
    split at h
    · rename_i hc
      cases h
      refine ⟨fun x hx => hx, ?_, fun x hx => Or.inl hx, fun x hx hn => absurd hx hn⟩
      intro t ht
      simp at ht; subst ht
      simp only [Bool.or_eq_true, List.contains_eq_mem, decide_eq_true_eq] at hc
      rcases hc with hc | hc
      · exact Or.inr hc
      · exact Or.inl hc
    · rename_i hc
      simp only [Bool.or_eq_true, List.contains_eq_mem, decide_eq_true_eq, not_or] at hc
      split at h
      · cases h
      · rename_i b hb
        have rs := bump_fold (inBump g stop fuel) ih b.parents (r :: s) s' h
        refine ⟨fun x hx => rs.sub x (List.mem_cons_of_mem _ hx), ?_, ?_, ?_⟩
        · intro t ht; simp at ht; subst ht; exact Or.inl (rs.sub _ (by simp))
        · intro x hx
          rcases rs.from_ x hx with h1 | ⟨t, ht, hr⟩
          · rcases List.mem_cons.mp h1 with h1 | h1
            · subst h1; exact Or.inr ⟨_, by simp, .refl hc.1 hb⟩
            · exact Or.inl h1
          · exact Or.inr ⟨r, by simp, .step hc.1 hb ht hr⟩
        · intro x hx hn
          classical
          by_cases hxr : x = r
          · subst hxr; exact ⟨hc.1, b, hb, fun p hp => rs.tgt p hp⟩
          · exact rs.closed x hx (by simp [hxr, hn])

/-- the set computed by a closure step that starts from the empty set -/
theorem bumpStep_mem {stop : List Nat} {l s : List Nat} (rs : BumpStep g stop l [] s) :
    ∀ x, x ∈ s ↔ ∃ t ∈ l, RbAvoid g stop x t := by
  intro x
  constructor
  · intro hx
    rcases rs.from_ x hx with h1 | h1
    · cases h1
    · exact h1
  · rintro ⟨t, ht, hr⟩
    have hts : t ∈ s := by
      rcases rs.tgt t ht with h1 | h1
      · exact h1
      · exact absurd h1 hr.top_not_stop
    have hclosed := rs.closed
    clear rs ht
    induction hr with
    | refl _ _ => exact hts
    | step h1 h2 h3 hr' ih =>
      obtain ⟨_, b', hb', hp'⟩ := hclosed _ hts (by simp)
      rw [h2] at hb'; cases hb'
      rcases hp' _ h3 with h4 | h4
      · exact ih h4
      · exact absurd h4 hr'.top_not_stop

/-- the set returned by the DFS of `get_rbuilds_in_bump` -/
theorem inBump_mem {stop : List Nat} {fuel t : Nat} {s : List Nat} (h : inBump g stop fuel [] t = .ok s) :
    ∀ x, x ∈ s ↔ RbAvoid g stop x t := by
  intro x
  rw [bumpStep_mem (inBump_spec (g := g) stop fuel [] t s h) x]
  simp

theorem rbClosure_eq_inBump : ∀ (fuel : Nat) (seen : List Nat) (x : Nat),
    rbClosure g fuel seen x = inBump g [] fuel seen x := by
  intro fuel
  induction fuel with
  | zero => intro seen x; simp [rbClosure, inBump]
  | succ fuel ih =>
    intro seen x
    rw [rbClosure, inBump]
    have : rbClosure g fuel = inBump g [] fuel := by funext s y; exact ih s y
    simp [this]

/-- `known_iids` : the `from` builds and every build they contain -/
theorem known_mem {from_ known : List Nat}
    (h : from_.foldlM (fun seen f => rbClosure g (f + 1) seen f) [] = .ok known) :
    ∀ y, y ∈ known ↔ ∃ f ∈ from_, RbAnc g y f := by
  have rs := bump_fold (g := g) (stop := []) (fun seen f => rbClosure g (f + 1) seen f)
    (by
      intro s r s' hr
      rw [rbClosure_eq_inBump] at hr
      exact inBump_spec [] (r + 1) s r s' hr)
    from_ [] known h
  exact bumpStep_mem rs

theorem RbAnc.trans {x y t : Nat} (h1 : RbAnc g x y) (h2 : RbAnc g y t) : RbAnc g x t :=
  RbAvoid.trans h1 h2

/-- what `get_rbuilds_in_bump` returns (after 88b742a): the builds that the new version contains and none of the
previous versions does — for every shape of the component's build graph -/
theorem rbAvoid_known {from_ known : List Nat} (hk : ∀ y, y ∈ known ↔ ∃ f ∈ from_, RbAnc g y f) (x t : Nat) :
    RbAvoid g known x t ↔ RbAnc g x t ∧ ∀ f ∈ from_, ¬ RbAnc g x f := by
  constructor
  · intro h
    refine ⟨h.anc, ?_⟩
    intro f hf hxf
    exact h.bottom_not_stop ((hk x).mpr ⟨f, hf, hxf⟩)
  · rintro ⟨h1, h2⟩
    have hx : x ∉ known := fun hin => by
      obtain ⟨f, hf, hxf⟩ := (hk x).mp hin
      exact h2 f hf hxf
    induction h1 with
    | refl _ hb => exact .refl hx hb
    | step _ hb hp hxp ih =>
      rename_i p t' b _h
      have ht' : t' ∉ known := by
        intro hin
        obtain ⟨f, hf, htf⟩ := (hk t').mp hin
        exact h2 f hf (RbAnc.trans (.step (by simp) hb hp hxp) htf)
      exact .step ht' hb hp ih

end

end Ghist
