import AkVerif.Lemmas.Xls
/-!
Helper lemmas for C18, sixth part: the converters of the package (`stdConvFn`): `str.strip()`,
`CellList`'s item splitting, the exception class of a failed conversion.
-/
namespace Xls
open Ak

/-! ## `str.strip()` -/

theorem head?_dropWhile_not (p : Char → Bool) (l : List Char) (c : Char)
    (h : (l.dropWhile p).head? = some c) : p c = false := by
  have := List.head?_dropWhile_not p l
  rw [h] at this
  exact this

/-- a stripped string does not start with white space -/
theorem strip_head (s : List Char) (c : Char) (h : (strip s).head? = some c) : isSpace c = false := by
  unfold strip at h
  rw [List.head?_reverse] at h
  -- the last element of a non-empty suffix is the last element of the list
  have hsuf := List.takeWhile_append_dropWhile (p := isSpace) (l := (s.dropWhile isSpace).reverse)
  have hl : ((s.dropWhile isSpace).reverse).getLast? = some c := by
    rw [← hsuf, List.getLast?_append, h]; rfl
  rw [List.getLast?_reverse] at hl
  exact head?_dropWhile_not isSpace s c hl

/-- … and does not end with white space -/
theorem strip_last (s : List Char) (c : Char) (h : (strip s).getLast? = some c) : isSpace c = false := by
  unfold strip at h
  rw [List.getLast?_reverse] at h
  exact head?_dropWhile_not isSpace _ c h

theorem dropWhile_clean (p : Char → Bool) (l : List Char) (h : ∀ c, l.head? = some c → p c = false) :
    l.dropWhile p = l := by
  cases l with
  | nil => rfl
  | cons a as =>
    have := h a rfl
    simp [this]

theorem strip_clean (t : List Char) (h1 : ∀ c, t.head? = some c → isSpace c = false)
    (h2 : ∀ c, t.getLast? = some c → isSpace c = false) : strip t = t := by
  unfold strip
  rw [dropWhile_clean isSpace t h1,
    dropWhile_clean isSpace t.reverse (fun c hc => h2 c (by rw [← List.head?_reverse]; exact hc)),
    List.reverse_reverse]

/-- stripping twice is stripping once -/
theorem strip_strip (s : List Char) : strip (strip s) = strip s :=
  strip_clean _ (strip_head s) (strip_last s)

theorem strip_sublist (s : List Char) : (strip s).Sublist s := by
  unfold strip
  have h1 : ((s.dropWhile isSpace).reverse.dropWhile isSpace).Sublist (s.dropWhile isSpace).reverse :=
    List.dropWhile_sublist _
  have h2 : ((s.dropWhile isSpace).reverse.dropWhile isSpace).reverse.Sublist (s.dropWhile isSpace) := by
    have := List.reverse_sublist.mpr h1
    rwa [List.reverse_reverse] at this
  exact h2.trans (List.dropWhile_sublist _)

/-! ## `CellList`: items -/

theorem splitOnChar_ne_nil (sep : Char) (s : List Char) : splitOnChar sep s ≠ [] := by
  unfold splitOnChar
  induction s with
  | nil => simp
  | cons c cs ih =>
    simp only [List.foldr_cons]
    split
    · split <;> simp
    · simp

theorem splitOnChar_no_sep (sep : Char) : ∀ (s : List Char), ∀ piece ∈ splitOnChar sep s, sep ∉ piece := by
  intro s
  unfold splitOnChar
  induction s with
  | nil => intro piece hp; simp at hp; subst hp; simp
  | cons c cs ih =>
    intro piece hp
    simp only [List.foldr_cons] at hp
    split at hp
    · rename_i cur rest hacc
      rw [hacc] at ih
      split at hp
      · simp only [List.mem_cons] at hp
        rcases hp with hp | hp | hp
        · subst hp; simp
        · rw [hp]; exact ih cur (by simp)
        · exact ih piece (by simp [hp])
      · rename_i hne
        simp only [List.mem_cons] at hp
        rcases hp with hp | hp
        · subst hp
          simp only [List.mem_cons, not_or]
          exact ⟨fun h => hne h.symm, ih cur (by simp)⟩
        · exact ih piece (by simp [hp])
    · simp only [List.mem_singleton] at hp
      rename_i hacc
      exact absurd hacc (by
        have := splitOnChar_ne_nil sep cs
        unfold splitOnChar at this
        exact this)

/-- the pieces are made of characters of the string -/
theorem splitOnChar_mem (sep : Char) : ∀ (s : List Char), ∀ piece ∈ splitOnChar sep s,
    ∀ c ∈ piece, c ∈ s := by
  intro s
  unfold splitOnChar
  induction s with
  | nil => intro piece hp c hc; simp at hp; subst hp; simp at hc
  | cons x xs ih =>
    intro piece hp c hc
    simp only [List.foldr_cons] at hp
    split at hp
    · rename_i cur rest hacc
      rw [hacc] at ih
      split at hp
      · simp only [List.mem_cons] at hp
        rcases hp with hp | hp | hp
        · subst hp; simp at hc
        · rw [hp] at hc; exact List.mem_cons_of_mem _ (ih cur (by simp) c hc)
        · exact List.mem_cons_of_mem _ (ih piece (by simp [hp]) c hc)
      · simp only [List.mem_cons] at hp
        rcases hp with hp | hp
        · subst hp
          simp only [List.mem_cons] at hc
          rcases hc with hc | hc
          · simp [hc]
          · exact List.mem_cons_of_mem _ (ih cur (by simp) c hc)
        · exact List.mem_cons_of_mem _ (ih piece (by simp [hp]) c hc)
    · simp only [List.mem_singleton] at hp
      subst hp
      simp only [List.mem_singleton] at hc
      simp [hc]

/-- every item of a list cell is non-empty, stripped, and contains neither ',' nor a newline -/
theorem listItems_spec (s : List Char) : ∀ i ∈ listItems s,
    i ≠ [] ∧ strip i = i ∧ ',' ∉ i ∧ '\n' ∉ i := by
  intro i hi
  unfold listItems at hi
  simp only [List.mem_filter, List.mem_map] at hi
  obtain ⟨⟨piece, hp, hpi⟩, hne⟩ := hi
  subst hpi
  have hnc := splitOnChar_no_sep ',' _ piece hp
  refine ⟨by intro h; simp [h] at hne, strip_strip piece, ?_, ?_⟩
  · exact fun h => hnc ((strip_sublist piece).mem h)
  · intro h
    have hmem : '\n' ∈ piece := (strip_sublist piece).mem h
    -- no newline survives the replacement, hence none in any piece
    have := splitOnChar_mem ',' _ piece hp '\n' hmem
    simp only [List.mem_map] at this
    obtain ⟨c, _, hc⟩ := this
    split at hc
    · cases hc
    · rename_i hcn; exact hcn hc

/-! ## exception class of a failed conversion -/

theorem cellBool_error (t : BoolTables) (v : Val) (e : Err) (h : cellBool t v = .error e) :
    e = .valueError := by
  unfold cellBool at h
  split at h
  · cases h
  · split at h
    · cases h
    · split at h
      · cases h
      · cases h; rfl

theorem cellBool_ok (t : BoolTables) (v : Val) (x : StdV) (h : cellBool t v = .ok x) :
    x = .none ∨ x = .bool true ∨ x = .bool false := by
  unfold cellBool at h
  split at h
  · cases h; exact Or.inl rfl
  · split at h
    · cases h; exact Or.inr (Or.inl rfl)
    · split at h
      · cases h; exact Or.inr (Or.inr rfl)
      · cases h

/-- `CellBool` with any tables: a value of the none table is `None` whatever the other tables say, else a value
of the true table is `True`, else a value of the false table is `False`; nothing else is accepted -/
theorem cellBool_spec (t : BoolTables) (v : Val) :
    (inTable t.noneInts t.noneStrs t.noneNone v = true → cellBool t v = .ok .none) ∧
    (inTable t.noneInts t.noneStrs t.noneNone v = false →
      (inTable t.trueInts t.trueStrs t.trueNone v = true → cellBool t v = .ok (.bool true)) ∧
      (inTable t.trueInts t.trueStrs t.trueNone v = false →
        (inTable t.falseInts t.falseStrs t.falseNone v = true → cellBool t v = .ok (.bool false)) ∧
        (inTable t.falseInts t.falseStrs t.falseNone v = false → cellBool t v = .error .valueError))) := by
  unfold cellBool
  refine ⟨fun h => by simp [h], fun h => ⟨fun h1 => by simp [h, h1], fun h1 => ⟨fun h2 => by simp [h, h1, h2],
    fun h2 => by simp [h, h1, h2]⟩⟩⟩

theorem stdConv_error (ct : Nat) (hct : ct ≤ 12) (v : Val) (e : Err) (h : stdConvFn ct v = .error e) :
    e = .valueError := by
  unfold stdConvFn at h
  match ct, hct with
  | 0, _ => simp only [] at h; split at h <;> cases h
  | 1, _ =>
    simp only [] at h
    split at h
    · cases h
    · cases v <;> simp at h <;> exact h.symm
  | 2, _ => exact cellBool_error _ v e h
  | 3, _ => simp only [] at h; split at h <;> cases h
  | 4, _ =>
    simp only [] at h
    split at h
    · cases h
    · cases v <;> simp at h <;> exact h.symm
  | 5, _ => simp at h
  | 6, _ => cases v <;> simp at h <;> exact h.symm
  | 7, _ => cases v <;> simp at h <;> exact h.symm
  | 8, _ => cases v <;> simp at h <;> exact h.symm
  | 9, _ | 10, _ | 11, _ | 12, _ => exact cellBool_error _ v e h

end Xls
