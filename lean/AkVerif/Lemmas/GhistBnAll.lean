import AkVerif.Lemmas.GhistBnMap
import AkVerif.Lemmas.GhistCompSide
/-!
The repository-wide `bn_map` (`Graph.bnMapAll`): with build numbers that are unique to their commits, the entry of a
build number is the one of the branch in which the tagged commit was first read.
-/
namespace Ghist
open Ak

section
variable {π β : Type} {h : Hist π}

/-! ### keys of a dictionary built by `dset` are unique -/

def bkeys {ν} (l : List (BN × ν)) : List BN := l.map (·.1)

theorem bkeys_dset {ν} (k : BN) (v : ν) : ∀ (m : List (BN × ν)), (bkeys m).Nodup →
    (bkeys (dset k v m)).Nodup ∧ ∀ x, x ∈ bkeys (dset k v m) ↔ x = k ∨ x ∈ bkeys m := by
  intro m
  induction m with
  | nil => intro _; simp [dset, bkeys]
  | cons a m ih =>
    intro hnd
    obtain ⟨k0, v0⟩ := a
    simp only [bkeys, List.map_cons, List.nodup_cons] at hnd
    simp only [dset]
    by_cases h0 : k0 = k
    · subst h0
      simp only [beq_self_eq_true, if_true, bkeys, List.map_cons, List.nodup_cons]
      refine ⟨hnd, fun x => by simp⟩
    · have h0' : (k0 == k) = false := by simpa using h0
      simp only [h0', Bool.false_eq_true, if_false, bkeys, List.map_cons, List.nodup_cons]
      obtain ⟨h1, h2⟩ := ih hnd.2
      refine ⟨⟨?_, h1⟩, ?_⟩
      · intro hk
        rcases (h2 k0).mp hk with h3 | h3
        · exact h0 h3
        · exact hnd.1 h3
      · intro x
        simp only [List.mem_cons]
        have := h2 x
        simp only [bkeys] at this
        rw [this]
        constructor
        · rintro (h3 | h3 | h3)
          · exact Or.inr (Or.inl h3)
          · exact Or.inl h3
          · exact Or.inr (Or.inr h3)
        · rintro (h3 | h3 | h3)
          · exact Or.inr (Or.inl h3)
          · exact Or.inl h3
          · exact Or.inr (Or.inr h3)

theorem bkeys_setAll (bns : List BN) (i : Nat) : ∀ (m : List (BN × Nat)), (bkeys m).Nodup →
    (bkeys (setAll bns i m)).Nodup := by
  unfold setAll
  induction bns with
  | nil => intro m h; simpa using h
  | cons b bns ih => intro m h; rw [List.foldl_cons]; exact ih _ (bkeys_dset b i m h).1

theorem bkeys_foldl_setAll (bns : List BN) : ∀ (pb : List Nat) (m : List (BN × Nat)), (bkeys m).Nodup →
    (bkeys (pb.foldl (fun m rb => setAll bns rb m) m)).Nodup := by
  intro pb
  induction pb with
  | nil => intro m h; exact h
  | cons p pb ih => intro m h; rw [List.foldl_cons]; exact ih _ (bkeys_setAll _ _ _ h)

theorem finish_bkeys {pl : Plug π β} {head : Nat} {st st' : St β} {c : Nat} {cm : Commit π} {fr : List Nat}
    (hk : (bkeys st.br.bnMap).Nodup) {rel : List Nat} (hf : finish pl head rel st c cm fr = .ok st') : (bkeys st'.br.bnMap).Nodup := by
  cases finish_cases hf with
  | irrelevant => exact hk
  | plain => exact hk
  | plainMatch => exact hk
  | skip bpar new pb pbs bumps => exact bkeys_foldl_setAll _ _ _ hk
  | build bpar new pb pbs bumps bn na => exact bkeys_setAll _ _ _ hk

theorem visit_bkeys (hT : h.Topo) {pl : Plug π β} {head : Nat} {fuel : Nat} {s s' : St β}
    {acc acc' : List Nat} {c : Nat} (hk : (bkeys s.br.bnMap).Nodup)
    {rel : List Nat} (hv : visit h pl head fuel rel (s, acc) c = .ok (s', acc')) : (bkeys s'.br.bnMap).Nodup := by
  have H : VisitHyps h pl head (fun s => (bkeys s.br.bnMap).Nodup) (fun _ _ _ => True) (fun _ _ => True)
      (fun _ => True) :=
    { Rrefl := fun _ => trivial, Rtrans := fun _ _ => trivial, Qmono := fun _ _ _ _ => trivial
      Qnil := fun _ _ => trivial, Qcls := fun _ _ _ _ => trivial, Vstep := fun _ _ _ => trivial
      Hfin := fun hP _ _ _ _ hf => ⟨finish_bkeys hP hf, trivial⟩ }
  exact (visit_ind hT H fuel s [] acc c s' acc' hk trivial trivial hv).1

/-! ### the fold that builds the repository-wide map -/

theorem lookup_fold_dset (j : Nat) : ∀ (l : List (BN × Nat)) (m : List (BN × Nat × Nat)) (bn : BN),
    (bkeys l).Nodup →
    (l.foldl (fun m e => dset e.1 (j, e.2) m) m).lookup bn =
      match l.lookup bn with
      | some i => some (j, i)
      | none => m.lookup bn := by
  intro l
  induction l with
  | nil => intro m bn _; simp
  | cons a l ih =>
    intro m bn hnd
    obtain ⟨k, v⟩ := a
    simp only [bkeys, List.map_cons, List.nodup_cons] at hnd
    rw [List.foldl_cons, ih _ bn hnd.2]
    rw [List.lookup_cons]
    by_cases hk : bn = k
    · subst hk
      have hl : l.lookup bn = none := by
        cases hl' : l.lookup bn with
        | none => rfl
        | some i =>
          exfalso
          apply hnd.1
          have := lookup_some_mem hl'
          exact List.mem_map.mpr ⟨(bn, i), this, rfl⟩
      simp only [hl, beq_self_eq_true]
      rw [lookup_dset]; simp
    · have : (bn == k) = false := by simpa using hk
      simp only [this]
      cases hl : l.lookup bn with
      | some i => rfl
      | none => simp only; rw [lookup_dset]; simp [hk]

theorem go_lookup_some (bn : BN) : ∀ (rbs : List (RBranch β)) (j : Nat) (m : List (BN × Nat × Nat)) (e : Nat × Nat),
    (∀ rb ∈ rbs, (bkeys rb.bnMap).Nodup) → (Graph.bnMapAll.go j rbs m).lookup bn = some e →
    m.lookup bn = some e ∨ ∃ k rb, rbs[k]? = some rb ∧ e.1 = j + k ∧ rb.bnMap.lookup bn = some e.2 := by
  intro rbs
  induction rbs with
  | nil => intro j m e _ hl; simp only [Graph.bnMapAll.go] at hl; exact Or.inl hl
  | cons rb rbs ih =>
    intro j m e hnd hl
    simp only [Graph.bnMapAll.go] at hl
    rcases ih (j + 1) _ e (fun r hr => hnd r (by simp [hr])) hl with h1 | ⟨k, rb', h2, h3, h4⟩
    · rw [lookup_fold_dset j rb.bnMap m bn (hnd rb (by simp))] at h1
      cases hrl : rb.bnMap.lookup bn with
      | none => rw [hrl] at h1; exact Or.inl h1
      | some i =>
        rw [hrl] at h1
        simp only [Option.some.injEq] at h1
        subst h1
        exact Or.inr ⟨0, rb, by simp, by simp, hrl⟩
    · exact Or.inr ⟨k + 1, rb', by simpa using h2, by omega, h4⟩

theorem go_lookup_unique (bn : BN) : ∀ (rbs : List (RBranch β)) (j : Nat) (m : List (BN × Nat × Nat))
    (k0 : Nat) (rb0 : RBranch β) (i : Nat), (∀ rb ∈ rbs, (bkeys rb.bnMap).Nodup) →
    rbs[k0]? = some rb0 → rb0.bnMap.lookup bn = some i →
    (∀ k rb, rbs[k]? = some rb → k ≠ k0 → rb.bnMap.lookup bn = none) →
    (Graph.bnMapAll.go j rbs m).lookup bn = some (j + k0, i) := by
  intro rbs
  induction rbs with
  | nil => intro j m k0 rb0 i _ h0; simp at h0
  | cons rb rbs ih =>
    intro j m k0 rb0 i hnd h0 hi hother
    simp only [Graph.bnMapAll.go]
    cases k0 with
    | zero =>
      simp at h0; subst h0
      -- no later branch has the number: the entry written for this branch survives
      have hrest : ∀ (l : List (RBranch β)) (j' : Nat) (m' : List (BN × Nat × Nat)),
          (∀ r ∈ l, (bkeys r.bnMap).Nodup) → (∀ r ∈ l, r.bnMap.lookup bn = none) →
          (Graph.bnMapAll.go j' l m').lookup bn = m'.lookup bn := by
        intro l
        induction l with
        | nil => intro j' m' _ _; simp [Graph.bnMapAll.go]
        | cons r l ihl =>
          intro j' m' hn hno
          simp only [Graph.bnMapAll.go]
          rw [ihl _ _ (fun x hx => hn x (by simp [hx])) (fun x hx => hno x (by simp [hx]))]
          rw [lookup_fold_dset j' r.bnMap m' bn (hn r (by simp)), hno r (by simp)]
      rw [hrest rbs (j + 1) _ (fun r hr => hnd r (by simp [hr]))
        (fun r hr => by
          obtain ⟨k, hk⟩ := List.mem_iff_getElem?.mp hr
          exact hother (k + 1) r (by simpa using hk) (by omega))]
      rw [lookup_fold_dset j rb.bnMap m bn (hnd rb (by simp)), hi]
      simp
    | succ k0 =>
      have := ih (j + 1) (rb.bnMap.foldl (fun m e => dset e.1 (j, e.2) m) m) k0 rb0 i
        (fun r hr => hnd r (by simp [hr])) (by simpa using h0) hi
        (fun k r hk hne => hother (k + 1) r (by simpa using hk) (by omega))
      rw [this]
      congr 2; omega

/-! ### to the final graph -/

theorem GoodB.ext {rcs : List RC} {rb : RBranch β}
    (hb : ∀ bd ∈ rb.rbuilds, bd.rcommit.isSome = true → bd.iid < rcs.length) (ext : List RC) (c i : Nat) :
    GoodB h (rcs ++ ext) rb c i ↔ GoodB h rcs rb c i := by
  have hba : ∀ bd ∈ rb.rbuilds, ∀ e, BuildAt (rcs ++ ext) bd e ↔ BuildAt rcs bd e :=
    fun bd hbd e => BuildAt.ext (hb bd hbd) e
  constructor
  · rintro ⟨bi, hbi, hi, ei, hbe, hcase⟩
    refine ⟨bi, hbi, hi, ei, (hba bi hbi ei).mp hbe, ?_⟩
    rcases hcase with h1 | ⟨h1, h2, h3, h4⟩
    · exact Or.inl h1
    · refine Or.inr ⟨h1, h2, ?_, ?_⟩
      · rintro ⟨bq, hbq, hq⟩; exact h3 ⟨bq, hbq, (hba bq hbq c).mpr hq⟩
      · intro bq hbq eq hq; exact h4 bq hbq eq ((hba bq hbq eq).mpr hq)
  · rintro ⟨bi, hbi, hi, ei, hbe, hcase⟩
    refine ⟨bi, hbi, hi, ei, (hba bi hbi ei).mpr hbe, ?_⟩
    rcases hcase with h1 | ⟨h1, h2, h3, h4⟩
    · exact Or.inl h1
    · refine Or.inr ⟨h1, h2, ?_, ?_⟩
      · rintro ⟨bq, hbq, hq⟩; exact h3 ⟨bq, hbq, (hba bq hbq c).mp hq⟩
      · intro bq hbq eq hq; exact h4 bq hbq eq ((hba bq hbq eq).mp hq)

theorem BrBn.ext {pre : List Branch} {b : Branch} {rcs : List RC} {rb : RBranch β}
    (hb : ∀ bd ∈ rb.rbuilds, bd.rcommit.isSome = true → bd.iid < rcs.length) (s : BrBn h pre b rcs rb)
    (ext : List RC) : BrBn h pre b (rcs ++ ext) rb := by
  constructor
  · intro bn i hl
    obtain ⟨c, cm, h1, h2, h3, h4⟩ := s.snd bn i hl
    exact ⟨c, cm, h1, h2, h3, (GoodB.ext hb ext c i).mpr h4⟩
  · intro c cm h1 h2 bn hbn i hg
    exact s.cmp c cm h1 h2 bn hbn i ((GoodB.ext hb ext c i).mp hg)

/-- build numbers are unique to their commits and none of them is the "not built" number -/
structure TagsUnique (h : Hist π) : Prop where
  uniq : ∀ (c1 c2 : Nat) (cm1 cm2 : Commit π) (bn : BN), h.commits[c1]? = some cm1 → h.commits[c2]? = some cm2 →
    bn ∈ cm1.tags → bn ∈ cm2.tags → c1 = c2
  nofake : ∀ (c : Nat) (cm : Commit π), h.commits[c]? = some cm → fakeNB ∉ cm.tags

theorem mem_buildNums {cm : Commit π} {isHead : Bool} {bn : BN} (hb : bn ∈ buildNums cm isHead) :
    bn ∈ cm.tags ∨ (bn = fakeNB ∧ isHead = true ∧ cm.tags = []) := by
  unfold buildNums at hb
  simp only at hb
  split at hb
  · rename_i hc
    simp only [Bool.and_eq_true] at hc
    simp at hb
    right
    refine ⟨hb, hc.1, ?_⟩
    have hl := (sortBy_perm BN.lt cm.tags).length_eq
    have : sortBy BN.lt cm.tags = [] := by simpa using hc.2
    rw [this] at hl
    exact List.length_eq_zero_iff.mp hl.symm
  · exact Or.inl ((mem_sortBy _ _ _).mp hb)

theorem tags_bnUnique (hu : TagsUnique h) (head : Nat) : BnUnique h head := by
  intro c1 c2 cm1 cm2 bn h1 h2 _ _ hb1 hb2
  rcases mem_buildNums hb1 with t1 | ⟨f1, hd1, e1⟩
  · rcases mem_buildNums hb2 with t2 | ⟨f2, _, _⟩
    · exact hu.uniq c1 c2 cm1 cm2 bn h1 h2 t1 t2
    · rw [f2] at t1; exact absurd t1 (hu.nofake c1 cm1 h1)
  · rcases mem_buildNums hb2 with t2 | ⟨_, hd2, _⟩
    · rw [f1] at t2; exact absurd t2 (hu.nofake c2 cm2 h2)
    · have a1 : c1 = head := by simpa using hd1
      have a2 : c2 = head := by simpa using hd2
      rw [a1, a2]

theorem rgraph_bn (hT : h.Topo) (hu : TagsUnique h) {pl : Plug π β} {g : Graph β} {mt : Option Nat} (hg : rgraphNW h pl mt = .ok g) :
    ∀ j b rb, (branchesOf h)[j]? = some b → g.all[j]? = some rb →
      BrBn h ((branchesOf h).take j) b g.rcs rb ∧ (bkeys rb.bnMap).Nodup := by
  unfold rgraphNW at hg
  split at hg
  · cases hg
  · rename_i rp rbs hr
    cases hg
    have hstep : ∀ (pre : List Branch) (rp : Repo β) (b : Branch) (rp' : Repo β) (rb : RBranch β),
        RepoInv h pre rp → readBranch h pl pre.isEmpty rp b = .ok (rp', rb) →
        RepoInv h (pre ++ [b]) rp' ∧
          ((BrBn h pre b rp'.rcs rb ∧ (bkeys rb.bnMap).Nodup) ∧
            ∀ bd ∈ rb.rbuilds, bd.rcommit.isSome = true → bd.iid < rp'.rcs.length) ∧
          ∃ ext, rp'.rcs = rp.rcs ++ ext := by
      intro pre rp b rp' rb inv hrb
      obtain ⟨h1, h2, h3⟩ := readBranch_sem hT inv hrb
      obtain ⟨hc0, st, rheads, hhc0, hv, he⟩ := readBranch_inv hrb
      have hk := visit_bkeys hT (s := ⟨rp, Br.empty⟩) (by simp [Br.empty, bkeys]) hv
      rw [← endBranch_bnMap he] at hk
      exact ⟨h1, ⟨⟨readBranch_bn hT (tags_bnUnique hu b.head) inv hrb, hk⟩,
        fun bd hbd hs => (h2.bound bd hbd).2 hs⟩, h3⟩
    obtain ⟨_, _, hlen, hF⟩ := readBranches_ind2 (RepoInv h)
      (fun pre b rp' rb => (BrBn h pre b rp'.rcs rb ∧ (bkeys rb.bnMap).Nodup) ∧
        ∀ bd ∈ rb.rbuilds, bd.rcommit.isSome = true → bd.iid < rp'.rcs.length)
      (fun rp rp' => ∃ ext, rp'.rcs = rp.rcs ++ ext) (fun rp => ⟨[], by simp⟩)
      (by
        rintro a b c ⟨e1, h1⟩ ⟨e2, h2⟩
        exact ⟨e1 ++ e2, by rw [h2, h1]; simp⟩)
      hstep (branchesOf h) [] Repo.empty rp rbs repoInv_empty hr
    intro j b rb hb hrb
    obtain ⟨rpj, ⟨⟨h1, hk⟩, h2⟩, ⟨ext, hext⟩⟩ := hF j b rb hb hrb
    simp only [List.nil_append] at h1
    rw [hext]
    exact ⟨h1.ext h2 ext, hk⟩

/-! ### "the version contains the build" is git ancestry -/

theorem specBuild_branch_unique {pre1 pre2 : List Branch} {bs : List Branch} {j k : Nat} {bj bk : Branch}
    (hj : bs[j]? = some bj) (hk : bs[k]? = some bk) {c : Nat}
    (h1 : SpecBuild h (bs.take j) bj c) (h2 : SpecBuild h (bs.take k) bk c) : j = k := by
  rcases Nat.lt_trichotomy j k with hlt | heq | hgt
  · exfalso
    have : bj ∈ bs.take k := by
      rw [List.mem_take_iff_getElem]
      have hjl := (List.getElem?_eq_some_iff.mp hj).1
      exact ⟨j, by omega, (List.getElem?_eq_some_iff.mp hj).2⟩
    exact h2.2.2 bj this h1.2.1
  · exact heq
  · exfalso
    have : bk ∈ bs.take j := by
      rw [List.mem_take_iff_getElem]
      have hkl := (List.getElem?_eq_some_iff.mp hk).1
      exact ⟨k, by omega, (List.getElem?_eq_some_iff.mp hk).2⟩
    exact h1.2.2 bk this h2.2.1

/-- for a commit `cv` of the branch carrying the build tag `bn` and a reported build of the same branch at commit
`ex`: the version `bn` (through the repository-wide `bn_map`) contains the build iff `ex` is a git ancestor of (or
equal to) `cv` -/
theorem version_contains_iff (hT : h.Topo) (hu : TagsUnique h) {pl : Plug π β} {g : Graph β}
    {mt : Option Nat} (hg : rgraphNW h pl mt = .ok g) (hlen : g.rcs.length ≤ Gen.Ghist.fakeStart)
    {j : Nat} {b : Branch} {rb : RBranch β} (hb : (branchesOf h)[j]? = some b) (hrb : g.all[j]? = some rb)
    {cv : Nat} {cmv : Commit π} (hcv : h.commits[cv]? = some cmv) {bn : BN} (hbn : bn ∈ cmv.tags)
    (hspec : SpecBuild h ((branchesOf h).take j) b cv)
    {bx : RB β} (hbx : bx ∈ rb.rbuilds) {ex : Nat} (hex : BuildAt g.rcs bx ex) :
    (∃ e, g.bnMapAll.lookup bn = some e ∧ RbAnc g bx.iid e.2) ↔ Anc h ex cv := by
  have hrbm : rb ∈ g.all := List.mem_of_getElem? hrb
  have hbnall := rgraph_bn hT hu hg
  obtain ⟨hbnj, hkj⟩ := hbnall j b rb hb hrb
  obtain ⟨hlenall, _⟩ := rgraph_sem hT hg
  have hnd : ∀ r ∈ g.all, (bkeys r.bnMap).Nodup := by
    intro r hr
    obtain ⟨k, hk⟩ := List.mem_iff_getElem?.mp hr
    have hklt : k < (branchesOf h).length := by
      rw [← hlenall]; exact (List.getElem?_eq_some_iff.mp hk).1
    exact (hbnall k _ r (List.getElem?_eq_getElem hklt) hk).2
  have hbnin : bn ∈ buildNums cmv (cv == b.head) := by
    unfold buildNums
    simp only
    have hm : bn ∈ sortBy BN.lt cmv.tags := (mem_sortBy _ _ _).mpr hbn
    split
    · rename_i hc
      simp only [Bool.and_eq_true] at hc
      have : sortBy BN.lt cmv.tags = [] := by simpa using hc.2
      rw [this] at hm; cases hm
    · exact hm
  -- the commit whose build numbers contain `bn` is `cv`
  have hcommit : ∀ {k : Nat} {bk : Branch} {rbk : RBranch β}, (branchesOf h)[k]? = some bk → g.all[k]? = some rbk →
      ∀ i, rbk.bnMap.lookup bn = some i → k = j ∧ GoodB h g.rcs rbk cv i := by
    intro k bk rbk hbk hrbk i hl
    obtain ⟨c', cm', hs', hc', hb', hgood⟩ := (hbnall k bk rbk hbk hrbk).1.snd bn i hl
    have hcc : c' = cv := by
      rcases mem_buildNums hb' with t1 | ⟨f1, _, _⟩
      · exact hu.uniq c' cv cm' cmv bn hc' hcv t1 hbn
      · rw [f1] at hbn; exact absurd hbn (hu.nofake cv cmv hcv)
    subst hcc
    exact ⟨specBuild_branch_unique (pre1 := []) (pre2 := []) hbk hb hs' hspec, hgood⟩
  have hother : ∀ k rbk, g.all[k]? = some rbk → k ≠ j → rbk.bnMap.lookup bn = none := by
    intro k rbk hrbk hne
    cases hl : rbk.bnMap.lookup bn with
    | none => rfl
    | some i =>
      have hklt : k < (branchesOf h).length := by
        rw [← hlenall]; exact (List.getElem?_eq_some_iff.mp hrbk).1
      exact absurd (hcommit (List.getElem?_eq_getElem hklt) hrbk i hl).1 hne
  have hglobal : ∀ i, rb.bnMap.lookup bn = some i → g.bnMapAll.lookup bn = some (j, i) := by
    intro i hi
    have := go_lookup_unique bn g.all 0 [] j rb i hnd hrb hi hother
    simpa [Graph.bnMapAll] using this
  have hanc_of : ∀ bi ∈ rb.rbuilds, ∀ ei, BuildAt g.rcs bi ei → (RbAnc g bx.iid bi.iid ↔ Anc h ex ei) :=
    fun bi hbi ei hbe => rbAnc_iff_anc hT hg hlen hrbm ei bx bi ex hbx hbi hex hbe
  constructor
  · rintro ⟨e, hl, hr⟩
    have hl' : (Graph.bnMapAll.go 0 g.all []).lookup bn = some e := hl
    rcases go_lookup_some bn g.all 0 [] e hnd hl' with h1 | ⟨k, rbk, h2, h3, h4⟩
    · simp at h1
    · have hklt : k < (branchesOf h).length := by
        rw [← hlenall]; exact (List.getElem?_eq_some_iff.mp h2).1
      obtain ⟨hkj', hgood⟩ := hcommit (List.getElem?_eq_getElem hklt) h2 e.2 h4
      subst hkj'
      rw [hrb] at h2; cases h2
      obtain ⟨bi, hbi, hi, ei, hbe, hcase⟩ := hgood
      rw [← hi] at hr
      have := (hanc_of bi hbi ei hbe).mp hr
      rcases hcase with h5 | ⟨_, h5, _, _⟩
      · rw [← h5]; exact this
      · exact this.trans h5
  · intro hanc
    classical
    by_cases hat : ∃ bt ∈ rb.rbuilds, BuildAt g.rcs bt cv
    · obtain ⟨bt, hbt, hbtv⟩ := hat
      have hgood : GoodB h g.rcs rb cv bt.iid := ⟨bt, hbt, rfl, cv, hbtv, Or.inl rfl⟩
      have hl := hbnj.cmp cv cmv hspec hcv bn hbnin bt.iid hgood
      exact ⟨(j, bt.iid), hglobal _ hl, (hanc_of bt hbt cv hbtv).mpr hanc⟩
    · -- `cv` is not a build: the nearest build below it
      have hxne : ex ≠ cv := by
        intro hh; subst hh; exact hat ⟨bx, hbx, hex⟩
      rcases rgraph_skip hT (RelInv.trivial h pl) hg j b rb hb hrb cv hspec with hrep | ⟨_, hsk⟩
      · exact absurd hrep hat
      · rcases hsk with ⟨_, hnone⟩ | ⟨cm', pbs, bumps, _, _, _, hlen1, hpbs, hcof, _, _⟩
        · exfalso
          obtain ⟨hn, rcx, hrcx, hcx⟩ := hex
          exact hnone bx ⟨hbx, hn⟩ rcx hrcx (by rw [hcx]; exact hxne) (by rw [hcx]; exact hanc)
        · obtain ⟨hn, rcx, hrcx, hcx⟩ := hex
          obtain ⟨pb, hpb, rcp, hrcp, hxp⟩ := hcof bx ⟨hbx, hn⟩ rcx hrcx (by rw [hcx]; exact hxne)
            (by rw [hcx]; exact hanc)
          obtain ⟨⟨hpbr, hpbn⟩, rcp', hrcp', hnep, hancp⟩ := hpbs pb hpb
          rw [hrcp] at hrcp'; cases hrcp'
          have hbap : BuildAt g.rcs pb rcp.commit := ⟨hpbn, rcp, hrcp, rfl⟩
          have hone : ∀ pb' ∈ pbs, pb' = pb := by
            intro pb' hpb'
            match pbs, hlen1, hpb, hpb' with
            | [q], _, hpb, hpb' => simp at hpb hpb'; rw [hpb, hpb']
          have hgood : GoodB h g.rcs rb cv pb.iid := by
            refine ⟨pb, hpbr, rfl, rcp.commit, hbap, Or.inr ⟨hnep, hancp, hat, ?_⟩⟩
            rintro bq hbq eq ⟨hqn, rcq, hrcq, hqc⟩ hne hq
            obtain ⟨pb', hpb', rcp', hrcp', h6⟩ := hcof bq ⟨hbq, hqn⟩ rcq hrcq (by rw [hqc]; exact hne)
              (by rw [hqc]; exact hq)
            rw [hone pb' hpb', hrcp] at hrcp'; cases hrcp'
            rw [← hqc]; exact h6
          have hl := hbnj.cmp cv cmv hspec hcv bn hbnin pb.iid hgood
          refine ⟨(j, pb.iid), hglobal _ hl, (hanc_of pb hpbr rcp.commit hbap).mpr ?_⟩
          rw [← hcx]; exact hxp

/-- the build that a version names is a reported build of the branch at or below the tagged commit -/
theorem version_build (hT : h.Topo) (hu : TagsUnique h) {pl : Plug π β} {g : Graph β}
    {mt : Option Nat} (hg : rgraphNW h pl mt = .ok g)
    {j : Nat} {b : Branch} {rb : RBranch β} (hb : (branchesOf h)[j]? = some b) (hrb : g.all[j]? = some rb)
    {cv : Nat} {cmv : Commit π} (hcv : h.commits[cv]? = some cmv) {bn : BN} (hbn : bn ∈ cmv.tags)
    (hspec : SpecBuild h ((branchesOf h).take j) b cv) {e : Nat × Nat} (hl : g.bnMapAll.lookup bn = some e) :
    ∃ bi ∈ rb.rbuilds, bi.iid = e.2 ∧ ∃ ei, BuildAt g.rcs bi ei ∧ Anc h ei cv := by
  have hbnall := rgraph_bn hT hu hg
  obtain ⟨hlenall, _⟩ := rgraph_sem hT hg
  have hnd : ∀ r ∈ g.all, (bkeys r.bnMap).Nodup := by
    intro r hr
    obtain ⟨k, hk⟩ := List.mem_iff_getElem?.mp hr
    have hklt : k < (branchesOf h).length := by
      rw [← hlenall]; exact (List.getElem?_eq_some_iff.mp hk).1
    exact (hbnall k _ r (List.getElem?_eq_getElem hklt) hk).2
  have hl' : (Graph.bnMapAll.go 0 g.all []).lookup bn = some e := hl
  rcases go_lookup_some bn g.all 0 [] e hnd hl' with h1 | ⟨k, rbk, h2, h3, h4⟩
  · simp at h1
  · have hklt : k < (branchesOf h).length := by
      rw [← hlenall]; exact (List.getElem?_eq_some_iff.mp h2).1
    obtain ⟨c', cm', hs', hc', hb', hgood⟩ :=
      (hbnall k _ rbk (List.getElem?_eq_getElem hklt) h2).1.snd bn e.2 h4
    have hcc : c' = cv := by
      rcases mem_buildNums hb' with t1 | ⟨f1, _, _⟩
      · exact hu.uniq c' cv cm' cmv bn hc' hcv t1 hbn
      · rw [f1] at hbn; exact absurd hbn (hu.nofake cv cmv hcv)
    subst hcc
    have hkj := specBuild_branch_unique (pre1 := []) (pre2 := []) (List.getElem?_eq_getElem hklt) hb hs' hspec
    subst hkj
    rw [hrb] at h2; cases h2
    obtain ⟨bi, hbi, hi, ei, hbe, hcase⟩ := hgood
    refine ⟨bi, hbi, hi, ei, hbe, ?_⟩
    rcases hcase with h5 | ⟨_, h5, _, _⟩
    · rw [h5]; exact .refl _
    · exact h5

/-- a version known to the repository-wide `bn_map` is a build tag of an eligible commit of some branch that has a
reported build of that branch at or below it (or the "not built" number of an untagged head) -/
theorem lookup_some_tagged (hT : h.Topo) (hu : TagsUnique h) {pl : Plug π β} {g : Graph β}
    {mt : Option Nat} (hg : rgraphNW h pl mt = .ok g) {bn : BN} {e : Nat × Nat} (hl : g.bnMapAll.lookup bn = some e) :
    ∃ k bk rbk c cm, (branchesOf h)[k]? = some bk ∧ g.all[k]? = some rbk ∧ SpecBuild h ((branchesOf h).take k) bk c ∧
      h.commits[c]? = some cm ∧ (bn ∈ cm.tags ∨ bn = fakeNB) ∧
      ∃ bi ∈ rbk.rbuilds, ∃ ei, BuildAt g.rcs bi ei ∧ Anc h ei c := by
  have hbnall := rgraph_bn hT hu hg
  obtain ⟨hlenall, _⟩ := rgraph_sem hT hg
  have hnd : ∀ r ∈ g.all, (bkeys r.bnMap).Nodup := by
    intro r hr
    obtain ⟨k, hk⟩ := List.mem_iff_getElem?.mp hr
    have hklt : k < (branchesOf h).length := by
      rw [← hlenall]; exact (List.getElem?_eq_some_iff.mp hk).1
    exact (hbnall k _ r (List.getElem?_eq_getElem hklt) hk).2
  have hl' : (Graph.bnMapAll.go 0 g.all []).lookup bn = some e := hl
  rcases go_lookup_some bn g.all 0 [] e hnd hl' with h1 | ⟨k, rbk, h2, h3, h4⟩
  · simp at h1
  · have hklt : k < (branchesOf h).length := by
      rw [← hlenall]; exact (List.getElem?_eq_some_iff.mp h2).1
    obtain ⟨c', cm', hs', hc', hb', hgood⟩ :=
      (hbnall k _ rbk (List.getElem?_eq_getElem hklt) h2).1.snd bn e.2 h4
    obtain ⟨bi, hbi, _, ei, hbe, hcase⟩ := hgood
    refine ⟨k, _, rbk, c', cm', List.getElem?_eq_getElem hklt, h2, hs', hc', ?_, bi, hbi, ei, hbe, ?_⟩
    · rcases mem_buildNums hb' with t1 | ⟨f1, _, _⟩
      · exact Or.inl t1
      · exact Or.inr f1
    · rcases hcase with h5 | ⟨_, h5, _, _⟩
      · rw [h5]; exact .refl _
      · exact h5

end

end Ghist
