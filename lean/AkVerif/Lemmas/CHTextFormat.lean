import AkVerif.Lemmas.CHText
/-!
Lemmas about the `CHText` model, part 4: `__format__` against Python's format-spec mini-language
for `[[fill]align][width][s]`.
-/
namespace CHText
open Ak

inductive Align where
  | left | right | center
  deriving DecidableEq, Repr

def Align.char : Align → Char
  | .left => '<'
  | .right => '>'
  | .center => '^'

/-- a format spec of the property's domain, structured as in the language reference:
`[[fill]align][width][s]` -/
structure FmtSpec where
  falign : Option (Option Char × Align)
  width : List Char
  s : Bool

/-- the width is a decimal number without a leading zero (a leading `0` is Python's zero flag:
out of the domain) -/
def FmtSpec.Valid (sp : FmtSpec) : Prop :=
  (∀ c ∈ sp.width, isAsciiDigit c = true) ∧ sp.width.head? ≠ some '0'

def FmtSpec.pre (sp : FmtSpec) : List Char :=
  match sp.falign with
  | none => []
  | some (none, a) => [a.char]
  | some (some f, a) => [f, a.char]

/-- the spec string -/
def FmtSpec.render (sp : FmtSpec) : List Char :=
  sp.pre ++ sp.width ++ (if sp.s then ['s'] else [])

def FmtSpec.fill (sp : FmtSpec) : Char :=
  match sp.falign with
  | some (some f, _) => f
  | _ => ' '

def FmtSpec.align (sp : FmtSpec) : Align :=
  match sp.falign with
  | some (_, a) => a
  | none => .left

/-- value of a decimal digit string -/
def decVal (w : List Char) : Nat := w.foldl (fun acc c => acc * 10 + (c.toNat - 48)) 0

def FmtSpec.widthVal (sp : FmtSpec) : Nat := decVal sp.width

/-- Python's padding of a sequence to a minimal width (str.__format__ for strings: `<` left-aligned
(default), `>` right-aligned, `^` centred with the smaller half on the left) -/
def pyPad {α} (fill : α) (align : Align) (width : Nat) (s : List α) : List α :=
  let pad := width - s.length
  match align with
  | .left => s ++ List.replicate pad fill
  | .right => List.replicate pad fill ++ s
  | .center => List.replicate (pad / 2) fill ++ s ++ List.replicate (pad - pad / 2) fill

/-- `format(s, spec)` for a plain `str` -/
def pyFormatStr (s : List Char) (sp : FmtSpec) : List Char := pyPad sp.fill sp.align sp.widthVal s

theorem pyPad_map {α β} (f : α → β) (fill : α) (align : Align) (width : Nat) (s : List α) :
    (pyPad fill align width s).map f = pyPad (f fill) align width (s.map f) := by
  cases align <;> simp [pyPad]

/-- the generated constants are the characters of Python's format-spec mini-language (re-decided by
the kernel whenever `ak/color.py` changes them) -/
theorem gen_consts : Gen.C08.defaultAlign = '<' ∧ Gen.C08.leftAlign = '<' ∧ Gen.C08.rightAlign = '>' ∧
    Gen.C08.typeChar = 's' ∧ Gen.C08.defaultFill = ' ' ∧ Gen.C08.padChar = ' ' := by decide

theorem isAlign_eq (c : Char) : isAlign c = (c = '<' || c = '>' || c = '^') := by
  have h1 : Gen.C08.alignChars = ['<', '>', '^'] := by decide
  simp [isAlign, h1, Bool.or_assoc]

theorem digit_not_align (c : Char) (h : isAsciiDigit c = true) : isAlign c = false := by
  simp only [isAsciiDigit, Bool.and_eq_true, decide_eq_true_eq] at h
  simp only [isAlign_eq, Bool.or_eq_false_iff, decide_eq_false_iff_not]
  refine ⟨⟨?_, ?_⟩, ?_⟩ <;> (intro hc; subst hc; revert h; decide)

theorem digit_ascii (c : Char) (h : isAsciiDigit c = true) : c.toNat < 128 := by
  simp only [isAsciiDigit, Bool.and_eq_true, decide_eq_true_eq] at h
  have h2 : c.val ≤ '9'.val := h.2
  have : c.toNat = c.val.toNat := rfl
  have h3 : c.val.toNat ≤ '9'.val.toNat := UInt32.le_iff_toNat_le.mp h2
  have : '9'.val.toNat = 57 := by decide
  omega

theorem align_char_isAlign (a : Align) : isAlign a.char = true := by cases a <;> decide
theorem align_char_ascii (a : Align) : a.char.toNat < 128 := by cases a <;> decide

theorem digitsVal_eq (acc : Nat) (w : List Char) :
    digitsVal acc w = w.foldl (fun acc c => acc * 10 + (c.toNat - 48)) acc := by
  induction w generalizing acc with
  | nil => unfold digitsVal; rfl
  | cons c cs ih => unfold digitsVal; rw [ih]; rfl

theorem parseWidth_digits (w : List Char) (h : ∀ c ∈ w, isAsciiDigit c = true) :
    parseWidth w = .ok (decVal w) := by
  unfold parseWidth
  by_cases hw : w = []
  · simp [hw, decVal]
  · rw [if_neg hw, if_pos (List.all_eq_true.mpr h), digitsVal_eq]; rfl

/-- stripping the type character of a rendered spec gives `[[fill]align][width]` -/
theorem stripType_render (sp : FmtSpec) (hv : sp.Valid) :
    stripType sp.render = .ok (sp.pre ++ sp.width) := by
  unfold FmtSpec.render stripType
  cases hs : sp.s with
  | true =>
    simp only [if_true, List.getLast?_append, List.getLast?_singleton, Option.some_or]
    have : ¬ ('s'.toNat ≥ 128) := by decide
    simp only [this, if_false]
    have : (isAsciiDigit 's' || isAlign 's') = false := by decide
    simp [this, gen_consts.2.2.2.1]
  | false =>
    simp only [Bool.false_eq_true, if_false, List.append_nil]
    cases hl : (sp.pre ++ sp.width).getLast? with
    | none => rfl
    | some last =>
      have hlast : isAsciiDigit last = true ∨ isAlign last = true := by
        by_cases hw : sp.width = []
        · rw [hw, List.append_nil] at hl
          unfold FmtSpec.pre at hl
          split at hl
          · cases hl
          · simp at hl; right; rw [← hl]; exact align_char_isAlign _
          · simp at hl; right; rw [← hl]; exact align_char_isAlign _
        · left
          rw [List.getLast?_append, List.getLast?_eq_some_getLast hw] at hl
          simp at hl
          rw [← hl]
          exact hv.1 _ (List.getLast_mem hw)
      have hascii : ¬ (last.toNat ≥ 128) := by
        cases hlast with
        | inl h => have := digit_ascii _ h; omega
        | inr h =>
          simp only [isAlign_eq, Bool.or_eq_true, decide_eq_true_eq] at h
          rcases h with (h | h) | h <;> (subst h; decide)
      simp only [hascii, if_false]
      have : (isAsciiDigit last || isAlign last) = true := by
        cases hlast with
        | inl h => simp [h]
        | inr h => simp [h]
      simp [this]

theorem findAlign_render (sp : FmtSpec) (hv : sp.Valid) :
    findAlign (sp.pre ++ sp.width) =
      match sp.falign with
      | none => none
      | some (none, a) => some (0, a.char)
      | some (some _, a) => some (1, a.char) := by
  unfold FmtSpec.pre
  cases hf : sp.falign with
  | none =>
    simp only [List.nil_append]
    cases hw : sp.width with
    | nil => rfl
    | cons d ds =>
      have hd := digit_not_align d (hv.1 d (by simp [hw]))
      cases ds with
      | nil => simp [findAlign, hd]
      | cons e es =>
        have he := digit_not_align e (hv.1 e (by simp [hw]))
        simp [findAlign, hd, he]
  | some fa =>
    obtain ⟨f, a⟩ := fa
    cases f with
    | none =>
      simp only [List.singleton_append]
      cases hw : sp.width with
      | nil => simp [findAlign, align_char_isAlign]
      | cons d ds =>
        have hd := digit_not_align d (hv.1 d (by simp [hw]))
        simp [findAlign, hd, align_char_isAlign]
    | some f => simp [findAlign, align_char_isAlign]

/-- the pads `__format__` computes for a spec of the domain are the pads of Python's `str` -/
theorem formatPads_render (sp : FmtSpec) (hv : sp.Valid) (n : Nat) :
    formatPads n sp.render = .ok
      (match sp.align with
        | .left => ([], List.replicate (sp.widthVal - n) sp.fill)
        | .right => (List.replicate (sp.widthVal - n) sp.fill, [])
        | .center => (List.replicate ((sp.widthVal - n) / 2) sp.fill,
            List.replicate ((sp.widthVal - n) - (sp.widthVal - n) / 2) sp.fill)) := by
  unfold formatPads
  rw [stripType_render sp hv]
  simp only []
  unfold padsOf
  rw [findAlign_render sp hv, gen_consts.1, gen_consts.2.1, gen_consts.2.2.1, gen_consts.2.2.2.2.1]
  unfold FmtSpec.align FmtSpec.fill FmtSpec.widthVal FmtSpec.pre
  have hpw := parseWidth_digits sp.width hv.1
  cases hf : sp.falign with
  | none =>
    simp only [List.nil_append]
    have : ((-1 : Int) + 1).toNat = 0 := by decide
    simp only [this, List.drop_zero, hpw]
    by_cases h0 : decVal sp.width - n = 0
    · simp [h0]
    · simp only [h0, if_false, if_true]
      cases sp.width <;> rfl
  | some fa =>
    obtain ⟨f, a⟩ := fa
    cases f with
    | none =>
      have : (((0 : Nat) : Int) + 1).toNat = 1 := by decide
      simp only [List.singleton_append, this, List.drop_succ_cons, List.drop_zero, hpw]
      by_cases h0 : decVal sp.width - n = 0
      · cases a <;> simp [h0]
      · cases a <;> simp [h0, Align.char]
    | some f =>
      have : (((1 : Nat) : Int) + 1).toNat = 2 := by decide
      simp only [List.cons_append, List.nil_append, this, List.drop_succ_cons, List.drop_zero, hpw]
      by_cases h0 : decVal sp.width - n = 0
      · cases a <;> simp [h0]
      · cases a <;> simp [h0, Align.char]

/-- `format(text, spec)`: the text padded as Python pads a `str`, pads in the default colour -/
theorem format_cells (t : Text) (h : LenOK t) (sp : FmtSpec) (hv : sp.Valid) :
    t.format sp.render = .ok (pyPad (sp.fill, 0) sp.align sp.widthVal t.cells) := by
  unfold Text.format
  rw [formatPads_render sp hv, h]
  unfold pyPad
  cases sp.align <;> simp [plainCells]

theorem digitChar_facts (k : Nat) (h : k < 10) :
    isAsciiDigit (Nat.digitChar k) = true ∧ (Nat.digitChar k).toNat - 48 = k ∧ (0 < k → Nat.digitChar k ≠ '0') := by
  match k, h with
  | 0, _ => decide
  | 1, _ => decide
  | 2, _ => decide
  | 3, _ => decide
  | 4, _ => decide
  | 5, _ => decide
  | 6, _ => decide
  | 7, _ => decide
  | 8, _ => decide
  | 9, _ => decide
  | n + 10, h => omega

theorem decVal_append (l : List Char) (d : Char) : decVal (l ++ [d]) = decVal l * 10 + (d.toNat - 48) := by
  simp [decVal, List.foldl_append]

/-- the decimal numeral of a positive number is a valid width string and denotes that number -/
theorem toDigits_width (n : Nat) (hn : 0 < n) :
    (∀ c ∈ Nat.toDigits 10 n, isAsciiDigit c = true) ∧ (Nat.toDigits 10 n).head? ≠ some '0' ∧
    decVal (Nat.toDigits 10 n) = n := by
  induction n using Nat.strongRecOn with
  | _ n ih =>
    rw [Nat.toDigits_eq_if (by decide)]
    by_cases hlt : n < 10
    · simp only [hlt, if_true]
      obtain ⟨h1, h2, h3⟩ := digitChar_facts n hlt
      refine ⟨by simpa using h1, by simpa using h3 hn, by simpa [decVal] using h2⟩
    · simp only [hlt, if_false]
      have hq : 0 < n / 10 := by omega
      obtain ⟨i1, i2, i3⟩ := ih (n / 10) (by omega) hq
      obtain ⟨h1, h2, _⟩ := digitChar_facts (n % 10) (by omega)
      refine ⟨?_, ?_, ?_⟩
      · intro c hc
        simp only [List.mem_append, List.mem_singleton] at hc
        rcases hc with hc | hc
        · exact i1 c hc
        · rw [hc]; exact h1
      · have hne : Nat.toDigits 10 (n / 10) ≠ [] := Nat.toDigits_ne_nil
        cases hd : Nat.toDigits 10 (n / 10) with
        | nil => exact absurd hd hne
        | cons x xs => rw [hd] at i2; simpa using i2
      · rw [decVal_append, i3, h2]; omega
end CHText
