import AkVerif.Lemmas.LLFact2
import AkVerif.Lemmas.LLClosed
/-!
C02: the language of the user's dictionary and of the factorised dictionary coincide
(`fact_lang_eq`): a derivation tree of one is turned into a derivation tree of the other with the
same root and the same leaves (un-splicing along `FlatD`, resp. splicing of helper nodes).
-/
set_option linter.unusedSectionVars false
namespace LL
open Ak

/-- sentences (token lists, names and values) derivable from `start` in the dictionary `U` -/
def InLang (terms : List Sym) (U : Prods Sym) (start : Sym) (w : List (Tok Sym)) : Prop :=
  ∃ t, Derives terms U t ∧ t.name = start ∧ t.yield = w

/-- derivation trees of a dictionary in the sense of `LLComplete` (no splicing) -/
abbrev GTree (terms : List Sym) (G : Prods Sym) (t : Tree Sym) : Prop :=
  PValid (cfgOf terms ([] : Table Sym) []) { prods := gramRules G } t

def InLangG (terms : List Sym) (G : Prods Sym) (start : Sym) (w : List (Tok Sym)) : Prop :=
  ∃ t, GTree terms G t ∧ t.name = start ∧ t.yield = w

section Lang
variable {terms : List Sym} {U G : Prods Sym} {S : List Sym}

theorem gtree_leaf (n : Sym) (v : List Char) : GTree terms G (.leaf n v) ↔ n ∈ terms := by
  unfold GTree
  rw [PValid_leaf]
  simp [cfgOf]

theorem gtree_node (n : Sym) (cs : List (Tree Sym)) :
    GTree terms G (.node n cs) ↔ n ∉ terms ∧ cs.map Tree.name ∈ gramRules G n ∧ ∀ c ∈ cs, GTree terms G c := by
  unfold GTree
  rw [PValid_node]
  simp [cfgOf]

/-- un-splicing: along a flattened expansion, trees for the expansion give a tree for the symbol -/
theorem build_of_flat (hdisj : ∀ k ∈ pkeys G, k ∉ terms) :
    ∀ {s : Sym} {e : List Sym}, FlatD G S s e → ∀ (cs : List (Tree Sym)), cs.map Tree.name = e →
      (∀ c ∈ cs, GTree terms G c) → ∃ t, GTree terms G t ∧ t.name = s ∧ t.yield = yieldL cs := by
  intro s e h
  induction h with
  | @base s p hp _ =>
    intro cs hn hv
    have hk : s ∈ pkeys G := by
      obtain ⟨rules, hm, _⟩ := mem_gramRules.1 hp
      exact List.mem_map.2 ⟨_, hm, rfl⟩
    exact ⟨.node s cs, (gtree_node ..).2 ⟨hdisj s hk, hn ▸ hp, hv⟩, rfl, by simp⟩
  | @step s pre s' e' hp _ _ ih =>
    intro cs hn hv
    have hk : s ∈ pkeys G := by
      obtain ⟨rules, hm, _⟩ := mem_gramRules.1 hp
      exact List.mem_map.2 ⟨_, hm, rfl⟩
    -- split the children after `pre`
    have hsplit : cs = cs.take pre.length ++ cs.drop pre.length := (List.take_append_drop _ _).symm
    have hlen : pre.length ≤ cs.length := by
      have := congrArg List.length hn
      simp at this; omega
    have h1 : (cs.take pre.length).map Tree.name = pre := by
      rw [List.map_take, hn]; simp
    have h2 : (cs.drop pre.length).map Tree.name = e' := by
      rw [List.map_drop, hn]; simp
    obtain ⟨t2, ht2, hn2, hy2⟩ := ih (cs.drop pre.length) h2 (fun c hc => hv c (List.mem_of_mem_drop hc))
    refine ⟨.node s (cs.take pre.length ++ [t2]), (gtree_node ..).2 ⟨hdisj s hk, ?_, ?_⟩, rfl, ?_⟩
    · simp [h1, hn2]; exact hp
    · intro c hc
      simp only [List.mem_append, List.mem_singleton] at hc
      rcases hc with hc | hc
      · exact hv c (List.mem_of_mem_take hc)
      · subst hc; exact ht2
    · rw [yield_node, yieldL_append, yieldL_single, hy2, ← yieldL_append, ← hsplit]

/-- `L(U) ⊆ L(G)`, tree by tree -/
theorem gtree_of_derives (hR : FactRelD U G S) (hdisj : ∀ k ∈ pkeys G, k ∉ terms) :
    ∀ (t : Tree Sym), Derives terms U t → ∃ t', GTree terms G t' ∧ t'.name = t.name ∧ t'.yield = t.yield
  | .leaf n v, h => ⟨.leaf n v, (gtree_leaf ..).2 ((Derives_leaf ..).1 h), rfl, rfl⟩
  | .node n cs, h => by
    obtain ⟨hrule, hcs⟩ := (Derives_node ..).1 h
    -- convert the children
    have hconv : ∀ (l : List (Tree Sym)), (∀ c ∈ l, c ∈ cs) →
        ∃ l', l'.map Tree.name = l.map Tree.name ∧ (∀ c ∈ l', GTree terms G c) ∧ yieldL l' = yieldL l := by
      intro l
      induction l with
      | nil => intro _; exact ⟨[], rfl, by simp, rfl⟩
      | cons c l ih =>
        intro hl
        have hc : c ∈ cs := hl c (by simp)
        obtain ⟨c', hc1, hc2, hc3⟩ := gtree_of_derives hR hdisj c (hcs c hc)
        obtain ⟨l', hl1, hl2, hl3⟩ := ih (fun x hx => hl x (by simp [hx]))
        refine ⟨c' :: l', by simp [hc2, hl1], ?_, ?_⟩
        · intro x hx
          simp only [List.mem_cons] at hx
          rcases hx with hx | hx
          · subst hx; exact hc1
          · exact hl2 x hx
        · have e1 : yieldL (c' :: l') = c'.yield ++ yieldL l' := by simp [yieldL]
          have e2 : yieldL (c :: l) = c.yield ++ yieldL l := by simp [yieldL]
          rw [e1, e2, hc3, hl3]
    obtain ⟨cs', hn, hv, hy⟩ := hconv cs (fun _ h => h)
    obtain ⟨t', ht1, ht2, ht3⟩ := build_of_flat (S := S) hdisj (hR.flatOut n _ hrule) cs' hn hv
    exact ⟨t', ht1, ht2, by rw [ht3, hy]; simp⟩
termination_by t => sizeOf t
decreasing_by
  simp_wf
  have := List.sizeOf_lt_of_mem hc
  omega

/-- splicing: a tree of the factorised dictionary gives, for a helper root, the list of user-level
children with a flattened expansion; for any other root a tree of the user's dictionary -/
theorem derives_of_gtree (hR : FactRelD U G S) (hST : ∀ s ∈ S, s ∉ terms) :
    ∀ (t : Tree Sym), GTree terms G t →
      (t.name ∉ S → ∃ t', Derives terms U t' ∧ t'.name = t.name ∧ t'.yield = t.yield) ∧
      (t.name ∈ S → ∃ cs, FlatD G S t.name (cs.map Tree.name) ∧ (∀ c ∈ cs, Derives terms U c) ∧
        yieldL cs = t.yield)
  | .leaf n v, h => by
    have hn : n ∈ terms := (gtree_leaf ..).1 h
    exact ⟨fun _ => ⟨.leaf n v, (Derives_leaf ..).2 hn, rfl, rfl⟩, fun hs => absurd hn (hST n hs)⟩
  | .node n cs, h => by
    obtain ⟨hnt, hrule, hcs⟩ := (gtree_node ..).1 h
    obtain ⟨rules, hm, r, hr, hrp⟩ := mem_gramRules.1 hrule
    -- children that are not helpers become user trees
    have hconv : ∀ (l : List (Tree Sym)), (∀ c ∈ l, c ∈ cs) → (∀ c ∈ l, c.name ∉ S) →
        ∃ l', l'.map Tree.name = l.map Tree.name ∧ (∀ c ∈ l', Derives terms U c) ∧ yieldL l' = yieldL l := by
      intro l
      induction l with
      | nil => intro _ _; exact ⟨[], rfl, by simp, rfl⟩
      | cons c l ih =>
        intro hl hns
        have hc : c ∈ cs := hl c (by simp)
        obtain ⟨c', hc1, hc2, hc3⟩ := (derives_of_gtree hR hST c (hcs c hc)).1 (hns c (by simp))
        obtain ⟨l', hl1, hl2, hl3⟩ := ih (fun x hx => hl x (by simp [hx])) (fun x hx => hns x (by simp [hx]))
        refine ⟨c' :: l', by simp [hc2, hl1], ?_, ?_⟩
        · intro x hx
          simp only [List.mem_cons] at hx
          rcases hx with hx | hx
          · subst hx; exact hc1
          · exact hl2 x hx
        · have e1 : yieldL (c' :: l') = c'.yield ++ yieldL l' := by simp [yieldL]
          have e2 : yieldL (c :: l) = c.yield ++ yieldL l := by simp [yieldL]
          rw [e1, e2, hc3, hl3]
    -- the user-level children and the flattened expansion of `n`
    have hmain : ∃ cs', FlatD G S n (cs'.map Tree.name) ∧ (∀ c ∈ cs', Derives terms U c) ∧
        yieldL cs' = yieldL cs := by
      rcases list_nil_or_snoc cs with hnil | ⟨vs, v, hvs⟩
      · subst hnil
        refine ⟨[], ?_, by simp, rfl⟩
        exact FlatD.base (by simpa using hrule) (by simp)
      · have hinner : ∀ c ∈ vs, c.name ∉ S := by
          intro c hc
          apply hR.inner n rules hm r hr
          rw [hrp, hvs]
          simp only [List.map_append, List.map_cons, List.map_nil, List.dropLast_concat, List.mem_map]
          exact ⟨c, hc, rfl⟩
        obtain ⟨vs', hv1, hv2, hv3⟩ := hconv vs (fun c hc => by rw [hvs]; simp [hc]) hinner
        have hvcs : v ∈ cs := by rw [hvs]; simp
        by_cases hvS : v.name ∈ S
        · obtain ⟨ws, hw1, hw2, hw3⟩ := (derives_of_gtree hR hST v (hcs v hvcs)).2 hvS
          refine ⟨vs' ++ ws, ?_, ?_, ?_⟩
          · rw [List.map_append, hv1]
            refine FlatD.step ?_ hvS hw1
            rw [hvs] at hrule; simpa using hrule
          · intro c hc
            simp only [List.mem_append] at hc
            rcases hc with hc | hc
            · exact hv2 c hc
            · exact hw2 c hc
          · rw [hvs, yieldL_append, yieldL_append, hv3, hw3, yieldL_single]
        · obtain ⟨v', hv'1, hv'2, hv'3⟩ := (derives_of_gtree hR hST v (hcs v hvcs)).1 hvS
          refine ⟨vs' ++ [v'], ?_, ?_, ?_⟩
          · refine FlatD.base ?_ ?_
            · rw [List.map_append, hv1]
              rw [hvs] at hrule
              simpa [hv'2] using hrule
            · intro l hl
              simp only [List.map_append, List.map_cons, List.map_nil, List.getLast?_append,
                List.getLast?_singleton, Option.some_or, Option.some.injEq] at hl
              rw [← hl, hv'2]; exact hvS
          · intro c hc
            simp only [List.mem_append, List.mem_singleton] at hc
            rcases hc with hc | hc
            · exact hv2 c hc
            · subst hc; exact hv'1
          · rw [hvs, yieldL_append, yieldL_append, hv3, yieldL_single, yieldL_single, hv'3]
    obtain ⟨cs', hfl, hder, hy⟩ := hmain
    constructor
    · intro hnS
      refine ⟨.node n cs', (Derives_node ..).2 ⟨hR.flatIn n hnS _ hfl, hder⟩, rfl, ?_⟩
      simp [hy]
    · intro _
      exact ⟨cs', hfl, hder, by simp [hy]⟩
termination_by t => sizeOf t
decreasing_by
  all_goals simp_wf
  · have := List.sizeOf_lt_of_mem hc; omega
  · have := List.sizeOf_lt_of_mem hvcs; omega
  · have := List.sizeOf_lt_of_mem hvcs; omega

/-- C02 `fact_lang_eq`: the two dictionaries derive the same sentences from any symbol that is not
a helper -/
theorem lang_eq (hR : FactRelD U G S) (hdisj : ∀ k ∈ pkeys G, k ∉ terms) {start : Sym} (hs : start ∉ S)
    (w : List (Tok Sym)) : InLang terms U start w ↔ InLangG terms G start w := by
  have hST : ∀ s ∈ S, s ∉ terms := fun s h => hdisj s (hR.sufKeys s h)
  constructor
  · rintro ⟨t, ht, hn, hy⟩
    obtain ⟨t', h1, h2, h3⟩ := gtree_of_derives hR hdisj t ht
    exact ⟨t', h1, h2.trans hn, h3.trans hy⟩
  · rintro ⟨t, ht, hn, hy⟩
    obtain ⟨t', h1, h2, h3⟩ := (derives_of_gtree hR hST t ht).1 (hn ▸ hs)
    exact ⟨t', h1, h2.trans hn, h3.trans hy⟩

end Lang
end LL
