import AkVerif.Model.Xls
/-!
Helper lemmas for C18, fourth part: the coordinates `mkSheet` writes (`A1`, `B1`, …, `AA1`, …)
are pairwise distinct.
-/
namespace Xls
open Ak

/-! ## column letters: bijective base 26 -/

theorem colNameAux_acc : ∀ (f n : Nat) (acc : List Char),
    colNameAux f n acc = colNameAux f n [] ++ acc := by
  intro f
  induction f with
  | zero => intro n acc; simp [colNameAux]
  | succ f ih =>
    intro n acc
    simp only [colNameAux]
    split
    · simp
    · rw [ih (n / 26 - 1) (Char.ofNat (65 + n % 26) :: acc), ih (n / 26 - 1) [Char.ofNat (65 + n % 26)]]
      simp

theorem colNameAux_fuel : ∀ (f1 f2 n : Nat) (acc : List Char), n < f1 → n < f2 →
    colNameAux f1 n acc = colNameAux f2 n acc := by
  intro f1
  induction f1 with
  | zero => intro f2 n acc h; omega
  | succ f1 ih =>
    intro f2 n acc h1 h2
    cases f2 with
    | zero => omega
    | succ f2 =>
      simp only [colNameAux]
      split
      · rfl
      · exact ih f2 _ _ (by omega) (by omega)

theorem colName_lt (n : Nat) (h : n < 26) : colName n = [Char.ofNat (65 + n)] := by
  simp [colName, colNameAux, h, Nat.mod_eq_of_lt h]

theorem colName_ge (n : Nat) (h : 26 ≤ n) :
    colName n = colName (n / 26 - 1) ++ [Char.ofNat (65 + n % 26)] := by
  have h' : ¬ n < 26 := by omega
  unfold colName
  rw [colNameAux]
  simp only [h', if_false]
  rw [colNameAux_acc, colNameAux_fuel n (n / 26 - 1 + 1) (n / 26 - 1) [] (by omega) (by omega)]

/-- value of a column name in bijective base 26 (`A` = 1 … `Z` = 26) -/
def colVal (s : List Char) : Nat := s.foldl (fun acc c => acc * 26 + (c.toNat - 64)) 0

theorem letter_toNat : ∀ k, k < 26 → (Char.ofNat (65 + k)).toNat = 65 + k := by decide

theorem colVal_colName : ∀ (n : Nat), colVal (colName n) = n + 1 := by
  intro n
  induction n using Nat.strongRecOn with
  | _ n ih =>
    by_cases h : n < 26
    · rw [colName_lt n h]
      simp [colVal, letter_toNat n h]
      omega
    · rw [colName_ge n (by omega)]
      unfold colVal
      rw [List.foldl_append]
      have := ih (n / 26 - 1) (by omega)
      unfold colVal at this
      rw [this]
      simp only [List.foldl_cons, List.foldl_nil]
      rw [letter_toNat (n % 26) (Nat.mod_lt _ (by omega))]
      omega

theorem colName_inj (a b : Nat) (h : colName a = colName b) : a = b := by
  have := congrArg colVal h
  rw [colVal_colName, colVal_colName] at this
  omega

theorem letter_not_digit : ∀ k, k < 26 → (Char.ofNat (65 + k)).isDigit = false := by decide

theorem colName_letters : ∀ (n : Nat), ∀ c ∈ colName n, c.isDigit = false := by
  intro n
  induction n using Nat.strongRecOn with
  | _ n ih =>
    intro c hc
    by_cases h : n < 26
    · rw [colName_lt n h] at hc
      simp only [List.mem_singleton] at hc
      subst hc
      exact letter_not_digit n h
    · rw [colName_ge n (by omega)] at hc
      simp only [List.mem_append, List.mem_singleton] at hc
      rcases hc with hc | hc
      · exact ih (n / 26 - 1) (by omega) c hc
      · subst hc
        exact letter_not_digit (n % 26) (Nat.mod_lt _ (by omega))

/-! ## letters followed by digits split uniquely -/

theorem split_letters_digits :
    ∀ (l1 l2 d1 d2 : List Char),
      (∀ c ∈ l1, c.isDigit = false) → (∀ c ∈ l2, c.isDigit = false) →
      (∀ c ∈ d1, c.isDigit = true) → (∀ c ∈ d2, c.isDigit = true) →
      l1 ++ d1 = l2 ++ d2 → l1 = l2 ∧ d1 = d2 := by
  intro l1
  induction l1 with
  | nil =>
    intro l2 d1 d2 _ h2 h3 _ h
    cases l2 with
    | nil => exact ⟨rfl, by simpa using h⟩
    | cons x xs =>
      simp only [List.nil_append, List.cons_append] at h
      have hx : x ∈ d1 := by rw [h]; simp
      have := h3 x hx
      rw [h2 x (by simp)] at this
      cases this
  | cons y ys ih =>
    intro l2 d1 d2 h1 h2 h3 h4 h
    cases l2 with
    | nil =>
      simp only [List.nil_append, List.cons_append] at h
      have hy : y ∈ d2 := by rw [← h]; simp
      have := h4 y hy
      rw [h1 y (by simp)] at this
      cases this
    | cons x xs =>
      simp only [List.cons_append, List.cons.injEq] at h
      obtain ⟨hxy, hrest⟩ := h
      obtain ⟨g1, g2⟩ := ih xs d1 d2 (fun c hc => h1 c (by simp [hc])) (fun c hc => h2 c (by simp [hc]))
        h3 h4 hrest
      exact ⟨by rw [hxy, g1], g2⟩

theorem mkCoord_inj (r c r' c' : Nat) (h : mkCoord r c = mkCoord r' c') : r = r' ∧ c = c' := by
  unfold mkCoord at h
  simp only [Nat.toString_eq_repr, Nat.toList_repr] at h
  obtain ⟨h1, h2⟩ := split_letters_digits _ _ _ _ (colName_letters c) (colName_letters c')
    (fun x hx => Nat.isDigit_of_mem_toDigits (by decide) (by decide) hx)
    (fun x hx => Nat.isDigit_of_mem_toDigits (by decide) (by decide) hx) h
  have := congrArg (fun l => Nat.ofDigitChars 10 l 0) h2
  simp only [Nat.ofDigitChars_ten_toDigits] at this
  exact ⟨by omega, colName_inj c c' h1⟩

/-! ## the cells of `mkSheet` -/

theorem mem_mkRow (r : Nat) : ∀ (vs : List Val) (c0 : Nat) (cell : Cell), cell ∈ mkRow r c0 vs →
    ∃ k, k < vs.length ∧ cell.coord = mkCoord r (c0 + k) := by
  intro vs
  induction vs with
  | nil => intro c0 cell h; simp [mkRow] at h
  | cons v vs ih =>
    intro c0 cell h
    simp only [mkRow, List.mem_cons] at h
    rcases h with h | h
    · exact ⟨0, by simp, by rw [h]; rfl⟩
    · obtain ⟨k, hk, hc⟩ := ih (c0 + 1) cell h
      exact ⟨k + 1, by simp; omega, by rw [hc]; congr 1; omega⟩

theorem nodup_mkRow (r : Nat) : ∀ (vs : List Val) (c0 : Nat),
    ((mkRow r c0 vs).map fun x => x.coord).Nodup := by
  intro vs
  induction vs with
  | nil => intro c0; simp [mkRow]
  | cons v vs ih =>
    intro c0
    simp only [mkRow, List.map_cons, List.nodup_cons]
    refine ⟨?_, ih (c0 + 1)⟩
    intro hmem
    obtain ⟨cell, hcell, hco⟩ := List.mem_map.mp hmem
    obtain ⟨k, _, hk⟩ := mem_mkRow r vs (c0 + 1) cell hcell
    rw [hk] at hco
    have := (mkCoord_inj _ _ _ _ hco).2
    omega

theorem mem_mkSheetFrom : ∀ (rows : List (List Val)) (r0 : Nat) (cell : Cell),
    cell ∈ (mkSheetFrom r0 rows).flatten → ∃ i c, cell.coord = mkCoord (r0 + i) c := by
  intro rows
  induction rows with
  | nil => intro r0 cell h; simp [mkSheetFrom] at h
  | cons vs rest ih =>
    intro r0 cell h
    simp only [mkSheetFrom, List.flatten_cons, List.mem_append] at h
    rcases h with h | h
    · obtain ⟨k, _, hk⟩ := mem_mkRow r0 vs 0 cell h
      exact ⟨0, 0 + k, by simpa using hk⟩
    · obtain ⟨i, c, hc⟩ := ih (r0 + 1) cell h
      exact ⟨i + 1, c, by rw [hc]; congr 1; omega⟩

theorem nodup_mkSheetFrom : ∀ (rows : List (List Val)) (r0 : Nat),
    ((mkSheetFrom r0 rows).flatten.map fun x => x.coord).Nodup := by
  intro rows
  induction rows with
  | nil => intro r0; simp [mkSheetFrom]
  | cons vs rest ih =>
    intro r0
    simp only [mkSheetFrom, List.flatten_cons, List.map_append]
    rw [List.nodup_append]
    refine ⟨nodup_mkRow r0 vs 0, ih (r0 + 1), ?_⟩
    intro a ha b hb hab
    obtain ⟨ca, hca, hcoa⟩ := List.mem_map.mp ha
    obtain ⟨cb, hcb, hcob⟩ := List.mem_map.mp hb
    obtain ⟨k, _, hk⟩ := mem_mkRow r0 vs 0 ca hca
    obtain ⟨i, c, hi⟩ := mem_mkSheetFrom rest (r0 + 1) cb hcb
    rw [← hcoa, ← hcob, hk, hi] at hab
    have := (mkCoord_inj _ _ _ _ hab).1
    omega

/-- the coordinates of a sheet built by `mkSheet` (the usual `A1` notation) are pairwise distinct -/
theorem nodup_mkSheet (rows : List (List Val)) :
    ((mkSheet rows).flatten.map fun x => x.coord).Nodup :=
  nodup_mkSheetFrom rows 0

end Xls
