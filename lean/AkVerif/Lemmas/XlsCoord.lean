import AkVerif.Lemmas.XlsSort
/-!
Helper lemmas for C18, fourth part: the coordinates `mkSheet` writes (`A1`, `B1`, …, `AA1`, …)
are pairwise distinct, and `_coord_sort_key` orders the cells of one row by column.
-/
namespace Xls
open Ak

/-! ## column letters: bijective base 26 -/

theorem colNameAux_acc : ∀ (f n : Nat) (acc : List Char),
    colNameAux f n acc = colNameAux f n [] ++ acc := by
  intro f
  induction f with
  | zero => intro n acc; simp [colNameAux]
  | succ f ih =>
    intro n acc
    simp only [colNameAux]
    split
    · simp
    · rw [ih (n / 26 - 1) (Char.ofNat (65 + n % 26) :: acc), ih (n / 26 - 1) [Char.ofNat (65 + n % 26)]]
      simp

theorem colNameAux_fuel : ∀ (f1 f2 n : Nat) (acc : List Char), n < f1 → n < f2 →
    colNameAux f1 n acc = colNameAux f2 n acc := by
  intro f1
  induction f1 with
  | zero => intro f2 n acc h; omega
  | succ f1 ih =>
    intro f2 n acc h1 h2
    cases f2 with
    | zero => omega
    | succ f2 =>
      simp only [colNameAux]
      split
      · rfl
      · exact ih f2 _ _ (by omega) (by omega)

theorem colName_lt (n : Nat) (h : n < 26) : colName n = [Char.ofNat (65 + n)] := by
  simp [colName, colNameAux, h, Nat.mod_eq_of_lt h]

theorem colName_ge (n : Nat) (h : 26 ≤ n) :
    colName n = colName (n / 26 - 1) ++ [Char.ofNat (65 + n % 26)] := by
  have h' : ¬ n < 26 := by omega
  unfold colName
  rw [colNameAux]
  simp only [h', if_false]
  rw [colNameAux_acc, colNameAux_fuel n (n / 26 - 1 + 1) (n / 26 - 1) [] (by omega) (by omega)]

/-- value of a column name in bijective base 26 (`A` = 1 … `Z` = 26) -/
def colVal (s : List Char) : Nat := s.foldl (fun acc c => acc * 26 + (c.toNat - 64)) 0

theorem letter_toNat : ∀ k, k < 26 → (Char.ofNat (65 + k)).toNat = 65 + k := by decide

theorem colVal_colName : ∀ (n : Nat), colVal (colName n) = n + 1 := by
  intro n
  induction n using Nat.strongRecOn with
  | _ n ih =>
    by_cases h : n < 26
    · rw [colName_lt n h]
      simp [colVal, letter_toNat n h]
      omega
    · rw [colName_ge n (by omega)]
      unfold colVal
      rw [List.foldl_append]
      have := ih (n / 26 - 1) (by omega)
      unfold colVal at this
      rw [this]
      simp only [List.foldl_cons, List.foldl_nil]
      rw [letter_toNat (n % 26) (Nat.mod_lt _ (by omega))]
      omega

theorem colName_inj (a b : Nat) (h : colName a = colName b) : a = b := by
  have := congrArg colVal h
  rw [colVal_colName, colVal_colName] at this
  omega

theorem letter_not_digit : ∀ k, k < 26 → (Char.ofNat (65 + k)).isDigit = false := by decide

theorem colName_letters : ∀ (n : Nat), ∀ c ∈ colName n, c.isDigit = false := by
  intro n
  induction n using Nat.strongRecOn with
  | _ n ih =>
    intro c hc
    by_cases h : n < 26
    · rw [colName_lt n h] at hc
      simp only [List.mem_singleton] at hc
      subst hc
      exact letter_not_digit n h
    · rw [colName_ge n (by omega)] at hc
      simp only [List.mem_append, List.mem_singleton] at hc
      rcases hc with hc | hc
      · exact ih (n / 26 - 1) (by omega) c hc
      · subst hc
        exact letter_not_digit (n % 26) (Nat.mod_lt _ (by omega))

/-! ## letters followed by digits split uniquely -/

theorem split_letters_digits :
    ∀ (l1 l2 d1 d2 : List Char),
      (∀ c ∈ l1, c.isDigit = false) → (∀ c ∈ l2, c.isDigit = false) →
      (∀ c ∈ d1, c.isDigit = true) → (∀ c ∈ d2, c.isDigit = true) →
      l1 ++ d1 = l2 ++ d2 → l1 = l2 ∧ d1 = d2 := by
  intro l1
  induction l1 with
  | nil =>
    intro l2 d1 d2 _ h2 h3 _ h
    cases l2 with
    | nil => exact ⟨rfl, by simpa using h⟩
    | cons x xs =>
      simp only [List.nil_append, List.cons_append] at h
      have hx : x ∈ d1 := by rw [h]; simp
      have := h3 x hx
      rw [h2 x (by simp)] at this
      cases this
  | cons y ys ih =>
    intro l2 d1 d2 h1 h2 h3 h4 h
    cases l2 with
    | nil =>
      simp only [List.nil_append, List.cons_append] at h
      have hy : y ∈ d2 := by rw [← h]; simp
      have := h4 y hy
      rw [h1 y (by simp)] at this
      cases this
    | cons x xs =>
      simp only [List.cons_append, List.cons.injEq] at h
      obtain ⟨hxy, hrest⟩ := h
      obtain ⟨g1, g2⟩ := ih xs d1 d2 (fun c hc => h1 c (by simp [hc])) (fun c hc => h2 c (by simp [hc]))
        h3 h4 hrest
      exact ⟨by rw [hxy, g1], g2⟩

theorem mkCoord_inj (r c r' c' : Nat) (h : mkCoord r c = mkCoord r' c') : r = r' ∧ c = c' := by
  unfold mkCoord at h
  simp only [Nat.toString_eq_repr, Nat.toList_repr] at h
  obtain ⟨h1, h2⟩ := split_letters_digits _ _ _ _ (colName_letters c) (colName_letters c')
    (fun x hx => Nat.isDigit_of_mem_toDigits (by decide) (by decide) hx)
    (fun x hx => Nat.isDigit_of_mem_toDigits (by decide) (by decide) hx) h
  have := congrArg (fun l => Nat.ofDigitChars 10 l 0) h2
  simp only [Nat.ofDigitChars_ten_toDigits] at this
  exact ⟨by omega, colName_inj c c' h1⟩

/-! ## the cells of `mkSheet` -/

theorem mem_mkRow (r : Nat) : ∀ (vs : List Val) (c0 : Nat) (cell : Cell), cell ∈ mkRow r c0 vs →
    ∃ k, k < vs.length ∧ cell.coord = mkCoord r (c0 + k) := by
  intro vs
  induction vs with
  | nil => intro c0 cell h; simp [mkRow] at h
  | cons v vs ih =>
    intro c0 cell h
    simp only [mkRow, List.mem_cons] at h
    rcases h with h | h
    · exact ⟨0, by simp, by rw [h]; rfl⟩
    · obtain ⟨k, hk, hc⟩ := ih (c0 + 1) cell h
      exact ⟨k + 1, by simp; omega, by rw [hc]; congr 1; omega⟩

theorem nodup_mkRow (r : Nat) : ∀ (vs : List Val) (c0 : Nat),
    ((mkRow r c0 vs).map fun x => x.coord).Nodup := by
  intro vs
  induction vs with
  | nil => intro c0; simp [mkRow]
  | cons v vs ih =>
    intro c0
    simp only [mkRow, List.map_cons, List.nodup_cons]
    refine ⟨?_, ih (c0 + 1)⟩
    intro hmem
    obtain ⟨cell, hcell, hco⟩ := List.mem_map.mp hmem
    obtain ⟨k, _, hk⟩ := mem_mkRow r vs (c0 + 1) cell hcell
    rw [hk] at hco
    have := (mkCoord_inj _ _ _ _ hco).2
    omega

theorem mem_mkSheetFrom : ∀ (rows : List (List Val)) (r0 : Nat) (cell : Cell),
    cell ∈ (mkSheetFrom r0 rows).flatten → ∃ i c, cell.coord = mkCoord (r0 + i) c := by
  intro rows
  induction rows with
  | nil => intro r0 cell h; simp [mkSheetFrom] at h
  | cons vs rest ih =>
    intro r0 cell h
    simp only [mkSheetFrom, List.flatten_cons, List.mem_append] at h
    rcases h with h | h
    · obtain ⟨k, _, hk⟩ := mem_mkRow r0 vs 0 cell h
      exact ⟨0, 0 + k, by simpa using hk⟩
    · obtain ⟨i, c, hc⟩ := ih (r0 + 1) cell h
      exact ⟨i + 1, c, by rw [hc]; congr 1; omega⟩

theorem nodup_mkSheetFrom : ∀ (rows : List (List Val)) (r0 : Nat),
    ((mkSheetFrom r0 rows).flatten.map fun x => x.coord).Nodup := by
  intro rows
  induction rows with
  | nil => intro r0; simp [mkSheetFrom]
  | cons vs rest ih =>
    intro r0
    simp only [mkSheetFrom, List.flatten_cons, List.map_append]
    rw [List.nodup_append]
    refine ⟨nodup_mkRow r0 vs 0, ih (r0 + 1), ?_⟩
    intro a ha b hb hab
    obtain ⟨ca, hca, hcoa⟩ := List.mem_map.mp ha
    obtain ⟨cb, hcb, hcob⟩ := List.mem_map.mp hb
    obtain ⟨k, _, hk⟩ := mem_mkRow r0 vs 0 ca hca
    obtain ⟨i, c, hi⟩ := mem_mkSheetFrom rest (r0 + 1) cb hcb
    rw [← hcoa, ← hcob, hk, hi] at hab
    have := (mkCoord_inj _ _ _ _ hab).1
    omega

/-- the coordinates of a sheet built by `mkSheet` (the usual `A1` notation) are pairwise distinct -/
theorem nodup_mkSheet (rows : List (List Val)) :
    ((mkSheet rows).flatten.map fun x => x.coord).Nodup :=
  nodup_mkSheetFrom rows 0

/-! ## the sort key of a coordinate; cells of one row are ordered by column -/

theorem dropWhile_append_all {α : Type} (p : α → Bool) :
    ∀ (xs ys : List α), (∀ x ∈ xs, p x = true) → (xs ++ ys).dropWhile p = ys.dropWhile p := by
  intro xs
  induction xs with
  | nil => intro ys _; rfl
  | cons x xs ih =>
    intro ys h
    simp only [List.cons_append, List.dropWhile_cons, h x (by simp), if_true]
    exact ih ys (fun y hy => h y (by simp [hy]))

theorem dropWhile_none {α : Type} (p : α → Bool) (ys : List α) (h : ∀ y ∈ ys, p y = false) :
    ys.dropWhile p = ys := by
  cases ys with
  | nil => rfl
  | cons y ys => simp [h y (by simp)]

theorem coordColumn_letters_digits (l d : List Char) (hl : ∀ c ∈ l, c.isDigit = false)
    (hd : ∀ c ∈ d, c.isDigit = true) : coordColumn (l ++ d) = l := by
  unfold coordColumn
  rw [List.reverse_append, dropWhile_append_all _ _ _ (fun x hx => hd x (by simpa using hx)),
    dropWhile_none _ _ (fun y hy => hl y (by simpa using hy)), List.reverse_reverse]

theorem coordKey_mkCoord (r c : Nat) :
    coordKey (mkCoord r c) = ((colName c).length, colName c, r + 1) := by
  have hcol : coordColumn (mkCoord r c) = colName c := by
    unfold mkCoord
    simp only [Nat.toString_eq_repr, Nat.toList_repr]
    exact coordColumn_letters_digits _ _ (colName_letters c)
      (fun x hx => Nat.isDigit_of_mem_toDigits (by decide) (by decide) hx)
  unfold coordKey
  rw [hcol]
  have : (mkCoord r c).drop (colName c).length = Nat.toDigits 10 (r + 1) := by
    unfold mkCoord
    simp only [Nat.toString_eq_repr, Nat.toList_repr]
    exact List.drop_left
  rw [this, Nat.ofDigitChars_ten_toDigits]

/-- shorter first, then Python's string order (the first two components of the sort key) -/
def slt (s t : List Char) : Prop := s.length < t.length ∨ (s.length = t.length ∧ ltCps s t = true)

theorem slt_trans (a b c : List Char) (h1 : slt a b) (h2 : slt b c) : slt a c := by
  rcases h1 with h1 | ⟨h1, g1⟩ <;> rcases h2 with h2 | ⟨h2, g2⟩
  · exact Or.inl (by omega)
  · exact Or.inl (by omega)
  · exact Or.inl (by omega)
  · exact Or.inr ⟨by omega, ltCps_trans a b c g1 g2⟩

theorem ltCps_append_last : ∀ (p : List Char) (a b : Char), a.toNat < b.toNat →
    ltCps (p ++ [a]) (p ++ [b]) = true := by
  intro p
  induction p with
  | nil => intro a b h; simp [ltCps, h]
  | cons x xs ih => intro a b h; simp [ltCps, ih a b h]

theorem ltCps_append_of_lt : ∀ (p q x y : List Char), p.length = q.length → ltCps p q = true →
    ltCps (p ++ x) (q ++ y) = true := by
  intro p
  induction p with
  | nil =>
    intro q x y hl h
    cases q with
    | nil => simp [ltCps] at h
    | cons _ _ => simp at hl
  | cons a as ih =>
    intro q x y hl h
    cases q with
    | nil => simp at hl
    | cons b bs =>
      simp only [List.cons_append, ltCps] at h ⊢
      by_cases h1 : a.toNat < b.toNat
      · simp [h1]
      · by_cases h2 : b.toNat < a.toNat
        · simp [h1, h2] at h
        · simp only [h1, h2, if_false] at h ⊢
          exact ih bs x y (by simpa using hl) h

theorem colName_succ : ∀ (c : Nat), slt (colName c) (colName (c + 1)) := by
  intro c
  induction c using Nat.strongRecOn with
  | _ c ih =>
    by_cases h1 : c + 1 < 26
    · rw [colName_lt c (by omega), colName_lt (c + 1) h1]
      refine Or.inr ⟨rfl, ?_⟩
      simp [ltCps, letter_toNat c (by omega), letter_toNat (c + 1) h1]
    · by_cases h2 : c < 26
      · have : c = 25 := by omega
        subst this
        exact Or.inl (by decide)
      · rw [colName_ge c (by omega), colName_ge (c + 1) (by omega)]
        by_cases h3 : c % 26 < 25
        · have e1 : (c + 1) / 26 - 1 = c / 26 - 1 := by omega
          have e2 : (c + 1) % 26 = c % 26 + 1 := by omega
          rw [e1, e2]
          refine Or.inr ⟨by simp, ltCps_append_last _ _ _ ?_⟩
          rw [letter_toNat _ (by omega), letter_toNat _ (by omega)]
          omega
        · have e1 : (c + 1) / 26 - 1 = (c / 26 - 1) + 1 := by omega
          have e2 : (c + 1) % 26 = 0 := by omega
          have e3 : c % 26 = 25 := by omega
          rw [e1, e2, e3]
          rcases ih (c / 26 - 1) (by omega) with h | ⟨h, g⟩
          · exact Or.inl (by simp; omega)
          · exact Or.inr ⟨by simp; omega, ltCps_append_of_lt _ _ _ _ h g⟩

theorem colName_mono (c c' : Nat) (h : c < c') : slt (colName c) (colName c') := by
  induction c' with
  | zero => omega
  | succ n ih =>
    by_cases hc : c = n
    · subst hc; exact colName_succ c
    · exact slt_trans _ _ _ (ih (by omega)) (colName_succ n)

theorem ltKey_of_slt (s t : List Char) (n : Nat) (h : slt s t) :
    ltKey (s.length, s, n) (t.length, t, n) = true := by
  simp only [ltKey]
  rcases h with h | ⟨h, g⟩
  · simp [h]
  · have e1 : ¬ s.length < t.length := by omega
    have e2 : ¬ t.length < s.length := by omega
    simp [e1, e2, g]

/-- cells of one row: the sort key orders them by column -/
theorem ltCoord_mkCoord (r c c' : Nat) : ltCoord (mkCoord r c) (mkCoord r c') = true ↔ c < c' := by
  unfold ltCoord
  rw [coordKey_mkCoord, coordKey_mkCoord]
  constructor
  · intro h
    rcases Nat.lt_trichotomy c c' with h' | h' | h'
    · exact h'
    · subst h'; rw [ltKey_irrefl] at h; cases h
    · have := ltKey_asymm _ _ (ltKey_of_slt _ _ (r + 1) (colName_mono c' c h'))
      rw [h] at this; cases this
  · intro h; exact ltKey_of_slt _ _ (r + 1) (colName_mono c c' h)

/-- A ranged attribute whose source cells lie in one row (`r`, columns `cols`, at least two): the
text is `<leftmost cell>:<rightmost cell>`. -/
theorem rangeDescr_single_row (r : Nat) (cols : List Nat) (h2 : 2 ≤ cols.length) :
    ∃ lo hi, lo ∈ cols ∧ hi ∈ cols ∧ (∀ c ∈ cols, lo ≤ c ∧ c ≤ hi) ∧
      rangeDescr (sortCoords (cols.map (mkCoord r))) = mkCoord r lo ++ ':' :: mkCoord r hi := by
  rcases rangeDescr_spec (cols.map (mkCoord r)) with ⟨h, _⟩ | ⟨c, h, _⟩ | ⟨_, lo', hi', ht, hlo, hhi, hall⟩
  · have := congrArg List.length h; rw [List.length_map, List.length_nil] at this; omega
  · have := congrArg List.length h; rw [List.length_map, List.length_singleton] at this; omega
  · obtain ⟨lo, hlo1, hlo2⟩ := List.mem_map.mp hlo
    obtain ⟨hi, hhi1, hhi2⟩ := List.mem_map.mp hhi
    subst hlo2; subst hhi2
    refine ⟨lo, hi, hlo1, hhi1, ?_, ht⟩
    intro c hc
    obtain ⟨g1, g2⟩ := hall (mkCoord r c) (List.mem_map.mpr ⟨c, hc, rfl⟩)
    constructor
    · rcases Nat.lt_or_ge c lo with h | h
      · rw [(ltCoord_mkCoord r c lo).mpr h] at g1; cases g1
      · exact h
    · rcases Nat.lt_or_ge hi c with h | h
      · rw [(ltCoord_mkCoord r hi c).mpr h] at g2; cases g2
      · exact h

end Xls
