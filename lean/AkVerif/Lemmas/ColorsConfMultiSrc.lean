import AkVerif.Lemmas.ColorsConfReentrant
import AkVerif.Lemmas.ColorsConfMulti
/-!
# Several configurations: every registered class has its defaults described, in EVERY configuration of the case

`SrcInv` (Lemmas/ColorsConfReentrant.lean) as an invariant of `stepM` / `runM`, and what a no-colour palette request
does to the configuration it is aimed at — whatever the shared per-class no-colour cache already holds.
-/
namespace ColorsConf
open Ak

/-- every configuration of the case: a class that counts as registered has all its defaults described -/
def MSrc (classes : List ClassDef) (m : MWorld) : Prop :=
  ∀ (i : Nat) (c : Conf), m.confs[i]? = some c → SrcInv classes c

theorem newConf_sources {nc : Bool} {cfg : Cfg} {c : Conf} (h : newConf nc cfg = .ok c) : c.sources = [] := by
  unfold newConf at h
  cases h2 : addNewItems ⟨nc, [], [], []⟩ (flatten cfg) with
  | error err => simp [h2] at h
  | ok c1 =>
    simp only [h2] at h
    rw [addNewItems_sources h, addNewItems_sources h2]

theorem set_msrc {classes : List ClassDef} {m : MWorld} (hs : MSrc classes m) {i : Nat} {c : Conf}
    (hc : m.confs[i]? = some c) {c' : Conf} (hc' : SrcInv classes c') :
    ∀ (j : Nat) (cj : Conf), (m.confs.set i c')[j]? = some cj → SrcInv classes cj := by
  intro j cj hj
  by_cases hji : i = j
  · subst hji
    rw [getElem?_set_self' hc] at hj
    cases hj
    exact hc'
  · rw [List.getElem?_set_ne hji] at hj
    exact hs j cj hj

theorem stepM_msrc {classes : List ClassDef} {m m' : MWorld} {op : MOp} {r : Option Snap}
    (hi : MInv classes m) (hs : MSrc classes m) (h : stepM classes m op = .ok (m', r)) : MSrc classes m' := by
  cases op with
  | new nc cfg =>
    simp only [stepM] at h
    cases h1 : newConf nc cfg with
    | error e => simp [h1] at h
    | ok c =>
      simp [h1] at h
      obtain ⟨hm, _⟩ := h; subst hm
      intro j cj hj
      simp only at hj
      rw [List.getElem?_append] at hj
      split at hj
      · exact hs j cj hj
      · have : cj ∈ [c] := List.mem_of_getElem? hj
        simp at this; rw [this]
        intro k cd dflt hk
        rw [newConf_sources h1] at hk
        cases hk
  | on i o =>
    simp only [stepM] at h
    cases hc : m.confs[i]? with
    | none => simp [hc] at h
    | some c =>
      simp only [hc] at h
      cases h1 : stepG classes (viewOf m i c) (.op o) with
      | error e => simp [h1] at h
      | ok gs =>
        obtain ⟨g', s⟩ := gs
        simp [h1] at h
        obtain ⟨hm, _⟩ := h; subst hm
        exact set_msrc hs hc (stepG_srcInv (hi.view hc) (hs i c hc) h1)
  | setGlobal i =>
    simp only [stepM] at h
    cases hc : m.confs[i]? with
    | none => simp [hc] at h
    | some c =>
      simp only [hc] at h
      cases h1 : stepG classes (viewOf m i c) .setGlobal with
      | error e => simp [h1] at h
      | ok gs =>
        obtain ⟨g', s⟩ := gs
        simp [h1] at h
        obtain ⟨hm, _⟩ := h; subst hm
        exact set_msrc hs hc (stepG_srcInv (hi.view hc) (hs i c hc) h1)
  | syn k =>
    simp only [stepM] at h
    cases hgl : m.glob with
    | some j =>
      simp only [hgl] at h
      cases hc : m.confs[j]? with
      | none => simp [hc] at h
      | some c =>
        simp only [hc] at h
        cases h1 : stepG classes (viewOf m j c) (.syn k) with
        | error e => simp [h1] at h
        | ok gs =>
          obtain ⟨g', s⟩ := gs
          simp [h1] at h
          obtain ⟨hm, _⟩ := h; subst hm
          exact set_msrc hs hc (stepG_srcInv (hi.view hc) (hs j c hc) h1)
    | none =>
      simp only [hgl] at h
      cases h1 : stepG classes ⟨⟨⟨false, [], [], []⟩, m.ncCache⟩, false, m.synced⟩ (.syn k) with
      | error e => simp [h1] at h
      | ok gs =>
        obtain ⟨g', s⟩ := gs
        simp [h1] at h
        obtain ⟨hm, _⟩ := h; subst hm
        exact hs
  | sget k =>
    simp only [stepM] at h
    cases hc : cacheGet m.synced k with
    | some s0 => simp [hc] at h; obtain ⟨hm, _⟩ := h; subst hm; exact hs
    | none => simp [hc] at h

theorem runM_msrc {classes : List ClassDef} : ∀ (ops : List MOp) (m m' : MWorld),
    MInv classes m → MSrc classes m → runM classes m ops = .ok m' → MSrc classes m' := by
  intro ops
  induction ops with
  | nil => intro m m' _ hs h; simp [runM] at h; subst h; exact hs
  | cons op ops ih =>
    intro m m' hi hs h
    unfold runM at h
    cases h1 : stepM classes m op with
    | error e => simp [h1] at h
    | ok mo =>
      obtain ⟨m1, o⟩ := mo
      simp [h1] at h
      exact ih m1 m' (stepM_inv hi h1) (stepM_msrc hi hs h1) h

theorem msrc_empty (classes : List ClassDef) : MSrc classes ⟨[], [], none, []⟩ :=
  fun i c h => by simp at h

/-- `P_k(conf, no_color=True)` on one configuration (possibly the global one), whatever the per-class no-colour cache
holds: the class is registered in THIS configuration, its defaults are described, the palette has no effects -/
theorem getPaletteG_nocolor_registers {classes : List ClassDef} {g g' : GWorld} {k : Nat} {s : Snap} {cd : ClassDef}
    {dflt : Cfg} (hi : GInv classes g) (hs : SrcInv classes g.w.conf) (hcd : classes[k]? = some cd)
    (hdf : cd.defaults = some dflt) (hp : getPaletteG classes g k true = .ok (g', s)) :
    Src.cls k ∈ g'.w.conf.sources ∧ (∀ kv ∈ flatten dflt, (strOf g'.w.conf.map kv.1).isSome = true) ∧
      ∀ x ∈ s, x.2.2 = [] := by
  unfold getPaletteG at hp
  simp only [hcd, if_true] at hp
  cases h1 : registerClassG classes (gFuel classes) g k with
  | error e => simp [h1] at hp
  | ok g1 =>
    simp only [h1] at hp
    have hin := registerClassG_self hcd hdf h1
    have hdesc := (registerClassG_srcInv _ g k g1 hi.good hs h1).described hin hcd hdf
    have hplain : ∀ (s0 : Snap), s0 = plainSnap cd.accessors → ∀ x ∈ s0, x.2.2 = [] := by
      intro s0 hs0 x hx
      subst hs0
      simp [plainSnap] at hx
      obtain ⟨a, b, _, rfl⟩ := hx
      rfl
    have hi1 := hi.step (registerClassG_step _ g k g1 hi.good h1)
    cases hc : cacheGet g1.w.ncCache k with
    | some s0 =>
      simp [hc] at hp
      obtain ⟨hw, hs'⟩ := hp
      subst hw; subst hs'
      obtain ⟨cd', hcd', hs0⟩ := hi1.good.nc k s0 hc
      rw [hcd] at hcd'; cases hcd'
      exact ⟨hin, hdesc, hplain s0 hs0⟩
    | none =>
      simp [hc] at hp
      obtain ⟨hw, hs'⟩ := hp
      subst hw; subst hs'
      exact ⟨hin, hdesc, hplain _ rfl⟩

end ColorsConf
