import AkVerif.Model.SgrResize
import AkVerif.Lemmas.SgrText
import AkVerif.Lemmas.SgrHist
/-! Helper lemmas for C09, part 4: chunk lists that pass through `CHText.resize_chunks_list`
(`Model/SgrResize.lean`) before they are rendered. `Shows k fin cs cells`: every chunk of `cs` is
`Good` for some attributes (and its sequences are strippable) and the cells of the list are
`cells`; the helper and the sinks preserve it with the cells of `fitCells`. -/
namespace Sgr
open Ak

/-- `cs` are chunks of well-behaved formatters showing `cells` -/
def Shows (k : CharClass) (fin : Char) (cs : List Chunk) (cells : List (Char × Attr)) : Prop :=
  ∃ gs : List (Chunk × Attr), gs.map Prod.fst = cs ∧
    (∀ g ∈ gs, Good g.1 g.2 ∧ Strippable k fin g.1.pre ∧ Strippable k fin g.1.suf) ∧ cellsOf gs = cells

variable {k : CharClass} {fin : Char}

theorem Shows.nil : Shows k fin [] [] := ⟨[], rfl, by simp, rfl⟩

theorem Shows.cons {c : Chunk} {a : Attr} {cs : List Chunk} {cells : List (Char × Attr)}
    (hc : Good c a) (hp : Strippable k fin c.pre) (hq : Strippable k fin c.suf) (h : Shows k fin cs cells) :
    Shows k fin (c :: cs) (c.text.map (fun x => (x, a)) ++ cells) := by
  obtain ⟨gs, h1, h2, h3⟩ := h
  refine ⟨(c, a) :: gs, by simp [h1], ?_, by simp [cellsOf, h3]⟩
  intro g hg
  simp only [List.mem_cons] at hg
  rcases hg with rfl | hg
  · exact ⟨hc, hp, hq⟩
  · exact h2 g hg

theorem Shows.uncons {c : Chunk} {cs : List Chunk} {cells : List (Char × Attr)}
    (h : Shows k fin (c :: cs) cells) :
    ∃ a cells', Good c a ∧ Strippable k fin c.pre ∧ Strippable k fin c.suf ∧ Shows k fin cs cells' ∧
      cells = c.text.map (fun x => (x, a)) ++ cells' := by
  obtain ⟨gs, h1, h2, h3⟩ := h
  cases gs with
  | nil => simp at h1
  | cons g gs =>
    obtain ⟨c', a⟩ := g
    simp only [List.map_cons, List.cons.injEq] at h1
    obtain ⟨rfl, h1⟩ := h1
    obtain ⟨hg, hp, hq⟩ := h2 (c', a) (by simp)
    exact ⟨a, cellsOf gs, hg, hp, hq, ⟨gs, h1, fun g hg => h2 g (by simp [hg]), rfl⟩, by simp [cellsOf] at h3; exact h3.symm⟩

theorem Shows.nil_cells {cells : List (Char × Attr)} (h : Shows k fin [] cells) : cells = [] := by
  obtain ⟨gs, h1, _, h3⟩ := h
  cases gs with
  | nil => simpa [cellsOf] using h3.symm
  | cons g gs => simp at h1

theorem Shows.length {cs : List Chunk} {cells : List (Char × Attr)} (h : Shows k fin cs cells) :
    cells.length = chunksLen cs := by
  induction cs generalizing cells with
  | nil => simp [h.nil_cells, chunksLen]
  | cons c cs ih =>
    obtain ⟨a, cells', _, _, _, hs, rfl⟩ := h.uncons
    simp [chunksLen, ih hs]

theorem Shows.plain {cs : List Chunk} {cells : List (Char × Attr)} (h : Shows k fin cs cells) :
    plain cs = cells.map Prod.fst := by
  induction cs generalizing cells with
  | nil => simp [h.nil_cells, Sgr.plain]
  | cons c cs ih =>
    obtain ⟨a, cells', _, _, _, hs, rfl⟩ := h.uncons
    simp [Sgr.plain, ih hs, List.map_map, Function.comp_def]

theorem Shows.append {cs ds : List Chunk} {cells dcells : List (Char × Attr)}
    (h : Shows k fin cs cells) (hd : Shows k fin ds dcells) : Shows k fin (cs ++ ds) (cells ++ dcells) := by
  induction cs generalizing cells with
  | nil => simpa [h.nil_cells] using hd
  | cons c cs ih =>
    obtain ⟨a, cells', hg, hp, hq, hs, rfl⟩ := h.uncons
    simpa using Shows.cons hg hp hq (ih hs)

theorem Shows.allChunks (P : List Char → List Char → Prop) {cs : List Chunk} {cells : List (Char × Attr)}
    (h : Shows k fin cs cells)
    (hP : ∀ c a, Good c a → Strippable k fin c.pre → Strippable k fin c.suf → P c.pre c.suf) :
    AllChunks P cs := by
  obtain ⟨gs, h1, h2, _⟩ := h
  intro c hc
  rw [← h1] at hc
  obtain ⟨g, hg, rfl⟩ := List.mem_map.mp hc
  obtain ⟨hgood, hp, hq⟩ := h2 g hg
  exact ⟨hP g.1 g.2 hgood hp hq, hgood.2.2⟩

/-- a plain chunk of blanks shows blanks in default state -/
theorem padChunk_good (n : Nat) : Good (padChunk n) Attr.default := by
  refine ⟨fun _ => rfl, fun _ => rfl, ?_⟩
  intro c hc
  simp only [padChunk, List.mem_replicate] at hc
  rw [hc.2]; decide

theorem padChunk_shows (n : Nat) :
    Shows k fin [padChunk n] (List.replicate n (' ', Attr.default)) := by
  have := Shows.cons (k := k) (fin := fin) (padChunk_good n) (fun _ => rfl) (fun _ => rfl) Shows.nil
  simpa [padChunk] using this

/-! the helper -/

theorem truncGo_shows {cs : List Chunk} {cells : List (Char × Attr)} (n : Nat)
    (h : Shows k fin cs cells) : Shows k fin (truncGo n cs) (fitCells cells n) := by
  induction cs generalizing cells n with
  | nil =>
    have := padChunk_shows (k := k) (fin := fin) n
    simpa [h.nil_cells, truncGo, fitCells] using this
  | cons c cs ih =>
    obtain ⟨a, cells', hg, hp, hq, hs, rfl⟩ := h.uncons
    simp only [truncGo]
    split
    · rename_i h0
      subst h0
      simpa [fitCells] using (Shows.nil (k := k) (fin := fin))
    · split
      · rename_i h0 hle
        have := Shows.cons hg hp hq (ih (n - c.text.length) hs)
        have hfit : fitCells (c.text.map (fun x => (x, a)) ++ cells') n =
            c.text.map (fun x => (x, a)) ++ fitCells cells' (n - c.text.length) := by
          simp only [fitCells, List.take_append, List.length_map, List.length_append, List.append_assoc]
          rw [List.take_of_length_le (by simpa using hle)]
          rw [Nat.sub_add_eq]
        rw [hfit]; exact this
      · rename_i h0 hgt
        have hgt : n < c.text.length := by omega
        have hcut : Good { c with text := c.text.take n } a :=
          ⟨hg.1, hg.2.1, fun x hx => hg.2.2 x (List.mem_of_mem_take hx)⟩
        have hfit : fitCells (c.text.map (fun x => (x, a)) ++ cells') n =
            (c.text.take n).map (fun x => (x, a)) ++ fitCells [] 0 := by
          simp only [fitCells, List.take_append, List.length_map, List.length_append, List.map_take]
          have h1 : n - c.text.length = 0 := by omega
          have h2 : n - (c.text.length + cells'.length) = 0 := by omega
          simp [h1, h2]
        rw [hfit]
        have hrest : Shows k fin (truncGo 0 cs) (fitCells [] 0) := by
          cases cs with
          | nil =>
            have := padChunk_shows (k := k) (fin := fin) 0
            simpa [truncGo, fitCells] using this
          | cons d ds => simpa [truncGo, fitCells] using (Shows.nil (k := k) (fin := fin))
        exact Shows.cons (c := { c with text := c.text.take n }) hcut hp hq hrest

theorem resizeChunks_shows {cs : List Chunk} {cells : List (Char × Attr)} (n : Nat)
    (h : Shows k fin cs cells) : Shows k fin (resizeChunks cs n) (fitCells cells n) := by
  have hlen := h.length
  unfold resizeChunks
  split
  · rename_i he
    have : fitCells cells n = cells := by
      simp only [fitCells, hlen, he, Nat.sub_self, List.replicate_zero, List.append_nil]
      exact List.take_of_length_le (by omega)
    rw [this]; exact h
  · split
    · rename_i hne hlt
      have : fitCells cells n = cells ++ List.replicate (n - chunksLen cs) (' ', Attr.default) := by
        simp only [fitCells, hlen]
        rw [List.take_of_length_le (by omega)]
      rw [this]
      exact h.append (padChunk_shows _)
    · exact truncGo_shows n h

theorem resizeAll_shows {cs : List Chunk} {cells : List (Char × Attr)} (lens : List Nat)
    (h : Shows k fin cs cells) : Shows k fin (resizeAll cs lens) (fitAll cells lens) := by
  induction lens generalizing cs cells with
  | nil => exact h
  | cons n ns ih => exact ih (resizeChunks_shows n h)

/-! sources and sinks -/

theorem buildGo_some_Shows {cs : List Chunk} {cells : List (Char × Attr)} (h : Shows k fin cs cells)
    (p : Chunk) (ap : Attr) (hp : Good p ap) (hsp : Strippable k fin p.pre) (hsq : Strippable k fin p.suf) :
    Shows k fin (buildGo (some p) cs) (p.text.map (fun x => (x, ap)) ++ cells) := by
  induction cs generalizing cells p ap with
  | nil =>
    have := Shows.cons hp hsp hsq (Shows.nil (k := k) (fin := fin))
    simpa [h.nil_cells, buildGo] using this
  | cons c cs ih =>
    obtain ⟨a, cells', hg, hcp, hcq, hs, rfl⟩ := h.uncons
    simp only [buildGo]
    split
    · rename_i he
      simpa [he] using ih hs p ap hp hsp hsq
    · split
      · rename_i he
        have : ap = a := PreShows_unique p.pre ap a hp.1 (he ▸ hg.1)
        subst this
        have := ih hs { p with text := p.text ++ c.text } ap
          ⟨hp.1, hp.2.1, NoEsc_append.mpr ⟨hp.2.2, hg.2.2⟩⟩ hsp hsq
        simpa using this
      · have := Shows.cons hp hsp hsq (ih hs c a hg hcp hcq)
        simpa using this

theorem buildGo_none_Shows {cs : List Chunk} {cells : List (Char × Attr)} (h : Shows k fin cs cells) :
    Shows k fin (buildGo none cs) cells := by
  induction cs generalizing cells with
  | nil => simpa [buildGo] using h
  | cons c cs ih =>
    obtain ⟨a, cells', hg, hcp, hcq, hs, rfl⟩ := h.uncons
    simp only [buildGo]
    split
    · rename_i he
      simpa [he] using ih hs
    · exact buildGo_some_Shows hs c a hg hcp hcq

theorem srcChunks_shows (src : Source) {cs : List Chunk} {cells : List (Char × Attr)}
    (h : Shows k fin cs cells) : Shows k fin (srcChunks src cs) cells := by
  cases src with
  | fmts => exact h
  | obj => exact buildGo_none_Shows h

theorem mergeGo_Shows {cs : List Chunk} {cells : List (Char × Attr)} (h : Shows k fin cs cells)
    (p : Chunk) (ap : Attr) (hp : Good p ap) (hsp : Strippable k fin p.pre) (hsq : Strippable k fin p.suf) :
    Shows k fin (mergeGo p cs) (p.text.map (fun x => (x, ap)) ++ cells) := by
  induction cs generalizing cells p ap with
  | nil =>
    have := Shows.cons hp hsp hsq (Shows.nil (k := k) (fin := fin))
    simpa [h.nil_cells, mergeGo] using this
  | cons c cs ih =>
    obtain ⟨a, cells', hg, hcp, hcq, hs, rfl⟩ := h.uncons
    simp only [mergeGo]
    split
    · rename_i he
      have : ap = a := PreShows_unique p.pre ap a hp.1 (he ▸ hg.1)
      subst this
      have := ih hs { p with text := p.text ++ c.text } ap
        ⟨hp.1, hp.2.1, NoEsc_append.mpr ⟨hp.2.2, hg.2.2⟩⟩ hsp hsq
      simpa using this
    · have := Shows.cons hp hsp hsq (ih hs c a hg hcp hcq)
      simpa using this

theorem sinkChunks_shows (sink : Sink) {cs : List Chunk} {cells : List (Char × Attr)}
    (h : Shows k fin cs cells) : Shows k fin (sinkChunks sink cs) cells := by
  cases sink with
  | join => exact h
  | ctor => exact buildGo_none_Shows h
  | make =>
    cases cs with
    | nil => simpa [sinkChunks, mergeChunks] using h
    | cons c cs =>
      obtain ⟨a, cells', hg, hcp, hcq, hs, rfl⟩ := h.uncons
      exact mergeGo_Shows hs c a hg hcp hcq

theorem listChunks_shows (src : Source) (lens : List Nat) (sink : Sink) {cs : List Chunk}
    {cells : List (Char × Attr)} (h : Shows k fin cs cells) :
    Shows k fin (listChunks src lens sink cs) (fitAll cells lens) :=
  sinkChunks_shows sink (resizeAll_shows lens (srcChunks_shows src h))

/-- what a list with `Shows` means for the terminal and for `strip` -/
theorem Shows.screen {cs : List Chunk} {cells : List (Char × Attr)} (h : Shows k fin cs cells) :
    interp (render cs) = some (cells, Attr.default) ∧
    (∀ n, ∃ shown, interp (render (cs.take n)) = some (shown, Attr.default)) ∧
    strip k fin (render cs) = cells.map Prod.fst := by
  refine ⟨?_, ?_, ?_⟩
  · obtain ⟨gs, h1, h2, h3⟩ := h
    have := render_shows gs (fun g hg => (h2 g hg).1) []
    rw [h1, h3] at this
    simpa [interp, run, prepend] using this
  · intro n
    apply render_resets
    have hall := h.allChunks (fun p q => ∃ a, PreShows p a ∧ SufResets q a)
      (fun c a hg _ _ => ⟨a, hg.1, hg.2.1⟩)
    intro c hc
    exact hall c (List.mem_of_mem_take hc)
  · have hall := h.allChunks (fun p q => Strippable k fin p ∧ Strippable k fin q)
      (fun c a _ hp hq => ⟨hp, hq⟩)
    have := strip_render k fin cs hall []
    rw [← h.plain]
    simpa [strip_nil] using this

end Sgr
