import AkVerif.Model.CHTextHist
import AkVerif.Lemmas.CHTextEval
/-!
Lemmas about histories (`Model/CHTextHist.lean`): the reference semantics on stores of plain cell
sequences (`rexec`), refinement, preservation of the invariant by every statement, and the frame
property (a statement writes exactly one object).
-/
namespace CHText
open Ak

/-- a store of plain sequences: what the objects show -/
abbrev RStore := List Cells

def rGet (rs : RStore) (id : Nat) : Except Fail Cells :=
  match rs[id]? with
  | some c => .ok c
  | none => .error .unmodelled

mutual
/-- an operand as one flat sequence, objects read now -/
def rFlat (rs : RStore) : RPart → Except Fail Cells
  | .str s => .ok (plainCells s)
  | .chunk c => .ok c.cells
  | .obj id => rGet rs id
  | .list _ ps => do
    let cs ← rFlatList rs ps
    .ok cs.flatten
def rFlatList (rs : RStore) : List RPart → Except Fail (List Cells)
  | [] => .ok []
  | p :: ps => do
    let c ← rFlat rs p
    let cs ← rFlatList rs ps
    .ok (c :: cs)
end

mutual
/-- `seq_tgt += p` on mutable sequences: elements of a list operand are appended one after the
other, an object is read when its turn comes -/
def rIadd (rs : RStore) (tgt : Nat) : RPart → Except Fail RStore
  | .str s => do
    let t ← rGet rs tgt
    .ok (rs.set tgt (t ++ plainCells s))
  | .chunk c => do
    let t ← rGet rs tgt
    .ok (rs.set tgt (t ++ c.cells))
  | .obj id => do
    let t ← rGet rs tgt
    let o ← rGet rs id
    .ok (rs.set tgt (t ++ o))
  | .list _ ps => rIaddList rs tgt ps
def rIaddList (rs : RStore) (tgt : Nat) : List RPart → Except Fail RStore
  | [] => do
    let _ ← rGet rs tgt
    .ok rs
  | p :: ps => do
    let rs' ← rIadd rs tgt p
    rIaddList rs' tgt ps
end

def isStrOrList : RPart → Bool
  | .str _ => true
  | .list _ _ => true
  | _ => false

/-- the statements on plain sequences, with Python's `str`/`list` operations -/
def rexec (rs : RStore) : Stmt → Except Fail RStore
  | .new args => do
    let cs ← rFlatList rs args
    .ok (rs ++ [cs.flatten])
  | .iadd tgt p => rIadd rs tgt p
  | .add a p => do
    let t ← rGet rs a
    let q ← rFlat rs p
    .ok (rs ++ [t ++ q])
  | .radd a p => do
    let t ← rGet rs a
    let q ← rFlat rs p
    if isStrOrList p then .ok (rs ++ [q ++ t]) else .error .unmodelled
  | .join sep items => do
    let t ← rGet rs sep
    let cs ← rFlatList rs items
    .ok (rs ++ [pyJoin t cs])
  | .slice a i j => do
    let t ← rGet rs a
    .ok (rs ++ [pySlice t i j])
  | .idx a i => do
    let t ← rGet rs a
    match pyIndex t i with
    | .ok x => .ok (rs ++ [[x]])
    | .error e => .error (.py e)
  | .fixedLen a n => do
    let t ← rGet rs a
    .ok (rs ++ [pyFixedLen t n])

def cellsS (st : Store) : RStore := st.map Text.cells

def AllCanon (st : Store) : Prop := ∀ t ∈ st, Canon t

private theorem bind_ok' {ε α β} (a : α) (f : α → Except ε β) : (Except.ok a >>= f) = f a := rfl
private theorem bind_err' {ε α β} (e : ε) (f : α → Except ε β) :
    ((Except.error e : Except ε α) >>= f) = .error e := rfl

theorem getObj_cells (st : Store) (id : Nat) :
    (getObj st id).map Text.cells = rGet (cellsS st) id := by
  unfold getObj rGet cellsS
  rw [List.getElem?_map]
  cases st[id]? <;> rfl

theorem getObj_ok {st : Store} {id : Nat} {t : Text} (h : getObj st id = .ok t) :
    rGet (cellsS st) id = .ok t.cells ∧ t ∈ st ∧ id < st.length := by
  have := getObj_cells st id
  rw [h] at this
  refine ⟨this.symm, ?_, ?_⟩ <;>
  · unfold getObj at h
    cases hg : st[id]? with
    | none => rw [hg] at h; cases h
    | some x =>
      rw [hg] at h; cases h
      first
        | exact List.mem_of_getElem? hg
        | exact (List.getElem?_eq_some_iff.mp hg).1

theorem getObj_err {st : Store} {id : Nat} {e : Fail} (h : getObj st id = .error e) :
    rGet (cellsS st) id = .error e := by
  have := getObj_cells st id
  rw [h] at this
  exact this.symm

theorem cellsS_set (st : Store) (i : Nat) (t : Text) :
    cellsS (st.set i t) = (cellsS st).set i t.cells := by
  simp [cellsS, List.map_set]

theorem cellsS_append (st : Store) (t : Text) : cellsS (st ++ [t]) = cellsS st ++ [t.cells] := by
  simp [cellsS]

mutual
theorem resolve_cells (st : Store) (p : RPart) :
    (resolve st p).map Part.cells = rFlat (cellsS st) p := by
  cases p with
  | str s => rfl
  | chunk c => rfl
  | obj id =>
    simp only [resolve, rFlat]
    rw [← getObj_cells]
    cases getObj st id <;> rfl
  | list tp ps =>
    simp only [resolve, rFlat]
    rw [← resolveList_cells st ps]
    cases resolveList st ps with
    | error e => rfl
    | ok qs => simp only [bind_ok', Except.map, Part.cells, cellsList_eq]
theorem resolveList_cells (st : Store) (ps : List RPart) :
    (resolveList st ps).map (fun qs => qs.map Part.cells) = rFlatList (cellsS st) ps := by
  cases ps with
  | nil => rfl
  | cons p ps =>
    simp only [resolveList, rFlatList]
    rw [← resolve_cells st p, ← resolveList_cells st ps]
    cases resolve st p with
    | error e => rfl
    | ok q =>
      cases resolveList st ps with
      | error e => rfl
      | ok qs => rfl
end

/-! ### `+=` in place -/

mutual
theorem sIadd_cells (st : Store) (tgt : Nat) (p : RPart) :
    (sIadd st tgt p).map cellsS = rIadd (cellsS st) tgt p := by
  cases p with
  | str s =>
    simp only [sIadd, rIadd]
    cases hg : getObj st tgt with
    | error e => rw [getObj_err hg]; rfl
    | ok t =>
      rw [(getObj_ok hg).1]
      simp only [ok_bind, Except.map, cellsS_set, appendChunk_cells, Chunk.cells, plainCells]
  | chunk c =>
    simp only [sIadd, rIadd]
    cases hg : getObj st tgt with
    | error e => rw [getObj_err hg]; rfl
    | ok t =>
      rw [(getObj_ok hg).1]
      simp only [ok_bind, Except.map, cellsS_set, appendChunk_cells]
  | obj id =>
    simp only [sIadd, rIadd]
    cases hg : getObj st tgt with
    | error e => rw [getObj_err hg]; rfl
    | ok t =>
      rw [(getObj_ok hg).1]
      cases ho : getObj st id with
      | error e => rw [getObj_err ho]; rfl
      | ok o =>
        rw [(getObj_ok ho).1]
        simp only [ok_bind, Except.map, cellsS_set, appendChunks_cells]
        rfl
  | list tp ps => simp only [sIadd, rIadd]; exact sIaddList_cells st tgt ps
theorem sIaddList_cells (st : Store) (tgt : Nat) (ps : List RPart) :
    (sIaddList st tgt ps).map cellsS = rIaddList (cellsS st) tgt ps := by
  cases ps with
  | nil =>
    simp only [sIaddList, rIaddList]
    cases hg : getObj st tgt with
    | error e => rw [getObj_err hg]; rfl
    | ok t => rw [(getObj_ok hg).1]; rfl
  | cons p ps =>
    simp only [sIaddList, rIaddList]
    rw [← sIadd_cells st tgt p]
    cases hs : sIadd st tgt p with
    | error e => rfl
    | ok st' =>
      simp only [ok_bind, Except.map]
      exact sIaddList_cells st' tgt ps
end

theorem allCanon_set (st : Store) (i : Nat) (t : Text) (h : AllCanon st) (ht : Canon t) :
    AllCanon (st.set i t) := by
  intro x hx
  rcases List.mem_or_eq_of_mem_set hx with h1 | h1
  · exact h x h1
  · rw [h1]; exact ht

theorem allCanon_append (st : Store) (t : Text) (h : AllCanon st) (ht : Canon t) :
    AllCanon (st ++ [t]) := by
  intro x hx
  simp only [List.mem_append, List.mem_singleton] at hx
  rcases hx with h1 | h1
  · exact h x h1
  · rw [h1]; exact ht

/-- what a `+=` may change: the target only -/
def Frame (st st' : Store) (tgt : Nat) : Prop :=
  st'.length = st.length ∧ ∀ id, id ≠ tgt → st'[id]? = st[id]?

theorem frame_refl (st : Store) (tgt : Nat) : Frame st st tgt := ⟨rfl, fun _ _ => rfl⟩

theorem frame_set (st : Store) (tgt : Nat) (t : Text) : Frame st (st.set tgt t) tgt :=
  ⟨by simp, fun id hid => by rw [List.getElem?_set_ne (Ne.symm hid)]⟩

theorem frame_trans {a b c : Store} {tgt : Nat} (h1 : Frame a b tgt) (h2 : Frame b c tgt) : Frame a c tgt :=
  ⟨h2.1.trans h1.1, fun id hid => (h2.2 id hid).trans (h1.2 id hid)⟩

mutual
theorem sIadd_inv (st st' : Store) (tgt : Nat) (p : RPart) (hc : AllCanon st)
    (h : sIadd st tgt p = .ok st') : AllCanon st' ∧ Frame st st' tgt := by
  cases p with
  | str s =>
    simp only [sIadd] at h
    cases hg : getObj st tgt with
    | error e => rw [hg] at h; cases h
    | ok t =>
      rw [hg] at h; cases h
      exact ⟨allCanon_set _ _ _ hc (appendChunk_canon _ _ (hc t (getObj_ok hg).2.1)), frame_set _ _ _⟩
  | chunk c =>
    simp only [sIadd] at h
    cases hg : getObj st tgt with
    | error e => rw [hg] at h; cases h
    | ok t =>
      rw [hg] at h; cases h
      exact ⟨allCanon_set _ _ _ hc (appendChunk_canon _ _ (hc t (getObj_ok hg).2.1)), frame_set _ _ _⟩
  | obj id =>
    simp only [sIadd] at h
    cases hg : getObj st tgt with
    | error e => rw [hg] at h; cases h
    | ok t =>
      rw [hg] at h
      cases ho : getObj st id with
      | error e => rw [ho] at h; cases h
      | ok o =>
        rw [ho] at h; cases h
        exact ⟨allCanon_set _ _ _ hc (appendChunks_canon _ _ (hc t (getObj_ok hg).2.1)), frame_set _ _ _⟩
  | list tp ps => simp only [sIadd] at h; exact sIaddList_inv st st' tgt ps hc h
theorem sIaddList_inv (st st' : Store) (tgt : Nat) (ps : List RPart) (hc : AllCanon st)
    (h : sIaddList st tgt ps = .ok st') : AllCanon st' ∧ Frame st st' tgt := by
  cases ps with
  | nil =>
    simp only [sIaddList] at h
    cases hg : getObj st tgt with
    | error e => rw [hg] at h; cases h
    | ok t => rw [hg] at h; cases h; exact ⟨hc, frame_refl _ _⟩
  | cons p ps =>
    simp only [sIaddList] at h
    cases hs : sIadd st tgt p with
    | error e => rw [hs] at h; cases h
    | ok st1 =>
      rw [hs] at h
      obtain ⟨c1, f1⟩ := sIadd_inv st st1 tgt p hc hs
      obtain ⟨c2, f2⟩ := sIaddList_inv st1 st' tgt ps c1 h
      exact ⟨c2, frame_trans f1 f2⟩
end

/-! ### statements -/

/-- a statement other than `+=` allocates one object and writes nothing else; `+=` writes its
target only -/
def StmtFrame (st st' : Store) : Stmt → Prop
  | .iadd tgt _ => Frame st st' tgt
  | _ => ∃ t, st' = st ++ [t]

/-- every statement keeps all objects canonical and respects the frame -/
theorem exec_inv (st st' : Store) (s : Stmt) (hc : AllCanon st) (h : exec st s = .ok st') :
    AllCanon st' ∧ StmtFrame st st' s := by
  cases s with
  | new args =>
    simp only [exec] at h
    cases hr : resolveList st args with
    | error e => rw [hr] at h; cases h
    | ok ps => rw [hr] at h; cases h; exact ⟨allCanon_append _ _ hc (construct_canon _), _, rfl⟩
  | iadd tgt p => exact sIadd_inv st st' tgt p hc h
  | add a p =>
    simp only [exec] at h
    cases hg : getObj st a with
    | error e => rw [hg] at h; cases h
    | ok t =>
      rw [hg] at h
      cases hr : resolve st p with
      | error e => rw [hr] at h; cases h
      | ok q => rw [hr] at h; cases h; exact ⟨allCanon_append _ _ hc (add_canon _ _), _, rfl⟩
  | radd a p =>
    simp only [exec] at h
    cases hg : getObj st a with
    | error e => rw [hg] at h; cases h
    | ok t =>
      rw [hg] at h
      cases hr : resolve st p with
      | error e => rw [hr] at h; cases h
      | ok q =>
        rw [hr] at h
        cases q with
        | str s => cases h; exact ⟨allCanon_append _ _ hc (construct_canon _), _, rfl⟩
        | list tp qs => cases h; exact ⟨allCanon_append _ _ hc (construct_canon _), _, rfl⟩
        | chunk c => cases h
        | text t' => cases h
  | join sep items =>
    simp only [exec] at h
    cases hg : getObj st sep with
    | error e => rw [hg] at h; cases h
    | ok t =>
      rw [hg] at h
      cases hr : resolveList st items with
      | error e => rw [hr] at h; cases h
      | ok qs => rw [hr] at h; cases h; exact ⟨allCanon_append _ _ hc (join_canon _ _), _, rfl⟩
  | slice a i j =>
    simp only [exec] at h
    cases hg : getObj st a with
    | error e => rw [hg] at h; cases h
    | ok t => rw [hg] at h; cases h; exact ⟨allCanon_append _ _ hc (getSlice_canon _ _ _), _, rfl⟩
  | idx a i =>
    simp only [exec] at h
    cases hg : getObj st a with
    | error e => rw [hg] at h; cases h
    | ok t =>
      rw [hg] at h
      simp only [ok_bind] at h
      cases hi : t.getIndex i with
      | error e => rw [hi] at h; cases h
      | ok r => rw [hi] at h; cases h; exact ⟨allCanon_append _ _ hc (getIndex_canon _ _ _ hi), _, rfl⟩
  | fixedLen a n =>
    simp only [exec] at h
    cases hg : getObj st a with
    | error e => rw [hg] at h; cases h
    | ok t => rw [hg] at h; cases h; exact ⟨allCanon_append _ _ hc (fixedLen_canon _ _), _, rfl⟩

/-- every statement does to what the objects show what the same statement does to plain
sequences, errors included -/
theorem exec_cells (st : Store) (s : Stmt) (hc : AllCanon st) :
    (exec st s).map cellsS = rexec (cellsS st) s := by
  cases s with
  | new args =>
    simp only [exec, rexec]
    rw [← resolveList_cells]
    cases resolveList st args with
    | error e => rfl
    | ok ps => simp only [ok_bind, Except.map, cellsS_append, construct_cells, cellsList_eq]
  | iadd tgt p => exact sIadd_cells st tgt p
  | add a p =>
    simp only [exec, rexec]
    cases hg : getObj st a with
    | error e => rw [getObj_err hg]; rfl
    | ok t =>
      rw [(getObj_ok hg).1, ← resolve_cells]
      cases resolve st p with
      | error e => rfl
      | ok q => simp only [ok_bind, Except.map, cellsS_append, add_cells]
  | radd a p =>
    simp only [exec, rexec]
    cases hg : getObj st a with
    | error e => rw [getObj_err hg]; rfl
    | ok t =>
      rw [(getObj_ok hg).1, ← resolve_cells]
      cases p with
      | str s => simp [resolve, isStrOrList, Except.map, cellsS_append, radd_cells, Part.cells]
      | chunk c => simp [resolve, isStrOrList, Except.map]
      | obj id =>
        simp only [resolve, isStrOrList]
        cases getObj st id with
        | error e => rfl
        | ok o => simp [Except.map]
      | list tp ps =>
        simp only [resolve, isStrOrList]
        cases resolveList st ps with
        | error e => rfl
        | ok qs => simp [Except.map, cellsS_append, radd_cells, Part.cells]
  | join sep items =>
    simp only [exec, rexec]
    cases hg : getObj st sep with
    | error e => rw [getObj_err hg]; rfl
    | ok t =>
      rw [(getObj_ok hg).1, ← resolveList_cells]
      cases resolveList st items with
      | error e => rfl
      | ok qs => simp only [ok_bind, Except.map, cellsS_append, join_cells]
  | slice a i j =>
    simp only [exec, rexec]
    cases hg : getObj st a with
    | error e => rw [getObj_err hg]; rfl
    | ok t =>
      rw [(getObj_ok hg).1]
      simp only [ok_bind, Except.map, cellsS_append, getSlice_cells t (hc t (getObj_ok hg).2.1).2]
  | idx a i =>
    simp only [exec, rexec]
    cases hg : getObj st a with
    | error e => rw [getObj_err hg]; rfl
    | ok t =>
      rw [(getObj_ok hg).1]
      simp only [ok_bind, getIndex_spec t (hc t (getObj_ok hg).2.1).2]
      cases pyIndex t.cells i with
      | error e => rfl
      | ok x => simp only [Except.map, cellsS_append, cellText_cells]
  | fixedLen a n =>
    simp only [exec, rexec]
    cases hg : getObj st a with
    | error e => rw [getObj_err hg]; rfl
    | ok t =>
      rw [(getObj_ok hg).1]
      simp only [ok_bind, Except.map, cellsS_append, fixedLen_cells t (hc t (getObj_ok hg).2.1).2]

/-- a history on plain sequences -/
def rrun (rs : RStore) : List Stmt → List (Except Fail RStore)
  | [] => []
  | s :: rest =>
    match rexec rs s with
    | .ok rs' => .ok rs' :: rrun rs' rest
    | .error e => .error e :: rrun rs rest

theorem run_cells (st : Store) (hc : AllCanon st) (ss : List Stmt) :
    (run st ss).map (fun r => r.map cellsS) = rrun (cellsS st) ss ∧
    ∀ st', .ok st' ∈ run st ss → AllCanon st' := by
  induction ss generalizing st with
  | nil => exact ⟨rfl, fun _ h => by cases h⟩
  | cons s rest ih =>
    have hstep := exec_cells st s hc
    simp only [run, rrun]
    cases he : exec st s with
    | error e =>
      rw [he] at hstep
      rw [← hstep]
      obtain ⟨i1, i2⟩ := ih st hc
      refine ⟨by show _ :: List.map _ _ = _ :: _; rw [i1]; rfl, ?_⟩
      intro st' hm
      simp only [List.mem_cons] at hm
      rcases hm with hm | hm
      · cases hm
      · exact i2 st' hm
    | ok st1 =>
      rw [he] at hstep
      rw [← hstep]
      have hc1 := (exec_inv st st1 s hc he).1
      obtain ⟨i1, i2⟩ := ih st1 hc1
      refine ⟨by show _ :: List.map _ _ = _ :: _; rw [i1]; rfl, ?_⟩
      intro st' hm
      simp only [List.mem_cons] at hm
      rcases hm with hm | hm
      · cases hm; exact hc1
      · exact i2 st' hm

end CHText
