import AkVerif.Lemmas.TemplatesJson
/-!
C05 end to end, second part: the loop's tree as `TElement`s, its denotation, the lexemes, and the composition
`constructT -> LL.run -> toVal -> cleanup` for the json grammar with `smart_factorization=True`.
-/
namespace Templates
open Ak LL LLT

/-! ### the loop's tree as `TElement`s -/

mutual
def toValP : Tree Sym → Val
  | .leaf n v => .elem n.name true (.str v)
  | .node n [] => .elem n.name true .none
  | .node n (c :: cs) => .elem n.name false (.list (toValP c :: toValsP cs))
def toValsP : List (Tree Sym) → List Val
  | [] => []
  | t :: ts => toValP t :: toValsP ts
end

theorem toVal_nil : ∀ t : Tree Sym, toVal [] t = .ok (toValP t)
  | .leaf n v => by simp [toVal, toValP]
  | .node n [] => by simp [toVal, toValP]
  | .node n (c :: cs) => by
    have hc := toVal_nil c
    have hcs : toVals [] cs = .ok (toValsP cs) := by
      have : ∀ l : List (Tree Sym), (∀ x ∈ l, toVal [] x = .ok (toValP x)) → toVals [] l = .ok (toValsP l) := by
        intro l
        induction l with
        | nil => intro _; simp [toVals, toValsP]
        | cons a l ih =>
          intro h
          simp [toVals, toValsP, h a (by simp), ih (fun x hx => h x (by simp [hx]))]
      exact this cs (fun x hx => toVal_nil x)
    simp [toVal, toVals, toValP, hc, hcs]
termination_by t => sizeOf t
decreasing_by
  all_goals simp_wf
  all_goals (try (have := List.sizeOf_lt_of_mem hx; omega))
  all_goals (try omega)

theorem fin_id (G : Cfg Sym) (h : ∀ s, G.isSuffix s = false) : ∀ t : Tree Sym, fin G t = t
  | .leaf n v => by simp [fin]
  | .node n cs => by
    have hl : finL G cs = cs := by
      have : ∀ l : List (Tree Sym), (∀ x ∈ l, fin G x = x) → finL G l = l := by
        intro l
        induction l with
        | nil => intro _; simp [finL]
        | cons a l ih => intro h; simp [finL, h a (by simp), ih (fun x hx => h x (by simp [hx]))]
      exact this cs (fun x hx => fin_id G h x)
    rw [fin, hl]
    congr 1
    unfold splice
    split
    · rename_i s v _ _; simp [h s]
    · rfl
termination_by t => sizeOf t
decreasing_by
  all_goals simp_wf
  all_goals (try (have := List.sizeOf_lt_of_mem hx; omega))

/-! ### the cleanuper of the json grammar and the denotation of the tree -/

def jsonG : JsonG where
  cl := jsonCl
  value := nm "VALUE"
  word := nm "WORD"
  lo := jsonLO
  mo := jsonMO
  lwf := by constructor <;> decide
  mwf := by constructor <;> decide
  item_value := rfl
  key_word := rfl
  val_value := rfl
  tpl_list := rfl
  tpl_map := rfl
  tpl_value := rfl
  tpl_word := rfl
  squash_value := by decide
  choice_value := by decide
  keep_value := by decide

mutual
def Syn.data : Syn → Data
  | .word s => .word s
  | .list xs _ => .list (Syn.datas xs)
  | .map kvs _ => .map (Syn.dataKvs kvs)
def Syn.datas : List Syn → List Data
  | [] => []
  | x :: xs => x.data :: Syn.datas xs
def Syn.dataKvs : List (List Char × Syn) → List (List Char × Data)
  | [] => []
  | (k, v) :: r => (k, v.data) :: Syn.dataKvs r
end

theorem sTAIL_name : sTAIL.name = jsonLO.tailSym := by decide
theorem sKV_name : sKV.name = jsonMO.kvPairSym := by decide
theorem sELEMS_name : sELEMS.name = jsonMO.kvTailSym := by decide

theorem toValP_utV_elem (s : Syn) : ∃ v, toValP (utV s) = .elem (nm "VALUE") false v := by
  cases s with
  | word s => exact ⟨_, by rw [utV, toValP]; rfl⟩
  | list xs fin => cases xs <;> exact ⟨_, by rw [utV, toValP]; rfl⟩
  | map kvs fin =>
    cases kvs with
    | nil => exact ⟨_, by rw [utV, toValP]; rfl⟩
    | cons kv kvs => obtain ⟨k, v⟩ := kv; exact ⟨_, by rw [utV, toValP]; rfl⟩

def itemsOf : List Syn → List Val
  | [] => []
  | x :: xs => toValP (utV x) :: itemsOf xs

theorem tailShape_ut (xs : List Syn) (fin : Bool) :
    TailShape jsonLO (toValP (utTail xs fin)) (itemsOf xs) fin := by
  induction xs with
  | nil =>
    cases fin with
    | false =>
      rw [utTail, toValP, sTAIL_name]
      exact .nil
    | true =>
      rw [utTail, toValP, toValsP, sTAIL_name]
      exact .fin (nm ",") true _ rfl rfl
  | cons x xs ih =>
    obtain ⟨v, hv⟩ := toValP_utV_elem x
    rw [utTail, toValP, toValsP, toValsP, toValsP, sTAIL_name, itemsOf, hv]
    rw [hv] at *
    exact .consSome (nm ",") true _ false v _ _ _ rfl ih

def pairsOf : List (List Char × Syn) → List (Val × Val)
  | [] => []
  | (k, v) :: r => (jsonG.wtok k, toValP (utV v)) :: pairsOf r

theorem kvShape_ut (k : List Char) (v : Syn) :
    KvShape jsonMO (toValP (.node sKV [.leaf (sy "WORD") k, lf ":", utV v])) (jsonG.wtok k) (toValP (utV v)) := by
  obtain ⟨w, hw⟩ := toValP_utV_elem v
  rw [toValP, toValsP, toValsP, toValsP, sKV_name, hw]
  exact .mk true (.str k) true _ false w

theorem kvTailShape_ut (kvs : List (List Char × Syn)) (fin : Bool) :
    KvTailShape jsonMO (toValP (utElems kvs fin)) (pairsOf kvs) fin := by
  induction kvs with
  | nil =>
    cases fin with
    | false => rw [utElems, toValP, sELEMS_name]; exact .nil
    | true => rw [utElems, toValP, toValsP, sELEMS_name]; exact .fin true _ rfl
  | cons kv kvs ih =>
    obtain ⟨k, v⟩ := kv
    rw [utElems, toValP, toValsP, toValsP, toValsP, sELEMS_name, pairsOf]
    exact .cons true _ _ _ _ _ _ _ (kvShape_ut k v) ih

/-- nesting depth of the written data -/
def sdepth : Nat → Syn → Prop := fun n s => sizeOf s < n

theorem denAll_ut (n : Nat) (xs : List Syn) (h : ∀ x ∈ xs, Den jsonG n (toValP (utV x)) x.data) :
    DenAll (Den jsonG n) (itemsOf xs) (Syn.datas xs) := by
  induction xs with
  | nil => simp [itemsOf, Syn.datas, DenAll]
  | cons x xs ih => exact ⟨h x (by simp), ih (fun y hy => h y (by simp [hy]))⟩

theorem denPairs_ut (n : Nat) (kvs : List (List Char × Syn)) (h : ∀ kv ∈ kvs, Den jsonG n (toValP (utV kv.2)) kv.2.data) :
    DenPairs jsonG (Den jsonG n) (pairsOf kvs) (Syn.dataKvs kvs) := by
  induction kvs with
  | nil => simp [pairsOf, Syn.dataKvs, DenPairs]
  | cons kv kvs ih =>
    obtain ⟨k, v⟩ := kv
    exact ⟨rfl, h (k, v) (by simp), ih (fun y hy => h y (by simp [hy]))⟩

/-- the tree of a written value denotes its data -/
theorem den_ut : ∀ s : Syn, Den jsonG (sizeOf s + 1) (toValP (utV s)) s.data
  | .word s => by
    rw [Den]
    exact Or.inl ⟨s, by rw [utV, toValP, toValsP]; rfl, by rw [Syn.data]⟩
  | .list [] fin => by
    rw [Den]
    refine Or.inr (Or.inl ⟨_, [], false, [], by rw [utV, toValP, toValsP]; rfl, ?_, by rw [Syn.data, Syn.datas], trivial⟩)
    rw [toValP, toValsP, toValsP]
    exact .emptyBr (nm "[") (nm "]") true _ true _ rfl rfl
  | .list (x :: xs) fin => by
    have hall : ∀ y ∈ x :: xs, Den jsonG (sizeOf (Syn.list (x :: xs) fin)) (toValP (utV y)) y.data := by
      intro y hy
      exact Den_mono jsonG _ _ _ _ (by
        have := List.sizeOf_lt_of_mem hy
        simp only [Syn.list.sizeOf_spec]; omega) (den_ut y)
    obtain ⟨v, hv⟩ := toValP_utV_elem x
    rw [Den]
    refine Or.inr (Or.inl ⟨_, itemsOf (x :: xs), fin, Syn.datas (x :: xs), by rw [utV, toValP, toValsP]; rfl, ?_,
      by rw [Syn.data], denAll_ut _ _ hall⟩)
    rw [toValP, toValsP, toValsP, toValsP, toValsP, itemsOf, hv]
    have ht := tailShape_ut xs fin
    exact .br (nm "[") (nm "]") true _ true _ false v _ _ _ rfl rfl ht
  | .map [] fin => by
    rw [Den]
    refine Or.inr (Or.inr ⟨_, [], false, [], by rw [utV, toValP, toValsP]; rfl, ?_, by rw [Syn.data, Syn.dataKvs], trivial⟩)
    rw [toValP, toValsP, toValsP]
    exact .emptyBr (nm "{") (nm "}") true _ true _ rfl rfl
  | .map ((k, v) :: kvs) fin => by
    have hall : ∀ kv ∈ (k, v) :: kvs, Den jsonG (sizeOf (Syn.map ((k, v) :: kvs) fin)) (toValP (utV kv.2)) kv.2.data := by
      intro kv hkv
      exact Den_mono jsonG _ _ _ _ (by
        have h1 := List.sizeOf_lt_of_mem hkv
        have h2 : sizeOf kv.2 < sizeOf kv := by cases kv; simp; omega
        simp only [Syn.map.sizeOf_spec]; omega) (den_ut kv.2)
    rw [Den]
    refine Or.inr (Or.inr ⟨_, pairsOf ((k, v) :: kvs), fin, Syn.dataKvs ((k, v) :: kvs),
      by rw [utV, toValP, toValsP]; rfl, ?_, by rw [Syn.data], denPairs_ut _ _ hall⟩)
    rw [toValP, toValsP, toValsP, toValsP, toValsP, pairsOf]
    exact .br (nm "{") (nm "}") true _ true _ _ _ _ _ _ _ rfl rfl (kvShape_ut k v) (kvTailShape_ut kvs fin)
termination_by s => sizeOf s
decreasing_by
  all_goals simp_wf
  all_goals (try (have h1 := List.sizeOf_lt_of_mem hy; simp at h1; omega))
  all_goals (try (have h1 := List.sizeOf_lt_of_mem hkv; have h2 : sizeOf kv.2 < sizeOf kv := by cases kv; simp; omega
                  simp at h1; omega))
  all_goals (try omega)

/-! ### lexemes -/

def J7 : List Sym := [sy "WORD", sy ",", sy "[", sy "]", sy "{", sy "}", sy ":"]

def AllJ7 (l : List (Tok Sym)) : Prop := ∀ t ∈ l, t.name ∈ J7

theorem allJ7_nil : AllJ7 [] := by intro t h; cases h
theorem allJ7_cons (a : Tok Sym) (l : List (Tok Sym)) : AllJ7 (a :: l) ↔ a.name ∈ J7 ∧ AllJ7 l := by
  simp [AllJ7]
theorem allJ7_append (l r : List (Tok Sym)) : AllJ7 (l ++ r) ↔ AllJ7 l ∧ AllJ7 r := by
  simp only [AllJ7, List.mem_append]
  constructor
  · intro h; exact ⟨fun t ht => h t (Or.inl ht), fun t ht => h t (Or.inr ht)⟩
  · intro h t ht; rcases ht with ht | ht; exact h.1 t ht; exact h.2 t ht
theorem tk_J7 (s : String) (h : sy s ∈ J7) : (tk s).name ∈ J7 := h

theorem toksTail_names (xs : List Syn) (fin : Bool) (h : ∀ x ∈ xs, AllJ7 (toksV x)) : AllJ7 (toksTail xs fin) := by
  induction xs with
  | nil => cases fin <;> simp [toksTail, allJ7_nil, allJ7_cons, tk, J7]
  | cons x xs ih =>
    simp only [toksTail, allJ7_cons, allJ7_append]
    exact ⟨by decide, h x (by simp), ih (fun y hy => h y (by simp [hy]))⟩

theorem toksElems_names (kvs : List (List Char × Syn)) (fin : Bool) (h : ∀ kv ∈ kvs, AllJ7 (toksV kv.2)) :
    AllJ7 (toksElems kvs fin) := by
  induction kvs with
  | nil => cases fin <;> simp [toksElems, allJ7_nil, allJ7_cons, tk, J7]
  | cons kv kvs ih =>
    obtain ⟨k, v⟩ := kv
    simp only [toksElems, allJ7_cons, allJ7_append]
    exact ⟨by decide, ⟨by decide, by decide, h (k, v) (by simp)⟩, ih (fun y hy => h y (by simp [hy]))⟩

theorem toksV_names : ∀ s : Syn, AllJ7 (toksV s)
  | .word s => by simp only [toksV, allJ7_cons]; exact ⟨by decide, allJ7_nil⟩
  | .list [] fin => by simp only [toksV, allJ7_cons]; exact ⟨by decide, by decide, allJ7_nil⟩
  | .list (x :: xs) fin => by
    simp only [toksV, allJ7_cons, allJ7_append]
    exact ⟨by decide, toksV_names x, toksTail_names xs fin (fun y hy => toksV_names y), by decide, allJ7_nil⟩
  | .map [] fin => by simp only [toksV, allJ7_cons]; exact ⟨by decide, by decide, allJ7_nil⟩
  | .map ((k, v) :: kvs) fin => by
    simp only [toksV, allJ7_cons, allJ7_append]
    exact ⟨⟨by decide, by decide, by decide, toksV_names v⟩,
      toksElems_names kvs fin (fun kv hkv => toksV_names kv.2), by decide, allJ7_nil⟩
termination_by s => sizeOf s
decreasing_by
  all_goals simp_wf
  all_goals (try (have h1 := List.sizeOf_lt_of_mem hy; first | omega | (simp at h1; omega)))
  all_goals (try (have h1 := List.sizeOf_lt_of_mem hkv; have h2 : sizeOf kv.2 < sizeOf kv := by cases kv; simp; omega
                  first | omega | (simp at h1; omega)))
  all_goals (try omega)

/-- the lexemes found by the tokenizer's regular expression for a token list: the tokens themselves (group name = token
name, no synonyms in this grammar) with any number of blank lexemes anywhere -/
inductive Lex : List (Name × List Char) → List (Tok Sym) → Prop
  | nil : Lex [] []
  | space (w : List Char) {raw ts} : Lex raw ts → Lex ((nm "SPACE", w) :: raw) ts
  | tok (t : Tok Sym) {raw ts} : Lex raw ts → Lex ((t.name.name, t.val) :: raw) (t :: ts)

theorem parseSym_J7 (n : Sym) (h : n ∈ J7) : parseSym n.name = n ∧ n ∉ [sy "SPACE"] := by
  simp only [J7, List.mem_cons, List.not_mem_nil, or_false] at h
  rcases h with rfl | rfl | rfl | rfl | rfl | rfl | rfl <;> decide

theorem tokens_lex (P : Parser) (hsyn : P.syn = []) (hkw : P.kw = []) (hskip : P.skip = [sy "SPACE"])
    {raw : List (Name × List Char)} {ts : List (Tok Sym)} (h : Lex raw ts) (hn : AllJ7 ts) :
    P.tokens raw = ts ++ [⟨endSym, []⟩] := by
  have hren : ∀ r : Name × List Char, P.rename r = ⟨parseSym r.1, r.2⟩ := by
    intro r; simp [Parser.rename, hsyn, hkw, dget]
  have key : (raw.map P.rename).filter (fun t => decide (t.name ∉ [sy "SPACE"])) = ts := by
    induction h with
    | nil => rfl
    | space w _ ih =>
      have e : parseSym (nm "SPACE") = sy "SPACE" := by decide
      have c1 : decide (¬ sy "SPACE" ∈ [sy "SPACE"]) = false := by decide
      rw [List.map_cons, hren, List.filter_cons]
      simp only [e, c1, Bool.false_eq_true, if_false]
      exact ih hn
    | tok t _ ih =>
      obtain ⟨e1, e2⟩ := parseSym_J7 t.name (hn t (by simp))
      have : (⟨parseSym t.name.name, t.val⟩ : Tok Sym) = t := by cases t; simp_all
      have c2 : decide (¬ t.name ∈ [sy "SPACE"]) = true := by simp [e2]
      rw [List.map_cons, hren]
      simp only [this]
      rw [List.filter_cons]
      simp only [c2, if_true]
      rw [ih (fun u hu => hn u (by simp [hu]))]
  unfold Parser.tokens
  rw [hskip, key]

/-! ### the whole path -/

theorem pred_root (G : Cfg Sym) (F : JFacts G) (s : Syn) : Pred G (.node (sy "E") [utV s]) endSym := by
  obtain ⟨t0, r0, ht0, ht0n⟩ := toksV_head s
  rw [Pred]
  refine ⟨F.nonterm _ (by simp), ⟨[[sy "VALUE"]], 0, ?_, by simp only [List.map, utV_name]; rfl,
    by intro i hi; omega⟩, ?_⟩
  · simp only [Tree.yieldList, yield_V, ht0, List.append_nil, look]
    exact F.tE _ ht0n
  · simp only [PredL, and_true]
    exact pred_V G F s _ (Or.inr (Or.inr (Or.inr rfl)))

theorem cleanup_root (v : Val) (r : El × Bool) (h : cleanup jsonCl v false false = .ok r) (hr : r.2 = true) :
    cleanupRoot jsonCl (.elem (nm "E") false (.list [v])) = .ok (.elem (nm "E") false (.list [r.1.toVal])) := by
  have h1 : lookup jsonCl.templates (nm "E") = none := rfl
  have h2 : decide (nm "E" ∈ jsonCl.choice) = false := by decide
  have h3 : nm "E" ∈ jsonCl.squash := by decide
  have h4 : decide (nm "E" ∈ jsonCl.keep) = true := by decide
  simp only [cleanupRoot, cleanup, h1, cleanupAll, h2, h, bind, Except.bind, pure, Except.pure, squashStep, h3, if_true, h4,
    hr, Bool.or_true, Bool.and_self, El.toVal, List.map]
  simp

/-- **End to end, `smart_factorization=True` (the default).** -/
theorem json_end_to_end_smart (T : TParser) (hT : jsonT true = .ok T) (s : Syn) (raw : List (Name × List Char))
    (hraw : Lex raw (toksV s)) :
    ∃ (k : Nat) (r : El × Bool), entry r.1 = pyval s.data ∧ ∀ fuel, k ≤ fuel →
      T.parseRaw raw fuel = .ok (.elem (nm "E") false (.list [toValP (utV s)])) ∧
      T.parseClean raw fuel = .ok (.elem (nm "E") false (.list [r.1.toVal])) := by
  obtain ⟨F, hsuf, hseq, hstart, hskip, hsyn, hkw, hcl⟩ := jsonT_true_facts T hT
  have htoks := tokens_lex T.ll hsyn hkw hskip hraw (toksV_names s)
  let R : Tree Sym := .node (sy "E") [utV s]
  have hy : R.yield = toksV s := by simp [R, Tree.yield, Tree.yieldList, yield_V]
  obtain ⟨k, hk⟩ := run_pred T.ll.cfg startSym (sy "E") endSym ⟨endSym, []⟩ rfl (F.term _ (by simp)) R
    (pred_root _ F s) rfl
  have hfin : fin T.ll.cfg R = R := fin_id _ (by intro x; simp [Parser.cfg, cfgOf, hsuf]) R
  obtain ⟨r, hr, he, hr2⟩ := den_clean_fc jsonG _ _ _ (den_ut s) false
  refine ⟨k, r, he, fun fuel hf => ?_⟩
  have hparse : T.ll.parse raw fuel = .ok R := by
    unfold Parser.parse
    rw [htoks, hstart, ← hy, hk fuel hf, hfin]
  have hrawv : T.parseRaw raw fuel = .ok (.elem (nm "E") false (.list [toValP (utV s)])) := by
    unfold TParser.parseRaw
    rw [hparse, hseq]
    simp only [toVal_nil, R]
    rw [toValP, toValsP]
    rfl
  refine ⟨hrawv, ?_⟩
  unfold TParser.parseClean
  rw [hrawv, hcl]
  exact cleanup_root _ r hr hr2

end Templates
