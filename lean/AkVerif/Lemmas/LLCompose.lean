import AkVerif.Lemmas.LLTable
import AkVerif.Lemmas.LLSound
/-!
From the generic soundness theorem of the parse loop (`LL.run_sound`) to the parser built by
`construct`: what `construct inp = .ok P` says (`Built`), the grammars read off the dictionaries
(with the technical rule `$START$ → start $END$`), the initial stack satisfies the invariant, the
bottom frame stays the `$START$` frame, and what the final answer is (`parse_sound_of_rel`).

`FactRel` is everything the argument needs to know about the factorised dictionary; it is
established for the model's `factorize` in `Lemmas/LLFact*.lean`.
-/
set_option linter.unusedSectionVars false
namespace LL
open Ak

/-! ### unfolding the constructor -/

theorem Except.bind_ok {ε α β : Type} {x : Except ε α} {f : α → Except ε β} {b : β}
    (h : (x >>= f) = .ok b) : ∃ a, x = .ok a ∧ f a = .ok b := by
  cases x with
  | error e => simp [bind, Except.bind] at h
  | ok a => exact ⟨a, rfl, h⟩

structure Built (inp : CtorIn) (P : Parser) : Prop where
  hD : (tokenNames inp).any (fun t => hasDunder t.name) = false
  hskip : skipSet inp (tokenNames inp) = .ok P.skip
  hU : createProds 0 inp.prods [] = .ok P.userProds
  hF : factorize (tokenNames inp) P.userProds inp.smart = .ok (P.prods, P.suffix)
  hterms : P.terminals = sadd (tokenNames inp) endSym
  hstart : P.start = parseSym inp.start
  hV : verifyPart1 P.terminals P.start P.prods = .ok ()
  hN : nullables P.prods = .ok P.nullables
  hFi : firstSets P.terminals P.nullables P.prods = .ok P.first
  hFo : followSets P.terminals P.nullables P.first P.prods P.start endSym = .ok P.follow
  hT : mkTable P.terminals P.nullables P.first P.follow P.prods = .ok P.table
  hR : recCheck P.prods P.terminals P.nullables (sortedKeys P.prods) = .ok ()
  hsyn : P.syn = inp.syn
  hkw : P.kw = inp.kw

theorem construct_built {inp : CtorIn} {P : Parser} (h : construct inp = .ok P) : Built inp P := by
  unfold construct at h
  dsimp only at h
  split at h
  · simp at h
  · rename_i hD
    obtain ⟨skip, hskip, h⟩ := Except.bind_ok h
    obtain ⟨U, hU, h⟩ := Except.bind_ok h
    obtain ⟨⟨G, suffix⟩, hF, h⟩ := Except.bind_ok h
    simp only at h
    obtain ⟨_, hV, h⟩ := Except.bind_ok h
    obtain ⟨nulls, hN, h⟩ := Except.bind_ok h
    obtain ⟨first, hFi, h⟩ := Except.bind_ok h
    obtain ⟨follow, hFo, h⟩ := Except.bind_ok h
    obtain ⟨table, hT, h⟩ := Except.bind_ok h
    obtain ⟨_, hR, h⟩ := Except.bind_ok h
    simp only [Except.ok.injEq] at h
    subst h
    exact { hD := by simpa using hD, hskip := hskip, hU := hU, hF := hF, hterms := rfl, hstart := rfl, hV := hV,
            hN := hN, hFi := hFi, hFo := hFo, hT := hT, hR := hR, hsyn := rfl, hkw := rfl }

def pkeys {σ : Type} (G : Prods σ) : List σ := G.map (·.1)
def psyms {σ : Type} (G : Prods σ) : List σ := (G.map fun (_, rules) => (rules.map (·.rhs)).flatten).flatten

theorem mem_psyms {σ : Type} {G : Prods σ} {x : σ} :
    x ∈ psyms G ↔ ∃ s rules, (s, rules) ∈ G ∧ ∃ r ∈ rules, x ∈ r.rhs := by
  unfold psyms
  simp only [List.mem_flatten, List.mem_map]
  constructor
  · rintro ⟨l, ⟨⟨s, rules⟩, hm, rfl⟩, hx⟩
    simp only [List.mem_flatten, List.mem_map] at hx
    obtain ⟨p, ⟨r, hr, rfl⟩, hxp⟩ := hx
    exact ⟨s, rules, hm, r, hr, hxp⟩
  · rintro ⟨s, rules, hm, r, hr, hx⟩
    refine ⟨_, ⟨(s, rules), hm, rfl⟩, ?_⟩
    simp only [List.mem_flatten, List.mem_map]
    exact ⟨r.rhs, ⟨r, hr, rfl⟩, hx⟩

/-- what `_verify_grammar_structure_part1` guarantees -/
structure Part1 (terms : List Sym) (start : Sym) (G : Prods Sym) : Prop where
  startKey : start ∈ pkeys G
  endNoKey : endSym ∉ pkeys G
  initNoKey : startSym ∉ pkeys G
  disjoint : ∀ k ∈ pkeys G, k ∉ terms
  known : ∀ s ∈ psyms G, s ∈ terms ∨ s ∈ pkeys G
  endNoSym : endSym ∉ psyms G
  initNoSym : startSym ∉ psyms G

theorem verifyPart1_ok {terms : List Sym} {start : Sym} {G : Prods Sym}
    (h : verifyPart1 terms start G = .ok ()) : Part1 terms start G := by
  unfold verifyPart1 at h
  simp only at h
  split at h; · simp at h
  rename_i h1
  split at h; · simp at h
  rename_i h2
  split at h; · simp at h
  rename_i h3
  split at h; · simp at h
  rename_i h4
  split at h; · simp at h
  rename_i h5
  split at h; · simp at h
  rename_i h6
  split at h; · simp at h
  rename_i h7
  refine { startKey := by simpa [pkeys] using h1, endNoKey := h2, initNoKey := h3, disjoint := ?_, known := ?_,
           endNoSym := h6, initNoSym := h7 }
  · intro k hk hkt
    apply h4
    simp only [List.any_eq_true, decide_eq_true_eq]
    exact ⟨k, hk, hkt⟩
  · intro s hs
    apply Classical.byContradiction
    intro hn
    apply h5
    simp only [List.any_eq_true, decide_eq_true_eq]
    refine ⟨s, hs, ?_⟩
    constructor
    · intro h'; exact hn (Or.inl h')
    · intro h'; exact hn (Or.inr h')

/-- what the composed theorems need from a successful construction; unlike `Built` it does not
mention how the start symbol was chosen, so it also holds for `parse(…, start_symbol_name=X)` -/
structure Core (P : Parser) : Prop where
  hendT : endSym ∈ P.terminals
  hV : Part1 P.terminals P.start P.prods
  hN : nullables P.prods = .ok P.nullables
  hT : mkTable P.terminals P.nullables P.first P.follow P.prods = .ok P.table
  hR : recCheck P.prods P.terminals P.nullables (sortedKeys P.prods) = .ok ()

theorem Built.core {inp : CtorIn} {P : Parser} (hB : Built inp P) : Core P :=
  { hendT := by rw [hB.hterms]; exact mem_sadd.2 (Or.inr rfl), hV := verifyPart1_ok hB.hV, hN := hB.hN,
    hT := hB.hT, hR := hB.hR }

/-- the same parser started from another key of the factorised dictionary -/
theorem Core.withStart {P : Parser} (hC : Core P) {s : Sym} (hs : s ∈ pkeys P.prods) :
    Core { P with start := s } :=
  { hendT := hC.hendT,
    hV := { startKey := hs, endNoKey := hC.hV.endNoKey, initNoKey := hC.hV.initNoKey, disjoint := hC.hV.disjoint,
            known := hC.hV.known, endNoSym := hC.hV.endNoSym, initNoSym := hC.hV.initNoSym },
    hN := hC.hN, hT := hC.hT, hR := hC.hR }

/-! ### the grammars of the statement -/

/-- grammar read off a `prods_map`, with the technical rule `$START$ → start $END$`; `$START$` may
not name an inner node -/
def extGram (G : Prods Sym) (start : Sym) : Gram Sym :=
  { prods := fun s => if s = startSym then [[start, endSym]] else gramRules G s,
    ok := fun s => s ≠ startSym }

/-- flattened expansions over a dictionary and a suffix list -/
abbrev DFlat (P : Parser) := Flat P.cfg (extGram P.prods P.start)

/-- everything the soundness argument uses about `factorize` -/
structure FactRel (P : Parser) : Prop where
  /-- suffix symbols occur only in last position -/
  inner : ∀ s rules, (s, rules) ∈ P.prods → ∀ r ∈ rules, ∀ x ∈ r.rhs.dropLast, x ∉ P.suffix
  /-- every flattened expansion of a non-suffix symbol is one of the user's productions -/
  flatIn : ∀ s, s ∉ P.suffix → s ≠ startSym → ∀ e, DFlat P s e → e ∈ gramRules P.userProds s
  /-- user symbols remain keys; suffix symbols are keys -/
  keys : ∀ s ∈ pkeys P.userProds, s ∈ pkeys P.prods
  sufKeys : ∀ s ∈ P.suffix, s ∈ pkeys P.prods
  sufNotUser : ∀ s ∈ P.suffix, s ∉ pkeys P.userProds

/-! ### the bottom frame stays the `$START$` frame -/
section Bot
variable {σ : Type} [DecidableEq σ]

def botKey (f : Frame σ) : σ × Nat × List (List σ) := (f.sym, f.start, f.alts)

def Bot (k : σ × Nat × List (List σ)) (st : List (Frame σ)) : Prop := st.getLast?.map botKey = some k

theorem bot_replace_top {k : σ × Nat × List (List σ)} {f f' : Frame σ} {rest : List (Frame σ)}
    (h : Bot k (f :: rest)) (hk : botKey f' = botKey f) : Bot k (f' :: rest) := by
  cases rest with
  | nil => simpa [Bot, hk] using h
  | cons g r => simpa [Bot, List.getLast?_cons_cons] using h

theorem bot_push {k : σ × Nat × List (List σ)} {f g : Frame σ} {rest : List (Frame σ)}
    (h : Bot k (f :: rest)) : Bot k (g :: f :: rest) := by
  simpa [Bot, List.getLast?_cons_cons] using h

theorem bot_pop {k : σ × Nat × List (List σ)} {f g : Frame σ} {rest : List (Frame σ)}
    (h : Bot k (f :: g :: rest)) : Bot k (g :: rest) := by
  simpa [Bot, List.getLast?_cons_cons] using h

theorem bot_backtrack {k : σ × Nat × List (List σ)} : ∀ (st st' : List (Frame σ)), Bot k st →
    backtrack st = .cont st' → Bot k st'
  | [], _, _, hb => by simp [backtrack] at hb
  | f :: rest, st', h, hb => by
    unfold backtrack at hb
    split at hb
    · injection hb with hb
      subst hb
      exact bot_replace_top h rfl
    · cases rest with
      | nil => simp [backtrack] at hb
      | cons g r => exact bot_backtrack (g :: r) st' (bot_pop h) hb

theorem bot_step {G : Cfg σ} {toks : List (Tok σ)} {k : σ × Nat × List (List σ)}
    (st st' : List (Frame σ)) (h : Bot k st) (hs : step G toks st = .cont st') : Bot k st' := by
  cases st with
  | nil => simp [step] at hs
  | cons top rest =>
    unfold step at hs
    cases hcur : top.alts[top.idx]? with
    | none => simp [hcur] at hs
    | some prod =>
      simp only [hcur] at hs
      split at hs
      · cases rest with
        | nil =>
          simp only [Tree.children] at hs
          split at hs <;> simp at hs
        | cons parent rest' =>
          simp only at hs
          injection hs with hs
          subst hs
          exact bot_replace_top (bot_pop h) rfl
      · split at hs
        · split at hs
          · split at hs
            · injection hs with hs
              subst hs
              exact bot_replace_top h rfl
            · exact bot_backtrack _ _ h hs
          · split at hs
            · injection hs with hs
              subst hs
              exact bot_push h
            · exact bot_backtrack _ _ h hs
        · simp at hs

/-- generic induction over `run`: an invariant of `step` holds in the state that answers -/
theorem run_inv {G : Cfg σ} {toks : List (Tok σ)} {Inv : List (Frame σ) → Prop}
    (hstep : ∀ st st', Inv st → step G toks st = .cont st' → Inv st') :
    ∀ (fuel : Nat) (st : List (Frame σ)) (r : Tree σ), Inv st → run G toks fuel st = .ok r →
      ∃ st', Inv st' ∧ step G toks st' = .done r
  | 0, _, _, _, h => by simp [run] at h
  | fuel + 1, st, r, hst, h => by
    unfold run at h
    split at h
    · rename_i st' hs
      exact run_inv hstep fuel st' r (hstep _ _ hst hs) h
    · rename_i t hs
      injection h with h
      subst h
      exact ⟨st, hst, hs⟩
    · simp at h
    · simp at h

end Bot

/-! ### user-level reading of validity -/

/-- `t` is a derivation tree of the dictionary `U`: leaves are terminals, an inner node and the
names of its children are a production of `U` (a childless node: the empty production) -/
def Derives (terms : List Sym) (U : Prods Sym) : Tree Sym → Prop
  | .leaf n _ => n ∈ terms
  | .node n cs => cs.map Tree.name ∈ gramRules U n ∧ ∀ c ∈ cs, Derives terms U c
termination_by t => sizeOf t
decreasing_by
  simp_wf
  have := List.sizeOf_lt_of_mem ‹c ∈ cs›
  omega

/-- no node of the tree is named by a symbol of `S` -/
def NoHelper (S : List Sym) : Tree Sym → Prop
  | .leaf n _ => n ∉ S
  | .node n cs => n ∉ S ∧ ∀ c ∈ cs, NoHelper S c
termination_by t => sizeOf t
decreasing_by
  simp_wf
  have := List.sizeOf_lt_of_mem ‹c ∈ cs›
  omega

theorem Derives_node (terms : List Sym) (U : Prods Sym) (n : Sym) (cs : List (Tree Sym)) :
    Derives terms U (.node n cs) ↔ cs.map Tree.name ∈ gramRules U n ∧ ∀ c ∈ cs, Derives terms U c := by
  rw [Derives]

theorem Derives_leaf (terms : List Sym) (U : Prods Sym) (n : Sym) (v : List Char) :
    Derives terms U (.leaf n v) ↔ n ∈ terms := by
  unfold Derives; rfl

theorem NoHelper_node (S : List Sym) (n : Sym) (cs : List (Tree Sym)) :
    NoHelper S (.node n cs) ↔ n ∉ S ∧ ∀ c ∈ cs, NoHelper S c := by
  rw [NoHelper]

theorem NoHelper_leaf (S : List Sym) (n : Sym) (v : List Char) : NoHelper S (.leaf n v) ↔ n ∉ S := by
  unfold NoHelper; rfl

section Compose
variable {P : Parser}

theorem derives_of_valid (hsufT : ∀ s, P.cfg.isSuffix s = true → P.cfg.isTerm s = false) :
    ∀ (t : Tree Sym), Valid P.cfg (extGram P.userProds P.start) (extGram P.prods P.start) t →
      P.cfg.isSuffix t.name = false → t.name ≠ startSym →
      Derives P.terminals P.userProds t ∧ NoHelper P.suffix t
  | .leaf n v, hv, _, _ => by
    have ht : P.cfg.isTerm n = true := (Valid_leaf ..).1 hv
    refine ⟨(Derives_leaf ..).2 (by simpa [Parser.cfg, cfgOf] using ht), (NoHelper_leaf ..).2 ?_⟩
    intro hs
    have := hsufT n (by simpa [Parser.cfg, cfgOf] using hs)
    rw [ht] at this; cases this
  | .node n cs, hv, hns, hni => by
    obtain ⟨hcs, hrule⟩ := (Valid_node ..).1 hv
    simp only [Tree.name] at hns hni
    rw [if_neg (by simp [hns])] at hrule
    simp only [extGram, hni, if_false] at hrule
    have hrec : ∀ c ∈ cs, Derives P.terminals P.userProds c ∧ NoHelper P.suffix c := by
      intro c hc
      obtain ⟨h1, h2, h3⟩ := hcs c hc
      exact derives_of_valid hsufT c h1 h2 h3
    refine ⟨(Derives_node ..).2 ⟨hrule, fun c hc => (hrec c hc).1⟩,
            (NoHelper_node ..).2 ⟨by simpa [Parser.cfg, cfgOf] using hns, fun c hc => (hrec c hc).2⟩⟩
termination_by t => sizeOf t
decreasing_by
  simp_wf
  have := List.sizeOf_lt_of_mem hc
  omega

theorem start_ne_init (h1 : Part1 P.terminals P.start P.prods) : P.start ≠ startSym := by
  intro h; exact h1.initNoKey (h ▸ h1.startKey)

theorem end_ne_init : endSym ≠ startSym := by decide

theorem factOK_of_rel (h1 : Part1 P.terminals P.start P.prods) (hR : FactRel P)
    (hsu : P.start ∈ pkeys P.userProds) :
    FactOK P.cfg (extGram P.userProds P.start) (extGram P.prods P.start) := by
  have hstart_ns : P.start ∉ P.suffix := fun h => hR.sufNotUser _ h hsu
  have hinit_ns : startSym ∉ P.suffix := fun h => h1.initNoKey (hR.sufKeys _ h)
  have hend_ns : endSym ∉ P.suffix := fun h => h1.endNoKey (hR.sufKeys _ h)
  have hrules : ∀ s p, s ≠ startSym → p ∈ (extGram P.prods P.start).prods s →
      ∃ rules, (s, rules) ∈ P.prods ∧ ∃ r ∈ rules, r.rhs = p := by
    intro s p hs hp
    simp only [extGram, hs, if_false] at hp
    exact mem_gramRules.1 hp
  refine { inner := ?_, plain := ?_, grp := ?_, suffNT := ?_, symOk := ?_ }
  · intro s p hp x hx
    by_cases hs : s = startSym
    · subst hs
      simp only [extGram, if_true, List.mem_singleton] at hp
      subst hp
      simp at hx
      subst hx
      simpa [Parser.cfg, cfgOf] using hstart_ns
    · obtain ⟨rules, hm, r, hr, hrp⟩ := hrules s p hs hp
      subst hrp
      simpa [Parser.cfg, cfgOf] using hR.inner s rules hm r hr x hx
  · intro s p hs hp hlast
    by_cases hsi : s = startSym
    · subst hsi
      simpa [extGram] using hp
    · have : gramRules P.userProds s = (extGram P.userProds P.start).prods s := by simp [extGram, hsi]
      rw [← this]
      exact hR.flatIn s (by simpa [Parser.cfg, cfgOf] using hs) hsi p (Flat.base hp hlast)
  · intro s pre s' e hs hp hs' hfl
    by_cases hsi : s = startSym
    · subst hsi
      simp only [extGram, if_true, List.mem_singleton] at hp
      have : s' = endSym := by
        have := congrArg List.getLast? hp
        simpa using this
      subst this
      exact absurd (by simpa [Parser.cfg, cfgOf] using hs') hend_ns
    · have : gramRules P.userProds s = (extGram P.userProds P.start).prods s := by simp [extGram, hsi]
      rw [← this]
      exact hR.flatIn s (by simpa [Parser.cfg, cfgOf] using hs) hsi _ (Flat.step hp hs' hfl)
  · intro s hs
    have hs' : s ∈ P.suffix := by simpa [Parser.cfg, cfgOf] using hs
    have := h1.disjoint s (hR.sufKeys s hs')
    simpa [Parser.cfg, cfgOf] using this
  · intro s p hp x hx
    by_cases hs : s = startSym
    · subst hs
      simp only [extGram, if_true, List.mem_singleton] at hp
      subst hp
      simp only [List.mem_cons, List.not_mem_nil, or_false] at hx
      rcases hx with hx | hx
      · subst hx; exact start_ne_init h1
      · subst hx; exact end_ne_init
    · obtain ⟨rules, hm, r, hr, hrp⟩ := hrules s p hs hp
      subst hrp
      intro hxi
      apply h1.initNoSym
      rw [← hxi]
      exact mem_psyms.2 ⟨s, rules, hm, r, hr, hx⟩

theorem tableWF_of_built (h1 : Part1 P.terminals P.start P.prods)
    (hT : mkTable P.terminals P.nullables P.first P.follow P.prods = .ok P.table) :
    TableWF P.cfg (extGram P.prods P.start) := by
  constructor
  intro X t alts hlook
  simp only [Parser.cfg, cfgOf, Option.map_eq_some_iff] at hlook
  obtain ⟨l, hl, hmap⟩ := hlook
  obtain ⟨hne, hall⟩ := mkTable_inv hT _ _ (dget_mem hl)
  subst hmap
  refine ⟨by simpa using hne, ?_⟩
  intro p hp
  simp only [List.mem_map] at hp
  obtain ⟨r, hr, hrp⟩ := hp
  obtain ⟨rules, hm, hrr⟩ := hall r hr
  have hX : X ≠ startSym := by
    intro h
    apply h1.initNoKey
    rw [← h]
    exact List.mem_map.2 ⟨(X, rules), hm, rfl⟩
  simp only [extGram, hX, if_false]
  exact mem_gramRules.2 ⟨rules, hm, r, hrr, hrp⟩

theorem take_eq_snoc_end {body a : List (Tok Sym)} {x y : Tok Sym} {n : Nat}
    (hbody : ∀ z ∈ body, z.name ≠ endSym) (hy : y.name = endSym)
    (h : (body ++ [x]).take n = a ++ [y]) : a = body := by
  have hlen : a.length + 1 ≤ body.length + 1 := by
    have := congrArg List.length h
    simp only [List.length_take, List.length_append, List.length_cons, List.length_nil] at this
    omega
  have hn : a.length + 1 ≤ n := by
    have := congrArg List.length h
    simp only [List.length_take, List.length_append, List.length_cons, List.length_nil] at this
    omega
  -- the element at position `a.length`
  have hget : (body ++ [x])[a.length]? = some y := by
    have h1 : ((body ++ [x]).take n)[a.length]? = some y := by rw [h]; simp
    rw [List.getElem?_take] at h1
    have : a.length < n := by omega
    simpa [this] using h1
  by_cases hlt : a.length < body.length
  · rw [List.getElem?_append_left hlt] at hget
    have := List.mem_of_getElem? hget
    exact absurd hy (hbody y this)
  · have heq : a.length = body.length := by omega
    have h2 : ((body ++ [x]).take n).take a.length = a := by rw [h]; simp
    rw [List.take_take, Nat.min_eq_left (by omega), heq] at h2
    simpa using h2.symm

/-- C01, composed for the constructed parser, given what factorisation guarantees (`FactRel`) -/
theorem parse_sound_of_rel (hB : Core P) (hR : FactRel P)
    (hsu : P.start ∈ pkeys P.userProds) (raw : List (List Char × List Char))
    (hEnd : ∀ tok ∈ (P.tokens raw).dropLast, tok.name ≠ endSym)
    (fuel : Nat) (t : Tree Sym) (h : P.parse raw fuel = .ok t) :
    t.name = P.start ∧ Derives P.terminals P.userProds t ∧ NoHelper P.suffix t ∧
      t.yield = (P.tokens raw).dropLast := by
  have h1 := hB.hV
  have hendT : endSym ∈ P.terminals := hB.hendT
  have hFO := factOK_of_rel h1 hR hsu
  have hTW := tableWF_of_built h1 hB.hT
  let U := extGram P.userProds P.start
  let Pg := extGram P.prods P.start
  let toks := P.tokens raw
  let key : Sym × Nat × List (List Sym) := (startSym, 0, [[P.start, endSym]])
  let Inv : List (Frame Sym) → Prop := fun st => StackOK P.cfg U Pg toks st ∧ Bot key st
  have hinit : Inv (initStack startSym P.start endSym) := by
    refine ⟨⟨[P.start, endSym], ?_⟩, rfl⟩
    exact { cur := by simp, alts := by simp [Pg, extGram], names := by simp,
            len := by simp, valid := by simp, yld := by simp [seg_self],
            le := Nat.le_refl _ }
  have hstep : ∀ st st', Inv st → step P.cfg toks st = .cont st' → Inv st' :=
    fun st st' hi hs => ⟨step_cont hFO hTW st st' hi.1 hs, bot_step st st' hi.2 hs⟩
  obtain ⟨st', ⟨hso, hbot⟩, hdone⟩ := run_inv hstep fuel _ t hinit h
  obtain ⟨b, cs, hst, hv, hy, hhead⟩ := step_done hFO st' t hso hdone
  subst hst
  have hb : botKey b = key := by simpa [Bot] using hbot
  have hbsym : b.sym = startSym := congrArg (·.1) hb
  have hbstart : b.start = 0 := congrArg (·.2.1) hb
  have hinit_ns : P.cfg.isSuffix startSym = false := by
    have : startSym ∉ P.suffix := fun h => h1.initNoKey (hR.sufKeys _ h)
    simpa [Parser.cfg, cfgOf] using this
  rw [hbsym] at hv
  obtain ⟨hcs, hrule⟩ := (Valid_node ..).1 hv
  rw [if_neg (by simp [hinit_ns])] at hrule
  have hnames : cs.map Tree.name = [P.start, endSym] := by simpa [U, extGram] using hrule
  obtain ⟨r, e, hcse⟩ : ∃ r e, cs = [r, e] := by
    match cs, hnames with
    | [r, e], _ => exact ⟨r, e, rfl⟩
    | [], h => simp at h
    | [_], h => simp at h
    | _ :: _ :: _ :: _, h => simp at h
  subst hcse
  · simp only [List.map_cons, List.map_nil, List.cons.injEq, and_true] at hnames
    obtain ⟨hrn, hen⟩ := hnames
    simp only [List.head?_cons, Option.some.injEq] at hhead
    subst hhead
    obtain ⟨hvr, hrs, _⟩ := hcs r (by simp)
    obtain ⟨hve, _, _⟩ := hcs e (by simp)
    have hsufT := hFO.suffNT
    have hne : r.name ≠ startSym := hrn ▸ start_ne_init h1
    obtain ⟨hder, hnh⟩ := derives_of_valid hsufT r hvr hrs hne
    refine ⟨hrn, hder, hnh, ?_⟩
    -- the second child is the `$END$` leaf
    cases e with
    | node n cs' =>
      exfalso
      simp only [Tree.name] at hen
      subst hen
      obtain ⟨_, hrule'⟩ := (Valid_node ..).1 hve
      have hens : P.cfg.isSuffix endSym = false := by
        have : endSym ∉ P.suffix := fun h => h1.endNoKey (hR.sufKeys _ h)
        simpa [Parser.cfg, cfgOf] using this
      rw [if_neg (by simp [hens])] at hrule'
      simp only [extGram, end_ne_init, if_false] at hrule'
      obtain ⟨rules, hm, _⟩ := mem_gramRules.1 hrule'
      exact h1.endNoKey (hR.keys _ (List.mem_map.2 ⟨(endSym, rules), hm, rfl⟩))
    | leaf n v =>
      simp only [Tree.name] at hen
      subst hen
      have hy' : r.yield ++ [⟨endSym, v⟩] = toks.take b.cur := by
        have : yieldL [r, Tree.leaf endSym v] = r.yield ++ [⟨endSym, v⟩] := by
          simp [yieldL, Tree.yield]
        rw [← this, hy, hbstart]
        simp [seg]
      have htoks : toks = (P.tokens raw).dropLast ++ [⟨endSym, []⟩] := by
        simp [toks, Parser.tokens]
      rw [htoks] at hy'
      exact take_eq_snoc_end hEnd rfl hy'.symm

end Compose
end LL
