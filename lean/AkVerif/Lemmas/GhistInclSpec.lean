import AkVerif.Lemmas.GhistRepos
import AkVerif.Lemmas.GhistElig
import AkVerif.Lemmas.GhistReport
import AkVerif.Lemmas.GhistPar
import AkVerif.Lemmas.GhistIncl
import AkVerif.Lemmas.GhistBnAll
import AkVerif.Lemmas.GhistWindow
import AkVerif.Lemmas.GhistAnalyse
/-!
C07, the parent side of `included_at`: the proofs behind the theorems of `Props/C07.lean` about the bumps recorded in
the builds of a parent repository and the component builds they register (statements and hypotheses are explained
there).
-/
namespace Ghist.Incl
open Ghist Ak

section
variable (comps : List (Nat × Graph Bumps)) (h : Hist Pins) (hT : h.Topo) (hW : h.InWindow) (hcw : CompWindow comps h) (g : Graph Bumps)
variable (hgw : rgraph h (mkPlug comps) = .ok g)
include hT hW hcw hgw

/-- the bumps stored in a build are the ones `_mk_bumps_info` computes from the pins of the build's commit and the
bumps of its parent builds: for each component, `from_rbuilds` are the component builds the parent builds contain
(their `to_rbuild`, or their own `from_rbuilds` when they pin an unknown version), `to_buildnum` is the pinned version
and `to_rbuild` its entry in the component's `bn_map` — or, for a version unknown there, the newest build in
`from_rbuilds` -/
theorem bumps_recorded :
    ∀ b ∈ g.builds, ∃ rc cm pbs, g.rcs[b.iid]? = some rc ∧ h.commits[rc.commit]? = some cm ∧
      Resolved g.builds b.parents pbs ∧
      ∀ comp bump, (comp, bump) ∈ b.bumps → ∃ gC v, (comp, gC) ∈ relevantComps comps ∧
        cm.pins.lookup comp = some v ∧ bump.toBn = ⟨v.1, v.2.1, v.2.2, v.2.2⟩ ∧
        (∀ x, x ∈ bump.fromRbs ↔ ∃ pb ∈ pbs, ∃ b0, pb.bumps.lookup comp = some b0 ∧
          (b0.toRb = some x ∨ (b0.toRb = none ∧ x ∈ b0.fromRbs))) ∧
        ((∃ e, gC.bnMapAll.lookup bump.toBn = some e ∧ bump.toRb = some e.2) ∨
         (gC.bnMapAll.lookup bump.toBn = none ∧
           ((bump.fromRbs = [] ∧ bump.toRb = none) ∨ ∃ m, maxOf bump.fromRbs = some m ∧ bump.toRb = some m))) := by
  have hg := rgraph_nw hT hW hgw
  intro b hb
  obtain ⟨rc, cm, pbs, h1, h2, h3, rel, hrel, h4⟩ := (rgraph_bumpsOk hT (compWindow_full hcw) hg).1 b hb
  refine ⟨rc, cm, pbs, h1, h2, h3, ?_⟩
  intro comp bump hm
  rw [mkPlug_mkBumps_full hrel] at h4
  obtain ⟨gC, v, h5, h6, h7⟩ := mkBumps_mem h4 comp bump hm
  obtain ⟨h8, h9, h10⟩ := mkBump_spec h7
  refine ⟨gC, v, (mem_sortBy _ _ _).mp h5, h6, h9, ?_, h10⟩
  intro x
  rw [h8, mem_fromSet]
  simp only [List.mem_map]
  constructor
  · rintro ⟨_, ⟨pb, hpb, rfl⟩, b0, hb0⟩; exact ⟨pb, hpb, b0, hb0⟩
  · rintro ⟨pb, hpb, b0, hb0⟩; exact ⟨_, ⟨pb, hpb, rfl⟩, b0, hb0⟩

/-- the version pinned by a parent build is one of the previous versions (`from_rbuilds`) of the build -/
theorem parent_version_in_from (b1 b2 : RB Bumps) (hb1 : b1 ∈ g.builds) (hb2 : b2 ∈ g.builds)
    (hpar : b1.iid ∈ b2.parents) (comp : Nat) (bump1 bump2 : Bump) (t1 : Nat)
    (h1 : b1.bumps.lookup comp = some bump1) (ht1 : bump1.toRb = some t1)
    (h2 : b2.bumps.lookup comp = some bump2) : t1 ∈ bump2.fromRbs := by
  have hg := rgraph_nw hT hW hgw
  obtain ⟨rc, cm, pbs, _, _, hres, hall⟩ := bumps_recorded comps h hT hW hcw g hgw b2 hb2
  obtain ⟨gC', v, _, _, _, hfrom, _⟩ := hall comp bump2 (lookup_some_mem h2)
  rw [hfrom]
  -- `b1` is among the resolved parent builds: ids of builds are unique
  have hinc := (rgraph_facts hT hg).bldInc
  have hb1res : b1 ∈ pbs := by
    clear hall hfrom
    generalize b2.parents = is at hres hpar
    induction hres with
    | nil => cases hpar
    | @cons i pb is' pbs' hm hi _ ih =>
      rcases List.mem_cons.mp hpar with h5 | h5
      · have : pb = b1 := by
          have e1 := build?_of_mem (rp := { (Repo.empty : Repo Bumps) with builds := g.builds }) hinc hm
          have e2 := build?_of_mem (rp := { (Repo.empty : Repo Bumps) with builds := g.builds }) hinc hb1
          rw [hi, ← h5] at e1
          rw [e1] at e2
          exact Option.some.inj e2
        rw [this]; simp
      · exact List.mem_cons_of_mem _ (ih h5)
  exact ⟨b1, hb1res, bump1, h1, Or.inl ht1⟩

/-- `b1` lies below `b2` along parent builds -/
inductive BuildChain (builds : List (RB Bumps)) : RB Bumps → RB Bumps → Prop
  | one {b1 b2 : RB Bumps} : b1 ∈ builds → b2 ∈ builds → b1.iid ∈ b2.parents → BuildChain builds b1 b2
  | step {b1 bm b2 : RB Bumps} : BuildChain builds b1 bm → b2 ∈ builds → bm.iid ∈ b2.parents →
      BuildChain builds b1 b2

/-- **partial** (C07.included_only_first) — "and at no other parent build": a component build contained in the
version pinned by a build `b1` is not registered again by any build `b2` above `b1` along parent builds.
Hypotheses (the property's quantifier, stated on the recorded bumps): every build of the parent pins a version of the
component known to its `bn_map` (`hpin`), and the pinned version never decreases along a path, read as containment —
the new version contains every previous version (`hmono`).
Missing: (1), (2) of `included_first_partial`, to identify "above along parent builds" with "later build of the branch
in git ancestry". -/
theorem included_only_first_partial (comp : Nat) (gC : Graph Bumps)
    (hpin : ∀ b ∈ g.builds, ∃ bump t, b.bumps.lookup comp = some bump ∧ bump.toRb = some t)
    (hmono : ∀ b ∈ g.builds, ∀ bump t, b.bumps.lookup comp = some bump → bump.toRb = some t →
      ∀ f ∈ bump.fromRbs, RbAnc gC f t)
    (b1 b2 : RB Bumps) (hch : BuildChain g.builds b1 b2) (bump1 : Bump) (t1 : Nat)
    (h1 : b1.bumps.lookup comp = some bump1) (ht1 : bump1.toRb = some t1)
    (repo : Nat) (name : List Char) (l : List Reg)
    (hl : regsOfBuild repo name comp gC b2 = .ok l) (x : Nat) (hx : RbAnc gC x t1) :
    (⟨comp, x, repo, name, b2.bn⟩ : Reg) ∉ l := by
  have hg := rgraph_nw hT hW hgw
  -- along the chain `x` stays contained in a previous version of every build, hence in its version
  have key : ∀ {b2 : RB Bumps}, BuildChain g.builds b1 b2 →
      ∃ bump2 t2, b2.bumps.lookup comp = some bump2 ∧ bump2.toRb = some t2 ∧
        (∃ f ∈ bump2.fromRbs, RbAnc gC x f) ∧ RbAnc gC x t2 := by
    intro b2 hc
    induction hc with
    | one hb1 hb2 hpar =>
      obtain ⟨bump2, t2, h2, ht2⟩ := hpin _ hb2
      have hin := parent_version_in_from comps h hT hW hcw g hgw _ _ hb1 hb2 hpar comp bump1 bump2 t1 h1 ht1 h2
      exact ⟨bump2, t2, h2, ht2, ⟨t1, hin, hx⟩, RbAnc.trans hx (hmono _ hb2 bump2 t2 h2 ht2 t1 hin)⟩
    | step hc' hb2 hpar ih =>
      rename_i bm b2'
      obtain ⟨bumpm, tm, hm1, hm2, _, hxm⟩ := ih
      have hbm : bm ∈ g.builds := by
        cases hc' with
        | one _ h _ => exact h
        | step _ h _ => exact h
      obtain ⟨bump2, t2, h2, ht2⟩ := hpin _ hb2
      have hin := parent_version_in_from comps h hT hW hcw g hgw _ _ hbm hb2 hpar comp bumpm bump2 tm hm1 hm2 h2
      exact ⟨bump2, t2, h2, ht2, ⟨tm, hin, hxm⟩, RbAnc.trans hxm (hmono _ hb2 bump2 t2 h2 ht2 tm hin)⟩
  obtain ⟨bump2, t2, h2, _, ⟨f, hf, hxf⟩, _⟩ := key hch
  intro hin
  obtain ⟨_, bump, t, h3, _, _, h4⟩ := (regsOfBuild_mem hl x).mp hin
  rw [h2] at h3; cases h3
  exact h4 f hf hxf

/-- the parent builds recorded in a build are the nearest builds of the same branch below it in git ancestry
(this is (1) of `included_first_partial`, proved for every history) -/
theorem parent_builds_nearest : ∀ rb ∈ g.all, BrPar h g.rcs rb := rgraph_par hT (rgraph_nw hT hW hgw)

/-- **partial** (C07.included_first / included_only_first, spec level on the parent side) — for a reported build
`bd` of a parent branch, at commit `e`, whose pinned version of the component is `t`: a component build `x` is
registered at `bd` exactly when `t` contains `x` and no *reported* build of the branch that is a proper git ancestor
of `e` pins a version that contains `x` — `bd` is the first reported build of the branch that ships `x`.
Hypotheses (the quantifier): every reported build of the branch pins a version of the component that is known to its
`bn_map` (`hpin`), and along git ancestry the pinned version never decreases, read as containment (`hmono`).
Missing for the full statement: eligible commits that are *not* reported (they have trivial bumps, see
`bump_build_reported_partial`, so their version is the one of the nearest reported build below — not yet carried to
this theorem), and the meaning of `RbAnc` / `bn_map` in terms of the component's git history. -/
theorem included_first_reported_partial (rb : RBranch Bumps) (hrb : rb ∈ g.all) (comp : Nat) (gC : Graph Bumps)
    (hpin : ∀ bx ∈ rb.rbuilds, ∀ ex, BuildAt g.rcs bx ex →
      ∃ bump, bx.bumps.lookup comp = some bump ∧ ((∃ t, bump.toRb = some t) ∨ (bump.toRb = none ∧ bump.fromRbs = [])))
    (hmono : ∀ bp ∈ rb.rbuilds, ∀ bq ∈ rb.rbuilds, ∀ ep eq, BuildAt g.rcs bp ep → BuildAt g.rcs bq eq →
      Anc h ep eq → ∀ bumpp tp, bp.bumps.lookup comp = some bumpp → bumpp.toRb = some tp →
        ∃ bumpq tq, bq.bumps.lookup comp = some bumpq ∧ bumpq.toRb = some tq ∧ RbAnc gC tp tq)
    (bd : RB Bumps) (hbd : bd ∈ rb.rbuilds) (e : Nat) (hbe : BuildAt g.rcs bd e) (hbn : bd.bn ≠ fakeNM)
    (bump : Bump) (t : Nat) (hb1 : bd.bumps.lookup comp = some bump) (hb2 : bump.toRb = some t)
    (repo : Nat) (l : List Reg) (hl : regsOfBuild repo rb.name comp gC bd = .ok l) (x : Nat) :
    (⟨comp, x, repo, rb.name, bd.bn⟩ : Reg) ∈ l ↔
      RbAnc gC x t ∧ ∀ bp ∈ rb.rbuilds, ∀ ep, BuildAt g.rcs bp ep → ep ≠ e → Anc h ep e →
        ∀ bumpp tp, bp.bumps.lookup comp = some bumpp → bumpp.toRb = some tp → ¬ RbAnc gC x tp := by
  have hg := rgraph_nw hT hW hgw
  have hpar := parent_builds_nearest comps h hT hW hcw g hgw rb hrb bd hbd e hbe
  have hinb : ∀ bx ∈ rb.rbuilds, ∀ ex, BuildAt g.rcs bx ex → bx ∈ g.builds := by
    intro bx hbx ex hex
    exact (rgraph_bumpsOk hT (RelInv.trivial _ _) hg).2 rb hrb bx hbx (by rw [hex.1]; rfl)
  have hbdg := hinb bd hbd e hbe
  rw [regsOfBuild_mem hl x]
  constructor
  · rintro ⟨_, bump', t', h1, h2, h3, h4⟩
    rw [hb1] at h1; cases h1
    rw [hb2] at h2; cases h2
    refine ⟨h3, ?_⟩
    intro bp hbp ep hbep hne hanc bumpp tp hp1 hp2 hcontra
    -- a nearest build `bm` of the branch above `bp` and below `e`
    have key : ∀ (k : Nat) (bq : RB Bumps) (eq : Nat), bq ∈ rb.rbuilds → BuildAt g.rcs bq eq → eq ≠ e → Anc h eq e →
        e - eq ≤ k → ∃ bm ∈ rb.rbuilds, ∃ em, BuildAt g.rcs bm em ∧ em ≠ e ∧ Anc h em e ∧ Anc h eq em ∧
          ∀ br ∈ rb.rbuilds, ∀ er, BuildAt g.rcs br er → er ≠ em → er ≠ e → Anc h er e → ¬ Anc h em er := by
      intro k
      induction k with
      | zero =>
        intro bq eq _ _ hqe hqa hk
        have := hqa.le hT
        exact absurd (by omega) hqe
      | succ k ih =>
        intro bq eq hbq hbeq hqe hqa hk
        classical
        by_cases hmax : ∀ br ∈ rb.rbuilds, ∀ er, BuildAt g.rcs br er → er ≠ eq → er ≠ e → Anc h er e → ¬ Anc h eq er
        · exact ⟨bq, hbq, eq, hbeq, hqe, hqa, .refl _, hmax⟩
        · have : ∃ br ∈ rb.rbuilds, ∃ er, BuildAt g.rcs br er ∧ er ≠ eq ∧ er ≠ e ∧ Anc h er e ∧ Anc h eq er := by
            apply Classical.byContradiction
            intro hno
            apply hmax
            intro br hbr er hber h5 h6 h7 h8
            exact hno ⟨br, hbr, er, hber, h5, h6, h7, h8⟩
          obtain ⟨br, hbr, er, hber, h5, h6, h7, h8⟩ := this
          have hlt : eq < er := by
            have := h8.le hT
            rcases Nat.lt_or_ge eq er with h9 | h9
            · exact h9
            · exact absurd (by omega) h5
          have hle := h7.le hT
          obtain ⟨bm, hbm, em, h10, h11, h12, h13, h14⟩ := ih br er hbr hber h6 h7 (by omega)
          exact ⟨bm, hbm, em, h10, h11, h12, h8.trans h13, h14⟩
    obtain ⟨bm, hbm, em, hbem, hme, hma, hpm, hmmax⟩ := key (e - ep) bp ep hbp hbep hne hanc (Nat.le_refl _)
    have hmpar : bm.iid ∈ bd.parents := (hpar.2 bm.iid).mpr ⟨bm, hbm, rfl, em, hbem, hme, hma, hmmax⟩
    obtain ⟨bumpm, tm, hm1, hm2, hcont⟩ := hmono bp hbp bm hbm ep em hbep hbem hpm bumpp tp hp1 hp2
    have hin := parent_version_in_from comps h hT hW hcw g hgw bm bd (hinb bm hbm em hbem) hbdg hmpar comp bumpm bump tm
      hm1 hm2 hb1
    exact h4 tm hin (RbAnc.trans hcontra hcont)
  · rintro ⟨h3, h4⟩
    refine ⟨hbn, bump, t, hb1, hb2, h3, ?_⟩
    intro f hf hxf
    -- `f` is the version of a parent build, which is a reported build of the branch below `e`
    obtain ⟨rc, cm, pbs, _, _, hres, hall⟩ := bumps_recorded comps h hT hW hcw g hgw bd hbdg
    obtain ⟨gC', v, _, _, _, hfrom, _⟩ := hall comp bump (lookup_some_mem hb1)
    obtain ⟨pb, hpb, b0, hb0, hcase⟩ := (hfrom f).mp hf
    -- `pb` is one of the resolved parent builds
    have hpbpar : pb.iid ∈ bd.parents ∧ pb ∈ g.builds := by
      clear hall hfrom
      generalize bd.parents = is at hres
      induction hres with
      | nil => cases hpb
      | @cons i pb' is' pbs' hm hi _ ih =>
        rcases List.mem_cons.mp hpb with h5 | h5
        · subst h5; exact ⟨by simp [hi], hm⟩
        · obtain ⟨h6, h7⟩ := ih h5
          exact ⟨List.mem_cons_of_mem _ h6, h7⟩
    obtain ⟨bp, hbp, hbpi, ep, hbep, hne, hanc, _⟩ := (hpar.2 pb.iid).mp hpbpar.1
    have hinc := (rgraph_facts hT hg).bldInc
    have hbpg := hinb bp hbp ep hbep
    have hpbeq : pb = bp := by
      have e1 := build?_of_mem (rp := { (Repo.empty : Repo Bumps) with builds := g.builds }) hinc hpbpar.2
      have e2 := build?_of_mem (rp := { (Repo.empty : Repo Bumps) with builds := g.builds }) hinc hbpg
      rw [hbpi] at e2
      rw [e1] at e2
      exact Option.some.inj e2
    subst hpbeq
    obtain ⟨bumpp, hp1, hp2⟩ := hpin pb hbp ep hbep
    rw [hb0] at hp1; cases hp1
    rcases hcase with h5 | ⟨h5, h6⟩
    · exact h4 pb hbp ep hbep hne hanc b0 f hb0 h5 hxf
    · rcases hp2 with ⟨t0, ht0⟩ | ⟨_, hnil⟩
      · rw [ht0] at h5; cases h5
      · rw [hnil] at h6; cases h6

/-- **partial** (C07.bump_build_reported) — every eligible commit of a branch (tagged or head, reachable from the
head, not part of a lower-sorted branch) is a build of the branch in the report, unless it does not match and all the
bumps computed for it — from its pins and the bumps of the at most one parent build found — are trivial (the pinned
version's latest reported build is the one the parent build already contains): a parent build whose pin moves
across report-related component builds is reported even without a matching commit of its own.
Missing: (1) of `included_first_partial` — that the parent build found is the nearest reported build below. -/
theorem bump_build_reported_partial (j : Nat) (b : Branch) (rb : RBranch Bumps)
    (hb : (branchesOf h)[j]? = some b) (hrb : g.all[j]? = some rb) (e : Nat)
    (he : SpecBuild h ((branchesOf h).take j) b e) :
    (∃ bd ∈ rb.rbuilds, bd.rcommit = some bd.iid ∧ ∃ rc, g.rcs[bd.iid]? = some rc ∧ rc.commit = e) ∨
    (h.isMatch e = false ∧
      (relevantComps comps = [] ∨
       ∃ (cm : Commit Pins) (pbs : List (RB Bumps)) (bumps : Bumps), h.commits[e]? = some cm ∧ pbs.length ≤ 1 ∧
         (∀ pb ∈ pbs, pb ∈ g.builds) ∧
         mkBumps (sortBy (fun a b => a.1 < b.1) (relevantComps comps)) cm.pins (pbs.map (·.bumps)) = .ok bumps ∧
         ∀ cb ∈ bumps, cb.2.trivial = true)) := by
  have hg := rgraph_nw hT hW hgw
  rcases rgraph_elig hT (compWindow_full hcw) hg j b rb hb hrb e he with h1 | ⟨h1, h2⟩
  · exact Or.inl h1
  · right
    refine ⟨h1, ?_⟩
    rcases h2 with h2 | ⟨cm, pbs, bumps, rel, hrel, h3, h4, h5, h6, h7⟩
    · left
      exact mkPlug_relInit_nil h2
    · right
      rw [mkPlug_mkBumps_full hrel] at h6
      refine ⟨cm, pbs, bumps, h3, h4, h5, h6, ?_⟩
      intro cb hcb
      simp only [mkPlug] at h7
      cases hct : cb.2.trivial with
      | true => rfl
      | false =>
        have : (bumps.any fun cb => !cb.2.trivial) = true :=
          List.any_eq_true.mpr ⟨cb, hcb, by simp [hct]⟩
        rw [this] at h7; cases h7

end

/-! ## included_at at specification level on the parent side

`pinRb h comp gC e` is the reported build of the component that the version pinned in commit `e` names (through the
component's `bn_map`), `none` when the version names nothing there — it contains no reported build of the component,
or is not a version of the component at all; `RbAnc gC x t` — the version `t` contains the component build `x`.  For
the `j`-th branch `b` of the parent (`rb` its result), under the property's quantifier for that branch:
* `hne`   — the component has reported builds (a non-empty `bn_map`);
* `hpinv` — every eligible commit of the branch (tagged or head, new in the branch) pins some version of the component;
* `hmono` — along git ancestry the pinned version never decreases, read as containment: what an earlier eligible commit
            ships, a later one ships too. -/

section
variable (comps : List (Nat × Graph Bumps)) (h : Hist Pins) (hT : h.Topo) (hW : h.InWindow) (hcw : CompWindow comps h) (g : Graph Bumps)
variable (hgw : rgraph h (mkPlug comps) = .ok g)
variable (j : Nat) (b : Branch) (rb : RBranch Bumps)
variable (hb : (branchesOf h)[j]? = some b) (hrb : g.all[j]? = some rb)
variable (comp : Nat) (gC : Graph Bumps) (hcomp : ∀ g', (comp, g') ∈ comps → g' = gC) (hin : (comp, gC) ∈ comps)
variable (hne : gC.bnMapAll ≠ [])
variable (hpinv : ∀ e', SpecBuild h ((branchesOf h).take j) b e' →
  ∃ cm v, h.commits[e']? = some cm ∧ cm.pins.lookup comp = some v)
variable (hmono : ∀ e1 e2, SpecBuild h ((branchesOf h).take j) b e1 → SpecBuild h ((branchesOf h).take j) b e2 →
  Anc h e1 e2 → ∀ t1, pinRb h comp gC e1 = some t1 → ∃ t2, pinRb h comp gC e2 = some t2 ∧ RbAnc gC t1 t2)

omit hcw in
include hT hW hgw hrb in
/-- the resolved parent builds of a reported build are reported builds of the branch properly below it -/
theorem resolved_parent (bd : RB Bumps) (hbd : bd ∈ rb.rbuilds) (e : Nat) (hbe : BuildAt g.rcs bd e)
    (pbs : List (RB Bumps)) (hres : Resolved g.builds bd.parents pbs) (pb : RB Bumps) (hpb : pb ∈ pbs) :
    pb ∈ rb.rbuilds ∧ ∃ ep, BuildAt g.rcs pb ep ∧ ep ≠ e ∧ Anc h ep e := by
  have hg := rgraph_nw hT hW hgw
  have hrbm : rb ∈ g.all := List.mem_of_getElem? hrb
  have hpar := rgraph_par hT hg rb hrbm bd hbd e hbe
  have hpbpar : pb.iid ∈ bd.parents ∧ pb ∈ g.builds := by
    generalize bd.parents = is at hres
    induction hres with
    | nil => cases hpb
    | @cons i pb' is' pbs' hm hi _ ih =>
      rcases List.mem_cons.mp hpb with h5 | h5
      · subst h5; exact ⟨by simp [hi], hm⟩
      · obtain ⟨h6, h7⟩ := ih h5
        exact ⟨List.mem_cons_of_mem _ h6, h7⟩
  obtain ⟨bp, hbp, hbpi, ep, hbep, hne', hanc, _⟩ := (hpar.2 pb.iid).mp hpbpar.1
  have hinc := (rgraph_facts hT hg).bldInc
  have hbpg : bp ∈ g.builds :=
    (rgraph_bumpsOk hT (RelInv.trivial _ _) hg).2 rb hrbm bp hbp (by rw [hbep.1]; rfl)
  have hpbeq : pb = bp := by
    have e1 := build?_of_mem (rp := { (Repo.empty : Repo Bumps) with builds := g.builds }) hinc hpbpar.2
    have e2 := build?_of_mem (rp := { (Repo.empty : Repo Bumps) with builds := g.builds }) hinc hbpg
    rw [hbpi] at e2
    rw [e1] at e2
    exact Option.some.inj e2
  subst hpbeq
  exact ⟨hbp, ep, hbep, hne', hanc⟩

include hT hW hcw hgw hb hrb hcomp hin hne hpinv hmono

/-- the bump of the component recorded in a reported build names the build that the version pinned in the build's
commit names; when the version names nothing, nothing was shipped before either -/
theorem reported_bump : ∀ (ex : Nat) (bx : RB Bumps), bx ∈ rb.rbuilds → BuildAt g.rcs bx ex →
    SpecBuild h ((branchesOf h).take j) b ex ∧
    ∃ bump, bx.bumps.lookup comp = some bump ∧ bump.toRb = pinRb h comp gC ex ∧
      (pinRb h comp gC ex = none → bump.fromRbs = []) := by
  have hg := rgraph_nw hT hW hgw
  have hsem := ((rgraph_sem hT hg).2 j b rb hb hrb).1
  have hrbm : rb ∈ g.all := List.mem_of_getElem? hrb
  intro ex
  induction ex using Nat.strongRecOn with
  | _ ex ih =>
    intro bx hbx hex
    obtain ⟨_, rc0, hrc0, hspec, _⟩ := hsem.buildSpec bx hbx (by rw [hex.1]; rfl)
    have hex' := hex
    obtain ⟨hrcm, rc1, hrc1, hce⟩ := hex'
    rw [hrc0] at hrc1; cases hrc1
    rw [hce] at hspec
    refine ⟨hspec, ?_⟩
    have hbg : bx ∈ g.builds :=
      (rgraph_bumpsOk hT (RelInv.trivial _ _) hg).2 rb hrbm bx hbx (by rw [hrcm]; rfl)
    obtain ⟨rc, cm, pbs, h1, h2, hres, rel, hrel, h4⟩ := (rgraph_bumpsOk hT (compWindow_full hcw) hg).1 bx hbg
    rw [mkPlug_mkBumps_full hrel] at h4
    rw [hrc0] at h1; cases h1
    rw [hce] at h2
    obtain ⟨cm', v, hcm', hv⟩ := hpinv ex hspec
    rw [h2] at hcm'; cases hcm'
    obtain ⟨bump, h5, h6⟩ := bump_of_pin' hcomp hin hne h4 hv
    obtain ⟨hfrom, hto, hcases⟩ := mkBump_spec h6
    have hpin_eq : pinRb h comp gC ex = (gC.bnMapAll.lookup ⟨v.1, v.2.1, v.2.2, v.2.2⟩).map (·.2) := by
      simp only [pinRb, h2, hv]
    have hnil : pinRb h comp gC ex = none → bump.fromRbs = [] := by
      intro hnone
      rw [hfrom]
      apply List.eq_nil_iff_forall_not_mem.mpr
      intro x hx
      rw [mem_fromSet] at hx
      obtain ⟨pbb, hpbb, b0, hb0, hcase⟩ := hx
      obtain ⟨pb, hpb, rfl⟩ := List.mem_map.mp hpbb
      obtain ⟨hpbr, ep, hbep, hnep, hancp⟩ := resolved_parent comps h hT hW g hgw j rb hrb bx hbx ex hex pbs hres pb hpb
      have hlt : ep < ex := by have := hancp.le hT; omega
      obtain ⟨hsp, bumpp, h7, h8, h9⟩ := ih ep hlt pb hpbr hbep
      rw [hb0] at h7; cases h7
      have hpn : pinRb h comp gC ep = none := by
        cases hp : pinRb h comp gC ep with
        | none => rfl
        | some t1 =>
          obtain ⟨t2, ht2, _⟩ := hmono ep ex hsp hspec hancp t1 hp
          rw [hnone] at ht2; cases ht2
      rcases hcase with h10 | ⟨_, h10⟩
      · rw [h8, hpn] at h10; cases h10
      · rw [h9 hpn] at h10; cases h10
    refine ⟨bump, h5, ?_, hnil⟩
    rcases hcases with ⟨e0, h7, h8⟩ | ⟨h7, h8⟩
    · rw [hto] at h7; rw [hpin_eq, h7, h8]; rfl
    · rw [hto] at h7
      have hnone : pinRb h comp gC ex = none := by rw [hpin_eq, h7]; rfl
      rcases h8 with ⟨_, h9⟩ | ⟨m, h9, _⟩
      · rw [h9, hnone]
      · rw [hnil hnone] at h9; simp [maxOf] at h9

/-- an eligible commit that is not reported pins the same component build as a reported build of the branch properly
below it (its bump is trivial) -/
theorem skipped_version (e' : Nat) (hspec' : SpecBuild h ((branchesOf h).take j) b e')
    (hnr : ¬ ∃ bx ∈ rb.rbuilds, BuildAt g.rcs bx e') (t' : Nat) (hpe' : pinRb h comp gC e' = some t') :
    ∃ pb ∈ rb.rbuilds, ∃ ep, BuildAt g.rcs pb ep ∧ ep ≠ e' ∧ Anc h ep e' ∧ pinRb h comp gC ep = some t' := by
  have hg := rgraph_nw hT hW hgw
  have hA := reported_bump comps h hT hW hcw g hgw j b rb hb hrb comp gC hcomp hin hne hpinv hmono
  rcases rgraph_skip hT (compWindow_full hcw) hg j b rb hb hrb e' hspec' with hrep | ⟨_, hsk⟩
  · exact absurd hrep hnr
  · have hrel : (comp, gC) ∈ sortBy (fun a b : Nat × Graph Bumps => decide (a.1 < b.1)) (relevantComps comps) := by
      apply (mem_sortBy _ _ _).mpr
      simp only [relevantComps, List.mem_filter]
      refine ⟨hin, ?_⟩
      cases hbm : gC.bnMapAll with
      | nil => exact absurd hbm hne
      | cons y ys => simp
    rcases hsk with ⟨hrelf, _⟩ | ⟨cm', pbs, bumps, rel', hrel', hcm', _, hpbs, _, hmk, hnt⟩
    · have hemp := mkPlug_relInit_nil hrelf
      have := (mem_sortBy _ _ _).mp hrel
      rw [hemp] at this; cases this
    · simp only [pinRb, hcm'] at hpe'
      cases hv : cm'.pins.lookup comp with
      | none => rw [hv] at hpe'; cases hpe'
      | some v =>
        rw [hv] at hpe'
        rw [mkPlug_mkBumps_full hrel'] at hmk
        simp only [mkPlug] at hnt
        obtain ⟨bump', h3, h4, h5⟩ := bump_of_pin hcomp hin hmk hv hpe'
        have htriv : bump'.trivial = true := by
          cases hct : bump'.trivial with
          | true => rfl
          | false =>
            have : (bumps.any fun cb => !cb.2.trivial) = true :=
              List.any_eq_true.mpr ⟨(comp, bump'), lookup_some_mem h3, by simp [hct]⟩
            rw [this] at hnt; cases hnt
        simp only [Bump.trivial, h4] at htriv
        have hin' : t' ∈ bump'.fromRbs := by simpa using htriv
        rw [h5, mem_fromSet] at hin'
        obtain ⟨pbb, hpbb, b0, hb0, hcase⟩ := hin'
        obtain ⟨pb, hpb, rfl⟩ := List.mem_map.mp hpbb
        obtain ⟨⟨hpbr, hpbc⟩, rcp, hrcp, hnep, hancp⟩ := hpbs pb hpb
        have hbap : BuildAt g.rcs pb rcp.commit := ⟨hpbc, rcp, hrcp, rfl⟩
        obtain ⟨_, bumpp, h6, h7, h8⟩ := hA rcp.commit pb hpbr hbap
        rw [hb0] at h6; cases h6
        rcases hcase with h9 | ⟨h9, h10⟩
        · exact ⟨pb, hpbr, rcp.commit, hbap, hnep, hancp, by rw [← h7, h9]⟩
        · rw [h8 (by rw [← h7, h9])] at h10; cases h10

/-- **C07.included_first + included_only_first, specification level on the parent side** — a reported build `bd` of the
branch, at commit `e`, registers the component build `x` exactly when the version pinned in `e` contains `x` and the
version pinned in no other eligible commit of the branch (tagged or head, new in the branch — reported or not) that
is a proper git ancestor of `e` contains it: `bd` is the first build of the branch that ships `x`, and no later build
registers it again. -/
theorem included_first_spec (bd : RB Bumps) (hbd : bd ∈ rb.rbuilds) (e : Nat) (hbe : BuildAt g.rcs bd e)
    (hbn : bd.bn ≠ fakeNM) (repo : Nat) (l : List Reg) (hl : regsOfBuild repo rb.name comp gC bd = .ok l) (x : Nat) :
    (⟨comp, x, repo, rb.name, bd.bn⟩ : Reg) ∈ l ↔
      ∃ t, pinRb h comp gC e = some t ∧ RbAnc gC x t ∧
        ∀ e', SpecBuild h ((branchesOf h).take j) b e' → e' ≠ e → Anc h e' e →
          ∀ t', pinRb h comp gC e' = some t' → ¬ RbAnc gC x t' := by
  have hg := rgraph_nw hT hW hgw
  have hrbm : rb ∈ g.all := List.mem_of_getElem? hrb
  have hA := reported_bump comps h hT hW hcw g hgw j b rb hb hrb comp gC hcomp hin hne hpinv hmono
  obtain ⟨hspece, bump, hb1, hb2, _⟩ := hA e bd hbd hbe
  cases hpe : pinRb h comp gC e with
  | none =>
    -- the version names nothing: nothing is registered
    rw [hpe] at hb2
    constructor
    · intro hmem
      obtain ⟨_, bump', t', h1, h2, _⟩ := (regsOfBuild_mem hl x).mp hmem
      rw [hb1] at h1; cases h1
      rw [hb2] at h2; cases h2
    · rintro ⟨t, ht, _⟩; cases ht
  | some t =>
    rw [hpe] at hb2
    -- the hypotheses of the theorem about reported builds
    have hpin' : ∀ bx ∈ rb.rbuilds, ∀ ex, BuildAt g.rcs bx ex →
        ∃ bump, bx.bumps.lookup comp = some bump ∧
          ((∃ t, bump.toRb = some t) ∨ (bump.toRb = none ∧ bump.fromRbs = [])) := by
      intro bx hbx ex hex
      obtain ⟨_, bump', h1, h2, h3⟩ := hA ex bx hbx hex
      refine ⟨bump', h1, ?_⟩
      cases hp : pinRb h comp gC ex with
      | none => exact Or.inr ⟨by rw [h2, hp], h3 hp⟩
      | some t1 => exact Or.inl ⟨t1, by rw [h2, hp]⟩
    have hmono' : ∀ bp ∈ rb.rbuilds, ∀ bq ∈ rb.rbuilds, ∀ ep eq, BuildAt g.rcs bp ep → BuildAt g.rcs bq eq →
        Anc h ep eq → ∀ bumpp tp, bp.bumps.lookup comp = some bumpp → bumpp.toRb = some tp →
          ∃ bumpq tq, bq.bumps.lookup comp = some bumpq ∧ bumpq.toRb = some tq ∧ RbAnc gC tp tq := by
      intro bp hbp bq hbq ep eq hep heq hanc bumpp tp h1 h2
      obtain ⟨hsp, bp', h5, h6, _⟩ := hA ep bp hbp hep
      obtain ⟨hsq, bq', h8, h9, _⟩ := hA eq bq hbq heq
      rw [h1] at h5; cases h5
      obtain ⟨tq, h10, h11⟩ := hmono ep eq hsp hsq hanc tp (by rw [← h6, h2])
      exact ⟨bq', tq, h8, by rw [h9, h10], h11⟩
    rw [included_first_reported_partial comps h hT hW hcw g hgw rb hrbm comp gC hpin' hmono' bd hbd e hbe hbn bump t hb1 hb2
      repo l hl x]
    constructor
    · rintro ⟨h1, h2⟩
      refine ⟨t, rfl, h1, ?_⟩
      intro e' hspec' hne' hanc t' hpe' hcontra
      -- `e'` is reported, or it pins the same build as a reported build below it
      classical
      by_cases hrep : ∃ bx ∈ rb.rbuilds, BuildAt g.rcs bx e'
      · obtain ⟨bx, hbx, hbex⟩ := hrep
        obtain ⟨_, bump', h3, h4, _⟩ := hA e' bx hbx hbex
        exact h2 bx hbx e' hbex hne' hanc bump' t' h3 (by rw [h4, hpe']) hcontra
      · obtain ⟨pb, hpbr, ep, hbap, hnep, hancp, hpep⟩ :=
          skipped_version comps h hT hW hcw g hgw j b rb hb hrb comp gC hcomp hin hne hpinv hmono e' hspec' hrep t' hpe'
        obtain ⟨_, bumpp, h6, h7, _⟩ := hA ep pb hpbr hbap
        have hlt1 := hancp.le hT
        have hlt2 := hanc.le hT
        refine h2 pb hpbr ep hbap ?_ (hancp.trans hanc) bumpp t' h6 (by rw [h7, hpep]) hcontra
        intro heq
        have : e' = e := by
          have h9 : e ≤ e' := by rw [← heq]; exact hlt1
          omega
        exact hne' this
    · rintro ⟨t0, hpe0, h1, h2⟩
      cases hpe0
      refine ⟨h1, ?_⟩
      intro bp hbp ep hbep hne' hanc bumpp tp hp1 hp2
      obtain ⟨hsp, bump', h3, h4, _⟩ := hA ep bp hbp hbep
      rw [hp1] at h3; cases h3
      exact h2 ep hsp hne' hanc tp (by rw [← h4, hp2])

/-- **C07.included_first, existence** — if the version pinned in some eligible commit `e0` of the branch contains the
component build `x`, there is a *reported* build of the branch, at an eligible commit `e` below (or at) `e0`, whose
version contains `x` while no eligible commit properly below `e` does: the first build that ships `x` is always
reported, so by `included_first_spec` `x` is registered there and only there. -/
theorem included_first_exists (x : Nat) : ∀ (e0 : Nat), SpecBuild h ((branchesOf h).take j) b e0 →
    ∀ t0, pinRb h comp gC e0 = some t0 → RbAnc gC x t0 →
    ∃ bd ∈ rb.rbuilds, ∃ e, BuildAt g.rcs bd e ∧ Anc h e e0 ∧ ∃ t, pinRb h comp gC e = some t ∧ RbAnc gC x t ∧
      ∀ e', SpecBuild h ((branchesOf h).take j) b e' → e' ≠ e → Anc h e' e →
        ∀ t', pinRb h comp gC e' = some t' → ¬ RbAnc gC x t' := by
  have hg := rgraph_nw hT hW hgw
  have hA := reported_bump comps h hT hW hcw g hgw j b rb hb hrb comp gC hcomp hin hne hpinv hmono
  intro e0
  induction e0 using Nat.strongRecOn with
  | _ e0 ih =>
    intro hspec0 t0 hp0 hx0
    classical
    by_cases hmin : ∀ e', SpecBuild h ((branchesOf h).take j) b e' → e' ≠ e0 → Anc h e' e0 →
        ∀ t', pinRb h comp gC e' = some t' → ¬ RbAnc gC x t'
    · -- `e0` is minimal: it must be reported
      by_cases hrep : ∃ bx ∈ rb.rbuilds, BuildAt g.rcs bx e0
      · obtain ⟨bx, hbx, hbex⟩ := hrep
        exact ⟨bx, hbx, e0, hbex, .refl _, t0, hp0, hx0, hmin⟩
      · exfalso
        obtain ⟨pb, hpbr, ep, hbap, hnep, hancp, hpep⟩ :=
          skipped_version comps h hT hW hcw g hgw j b rb hb hrb comp gC hcomp hin hne hpinv hmono e0 hspec0 hrep t0 hp0
        obtain ⟨hsp, _⟩ := hA ep pb hpbr hbap
        exact hmin ep hsp hnep hancp t0 hpep hx0
    · -- an eligible commit properly below contains `x` already: descend
      have : ∃ e', SpecBuild h ((branchesOf h).take j) b e' ∧ e' ≠ e0 ∧ Anc h e' e0 ∧
          ∃ t', pinRb h comp gC e' = some t' ∧ RbAnc gC x t' := by
        apply Classical.byContradiction
        intro hno
        apply hmin
        intro e' h1 h2 h3 t' h4 h5
        exact hno ⟨e', h1, h2, h3, t', h4, h5⟩
      obtain ⟨e', h1, h2, h3, t', h4, h5⟩ := this
      have hlt : e' < e0 := by
        have := h3.le hT
        rcases Nat.lt_or_ge e' e0 with h6 | h6
        · exact h6
        · exact absurd (by omega) h2
      obtain ⟨bd, hbd, e, h6, h7, h8⟩ := ih e' hlt h1 t' h4 h5
      exact ⟨bd, hbd, e, h6, h7.trans h3, h8⟩

end

/-! ## included_at in git terms

The component's history `hC` (graph `gC`), its `jC`-th branch `bC` (result `rbC`); the parent's history `h` (graph
`g`, built with the component graphs `comps ∋ (comp, gC)`), its `j`-th branch `b` (result `rb`). -/

/-- the eligible parent commit `e` pins the version of the component that is a build tag of the component commit
`cv`, a commit of the component branch `bC` (first read there) -/
def PinsAt (h hC : Hist Pins) (comp : Nat) (preC : List Branch) (bC : Branch) (e cv : Nat) : Prop :=
  ∃ cm v cmv, h.commits[e]? = some cm ∧ cm.pins.lookup comp = some v ∧ hC.commits[cv]? = some cmv ∧
    (⟨v.1, v.2.1, v.2.2, v.2.2⟩ : BN) ∈ cmv.tags ∧ SpecBuild hC preC bC cv

/-- there is a reported build of the component branch at or below the component commit `cv` -/
def HasBuild (hC : Hist Pins) (gC : Graph Bumps) (rbC : RBranch Bumps) (cv : Nat) : Prop :=
  ∃ bt ∈ rbC.rbuilds, ∃ et, BuildAt gC.rcs bt et ∧ Anc hC et cv

/-- the version pinned in the parent commit `e` ships no reported build of the component: whichever commit of the
component carries it as a build tag — in whichever release line — has no reported build of its branch at or below
it.  Versions that are no build tag of the component at all are included. -/
def PinsNothing (h hC : Hist Pins) (comp : Nat) (gC : Graph Bumps) (e : Nat) : Prop :=
  ∃ cm v, h.commits[e]? = some cm ∧ cm.pins.lookup comp = some v ∧ (⟨v.1, v.2.1, v.2.2, v.2.2⟩ : BN) ≠ fakeNB ∧
    ∀ (k : Nat) (bk : Branch) (rbk : RBranch Bumps) (c : Nat) (cmc : Commit Pins),
      (branchesOf hC)[k]? = some bk → gC.all[k]? = some rbk → hC.commits[c]? = some cmc →
      (⟨v.1, v.2.1, v.2.2, v.2.2⟩ : BN) ∈ cmc.tags → SpecBuild hC ((branchesOf hC).take k) bk c →
      ¬ HasBuild hC gC rbk c

section
variable (comps : List (Nat × Graph Bumps)) (h : Hist Pins) (hT : h.Topo) (hW : h.InWindow) (hcw : CompWindow comps h) (g : Graph Bumps)
variable (hgw : rgraph h (mkPlug comps) = .ok g)
variable (j : Nat) (b : Branch) (rb : RBranch Bumps)
variable (hb : (branchesOf h)[j]? = some b) (hrb : g.all[j]? = some rb)
variable (comp : Nat) (gC : Graph Bumps) (hcomp : ∀ g', (comp, g') ∈ comps → g' = gC) (hin : (comp, gC) ∈ comps)
variable (hC : Hist Pins) (hTC : hC.Topo) (huC : TagsUnique hC) (plC : Plug Pins Bumps)
variable (hWC : hC.InWindow) (hgCw : rgraph hC plC = .ok gC) (hlenC : gC.rcs.length ≤ Gen.Ghist.fakeStart)
variable (jC : Nat) (bC : Branch) (rbC : RBranch Bumps)
variable (hbC : (branchesOf hC)[jC]? = some bC) (hrbC : gC.all[jC]? = some rbC)
variable (hpins : ∀ e', SpecBuild h ((branchesOf h).take j) b e' →
  (∃ cv, PinsAt h hC comp ((branchesOf hC).take jC) bC e' cv) ∨ PinsNothing h hC comp gC e')
variable (hmonoC : ∀ e1 e2, SpecBuild h ((branchesOf h).take j) b e1 → SpecBuild h ((branchesOf h).take j) b e2 →
  Anc h e1 e2 → ∀ cv1, PinsAt h hC comp ((branchesOf hC).take jC) bC e1 cv1 → HasBuild hC gC rbC cv1 →
    ∃ cv2, PinsAt h hC comp ((branchesOf hC).take jC) bC e2 cv2 ∧ Anc hC cv1 cv2)
include hT hW hcw hgw hb hrb hcomp hin hTC huC hWC hgCw hlenC hbC hrbC hpins hmonoC

/-- **C07.included_first + included_only_first in git terms** — see `Props/C07.lean` -/
theorem included_first_git (bd : RB Bumps) (hbd : bd ∈ rb.rbuilds) (e : Nat) (hbe : BuildAt g.rcs bd e)
    (hbn : bd.bn ≠ fakeNM) (bx : RB Bumps) (hbx : bx ∈ rbC.rbuilds) (ex : Nat) (hex : BuildAt gC.rcs bx ex)
    (repo : Nat) (l : List Reg) (hl : regsOfBuild repo rb.name comp gC bd = .ok l) :
    (⟨comp, bx.iid, repo, rb.name, bd.bn⟩ : Reg) ∈ l ↔
      (∃ cv, PinsAt h hC comp ((branchesOf hC).take jC) bC e cv ∧ Anc hC ex cv) ∧
      ∀ e', SpecBuild h ((branchesOf h).take j) b e' → e' ≠ e → Anc h e' e →
        ∀ cv', PinsAt h hC comp ((branchesOf hC).take jC) bC e' cv' → ¬ Anc hC ex cv' := by
  have hgC := rgraph_nw hTC hWC hgCw
  -- what a pin into the branch means for `pinRb`
  have hpinrb : ∀ e' cv', PinsAt h hC comp ((branchesOf hC).take jC) bC e' cv' → HasBuild hC gC rbC cv' →
      ∃ t, pinRb h comp gC e' = some t ∧
        (∀ by' ∈ rbC.rbuilds, ∀ ey, BuildAt gC.rcs by' ey → (RbAnc gC by'.iid t ↔ Anc hC ey cv')) ∧
        ∃ bi ∈ rbC.rbuilds, bi.iid = t ∧ ∃ ei, BuildAt gC.rcs bi ei ∧ Anc hC ei cv' := by
    rintro e' cv' ⟨cm, v, cmv, h1, h2, h3, h4, h5⟩ ⟨bt, hbt, et, hbet, hanc⟩
    obtain ⟨en, hen, _⟩ := (version_contains_iff hTC huC hgC hlenC hbC hrbC h3 h4 h5 hbt hbet).mpr hanc
    refine ⟨en.2, by simp [pinRb, h1, h2, hen], ?_, version_build hTC huC hgC hbC hrbC h3 h4 h5 hen⟩
    intro by' hby ey hbey
    rw [← version_contains_iff hTC huC hgC hlenC hbC hrbC h3 h4 h5 hby hbey]
    constructor
    · intro hr; exact ⟨en, hen, hr⟩
    · rintro ⟨en', hen', hr⟩; rw [hen] at hen'; cases hen'; exact hr
  -- a pinned version that names a build is a pin into the branch, with a reported build at or below
  have hsome : ∀ e', SpecBuild h ((branchesOf h).take j) b e' → ∀ t, pinRb h comp gC e' = some t →
      ∃ cv', PinsAt h hC comp ((branchesOf hC).take jC) bC e' cv' ∧ HasBuild hC gC rbC cv' := by
    intro e' hs t ht
    rcases hpins e' hs with ⟨cv', hp⟩ | ⟨cm, v, h1, h2, hnf, hall⟩
    · refine ⟨cv', hp, ?_⟩
      obtain ⟨cm, v, cmv, h1, h2, h3, h4, h5⟩ := hp
      simp only [pinRb, h1, h2] at ht
      cases hlk : gC.bnMapAll.lookup ⟨v.1, v.2.1, v.2.2, v.2.2⟩ with
      | none => rw [hlk] at ht; cases ht
      | some en =>
        obtain ⟨bi, hbi, _, ei, hbei, hei⟩ := version_build hTC huC hgC hbC hrbC h3 h4 h5 hlk
        exact ⟨bi, hbi, ei, hbei, hei⟩
    · exfalso
      simp only [pinRb, h1, h2] at ht
      cases hlk : gC.bnMapAll.lookup ⟨v.1, v.2.1, v.2.2, v.2.2⟩ with
      | none => rw [hlk] at ht; cases ht
      | some en =>
        obtain ⟨k, bk, rbk, c, cmc, h3, h4, h5, h6, h7, bi, hbi, ei, hbei, hei⟩ := lookup_some_tagged hTC huC hgC hlk
        rcases h7 with h7 | h7
        · exact hall k bk rbk c cmc h3 h4 h6 h7 h5 ⟨bi, hbi, ei, hbei, hei⟩
        · exact hnf h7
  have hne : gC.bnMapAll ≠ [] := by
    have hgood := rgraph_good' hTC hgCw (Or.inr hlenC)
    have hbxg : bx ∈ gC.builds :=
      (rgraph_bumpsOk hTC (RelInv.trivial _ _) hgC).2 rbC (List.mem_of_getElem? hrbC) bx hbx (by rw [hex.1]; rfl)
    obtain ⟨en, hen, _⟩ := hgood.key bx hbxg
    intro h0; rw [h0] at hen; cases hen
  have hpinv : ∀ e', SpecBuild h ((branchesOf h).take j) b e' →
      ∃ cm v, h.commits[e']? = some cm ∧ cm.pins.lookup comp = some v := by
    intro e' hs
    rcases hpins e' hs with ⟨cv', cm, v, _, h1, h2, _⟩ | ⟨cm, v, h1, h2, _⟩
    · exact ⟨cm, v, h1, h2⟩
    · exact ⟨cm, v, h1, h2⟩
  have hmono : ∀ e1 e2, SpecBuild h ((branchesOf h).take j) b e1 → SpecBuild h ((branchesOf h).take j) b e2 →
      Anc h e1 e2 → ∀ t1, pinRb h comp gC e1 = some t1 → ∃ t2, pinRb h comp gC e2 = some t2 ∧ RbAnc gC t1 t2 := by
    intro e1 e2 hs1 hs2 hanc t1 ht1
    obtain ⟨cv1, hp1, hb1⟩ := hsome e1 hs1 t1 ht1
    obtain ⟨cv2, hp2, h12⟩ := hmonoC e1 e2 hs1 hs2 hanc cv1 hp1 hb1
    have hb2 : HasBuild hC gC rbC cv2 := by
      obtain ⟨bt, hbt, et, hbet, het⟩ := hb1
      exact ⟨bt, hbt, et, hbet, het.trans h12⟩
    obtain ⟨t1', h1, _, bi, hbi, hbit, ei, hbei, hei⟩ := hpinrb e1 cv1 hp1 hb1
    obtain ⟨t2, h2, hiff2, _⟩ := hpinrb e2 cv2 hp2 hb2
    rw [ht1] at h1; cases h1
    refine ⟨t2, h2, ?_⟩
    rw [← hbit]
    exact (hiff2 bi hbi ei hbei).mpr (hei.trans h12)
  rw [included_first_spec comps h hT hW hcw g hgw j b rb hb hrb comp gC hcomp hin hne hpinv hmono bd hbd e hbe hbn
    repo l hl bx.iid]
  have hbxb : ∀ cv', Anc hC ex cv' → HasBuild hC gC rbC cv' := fun cv' ha => ⟨bx, hbx, ex, hex, ha⟩
  obtain ⟨hspece, _⟩ := reported_bump comps h hT hW hcw g hgw j b rb hb hrb comp gC hcomp hin hne hpinv hmono e bd hbd hbe
  constructor
  · rintro ⟨t0, ht0, h1, h2⟩
    obtain ⟨cv0, hp0, hb0⟩ := hsome e hspece t0 ht0
    obtain ⟨t, ht, hifft, _⟩ := hpinrb e cv0 hp0 hb0
    rw [ht0] at ht; cases ht
    refine ⟨⟨cv0, hp0, (hifft bx hbx ex hex).mp h1⟩, ?_⟩
    intro e' hs' hne' hanc cv' hp' hcontra
    obtain ⟨t', ht', hifft', _⟩ := hpinrb e' cv' hp' (hbxb cv' hcontra)
    exact h2 e' hs' hne' hanc t' ht' ((hifft' bx hbx ex hex).mpr hcontra)
  · rintro ⟨⟨cv, hp, h1⟩, h2⟩
    obtain ⟨t, ht, hifft, _⟩ := hpinrb e cv hp (hbxb cv h1)
    refine ⟨t, ht, (hifft bx hbx ex hex).mpr h1, ?_⟩
    intro e' hs' hne' hanc t' ht' hcontra
    obtain ⟨cv', hp', hb'⟩ := hsome e' hs' t' ht'
    obtain ⟨t'', ht'', hifft', _⟩ := hpinrb e' cv' hp' hb'
    rw [ht'] at ht''; cases ht''
    exact h2 e' hs' hne' hanc cv' hp' ((hifft' bx hbx ex hex).mp hcontra)

end

end Ghist.Incl
