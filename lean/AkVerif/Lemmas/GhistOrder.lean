import AkVerif.Model.Ghist
/-! Order lemmas for C06: `strLt`, `cmpItem`, `cmpKey` are strict total orders; `sortBy` sorts. -/
namespace Ghist

/-! ### strings -/

theorem strLt_irrefl (a : List Char) : strLt a a = false := by
  induction a with
  | nil => rfl
  | cons c cs ih => simp [strLt, ih]

theorem strLt_asymm : ∀ (a b : List Char), strLt a b = true → strLt b a = false := by
  intro a
  induction a with
  | nil => intro b; cases b <;> simp [strLt]
  | cons c cs ih =>
    intro b
    cases b with
    | nil => simp [strLt]
    | cons d ds =>
      simp only [strLt]
      intro h
      split at h
      · rename_i h1
        have : ¬ d.toNat < c.toNat := by omega
        simp [this, h1]
      · split at h
        · simp at h
        · rename_i h1 h2
          simp [h1, h2]
          exact ih ds h

theorem strLt_trans : ∀ (a b c : List Char), strLt a b = true → strLt b c = true → strLt a c = true := by
  intro a
  induction a with
  | nil =>
    intro b c h1 h2
    cases b with
    | nil => simp [strLt] at h1
    | cons d ds => cases c <;> simp [strLt] at h2 ⊢
  | cons x xs ih =>
    intro b c h1 h2
    cases b with
    | nil => simp [strLt] at h1
    | cons y ys =>
      cases c with
      | nil => simp [strLt] at h2
      | cons z zs =>
        simp only [strLt] at h1 h2 ⊢
        by_cases hxy : x.toNat < y.toNat
        · by_cases hyz : y.toNat < z.toNat
          · have : x.toNat < z.toNat := by omega
            simp [this]
          · by_cases hzy : z.toNat < y.toNat
            · simp [hyz, hzy] at h2
            · have : x.toNat < z.toNat := by omega
              simp [this]
        · by_cases hyx : y.toNat < x.toNat
          · simp [hxy, hyx] at h1
          · simp only [hxy, hyx, if_false] at h1
            by_cases hyz : y.toNat < z.toNat
            · have : x.toNat < z.toNat := by omega
              simp [this]
            · by_cases hzy : z.toNat < y.toNat
              · simp [hyz, hzy] at h2
              · simp only [hyz, hzy, if_false] at h2
                have h3 : ¬ x.toNat < z.toNat := by omega
                have h4 : ¬ z.toNat < x.toNat := by omega
                simp only [h3, h4, if_false]
                exact ih ys zs h1 h2

theorem strLt_total : ∀ (a b : List Char), strLt a b = false → strLt b a = false → a = b := by
  intro a
  induction a with
  | nil => intro b; cases b <;> simp [strLt]
  | cons x xs ih =>
    intro b
    cases b with
    | nil => simp [strLt]
    | cons y ys =>
      simp only [strLt]
      intro h1 h2
      by_cases hxy : x.toNat < y.toNat
      · simp [hxy] at h1
      · by_cases hyx : y.toNat < x.toNat
        · simp [hyx] at h2
        · simp only [hxy, hyx, if_false] at h1 h2
          have : x = y := by
            apply Char.ext
            apply UInt32.toNat_inj.mp
            have : x.toNat = y.toNat := by omega
            exact this
          rw [this, ih ys h1 h2]

/-! ### items -/

theorem cmpItem_self (a : Item) : cmpItem a a = 0 := by
  cases a with
  | int n => simp [cmpItem]
  | str s => simp [cmpItem, strLt_irrefl]

theorem cmpItem_eq_zero {a b : Item} (h : cmpItem a b = 0) : a = b := by
  cases a <;> cases b <;> simp only [cmpItem] at h
  · congr 1; omega
  · omega
  · omega
  · rename_i s t
    by_cases h1 : strLt t s = true
    · simp [h1] at h
    · by_cases h2 : strLt s t = true
      · simp [h1, h2] at h
      · congr 1
        exact strLt_total s t (by simpa using h2) (by simpa using h1)

theorem cmpItem_swap (a b : Item) : cmpItem a b < 0 ↔ 0 < cmpItem b a := by
  cases a <;> cases b <;> simp only [cmpItem]
  · omega
  · omega
  · omega
  · rename_i s t
    by_cases h1 : strLt t s = true
    · have := strLt_asymm t s h1
      simp [h1, this]
    · by_cases h2 : strLt s t = true
      · simp [h1, h2]
      · simp [h1, h2]

theorem cmpItem_trans {a b c : Item} (h1 : cmpItem a b < 0) (h2 : cmpItem b c < 0) : cmpItem a c < 0 := by
  cases a <;> cases b <;> cases c <;> simp only [cmpItem] at h1 h2 ⊢ <;> try omega
  rename_i s t u
  have hst : strLt s t = true := by
    by_cases h : strLt t s = true
    · simp [h] at h1
    · by_cases h' : strLt s t = true
      · exact h'
      · simp [h, h'] at h1
  have htu : strLt t u = true := by
    by_cases h : strLt u t = true
    · simp [h] at h2
    · by_cases h' : strLt t u = true
      · exact h'
      · simp [h, h'] at h2
  have hsu := strLt_trans s t u hst htu
  have := strLt_asymm s u hsu
  simp [hsu, this]

/-! ### keys -/

theorem cmpKey_self (a : List Item) : cmpKey a a = 0 := by
  induction a with
  | nil => simp [cmpKey]
  | cons x xs ih => simp [cmpKey, cmpItem_self, ih]

theorem cmpKey_eq_zero : ∀ (a b : List Item), cmpKey a b = 0 → a = b := by
  intro a
  induction a with
  | nil => intro b h; cases b with
    | nil => rfl
    | cons y ys => simp [cmpKey] at h; omega
  | cons x xs ih =>
    intro b h
    cases b with
    | nil => simp [cmpKey] at h; omega
    | cons y ys =>
      simp only [cmpKey] at h
      split at h
      · contradiction
      · rename_i h0
        have h0' : cmpItem x y = 0 := by simpa using h0
        rw [cmpItem_eq_zero h0', ih ys h]

theorem cmpKey_swap : ∀ (a b : List Item), cmpKey a b < 0 ↔ 0 < cmpKey b a := by
  intro a
  induction a with
  | nil => intro b; cases b <;> simp [cmpKey] <;> omega
  | cons x xs ih =>
    intro b
    cases b with
    | nil => simp [cmpKey] <;> omega
    | cons y ys =>
      simp only [cmpKey]
      by_cases h0 : cmpItem x y = 0
      · have : x = y := cmpItem_eq_zero h0
        subst this
        simp [cmpItem_self, ih ys]
      · have h0' : cmpItem y x ≠ 0 := by
          intro h; exact h0 (by rw [cmpItem_eq_zero h]; exact cmpItem_self _)
        simp only [h0, h0', ne_eq, not_false_eq_true, if_true]
        have := cmpItem_swap x y
        have := cmpItem_swap y x
        omega

theorem cmpKey_trans : ∀ (a b c : List Item), cmpKey a b < 0 → cmpKey b c < 0 → cmpKey a c < 0 := by
  intro a
  induction a with
  | nil =>
    intro b c h1 h2
    cases b with
    | nil => simp [cmpKey] at h1
    | cons y ys =>
      cases c with
      | nil =>
        have := (cmpKey_swap (y :: ys) []).mp h2
        simp [cmpKey] at this; omega
      | cons z zs => simp [cmpKey] <;> omega
  | cons x xs ih =>
    intro b c h1 h2
    cases b with
    | nil => simp [cmpKey] at h1; omega
    | cons y ys =>
      cases c with
      | nil => simp [cmpKey] at h2; omega
      | cons z zs =>
        simp only [cmpKey] at h1 h2 ⊢
        by_cases hxy : cmpItem x y = 0
        · have : x = y := cmpItem_eq_zero hxy
          subst this
          simp only [cmpItem_self, ne_eq, not_true_eq_false, if_false] at h1
          by_cases hxz : cmpItem x z = 0
          · simp only [hxz, ne_eq, not_true_eq_false, if_false] at h2 ⊢
            exact ih ys zs h1 h2
          · simp only [hxz, ne_eq, not_false_eq_true, if_true] at h2 ⊢
            exact h2
        · simp only [hxy, ne_eq, not_false_eq_true, if_true] at h1
          by_cases hyz : cmpItem y z = 0
          · have : y = z := cmpItem_eq_zero hyz
            subst this
            simp only [hxy, ne_eq, not_false_eq_true, if_true]
            exact h1
          · simp only [hyz, ne_eq, not_false_eq_true, if_true] at h2
            have h3 := cmpItem_trans h1 h2
            have : cmpItem x z ≠ 0 := by omega
            simp only [this, ne_eq, not_false_eq_true, if_true]
            exact h3

theorem ltKey_irrefl (a : List Item) : ltKey a a = false := by
  simp [ltKey, cmpKey_self]

theorem ltKey_asymm (a b : List Item) (h : ltKey a b = true) : ltKey b a = false := by
  simp only [ltKey, decide_eq_true_eq, decide_eq_false_iff_not] at *
  have := (cmpKey_swap a b).mp h
  omega

theorem ltKey_trans (a b c : List Item) (h1 : ltKey a b = true) (h2 : ltKey b c = true) : ltKey a c = true := by
  simp only [ltKey, decide_eq_true_eq] at *
  exact cmpKey_trans a b c h1 h2

/-- trichotomy: keys that are not ordered either way are equal -/
theorem ltKey_total (a b : List Item) (h1 : ltKey a b = false) (h2 : ltKey b a = false) : a = b := by
  simp only [ltKey, decide_eq_false_iff_not] at *
  apply cmpKey_eq_zero
  have := cmpKey_swap b a
  omega

/-- the complement of `ltKey` is transitive (so "incomparable" is an equivalence: strict weak order) -/
theorem not_ltKey_trans (a b c : List Item) (h1 : ltKey b a = false) (h2 : ltKey c b = false) :
    ltKey c a = false := by
  cases h : ltKey c a with
  | false => rfl
  | true =>
    by_cases hab : ltKey a b = true
    · have := ltKey_trans c a b h hab
      simp [this] at h2
    · have : a = b := ltKey_total a b (by simpa using hab) h1
      subst this
      simp [h] at h2

/-! ### sorting -/

theorem insertBy_perm {α} (lt : α → α → Bool) (x : α) (l : List α) : (insertBy lt x l).Perm (x :: l) := by
  induction l with
  | nil => simp [insertBy]
  | cons y ys ih =>
    simp only [insertBy]
    split
    · exact (List.Perm.cons y ih).trans (List.Perm.swap x y ys)
    · exact List.Perm.refl _

theorem sortBy_perm {α} (lt : α → α → Bool) (l : List α) : (sortBy lt l).Perm l := by
  induction l with
  | nil => simp [sortBy]
  | cons x xs ih =>
    simp only [sortBy]
    exact (insertBy_perm lt x _).trans (List.Perm.cons x ih)

theorem mem_sortBy {α} (lt : α → α → Bool) (l : List α) (a : α) : a ∈ sortBy lt l ↔ a ∈ l :=
  (sortBy_perm lt l).mem_iff

/-- sorted = no later element is strictly below an earlier one -/
def Sorted {α} (lt : α → α → Bool) (l : List α) : Prop := l.Pairwise (fun a b => lt b a = false)

theorem insertBy_sorted {α} (lt : α → α → Bool)
    (hasym : ∀ a b, lt a b = true → lt b a = false)
    (hnt : ∀ a b c, lt b a = false → lt c b = false → lt c a = false)
    (x : α) (l : List α) (h : Sorted lt l) : Sorted lt (insertBy lt x l) := by
  induction l with
  | nil => simp [insertBy, Sorted]
  | cons y ys ih =>
    simp only [insertBy]
    unfold Sorted at h ih ⊢
    rw [List.pairwise_cons] at h
    split
    · rename_i hyx
      rw [List.pairwise_cons]
      refine ⟨?_, ih h.2⟩
      intro z hz
      rcases List.mem_cons.mp ((insertBy_perm lt x ys).mem_iff.mp hz) with hz | hz
      · subst hz; exact hasym _ _ hyx
      · exact h.1 z hz
    · rename_i hyx
      have hyx : lt y x = false := by simpa using hyx
      rw [List.pairwise_cons]
      refine ⟨?_, List.pairwise_cons.mpr h⟩
      intro z hz
      rcases List.mem_cons.mp hz with hz | hz
      · subst hz; exact hyx
      · exact hnt x y z hyx (h.1 z hz)

theorem sortBy_sorted {α} (lt : α → α → Bool)
    (hasym : ∀ a b, lt a b = true → lt b a = false)
    (hnt : ∀ a b c, lt b a = false → lt c b = false → lt c a = false)
    (l : List α) : Sorted lt (sortBy lt l) := by
  induction l with
  | nil => simp [sortBy, Sorted]
  | cons x xs ih => exact insertBy_sorted lt hasym hnt x _ ih

/-! ### splitting a name into sort items -/

theorem splitItems_word (w : List Char) (hw : ∀ c ∈ w, isSep c = false) (c : Char) (hc : isSep c = true)
    (t cur : List Char) (hne : w ≠ [] ∨ cur ≠ []) :
    splitItems (w ++ c :: t) cur = (cur.reverse ++ w) :: splitItems t [] := by
  induction w generalizing cur with
  | nil =>
    have hcur : cur ≠ [] := by rcases hne with h | h; exact absurd rfl h; exact h
    have : cur.isEmpty = false := by cases cur <;> simp_all
    simp [splitItems, hc, this]
  | cons x w ih =>
    have hx : isSep x = false := hw x (by simp)
    simp only [List.cons_append, splitItems, hx, Bool.false_eq_true, if_false]
    rw [ih (fun c hc => hw c (by simp [hc])) (x :: cur) (Or.inr (by simp))]
    simp

end Ghist
