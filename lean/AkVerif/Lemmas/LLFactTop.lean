import AkVerif.Lemmas.LLFact2
/-!
Glue between the constructor and the factorisation relation:
* names: a symbol whose Python name has no `__` is a user symbol (`path = []`);
* `createProds` yields a `UserWF` dictionary when no right-hand side name contains `__`;
* `FactRelD` (dictionaries) gives the parser-level record `FactRel`.
-/
set_option linter.unusedSectionVars false
namespace LL
open Ak

/-! ### names without `__` -/

theorem hasDunder_append (a b : List Char) : hasDunder (a ++ '_' :: '_' :: b) = true := by
  induction a with
  | nil => simp [hasDunder]
  | cons c a ih =>
    simp only [List.cons_append]
    unfold hasDunder
    split
    · rfl
    · rename_i rest heq
      simp only [List.cons.injEq] at heq
      rw [← heq.2]; exact ih
    · rename_i heq; simp at heq

theorem path_nil_of_name {t : Sym} (h : hasDunder t.name = false) : t.path = [] := by
  cases hp : t.path with
  | nil => rfl
  | cons g rest =>
    exfalso
    have : t.name = t.base ++ '_' :: '_' :: ('S' :: pad2 g ++ (rest.map fun g => "__S".toList ++ pad2 g).flatten) := by
      simp [Sym.name, hp]
    rw [this, hasDunder_append] at h
    cases h

theorem splitSuffix_none {n : List Char} (h : hasDunder n = false) : splitSuffix n = none := by
  unfold splitSuffix
  simp only
  split
  · rename_i base heq
    exfalso
    have hsplit := List.takeWhile_append_dropWhile (p := Char.isDigit) (l := n.reverse)
    rw [heq] at hsplit
    have : ∃ tl, n = base.reverse ++ '_' :: '_' :: tl := by
      have := congrArg List.reverse hsplit
      simp only [List.reverse_append, List.reverse_cons, List.reverse_reverse, List.append_assoc,
        List.cons_append, List.nil_append] at this
      exact ⟨_, this.symm⟩
    obtain ⟨tl, htl⟩ := this
    rw [htl, hasDunder_append] at h
    cases h
  · rfl

theorem parseSym_plain {n : List Char} (h : hasDunder n = false) : parseSym n = ⟨n, []⟩ := by
  unfold parseSym
  cases hl : n.length with
  | zero => simp [parseSymAux]
  | succ k => simp [parseSymAux, splitSuffix_none h]

/-! ### `createProds` -/

/-- no right-hand side of the input names a `__` symbol -/
def NoDunderRhs (prods : List (List Char × List (List (List Char)))) : Prop :=
  ∀ e ∈ prods, ∀ p ∈ e.2, ∀ n ∈ p, hasDunder n = false

theorem numberFrom_rhs {α : Type} (f : α → List Sym) : ∀ (n : Nat) (alts : List α),
    ((numberFrom n alts).map fun (i, p) => (⟨f p, i⟩ : Rule Sym)).map (·.rhs) = alts.map f
  | _, [] => rfl
  | n, a :: as => by simp [numberFrom, numberFrom_rhs f (n + 1) as]

/-- a successful `_create_productions` means: distinct keys, and neither a key nor a right-hand side
symbol is a `__` name (the assertions of the constructor) -/
theorem createProds_wf : ∀ (prods : List (List Char × List (List (List Char)))) (n : Nat) (acc U : Prods Sym),
    createProds n prods acc = .ok U → UserWF acc →
      UserWF U ∧ pkeys U = pkeys acc ++ prods.map (fun e => parseSym e.1) ∧ NoDunderRhs prods
  | [], n, acc, U, h, hacc => by
    simp only [createProds] at h
    cases h
    exact ⟨hacc, by simp, by intro e he; simp at he⟩
  | (s, alts) :: rest, n, acc, U, h, hacc => by
    simp only [createProds] at h
    split at h
    · simp at h
    · rename_i hd
      split at h
      · simp at h
      · rename_i hrhs0
        split at h
        · simp at h
        · rename_i hdup
          have hd' : hasDunder s = false := by simpa using hd
          have hrhs1 : ∀ p ∈ alts, ∀ nm ∈ p, hasDunder nm = false := by
            intro p hp nm hnm
            cases hh : hasDunder nm with
            | false => rfl
            | true =>
              exfalso
              apply hrhs0
              simp only [List.any_eq_true]
              exact ⟨p, hp, nm, hnm, hh⟩
          have hkey : parseSym s = ⟨s, []⟩ := parseSym_plain hd'
          have hnew : parseSym s ∉ pkeys acc := by
            intro hm
            have := (dget_isSome_iff (k := parseSym s) (d := acc)).2 hm
            exact hdup this
          have hacc' : UserWF (acc ++ [(parseSym s,
              (numberFrom n alts).map fun (i, p) => (⟨p.map parseSym, i⟩ : Rule Sym))]) := by
            refine { nodup := ?_, keyUser := ?_, symUser := ?_ }
            · simp only [pkeys, List.map_append, List.map_cons, List.map_nil]
              rw [List.nodup_append]
              refine ⟨hacc.nodup, by simp, ?_⟩
              intro a ha b hb
              simp only [List.mem_singleton] at hb
              subst hb
              intro e; subst e; exact hnew ha
            · intro k hk
              simp only [pkeys, List.map_append, List.map_cons, List.map_nil, List.mem_append,
                List.mem_singleton] at hk
              rcases hk with hk | hk
              · exact hacc.keyUser k hk
              · rw [hk, hkey]
            · intro x hx
              obtain ⟨k, rules, hm, r, hr, hxr⟩ := mem_psyms.1 hx
              simp only [List.mem_append, List.mem_singleton, Prod.mk.injEq] at hm
              rcases hm with hm | ⟨_, hm⟩
              · exact hacc.symUser x (mem_psyms.2 ⟨k, rules, hm, r, hr, hxr⟩)
              · subst hm
                have : r.rhs ∈ alts.map (fun p => p.map parseSym) := by
                  rw [← numberFrom_rhs (fun p => p.map parseSym) n alts]
                  exact List.mem_map.2 ⟨r, hr, rfl⟩
                obtain ⟨p, hp, hpr⟩ := List.mem_map.1 this
                rw [← hpr] at hxr
                obtain ⟨nm, hnm, hx'⟩ := List.mem_map.1 hxr
                have := hrhs1 p hp nm hnm
                rw [← hx', parseSym_plain this]
          obtain ⟨w, hk, hr⟩ := createProds_wf rest _ _ U h hacc'
          refine ⟨w, ?_, ?_⟩
          · rw [hk]; simp [pkeys]
          · intro e he
            simp only [List.mem_cons] at he
            rcases he with he | he
            · subst he; exact hrhs1
            · exact hr e he

/-! ### from dictionaries to the parser-level record -/

theorem flatD_of_flat {P : Parser} (hinit : startSym ∉ P.suffix) :
    ∀ {s : Sym} {e : List Sym}, Flat P.cfg (extGram P.prods P.start) s e → s ≠ startSym →
      FlatD P.prods P.suffix s e := by
  intro s e h
  induction h with
  | base hp hlast =>
    intro hs
    simp only [extGram, hs, if_false] at hp
    exact FlatD.base hp (fun l hl => by simpa [Parser.cfg, cfgOf] using hlast l hl)
  | @step s0 pre s' e0 hp hs' _ ih =>
    intro hs
    simp only [extGram, hs, if_false] at hp
    have hs'' : s' ∈ P.suffix := by simpa [Parser.cfg, cfgOf] using hs'
    exact FlatD.step hp hs'' (ih (fun e => hinit (e ▸ hs'')))

theorem factRel_of_D {P : Parser} (h1 : Part1 P.terminals P.start P.prods)
    (hD : FactRelD P.userProds P.prods P.suffix) : FactRel P := by
  have hinit : startSym ∉ P.suffix := fun h => h1.initNoKey (hD.sufKeys _ h)
  exact { inner := hD.inner,
          flatIn := fun s hs hsi e he => hD.flatIn s hs e (flatD_of_flat hinit he hsi),
          keys := hD.keys, sufKeys := hD.sufKeys, sufNotUser := hD.sufNotUser }

theorem terms_path_nil {inp : CtorIn} (hD : (tokenNames inp).any (fun t => hasDunder t.name) = false) :
    ∀ t ∈ tokenNames inp, t.path = [] := by
  intro t ht
  apply path_nil_of_name
  have := List.any_eq_false.1 hD t ht
  simpa using this

end LL
