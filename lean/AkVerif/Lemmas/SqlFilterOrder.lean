import AkVerif.Lemmas.SqlFilterSort
/-!
The ORDER BY model of C15: `vLt` is a strict total order on cells, `rowBefore` (lexicographic over
the keys, `DESC` flips a key) is asymmetric and transitive, and `sortRows` returns its input
sorted: no row of the result comes strictly before an earlier one.
-/
namespace SqlFilter
open Ak

theorem natsLt_irrefl : ∀ (a : List Nat), natsLt a a = false
  | [] => rfl
  | c :: cs => by simp [natsLt, natsLt_irrefl cs]

theorem natsLt_trans : ∀ (a b c : List Nat), natsLt a b = true → natsLt b c = true → natsLt a c = true
  | [], [], _, h, _ => by simp [natsLt] at h
  | [], _ :: _, [], _, h => by simp [natsLt] at h
  | [], _ :: _, _ :: _, _, _ => by simp [natsLt]
  | _ :: _, [], _, h, _ => by simp [natsLt] at h
  | _ :: _, _ :: _, [], _, h => by simp [natsLt] at h
  | x :: xs, y :: ys, z :: zs, h1, h2 => by
    simp only [natsLt] at h1 h2 ⊢
    by_cases hxy : x < y
    · by_cases hyz : y < z
      · have : x < z := by omega
        simp [this]
      · simp only [hyz, if_false] at h2
        by_cases hzy : z < y
        · simp [hzy] at h2
        · have : x < z := by omega
          simp [this]
    · simp only [hxy, if_false] at h1
      by_cases hyx : y < x
      · simp [hyx] at h1
      · simp only [hyx, if_false] at h1
        by_cases hyz : y < z
        · have : x < z := by omega
          simp [this]
        · simp only [hyz, if_false] at h2
          by_cases hzy : z < y
          · simp [hzy] at h2
          · simp only [hzy, if_false] at h2
            have h3 : ¬ x < z := by omega
            have h4 : ¬ z < x := by omega
            simp only [h3, h4, if_false]
            exact natsLt_trans xs ys zs h1 h2

theorem natsLt_total : ∀ (a b : List Nat), a ≠ b → natsLt a b = true ∨ natsLt b a = true
  | [], [], h => absurd rfl h
  | [], _ :: _, _ => by simp [natsLt]
  | _ :: _, [], _ => by simp [natsLt]
  | x :: xs, y :: ys, h => by
    simp only [natsLt]
    by_cases hxy : x < y
    · simp [hxy]
    · by_cases hyx : y < x
      · simp [hyx]
      · have hxe : x = y := by omega
        subst hxe
        have : xs ≠ ys := fun e => h (by rw [e])
        simpa [hxy] using natsLt_total xs ys this

theorem vLt_irrefl (a : Value) : vLt a a = false := by
  cases a <;> simp [vLt, strLt_irrefl, natsLt_irrefl]

theorem vLt_trans (a b c : Value) (h1 : vLt a b = true) (h2 : vLt b c = true) : vLt a c = true := by
  cases a <;> cases b <;> cases c <;> simp [vLt] at h1 h2 ⊢
  · omega
  · exact strLt_trans _ _ _ h1 h2
  · exact natsLt_trans _ _ _ h1 h2
  · rcases h1 with h1 | ⟨e1, h1⟩ <;> rcases h2 with h2 | ⟨e2, h2⟩
    · left; omega
    · left; omega
    · left; omega
    · right; exact ⟨by omega, strLt_trans _ _ _ h1 h2⟩

theorem vLt_total (a b : Value) (h : a ≠ b) : vLt a b = true ∨ vLt b a = true := by
  cases a <;> cases b <;> simp [vLt] at h ⊢
  · omega
  · exact strLt_total _ _ h
  · exact natsLt_total _ _ h
  · rename_i c1 s1 c2 s2
    by_cases hc : c1 = c2
    · rcases strLt_total s1 s2 (h hc) with h3 | h3
      · exact Or.inl (Or.inr ⟨hc, h3⟩)
      · exact Or.inr (Or.inr ⟨hc.symm, h3⟩)
    · rcases Nat.lt_or_gt_of_ne hc with h3 | h3
      · exact Or.inl (Or.inl h3)
      · exact Or.inr (Or.inl h3)

theorem vLt_asymm (a b : Value) (h : vLt a b = true) : vLt b a = false := by
  cases hb : vLt b a with
  | false => rfl
  | true =>
    have := vLt_trans a b a h hb
    rw [vLt_irrefl] at this
    cases this

/-- neither before the other: the two cells are the same -/
theorem vLt_eq_of_not (a b : Value) (h1 : vLt a b = false) (h2 : vLt b a = false) : a = b := by
  apply Classical.byContradiction
  intro hne
  rcases vLt_total a b hne with h | h
  · rw [h] at h1; cases h1
  · rw [h] at h2; cases h2

theorem rowBefore_asymm : ∀ (o : OrderSpec) (r s : Cells), rowBefore o r s = some true →
    rowBefore o s r = some false
  | [], r, s, h => by simp [rowBefore] at h
  | (k, desc) :: rest, r, s, h => by
    simp only [rowBefore] at h ⊢
    cases hr : r.get? k with
    | none => simp [hr] at h
    | some a =>
      cases hs : s.get? k with
      | none => simp [hr, hs] at h
      | some b =>
        simp only [hr, hs] at h ⊢
        by_cases hab : vLt a b = true
        · simp only [hab, if_true, Option.some.injEq, Bool.not_eq_true'] at h
          simp [vLt_asymm a b hab, hab, h]
        · have hab' : vLt a b = false := by simpa using hab
          simp only [hab', Bool.false_eq_true, if_false] at h
          by_cases hba : vLt b a = true
          · simp only [hba, if_true, Option.some.injEq] at h
            simp [hba, h]
          · have hba' : vLt b a = false := by simpa using hba
            simp only [hba', Bool.false_eq_true, if_false] at h
            simp only [hba', hab', Bool.false_eq_true, if_false]
            exact rowBefore_asymm rest r s h

theorem rowBefore_trans : ∀ (o : OrderSpec) (r s t : Cells), rowBefore o r s = some true →
    rowBefore o s t = some true → rowBefore o r t = some true
  | [], r, s, t, h, _ => by simp [rowBefore] at h
  | (k, desc) :: rest, r, s, t, h1, h2 => by
    simp only [rowBefore] at h1 h2 ⊢
    cases hr : r.get? k with
    | none => simp [hr] at h1
    | some a =>
      cases hs : s.get? k with
      | none => simp [hr, hs] at h1
      | some b =>
        cases ht : t.get? k with
        | none => simp [hs, ht] at h2
        | some c =>
          simp only [hr, hs, ht] at h1 h2 ⊢
          by_cases hab : vLt a b = true
          · simp only [hab, if_true, Option.some.injEq, Bool.not_eq_true'] at h1
            subst h1
            by_cases hbc : vLt b c = true
            · simp [vLt_trans a b c hab hbc]
            · have hbc' : vLt b c = false := by simpa using hbc
              simp only [hbc', Bool.false_eq_true, if_false] at h2
              by_cases hcb : vLt c b = true
              · simp [hcb] at h2
              · have hcb' : vLt c b = false := by simpa using hcb
                have : b = c := vLt_eq_of_not b c hbc' hcb'
                subst this
                simp [hab]
          · have hab' : vLt a b = false := by simpa using hab
            simp only [hab', Bool.false_eq_true, if_false] at h1
            by_cases hba : vLt b a = true
            · simp only [hba, if_true, Option.some.injEq] at h1
              subst h1
              by_cases hbc : vLt b c = true
              · simp [hbc] at h2
              · have hbc' : vLt b c = false := by simpa using hbc
                simp only [hbc', Bool.false_eq_true, if_false] at h2
                by_cases hcb : vLt c b = true
                · have hca := vLt_trans c b a hcb hba
                  simp [vLt_asymm c a hca, hca]
                · have hcb' : vLt c b = false := by simpa using hcb
                  have : b = c := vLt_eq_of_not b c hbc' hcb'
                  subst this
                  simp [hab', hba]
            · have hba' : vLt b a = false := by simpa using hba
              simp only [hba', Bool.false_eq_true, if_false] at h1
              have : a = b := vLt_eq_of_not a b hab' hba'
              subst this
              by_cases hac : vLt a c = true
              · simp only [hac, if_true] at h2 ⊢
                exact h2
              · have hac' : vLt a c = false := by simpa using hac
                simp only [hac', Bool.false_eq_true, if_false] at h2 ⊢
                by_cases hca : vLt c a = true
                · simp only [hca, if_true] at h2 ⊢
                  exact h2
                · have hca' : vLt c a = false := by simpa using hca
                  simp only [hca', Bool.false_eq_true, if_false] at h2 ⊢
                  exact rowBefore_trans rest r s t h1 h2

/-- the rows are in the order `o`: no row comes strictly before an earlier one -/
def SortedRows (o : OrderSpec) (l : List Cells) : Prop :=
  List.Pairwise (fun r s => rowBefore o s r ≠ some true) l

theorem insertRow_sorted (o : OrderSpec) (r : Cells) : ∀ (l out : List Cells), SortedRows o l →
    insertRow o r l = some out → SortedRows o out
  | [], out, _, h => by simp [insertRow] at h; subst h; simp [SortedRows]
  | s :: ss, out, hs, h => by
    unfold SortedRows at hs ⊢
    rw [List.pairwise_cons] at hs
    simp only [insertRow] at h
    cases hb : rowBefore o r s with
    | none => simp [hb] at h
    | some b =>
      cases b with
      | true =>
        simp [hb] at h
        subst h
        rw [List.pairwise_cons, List.pairwise_cons]
        refine ⟨?_, hs⟩
        intro t ht
        rcases List.mem_cons.mp ht with rfl | ht
        · rw [rowBefore_asymm o r t hb]; simp
        · intro htr
          exact hs.1 t ht (rowBefore_trans o t r s htr hb)
      | false =>
        simp only [hb] at h
        cases hi : insertRow o r ss with
        | none => simp [hi] at h
        | some out' =>
          simp [hi] at h
          subst h
          rw [List.pairwise_cons]
          refine ⟨?_, insertRow_sorted o r ss out' hs.2 hi⟩
          intro t ht
          have hp := (insertRow_perm o r ss out' hi).mem_iff.mp ht
          rcases List.mem_cons.mp hp with rfl | ht'
          · rw [hb]; simp
          · exact hs.1 t ht'

theorem sortRows_sorted (o : OrderSpec) : ∀ (l out : List Cells), sortRows o l = some out → SortedRows o out
  | [], out, h => by simp [sortRows] at h; subst h; simp [SortedRows]
  | r :: rs, out, h => by
    simp only [sortRows] at h
    cases hs : sortRows o rs with
    | none => simp [hs] at h
    | some ss =>
      simp only [hs] at h
      exact insertRow_sorted o r ss out (sortRows_sorted o rs ss hs) h

end SqlFilter
