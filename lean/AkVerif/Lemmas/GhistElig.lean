import AkVerif.Lemmas.GhistFinal
import AkVerif.Lemmas.GhistBumps
/-!
C07, "a parent build whose pin moves is reported": every eligible commit (tagged or head, new in the branch) either
became a build, or it does not match and the bumps computed for it — from its pins and the bumps of the (at most
one) parent build found — are all trivial.
-/
namespace Ghist
open Ak

section
variable {π β : Type} {h : Hist π}

/-- why an eligible commit is not a build -/
def SkippedOk (h : Hist π) (pl : Plug π β) (L : List Nat → Prop) (builds : List (RB β)) (e : Nat) : Prop :=
  h.isMatch e = false ∧
  (L [] ∨ ∃ (cm : Commit π) (pbs : List (RB β)) (bumps : β) (rel : List Nat), L rel ∧ h.commits[e]? = some cm ∧
    pbs.length ≤ 1 ∧ (∀ pb ∈ pbs, pb ∈ builds) ∧
    pl.mkBumps rel cm.pins (pbs.map (·.bumps)) = .ok bumps ∧ pl.nonTrivial bumps = false)

def EligOk (h : Hist π) (pl : Plug π β) (L : List Nat → Prop) (rp0 : Repo β) (head : Nat) (st : St β) : Prop :=
  ∀ e cl, classify st.rp e = some cl → classify rp0 e = none → Elig h head e →
    (∃ b ∈ st.rp.builds, isCurBuild st.rp b.iid = true ∧ ∃ rc, st.rp.rcs[b.iid]? = some rc ∧ rc.commit = e) ∨
    SkippedOk h pl L st.rp.builds e

theorem SkippedOk.mono {pl : Plug π β} {L : List Nat → Prop} {bs bs' : List (RB β)} (hsub : ∀ b ∈ bs, b ∈ bs') {e : Nat}
    (hs : SkippedOk h pl L bs e) : SkippedOk h pl L bs' e := by
  obtain ⟨h1, h2⟩ := hs
  refine ⟨h1, ?_⟩
  rcases h2 with h2 | ⟨cm, pbs, bumps, rel, hl, h3, h4, h5, h6, h7⟩
  · exact Or.inl h2
  · exact Or.inr ⟨cm, pbs, bumps, rel, hl, h3, h4, fun pb hpb => hsub pb (h5 pb hpb), h6, h7⟩

theorem buildsOf_length {rp : Repo β} {is : List Nat} {bs : List (RB β)} (hb : buildsOf rp is = some bs) :
    bs.length = is.length := by
  have := (buildsOf_spec hb).1
  rw [← this]; simp [iids]

theorem finish_eligOk {pl : Plug π β} {L : List Nat → Prop} {head : Nat} {st st' : St β} {c : Nat} {cm : Commit π}
    {fr : List Nat} {rp0 : Repo β} (w : WF h st) (ok : EligOk h pl L rp0 head st) (hcl : classify st.rp c = none)
    (hcm : h.commits[c]? = some cm) {rel : List Nat} (hL : L rel) (hf : finish pl head rel st c cm fr = .ok st') :
    EligOk h pl L rp0 head st' := by
  obtain ⟨rp, br⟩ := st
  have hpre := finish_prefix hf
  -- generic step: old commits keep their reason, the new commit gets `hnew`
  have step : (∀ b ∈ rp.builds, b ∈ st'.rp.builds) →
      (∀ i, isCurBuild rp i = true → isCurBuild st'.rp i = true) →
      (Elig h head c → (∃ b ∈ st'.rp.builds, isCurBuild st'.rp b.iid = true ∧
          ∃ rc, st'.rp.rcs[b.iid]? = some rc ∧ rc.commit = c) ∨ SkippedOk h pl L st'.rp.builds c) →
      EligOk h pl L rp0 head st' := by
    intro hsub hcur hnew e cl he h0 hel
    by_cases hec : e = c
    · subst hec; exact hnew hel
    · rw [finish_classify_ne hf e hec] at he
      rcases ok e cl he h0 hel with ⟨b, hb, hcb, rc, hrc, hce⟩ | hs
      · exact Or.inl ⟨b, hsub b hb, hcur _ hcb, rc, getElem?_prefix hpre hrc, hce⟩
      · exact Or.inr (hs.mono hsub)
  have hmatch := Hist.isMatch_of_get hcm
  have htag := Hist.tagged_of_get (h := h) hcm
  cases finish_cases hf with
  | irrelevant hm hrel _ =>
    exact step (fun b hb => hb) (fun i hi => hi)
      (fun _ => Or.inr ⟨by rw [hmatch]; exact hm, Or.inl (by rw [← hrel]; exact hL)⟩)
  | plain htags hnh _ _ =>
    have hb : (rp.addPlain c fr).builds = rp.builds := by simp only [Repo.addPlain]; split <;> rfl
    have hcur : ∀ i, isCurBuild (rp.addPlain c fr) i = isCurBuild rp i := by
      intro i; simp only [Repo.addPlain]; split <;> rfl
    refine step (fun b hb' => by rw [hb]; exact hb') (fun i hi => by rw [hcur]; exact hi) ?_
    rintro (h1 | h1)
    · rw [htag, htags] at h1; cases h1
    · exact absurd h1 hnh
  | plainMatch htags hnh _ =>
    refine step (fun b hb' => hb') (fun i hi => hi) ?_
    rintro (h1 | h1)
    · rw [htag, htags] at h1; cases h1
    · exact absurd h1 hnh
  | skip bpar new pb pbs bumps _ _ _ hm _ hpb hpbs hmk hnt =>
    have hb : (rp.addPlain c fr).builds = rp.builds := by simp only [Repo.addPlain]; split <;> rfl
    have hcur : ∀ i, isCurBuild (rp.addPlain c fr) i = isCurBuild rp i := by
      intro i; simp only [Repo.addPlain]; split <;> rfl
    refine step (fun b hb' => by simp only [St.skipBuild]; rw [hb]; exact hb')
      (fun i hi => by simp only [St.skipBuild]; rw [hcur]; exact hi) ?_
    intro _
    refine Or.inr ⟨by rw [hmatch]; exact hm, Or.inr ⟨cm, pbs, bumps, rel, hL, hcm, ?_, ?_, hmk, hnt⟩⟩
    · rw [buildsOf_length hpbs]; exact hpb
    · intro x hx
      simp only [St.skipBuild]; rw [hb]
      exact (buildsOf_spec hpbs).2 x hx
  | build bpar new pb pbs bumps bn na =>
    have hnp : rp.rcs.length ∉ rp.prevBuilds := fun hm' => by have := w.prevLt _ hm'; simp only at this; omega
    let rc : RC := { commit := c, parents := fr, explicit := cm.isMatch, bns := buildNums cm (c == head), time := cm.time }
    let b : RB β := { iid := rp.rcs.length, rcommit := some rp.rcs.length, parents := pb,
                      rcommits := new ++ [rp.rcs.length], bumps := bumps, bn := bn }
    have hcur1 : ∀ i, isCurBuild (St.addBuild ⟨rp, br⟩ rc bn bpar new pb bumps na).rp i =
        (isCurBuild rp i || i == rp.rcs.length) := fun i => isCurBuild_push (rp.addRC rc) b hnp i
    refine step (fun b' hb' => by simp only [St.addBuild, Repo.addRC]; exact List.mem_append_left _ hb')
      (fun i hi => by rw [hcur1, hi]; rfl) ?_
    intro _
    refine Or.inl ⟨b, by simp [St.addBuild, Repo.addRC, b], by rw [hcur1]; simp [b], rc, ?_, rfl⟩
    simp [St.addBuild, Repo.addRC, b, rc]

theorem visit_eligOk (hT : h.Topo) {pl : Plug π β} {L : List Nat → Prop} (hR : RelInv h pl L) {head : Nat}
    {rp0 : Repo β} {fuel : Nat} {s s' : St β}
    {acc acc' : List Nat} {c : Nat} (w : WF h s) (hacc : ∀ r ∈ acc, r < s.rp.rcs.length)
    (ok : EligOk h pl L rp0 head s) {rel : List Nat} (hL : L rel)
    (hv : visit h pl head fuel rel (s, acc) c = .ok (s', acc')) :
    EligOk h pl L rp0 head s' := by
  have H : VisitHypsL h pl head (fun s => WF h s ∧ EligOk h pl L rp0 head s)
      (fun s _ acc => ∀ r ∈ acc, r < s.rp.rcs.length) (fun s s' => s.rp.rcs.length ≤ s'.rp.rcs.length)
      (fun _ => True) L :=
    { Rrefl := (wf_hyps h pl head).Rrefl
      Rtrans := (wf_hyps h pl head).Rtrans
      Qmono := by
        intro s s' ds acc hP hP' hR hQ
        exact (wf_hyps h pl head).Qmono (ds := ds) hP.1 hP'.1 hR hQ
      Qnil := fun s hP => (wf_hyps h pl head).Qnil s hP.1
      Qcls := by
        intro s ds acc c cl hP hQ hV hc
        exact (wf_hyps h pl head).Qcls (ds := ds) hP.1 hQ hV hc
      Vstep := fun _ _ _ => trivial
      Lstep := fun hl _ hcm => hR.step _ _ _ hl hcm
      Hfin := by
        intro rel s c cm fr s' hl hP _ hcl hcm hQ hf
        obtain ⟨w', hle⟩ := finish_wf hP.1 hQ hcl hcm hf
        exact ⟨⟨w', finish_eligOk hP.1 hP.2 hcl hcm hl hf⟩, hle⟩ }
  exact (visit_indL hT H fuel s [] acc c s' acc' hL ⟨w, ok⟩ hacc trivial hv).1.2

/-- per branch: an eligible commit of the branch is one of its builds, or its bumps are trivial -/
def BrElig (h : Hist π) (pl : Plug π β) (L : List Nat → Prop) (pre : List Branch) (b : Branch) (rcs : List RC) (builds : List (RB β))
    (rb : RBranch β) : Prop :=
  ∀ e, SpecBuild h pre b e →
    (∃ bd ∈ rb.rbuilds, bd.rcommit = some bd.iid ∧ ∃ rc, rcs[bd.iid]? = some rc ∧ rc.commit = e) ∨
    SkippedOk h pl L builds e

theorem readBranch_elig (hT : h.Topo) {pl : Plug π β} {L : List Nat → Prop} (hR : RelInv h pl L) {pre : List Branch} {rp0 : Repo β} {b : Branch}
    {rp' : Repo β} {rb : RBranch β} (inv : RepoInv h pre rp0)
    (hr : readBranch h pl pre.isEmpty rp0 b = .ok (rp', rb)) : BrElig h pl L pre b rp'.rcs rp'.builds rb := by
  obtain ⟨inv', _, _⟩ := readBranch_sem hT inv hr
  obtain ⟨hc0, st, rheads, hhc0, hv, he⟩ := readBranch_inv hr
  obtain ⟨w, _, _⟩ := visit_wf hT inv.wf (by simp) hv
  have hn := visit_buildsNormal hT inv.normal hv
  have ok0 : EligOk h pl L rp0 b.head ⟨rp0, Br.empty⟩ := by
    intro e cl h1 h2; simp only at h1; rw [h2] at h1; cases h1
  have ok := visit_eligOk hT hR inv.wf (by simp) ok0 (hR.init _ _ hhc0) hv
  have hs := endBranch_spec he
  obtain ⟨seen, curBuilds, _, hcb, hrbuilds, _⟩ := hs.seen
  have hcc : ∀ c, classify rp' c = classify st.rp c := classify_congr hs.done hs.visited hs.selected
  intro e ⟨hel, hanc, hno⟩
  have h0 : classify rp0 e = none := by
    cases hc0 : classify rp0 e with
    | none => rfl
    | some cl0 =>
      obtain ⟨b', hb', hab⟩ := (inv.cover e).mp ⟨cl0, hc0⟩
      exact absurd hab (hno b' hb')
  obtain ⟨cl, hcl⟩ := (inv'.cover e).mpr ⟨b, by simp, hanc⟩
  rw [hcc] at hcl
  rcases ok e cl hcl h0 hel with ⟨bd, hbd, hcur, rc, hrc, hce⟩ | hsk
  · left
    have hbdcur : bd ∈ curBuilds := buildsOf_mem w.bldInc hcb bd hbd ((w.curIff bd.iid).mpr hcur)
    have hmem : bd ∈ rb.rbuilds := by
      rcases hrbuilds with h1 | ⟨fake, h1, _, _⟩
      · rw [h1]; exact hbdcur
      · rw [h1]; exact List.mem_append_left _ hbdcur
    exact ⟨bd, hmem, hn bd hbd, rc, by rw [hs.rcs]; exact hrc, hce⟩
  · right; rw [hs.builds]; exact hsk

theorem BrElig.ext {pl : Plug π β} {L : List Nat → Prop} {pre : List Branch} {b : Branch} {rcs : List RC} {builds : List (RB β)}
    {rb : RBranch β} (s : BrElig h pl L pre b rcs builds rb) (ext : List RC) {builds' : List (RB β)}
    (hsub : ∀ x ∈ builds, x ∈ builds') : BrElig h pl L pre b (rcs ++ ext) builds' rb := by
  intro e he
  rcases s e he with ⟨bd, h1, h2, rc, h3, h4⟩ | hsk
  · exact Or.inl ⟨bd, h1, h2, rc, by rw [List.getElem?_append_left (List.getElem?_eq_some_iff.mp h3).1]; exact h3, h4⟩
  · exact Or.inr (hsk.mono hsub)

theorem rgraph_elig (hT : h.Topo) {pl : Plug π β} {L : List Nat → Prop} (hR : RelInv h pl L) {g : Graph β} {mt : Option Nat} (hg : rgraphNW h pl mt = .ok g) :
    ∀ j b rb, (branchesOf h)[j]? = some b → g.all[j]? = some rb →
      BrElig h pl L ((branchesOf h).take j) b g.rcs g.builds rb := by
  unfold rgraphNW at hg
  split at hg
  · cases hg
  · rename_i rp rbs hr
    cases hg
    let K : Repo β → Repo β → Prop := fun rp rp' =>
      (∃ ext, rp'.rcs = rp.rcs ++ ext) ∧ ∀ x ∈ rp.builds, x ∈ rp'.builds
    have hstep : ∀ (pre : List Branch) (rp : Repo β) (b : Branch) (rp' : Repo β) (rb : RBranch β),
        RepoInv h pre rp → readBranch h pl pre.isEmpty rp b = .ok (rp', rb) →
        RepoInv h (pre ++ [b]) rp' ∧ BrElig h pl L pre b rp'.rcs rp'.builds rb ∧ K rp rp' := by
      intro pre rp b rp' rb inv hrb
      obtain ⟨h1, _, h3⟩ := readBranch_sem hT inv hrb
      refine ⟨h1, readBranch_elig hT hR inv hrb, h3, ?_⟩
      -- builds are only appended
      obtain ⟨hc0, st, rheads, hhc0, hv, he⟩ := readBranch_inv hrb
      have hs := endBranch_spec he
      intro x hx
      rw [hs.builds]
      have H : VisitHyps h pl b.head (fun _ => True) (fun _ _ _ => True)
          (fun s s' => ∀ x ∈ s.rp.builds, x ∈ s'.rp.builds) (fun _ => True) :=
        { Rrefl := fun _ _ hx => hx, Rtrans := fun h1 h2 x hx => h2 x (h1 x hx)
          Qmono := fun _ _ _ _ => trivial, Qnil := fun _ _ => trivial, Qcls := fun _ _ _ _ => trivial
          Vstep := fun _ _ _ => trivial
          Hfin := by
            intro rel s c cm fr s' _ _ _ _ _ hf
            refine ⟨trivial, ?_⟩
            cases finish_cases hf with
            | irrelevant => exact fun x hx => hx
            | plain => simp only [Repo.addPlain]; split <;> exact fun x hx => hx
            | plainMatch => exact fun x hx => hx
            | skip bpar new pb pbs bumps => simp only [St.skipBuild, Repo.addPlain]; split <;> exact fun x hx => hx
            | build bpar new pb pbs bumps bn na =>
              intro x hx; simp only [St.addBuild, Repo.addRC]; exact List.mem_append_left _ hx }
      exact (visit_ind hT H _ _ [] [] _ _ _ trivial trivial trivial hv).2.2 x hx
    obtain ⟨_, _, hlen, hF⟩ := readBranches_ind2 (RepoInv h)
      (fun pre b rp' rb => BrElig h pl L pre b rp'.rcs rp'.builds rb) K
      (fun rp => ⟨⟨[], by simp⟩, fun _ hx => hx⟩)
      (by
        rintro a b c ⟨⟨e1, h1⟩, s1⟩ ⟨⟨e2, h2⟩, s2⟩
        exact ⟨⟨e1 ++ e2, by rw [h2, h1]; simp⟩, fun x hx => s2 x (s1 x hx)⟩)
      hstep (branchesOf h) [] Repo.empty rp rbs repoInv_empty hr
    intro j b rb hb hrb
    obtain ⟨rpj, h1, ⟨⟨ext, hext⟩, hsub⟩⟩ := hF j b rb hb hrb
    simp only [List.nil_append] at h1
    rw [hext]
    exact h1.ext ext hsub

end

end Ghist
