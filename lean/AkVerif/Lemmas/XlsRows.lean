import AkVerif.Lemmas.Xls
/-!
Helper lemmas for C18, second part: the rows of a table (`dataRows`, `iterTable`), the ladder
substitution (`fillGo`, `fillRow`, `curRow`) and the filled sheet (`fillRows`, `fillSheet`).
-/
namespace Xls
open Ak

/-! ## the ladder substitution in one row -/

/-- the cells `p .. j` of `row` exist and are all blank: cell `j` is "same as above" -/
def BlankRun (p : Nat) (row : Row) (j : Nat) : Prop :=
  p ≤ j ∧ ∀ j', p ≤ j' → j' ≤ j → ∃ c', row[j']? = some c' ∧ c'.val.isEmpty = true

theorem fillGo_spec (prev : Row) :
    ∀ (cs : List Cell) (i : Nat) (r : List Cell), fillGo prev i cs = .ok r →
      r.length = cs.length ∧
      ∀ (k : Nat), k < cs.length →
        ((∀ k', k' ≤ k → ∃ c', cs[k']? = some c' ∧ c'.val.isEmpty = true) →
          r[k]? = prev[i + k]? ∧ (prev[i + k]?).isSome = true) ∧
        ((∃ k' c', k' ≤ k ∧ cs[k']? = some c' ∧ c'.val.isEmpty = false) → r[k]? = cs[k]?) := by
  intro cs
  induction cs with
  | nil => intro i r h; simp [fillGo] at h; subst h; simp
  | cons c cs ih =>
    intro i r h
    simp only [fillGo] at h
    by_cases hc : c.val.isEmpty = true
    · simp only [hc, if_true] at h
      split at h
      · cases h
      · rename_i pc hpc
        split at h
        · cases h
        · rename_i r' hr'
          cases h
          obtain ⟨h1, h2⟩ := ih (i + 1) r' hr'
          refine ⟨by simp [h1], ?_⟩
          intro k hk
          cases k with
          | zero =>
            refine ⟨fun _ => by simp [hpc], ?_⟩
            rintro ⟨k', c', hk', hc', hne⟩
            have : k' = 0 := by omega
            subst this
            simp at hc'; subst hc'
            rw [hc] at hne; cases hne
          | succ k =>
            have hk2 : k < cs.length := by simpa using hk
            obtain ⟨ha, hb⟩ := h2 k hk2
            constructor
            · intro hall
              have := ha (fun k' hk' => by simpa using hall (k' + 1) (by omega))
              have e : i + (k + 1) = i + 1 + k := by omega
              rw [e]; simpa using this
            · rintro ⟨k', c', hk', hc', hne⟩
              cases k' with
              | zero => simp at hc'; subst hc'; rw [hc] at hne; cases hne
              | succ k' =>
                have := hb ⟨k', c', by omega, by simpa using hc', hne⟩
                simpa using this
    · simp only [hc] at h
      simp only [Bool.false_eq_true, if_false] at h
      cases h
      refine ⟨rfl, ?_⟩
      intro k hk
      refine ⟨?_, fun _ => rfl⟩
      intro hall
      obtain ⟨c', hc', he⟩ := hall 0 (by omega)
      simp at hc'; subst hc'
      exact absurd he hc

theorem fillRow_spec (p : Nat) (prev row cur : Row) (h : fillRow p prev row = .ok cur) :
    cur.length = row.length ∧
    (∀ j, BlankRun p row j → cur[j]? = prev[j]? ∧ (prev[j]?).isSome = true) ∧
    (∀ j, ¬ BlankRun p row j → cur[j]? = row[j]?) := by
  unfold fillRow at h
  split at h
  · cases h
  · rename_i r hr
    cases h
    obtain ⟨h1, h2⟩ := fillGo_spec prev (row.drop p) p r hr
    have hlen : (row.take p ++ r).length = row.length := by
      simp [h1]; omega
    refine ⟨hlen, ?_, ?_⟩
    · rintro j ⟨hpj, hall⟩
      obtain ⟨cj, hcj, _⟩ := hall j hpj (Nat.le_refl _)
      have hjlt : j < row.length := getElem?_lt_of_some _ _ _ hcj
      have hp : p ≤ row.length := by omega
      have htake : (row.take p).length = p := by simp; omega
      have hk : j - p < (row.drop p).length := by simp; omega
      have := (h2 (j - p) hk).1 (by
        intro k' hk'
        obtain ⟨c', hc', he⟩ := hall (p + k') (by omega) (by omega)
        exact ⟨c', by simpa using hc', he⟩)
      rw [List.getElem?_append_right (by omega), htake]
      have e : p + (j - p) = j := by omega
      rw [e] at this
      exact this
    · intro j hnb
      by_cases hjp : j < p
      · by_cases hjl : j < row.length
        · rw [List.getElem?_append_left (by simp; omega)]
          simp [hjp]
        · have h1' : (row.take p ++ r)[j]? = none := List.getElem?_eq_none (by omega)
          have h2' : row[j]? = none := List.getElem?_eq_none (by omega)
          rw [h1', h2']
      · have hpj : p ≤ j := by omega
        by_cases hjl : j < row.length
        · have hp : p ≤ row.length := by omega
          have htake : (row.take p).length = p := by simp; omega
          have hk : j - p < (row.drop p).length := by simp; omega
          -- some cell in `p .. j` is not blank
          have hex : ∃ j' c', p ≤ j' ∧ j' ≤ j ∧ row[j']? = some c' ∧ c'.val.isEmpty = false := by
            apply Classical.byContradiction
            intro hno
            apply hnb
            refine ⟨hpj, ?_⟩
            intro j' h1' h2'
            have hlt : j' < row.length := by omega
            refine ⟨row[j'], by simp [hlt], ?_⟩
            cases he : row[j'].val.isEmpty with
            | true => rfl
            | false => exact absurd ⟨j', row[j'], h1', h2', by simp [hlt], he⟩ hno
          obtain ⟨j', c', h1', h2', h3', h4'⟩ := hex
          have := (h2 (j - p) hk).2 ⟨j' - p, c', by omega, by
            have e : p + (j' - p) = j' := by omega
            simp [e, h3'], h4'⟩
          rw [List.getElem?_append_right (by omega), htake, this]
          have e : p + (j - p) = j := by omega
          simp [e]
        · have h1' : (row.take p ++ r)[j]? = none := List.getElem?_eq_none (by omega)
          have h2' : row[j]? = none := List.getElem?_eq_none (by omega)
          rw [h1', h2']

/-- a cell that is not blank is never replaced -/
theorem fillRow_keeps (p : Nat) (prev row cur : Row) (h : fillRow p prev row = .ok cur)
    (j : Nat) (c : Cell) (hc : row[j]? = some c) (hne : c.val.isEmpty = false) :
    cur[j]? = some c := by
  obtain ⟨_, _, h3⟩ := fillRow_spec p prev row cur h
  rw [h3 j, hc]
  rintro ⟨hpj, hall⟩
  obtain ⟨c', hc', he⟩ := hall j hpj (Nat.le_refl _)
  rw [hc] at hc'; cases hc'
  rw [hne] at he; cases he

theorem curRow_keeps (p : Option Nat) (prev : Option Row) (row cur : Row)
    (h : curRow p prev row = .ok cur) :
    cur.length = row.length ∧
    ∀ (j : Nat) (c : Cell), row[j]? = some c → c.val.isEmpty = false → cur[j]? = some c := by
  unfold curRow at h
  split at h
  · rename_i p' pr
    exact ⟨(fillRow_spec p' pr row cur h).1, fillRow_keeps p' pr row cur h⟩
  · cases h
    exact ⟨rfl, fun j c hc _ => hc⟩

theorem rowEmpty_false_iff (r : Row) :
    rowEmpty r = false ↔ ∃ (j : Nat) (c : Cell), r[j]? = some c ∧ c.val.isEmpty = false := by
  unfold rowEmpty
  constructor
  · intro h
    have : ¬ (r.all fun c => c.val.isEmpty) = true := by simp [h]
    rw [List.all_eq_true] at this
    have : ∃ c, c ∈ r ∧ c.val.isEmpty = false := by
      apply Classical.byContradiction
      intro hno
      apply this
      intro c hc
      cases he : c.val.isEmpty with
      | true => rfl
      | false => exact absurd ⟨c, hc, he⟩ hno
    obtain ⟨c, hc, he⟩ := this
    obtain ⟨j, hj⟩ := List.getElem?_of_mem hc
    exact ⟨j, c, hj, he⟩
  · rintro ⟨j, c, hj, he⟩
    cases hall : (r.all fun c => c.val.isEmpty) with
    | false => rfl
    | true =>
      rw [List.all_eq_true] at hall
      have := hall c (List.mem_of_getElem? hj)
      rw [he] at this; cases this

/-- the substituted row is a data row whenever the row itself is -/
theorem endFires_curRow (stop : Stop) (p : Option Nat) (prev : Option Row) (row cur : Row)
    (he : endFires stop row = .ok false) (h : curRow p prev row = .ok cur) :
    endFires stop cur = .ok false := by
  obtain ⟨hlen, hkeep⟩ := curRow_keeps p prev row cur h
  cases stop with
  | blankAll =>
    simp only [endFires] at he ⊢
    have he' : rowEmpty row = false := by
      cases hr : rowEmpty row with
      | false => rfl
      | true => rw [hr] at he; cases he
    obtain ⟨j, c, hj, hne⟩ := (rowEmpty_false_iff row).mp he'
    rw [(rowEmpty_false_iff cur).mpr ⟨j, c, hkeep j c hj hne, hne⟩]
  | blankFirst =>
    cases row with
    | nil => simp [endFires] at he
    | cons c cs =>
      simp only [endFires] at he
      have hne : c.val.isEmpty = false := by
        cases hr : c.val.isEmpty with
        | false => rfl
        | true => rw [hr] at he; cases he
      have h0 := hkeep 0 c (by simp) hne
      cases cur with
      | nil => simp at h0
      | cons c' cs' =>
        simp at h0; subst h0
        simp [endFires, hne]

/-! ## the rows of a table -/

/-- the substituted rows of a block of data rows (`prev` = the substituted row before the block) -/
def curRows (p : Option Nat) : Option Row → List Row → Except Err (List Row)
  | _, [] => .ok []
  | prev, row :: rest =>
    match curRow p prev row with
    | .error e => .error e
    | .ok cur =>
      match curRows p (some cur) rest with
      | .error e => .error e
      | .ok r => .ok (cur :: r)

theorem curRows_plain : ∀ (data : List Row) (prev : Option Row), curRows none prev data = .ok data := by
  intro data
  induction data with
  | nil => intro prev; rfl
  | cons row rest ih => intro prev; simp [curRows, curRow, ih]

theorem curRows_step (p : Option Nat) :
    ∀ (data : List Row) (prev : Option Row) (curs : List Row), curRows p prev data = .ok curs →
      curs.length = data.length ∧
      (∀ row, data[0]? = some row → ∃ cur, curs[0]? = some cur ∧ curRow p prev row = .ok cur) ∧
      (∀ (i : Nat) row cur, data[i + 1]? = some row → curs[i]? = some cur →
        ∃ cur', curs[i + 1]? = some cur' ∧ curRow p (some cur) row = .ok cur') := by
  intro data
  induction data with
  | nil => intro prev curs h; simp [curRows] at h; subst h; simp
  | cons row rest ih =>
    intro prev curs h
    simp only [curRows] at h
    split at h
    · cases h
    · rename_i cur hcur
      split at h
      · cases h
      · rename_i r hr
        cases h
        obtain ⟨h1, h2, h3⟩ := ih (some cur) r hr
        refine ⟨by simp [h1], ?_, ?_⟩
        · intro row' hrow'
          simp at hrow'; subst hrow'
          exact ⟨cur, by simp, hcur⟩
        · intro i row' cur' hrow' hcur'
          cases i with
          | zero =>
            simp at hcur'; subst hcur'
            simpa using h2 row' (by simpa using hrow')
          | succ i =>
            simpa using h3 i row' cur' (by simpa using hrow') (by simpa using hcur')

/-- the substituted row the next row is compared with -/
def lastPrev (prev : Option Row) (curs : List Row) : Option Row :=
  match curs.getLast? with
  | some c => some c
  | none => prev

theorem lastPrev_cons (prev : Option Row) (cur : Row) (curs : List Row) :
    lastPrev prev (cur :: curs) = lastPrev (some cur) curs := by
  cases curs with
  | nil => simp [lastPrev]
  | cons c r =>
    simp only [lastPrev, List.getLast?_cons_cons]
    cases hg : (c :: r).getLast? with
    | some x => rfl
    | none => simp at hg

/-- the call index (number of earlier `__init__` runs of the rule set) of each substituted row -/
def callIdxs (numId : Nat) (slots : List Slot) : Nat → List Row → List Nat
  | _, [] => []
  | k, cur :: rest => k :: callIdxs numId slots (nextK numId slots k cur) rest

/-- … and after all of them -/
def kAfter (numId : Nat) (slots : List Slot) (k : Nat) (curs : List Row) : Nat :=
  curs.foldl (nextK numId slots) k

theorem dataRows_spec {V : Type} (cv : Conv V) (cfg : Cfg V) (slots : List Slot) (p : Option Nat) :
    ∀ (rows : List Row) (k : Nat) (prev : Option Row) (objs : List (Option (Obj V)))
      (err : Option Err),
      dataRows cv cfg slots p k prev rows = ⟨objs, err⟩ →
      ∃ data tail curs, rows = data ++ tail ∧
        (∀ r ∈ data, endFires cfg.stop r = .ok false) ∧
        curRows p prev data = .ok curs ∧
        curs.length = objs.length ∧
        (∀ (i : Nat) cur kk o, curs[i]? = some cur →
          (callIdxs cfg.numId slots k curs)[i]? = some kk → objs[i]? = some o →
          construct cv cfg.numId cfg.rules slots kk cur = .ok o) ∧
        (err = none → tail = [] ∨ ∃ t rest, tail = t :: rest ∧ endFires cfg.stop t = .ok true) ∧
        (∀ e, err = some e → ∃ t rest, tail = t :: rest ∧
          (endFires cfg.stop t = .error e ∨
           (endFires cfg.stop t = .ok false ∧
            (curRow p (lastPrev prev curs) t = .error e ∨
             ∃ cur, curRow p (lastPrev prev curs) t = .ok cur ∧
               construct cv cfg.numId cfg.rules slots (kAfter cfg.numId slots k curs) cur
                 = .error e)))) := by
  intro rows
  induction rows with
  | nil =>
    intro k prev objs err h
    simp only [dataRows] at h
    cases h
    exact ⟨[], [], [], rfl, by simp, rfl, rfl, by simp, fun _ => Or.inl rfl, by simp⟩
  | cons row rest ih =>
    intro k prev objs err h
    simp only [dataRows] at h
    split at h
    · rename_i e hend
      cases h
      refine ⟨[], row :: rest, [], rfl, by simp, rfl, rfl, by simp, by simp, ?_⟩
      intro e' he'; cases he'
      exact ⟨row, rest, rfl, Or.inl hend⟩
    · rename_i hend
      cases h
      exact ⟨[], row :: rest, [], rfl, by simp, rfl, rfl, by simp,
        fun _ => Or.inr ⟨row, rest, rfl, hend⟩, by simp⟩
    · rename_i hend
      split at h
      · rename_i e hcur
        cases h
        refine ⟨[], row :: rest, [], rfl, by simp, rfl, rfl, by simp, by simp, ?_⟩
        intro e' he'; cases he'
        exact ⟨row, rest, rfl, Or.inr ⟨hend, Or.inl (by simpa [lastPrev] using hcur)⟩⟩
      · rename_i cur hcur
        split at h
        · rename_i e hcon
          cases h
          refine ⟨[], row :: rest, [], rfl, by simp, rfl, rfl, by simp, by simp, ?_⟩
          intro e' he'; cases he'
          exact ⟨row, rest, rfl, Or.inr ⟨hend, Or.inr ⟨cur, by simpa [lastPrev] using hcur,
            by simpa [kAfter] using hcon⟩⟩⟩
        · rename_i o ho
          cases h
          obtain ⟨data, tail, curs, h1, h2, h3, h4, h5, h6, h7⟩ :=
            ih (nextK cfg.numId slots k cur) (some cur)
              (dataRows cv cfg slots p (nextK cfg.numId slots k cur) (some cur) rest).objs
              (dataRows cv cfg slots p (nextK cfg.numId slots k cur) (some cur) rest).err rfl
          refine ⟨row :: data, tail, cur :: curs, by simp [h1], ?_, by simp [curRows, hcur, h3],
            by simp [h4], ?_, h6, ?_⟩
          · intro r hr
            simp only [List.mem_cons] at hr
            rcases hr with hr | hr
            · exact hr ▸ hend
            · exact h2 r hr
          · intro i cur' kk o' hc' hk' ho'
            cases i with
            | zero =>
              simp only [callIdxs] at hk'
              simp at hc' hk' ho'; subst hc'; subst hk'; subst ho'; exact ho
            | succ i =>
              simp only [callIdxs] at hk'
              exact h5 i cur' kk o' (by simpa using hc') (by simpa using hk') (by simpa using ho')
          · rw [lastPrev_cons]
            simpa [kAfter] using h7

theorem iterTable_spec {V : Type} (cv : Conv V) (cfg : Cfg V) :
    ∀ (s : Sheet) (objs : List (Option (Obj V))) (err : Option Err),
      iterTable cv cfg s = ⟨objs, err⟩ →
      ((∀ r ∈ s, rowEmpty r = true) ∧ objs = [] ∧ err = none) ∨
      ∃ pre title rest, s = pre ++ title :: rest ∧ (∀ r ∈ pre, rowEmpty r = true) ∧
        rowEmpty title = false ∧
        ((∃ e, bindTitles (title.map fun c => titleOf c.val) cfg.known cfg.rules = .error e ∧
            objs = [] ∧ err = some e) ∨
         ∃ slots, bindTitles (title.map fun c => titleOf c.val) cfg.known cfg.rules = .ok slots ∧
            dataRows cv cfg slots (ladderPos cfg (title.map fun c => titleOf c.val)) 0 none rest
              = ⟨objs, err⟩) := by
  intro s
  induction s with
  | nil => intro objs err h; simp only [iterTable] at h; cases h; exact Or.inl ⟨by simp, rfl, rfl⟩
  | cons row rest ih =>
    intro objs err h
    simp only [iterTable] at h
    by_cases hre : rowEmpty row = true
    · simp only [hre, if_true] at h
      rcases ih objs err h with ⟨h1, h2, h3⟩ | ⟨pre, title, rest', h1, h2, h3, h4⟩
      · refine Or.inl ⟨?_, h2, h3⟩
        intro r hr
        simp only [List.mem_cons] at hr
        rcases hr with hr | hr
        · exact hr ▸ hre
        · exact h1 r hr
      · refine Or.inr ⟨row :: pre, title, rest', by simp [h1], ?_, h3, h4⟩
        intro r hr
        simp only [List.mem_cons] at hr
        rcases hr with hr | hr
        · exact hr ▸ hre
        · exact h2 r hr
    · have hre' : rowEmpty row = false := by
        cases hr : rowEmpty row with
        | false => rfl
        | true => exact absurd hr hre
      simp only [hre', Bool.false_eq_true, if_false] at h
      refine Or.inr ⟨[], row, rest, rfl, by simp, hre', ?_⟩
      split at h
      · rename_i e he
        cases h
        exact Or.inl ⟨e, he, rfl, rfl⟩
      · rename_i slots hs
        exact Or.inr ⟨slots, hs, h⟩

/-! ## ladder reading = plain reading of the filled sheet -/

theorem dataRows_ladder_irrel {V : Type} (cv : Conv V) (st : Stop) (l l' : Bool) (n : Nat)
    (rs : List (Rule V)) (ex : List Key) (slots : List Slot) (p : Option Nat) :
    ∀ (rows : List Row) (k : Nat) (prev : Option Row),
      dataRows cv ⟨st, l, n, rs, ex⟩ slots p k prev rows
        = dataRows cv ⟨st, l', n, rs, ex⟩ slots p k prev rows := by
  intro rows
  induction rows with
  | nil => intro k prev; simp [dataRows]
  | cons row rest ih =>
    intro k prev
    simp only [dataRows]
    split
    · rfl
    · rfl
    · split
      · rfl
      · split
        · rfl
        · rw [ih]

theorem dataRows_fill {V : Type} (cv : Conv V) (cfg : Cfg V) (slots : List Slot) (p : Option Nat) :
    ∀ (rows : List Row) (k : Nat) (prev : Option Row) (rows' : List Row),
      fillRows cfg.stop p prev rows = .ok rows' →
      ∀ prev', dataRows cv cfg slots p k prev rows = dataRows cv cfg slots none k prev' rows' := by
  intro rows
  induction rows with
  | nil => intro k prev rows' h prev'; simp [fillRows] at h; subst h; simp [dataRows]
  | cons row rest ih =>
    intro k prev rows' h prev'
    simp only [fillRows] at h
    split at h
    · rename_i hend
      split at h
      · cases h
      · rename_i cur hcur
        split at h
        · cases h
        · rename_i r hr
          cases h
          have hend' := endFires_curRow cfg.stop p prev row cur hend hcur
          have hplain : curRow none prev' cur = .ok cur := by simp [curRow]
          simp only [dataRows, hend, hcur, hend', hplain]
          rw [ih (nextK cfg.numId slots k cur) (some cur) r hr (some cur)]
    · rename_i hne
      cases h
      simp only [dataRows]
      cases he : endFires cfg.stop row with
      | error e => rfl
      | ok b =>
        cases b with
        | true => rfl
        | false => exact absurd he (hne)

theorem iterTable_fill {V : Type} (cv : Conv V) (st : Stop) (n : Nat) (rs : List (Rule V))
    (ex : List Key) :
    ∀ (s s' : Sheet), fillSheet st s = .ok s' →
      iterTable cv ⟨st, true, n, rs, ex⟩ s = iterTable cv ⟨st, false, n, rs, ex⟩ s' := by
  intro s
  induction s with
  | nil => intro s' h; simp [fillSheet] at h; subst h; simp [iterTable]
  | cons row rest ih =>
    intro s' h
    simp only [fillSheet] at h
    by_cases hre : rowEmpty row = true
    · simp only [hre, if_true] at h
      split at h
      · cases h
      · rename_i r hr
        cases h
        simp only [iterTable, hre, if_true]
        exact ih r hr
    · have hre' : rowEmpty row = false := by
        cases hr : rowEmpty row with
        | false => rfl
        | true => exact absurd hr hre
      simp only [hre', Bool.false_eq_true, if_false] at h
      split at h
      · cases h
      · rename_i r hr
        cases h
        simp only [iterTable, hre', Bool.false_eq_true, if_false, Cfg.known]
        split
        · rfl
        · rename_i slots _
          simp only [ladderPos, if_true, Bool.false_eq_true, if_false]
          rw [dataRows_fill cv ⟨st, true, n, rs, ex⟩ slots _ rest 0 none r hr none]
          exact dataRows_ladder_irrel cv st true false n rs ex slots none r 0 none

/-! ## which cell holds the value of a column for a data row -/

/-- `cell` holds the value of column `j` for the `i`-th row of `rows` (the rows after the title
row): it is the cell of that row, or — ladder table whose first titled column is `p` — the cell of
the nearest row above that is not "same as above" in column `j` (the first row never is) -/
def Holder (p : Option Nat) (rows : List Row) (i j : Nat) (cell : Cell) : Prop :=
  ∃ i' row, i' ≤ i ∧ rows[i']? = some row ∧ row[j]? = some cell ∧
    match p with
    | none => i' = i
    | some p =>
      (∀ i'' r, i' < i'' → i'' ≤ i → rows[i'']? = some r → BlankRun p r j) ∧
      (i' = 0 ∨ ¬ BlankRun p row j)

theorem curRows_holder (p : Option Nat) (data curs : List Row)
    (h : curRows p none data = .ok curs) :
    ∀ (i : Nat) (cur : Row) (j : Nat) (cell : Cell),
      curs[i]? = some cur → cur[j]? = some cell → Holder p data i j cell := by
  cases p with
  | none =>
    rw [curRows_plain] at h
    cases h
    intro i cur j cell hc hj
    exact ⟨i, cur, Nat.le_refl _, hc, hj, rfl⟩
  | some p =>
    obtain ⟨hlen, h0, hstep⟩ := curRows_step (some p) data none curs h
    intro i
    induction i with
    | zero =>
      intro cur j cell hc hj
      have hlt : 0 < data.length := by have := getElem?_lt_of_some _ _ _ hc; omega
      obtain ⟨cur0, hc0, hcr⟩ := h0 data[0] (by simp [hlt])
      rw [hc] at hc0; cases hc0
      simp only [curRow] at hcr
      cases hcr
      exact ⟨0, data[0], Nat.le_refl _, by simp [hlt], hj, by intro i'' r h1 h2; omega, Or.inl rfl⟩
    | succ i ih =>
      intro cur j cell hc hj
      have hlt : i + 1 < data.length := by have := getElem?_lt_of_some _ _ _ hc; omega
      have hlti : i < curs.length := by omega
      obtain ⟨cur', hc', hcr⟩ := hstep i data[i + 1] curs[i] (by simp [hlt]) (by simp [hlti])
      rw [hc] at hc'; cases hc'
      simp only [curRow] at hcr
      obtain ⟨_, hb1, hb2⟩ := fillRow_spec p curs[i] data[i + 1] cur hcr
      by_cases hb : BlankRun p data[i + 1] j
      · have hji := (hb1 j hb).1
        rw [hj] at hji
        obtain ⟨i', row, g1, g2, g3, g4, g5⟩ := ih curs[i] j cell (by simp [hlti]) hji.symm
        refine ⟨i', row, by omega, g2, g3, ?_, g5⟩
        intro i'' r k1 k2 k3
        by_cases hk : i'' ≤ i
        · exact g4 i'' r k1 hk k3
        · have : i'' = i + 1 := by omega
          subst this
          simp [hlt] at k3; subst k3
          exact hb
      · have hji := hb2 j hb
        rw [hj] at hji
        exact ⟨i + 1, data[i + 1], Nat.le_refl _, by simp [hlt], hji.symm,
          by intro i'' r h1 h2; omega, Or.inr hb⟩

theorem Holder.append (p : Option Nat) (data tail : List Row) (i j : Nat) (cell : Cell)
    (hi : i < data.length) (h : Holder p data i j cell) : Holder p (data ++ tail) i j cell := by
  obtain ⟨i', row, h1, h2, h3, h4⟩ := h
  refine ⟨i', row, h1, by rw [List.getElem?_append_left (by omega)]; exact h2, h3, ?_⟩
  cases p with
  | none => exact h4
  | some p =>
    refine ⟨?_, h4.2⟩
    intro i'' r k1 k2 k3
    rw [List.getElem?_append_left (by omega)] at k3
    exact h4.1 i'' r k1 k2 k3

/-! ## the filled sheet -/

theorem fillRows_spec (stop : Stop) (p : Option Nat) :
    ∀ (rows : List Row) (prev : Option Row) (rows' : List Row),
      fillRows stop p prev rows = .ok rows' →
      ∃ data tail curs, rows = data ++ tail ∧ rows' = curs ++ tail ∧
        (∀ r ∈ data, endFires stop r = .ok false) ∧
        (∀ t rest, tail = t :: rest → endFires stop t ≠ .ok false) ∧
        curRows p prev data = .ok curs := by
  intro rows
  induction rows with
  | nil =>
    intro prev rows' h
    simp [fillRows] at h; subst h
    exact ⟨[], [], [], rfl, rfl, by simp, by simp, rfl⟩
  | cons row rest ih =>
    intro prev rows' h
    simp only [fillRows] at h
    split at h
    · rename_i hend
      split at h
      · cases h
      · rename_i cur hcur
        split at h
        · cases h
        · rename_i r hr
          cases h
          obtain ⟨data, tail, curs, h1, h2, h3, h4, h5⟩ := ih (some cur) r hr
          refine ⟨row :: data, tail, cur :: curs, by simp [h1], by simp [h2], ?_, h4,
            by simp [curRows, hcur, h5]⟩
          intro x hx
          simp only [List.mem_cons] at hx
          rcases hx with hx | hx
          · exact hx ▸ hend
          · exact h3 x hx
    · rename_i hne
      cases h
      refine ⟨[], row :: rest, [], rfl, rfl, by simp, ?_, rfl⟩
      intro t rest' ht
      cases ht
      exact hne

theorem fillGo_total (prev : Row) :
    ∀ (cs : List Cell) (i : Nat), (cs ≠ [] → i + cs.length ≤ prev.length) →
      ∃ r, fillGo prev i cs = .ok r := by
  intro cs
  induction cs with
  | nil => intro i _; exact ⟨[], rfl⟩
  | cons c cs ih =>
    intro i hi
    have hi' := hi (by simp)
    simp only [fillGo]
    by_cases hc : c.val.isEmpty = true
    · simp only [hc, if_true]
      have hlt : i < prev.length := by simp at hi'; omega
      obtain ⟨r, hr⟩ := ih (i + 1) (fun _ => by simp at hi'; omega)
      simp [hlt, hr]
    · simp [hc]

theorem curRow_total (p : Option Nat) (prev : Option Row) (row : Row)
    (h : ∀ pr, prev = some pr → pr.length = row.length) :
    ∃ cur, curRow p prev row = .ok cur ∧ cur.length = row.length := by
  unfold curRow
  split
  · rename_i p' pr
    have hl := h pr rfl
    obtain ⟨r, hr⟩ := fillGo_total pr (row.drop p') p' (by
      intro hne
      have : p' < row.length := by
        rcases Nat.lt_or_ge p' row.length with h' | h'
        · exact h'
        · exact absurd (List.drop_eq_nil_of_le h') hne
      simp; omega)
    have : fillRow p' pr row = .ok (row.take p' ++ r) := by simp [fillRow, hr]
    exact ⟨_, this, (fillRow_spec p' pr row _ this).1⟩
  · exact ⟨row, rfl, rfl⟩

theorem fillRows_total (stop : Stop) (p : Option Nat) (n : Nat) :
    ∀ (rows : List Row) (prev : Option Row), (∀ r ∈ rows, r.length = n) →
      (∀ pr, prev = some pr → pr.length = n) → ∃ rows', fillRows stop p prev rows = .ok rows' := by
  intro rows
  induction rows with
  | nil => intro prev _ _; exact ⟨[], rfl⟩
  | cons row rest ih =>
    intro prev hr hp
    simp only [fillRows]
    split
    · obtain ⟨cur, hcur, hlen⟩ := curRow_total p prev row
        (fun pr hpr => by rw [hp pr hpr, hr row (by simp)])
      obtain ⟨r, hr'⟩ := ih (some cur) (fun x hx => hr x (by simp [hx]))
        (fun pr hpr => by cases hpr; rw [hlen, hr row (by simp)])
      simp [hcur, hr']
    · exact ⟨_, rfl⟩

/-! ## looking a cell up by its coordinate -/

/-- the cell with coordinate `c` (the first one, reading the sheet row by row) -/
def cellAt (s : Sheet) (c : List Char) : Option Cell := s.flatten.find? (fun x => x.coord = c)

theorem find_of_nodup (l : List Cell) (hnd : (l.map fun x => x.coord).Nodup) (cell : Cell)
    (hm : cell ∈ l) : l.find? (fun x => x.coord = cell.coord) = some cell := by
  induction l with
  | nil => cases hm
  | cons a as ih =>
    simp only [List.map_cons, List.nodup_cons] at hnd
    simp only [List.mem_cons] at hm
    rcases hm with hm | hm
    · subst hm; simp
    · have hne : a.coord ≠ cell.coord := by
        intro heq
        apply hnd.1
        rw [heq]
        exact List.mem_map.mpr ⟨cell, hm, rfl⟩
      simp only [List.find?_cons]
      simp [hne, ih hnd.2 hm]

/-! ## when a row yields `None` -/

theorem keyEmpty_true : ∀ (l : List Src), keyEmpty l = .ok true →
    ∀ s ∈ l, ∃ c, s = .cell c ∧ c.val = .blank := by
  intro l
  induction l with
  | nil => intro _ s hs; cases hs
  | cons a as ih =>
    intro h s hs
    cases a with
    | none => simp [keyEmpty] at h
    | range n c => simp [keyEmpty] at h
    | cell c =>
      simp only [keyEmpty] at h
      split at h
      · rename_i hb
        simp only [List.mem_cons] at hs
        rcases hs with hs | hs
        · exact ⟨c, hs, hb⟩
        · exact ih h s hs
      · cases h

theorem construct_none {V : Type} (cv : Conv V) (numId : Nat) (rules : List (Rule V))
    (slots : List Slot) (k : Nat) (row : Row) (h : construct cv numId rules slots k row = .ok none) :
    0 < numId ∧ ∃ srcs, mapE (srcOf row) slots = .ok srcs ∧
      ((∀ s ∈ srcs.take numId, ∃ c, s = .cell c ∧ c.val = .blank) ∨
       (∃ attrs, zipInit cv k rules srcs = .ok attrs ∧ numId ≤ rules.length ∧
          ∀ a ∈ attrs.take numId, a.1.isNone cv = true)) := by
  unfold construct at h
  split at h
  · cases h
  · rename_i srcs hs
    split at h
    · cases h
    · rename_i ke hke
      split at h
      · rename_i hc
        simp only [Bool.and_eq_true, decide_eq_true_eq] at hc
        obtain ⟨hk, hn⟩ := hc
        subst hk
        exact ⟨hn, srcs, hs, Or.inl (keyEmpty_true _ hke)⟩
      · split at h
        · cases h
        · rename_i hlen
          split at h
          · cases h
          · rename_i attrs ha
            split at h
            · rename_i hc
              simp only [Bool.and_eq_true, decide_eq_true_eq] at hc
              obtain ⟨hn, hk⟩ := hc
              refine ⟨hn, srcs, hs, Or.inr ⟨attrs, ha, by omega, ?_⟩⟩
              unfold keyIsNone at hk
              rw [List.all_eq_true] at hk
              exact hk
            · cases h

theorem srcOf_cell (row : Row) (sl : Slot) (c : Cell) (h : srcOf row sl = .ok (.cell c)) :
    ∃ j, sl = .at j ∧ row[j]? = some c := by
  cases sl with
  | none => simp [srcOf] at h
  | range n i =>
    simp only [srcOf] at h
    split at h <;> cases h
  | «at» j =>
    simp only [srcOf] at h
    split at h
    · rename_i c' hc; cases h; exact ⟨j, rfl, getCell_ok _ _ _ hc⟩
    · cases h

theorem mem_take_of_lt {α : Type} (l : List α) (n k : Nat) (a : α) (hk : k < n)
    (h : l[k]? = some a) : a ∈ l.take n := by
  have : (l.take n)[k]? = some a := by rw [List.getElem?_take]; simp [hk, h]
  exact List.mem_of_getElem? this

/-! ## call indices of the default factories -/

theorem callIdxs_length (n : Nat) (sl : List Slot) :
    ∀ (curs : List Row) (k : Nat), (callIdxs n sl k curs).length = curs.length := by
  intro curs
  induction curs with
  | nil => intro k; rfl
  | cons c cs ih => intro k; simp [callIdxs, ih]

theorem nextK_bounds (n : Nat) (sl : List Slot) (k : Nat) (cur : Row) :
    k ≤ nextK n sl k cur ∧ nextK n sl k cur ≤ k + 1 ∧
    (ranInit n sl cur = true → nextK n sl k cur = k + 1) := by
  unfold nextK
  split
  · exact ⟨by omega, by omega, fun _ => rfl⟩
  · rename_i h; exact ⟨by omega, by omega, fun h' => absurd h' h⟩

theorem callIdxs_bounds (n : Nat) (sl : List Slot) :
    ∀ (curs : List Row) (k i kk : Nat), (callIdxs n sl k curs)[i]? = some kk →
      k ≤ kk ∧ kk ≤ k + i := by
  intro curs
  induction curs with
  | nil => intro k i kk h; simp [callIdxs] at h
  | cons c cs ih =>
    intro k i kk h
    simp only [callIdxs] at h
    cases i with
    | zero => simp at h; subst h; omega
    | succ i =>
      have := ih (nextK n sl k c) i kk (by simpa using h)
      have hb := nextK_bounds n sl k c
      omega

/-- a row whose `__init__` ran pushes the call index of every later row -/
theorem callIdxs_lt (n : Nat) (sl : List Slot) :
    ∀ (curs : List Row) (k i i' kk kk' : Nat) (cur : Row), i < i' →
      (callIdxs n sl k curs)[i]? = some kk → (callIdxs n sl k curs)[i']? = some kk' →
      curs[i]? = some cur → ranInit n sl cur = true → kk < kk' := by
  intro curs
  induction curs with
  | nil => intro k i i' kk kk' cur _ h; simp [callIdxs] at h
  | cons c cs ih =>
    intro k i i' kk kk' cur hii h1 h2 hc hr
    simp only [callIdxs] at h1 h2
    cases i' with
    | zero => omega
    | succ i' =>
      cases i with
      | zero =>
        simp at h1 hc; subst h1; subst hc
        have hb := callIdxs_bounds n sl cs (nextK n sl k c) i' kk' (by simpa using h2)
        have := (nextK_bounds n sl k c).2.2 hr
        omega
      | succ i =>
        exact ih (nextK n sl k c) i i' kk kk' cur (by omega) (by simpa using h1) (by simpa using h2)
          (by simpa using hc) hr

theorem construct_some_ranInit {V : Type} (cv : Conv V) (numId : Nat) (rules : List (Rule V))
    (slots : List Slot) (k : Nat) (row : Row) (o : Obj V)
    (h : construct cv numId rules slots k row = .ok (some o)) : ranInit numId slots row = true := by
  unfold construct at h
  unfold ranInit
  cases hs : mapE (srcOf row) slots with
  | error e => rw [hs] at h; cases h
  | ok srcs =>
    rw [hs] at h
    simp only [] at h ⊢
    cases hk : keyEmpty (srcs.take numId) with
    | error e => rw [hk] at h; cases h
    | ok ke =>
      rw [hk] at h
      simp only [] at h ⊢
      split at h
      · cases h
      · rename_i hc
        cases ke with
        | false => simp
        | true =>
          by_cases hn : 0 < numId
          · simp [hn] at hc
          · simp [hn]

theorem keyEmpty_of_blank : ∀ (l : List Src), (∀ s ∈ l, ∃ c, s = .cell c ∧ c.val = .blank) →
    keyEmpty l = .ok true := by
  intro l
  induction l with
  | nil => intro _; rfl
  | cons a as ih =>
    intro h
    obtain ⟨c, hc, hb⟩ := h a (by simp)
    subst hc
    simp only [keyEmpty, hb, if_true]
    exact ih (fun s hs => h s (by simp [hs]))

/-- a row whose key cells are all blank is answered with `None` before anything is converted -/
theorem construct_keyless {V : Type} (cv : Conv V) (numId : Nat) (rules : List (Rule V))
    (slots : List Slot) (k : Nat) (row : Row) (srcs : List Src)
    (hs : mapE (srcOf row) slots = .ok srcs) (hn : 0 < numId)
    (hb : ∀ s ∈ srcs.take numId, ∃ c, s = .cell c ∧ c.val = .blank) :
    construct cv numId rules slots k row = .ok none := by
  unfold construct
  rw [hs]
  simp only [keyEmpty_of_blank _ hb]
  simp [hn]

/-- the call index of a row is the start plus the number of earlier rows whose `__init__` ran -/
theorem callIdxs_count (n : Nat) (sl : List Slot) :
    ∀ (curs : List Row) (k i kk : Nat), (callIdxs n sl k curs)[i]? = some kk →
      kk = k + ((curs.take i).filter (ranInit n sl)).length := by
  intro curs
  induction curs with
  | nil => intro k i kk h; simp [callIdxs] at h
  | cons c cs ih =>
    intro k i kk h
    simp only [callIdxs] at h
    cases i with
    | zero => simp at h; subst h; simp
    | succ i =>
      have := ih (nextK n sl k c) i kk (by simpa using h)
      rw [this]
      simp only [List.take_succ_cons, List.filter_cons, nextK]
      by_cases hr : ranInit n sl c = true
      · simp [hr]; omega
      · simp [hr]

end Xls
