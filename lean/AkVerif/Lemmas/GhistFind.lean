import AkVerif.Lemmas.GhistBasic
/-!
Key-level specification of `_find_new_rcommits_in_build` (`findNew`): which report commits get an entry in
`rcommits_bparents`, and which of them are returned as "new in this build".  The *values* of the map (the parent
builds) do not influence where a commit is listed, so they are not described here.
-/
namespace Ghist
open Ak

def keys {ν} (l : List (Nat × ν)) : List Nat := l.map (·.1)

theorem lookup_isSome_iff {ν} (l : List (Nat × ν)) (k : Nat) : (l.lookup k).isSome = true ↔ k ∈ keys l := by
  induction l with
  | nil => simp [keys]
  | cons a l ih =>
    obtain ⟨k', v⟩ := a
    by_cases h : k = k'
    · subst h; simp [keys]
    · rw [lookup_cons_ne k k' v l h, ih]
      simp [keys, h]

theorem lookup_eq_none_iff_keys {ν} (l : List (Nat × ν)) (k : Nat) : l.lookup k = none ↔ k ∉ keys l := by
  rw [← lookup_isSome_iff]
  cases l.lookup k <;> simp

theorem lookup_some_mem_keys {ν} {l : List (Nat × ν)} {k : Nat} {v : ν} (h : l.lookup k = some v) : k ∈ keys l := by
  rw [← lookup_isSome_iff, h]; rfl

theorem keys_append {ν} (a b : List (Nat × ν)) : keys (a ++ b) = keys a ++ keys b := by simp [keys]

theorem keys_cons {ν} (k : Nat) (v : ν) (l : List (Nat × ν)) : keys ((k, v) :: l) = k :: keys l := rfl

/-- reachability in the graph of report commits: `RReach rcs a i` — `a` is `i` or a report ancestor of `i` -/
inductive RReach (rcs : List RC) : Nat → Nat → Prop
  | refl (i : Nat) : RReach rcs i i
  | step {a p i : Nat} {rc : RC} : rcs[i]? = some rc → p ∈ rc.parents → RReach rcs a p → RReach rcs a i

theorem RReach.extend {rcs : List RC} {a hd p : Nat} {rc : RC} (hr : RReach rcs a hd)
    (hrc : rcs[a]? = some rc) (hp : p ∈ rc.parents) : RReach rcs p hd := by
  induction hr with
  | refl => exact .step hrc hp (.refl _)
  | step h1 h2 _ ih => exact .step h1 h2 ih

def explicitAt (rcs : List RC) (k : Nat) : Prop := ∃ rc, rcs[k]? = some rc ∧ rc.explicit = true

/-- the DFS does not look below `r` : it is a build of the current branch or its build parents are known -/
def Covered {β} (rp : Repo β) (bpar : List (Nat × List Nat)) (r : Nat) : Prop :=
  isCurBuild rp r = true ∨ r ∈ keys bpar

theorem bpStop_iff {β} (rp : Repo β) (fs : FS) (r : Nat) : bpStop rp fs r = true ↔ Covered rp fs.bparents r := by
  simp only [bpStop, Covered, Bool.or_eq_true, lookup_isSome_iff]

theorem bpStop_false_iff {β} (rp : Repo β) (fs : FS) (r : Nat) :
    bpStop rp fs r = false ↔ isCurBuild rp r = false ∧ r ∉ keys fs.bparents := by
  have := bpStop_iff rp fs r
  cases h : bpStop rp fs r
  · simp only [true_iff]
    rw [h] at this
    simp only [Covered] at this
    constructor
    · cases h2 : isCurBuild rp r
      · rfl
      · exact absurd (this.mpr (Or.inl h2)) (by simp)
    · intro hk; exact absurd (this.mpr (Or.inr hk)) (by simp)
  · simp only [Bool.true_eq_false, false_iff]
    rw [h] at this
    have := this.mp rfl
    intro ⟨h1, h2⟩
    rcases this with h3 | h3
    · rw [h1] at h3; cases h3
    · exact h2 h3

/-- invariant of the DFS over report commits, relative to the map `base` it started with -/
structure BpInv {β} (rp : Repo β) (base : List (Nat × List Nat)) (V : Nat → Prop) (fs : FS) : Prop where
  ext : ∃ e, fs.bparents = e ++ base ∧ (keys e).Nodup ∧
    (∀ k ∈ keys e, k ∉ keys base ∧ isCurBuild rp k = false ∧ V k ∧
      ∃ rc, rp.rcs[k]? = some rc ∧ ∀ p ∈ rc.parents, Covered rp fs.bparents p) ∧
    fs.new.Nodup ∧ (∀ k, k ∈ fs.new ↔ k ∈ keys e ∧ explicitAt rp.rcs k)

theorem bp_hyps {β} (rp : Repo β) (anc : List (Nat × List Nat)) (base : List (Nat × List Nat)) (V : Nat → Prop)
    (hV : ∀ {r rc p}, V r → rp.rcs[r]? = some rc → p ∈ rc.parents → V p) :
    BpHyps rp anc (BpInv rp base V) (fun s s' => ∀ k, k ∈ keys s.bparents → k ∈ keys s'.bparents)
      (fun s r => Covered rp s.bparents r) V where
  Vstep := hV
  Rrefl := fun _ _ hk => hk
  Rtrans := fun h1 h2 k hk => h2 k (h1 k hk)
  Cmono := by
    intro s s' p hR hC
    rcases hC with hC | hC
    · exact Or.inl hC
    · exact Or.inr (hR p hC)
  Cstop := fun _ hs => (bpStop_iff _ _ _).mp hs
  Hadd := by
    intro s0 s r rc prs _ hVr _ hstop hrc _ hP hCp _
    obtain ⟨e, he, hnd, hk, hnn, hnew⟩ := hP.ext
    obtain ⟨hcur, hnk⟩ := (bpStop_false_iff rp s r).mp hstop
    have hmono : ∀ k, k ∈ keys s.bparents → k ∈ keys (s.add r prs rc.explicit).bparents := by
      intro k hk'; simp only [FS.add, keys_cons]; exact List.mem_cons_of_mem _ hk'
    have hcm : ∀ p, Covered rp s.bparents p → Covered rp (s.add r prs rc.explicit).bparents p := by
      intro p hp
      rcases hp with hp | hp
      · exact Or.inl hp
      · exact Or.inr (hmono p hp)
    refine ⟨⟨(r, prs) :: e, ?_, ?_, ?_, ?_, ?_⟩, hmono, ?_⟩
    · simp [FS.add, he]
    · rw [keys_cons, List.nodup_cons]
      refine ⟨?_, hnd⟩
      intro hre
      apply hnk; rw [he, keys_append]; exact List.mem_append_left _ hre
    · intro k hk'
      rw [keys_cons] at hk'
      rcases List.mem_cons.mp hk' with hk' | hk'
      · subst hk'
        refine ⟨?_, hcur, hVr, rc, hrc, fun p hp => hcm p (hCp p hp)⟩
        intro hb; apply hnk; rw [he, keys_append]; exact List.mem_append_right _ hb
      · obtain ⟨h1, h2, h3, rc', h4, h5⟩ := hk k hk'
        exact ⟨h1, h2, h3, rc', h4, fun p hp => hcm p (h5 p hp)⟩
    · simp only [FS.add]
      split
      · rw [List.nodup_append]
        refine ⟨hnn, by simp, ?_⟩
        intro a ha b hb
        simp at hb; subst hb
        intro hab; subst hab
        have := ((hnew a).mp ha).1
        apply hnk; rw [he, keys_append]; exact List.mem_append_left _ this
      · exact hnn
    · intro k
      simp only [FS.add, keys_cons]
      split
      · rename_i hex
        rw [List.mem_append, hnew k]
        constructor
        · rintro (⟨h1, h2⟩ | h1)
          · exact ⟨List.mem_cons_of_mem _ h1, h2⟩
          · simp at h1; subst h1; exact ⟨List.mem_cons_self, rc, hrc, hex⟩
        · rintro ⟨h1, h2⟩
          rcases List.mem_cons.mp h1 with h1 | h1
          · subst h1; right; simp
          · left; exact ⟨h1, h2⟩
      · rename_i hex
        rw [hnew k]
        constructor
        · rintro ⟨h1, h2⟩; exact ⟨List.mem_cons_of_mem _ h1, h2⟩
        · rintro ⟨h1, h2⟩
          rcases List.mem_cons.mp h1 with h1 | h1
          · subst h1
            obtain ⟨rc', h3, h4⟩ := h2
            rw [hrc] at h3; cases h3
            exact absurd h4 hex
          · exact ⟨h1, h2⟩
    · right; simp [FS.add, keys_cons]

/-- what `findNew` does to the keys of `rcommits_bparents` and what it returns as new commits -/
structure FindSpec {β} (rp : Repo β) (base : List (Nat × List Nat)) (heads : List Nat)
    (bpar : List (Nat × List Nat)) (new : List Nat) : Prop where
  ext : ∃ e, bpar = e ++ base ∧ (keys e).Nodup ∧
    (∀ k ∈ keys e, k ∉ keys base ∧ isCurBuild rp k = false ∧ (∃ hd ∈ heads, RReach rp.rcs k hd) ∧
      ∃ rc, rp.rcs[k]? = some rc ∧ ∀ p ∈ rc.parents, Covered rp bpar p) ∧
    new.Nodup ∧ (∀ k, k ∈ new ↔ k ∈ keys e ∧ explicitAt rp.rcs k)
  heads : ∀ hd ∈ heads, Covered rp bpar hd

theorem findNew_spec {β} {rp : Repo β} (hT : RcTopo rp.rcs) {br : Br} {heads : List Nat}
    {bpar : List (Nat × List Nat)} {new pb : List Nat}
    (hf : findNew rp br heads = .ok (bpar, new, pb)) : FindSpec rp br.bparents heads bpar new := by
  unfold findNew at hf
  split at hf
  · cases hf
  · rename_i fs hfold
    split at hf
    · cases hf
    · cases hf
      let V : Nat → Prop := fun k => ∃ hd ∈ heads, RReach rp.rcs k hd
      have hV : ∀ {r rc p}, V r → rp.rcs[r]? = some rc → p ∈ rc.parents → V p := by
        intro r rc p ⟨hd, hhd, hr⟩ hrc hp
        exact ⟨hd, hhd, hr.extend hrc hp⟩
      have H := bp_hyps rp br.anc br.bparents V hV
      have h0 : BpInv rp br.bparents V ⟨br.bparents, []⟩ :=
        ⟨⟨[], by simp, by simp [keys], by simp [keys], by simp, by simp [keys]⟩⟩
      obtain ⟨hP, _, hC⟩ := bp_fold_ind (bp rp br.anc rp.rcs.length) H
        (bp_ind hT H rp.rcs.length) heads.reverse ⟨br.bparents, []⟩ fs h0
        (fun p hp => ⟨p, List.mem_reverse.mp hp, RReach.refl _⟩) hfold
      obtain ⟨e, he, hnd, hk, hnn, hnew⟩ := hP.ext
      exact ⟨⟨e, he, hnd, hk, hnn, hnew⟩, fun hd hhd => hC hd (List.mem_reverse.mpr hhd)⟩

end Ghist
