import AkVerif.Lemmas.LLCompleteTop
import AkVerif.Lemmas.LLC03
import AkVerif.Lemmas.LLFactAll
import AkVerif.Lemmas.LLSession
/-!
The composed theorems of C01–C03 for `constructG` (the constructor for a dictionary with production
templates, whose generated productions enter as data; this is what the driver executes).

* `BuiltG` / `constructG_built` — what `constructG T inp = .ok P` says; `BuiltG.core`, `builtG_struct`.
* C03 (`parse_total_G`, `parse_terminates_G`, `stack_bound_G`, `accepted_no_cycle_G`): no assumption on
  the template data.
* C01/C02 (`parse_valid_G`, `exact_G`, `reject_G`): the names of the dictionary must not have the shape of
  a factorisation helper (`PlainNames`, a decidable condition on the data; automatic without `__`).
-/
set_option linter.unusedSectionVars false
namespace LL
open Ak

/-! ### unfolding the constructor -/

structure BuiltG (T : Tmpl) (inp : CtorIn) (P : Parser) : Prop where
  hD : (tokenNames inp).any (fun t => hasDunder t.name) = false
  hskip : skipSet inp (tokenNames inp) = .ok P.skip
  hU : createProdsT T 0 inp.prods [] = .ok P.userProds
  hF : factorize (tokenNames inp) P.userProds inp.smart = .ok (P.prods, P.suffix)
  hterms : P.terminals = sadd (tokenNames inp) endSym
  hstart : P.start = parseSym inp.start
  hV : verifyPart1 P.terminals P.start P.prods = .ok ()
  hN : nullables P.prods = .ok P.nullables
  hFi : firstSets P.terminals P.nullables P.prods = .ok P.first
  hFo : followSets P.terminals P.nullables P.first P.prods P.start endSym = .ok P.follow
  hT : mkTable P.terminals P.nullables P.first P.follow P.prods = .ok P.table
  hR : recCheck P.prods P.terminals P.nullables (sortedKeys P.prods) = .ok ()
  hsyn : P.syn = inp.syn
  hkw : P.kw = inp.kw

theorem constructG_built {T : Tmpl} {inp : CtorIn} {P : Parser} (h : constructG T inp = .ok P) :
    BuiltG T inp P := by
  unfold constructG at h
  dsimp only at h
  split at h
  · simp at h
  · rename_i hD
    obtain ⟨skip, hskip, h⟩ := Except.bind_ok h
    obtain ⟨U, hU, h⟩ := Except.bind_ok h
    obtain ⟨⟨G, suffix⟩, hF, h⟩ := Except.bind_ok h
    simp only at h
    obtain ⟨_, hV, h⟩ := Except.bind_ok h
    obtain ⟨nulls, hN, h⟩ := Except.bind_ok h
    obtain ⟨first, hFi, h⟩ := Except.bind_ok h
    obtain ⟨follow, hFo, h⟩ := Except.bind_ok h
    obtain ⟨table, hT, h⟩ := Except.bind_ok h
    obtain ⟨_, hR, h⟩ := Except.bind_ok h
    simp only [Except.ok.injEq] at h
    subst h
    exact { hD := by simpa using hD, hskip := hskip, hU := hU, hF := hF, hterms := rfl, hstart := rfl, hV := hV,
            hN := hN, hFi := hFi, hFo := hFo, hT := hT, hR := hR, hsyn := rfl, hkw := rfl }

section G
variable {T : Tmpl} {inp : CtorIn} {P : Parser}

theorem BuiltG.core (hB : BuiltG T inp P) : Core P :=
  { hendT := by rw [hB.hterms]; exact mem_sadd.2 (Or.inr rfl), hV := verifyPart1_ok hB.hV, hN := hB.hN,
    hT := hB.hT, hR := hB.hR }

theorem builtG_struct (hB : BuiltG T inp P) : (P.prods.map (·.1)).Nodup ∧ endSym ∉ P.suffix := by
  obtain ⟨h1, h2⟩ := factorize_struct hB.hF
  refine ⟨h1, fun h => ?_⟩
  have := h2 _ h
  simp [Sym.isSuf, endSym, Sym.user] at this

/-! ### C03: no assumption on the template data -/

theorem parse_total_G (h : constructG T inp = .ok P) (raw : List (List Char × List Char)) :
    ∃ k, ∀ fuel, k ≤ fuel → (∃ t, P.parse raw fuel = .ok t) ∨ P.parse raw fuel = .error .parsingError :=
  parse_total_of_built (constructG_built h).core (builtG_struct (constructG_built h)).1
    (builtG_struct (constructG_built h)).2 raw

theorem parse_terminates_G (h : constructG T inp = .ok P) (raw : List (List Char × List Char)) :
    ∃ k, ∀ fuel, k ≤ fuel → P.parse raw fuel ≠ .error .outOfFuel :=
  parse_terminates_of_built (constructG_built h).core (builtG_struct (constructG_built h)).1 raw

theorem stack_bound_G (h : constructG T inp = .ok P) :
    ∃ B, ∀ (raw : List (List Char × List Char)) (n : Nat) (st : List (Frame Sym)),
      iter P.cfg (P.tokens raw) n (initStack startSym P.start endSym) = .cont st →
        st.length ≤ ((P.tokens raw).length + 1) * B :=
  stack_bound_of_built (constructG_built h).core (builtG_struct (constructG_built h)).1

theorem accepted_no_cycle_G (h : constructG T inp = .ok P) :
    ¬ ∃ X, Plus (Reach1 P.prods P.nullables) X X := by
  have hB := constructG_built h
  have h1 := verifyPart1_ok hB.hV
  obtain ⟨hnd, _⟩ := builtG_struct hB
  have hknown : ∀ X rules, (X, rules) ∈ P.prods → ∀ r ∈ rules, ∀ s ∈ r.rhs,
      s ∈ P.terminals ∨ s ∈ P.prods.map (·.1) :=
    fun X rules hm r hr s hs => h1.known s (mem_psyms.2 ⟨X, rules, hm, r, hr, hs⟩)
  exact ((recCheck_rec_iff hnd (fun k hk => h1.disjoint k hk) hknown (fun k hk => mem_sortedKeys.2 hk)
    (fun s hs => Or.inr (mem_sortedKeys.1 hs))).2).1 hB.hR

end G

/-! ### names that are no helper names -/

/-- every name of the dictionary decodes to a plain symbol (no `X__Snn` shape): holds automatically for
names without `__`; for the generated names of templates (`S__ELEMENT`, `L__TAIL`, …) it is a decidable
condition on the data -/
def PlainNames (prods : List (List Char × List (List (List Char)))) : Prop :=
  ∀ e ∈ prods, (parseSym e.1).path = [] ∧ ∀ p ∈ e.2, ∀ n ∈ p, (parseSym n).path = []

instance (prods : List (List Char × List (List (List Char)))) : Decidable (PlainNames prods) := by
  unfold PlainNames; infer_instance

theorem plainNames_of_noDunder {prods : List (List Char × List (List (List Char)))}
    (h : ∀ e ∈ prods, hasDunder e.1 = false ∧ ∀ p ∈ e.2, ∀ n ∈ p, hasDunder n = false) :
    PlainNames prods := by
  intro e he
  obtain ⟨h1, h2⟩ := h e he
  refine ⟨by rw [parseSym_plain h1], fun p hp n hn => ?_⟩
  rw [parseSym_plain (h2 p hp n hn)]

theorem tg_createProdsT_wf {T : Tmpl} : ∀ (prods : List (List Char × List (List (List Char)))) (n : Nat)
    (acc U : Prods Sym), createProdsT T n prods acc = .ok U → PlainNames prods → UserWF acc →
      UserWF U ∧ pkeys U = pkeys acc ++ prods.map (fun e => parseSym e.1)
  | [], n, acc, U, h, _, hacc => by
    simp only [createProdsT] at h
    cases h
    exact ⟨hacc, by simp⟩
  | (s, alts) :: rest, n, acc, U, h, hpl, hacc => by
    simp only [createProdsT] at h
    split at h
    · simp at h
    · split at h
      · simp at h
      · split at h
        · simp at h
        · rename_i hdup
          obtain ⟨hkey, hrhs1⟩ := hpl (s, alts) (by simp)
          simp only at hkey hrhs1
          have hnew : parseSym s ∉ pkeys acc := by
            intro hm
            have := (dget_isSome_iff (k := parseSym s) (d := acc)).2 hm
            exact hdup this
          have hacc' : UserWF (acc ++ [(parseSym s,
              (numberFrom n alts).map fun (i, p) => (⟨p.map parseSym, i⟩ : Rule Sym))]) := by
            refine { nodup := ?_, keyUser := ?_, symUser := ?_ }
            · simp only [pkeys, List.map_append, List.map_cons, List.map_nil]
              rw [List.nodup_append]
              refine ⟨hacc.nodup, by simp, ?_⟩
              intro a ha b hb
              simp only [List.mem_singleton] at hb
              subst hb
              intro e; subst e; exact hnew ha
            · intro k hk
              simp only [pkeys, List.map_append, List.map_cons, List.map_nil, List.mem_append,
                List.mem_singleton] at hk
              rcases hk with hk | hk
              · exact hacc.keyUser k hk
              · rw [hk, hkey]
            · intro x hx
              obtain ⟨k, rules, hm, r, hr, hxr⟩ := mem_psyms.1 hx
              simp only [List.mem_append, List.mem_singleton, Prod.mk.injEq] at hm
              rcases hm with hm | ⟨_, hm⟩
              · exact hacc.symUser x (mem_psyms.2 ⟨k, rules, hm, r, hr, hxr⟩)
              · subst hm
                have : r.rhs ∈ alts.map (fun p => p.map parseSym) := by
                  rw [← numberFrom_rhs (fun p => p.map parseSym) n alts]
                  exact List.mem_map.2 ⟨r, hr, rfl⟩
                obtain ⟨p, hp, hpr⟩ := List.mem_map.1 this
                rw [← hpr] at hxr
                obtain ⟨nm, hnm, hx'⟩ := List.mem_map.1 hxr
                rw [← hx']
                exact hrhs1 p hp nm hnm
          obtain ⟨w, hk⟩ := tg_createProdsT_wf rest _ _ U h
            (fun e he => hpl e (List.mem_cons_of_mem _ he)) hacc'
          refine ⟨w, ?_⟩
          rw [hk]; simp [pkeys]

/-- a successful `_create_productions` on a dictionary whose names are no helper names: distinct keys,
all keys and right-hand side symbols are plain symbols -/
theorem createProdsT_wf {T : Tmpl} {n : Nat} {prods : List (List Char × List (List (List Char)))}
    {acc U : Prods Sym} (h : createProdsT T n prods acc = .ok U) (hpl : PlainNames prods) (hacc : UserWF acc) :
    UserWF U ∧ pkeys U = pkeys acc ++ prods.map (fun e => parseSym e.1) :=
  tg_createProdsT_wf prods n acc U h hpl hacc

section G2
variable {T : Tmpl} {inp : CtorIn} {P : Parser}

theorem factRelD_of_builtG (hB : BuiltG T inp P) (hpl : PlainNames inp.prods) :
    FactRelD P.userProds P.prods P.suffix ∧ (P.prods.map (·.1)).Nodup := by
  obtain ⟨hU, _⟩ := createProdsT_wf hB.hU hpl userWF_nil
  exact factRelD_factorize hU (terms_path_nil hB.hD) hB.hF

/-- the start symbol is one of the user's symbols when it is a key of `productions` -/
theorem start_user_of_builtG (hB : BuiltG T inp P) (hpl : PlainNames inp.prods)
    (hs : inp.start ∈ inp.prods.map (·.1)) : P.start ∈ pkeys P.userProds := by
  obtain ⟨_, hk⟩ := createProdsT_wf hB.hU hpl userWF_nil
  rw [hk, hB.hstart]
  simp only [pkeys, List.map_nil, List.nil_append, List.mem_map]
  obtain ⟨e, he, hes⟩ := List.mem_map.1 hs
  exact ⟨e, he, by rw [hes]⟩

/-! ### C01 -/

theorem parse_valid_G (h : constructG T inp = .ok P) (hpl : PlainNames inp.prods)
    (hstart : inp.start ∈ inp.prods.map (·.1)) (raw : List (List Char × List Char))
    (hEnd : ∀ tok ∈ (P.tokens raw).dropLast, tok.name ≠ endSym)
    (fuel : Nat) (t : Tree Sym) (hp : P.parse raw fuel = .ok t) :
    t.name = P.start ∧ Derives P.terminals P.userProds t ∧ NoHelper P.suffix t ∧
      t.yield = (P.tokens raw).dropLast := by
  have hB := constructG_built h
  exact parse_sound_of_rel hB.core (factRel_of_D (verifyPart1_ok hB.hV) (factRelD_of_builtG hB hpl).1)
    (start_user_of_builtG hB hpl hstart) raw hEnd fuel t hp

/-! ### C02 -/

/-- a conflict-free table accepts every sentence of the factorised dictionary -/
theorem accepts_of_gtree_G (hB : BuiltG T inp P) (hnd : (P.prods.map (·.1)).Nodup)
    (hamb : isAmbiguous P.table = false) (d : Tree Sym) (hd : GTree P.terminals P.prods d)
    (hname : d.name = P.start) :
    ∃ k x, ∀ fuel, k ≤ fuel →
      run P.cfg (d.yield ++ [⟨endSym, []⟩]) fuel (initStack startSym P.start endSym) = .ok x := by
  have h1 := verifyPart1_ok hB.hV
  have hendT : endSym ∈ P.terminals := by rw [hB.hterms]; exact mem_sadd.2 (Or.inr rfl)
  obtain ⟨hC, hW⟩ := model_closed P.suffix hnd (fun k hk => h1.disjoint k hk) hB.hN hB.hFi hB.hFo hB.hT hamb
  exact det_complete (G := P.cfg) hC startSym P.start endSym ⟨endSym, []⟩ rfl
    (by simp [Parser.cfg, cfgOf, hendT]) hW d (pvalid_of_gtree P.table P.suffix d hd) hname
    (by have := h1.disjoint _ h1.startKey; simp [Parser.cfg, cfgOf, this])

theorem exact_G (h : constructG T inp = .ok P) (hpl : PlainNames inp.prods)
    (hstart : inp.start ∈ inp.prods.map (·.1)) (hamb : isAmbiguous P.table = false)
    (raw : List (List Char × List Char))
    (hEnd : ∀ tok ∈ (P.tokens raw).dropLast, tok.name ≠ endSym) :
    (∃ fuel t, P.parse raw fuel = .ok t) ↔
      InLang P.terminals P.userProds P.start (P.tokens raw).dropLast := by
  have hB := constructG_built h
  have h1 := verifyPart1_ok hB.hV
  obtain ⟨hD, hnd⟩ := factRelD_of_builtG hB hpl
  have hsu := start_user_of_builtG hB hpl hstart
  constructor
  · rintro ⟨fuel, t, hp⟩
    obtain ⟨hn, hd, _, hy⟩ := parse_sound_of_rel hB.core (factRel_of_D h1 hD) hsu raw hEnd fuel t hp
    exact ⟨t, hd, hn, hy⟩
  · intro hL
    have hs : P.start ∉ P.suffix := fun h => hD.sufNotUser _ h hsu
    obtain ⟨d, hd, hn, hy⟩ := (lang_eq hD (fun k hk => h1.disjoint k hk) hs _).1 hL
    obtain ⟨k, x, hk⟩ := accepts_of_gtree_G hB hnd hamb d hd hn
    refine ⟨k, x, ?_⟩
    have htoks : P.tokens raw = d.yield ++ [⟨endSym, []⟩] := by
      rw [hy]; simp [Parser.tokens]
    unfold Parser.parse
    rw [htoks]
    exact hk k (Nat.le_refl _)

theorem reject_G (h : constructG T inp = .ok P) (hpl : PlainNames inp.prods)
    (hstart : inp.start ∈ inp.prods.map (·.1)) (raw : List (List Char × List Char))
    (hEnd : ∀ tok ∈ (P.tokens raw).dropLast, tok.name ≠ endSym)
    (hnot : ¬ InLang P.terminals P.userProds P.start (P.tokens raw).dropLast) :
    ∃ k, ∀ fuel, k ≤ fuel → P.parse raw fuel = .error .parsingError := by
  have hB := constructG_built h
  have h1 := verifyPart1_ok hB.hV
  obtain ⟨hD, hnd⟩ := factRelD_of_builtG hB hpl
  have hsu := start_user_of_builtG hB hpl hstart
  obtain ⟨k, hk⟩ := parse_terminates_of_built hB.core hnd raw
  refine ⟨k, fun fuel hf => ?_⟩
  have hsuf : endSym ∉ P.suffix := fun h => h1.endNoKey (hD.sufKeys _ h)
  cases hres : P.parse raw fuel with
  | ok t =>
    exfalso
    obtain ⟨hn, hd, _, hy⟩ := parse_sound_of_rel hB.core (factRel_of_D h1 hD) hsu raw hEnd fuel t hres
    exact hnot ⟨t, hd, hn, hy⟩
  | error e =>
    rcases run_error_cases fuel _ e hres with he | he | he
    · subst he; exact absurd hres (hk fuel hf)
    · subst he; rfl
    · subst he; exact absurd hres (parse_no_stuck_of_built hB.core hnd hsuf raw fuel)

end G2

end LL
