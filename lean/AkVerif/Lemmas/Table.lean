import AkVerif.Model.Table
/-!
Lemmas about the table printer model (`Model/Table.lean`), used by `Props/C12.lean` and
`Props/C13.lean`.
-/
namespace Table
open Ak

/-! ## chunks, resize, fit -/

theorem textOf_cons (c : CHText.Chunk) (cs : Chunks) : textOf (c :: cs) = c.text ++ textOf cs := by
  simp [textOf]

theorem textOf_append (a b : Chunks) : textOf (a ++ b) = textOf a ++ textOf b := by
  simp [textOf]

theorem textOf_plain (s : List Char) : textOf [plain s] = s := by simp [textOf, plain]

theorem chunksLen_eq (cs : Chunks) : CHText.calcChunksLen cs = (textOf cs).length := by
  induction cs with
  | nil => rfl
  | cons c cs ih => simp [CHText.calcChunksLen, textOf_cons, ih]

theorem blanks_length (n : Nat) : (blanks n).length = n := by simp [blanks, CHText.spaces]

theorem blanks_zero : blanks 0 = [] := by simp [blanks, CHText.spaces]

theorem resizeLoop_zero (cs : Chunks) : textOf (CHText.resizeLoop cs 0) = [] := by
  cases cs with
  | nil => simp [CHText.resizeLoop, textOf, CHText.spaces]
  | cons c cs => simp [CHText.resizeLoop, textOf]

theorem resizeLoop_flatten (cs : Chunks) (n : Nat) :
    textOf (CHText.resizeLoop cs n) = (textOf cs ++ blanks (n - (textOf cs).length)).take n := by
  induction cs generalizing n with
  | nil => simp [CHText.resizeLoop, textOf, blanks, CHText.spaces]
  | cons c cs ih =>
    unfold CHText.resizeLoop
    by_cases h0 : n = 0
    · simp [h0, textOf]
    · simp only [h0, if_false]
      by_cases hle : c.text.length ≤ n
      · rw [if_pos hle, textOf_cons, textOf_cons, ih, List.append_assoc,
          List.take_append (l₁ := c.text), List.take_of_length_le hle, List.length_append, Nat.sub_add_eq]
      · simp only [hle, if_false, textOf_cons, resizeLoop_zero, List.append_nil]
        have : n ≤ c.text.length := by omega
        rw [List.append_assoc, List.take_append_of_le_length this]

theorem resizeChunks_flatten (cs : Chunks) (n : Nat) :
    textOf (resizeChunks cs n) = (textOf cs ++ blanks (n - (textOf cs).length)).take n := by
  unfold resizeChunks
  simp only [chunksLen_eq]
  by_cases h1 : (textOf cs).length = n
  · simp only [h1, if_true, Nat.sub_self, blanks_zero, List.append_nil]
    rw [List.take_of_length_le (by omega)]
  · simp only [h1, if_false]
    by_cases h2 : (textOf cs).length < n
    · simp only [h2, if_true, textOf_append, textOf_plain]
      rw [List.take_of_length_le]
      rw [List.length_append, blanks_length]; omega
    · simp only [h2, if_false]
      exact resizeLoop_flatten cs n

/-- text of a resized chunk list when it has to be cut -/
theorem resizeChunks_take (cs : Chunks) (n : Nat) (h : n ≤ (textOf cs).length) :
    textOf (resizeChunks cs n) = (textOf cs).take n := by
  rw [resizeChunks_flatten, List.take_append_of_le_length h]

/-- `Table.resizeChunks` is C08's `resize_chunks_list` -/
theorem resizeChunks_eq_chtext (cs : Chunks) (n : Nat) :
    CHText.resizeChunks cs (n : Int) = .ok (resizeChunks cs n) := by
  unfold CHText.resizeChunks resizeChunks
  have h0 : ¬ ((n : Int) < 0) := by omega
  simp only [h0, if_false]
  by_cases h1 : CHText.calcChunksLen cs = n
  · simp [h1]
  · have h1' : ¬ ((CHText.calcChunksLen cs : Int) = (n : Int)) := by omega
    simp only [h1, h1', if_false]
    by_cases h2 : CHText.calcChunksLen cs < n
    · have h2' : (CHText.calcChunksLen cs : Int) < (n : Int) := by omega
      have h3 : ((n : Int) - (CHText.calcChunksLen cs : Int)).toNat = n - CHText.calcChunksLen cs := by omega
      simp [h2, h2', h3, plain, blanks]
    · have h2' : ¬ (CHText.calcChunksLen cs : Int) < (n : Int) := by omega
      simp [h2, h2']

/-- the padded / truncated text a cell of width `w` shows -/
def fitSpec (text : List Char) (w : Nat) (a : Align) : List Char :=
  if text.length ≤ w then
    let fill := w - text.length
    match a with
    | .left => text ++ blanks fill
    | .right => blanks fill ++ text
    | .center => blanks (fill / 2) ++ text ++ blanks (fill - fill / 2)
  else
    text.take (w - min Gen.C12.dotsMax w) ++ List.replicate (min Gen.C12.dotsMax w) Gen.C12.dotChar

theorem fitToWidth_flatten (cs : Chunks) (w : Nat) (a : Align) :
    textOf (fitToWidth cs w a) = fitSpec (textOf cs) w a := by
  unfold fitToWidth fitSpec
  simp only [chunksLen_eq]
  by_cases h1 : (textOf cs).length = w
  · have hle : (textOf cs).length ≤ w := by omega
    simp only [h1, if_true, Nat.le_refl, Nat.sub_self]
    cases a <;> simp [blanks_zero]
  · simp only [h1, if_false]
    by_cases h2 : (textOf cs).length < w
    · have hle : (textOf cs).length ≤ w := by omega
      simp only [h2, hle, if_true]
      cases a <;> simp [plain, textOf]
    · have hle : ¬ (textOf cs).length ≤ w := by omega
      simp only [h2, hle, if_false]
      rw [textOf_append, resizeChunks_take cs _ (by omega), textOf_plain]

theorem fitSpec_length (text : List Char) (w : Nat) (a : Align) : (fitSpec text w a).length = w := by
  unfold fitSpec
  by_cases h : text.length ≤ w
  · simp only [h, if_true]
    cases a <;> simp [blanks_length] <;> omega
  · simp only [h, if_false, List.length_append, List.length_take, List.length_replicate]
    omega

theorem fitText_length (cell : Chunks × Align) (w : Nat) : (fitText cell w).length = w := by
  unfold fitText
  rw [fitToWidth_flatten, fitSpec_length]

/-! ## `Except` plumbing -/

theorem bind_ok {ε α β : Type} {x : Except ε α} {f : α → Except ε β} {b : β} :
    (x >>= f) = .ok b ↔ ∃ a, x = .ok a ∧ f a = .ok b := by
  cases x <;> simp [bind, Except.bind]

/-! ## column widths -/

/-- a negotiated width respects the column's bounds -/
def WOk (cw : Col × Nat) : Prop :=
  cw.2 ≤ cw.1.maxW ∧ (cw.1.minW ≤ cw.1.maxW → cw.1.minW ≤ cw.2)

theorem initWidths_ok (cols : List Col) (ws : List (Col × Nat)) (h : initWidths cols = .ok ws) :
    ws.map (·.1) = cols ∧ ∀ cw ∈ ws, WOk cw := by
  induction cols generalizing ws with
  | nil => simp [initWidths] at h; subst h; simp
  | cons c cs ih =>
    simp only [initWidths, bind_ok] at h
    obtain ⟨t, _, rest, hr, h⟩ := h
    cases h
    obtain ⟨h1, h2⟩ := ih rest hr
    refine ⟨by simp [h1], ?_⟩
    intro cw hcw
    rcases List.mem_cons.mp hcw with rfl | hcw
    · simp only [WOk]; omega
    · exact h2 cw hcw

theorem updWidths_ok (r : Record) (ws ws' : List (Col × Nat)) (h : updWidths r ws = .ok ws')
    (hok : ∀ cw ∈ ws, WOk cw) : ws'.map (·.1) = ws.map (·.1) ∧ ∀ cw ∈ ws', WOk cw := by
  induction ws generalizing ws' with
  | nil => simp [updWidths] at h; subst h; simp
  | cons cw cs ih =>
    obtain ⟨c, w⟩ := cw
    simp only [updWidths, bind_ok] at h
    obtain ⟨w', hw', rest, hr, h⟩ := h
    cases h
    obtain ⟨h1, h2⟩ := ih rest hr (fun x hx => hok x (List.mem_cons_of_mem _ hx))
    refine ⟨by simp [h1], ?_⟩
    intro x hx
    have hc : WOk (c, w) := hok (c, w) (List.mem_cons_self)
    rcases List.mem_cons.mp hx with rfl | hx
    · simp only [WOk] at hc ⊢
      split at hw'
      · simp only [bind_ok] at hw'
        obtain ⟨v, _, l, _, hw'⟩ := hw'
        cases hw'
        omega
      · cases hw'; exact hc
    · exact h2 x hx

theorem detectLoop_ok (body : List Record) (ws ws' : List (Col × Nat)) (h : detectLoop ws body = .ok ws')
    (hok : ∀ cw ∈ ws, WOk cw) : ws'.map (·.1) = ws.map (·.1) ∧ ∀ cw ∈ ws', WOk cw := by
  induction body generalizing ws with
  | nil => simp [detectLoop] at h; subst h; exact ⟨rfl, hok⟩
  | cons r rs ih =>
    simp only [detectLoop, bind_ok] at h
    obtain ⟨ws1, h1, h⟩ := h
    obtain ⟨hm, hok1⟩ := updWidths_ok r ws ws1 h1 hok
    split at h
    · cases h; exact ⟨hm, hok1⟩
    · obtain ⟨hm2, hok2⟩ := ih ws1 h hok1
      exact ⟨hm2.trans hm, hok2⟩

theorem detectWidths_ok (cols : List Col) (body : List Record) (ws : List (Col × Nat))
    (h : detectWidths cols body = .ok ws) : ws.map (·.1) = cols ∧ ∀ cw ∈ ws, WOk cw := by
  simp only [detectWidths, bind_ok] at h
  obtain ⟨ws0, h0, h⟩ := h
  obtain ⟨hm0, hok0⟩ := initWidths_ok cols ws0 h0
  obtain ⟨hm, hok⟩ := detectLoop_ok body ws0 ws h hok0
  exact ⟨hm.trans hm0, hok⟩

/-! ## geometry of lines -/

theorem borderText_length (ws : List Nat) : (borderText ws).length = tableWidth ws := by
  induction ws with
  | nil => simp [borderText, tableWidth]
  | cons w ws ih =>
    simp only [borderText, tableWidth, List.length_cons, List.length_append, List.length_replicate, ih,
      List.sum_cons]
    omega

theorem joinCells_length (cells : List (List Char)) :
    (joinCells cells).length = tableWidth (cells.map List.length) := by
  induction cells with
  | nil => simp [joinCells, tableWidth]
  | cons c cs ih =>
    simp only [joinCells, tableWidth, List.length_cons, List.length_append, ih, List.map_cons,
      List.sum_cons, List.length_map]
    omega

theorem recordCells_lengths (r : Record) (ws : List (Col × Nat)) (cells : List (List Char))
    (h : recordCells r ws = .ok cells) : cells.map List.length = ws.map (·.2) := by
  induction ws generalizing cells with
  | nil => simp [recordCells] at h; subst h; rfl
  | cons cw cs ih =>
    obtain ⟨c, w⟩ := cw
    simp only [recordCells, bind_ok] at h
    obtain ⟨v, _, cell, _, rest, hr, h⟩ := h
    cases h
    simp [fitText_length, ih rest hr]

theorem titleCells_lengths (i : Nat) (ws : List (Col × Nat)) :
    (titleCells i ws).map List.length = ws.map (·.2) := by
  induction ws with
  | nil => rfl
  | cons cw cs ih =>
    obtain ⟨c, w⟩ := cw
    simp [titleCells, fitText_length, ih]

theorem tableWidth_ge_two (ws : List Nat) (h : ws ≠ []) : 2 ≤ tableWidth ws := by
  cases ws with
  | nil => exact absurd rfl h
  | cons w ws => simp [tableWidth]; omega

theorem framed_length (cs : Chunks) (tw : Nat) (h : 2 ≤ tw) : (framed cs tw).length = tw := by
  simp [framed, fitText_length]; omega

theorem bodyLine_length (ws : List (Col × Nat)) (n : Int) (tl : TLine) (l : Line) (hne : ws ≠ [])
    (h : bodyLine ws (tableWidth (ws.map (·.2))) n tl = .ok l) :
    l.text.length = tableWidth (ws.map (·.2)) := by
  have h2 : 2 ≤ tableWidth (ws.map (·.2)) := tableWidth_ge_two _ (by simpa using hne)
  cases tl with
  | row r =>
    simp only [bodyLine, bind_ok] at h
    obtain ⟨cells, hc, h⟩ := h
    cases h
    simp [joinCells_length, recordCells_lengths r ws cells hc]
  | brk =>
    simp only [bodyLine] at h
    cases h
    simp [blanks_length]; omega
  | skipped =>
    simp only [bodyLine] at h
    cases h
    exact framed_length _ _ h2

theorem bodyLines_length (ws : List (Col × Nat)) (n : Int) (tls : List TLine) (ls : List Line)
    (hne : ws ≠ []) (h : bodyLines ws (tableWidth (ws.map (·.2))) n tls = .ok ls) :
    ∀ l ∈ ls, l.text.length = tableWidth (ws.map (·.2)) := by
  induction tls generalizing ls with
  | nil => simp [bodyLines] at h; subst h; simp
  | cons t ts ih =>
    simp only [bodyLines, bind_ok] at h
    obtain ⟨l, hl, rest, hr, h⟩ := h
    cases h
    intro x hx
    rcases List.mem_cons.mp hx with rfl | hx
    · exact bodyLine_length ws n t _ hne hl
    · exact ih rest hr x hx

/-- the `|` of a cell line sit at the `+` of the border -/
theorem joinCells_aligned (hne : Gen.C12.dashChar ≠ Gen.C12.cornerChar) (ws : List Nat)
    (cells : List (List Char)) (h : cells.map List.length = ws) (p : Nat)
    (hp : (borderText ws)[p]? = some Gen.C12.cornerChar) : (joinCells cells)[p]? = some sep := by
  induction ws generalizing cells p with
  | nil =>
    cases cells with
    | nil =>
      cases p with
      | zero => simp [joinCells]
      | succ k => simp [borderText] at hp
    | cons c cs => simp at h
  | cons w ws ih =>
    cases cells with
    | nil => simp at h
    | cons c cs =>
      simp only [List.map_cons, List.cons.injEq] at h
      obtain ⟨hw, hcs⟩ := h
      cases p with
      | zero => simp [joinCells]
      | succ k =>
        simp only [borderText, List.getElem?_cons_succ] at hp
        simp only [joinCells, List.getElem?_cons_succ]
        by_cases hk : k < w
        · rw [List.getElem?_append_left (by simpa using hk)] at hp
          simp only [List.getElem?_replicate, hk, if_true, Option.some.injEq] at hp
          exact absurd hp hne
        · rw [List.getElem?_append_right (by simpa using Nat.le_of_not_lt hk)] at hp
          rw [List.getElem?_append_right (by omega)]
          simp only [List.length_replicate] at hp
          rw [hw]
          exact ih cs hcs _ hp

/-- offset of the separator that opens column `j` -/
def colOffset (ws : List Nat) (j : Nat) : Nat := ((ws.take j).map (· + 1)).sum

/-- the characters between the separators of column `j` are that column's cell -/
theorem joinCells_slice (cells : List (List Char)) (j : Nat) (cell : List Char)
    (h : cells[j]? = some cell) :
    ((joinCells cells).drop (colOffset (cells.map List.length) j + 1)).take cell.length = cell := by
  induction cells generalizing j with
  | nil => simp at h
  | cons c cs ih =>
    cases j with
    | zero =>
      simp only [List.getElem?_cons_zero, Option.some.injEq] at h
      subst h
      simp [joinCells, colOffset]
    | succ k =>
      simp only [List.getElem?_cons_succ] at h
      have := ih k h
      simp only [joinCells, colOffset, List.map_cons, List.take_succ_cons, List.sum_cons, List.drop_succ_cons]
      rw [show c.length + 1 + ((List.map List.length cs).take k |>.map (· + 1)).sum
            = c.length + (colOffset (cs.map List.length) k + 1) by simp [colOffset]; omega]
      rw [List.drop_append]
      simp only [List.drop_of_length_le (Nat.le_add_right c.length _), List.nil_append]
      rw [show c.length + (colOffset (cs.map List.length) k + 1) - c.length
            = colOffset (cs.map List.length) k + 1 by omega]
      exact this

theorem bodyLines_get (ws : List (Col × Nat)) (tw : Nat) (n : Int) (tls : List TLine) (ls : List Line)
    (h : bodyLines ws tw n tls = .ok ls) :
    ls.length = tls.length ∧
    ∀ (i : Nat) (tl : TLine), tls[i]? = some tl → ∃ l, ls[i]? = some l ∧ bodyLine ws tw n tl = .ok l := by
  induction tls generalizing ls with
  | nil => simp [bodyLines] at h; subst h; simp
  | cons t ts ih =>
    simp only [bodyLines, bind_ok] at h
    obtain ⟨l, hl, rest, hr, h⟩ := h
    cases h
    obtain ⟨h1, h2⟩ := ih rest hr
    refine ⟨by simp [h1], ?_⟩
    intro i tl hi
    cases i with
    | zero => simp at hi; subst hi; exact ⟨l, by simp, hl⟩
    | succ k => simpa using h2 k tl (by simpa using hi)

theorem bodyLines_mem (ws : List (Col × Nat)) (tw : Nat) (n : Int) (tls : List TLine) (ls : List Line)
    (h : bodyLines ws tw n tls = .ok ls) (l : Line) (hl : l ∈ ls) :
    ∃ tl ∈ tls, bodyLine ws tw n tl = .ok l := by
  induction tls generalizing ls with
  | nil => simp [bodyLines] at h; subst h; simp at hl
  | cons t ts ih =>
    simp only [bodyLines, bind_ok] at h
    obtain ⟨l0, hl0, rest, hr, h⟩ := h
    cases h
    rcases List.mem_cons.mp hl with rfl | hl
    · exact ⟨t, List.mem_cons_self, hl0⟩
    · obtain ⟨tl, htl, h'⟩ := ih rest hr hl
      exact ⟨tl, List.mem_cons_of_mem _ htl, h'⟩

/-- every cell of a record line is the record's own field of that column, fitted to its width -/
theorem recordCells_get (r : Record) (ws : List (Col × Nat)) (cells : List (List Char))
    (h : recordCells r ws = .ok cells) (j : Nat) (c : Col) (w : Nat) (hj : ws[j]? = some (c, w)) :
    ∃ v cell, fetch c.field r = .ok v ∧ cellOf c.field.ftype c.modifier v = .ok cell ∧
      cells[j]? = some (fitText cell w) := by
  induction ws generalizing cells j with
  | nil => simp at hj
  | cons cw cs ih =>
    obtain ⟨c0, w0⟩ := cw
    simp only [recordCells, bind_ok] at h
    obtain ⟨v, hv, cell, hcell, rest, hr, h⟩ := h
    cases h
    cases j with
    | zero =>
      simp only [List.getElem?_cons_zero, Option.some.injEq, Prod.mk.injEq] at hj
      obtain ⟨rfl, rfl⟩ := hj
      exact ⟨v, cell, hv, hcell, by simp⟩
    | succ k =>
      simp only [List.getElem?_cons_succ] at hj
      obtain ⟨v', cell', h1, h2, h3⟩ := ih rest hr k hj
      exact ⟨v', cell', h1, h2, by simpa using h3⟩

/-! ## the structure of a rendering -/

/-- what `render` computed, step by step -/
structure Rendered (t t' : Tbl) (ls : List Line) (tls : List TLine) (ws : List (Col × Nat))
    (nTitle : Nat) (body : List Line) : Prop where
  tls_eq : mkTableLines (breakFields t.fmt.cols) Option.none t.records = .ok tls
  ws_eq : finalWidths t.fmt.cols
      ((applyLimits t.fmt.limF t.fmt.limL tls t.records.length).1.filterMap TLine.row?) = .ok ws
  ws_ne : ws ≠ []
  title_eq : titleCount ws = .ok nTitle
  body_eq : bodyLines ws (tableWidth (ws.map (·.2)))
      (applyLimits t.fmt.limF t.fmt.limL tls t.records.length).2
      (applyLimits t.fmt.limF t.fmt.limL tls t.records.length).1 = .ok body
  state_eq : t' = printed t ws (applyLimits t.fmt.limF t.fmt.limL tls t.records.length).2
  lines_eq : ls = [borderLine ws] ++ headerLinesOf t.header (tableWidth (ws.map (·.2)))
      ++ titleLinesOf ws nTitle ++ [borderLine ws] ++ body ++ [borderLine ws]
      ++ footerLinesOf t.footer (tableWidth (ws.map (·.2)))

theorem render_elim {t t' : Tbl} {ls : List Line} (h : render t = .ok (t', ls)) :
    ∃ tls ws nTitle body, Rendered t t' ls tls ws nTitle body := by
  simp only [render, bind_ok] at h
  obtain ⟨tls, h1, ws, h2, h⟩ := h
  split at h
  · cases h
  · rename_i hne
    simp only [bind_ok] at h
    obtain ⟨nTitle, h3, body, h4, h⟩ := h
    cases h
    exact ⟨tls, ws, nTitle, body, ⟨h1, h2, by simpa using hne, h3, h4, rfl, rfl⟩⟩

theorem render_intro {t : Tbl} {tls : List TLine} {ws : List (Col × Nat)} {nTitle : Nat} {body : List Line}
    (h1 : mkTableLines (breakFields t.fmt.cols) Option.none t.records = .ok tls)
    (h2 : finalWidths t.fmt.cols
      ((applyLimits t.fmt.limF t.fmt.limL tls t.records.length).1.filterMap TLine.row?) = .ok ws)
    (hne : ws ≠ []) (h3 : titleCount ws = .ok nTitle)
    (h4 : bodyLines ws (tableWidth (ws.map (·.2)))
      (applyLimits t.fmt.limF t.fmt.limL tls t.records.length).2
      (applyLimits t.fmt.limF t.fmt.limL tls t.records.length).1 = .ok body) :
    render t = .ok (printed t ws (applyLimits t.fmt.limF t.fmt.limL tls t.records.length).2,
      [borderLine ws] ++ headerLinesOf t.header (tableWidth (ws.map (·.2)))
      ++ titleLinesOf ws nTitle ++ [borderLine ws] ++ body ++ [borderLine ws]
      ++ footerLinesOf t.footer (tableWidth (ws.map (·.2)))) := by
  have : ws.isEmpty = false := by cases ws <;> simp_all
  simp [render, bind, Except.bind, h1, h2, h3, h4, this]

/-! ## break lines and limits -/

theorem mkTableLines_rows (bfs : List Field) (prev : Option (List Val)) (rs : List Record)
    (tls : List TLine) (h : mkTableLines bfs prev rs = .ok tls) : tls.filterMap TLine.row? = rs := by
  induction rs generalizing prev tls with
  | nil => simp [mkTableLines] at h; subst h; rfl
  | cons r rs ih =>
    simp only [mkTableLines, bind_ok] at h
    obtain ⟨cur, _, rest, hr, h⟩ := h
    have := ih _ rest hr
    cases prev with
    | none => simp at h; subst h; simp [TLine.row?, this]
    | some p =>
      by_cases hp : listPyEq p cur = true <;> simp [hp] at h <;> (subst h; simp [List.filterMap_cons, TLine.row?, this])

/-- break lines never stand first-of-two, last, or next to the skipped line: each is followed by a record -/
def brkOk : List TLine → Prop
  | [] => True
  | .row _ :: rest => brkOk rest
  | .brk :: .row _ :: rest => brkOk rest
  | _ => False

theorem mkTableLines_brkOk (bfs : List Field) (prev : Option (List Val)) (rs : List Record)
    (tls : List TLine) (h : mkTableLines bfs prev rs = .ok tls) : brkOk tls := by
  induction rs generalizing prev tls with
  | nil => simp [mkTableLines] at h; subst h; trivial
  | cons r rs ih =>
    simp only [mkTableLines, bind_ok] at h
    obtain ⟨cur, _, rest, hr, h⟩ := h
    have := ih _ rest hr
    cases prev with
    | none => simp at h; subst h; simpa [brkOk] using this
    | some p =>
      by_cases hp : listPyEq p cur = true <;> simp [hp] at h <;> (subst h; simpa [brkOk] using this)

theorem brkOk_tail : ∀ (l : List TLine) (x : TLine), brkOk (x :: l) → (x.isRec = true → brkOk l) ∧
    (x.isRec = false → ∃ r rest, x = .brk ∧ l = .row r :: rest ∧ brkOk rest)
  | l, .row _, h => ⟨fun _ => by simpa [brkOk] using h, fun hx => by simp [TLine.isRec] at hx⟩
  | [], .brk, h => by simp [brkOk] at h
  | .row r :: rest, .brk, h => ⟨fun hx => by simp [TLine.isRec] at hx, fun _ => ⟨r, rest, rfl, rfl, by simpa [brkOk] using h⟩⟩
  | .brk :: _, .brk, h => by simp [brkOk] at h
  | .skipped :: _, .brk, h => by simp [brkOk] at h
  | _, .skipped, h => by simp [brkOk] at h

/-- two neighbouring lines of a well-broken list hold at least one record -/
theorem brkOk_pair (l : List TLine) (h : brkOk l) (k : Nat) (a b : TLine) (rest : List TLine)
    (hd : l.drop k = a :: b :: rest) : a.isRec = true ∨ b.isRec = true := by
  induction k generalizing l with
  | zero =>
    simp only [List.drop_zero] at hd
    subst hd
    cases ha : a.isRec with
    | true => exact Or.inl rfl
    | false =>
      obtain ⟨_, h2⟩ := brkOk_tail _ _ h
      obtain ⟨r, rest', _, hl, _⟩ := h2 ha
      cases hl
      exact Or.inr rfl
  | succ k ih =>
    cases l with
    | nil => simp at hd
    | cons x xs =>
      simp only [List.drop_succ_cons] at hd
      cases hx : x.isRec with
      | true => exact ih xs ((brkOk_tail _ _ h).1 hx) hd
      | false =>
        obtain ⟨r, rest', _, hl, hrest⟩ := (brkOk_tail _ _ h).2 hx
        subst hl
        cases k with
        | zero =>
          simp only [List.drop_zero, List.cons.injEq] at hd
          exact Or.inl (by rw [← hd.1]; rfl)
        | succ k' =>
          have : brkOk (TLine.row r :: rest') := by simpa [brkOk] using hrest
          exact ih _ this hd

theorem countP_pos_of_pair (l : List TLine) (h : brkOk l) (k m : Nat) (hm : 2 ≤ m) (hk : k + m ≤ l.length) :
    1 ≤ ((l.drop k).take m).countP TLine.isRec := by
  have hlen : 2 ≤ (l.drop k).length := by simp; omega
  match hd : l.drop k with
  | [] => simp [hd] at hlen
  | [_] => simp [hd] at hlen
  | a :: b :: rest =>
    have := brkOk_pair l h k a b rest hd
    obtain ⟨m', rfl⟩ : ∃ m', m = m' + 2 := ⟨m - 2, by omega⟩
    simp only [List.take_succ_cons, List.countP_cons]
    rcases this with h1 | h1 <;> simp [h1] <;> omega

theorem countP_isRec_eq (l : List TLine) : l.countP TLine.isRec = (l.filterMap TLine.row?).length := by
  induction l with
  | nil => rfl
  | cons x xs ih => cases x <;> simp [List.countP_cons, List.filterMap_cons, TLine.isRec, TLine.row?, ih]

theorem pyFirst_nat {α} (l : List α) (n : Nat) : pyFirst l (n : Int) = l.take n := by
  unfold pyFirst
  cases n with
  | zero => simp
  | succ k =>
    have h1 : ¬ ((k + 1 : Nat) : Int) = 0 := by omega
    have h2 : ((k + 1 : Nat) : Int) > 0 := by omega
    simp only [h1, h2, if_false, if_true, Int.toNat_natCast]

theorem pyLast_nat {α} (l : List α) (n : Nat) : pyLast l (n : Int) = l.drop (l.length - n) := by
  unfold pyLast
  cases n with
  | zero => simp
  | succ k =>
    have h1 : ¬ ((k + 1 : Nat) : Int) = 0 := by omega
    have h2 : ((k + 1 : Nat) : Int) > 0 := by omega
    simp only [h1, h2, if_false, if_true, Int.toNat_natCast]

/-- the hidden middle part of the body when limits apply -/
def hiddenPart (tls : List TLine) (nf nl : Nat) : List TLine := (tls.drop nf).take (tls.length - nf - nl)

theorem split_three (tls : List TLine) (nf nl : Nat) (h : nf + nl ≤ tls.length) :
    tls = tls.take nf ++ hiddenPart tls nf nl ++ tls.drop (tls.length - nl) := by
  unfold hiddenPart
  have h1 : tls.drop (tls.length - nl) = (tls.drop nf).drop (tls.length - nf - nl) := by
    rw [List.drop_drop]; congr 1; omega
  rw [h1, List.append_assoc, List.take_append_drop, List.take_append_drop]

theorem applyLimits_nat (nf nl : Nat) (tls : List TLine) (nrec : Nat) :
    applyLimits (some (nf : Int)) (some (nl : Int)) tls nrec =
      if tls.length > nf + nl + 1 then
        (tls.take nf ++ [TLine.skipped] ++ tls.drop (tls.length - nl),
         (nrec : Int) - ((tls.take nf ++ tls.drop (tls.length - nl)).countP TLine.isRec : Nat))
      else (tls, 0) := by
  unfold applyLimits
  simp only [pyFirst_nat, pyLast_nat]
  by_cases h : tls.length > nf + nl + 1
  · have : (tls.length : Int) > (nf : Int) + (nl : Int) + 1 := by omega
    simp [h, this]
  · have : ¬ (tls.length : Int) > (nf : Int) + (nl : Int) + 1 := by omega
    simp [h, this]

/-- the announced number is the number of records in the hidden part, and it is at least one -/
theorem skipped_count (tls : List TLine) (nf nl : Nat) (hb : brkOk tls) (h : tls.length > nf + nl + 1) :
    ((tls.countP TLine.isRec : Nat) : Int) - ((tls.take nf ++ tls.drop (tls.length - nl)).countP TLine.isRec : Nat)
      = ((hiddenPart tls nf nl).countP TLine.isRec : Nat) ∧
    1 ≤ (hiddenPart tls nf nl).countP TLine.isRec := by
  constructor
  · have hs := split_three tls nf nl (by omega)
    have : tls.countP TLine.isRec = (tls.take nf).countP TLine.isRec + (hiddenPart tls nf nl).countP TLine.isRec
        + (tls.drop (tls.length - nl)).countP TLine.isRec := by
      conv => lhs; rw [hs]
      simp [List.countP_append, Nat.add_assoc]
    rw [List.countP_append]
    omega
  · exact countP_pos_of_pair tls hb nf _ (by omega) (by omega)

end Table
