import AkVerif.Model.Table
/-!
Lemmas about the table printer model (`Model/Table.lean`), used by `Props/C12.lean` and
`Props/C13.lean`.
-/
namespace Table
open Ak

/-! ## chunks, resize, fit -/

theorem chunksLen_eq (cs : Chunks) : chunksLen cs = cs.flatten.length := by
  induction cs with
  | nil => rfl
  | cons c cs ih => simp [chunksLen, ih]

theorem blanks_length (n : Nat) : (blanks n).length = n := by simp [blanks]

theorem resizeLoop_zero (cs : Chunks) : (resizeLoop cs 0).flatten = [] := by
  cases cs with
  | nil => simp [resizeLoop, blanks]
  | cons c cs => simp [resizeLoop]

theorem resizeLoop_flatten (cs : Chunks) (n : Nat) :
    (resizeLoop cs n).flatten = (cs.flatten ++ blanks (n - cs.flatten.length)).take n := by
  induction cs generalizing n with
  | nil => simp [resizeLoop, blanks]
  | cons c cs ih =>
    unfold resizeLoop
    by_cases h0 : n = 0
    · simp [h0]
    · simp only [h0, if_false]
      by_cases hle : c.length ≤ n
      · rw [if_pos hle, List.flatten_cons, List.flatten_cons, ih, List.append_assoc,
          List.take_append (l₁ := c), List.take_of_length_le hle, List.length_append, Nat.sub_add_eq]
      · simp only [hle, if_false, List.flatten_cons, resizeLoop_zero, List.append_nil]
        have : n ≤ c.length := by omega
        rw [List.append_assoc, List.take_append_of_le_length this]

theorem resizeChunks_flatten (cs : Chunks) (n : Nat) :
    (resizeChunks cs n).flatten = (cs.flatten ++ blanks (n - cs.flatten.length)).take n := by
  unfold resizeChunks
  simp only [chunksLen_eq]
  by_cases h1 : cs.flatten.length = n
  · simp only [h1, if_true, Nat.sub_self, blanks, List.replicate_zero, List.append_nil]
    rw [List.take_of_length_le (by omega)]
  · simp only [h1, if_false]
    by_cases h2 : cs.flatten.length < n
    · simp only [h2, if_true, List.flatten_append, List.flatten_cons, List.flatten_nil, List.append_nil]
      rw [List.take_of_length_le]
      rw [List.length_append, blanks_length]; omega
    · simp only [h2, if_false]
      exact resizeLoop_flatten cs n

/-- text of a resized chunk list when it has to be cut -/
theorem resizeChunks_take (cs : Chunks) (n : Nat) (h : n ≤ cs.flatten.length) :
    (resizeChunks cs n).flatten = cs.flatten.take n := by
  rw [resizeChunks_flatten, List.take_append_of_le_length h]

/-- the padded / truncated text a cell of width `w` shows -/
def fitSpec (text : List Char) (w : Nat) (a : Align) : List Char :=
  if text.length ≤ w then
    let fill := w - text.length
    match a with
    | .left => text ++ blanks fill
    | .right => blanks fill ++ text
    | .center => blanks (fill / 2) ++ text ++ blanks (fill - fill / 2)
  else
    text.take (w - min Gen.C12.dotsMax w) ++ List.replicate (min Gen.C12.dotsMax w) Gen.C12.dotChar

theorem fitToWidth_flatten (cs : Chunks) (w : Nat) (a : Align) :
    (fitToWidth cs w a).flatten = fitSpec cs.flatten w a := by
  unfold fitToWidth fitSpec
  simp only [chunksLen_eq]
  by_cases h1 : cs.flatten.length = w
  · have hle : cs.flatten.length ≤ w := by omega
    simp only [h1, if_true, Nat.le_refl, Nat.sub_self]
    cases a <;> simp [blanks]
  · simp only [h1, if_false]
    by_cases h2 : cs.flatten.length < w
    · have hle : cs.flatten.length ≤ w := by omega
      simp only [h2, hle, if_true]
      cases a <;> simp [blanks]
    · have hle : ¬ cs.flatten.length ≤ w := by omega
      simp only [h2, hle, if_false]
      rw [List.flatten_append, resizeChunks_take cs _ (by omega)]
      simp

theorem fitSpec_length (text : List Char) (w : Nat) (a : Align) : (fitSpec text w a).length = w := by
  unfold fitSpec
  by_cases h : text.length ≤ w
  · simp only [h, if_true]
    cases a <;> simp [blanks] <;> omega
  · simp only [h, if_false, List.length_append, List.length_take, List.length_replicate]
    omega

theorem fitText_length (cell : Chunks × Align) (w : Nat) : (fitText cell w).length = w := by
  unfold fitText
  rw [fitToWidth_flatten, fitSpec_length]

/-! ## `Except` plumbing -/

theorem bind_ok {ε α β : Type} {x : Except ε α} {f : α → Except ε β} {b : β} :
    (x >>= f) = .ok b ↔ ∃ a, x = .ok a ∧ f a = .ok b := by
  cases x <;> simp [bind, Except.bind]

/-! ## column widths -/

/-- a negotiated width respects the column's bounds -/
def WOk (cw : Col × Nat) : Prop :=
  cw.2 ≤ cw.1.maxW ∧ (cw.1.minW ≤ cw.1.maxW → cw.1.minW ≤ cw.2)

theorem initWidths_ok (cols : List Col) (ws : List (Col × Nat)) (h : initWidths cols = .ok ws) :
    ws.map (·.1) = cols ∧ ∀ cw ∈ ws, WOk cw := by
  induction cols generalizing ws with
  | nil => simp [initWidths] at h; subst h; simp
  | cons c cs ih =>
    simp only [initWidths, bind_ok] at h
    obtain ⟨t, _, rest, hr, h⟩ := h
    cases h
    obtain ⟨h1, h2⟩ := ih rest hr
    refine ⟨by simp [h1], ?_⟩
    intro cw hcw
    rcases List.mem_cons.mp hcw with rfl | hcw
    · simp only [WOk]; omega
    · exact h2 cw hcw

theorem updWidths_ok (r : Record) (ws ws' : List (Col × Nat)) (h : updWidths r ws = .ok ws')
    (hok : ∀ cw ∈ ws, WOk cw) : ws'.map (·.1) = ws.map (·.1) ∧ ∀ cw ∈ ws', WOk cw := by
  induction ws generalizing ws' with
  | nil => simp [updWidths] at h; subst h; simp
  | cons cw cs ih =>
    obtain ⟨c, w⟩ := cw
    simp only [updWidths, bind_ok] at h
    obtain ⟨w', hw', rest, hr, h⟩ := h
    cases h
    obtain ⟨h1, h2⟩ := ih rest hr (fun x hx => hok x (List.mem_cons_of_mem _ hx))
    refine ⟨by simp [h1], ?_⟩
    intro x hx
    have hc : WOk (c, w) := hok (c, w) (List.mem_cons_self)
    rcases List.mem_cons.mp hx with rfl | hx
    · simp only [WOk] at hc ⊢
      split at hw'
      · simp only [bind_ok] at hw'
        obtain ⟨v, _, l, _, hw'⟩ := hw'
        cases hw'
        omega
      · cases hw'; exact hc
    · exact h2 x hx

theorem detectLoop_ok (body : List Record) (ws ws' : List (Col × Nat)) (h : detectLoop ws body = .ok ws')
    (hok : ∀ cw ∈ ws, WOk cw) : ws'.map (·.1) = ws.map (·.1) ∧ ∀ cw ∈ ws', WOk cw := by
  induction body generalizing ws with
  | nil => simp [detectLoop] at h; subst h; exact ⟨rfl, hok⟩
  | cons r rs ih =>
    simp only [detectLoop, bind_ok] at h
    obtain ⟨ws1, h1, h⟩ := h
    obtain ⟨hm, hok1⟩ := updWidths_ok r ws ws1 h1 hok
    split at h
    · cases h; exact ⟨hm, hok1⟩
    · obtain ⟨hm2, hok2⟩ := ih ws1 h hok1
      exact ⟨hm2.trans hm, hok2⟩

theorem detectWidths_ok (cols : List Col) (body : List Record) (ws : List (Col × Nat))
    (h : detectWidths cols body = .ok ws) : ws.map (·.1) = cols ∧ ∀ cw ∈ ws, WOk cw := by
  simp only [detectWidths, bind_ok] at h
  obtain ⟨ws0, h0, h⟩ := h
  obtain ⟨hm0, hok0⟩ := initWidths_ok cols ws0 h0
  obtain ⟨hm, hok⟩ := detectLoop_ok body ws0 ws h hok0
  exact ⟨hm.trans hm0, hok⟩

end Table
