import AkVerif.Lemmas.LLSmart2
/-!
Smart undo, part 3 — `factorizeAll` establishes `Base`, the end of `smartUndo` (deleting the inlined
helper symbols), and the factorisation relation for `factorize` with either value of `smart`.
-/
set_option linter.unusedSectionVars false
namespace LL
open Ak

theorem isSuf_iff {s : Sym} : s.isSuf = true ↔ s.path ≠ [] := by
  cases h : s.path <;> simp [Sym.isSuf, h]

theorem flatD_key {σ : Type} [DecidableEq σ] {G : Prods σ} {S : List σ} {s : σ} {e : List σ}
    (h : FlatD G S s e) : s ∈ G.map (·.1) := by
  cases h with
  | base hp _ => obtain ⟨rules, hm, _⟩ := mem_gramRules.1 hp; exact List.mem_map.2 ⟨_, hm, rfl⟩
  | step hp _ _ => obtain ⟨rules, hm, _⟩ := mem_gramRules.1 hp; exact List.mem_map.2 ⟨_, hm, rfl⟩

/-- the result of the plain factorisation has the properties the smart undo relies on -/
theorem base_of_factorizeAll {terms : List Sym} {U D0 : Prods Sym} {fuel : Nat} (hU : UserWF U)
    (hterm : ∀ t ∈ terms, t.path = []) (h : factorizeAll fuel U = .ok D0) (hnd : (D0.map (·.1)).Nodup) :
    Base terms D0 ((D0.map (·.1)).filter Sym.isSuf) := by
  obtain ⟨_, sp2⟩ := factorizeAll_spec fuel U D0 h
  have hrel := factRelD_plain hU h hnd
  have hS : ∀ x, x ∈ (D0.map (·.1)).filter Sym.isSuf ↔ x ∈ D0.map (·.1) ∧ x.path ≠ [] := by
    intro x; rw [List.mem_filter, isSuf_iff]
  have hsyms : ∀ s rules, (s, rules) ∈ U → ∀ x ∈ rulesSyms rules, x.path = [] := by
    intro s rules hm x hx
    obtain ⟨r, hr, hxr⟩ := mem_rulesSyms.1 hx
    exact hU.symUser x (mem_psyms.2 ⟨s, rules, hm, r, hr, hxr⟩)
  refine { nd := hnd, sufKey := fun b hb => ((hS b).1 hb).1, two := ?_, par := ?_, uniq := ?_, inner := ?_,
           termNot := ?_ }
  · intro b hb rules hg
    obtain ⟨s, rules0, part, hmU, hp, hep⟩ := sp2 _ (dget_mem hg)
    obtain ⟨rs, sp, epart, _⟩ := factorizeList_shape fuel s rules0 part hp
    have htwo := (factorizeList_two fuel s rules0 part hp rs sp epart).2
    rw [epart] at hep
    simp only [List.mem_cons, Prod.mk.injEq] at hep
    rcases hep with ⟨e1, _⟩ | hep
    · exfalso
      have : b.path = [] := by
        rw [e1]; exact hU.keyUser s (List.mem_map.2 ⟨(s, rules0), hmU, rfl⟩)
      exact ((hS b).1 hb).2 this
    · exact htwo b rules hep
  · intro k rules hg r hr l hl hlS
    obtain ⟨s, rules0, part, hmU, hp, hep⟩ := sp2 _ (dget_mem hg)
    rcases (factorizeList_occ fuel s rules0 part hp k rules hep r hr).2 l hl with h1 | ⟨g, h1, _⟩
    · exact absurd (hsyms s rules0 hmU l h1) ((hS l).1 hlS).2
    · exact ⟨g, h1⟩
  · intro k rules hg r1 h1 r2 h2 l hl1 hl2 hlS
    obtain ⟨s, rules0, part, hmU, hp, hep⟩ := sp2 _ (dget_mem hg)
    exact factorizeList_uniq fuel s rules0 part hp (hsyms s rules0 hmU) k rules hep r1 h1 r2 h2 l hl1 hl2
      ((hS l).1 hlS).2
  · intro k rules hg r hr x hx
    exact hrel.inner k rules (dget_mem hg) r hr x hx
  · intro t ht htS
    exact ((hS t).1 htS).2 (hterm t ht)

/-- the state after the loop over all keys -/
theorem undoLoop_all {terms : List Sym} {D0 : Prods Sym} {S0 : List Sym} (hB : Base terms D0 S0)
    {d' : Prods Sym} {rm : List Sym}
    (h : undoLoop terms S0 (sortBy (fun (a b : Sym) => decide (b.nameLen ≤ a.nameLen)) (D0.map (·.1))) D0 [] =
      .ok (d', rm)) :
    Inv D0 S0 (sortBy (fun (a b : Sym) => decide (b.nameLen ≤ a.nameLen)) (D0.map (·.1))) d' rm := by
  have hperm := sortBy_perm (fun (a b : Sym) => decide (b.nameLen ≤ a.nameLen)) (D0.map (·.1))
  have hnd := hperm.nodup_iff.2 hB.nd
  have hsorted : (sortBy (fun (a b : Sym) => decide (b.nameLen ≤ a.nameLen)) (D0.map (·.1))).Pairwise
      (fun a b => b.nameLen ≤ a.nameLen) := by
    have := sortBy_sorted (le := fun (a b : Sym) => decide (b.nameLen ≤ a.nameLen))
      (by intro a b; simp only [decide_eq_true_eq]; omega)
      (by intro a b c; simp only [decide_eq_true_eq]; omega) (D0.map (·.1))
    exact this.imp (by intro a b h; simpa using h)
  exact undoLoop_inv hB hnd hsorted (fun x hx => mem_sortBy.2 hx) _ [] D0 [] (d', rm) rfl (inv_init hB) h

/-- `smartUndo` keeps the factorisation relation -/
theorem smartUndo_rel {terms : List Sym} {U D0 : Prods Sym} {S0 : List Sym} {G : Prods Sym} {S : List Sym}
    (hB : Base terms D0 S0) (hrel : FactRelD U D0 S0) (h : smartUndo terms D0 S0 = .ok (G, S)) :
    FactRelD U G S ∧ (G.map (·.1)).Nodup := by
  unfold smartUndo at h
  simp only at h
  obtain ⟨⟨d', rm⟩, hloop, h⟩ := Except.bind_ok h
  simp only [Except.ok.injEq, Prod.mk.injEq] at h
  obtain ⟨eG, eS⟩ := h
  have hI := undoLoop_all hB hloop
  have hndd : (d'.map (·.1)).Nodup := by rw [hI.K]; exact hB.nd
  obtain ⟨hndG, hgetG⟩ := ddels_spec rm hndd
  rw [eG] at hndG hgetG
  have hrmS0 : ∀ b ∈ rm, b ∈ S0 := fun b hb => (hI.J1 b hb).1
  have hS : ∀ x, x ∈ S ↔ x ∈ S0 ∧ x ∉ rm := by
    intro x; rw [← eS]; simp [List.mem_filter]
  have hkeyG : ∀ k, k ∈ G.map (·.1) ↔ k ∈ D0.map (·.1) ∧ k ∉ rm := by
    intro k
    rw [← dget_isSome_iff, hgetG k, ← hI.K, ← dget_isSome_iff (d := d')]
    by_cases hk : k ∈ rm <;> simp [hk]
  have hlastfin : ∀ k, k ∉ rm → ∀ p ∈ gramRules d' k, ∀ l, p.getLast? = some l → l ∈ S0 → l ∉ rm := by
    intro k _ p hp l hl hlS
    obtain ⟨rules, hg, r, hr, e⟩ := (mem_gramRules_dget hndd).1 hp
    have hk : k ∈ D0.map (·.1) := by
      rw [← hI.K]; exact dget_isSome_iff.1 (by rw [hg]; rfl)
    exact (hI.J2 k (mem_sortBy.2 hk) rules hg r hr l (by rw [e]; exact hl) hlS).1
  have hGgram : ∀ k, k ∉ rm → ∀ p, p ∈ gramRules G k ↔ p ∈ gramRules d' k := by
    intro k hk
    exact gramRules_congr_dget hndd hndG (by rw [hgetG, if_neg hk])
  have hflat := flatD_remove hS hGgram hlastfin
  refine ⟨{ inner := ?_, flatIn := ?_, flatOut := ?_, keys := ?_, keysBack := ?_, sufKeys := ?_,
            sufNotUser := ?_ }, hndG⟩
  · intro s rules hm r hr x hx hxS
    have hg := (mem_iff_dget hndG).1 hm
    rw [hgetG] at hg
    split at hg
    · cases hg
    · exact hI.L3 s rules hg r hr x hx ((hS x).1 hxS).1
  · intro s hs e he
    have hsk := (hkeyG s).1 (flatD_key he)
    have hsS0 : s ∉ S0 := fun h0 => hs ((hS s).2 ⟨h0, hsk.2⟩)
    exact hrel.flatIn s hsS0 e ((hI.L2 s e).1 ((hflat s hsk.2 e).1 he))
  · intro s p hp
    have hfl := hrel.flatOut s p hp
    have hsU : s ∈ pkeys U := by
      obtain ⟨rules, hm, _⟩ := mem_gramRules.1 hp
      exact List.mem_map.2 ⟨_, hm, rfl⟩
    have hsrm : s ∉ rm := fun h0 => hrel.sufNotUser s (hrmS0 s h0) hsU
    exact (hflat s hsrm p).2 ((hI.L2 s p).2 hfl)
  · intro s hs
    have hsrm : s ∉ rm := fun h0 => hrel.sufNotUser s (hrmS0 s h0) hs
    exact (hkeyG s).2 ⟨hrel.keys s hs, hsrm⟩
  · intro s hs hsS
    obtain ⟨h1, h2⟩ := (hkeyG s).1 hs
    exact hrel.keysBack s h1 (fun h0 => hsS ((hS s).2 ⟨h0, h2⟩))
  · intro s hs
    obtain ⟨h1, h2⟩ := (hS s).1 hs
    exact (hkeyG s).2 ⟨hrel.sufKeys s h1, h2⟩
  · intro s hs
    exact hrel.sufNotUser s ((hS s).1 hs).1

/-- `_factorize_productions`, with or without the smart undo: the result is related to the user's
dictionary by `FactRelD`, and its keys are duplicate-free -/
theorem factRelD_factorize {terms : List Sym} {U G : Prods Sym} {S : List Sym} {smart : Bool}
    (hU : UserWF U) (hterm : ∀ t ∈ terms, t.path = []) (h : factorize terms U smart = .ok (G, S)) :
    FactRelD U G S ∧ (G.map (·.1)).Nodup := by
  unfold factorize at h
  obtain ⟨d, hd, h⟩ := Except.bind_ok h
  split at h
  · cases h
  · rename_i hnd
    have hnd : (d.map (·.1)).Nodup := Classical.not_not.1 hnd
    have hplain := factRelD_plain hU hd hnd
    cases smart with
    | false =>
      simp only [Bool.false_eq_true, if_false, Except.ok.injEq, Prod.mk.injEq] at h
      obtain ⟨e1, e2⟩ := h
      subst e1; subst e2
      exact ⟨hplain, hnd⟩
    | true =>
      simp only [if_true] at h
      exact smartUndo_rel (base_of_factorizeAll hU hterm hd hnd) hplain h

end LL
