import AkVerif.Lemmas.LLTable2
/-!
A Boolean checker for the hypotheses of `C02.ll1_as_written_unambiguous` ("LL(1) as written", every key has an
alternative), sound w.r.t. the propositions; used to exhibit a concrete grammar that meets all of them.
-/
set_option linter.unusedSectionVars false
namespace LL
open Ak

section Gen
variable {σ : Type} [DecidableEq σ]

def predDisjB (terms nulls : List σ) (first follow : SetMap σ) (A : σ) (r1 r2 : Rule σ) : Bool :=
  match startSyms terms nulls first follow A r1.rhs [], startSyms terms nulls first follow A r2.rhs [] with
  | .ok s1, .ok s2 => s1.all (fun t => decide (t ∉ s2))
  | _, _ => true

theorem predDisjB_sound {terms nulls : List σ} {first follow : SetMap σ} {A : σ} {r1 r2 : Rule σ}
    (h : predDisjB terms nulls first follow A r1 r2 = true) : PredDisjoint terms nulls first follow A r1 r2 := by
  intro ss1 ss2 h1 h2 t ht
  unfold predDisjB at h
  rw [h1, h2] at h
  simp only [List.all_eq_true, decide_eq_true_eq] at h
  exact h t ht

def pairwiseB {α : Type} (r : α → α → Bool) : List α → Bool
  | [] => true
  | a :: l => l.all (r a) && pairwiseB r l

theorem pairwiseB_sound {α : Type} {r : α → α → Bool} {R : α → α → Prop} (hr : ∀ a b, r a b = true → R a b) :
    ∀ (l : List α), pairwiseB r l = true → l.Pairwise R
  | [], _ => List.Pairwise.nil
  | a :: l, h => by
    simp only [pairwiseB, Bool.and_eq_true, List.all_eq_true] at h
    exact List.Pairwise.cons (fun b hb => hr a b (h.1 b hb)) (pairwiseB_sound hr l h.2)

/-- every key has an alternative and the predict sets of the alternatives of every key are pairwise disjoint -/
def ll1B (terms nulls : List σ) (first follow : SetMap σ) (U : Prods σ) : Bool :=
  U.all fun e => !e.2.isEmpty && pairwiseB (predDisjB terms nulls first follow e.1) e.2

theorem ll1B_sound {terms nulls : List σ} {first follow : SetMap σ} {U : Prods σ}
    (h : ll1B terms nulls first follow U = true) :
    (∀ X rules, (X, rules) ∈ U → rules ≠ []) ∧
    (∀ X rules, (X, rules) ∈ U → rules.Pairwise (PredDisjoint terms nulls first follow X)) := by
  unfold ll1B at h
  rw [List.all_eq_true] at h
  constructor
  · intro X rules hm hne
    have := h _ hm
    simp [hne] at this
  · intro X rules hm
    have := h _ hm
    simp only [Bool.and_eq_true] at this
    exact pairwiseB_sound (fun a b hab => predDisjB_sound hab) rules this.2

end Gen

/-- the hypotheses of `ll1_as_written_unambiguous` about the user's dictionary of a parser, as one Boolean -/
def ll1Check (P : Parser) : Bool :=
  match nullables P.userProds with
  | .ok NU =>
    match firstSets P.terminals NU P.userProds with
    | .ok FU =>
      match followSets P.terminals NU FU P.userProds P.start endSym with
      | .ok WU => ll1B P.terminals NU FU WU P.userProds
      | .error _ => false
    | .error _ => false
  | .error _ => false

theorem ll1Check_sound {P : Parser} (h : ll1Check P = true) :
    ∃ NU FU WU, nullables P.userProds = .ok NU ∧ firstSets P.terminals NU P.userProds = .ok FU ∧
      followSets P.terminals NU FU P.userProds P.start endSym = .ok WU ∧
      (∀ X rules, (X, rules) ∈ P.userProds → rules ≠ []) ∧
      (∀ X rules, (X, rules) ∈ P.userProds → rules.Pairwise (PredDisjoint P.terminals NU FU WU X)) := by
  unfold ll1Check at h
  split at h
  · rename_i NU hNU
    split at h
    · rename_i FU hFU
      split at h
      · rename_i WU hWU
        obtain ⟨h1, h2⟩ := ll1B_sound h
        exact ⟨NU, FU, WU, hNU, hFU, hWU, h1, h2⟩
      · simp at h
    · simp at h
  · simp at h

end LL
